(* Gap audit C15: the well-formedness clauses as theorems about the plans of the STACK MACHINES
   (pre_order_chunks_iter, response_iter, post_order_chunks_iter), the granularity of the leaves and the
   exact cover in chunk groups, min level / block size interaction, ResponseIter versus the chunk
   iterator, the root item. *)
From BaoV Require Import Model.Iter Spec.PlanSpec Spec.PlanWf Proofs.NodeLevel Proofs.NodeBits Proofs.NodeAlgebra
  Proofs.RangeBase Proofs.PlanBase Proofs.PlanQuery Proofs.PlanRun Proofs.PlanPreIter Proofs.PlanPreStruct
  Proofs.PlanPreLeaves Proofs.PlanPreCover Proofs.PlanPreHolds Proofs.PlanPost Proofs.PlanPostIter
  Proofs.PlanProps Proofs.Compose.
From Coq Require Import ZArith Lia.
Open Scope N_scope.
Arguments N.add : simpl never.
Arguments N.sub : simpl never.
Arguments N.mul : simpl never.
Arguments N.pow : simpl never.
Arguments N.shiftl : simpl never.
Arguments N.shiftr : simpl never.
Arguments N.land : simpl never.
Arguments N.div : simpl never.
Arguments N.modulo : simpl never.
Arguments N.log2 : simpl never.
Arguments N.min : simpl never.
Arguments N.max : simpl never.
Ltac Zify.zify_post_hook ::= Z.to_euclidean_division_equations.

(* ------------------------------------------------------------------------------------------- *)
(* 1. the checkers do not look at the ranges field of the items                                  *)
(* ------------------------------------------------------------------------------------------- *)
Lemma wr_pre_stack p : forall d, pre_stack_ok (map without_ranges p) d = pre_stack_ok p d.
Proof. induction p as [|[nd ir l r rs|s z ir rs] t IH]; intro d; cbn [map without_ranges pre_stack_ok]; [reflexivity| |]; now rewrite IH. Qed.

Lemma wr_post_stack p : forall d, post_stack_ok (map without_ranges p) d = post_stack_ok p d.
Proof. induction p as [|[nd ir l r rs|s z ir rs] t IH]; intro d; cbn [map without_ranges post_stack_ok]; [reflexivity| |]; now rewrite IH. Qed.

Lemma wr_leaves_increasing p : forall pos, leaves_increasing (map without_ranges p) pos = leaves_increasing p pos.
Proof. induction p as [|[nd ir l r rs|s z ir rs] t IH]; intro d; cbn [map without_ranges leaves_increasing]; [reflexivity| |]; now rewrite IH. Qed.

Lemma wr_leaves_of_plan p : leaves_of_plan (map without_ranges p) = leaves_of_plan p.
Proof.
  unfold leaves_of_plan. induction p as [|[nd ir l r rs|s z ir rs] t IH]; cbn [map without_ranges flat_map app]; [reflexivity|exact IH|now rewrite IH].
Qed.

Definition chunk_flag (c : chunk) : bool := match c with CParent _ ir _ _ _ => ir | CLeaf _ _ ir _ => ir end.
Lemma wr_flag c : chunk_flag (without_ranges c) = chunk_flag c.
Proof. now destruct c. Qed.

Lemma wr_root_flag_first p : root_flag_first (map without_ranges p) = root_flag_first p.
Proof.
  destruct p as [|c t]; [reflexivity|]. cbn [map root_flag_first].
  fold (chunk_flag (without_ranges c)). fold (chunk_flag c). rewrite wr_flag. f_equal.
  induction t as [|c' t IH]; [reflexivity|]. cbn [map forallb].
  fold (chunk_flag (without_ranges c')). fold (chunk_flag c'). now rewrite wr_flag, IH.
Qed.

Lemma wr_root_flag_last p : root_flag_last (map without_ranges p) = root_flag_last p.
Proof. unfold root_flag_last. now rewrite <- map_rev, wr_root_flag_first. Qed.

Lemma wr_in_leaf s z ir rs p : In (CLeaf s z ir rs) p -> In (CLeaf s z ir []) (map without_ranges p).
Proof. intro H. apply (in_map without_ranges) in H. exact H. Qed.

Lemma wr_parse_pre : forall f p lo hi,
  parse_pre f (map without_ranges p) lo hi = option_map (map without_ranges) (parse_pre f p lo hi).
Proof.
  induction f as [|f IH]; intros p lo hi; [reflexivity|].
  destruct p as [|[nd ir l r rs|s z ir rs] t]; cbn [map without_ranges parse_pre]; [reflexivity| |].
  - destruct ((lo <=? sp_chunk_start nd) && match hi with Some h => sp_chunk_end nd <=? h | None => true end); [|reflexivity].
    destruct l.
    + rewrite IH. destruct (parse_pre f t (sp_chunk_start nd) (Some (nd + 1))) as [rest1|]; cbn [option_map]; [|reflexivity].
      destruct r; [apply IH|reflexivity].
    + destruct r; [apply IH|reflexivity].
  - destruct ((lo <=? s) && match hi with Some h => s + leaf_chunks z <=? h | None => true end); reflexivity.
Qed.

Lemma wr_parse_pre_done p lo hi :
  parse_pre (S (length (map without_ranges p))) (map without_ranges p) lo hi = Some [] ->
  parse_pre (S (length p)) p lo hi = Some [].
Proof.
  rewrite map_length, wr_parse_pre. destruct (parse_pre (S (length p)) p lo hi) as [rest|]; cbn [option_map]; [|discriminate].
  intro H. injection H as H. destruct rest; [reflexivity|discriminate].
Qed.

Lemma wr_post_tiles p : forall pos, post_tiles (map without_ranges p) pos = post_tiles p pos.
Proof.
  induction p as [|[nd ir l r rs|s z ir rs] t IH]; intro d; cbn [map without_ranges post_tiles]; [reflexivity|apply IH|].
  now rewrite IH.
Qed.

(* ------------------------------------------------------------------------------------------- *)
(* 2. ResponseIter versus the chunk iterator, unconditionally: ResponseIter over the tree (size, bs)
      is the partial chunk iterator over the block-size-0 tree with min level bs, ranges dropped    *)
(* ------------------------------------------------------------------------------------------- *)
Section MapIter.
Context {St A B : Type} (next : St -> option (A * St)) (f : A -> B).
Let next' (s : St) : option (B * St) := match next s with Some (c, s') => Some (f c, s') | None => None end.

Lemma loop2_map d : forall st acc,
  loop2 d (rstep next') (st, map f acc) =
  match loop2 d (rstep next) (st, acc) with
  | inl (s', acc') => inl (s', map f acc')
  | inr l => inr (map f l)
  end.
Proof.
  induction d as [|d IH]; intros st acc.
  - cbn [loop2]. unfold rstep, next'. cbn [fst snd]. destruct (next st) as [[a s1]|]; [reflexivity|].
    now rewrite map_rev.
  - cbn [loop2]. rewrite IH. destruct (loop2 d (rstep next) (st, acc)) as [[s1 acc1]|l]; [apply IH|reflexivity].
Qed.

Lemma run_iter_map st : run_iter next' st = map f (run_iter next st).
Proof.
  rewrite !run_iter_unfold. change (@nil B) with (map f (@nil A)). rewrite loop2_map.
  destruct (loop2 LOOP_DEPTH (rstep next) (st, [])) as [[s1 acc1]|l]; [|reflexivity].
  cbn [snd]. now rewrite map_rev.
Qed.
End MapIter.

Theorem response_iter_is_chunk_iter : forall size bs q,
  response_iter (mkTree size bs) q = map without_ranges (pre_order_chunks_iter (mkTree size 0) q bs).
Proof.
  intros size bs q. unfold response_iter, pre_order_chunks_iter, response_new. cbn [tsize tbs].
  rewrite <- (run_iter_map pp_next' without_ranges). reflexivity.
Qed.

(* ------------------------------------------------------------------------------------------- *)
(* 3. every clause, stated of the plan of the stack machines                                     *)
(* ------------------------------------------------------------------------------------------- *)

(* the empty query yields the empty plan, unconditionally *)
Lemma pp_new_nil_done t ml : pp_next' (pp_new t [] ml) = None.
Proof. unfold pp_new. destruct (shifted t) as [root filled]. reflexivity. Qed.

Theorem pre_iter_empty : forall size bs ml, pre_order_chunks_iter (mkTree size bs) [] ml = [].
Proof.
  intros size bs ml. unfold pre_order_chunks_iter.
  apply (run_iter_trace pp_next' _ []); [apply trace_nil, pp_new_nil_done|reflexivity].
Qed.

Theorem response_iter_empty : forall size bs, response_iter (mkTree size bs) [] = [].
Proof. intros size bs. now rewrite response_iter_is_chunk_iter, pre_iter_empty. Qed.

(* generic transfer: a plan whose range-free image is well formed is well formed *)
Section Transfer.
Variables (size : N) (q : ranges) (p p0 : list chunk).
Hypothesis E : map without_ranges p = p0.

Lemma tr_stack : pre_stack_ok p0 1 = true -> pre_stack_ok p 1 = true.
Proof. now rewrite <- E, wr_pre_stack. Qed.
Lemma tr_flag : root_flag_first p0 = true -> root_flag_first p = true.
Proof. now rewrite <- E, wr_root_flag_first. Qed.
Lemma tr_incr : leaves_increasing p0 0 = true -> leaves_increasing p 0 = true.
Proof. now rewrite <- E, wr_leaves_increasing. Qed.
Lemma tr_shape : (forall s z ir rs, In (CLeaf s z ir rs) p0 -> leaf_shape_ok size s z = true) ->
  forall s z ir rs, In (CLeaf s z ir rs) p -> leaf_shape_ok size s z = true.
Proof. intros H s z ir rs Hin. apply (H s z ir []). rewrite <- E. now apply wr_in_leaf with (rs := rs). Qed.
Lemma tr_parse : parse_pre (S (length p0)) p0 0 None = Some [] -> parse_pre (S (length p)) p 0 None = Some [].
Proof. rewrite <- E. apply wr_parse_pre_done. Qed.
Lemma tr_leaves : leaves_of_plan p = leaves_of_plan p0.
Proof. now rewrite <- E, wr_leaves_of_plan. Qed.
End Transfer.

(* PreOrderPartialChunkIterRef: all clauses about the items the stack machine yields *)
Theorem pre_iter_wf : forall size bs ml q, size <= 2 ^ 63 -> bs <= 10 -> wf_ranges q = true -> q <> [] ->
  let plan := pre_order_chunks_iter (mkTree size bs) q ml in
  plan <> [] /\
  pre_stack_ok plan 1 = true /\
  root_flag_first plan = true /\
  leaves_increasing plan 0 = true /\
  (forall s z ir rs, In (CLeaf s z ir rs) plan -> leaf_shape_ok size s z = true) /\
  parse_pre (S (length plan)) plan 0 None = Some [] /\
  (forall c, sel q size c = true -> in_leaves (leaves_of_plan plan) c = true) /\
  (forall lo hi, In (lo, hi) (leaves_of_plan plan) -> exists c, lo <= c < hi /\ sel q size c = true).
Proof.
  intros size bs ml q Hs Hb Hwf Hne. cbv zeta.
  pose proof (c15_pre_plan size bs ml q Hs Hb Hwf) as E.
  pose proof (pre_plan_nonempty size bs ml q Hs Hb Hwf Hne) as P0.
  pose proof (pre_stack_plan size bs ml q Hs Hb Hwf Hne) as P1.
  pose proof (pre_root_flag_plan size bs ml q Hs Hb Hwf Hne) as P2.
  destruct (c15_pre_leaves size bs ml q Hs Hb Hwf Hne) as [P3 P4].
  pose proof (pre_parse_plan size bs ml q Hs Hb Hwf Hne) as P5.
  destruct (c15_pre_cover size bs ml q Hs Hb Hwf Hne) as [P6 P7].
  revert E P0 P1 P2 P3 P4 P5 P6 P7.
  generalize (pre_plan size bs ml q) as p0. generalize (pre_order_chunks_iter (mkTree size bs) q ml) as p.
  intros p p0 E P0 P1 P2 P3 P4 P5 P6 P7.
  split; [intros ->; apply P0; symmetry; exact E|].
  split; [exact (tr_stack p p0 E P1)|]. split; [exact (tr_flag p p0 E P2)|]. split; [exact (tr_incr p p0 E P3)|].
  split; [exact (tr_shape size p p0 E P4)|]. split; [exact (tr_parse p p0 E P5)|].
  rewrite (tr_leaves p p0 E). split; assumption.
Qed.

Theorem pre_iter_holds : forall size bs ml q, size <= 2 ^ 63 -> bs <= 10 -> wf_ranges q = true ->
  holds_pre_plan size bs q (map without_ranges (pre_order_chunks_iter (mkTree size bs) q ml)) = true.
Proof. intros size bs ml q Hs Hb Hwf. rewrite (c15_pre_plan size bs ml q Hs Hb Hwf). now apply holds_pre_plan_ok. Qed.

(* ResponseIter over the tree (size, bs): the same clauses at chunk granularity *)
Theorem response_iter_wf : forall size bs q, size <= 2 ^ 63 -> bs <= 10 -> wf_ranges q = true -> q <> [] ->
  let plan := response_iter (mkTree size bs) q in
  plan <> [] /\
  pre_stack_ok plan 1 = true /\
  root_flag_first plan = true /\
  leaves_increasing plan 0 = true /\
  (forall s z ir rs, In (CLeaf s z ir rs) plan -> leaf_shape_ok size s z = true) /\
  parse_pre (S (length plan)) plan 0 None = Some [] /\
  (forall c, sel q size c = true -> in_leaves (leaves_of_plan plan) c = true) /\
  (forall lo hi, In (lo, hi) (leaves_of_plan plan) -> exists c, lo <= c < hi /\ sel q size c = true).
Proof.
  intros size bs q Hs Hb Hwf Hne. cbv zeta.
  assert (H0 : 0 <= 10) by lia.
  rewrite (c15_response_plan size bs q Hs Hb Hwf).
  split; [exact (pre_plan_nonempty size 0 bs q Hs H0 Hwf Hne)|].
  split; [exact (pre_stack_plan size 0 bs q Hs H0 Hwf Hne)|].
  split; [exact (pre_root_flag_plan size 0 bs q Hs H0 Hwf Hne)|].
  destruct (c15_pre_leaves size 0 bs q Hs H0 Hwf Hne) as [P3 P4].
  split; [exact P3|]. split; [exact P4|].
  split; [exact (pre_parse_plan size 0 bs q Hs H0 Hwf Hne)|].
  exact (c15_pre_cover size 0 bs q Hs H0 Hwf Hne).
Qed.

Theorem response_iter_holds : forall size bs q, size <= 2 ^ 63 -> bs <= 10 -> wf_ranges q = true ->
  holds_pre_plan size 0 q (response_iter (mkTree size bs) q) = true.
Proof.
  intros size bs q Hs Hb Hwf. rewrite (c15_response_plan size bs q Hs Hb Hwf).
  apply holds_pre_plan_ok; [assumption|lia|assumption].
Qed.

(* PostOrderChunkIter *)
Theorem post_iter_wf : forall size bs, size <= 2 ^ 63 -> bs <= 10 ->
  let plan := post_order_chunks_iter (mkTree size bs) in
  post_stack_ok plan 0 = true /\
  root_flag_last plan = true /\
  post_tiles plan 0 = Some (nchunks size) /\
  post_struct plan [] = true /\
  (forall s z ir rs, In (CLeaf s z ir rs) plan ->
     z = span_bytes size s (s + leaf_chunks z) /\ s mod 2 ^ bs = 0 /\ leaf_chunks z <= 2 ^ bs) /\
  holds_post_plan size bs plan = true.
Proof.
  intros size bs Hs Hb. cbv zeta. rewrite (post_plan_refines size bs Hs Hb).
  split; [now apply post_stack_ok_plan|]. split; [now apply post_root_flag_plan|].
  split; [now apply post_tiles_plan|]. split; [now apply post_struct_plan|].
  split; [|now apply holds_post_plan_ok].
  intros s z ir rs Hin. pose proof (post_leaves_plan size bs Hs Hb) as H.
  rewrite forallb_forall in H. specialize (H _ Hin). unfold post_leaf_ok in H.
  apply andb_true_iff in H. destruct H as [H H3]. apply andb_true_iff in H. destruct H as [H1 H2].
  apply N.eqb_eq in H1. apply N.eqb_eq in H2. apply N.leb_le in H3. auto.
Qed.

(* ------------------------------------------------------------------------------------------- *)
(* 4. granularity of the leaves and the exact cover in chunk groups                              *)
(* ------------------------------------------------------------------------------------------- *)
(* a leaf interval [lo, hi) of a plan for (size, bs, ml, q) is the in-blob part of ONE aligned block
   of 2^j chunks, bs <= j; a block larger than a chunk group (bs < j) only occurs below the min level
   (j <= ml) and is then selected in full *)
Definition leaf_gran (size bs ml : N) (q : ranges) (lo hi : N) : Prop :=
  exists j k, lo = k * 2 ^ j /\ hi = N.min (lo + 2 ^ j) (nchunks size) /\ lo < nchunks size /\ bs <= j /\
    (bs < j -> j <= ml /\ forall c, lo <= c < hi -> sel q size c = true).

Section Gran.
Variables (size bs ml : N) (q : ranges).
Hypothesis Hs : ssorted q.

Definition granP (ga n : N) (ir rm : bool) (plan : list chunk) : Prop :=
  forall lo hi, In (lo, hi) (leaves_of_plan plan) -> leaf_gran size bs ml q lo hi.

Lemma node_start ga n rm : node_ok size bs ga n rm ->
  ga * 2 ^ bs < (ga + capof n) * 2 ^ bs /\ ga * 2 ^ bs < nchunks size.
Proof.
  intros [P A I R]. destruct (capof_spec n P) as (k & _ & C1 & _). pose proof (pow2_pos bs) as Hg.
  split; [nia|]. apply PlanBase.group_inside. lia.
Qed.

Lemma mem_sel c : c < nchunks size -> mem q c = true -> sel q size c = true.
Proof. intros Hc Hm. unfold sel. apply andb_true_iff. split; [now apply N.ltb_lt|]. now rewrite Hm. Qed.

Lemma gran_group ga e : ga * 2 ^ bs < nchunks size -> e = N.min ((ga + 1) * 2 ^ bs) (nchunks size) ->
  leaf_gran size bs ml q (ga * 2 ^ bs) e.
Proof.
  intros Ha ->. exists bs, ga. split; [reflexivity|]. split; [f_equal; lia|]. split; [assumption|].
  split; [lia|]. intro H. lia.
Qed.

Lemma gran_all : forall fuel ga n ir rm, node_ok size bs ga n rm -> N.log2 (capof n) <= N.of_nat fuel ->
  granP ga n ir rm (pre_plan_rec fuel size bs ml q ga n ir rm).
Proof.
  apply pre_plan_rec_ind.
  - (* empty *) intros ga n ir rm _ _ lo hi [].
  - (* full *)
    intros ga n ir rm Hok _ Hfull Hlvl lo hi Hin.
    destruct (node_start ga n rm Hok) as [G1 G2].
    rewrite leaf_interval in Hin by assumption. destruct Hin as [E|[]]. inversion E; subst lo hi. clear E.
    pose proof (nk_pos _ _ _ _ _ Hok) as Hn. pose proof (capof_pow2 n Hn) as Ec.
    destruct (nk_al _ _ _ _ _ Hok) as [k Ek].
    exists (cexp n + 1 + bs), k.
    assert (Ep : 2 ^ (cexp n + 1 + bs) = capof n * 2 ^ bs) by (rewrite pow2_add, <- Ec; reflexivity).
    split; [rewrite Ep, Ek; lia|]. split; [f_equal; rewrite Ep; lia|]. split; [assumption|]. split; [lia|].
    intros _. split.
    + rewrite <- Ep, N.log2_pow2 in Hlvl by lia. lia.
    + intros c Hc. apply mem_sel; [lia|].
      apply (proj1 (q_full_spec q _ _ rm Hs G1) Hfull). split; [lia|]. destruct rm; [now left|right; lia].
  - (* half *)
    intros ga n ir rm Hok Hn _ _ Hsz lo hi Hin.
    destruct (node_start ga n rm Hok) as [G1 G2].
    rewrite leaf_interval in Hin by assumption. destruct Hin as [E|[]]. inversion E; subst lo hi. clear E.
    apply gran_group; [assumption|]. rewrite (capof_small n Hn).
    pose proof (pow2_pos bs) as Hg.
    assert (Hnn : nchunks size <= (ga + 1) * 2 ^ bs).
    { destruct (N.le_gt_cases (nchunks size) ((ga + 1) * 2 ^ bs)) as [|G]; [assumption|exfalso].
      apply nchunks_spec in G. destruct G as [G|G]; nia. }
    rewrite !N.min_r by nia. reflexivity.
  - (* pair *)
    intros ga n ir rm Hok Hn _ _ Hsz. unfold granP. rewrite (capof_small n Hn).
    set (m := (ga + 1) * 2 ^ bs) in *. set (l := q_any q (ga * 2 ^ bs) m false).
    set (r := q_any q m ((ga + 2) * 2 ^ bs) rm).
    destruct (node_start ga n rm Hok) as [G1 G2]. rewrite (capof_small n Hn) in G1.
    pose proof (pow2_pos bs) as Hg.
    assert (Hm : m < nchunks size) by (apply nchunks_spec; right; exact Hsz).
    assert (Ham : ga * 2 ^ bs < m) by (unfold m; nia).
    assert (Hme : m < (ga + 2) * 2 ^ bs) by (unfold m; nia).
    assert (EL : leaves_of_plan (if l then [CLeaf (ga * 2 ^ bs) (span_bytes size (ga * 2 ^ bs) m) false []] else [])
                 = if l then [(ga * 2 ^ bs, m)] else []).
    { destruct l; [|reflexivity]. rewrite leaf_interval by assumption. rewrite N.min_l by lia. reflexivity. }
    assert (ER : leaves_of_plan (if r then [CLeaf m (span_bytes size m ((ga + 2) * 2 ^ bs)) false []] else [])
                 = if r then [(m, N.min ((ga + 2) * 2 ^ bs) (nchunks size))] else []).
    { destruct r; [|reflexivity]. now rewrite leaf_interval by assumption. }
    rewrite !PlanPreCover.leaves_of_plan_app, EL, ER.
    change (leaves_of_plan [CParent (unshift bs ga) ir l r []]) with (@nil (N * N)). cbn [app].
    intros lo hi Hin. apply in_app_or in Hin. destruct Hin as [Hin|Hin].
    + destruct l; [|destruct Hin]. destruct Hin as [E|[]]. inversion E; subst lo hi.
      apply gran_group; [assumption|]. fold m. rewrite N.min_l by lia. reflexivity.
    + destruct r; [|destruct Hin]. destruct Hin as [E|[]]. inversion E; subst lo hi.
      unfold m. apply gran_group; [exact Hm|]. f_equal. lia.
  - (* inner *)
    intros ga n ir rm pl pr _ _ _ _ half m _ _ IHl IHr lo hi Hin.
    rewrite !PlanPreCover.leaves_of_plan_app in Hin.
    change (leaves_of_plan [CParent (unshift bs (ga + half - 1)) ir
              (q_any q (ga * 2 ^ bs) m false) (q_any q m ((ga + capof n) * 2 ^ bs) rm) []]) with (@nil (N * N)) in Hin.
    cbn [app] in Hin. apply in_app_or in Hin. destruct Hin as [Hin|Hin]; [now apply IHl|now apply IHr].
Qed.
End Gran.

Theorem pre_plan_gran : forall size bs ml q, size <= 2 ^ 63 -> wf_ranges q = true ->
  forall lo hi, In (lo, hi) (leaves_of_plan (pre_plan size bs ml q)) -> leaf_gran size bs ml q lo hi.
Proof.
  intros size bs ml q Hsz Hwf. apply wf_iff in Hwf. destruct Hwf as [Hs _].
  unfold pre_plan. apply (gran_all size bs ml q Hs 65 0 (sp_blocks size bs) true true); [apply node_ok_root|now apply root_fuel].
Qed.

(* exact cover: the leaves cover exactly the in-blob chunks of the chunk groups the selection touches *)
Lemma div_block x D k : 0 < D -> k * D <= x < (k + 1) * D -> x / D = k.
Proof. intros HD H. symmetry. apply (N.div_unique x D k (x - k * D)); lia. Qed.

Lemma div_coarse c c' bs j : bs <= j -> c / 2 ^ bs = c' / 2 ^ bs -> c / 2 ^ j = c' / 2 ^ j.
Proof.
  intros Hj H. replace j with (bs + (j - bs)) by lia. rewrite pow2_add.
  pose proof (pow2_pos bs). pose proof (pow2_pos (j - bs)).
  rewrite <- !N.div_div by lia. now rewrite H.
Qed.

Lemma cover_exact_gen size bs ml q ls :
  (forall c, sel q size c = true -> in_leaves ls c = true) ->
  (forall lo hi, In (lo, hi) ls -> exists c, lo <= c < hi /\ sel q size c = true) ->
  (forall lo hi, In (lo, hi) ls -> leaf_gran size bs ml q lo hi) ->
  forall c, in_leaves ls c = true <->
            c < nchunks size /\ exists c', sel q size c' = true /\ c / 2 ^ bs = c' / 2 ^ bs.
Proof.
  intros H1 H2 H3 c. unfold in_leaves at 1. rewrite existsb_exists. split.
  - intros ([lo hi] & Hin & Hc). cbn [fst snd] in Hc. apply andb_true_iff in Hc. destruct Hc as [C1 C2].
    apply N.leb_le in C1. apply N.ltb_lt in C2.
    destruct (H3 lo hi Hin) as (j & k & E1 & E2 & E3 & E4 & E5). split; [lia|].
    destruct (N.eq_dec j bs) as [->|Hne].
    + destruct (H2 lo hi Hin) as (c' & Hc' & Hs'). exists c'. split; [assumption|].
      pose proof (pow2_pos bs). rewrite (div_block c (2 ^ bs) k), (div_block c' (2 ^ bs) k) by lia. reflexivity.
    + exists c. split; [|reflexivity]. apply (proj2 (E5 ltac:(lia))). lia.
  - intros (Hc & c' & Hs' & Hg). pose proof (H1 c' Hs') as Hl. unfold in_leaves in Hl.
    apply existsb_exists in Hl. destruct Hl as ([lo hi] & Hin & Hc'). cbn [fst snd] in Hc'.
    apply andb_true_iff in Hc'. destruct Hc' as [C1 C2]. apply N.leb_le in C1. apply N.ltb_lt in C2.
    exists (lo, hi). split; [assumption|]. cbn [fst snd].
    destruct (H3 lo hi Hin) as (j & k & E1 & E2 & E3 & E4 & E5).
    pose proof (pow2_pos j) as Hj.
    pose proof (div_coarse c c' bs j E4 Hg) as Hd.
    assert (K' : c' / 2 ^ j = k) by (apply div_block; lia).
    rewrite K' in Hd.
    assert (B : k * 2 ^ j <= c < (k + 1) * 2 ^ j).
    { pose proof (N.div_mod c (2 ^ j) ltac:(lia)) as DM. pose proof (N.mod_upper_bound c (2 ^ j) ltac:(lia)) as MB.
      rewrite Hd in DM. lia. }
    apply andb_true_iff. split; [apply N.leb_le; lia|apply N.ltb_lt; lia].
Qed.

Theorem pre_plan_cover_exact : forall size bs ml q, size <= 2 ^ 63 -> wf_ranges q = true ->
  forall c, in_leaves (leaves_of_plan (pre_plan size bs ml q)) c = true <->
            c < nchunks size /\ exists c', sel q size c' = true /\ c / 2 ^ bs = c' / 2 ^ bs.
Proof.
  intros size bs ml q Hsz Hwf.
  destruct (pre_cover_both size bs ml q Hsz Hwf) as [P6 P7]; [discriminate|].
  pose proof (pre_plan_gran size bs ml q Hsz Hwf) as P8.
  revert P6 P7 P8. generalize (leaves_of_plan (pre_plan size bs ml q)) as ls. intros ls P6 P7 P8.
  apply (cover_exact_gen size bs ml q ls); [|assumption|assumption].
  intros c Hc. apply P6; [|assumption]. split; [lia|now left].
Qed.

(* ... on the stack machines *)
Theorem pre_iter_gran : forall size bs ml q, size <= 2 ^ 63 -> bs <= 10 -> wf_ranges q = true ->
  forall lo hi, In (lo, hi) (leaves_of_plan (pre_order_chunks_iter (mkTree size bs) q ml)) ->
  exists j k, lo = k * 2 ^ j /\ hi = N.min (lo + 2 ^ j) (nchunks size) /\ lo < nchunks size /\ bs <= j /\
    (bs < j -> j <= ml /\ forall c, lo <= c < hi -> sel q size c = true).
Proof.
  intros size bs ml q Hs Hb Hwf lo hi.
  rewrite (tr_leaves _ _ (c15_pre_plan size bs ml q Hs Hb Hwf)). apply (pre_plan_gran size bs ml q Hs Hwf).
Qed.

Theorem pre_iter_cover_exact : forall size bs ml q, size <= 2 ^ 63 -> bs <= 10 -> wf_ranges q = true ->
  forall c, in_leaves (leaves_of_plan (pre_order_chunks_iter (mkTree size bs) q ml)) c = true <->
            c < nchunks size /\ exists c', sel q size c' = true /\ c / 2 ^ bs = c' / 2 ^ bs.
Proof.
  intros size bs ml q Hs Hb Hwf c.
  rewrite (tr_leaves _ _ (c15_pre_plan size bs ml q Hs Hb Hwf)). apply (pre_plan_cover_exact size bs ml q Hs Hwf).
Qed.

(* ResponseIter: leaves are single chunks or fully selected aligned blocks of at most 2^bs chunks, and they
   cover exactly the selected chunks *)
Theorem response_iter_gran : forall size bs q, size <= 2 ^ 63 -> bs <= 10 -> wf_ranges q = true ->
  forall lo hi, In (lo, hi) (leaves_of_plan (response_iter (mkTree size bs) q)) ->
  exists j k, lo = k * 2 ^ j /\ hi = N.min (lo + 2 ^ j) (nchunks size) /\ lo < nchunks size /\ j <= bs /\
    (0 < j -> forall c, lo <= c < hi -> sel q size c = true).
Proof.
  intros size bs q Hs Hb Hwf lo hi. rewrite (c15_response_plan size bs q Hs Hb Hwf). intro Hin.
  destruct (pre_plan_gran size 0 bs q Hs Hwf lo hi Hin) as (j & k & E1 & E2 & E3 & E4 & E5).
  exists j, k. split; [assumption|]. split; [assumption|]. split; [assumption|].
  destruct (N.eq_dec j 0) as [->|Hj]; [split; [lia|intro; lia]|].
  destruct (E5 ltac:(lia)) as [F1 F2]. split; [assumption|intros _; assumption].
Qed.

Theorem response_iter_cover_exact : forall size bs q, size <= 2 ^ 63 -> bs <= 10 -> wf_ranges q = true ->
  forall c, in_leaves (leaves_of_plan (response_iter (mkTree size bs) q)) c = true <-> sel q size c = true.
Proof.
  intros size bs q Hs Hb Hwf c. rewrite (c15_response_plan size bs q Hs Hb Hwf).
  rewrite (pre_plan_cover_exact size 0 bs q Hs Hwf c). change (2 ^ 0) with 1. split.
  - intros (_ & c' & Hs' & E). rewrite !N.div_1_r in E. now subst c'.
  - intro H. split; [now apply sel_lt in H|]. exists c. now split.
Qed.

(* ResponseIter refines the chunk iterator of the same tree: every response leaf lies inside a leaf of the
   chunk-group plan (for any min level) *)
Lemma refine_gen size bs ml q (ls1 ls2 : list (N * N)) :
  (forall lo hi, In (lo, hi) ls1 ->
     exists j k, lo = k * 2 ^ j /\ hi = N.min (lo + 2 ^ j) (nchunks size) /\ lo < nchunks size /\ j <= bs /\
       (0 < j -> forall c, lo <= c < hi -> sel q size c = true)) ->
  (forall c, in_leaves ls1 c = true <-> sel q size c = true) ->
  (forall c, in_leaves ls2 c = true <-> c < nchunks size /\ exists c', sel q size c' = true /\ c / 2 ^ bs = c' / 2 ^ bs) ->
  (forall lo hi, In (lo, hi) ls2 ->
     exists j k, lo = k * 2 ^ j /\ hi = N.min (lo + 2 ^ j) (nchunks size) /\ lo < nchunks size /\ bs <= j /\
       (bs < j -> j <= ml /\ forall c, lo <= c < hi -> sel q size c = true)) ->
  forall lo hi, In (lo, hi) ls1 -> exists lo' hi', In (lo', hi') ls2 /\ lo' <= lo /\ hi <= hi'.
Proof.
  intros G1 X1 X2 G2 lo hi Hin.
  destruct (G1 lo hi Hin) as (j & k & E1 & E2 & E3 & E4 & _).
  assert (Hlo : in_leaves ls1 lo = true).
  { unfold in_leaves. apply existsb_exists. exists (lo, hi). split; [assumption|]. cbn [fst snd].
    pose proof (pow2_pos j). apply andb_true_iff. split; [apply N.leb_le; lia|apply N.ltb_lt; lia]. }
  apply X1 in Hlo.
  assert (Hc : in_leaves ls2 lo = true).
  { apply X2. split; [assumption|]. exists lo. now split. }
  unfold in_leaves in Hc. apply existsb_exists in Hc. destruct Hc as ([lo' hi'] & Hin' & Hc). cbn [fst snd] in Hc.
  apply andb_true_iff in Hc. destruct Hc as [C1 C2]. apply N.leb_le in C1. apply N.ltb_lt in C2.
  exists lo', hi'. split; [assumption|]. split; [assumption|].
  destruct (G2 lo' hi' Hin') as (J & K & F1 & F2 & F3 & F4 & _).
  (* nested dyadic blocks: [k 2^j, (k+1) 2^j) inside [K 2^J, (K+1) 2^J) as j <= J and they share lo *)
  assert (HjJ : j <= J) by lia.
  pose proof (pow2_pos j) as Pj. pose proof (pow2_pos J) as PJ.
  destruct (pow2_divides j J HjJ) as (d & D).
  assert (X : lo + 2 ^ j <= lo' + 2 ^ J).
  { clear - E1 F1 D C1 C2 F2 Pj PJ.
    assert (C3 : lo < lo' + 2 ^ J) by lia. clear C2 F2.
    rewrite E1, F1, D in *. set (u := 2 ^ j) in *. clearbody u. clear D E1 F1.
    assert (Hk : k < (K + 1) * d) by nia.
    assert (k + 1 <= (K + 1) * d) by lia. nia. }
  lia.
Qed.

Theorem response_refines_chunk_iter : forall size bs ml q, size <= 2 ^ 63 -> bs <= 10 -> wf_ranges q = true ->
  forall lo hi, In (lo, hi) (leaves_of_plan (response_iter (mkTree size bs) q)) ->
  exists lo' hi', In (lo', hi') (leaves_of_plan (pre_order_chunks_iter (mkTree size bs) q ml)) /\ lo' <= lo /\ hi <= hi'.
Proof.
  intros size bs ml q Hs Hb Hwf.
  exact (refine_gen size bs ml q _ _ (response_iter_gran size bs q Hs Hb Hwf) (response_iter_cover_exact size bs q Hs Hb Hwf)
           (pre_iter_cover_exact size bs ml q Hs Hb Hwf) (pre_iter_gran size bs ml q Hs Hb Hwf)).
Qed.

(* ------------------------------------------------------------------------------------------- *)
(* 5. min level / block size interaction: a min level at or below the block size has no effect   *)
(* ------------------------------------------------------------------------------------------- *)
Lemma capof_is_pow2 n : exists k, capof n = 2 ^ (k + 1).
Proof.
  destruct (N.eq_dec n 0) as [->|Hn]; [exists 0; reflexivity|].
  destruct (capof_spec n ltac:(lia)) as (k & E & _). now exists k.
Qed.

Lemma lvl_ge_bs n bs ml : ml <= bs -> (N.log2 (capof n * 2 ^ bs) - 1 <? ml) = false.
Proof.
  intro H. destruct (capof_is_pow2 n) as (k & ->). rewrite <- pow2_add, N.log2_pow2 by lia.
  apply N.ltb_ge. lia.
Qed.

Lemma pre_plan_rec_ml_low size bs ml q : ml <= bs -> forall f ga n ir rm,
  pre_plan_rec f size bs ml q ga n ir rm = pre_plan_rec f size bs 0 q ga n ir rm.
Proof.
  intros Hml. induction f as [|f IH]; intros ga n ir rm; [reflexivity|].
  rewrite !pre_plan_rec_eq. cbv zeta.
  rewrite (lvl_ge_bs n bs ml Hml), (lvl_ge_bs n bs 0 ltac:(lia)), !andb_false_r, !IH. reflexivity.
Qed.

Theorem pre_plan_ml_low : forall size bs ml q, ml <= bs -> pre_plan size bs ml q = pre_plan size bs 0 q.
Proof. intros size bs ml q H. unfold pre_plan. now apply pre_plan_rec_ml_low. Qed.

Theorem pre_iter_ml_low : forall size bs ml q, size <= 2 ^ 63 -> bs <= 10 -> wf_ranges q = true -> ml <= bs ->
  map without_ranges (pre_order_chunks_iter (mkTree size bs) q ml)
  = map without_ranges (pre_order_chunks_iter (mkTree size bs) q 0).
Proof.
  intros size bs ml q Hs Hb Hwf Hml.
  rewrite (c15_pre_plan size bs ml q Hs Hb Hwf), (c15_pre_plan size bs 0 q Hs Hb Hwf). now apply pre_plan_ml_low.
Qed.

(* above the block size the min level does matter *)
Lemma pre_plan_ml_high_differs :
  pre_plan 4096 0 2 [0] = [CLeaf 0 4096 true []] /\
  pre_plan 4096 0 0 [0] <> pre_plan 4096 0 2 [0].
Proof. split; [vm_compute; reflexivity|vm_compute; discriminate]. Qed.

(* ------------------------------------------------------------------------------------------- *)
(* 6. the item carrying the root flag is the root of the tree                                    *)
(* ------------------------------------------------------------------------------------------- *)
(* the root item: the leaf holding the whole blob, or the parent whose chunk range starts at 0, contains the
   end of the blob and whose split point lies inside the blob *)
Definition is_root_item (size : N) (c : chunk) : Prop :=
  match c with
  | CLeaf s z ir _ => s = 0 /\ z = size /\ ir = true
  | CParent nd ir _ _ _ => ir = true /\ sp_chunk_start nd = 0 /\ nd + 1 < nchunks size /\ nchunks size <= sp_chunk_end nd
  end.

Lemma wr_root_item size c : is_root_item size (without_ranges c) <-> is_root_item size c.
Proof. destruct c; reflexivity. Qed.

Lemma span_whole size e : nchunks size <= e -> span_bytes size 0 e = size.
Proof.
  intro H. unfold span_bytes. pose proof (nchunks_bytes size). rewrite N.mul_0_l, (N.min_l 0) by lia.
  rewrite N.min_r by lia. lia.
Qed.

Lemma root_item_rec f size bs ml q : wf_ranges q = true -> q <> [] ->
  exists c rest, pre_plan_rec (S f) size bs ml q 0 (sp_blocks size bs) true true = c :: rest /\ is_root_item size c.
Proof.
  intros Hwf Hne. pose proof (root_any size bs q Hwf Hne) as Hany. unfold nany in Hany.
  pose proof (node_ok_root size bs) as Hok. set (B := sp_blocks size bs) in *.
  pose proof (nk_pos _ _ _ _ _ Hok) as HB.
  pose proof (pow2_pos bs) as Hg. pose proof (nchunks_le_blocks size bs) as Hnn. fold B in Hnn.
  destruct (capof_spec B HB) as (k0 & _ & Hcap & _).
  assert (Hend : nchunks size <= (0 + capof B) * 2 ^ bs) by nia.
  rewrite pre_plan_rec_eq. cbv zeta. rewrite Hany. cbn [negb].
  destruct (q_full q (0 * 2 ^ bs) ((0 + capof B) * 2 ^ bs) true && (N.log2 (capof B * 2 ^ bs) - 1 <? ml)).
  { eexists _, _. split; [reflexivity|]. cbn [is_root_item]. rewrite N.mul_0_l. now rewrite span_whole. }
  rewrite (capof_eq2 B HB). destruct (N.leb_spec B 2) as [L|L].
  - destruct (N.leb_spec size ((0 + 1) * 2 ^ bs * 1024)) as [L'|L'].
    + eexists _, _. split; [reflexivity|]. cbn [is_root_item]. rewrite N.mul_0_l. now rewrite span_whole.
    + eexists _, _. split; [reflexivity|]. cbn [is_root_item]. split; [reflexivity|].
      pose proof (unshift_geom bs 0 0) as G. cbv zeta in G. change (2 ^ 0) with 1 in G.
      replace (0 * (2 * 1) + 1 - 1) with 0 in G by lia. destruct G as (_ & G2 & G3 & G4).
      rewrite G2, G3, G4. split; [lia|]. split; [apply nchunks_spec; right; lia|].
      rewrite (capof_small B L) in Hend. lia.
  - destruct (capof_inner B ltac:(lia)) as (k & E & Eh & L1 & L2 & _ & _).
    eexists _, _. split; [reflexivity|]. cbn [is_root_item]. split; [reflexivity|].
    rewrite Eh. pose proof (unshift_geom bs 0 (k + 1)) as G. cbv zeta in G.
    replace (0 * (2 * 2 ^ (k + 1)) + 2 ^ (k + 1) - 1) with (0 + 2 ^ (k + 1) - 1) in G by lia.
    destruct G as (_ & G2 & G3 & G4). rewrite G2, G3, G4. split; [lia|]. split.
    + replace (0 * (2 * 2 ^ (k + 1)) + 2 ^ (k + 1)) with (2 ^ (k + 1)) by lia. apply PlanBase.group_inside. exact L1.
    + rewrite E in Hend. replace (k + 2) with (k + 1 + 1) in Hend by lia. rewrite pow2_succ in Hend. lia.
Qed.

Theorem pre_plan_root_item : forall size bs ml q, wf_ranges q = true -> q <> [] ->
  exists c rest, pre_plan size bs ml q = c :: rest /\ is_root_item size c.
Proof. intros size bs ml q Hwf Hne. unfold pre_plan. change 65%nat with (S 64). now apply root_item_rec. Qed.

Lemma map_cons_inv {A B} (f : A -> B) l y t : map f l = y :: t -> exists x l', l = x :: l' /\ f x = y /\ map f l' = t.
Proof. destruct l as [|x l']; cbn [map]; [discriminate|]. intro H. injection H as H1 H2. eauto. Qed.

Theorem pre_iter_root_item : forall size bs ml q, size <= 2 ^ 63 -> bs <= 10 -> wf_ranges q = true -> q <> [] ->
  exists c rest, pre_order_chunks_iter (mkTree size bs) q ml = c :: rest /\ is_root_item size c.
Proof.
  intros size bs ml q Hs Hb Hwf Hne.
  pose proof (c15_pre_plan size bs ml q Hs Hb Hwf) as E.
  destruct (pre_plan_root_item size bs ml q Hwf Hne) as (c & rest & Ep & Hr). rewrite Ep in E.
  destruct (map_cons_inv _ _ _ _ E) as (c' & rest' & E1 & E2 & _).
  exists c', rest'. split; [exact E1|]. apply wr_root_item. now rewrite E2.
Qed.

Theorem response_iter_root_item : forall size bs q, size <= 2 ^ 63 -> bs <= 10 -> wf_ranges q = true -> q <> [] ->
  exists c rest, response_iter (mkTree size bs) q = c :: rest /\ is_root_item size c.
Proof.
  intros size bs q Hs Hb Hwf Hne. rewrite (c15_response_plan size bs q Hs Hb Hwf).
  now apply pre_plan_root_item.
Qed.

(* post-order: the last item of every subtree is its top; at the root that is the root item *)
Definition post_top (size bs ga n : N) (r : bool) (c : chunk) : Prop :=
  match c with
  | CLeaf s z ir _ => n = 1 /\ s = ga * 2 ^ bs /\ z = span_bytes size (ga * 2 ^ bs) ((ga + 1) * 2 ^ bs) /\ ir = r
  | CParent nd ir _ _ _ => ir = r /\ sp_chunk_start nd = ga * 2 ^ bs /\
      exists h, 2 ^ h < n /\ n <= 2 * 2 ^ h /\ nd + 1 = (ga + 2 ^ h) * 2 ^ bs /\ sp_chunk_end nd = (ga + 2 * 2 ^ h) * 2 ^ bs
  end.

Lemma post_plan_top size bs : size <= 2 ^ 63 ->
  exists init c, post_plan size bs = init ++ [c] /\ post_top size bs 0 (sp_blocks size bs) true c.
Proof.
  intro Hs.
  apply (post_plan_ind size bs (fun ga n r l => exists init c, l = init ++ [c] /\ post_top size bs ga n r c) Hs).
  - intros ga r _. exists [], (leaf_of size bs ga r). split; [reflexivity|]. cbn [leaf_of post_top]. auto.
  - intros ga r k Hk _. eexists [_; _], _. split; [reflexivity|]. cbn [post_top]. split; [reflexivity|].
    pose proof (unshift_geom bs k 0) as G. cbv zeta in G. change (2 ^ 0) with 1 in G.
    replace (k * (2 * 1) + 1 - 1) with ga in G by lia. destruct G as (_ & G2 & G3 & G4).
    split; [rewrite G2; f_equal; lia|]. exists 0. change (2 ^ 0) with 1. split; [lia|]. split; [lia|].
    split; [rewrite G4; f_equal; lia|rewrite G3; f_equal; lia].
  - intros ga n r h k l1 l2 Hn Hh H1 H2 Hga _ _ _. exists (l1 ++ l2), (CParent (unshift bs (ga + 2 ^ h - 1)) r true true []).
    split; [now rewrite app_assoc|]. cbn [post_top]. split; [reflexivity|].
    pose proof (unshift_geom bs k h) as G. cbv zeta in G. rewrite <- Hga in G. destruct G as (_ & G2 & G3 & G4).
    split; [exact G2|]. exists h. auto.
Qed.

Theorem post_plan_root_item : forall size bs, size <= 2 ^ 63 ->
  exists init c, post_plan size bs = init ++ [c] /\ is_root_item size c.
Proof.
  intros size bs Hs. destruct (post_plan_top size bs Hs) as (init & c & E & T). exists init, c. split; [exact E|].
  pose proof (pow2_pos bs) as Hg. pose proof (nchunks_le_blocks size bs) as Hnn.
  destruct c as [nd ir l r rs|s z ir rs]; cbn [post_top is_root_item] in *.
  - destruct T as (-> & T2 & h & H1 & H2 & H3 & H4). split; [reflexivity|]. split; [lia|]. split.
    + rewrite H3, N.add_0_l. now apply PlanBase.group_inside.
    + rewrite H4. nia.
  - destruct T as (T1 & -> & -> & ->). split; [lia|]. split; [|reflexivity].
    rewrite N.mul_0_l. apply span_whole. rewrite T1 in Hnn. lia.
Qed.

Theorem post_iter_root_item : forall size bs, size <= 2 ^ 63 -> bs <= 10 ->
  exists init c, post_order_chunks_iter (mkTree size bs) = init ++ [c] /\ is_root_item size c.
Proof. intros size bs Hs Hb. rewrite (post_plan_refines size bs Hs Hb). now apply post_plan_root_item. Qed.

(* ------------------------------------------------------------------------------------------- *)
(* non-vacuity: concrete instances (min level below / above the block size) satisfying the hypotheses *)
Lemma gap_c15_nonvacuous :
  (5000 <= 2 ^ 63 /\ 1 <= 10 /\ wf_ranges [1; 3] = true /\ [1; 3] <> @nil N /\
   pre_order_chunks_iter (mkTree 5000 1) [1; 3] 0 =
     [CParent 3 true true false [1; 3]; CParent 1 false true true [1; 3]; CLeaf 0 2048 false [1]; CLeaf 2 2048 false [1; 3]] /\
   response_iter (mkTree 5000 1) [1; 3] =
     [CParent 3 true true false []; CParent 1 false true true []; CParent 0 false false true []; CLeaf 1 1024 false [];
      CParent 2 false true false []; CLeaf 2 1024 false []] /\
   post_order_chunks_iter (mkTree 5000 1) =
     [CLeaf 0 2048 false []; CLeaf 2 2048 false []; CParent 1 false true true []; CLeaf 4 904 false []; CParent 3 true true true []]) /\
  (9000 <= 2 ^ 63 /\ wf_ranges [0; 6] = true /\ 1 < 3 /\
   pre_order_chunks_iter (mkTree 9000 1) [0; 6] 3 =
     [CParent 7 true true false [0; 6]; CParent 3 false true true [0; 6]; CLeaf 0 4096 false [0];
      CParent 5 false true false [0; 6]; CLeaf 4 2048 false [0]]).
Proof.
  split.
  - split; [vm_compute; discriminate|]. split; [vm_compute; discriminate|]. split; [reflexivity|]. split; [discriminate|].
    split; [vm_compute; reflexivity|]. split; vm_compute; reflexivity.
  - split; [vm_compute; discriminate|]. split; [reflexivity|]. split; [reflexivity|]. vm_compute; reflexivity.
Qed.

Print Assumptions response_iter_is_chunk_iter.
Print Assumptions pre_iter_empty.
Print Assumptions response_iter_empty.
Print Assumptions pre_iter_wf.
Print Assumptions pre_iter_holds.
Print Assumptions response_iter_wf.
Print Assumptions response_iter_holds.
Print Assumptions post_iter_wf.
Print Assumptions pre_plan_gran.
Print Assumptions pre_plan_cover_exact.
Print Assumptions pre_iter_gran.
Print Assumptions pre_iter_cover_exact.
Print Assumptions response_iter_gran.
Print Assumptions response_iter_cover_exact.
Print Assumptions response_refines_chunk_iter.
Print Assumptions pre_plan_ml_low.
Print Assumptions pre_iter_ml_low.
Print Assumptions pre_plan_ml_high_differs.
Print Assumptions pre_plan_root_item.
Print Assumptions pre_iter_root_item.
Print Assumptions response_iter_root_item.
Print Assumptions post_plan_root_item.
Print Assumptions post_iter_root_item.
Print Assumptions gap_c15_nonvacuous.
