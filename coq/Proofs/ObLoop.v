(* C03: the outboard creation loops evaluate the post-order plan like a stack machine.
   One generic loop (parametric in the sink of the parent pairs) covers outboard_loop,
   outboard_po_loop and their fsm twins. *)
From BaoV Require Import Model.Sync Model.Fsm Spec.EncSpec Spec.PlanSpec
  Proofs.NodeLevel Proofs.NodeBits Proofs.RangeRound Proofs.ObBase.
From Coq Require Import Lia Arith PeanoNat ZArith ZifyN ZifyNat ZifyBool.

(* parents of a plan, in order *)
Definition plan_parents (l : list chunk) : list N :=
  flat_map (fun c => match c with CParent nd _ _ _ _ => [nd] | CLeaf _ _ _ _ => [] end) l.

Lemma plan_parents_app l1 l2 : plan_parents (l1 ++ l2) = plan_parents l1 ++ plan_parents l2.
Proof. apply flat_map_app. Qed.

Lemma N_eq_by_lt x y : (forall c, c < x <-> c < y) -> x = y.
Proof. intro H. pose proof (H x). pose proof (H y). lia. Qed.

Lemma mul_lt_le x y g z : x <= y -> y * g < z -> x * g < z.
Proof. intros H1 H2. pose proof (N.mul_le_mono_r x y g H1). lia. Qed.
Lemma mul_le_le x y g z : x <= y -> z <= x * g -> z <= y * g.
Proof. intros H1 H2. pose proof (N.mul_le_mono_r x y g H1). lia. Qed.

(* number of chunk groups *)
Lemma sp_blocks_groups size bs :
  sp_blocks size bs = (nchunks size + 2 ^ bs - 1) / 2 ^ bs.
Proof.
  pose proof (pow2_pos bs) as Hg. unfold sp_blocks.
  rewrite (cdiv_alt (nchunks size) (2 ^ bs) Hg), (cdiv_alt size (1024 * 2 ^ bs)) by lia.
  apply N_eq_by_lt. intro c.
  rewrite (cdiv_iff (nchunks size) (2 ^ bs) c Hg).
  pose proof (cdiv_iff size (1024 * 2 ^ bs) c ltac:(lia)) as H1.
  pose proof (nchunks_spec size (c * 2 ^ bs)) as H2.
  assert (c * 2 ^ bs = 0 <-> c = 0) by nia.
  replace (c * (1024 * 2 ^ bs)) with (c * 2 ^ bs * 1024) in H1 by lia.
  lia.
Qed.

Lemma sp_blocks_pos size bs : 1 <= sp_blocks size bs.
Proof. unfold sp_blocks. lia. Qed.
Lemma sp_blocks_last size bs : (sp_blocks size bs - 1) * 2 ^ bs < nchunks size.
Proof.
  pose proof (pow2_pos bs) as Hg. rewrite sp_blocks_groups, (cdiv_alt _ _ Hg).
  apply cdiv_iff; [assumption|].
  pose proof (cdiv_iff (nchunks size) (2 ^ bs) 0 Hg). pose proof (nchunks_pos size). lia.
Qed.
Lemma sp_blocks_cover size bs : nchunks size <= sp_blocks size bs * 2 ^ bs.
Proof.
  pose proof (pow2_pos bs) as Hg. rewrite sp_blocks_groups, (cdiv_alt _ _ Hg).
  apply cdiv_mul_ge. assumption.
Qed.
Lemma sp_blocks_bound size bs : size <= 2 ^ 63 -> sp_blocks size bs <= 2 ^ 53.
Proof.
  intro Hs. pose proof (nchunks_bound size Hs) as Hn. pose proof (sp_blocks_last size bs) as Hl.
  pose proof (pow2_pos bs) as Hg.
  assert (sp_blocks size bs - 1 <= (sp_blocks size bs - 1) * 2 ^ bs) by nia.
  pose proof (sp_blocks_pos size bs). lia.
Qed.

(* half of a power-of-two bracket *)
Lemma next_pow2_half_unique x j : 2 ^ j < x -> x <= 2 ^ (j + 1) -> next_pow2 x / 2 = 2 ^ j.
Proof.
  intros H1 H2. pose proof (pow2_pos j).
  destruct (next_pow2_half x ltac:(lia)) as (j' & E & L1 & L2). rewrite E. f_equal.
  assert (A : 2 ^ j < 2 ^ (j' + 1)) by lia. assert (B : 2 ^ j' < 2 ^ (j + 1)) by lia.
  apply N.pow_lt_mono_r_iff in A; [|lia]. apply N.pow_lt_mono_r_iff in B; [|lia]. lia.
Qed.

Section ObLoop.
Variable HO : hops.
Notation bytes := (bytes HO).
Notation hash := (hash HO).
Notation outboard := (outboard HO).
Notation blen := (blen HO).
Notation take := (take HO).
Notation drop := (drop HO).
Notation cv := (cv HO).

(* ---- fuel independence of cv, and its unfolding ---- *)
Lemma cv_rec_fuel data : forall (m : nat) f1 f2 a b r,
  (m < f1)%nat -> (m < f2)%nat -> b - a <= 2 ^ N.of_nat m ->
  cv_rec HO f1 data a b r = cv_rec HO f2 data a b r.
Proof.
  induction m as [|m IH]; intros f1 f2 a b r Hf1 Hf2 Hm;
    (destruct f1 as [|f1]; [lia|]); (destruct f2 as [|f2]; [lia|]); cbn [cv_rec].
  - apply le1_pow0 in Hm. replace (b - a <=? 1) with true by lia. reflexivity.
  - destruct (b - a <=? 1) eqn:E1; [reflexivity|].
    destruct (half_facts (b - a) m ltac:(lia) Hm) as (Hh1 & Hh2 & Hh3 & Hh4 & _).
    set (half := next_pow2 (b - a) / 2) in *.
    f_equal; apply IH; lia.
Qed.

Lemma cv_rec_unfold f data a b r :
  cv_rec HO (S f) data a b r =
    if b - a <=? 1 then chunk_cv HO a (chunk_bytes HO data a b) r
    else let half := next_pow2 (b - a) / 2 in
         parent_cv HO (cv_rec HO f data a (a + half) false) (cv_rec HO f data (a + half) b false) r.
Proof. reflexivity. Qed.

Lemma cv_split data a b r : 2 <= b - a -> b - a <= 2 ^ 63 ->
  let h := next_pow2 (b - a) / 2 in
  cv data a b r = parent_cv HO (cv data a (a + h) false) (cv data (a + h) b false) r.
Proof.
  intros H2 H63 h. unfold cv. rewrite (cv_rec_unfold 63).
  replace (b - a <=? 1) with false by lia. fold h.
  destruct (half_facts (b - a) 62 H2 ltac:(exact H63)) as (Hh1 & Hh2 & Hh3 & Hh4 & _). fold h in Hh1, Hh2, Hh3, Hh4.
  cbv zeta.
  rewrite (cv_rec_fuel data 62 63 64 a (a + h) false), (cv_rec_fuel data 62 63 64 (a + h) b false) by lia.
  reflexivity.
Qed.

(* ---- the generic loop ---- *)
Section Generic.
Variable S : Type.
Variable sv : S -> N -> hash -> hash -> res io_kind S.

Fixpoint gloop (items : list chunk) (stack : list hash) (data : bytes) (s : S)
  : res io_kind hash * S * bytes :=
  match items with
  | [] => match stack with
          | [h] => (Ok h, s, data)
          | _ => (Panic, s, data)
          end
  | CParent node is_root _ _ _ :: rest =>
      match stack with
      | rh :: lh :: stk =>
          match sv s node lh rh with
          | Ok s' => gloop rest (parent_cv HO lh rh is_root :: stk) data s'
          | Err k => (Err k, s, data)
          | Panic => (Panic, s, data)
          end
      | _ => (Panic, s, data)
      end
  | CLeaf start size is_root _ :: rest =>
      if blen data <? size then (Err KUnexpectedEof, s, [])
      else gloop rest (hash_subtree HO start (take size data) is_root :: stack) (drop size data) s
  end.

Fixpoint gfold (s : S) (l : list (N * (hash * hash))) : res io_kind S :=
  match l with
  | [] => Ok s
  | (nd, (lh, rh)) :: t =>
      match sv s nd lh rh with
      | Ok s' => gfold s' t
      | Err k => Err k
      | Panic => Panic
      end
  end.

Lemma gfold_app s l1 l2 :
  gfold s (l1 ++ l2) = match gfold s l1 with Ok s' => gfold s' l2 | Err k => Err k | Panic => Panic end.
Proof.
  revert s. induction l1 as [|[nd [lh rh]] l1 IH]; intro s; [reflexivity|].
  cbn [gfold app]. destruct (sv s nd lh rh); [apply IH|reflexivity|reflexivity].
Qed.
End Generic.

(* pairs of the subtree over groups [ga, ga+k), named by their node; mirrors ob_rec *)
Fixpoint pairs_rec (fuel : nat) (post : bool) (data : bytes) (bs n ga k : N) : list (N * (hash * hash)) :=
  match fuel with
  | O => []
  | Datatypes.S f =>
    if k <=? 1 then []
    else
      let g := 2 ^ bs in
      let half := next_pow2 k / 2 in
      let a := ga * g in let m := (ga + half) * g in let e := N.min ((ga + k) * g) n in
      let p := (unshift bs (ga + half - 1), (cv data a m false, cv data m e false)) in
      if post then pairs_rec f post data bs n ga half ++ pairs_rec f post data bs n (ga + half) (k - half) ++ [p]
      else p :: pairs_rec f post data bs n ga half ++ pairs_rec f post data bs n (ga + half) (k - half)
  end.

Definition flat_pairs (l : list (N * (hash * hash))) : bytes :=
  concat (map (fun p => fst (snd p) ++ snd (snd p)) l).

Lemma flat_pairs_app l1 l2 : flat_pairs (l1 ++ l2) = flat_pairs l1 ++ flat_pairs l2.
Proof. unfold flat_pairs. now rewrite map_app, concat_app. Qed.

Lemma ob_rec_flat data bs n post : forall fuel ga k,
  ob_rec HO fuel post data (2 ^ bs) n ga k = flat_pairs (pairs_rec fuel post data bs n ga k).
Proof.
  induction fuel as [|f IH]; intros ga k; [reflexivity|].
  cbn [ob_rec pairs_rec]. destruct (k <=? 1); [reflexivity|].
  cbv zeta. destruct post.
  - rewrite !flat_pairs_app, <- !IH. unfold flat_pairs. cbn [map concat fst snd]. now rewrite app_nil_r.
  - change (?p :: ?l) with ([p] ++ l). rewrite !flat_pairs_app, <- !IH.
    unfold flat_pairs at 1. cbn [map concat fst snd]. now rewrite app_nil_r, <- !app_assoc.
Qed.

Lemma pairs_rec_1 fuel post data bs n ga : pairs_rec fuel post data bs n ga 1 = [].
Proof. destruct fuel; reflexivity. Qed.

Lemma pairs_rec_unfold f post data bs n ga k : 2 <= k ->
  pairs_rec (Datatypes.S f) post data bs n ga k =
    let g := 2 ^ bs in
    let half := next_pow2 k / 2 in
    let a := ga * g in let m := (ga + half) * g in let e := N.min ((ga + k) * g) n in
    let p := (unshift bs (ga + half - 1), (cv data a m false, cv data m e false)) in
    if post then pairs_rec f post data bs n ga half ++ pairs_rec f post data bs n (ga + half) (k - half) ++ [p]
    else p :: pairs_rec f post data bs n ga half ++ pairs_rec f post data bs n (ga + half) (k - half).
Proof. intro H. cbn [pairs_rec]. replace (k <=? 1) with false by lia. reflexivity. Qed.

(* the recursive plan in its generic form, n >= 2 *)
Lemma next_pow2_2 : next_pow2 2 / 2 = 1.
Proof. reflexivity. Qed.

Lemma post_plan_rec_1 f size bs ga r :
  post_plan_rec (Datatypes.S f) size bs ga 1 r =
  [CLeaf (ga * 2 ^ bs) (span_bytes size (ga * 2 ^ bs) ((ga + 1) * 2 ^ bs)) r []].
Proof. reflexivity. Qed.

Lemma post_plan_rec_unfold f size bs ga n r : 2 <= n ->
  post_plan_rec (Datatypes.S (Datatypes.S f)) size bs ga n r =
    let half := next_pow2 n / 2 in
    post_plan_rec (Datatypes.S f) size bs ga half false
    ++ post_plan_rec (Datatypes.S f) size bs (ga + half) (n - half) false
    ++ [CParent (unshift bs (ga + half - 1)) r true true []].
Proof.
  intro H. cbn [post_plan_rec]. replace (n =? 1) with false by lia.
  destruct (n =? 2) eqn:E2; [|reflexivity].
  apply N.eqb_eq in E2. subst n. cbv zeta. rewrite next_pow2_2.
  change (1 =? 1) with true. change (2 - 1) with 1. change (1 =? 1) with true. cbv iota.
  replace (ga + 1 - 1) with ga by lia. replace (ga + 1 + 1) with (ga + 2) by lia. reflexivity.
Qed.

(* ---- nodes of the pairs = parents of the plan ---- *)
Lemma pairs_nodes_post data size bs nch : forall (m : nat) f1 f2 ga n r,
  (m < f1)%nat -> (m < f2)%nat -> 1 <= n -> n <= 2 ^ N.of_nat m ->
  plan_parents (post_plan_rec f1 size bs ga n r) = map fst (pairs_rec f2 true data bs nch ga n).
Proof.
  induction m as [|m IH]; intros f1 f2 ga n r Hf1 Hf2 H1 Hm;
    (destruct f1 as [|f1]; [lia|]); (destruct f2 as [|f2]; [lia|]).
  - apply le1_pow0 in Hm. assert (n = 1) by lia. subst n. rewrite pairs_rec_1. reflexivity.
  - destruct (N.eq_dec n 1) as [->|Hn1]; [rewrite pairs_rec_1; reflexivity|].
    assert (H2 : 2 <= n) by lia.
    destruct f1 as [|f1]; [lia|].
    rewrite post_plan_rec_unfold, pairs_rec_unfold by assumption. cbv zeta.
    destruct (half_facts n m H2 Hm) as (Hh1 & Hh2 & Hh3 & Hh4 & _).
    set (half := next_pow2 n / 2) in *.
    rewrite !plan_parents_app, !map_app.
    rewrite (IH (Datatypes.S f1) f2 ga half false) by lia.
    rewrite (IH (Datatypes.S f1) f2 (ga + half) (n - half) false) by lia.
    reflexivity.
Qed.

(* ---- every pair is the true pair of its node ---- *)
Lemma unshift_succ bs s : unshift bs s + 1 = (s + 1) * 2 ^ bs.
Proof. unfold unshift. pose proof (pow2_pos bs). nia. Qed.

Lemma true_pair_node bs ga k J :
  ga = 2 * J * 2 ^ k ->
  let nd := unshift bs (ga + 2 ^ k - 1) in
  nd + 1 = (ga + 2 ^ k) * 2 ^ bs /\ sp_chunk_start nd = ga * 2 ^ bs /\ sp_chunk_end nd = (ga + 2 * 2 ^ k) * 2 ^ bs.
Proof.
  intros Hga nd. pose proof (pow2_pos k) as Hk. pose proof (pow2_pos bs) as Hb.
  assert (E : nd + 1 = (2 * J + 1) * 2 ^ (k + bs)).
  { unfold nd. rewrite unshift_succ, pow2_add, Hga. replace (2 * J * 2 ^ k + 2 ^ k - 1 + 1) with ((2 * J + 1) * 2 ^ k) by lia. lia. }
  destruct (decomp_unique nd (k + bs) J E) as [Hl Hi].
  unfold sp_chunk_start, sp_chunk_end. rewrite <- level_is_sp_level, Hl, Hi, pow2_add, Hga.
  split; [|split]; [|lia|lia].
  rewrite E, pow2_add. lia.
Qed.

Definition aligned (g nch ga n : N) : Prop :=
  exists c j, ga = j * 2 ^ c /\ n <= 2 ^ c /\ (n = 2 ^ c \/ nch <= (ga + n) * g).

Lemma pairs_true data bs post : let nch := blob_chunks HO data in
  forall (m : nat) f ga n,
  (m < f)%nat -> 1 <= n -> n <= 2 ^ N.of_nat m -> aligned (2 ^ bs) nch ga n ->
  Forall (fun p => snd p = true_pair HO data (fst p)) (pairs_rec f post data bs nch ga n).
Proof.
  intro nch. induction m as [|m IH]; intros f ga n Hf H1 Hm Hal; (destruct f as [|f]; [lia|]).
  - apply le1_pow0 in Hm. assert (n = 1) by lia. subst n. rewrite pairs_rec_1. constructor.
  - destruct (N.eq_dec n 1) as [->|Hn1]; [rewrite pairs_rec_1; constructor|].
    assert (H2 : 2 <= n) by lia.
    rewrite pairs_rec_unfold by assumption. cbv zeta.
    destruct (half_facts n m H2 Hm) as (Hh1 & Hh2 & Hh3 & Hh4 & (k & Hk)).
    set (half := next_pow2 n / 2) in *.
    destruct Hal as (c & j & Hga & Hnc & Hedge).
    pose proof (pow2_pos bs) as Hg. pose proof (pow2_pos k) as Hkp.
    (* c > k *)
    assert (Hck : k + 1 <= c).
    { assert (A : 2 ^ k < 2 ^ c) by lia. apply N.pow_lt_mono_r_iff in A; lia. }
    assert (Hc : 2 ^ c = 2 ^ (c - (k + 1)) * (2 * 2 ^ k)).
    { rewrite <- pow2_succ, <- pow2_add. f_equal. lia. }
    set (J := j * 2 ^ (c - (k + 1))).
    assert (HgaJ : ga = 2 * J * 2 ^ k) by (unfold J; rewrite Hga, Hc; lia).
    assert (Hfull : n = 2 * half \/ nch <= (ga + n) * 2 ^ bs).
    { destruct Hedge as [E|E]; [left|right; exact E].
      pose proof (pow2_pos (c - (k + 1))). rewrite Hk. nia. }
    assert (HL : Forall (fun p => snd p = true_pair HO data (fst p)) (pairs_rec f post data bs nch ga half)).
    { apply IH; try lia. exists k, (2 * J). rewrite Hk. split; [lia|split; [lia|left; reflexivity]]. }
    assert (HR : Forall (fun p => snd p = true_pair HO data (fst p))
                   (pairs_rec f post data bs nch (ga + half) (n - half))).
    { apply IH; try lia. exists k, (2 * J + 1). rewrite Hk. split; [lia|split; [lia|]].
      destruct Hfull as [E|E]; [left; lia|right]. replace (ga + 2 ^ k + (n - 2 ^ k)) with (ga + n) by lia. exact E. }
    assert (HP : snd (unshift bs (ga + half - 1),
                      (cv data (ga * 2 ^ bs) ((ga + half) * 2 ^ bs) false,
                       cv data ((ga + half) * 2 ^ bs) (N.min ((ga + n) * 2 ^ bs) nch) false))
                 = true_pair HO data (fst (unshift bs (ga + half - 1),
                      (cv data (ga * 2 ^ bs) ((ga + half) * 2 ^ bs) false,
                       cv data ((ga + half) * 2 ^ bs) (N.min ((ga + n) * 2 ^ bs) nch) false)))).
    { cbn [fst snd]. unfold true_pair. fold nch. rewrite Hk.
      destruct (true_pair_node bs ga k J HgaJ) as (E1 & E2 & E3). cbv zeta in E1, E2, E3.
      rewrite E1, E2, E3.
      replace (N.min ((ga + 2 * 2 ^ k) * 2 ^ bs) nch) with (N.min ((ga + n) * 2 ^ bs) nch); [reflexivity|].
      destruct Hfull as [E|E]; [rewrite E, Hk; reflexivity|].
      assert ((ga + n) * 2 ^ bs <= (ga + 2 * 2 ^ k) * 2 ^ bs) by (apply N.mul_le_mono_r; lia).
      lia. }
    destruct post.
    + apply Forall_app; split; [exact HL|]. apply Forall_app; split; [exact HR|]. constructor; [exact HP|constructor].
    + constructor; [exact HP|]. apply Forall_app; split; assumption.
Qed.

Lemma Forall_pairs_map (F : N -> hash * hash) (l : list (N * (hash * hash))) :
  Forall (fun p => snd p = F (fst p)) l -> l = map (fun nd => (nd, F nd)) (map fst l).
Proof.
  induction 1 as [|[nd pr] l Hp _ IH]; [reflexivity|]. cbn [map fst]. cbn [fst snd] in Hp. subst pr. f_equal. exact IH.
Qed.

(* ---- the loop evaluates the plan ---- *)
Section Run.
Variable S : Type.
Variable sv : S -> N -> hash -> hash -> res io_kind S.
Variable data : bytes.
Variable bs : N.
Hypothesis Hsize : blen data <= 2 ^ 63.
Let size := blen data.
Let nch := blob_chunks HO data.
Let g := 2 ^ bs.
Let pos (c : N) := N.min (c * 1024) size.

Lemma nch_facts : 1 <= nch /\ size <= nch * 1024 /\ (nch - 1 = 0 \/ (nch - 1) * 1024 < size).
Proof.
  unfold nch, blob_chunks, size. pose proof (nchunks_pos (blen data)). pose proof (nchunks_cover (blen data)).
  pose proof (proj1 (nchunks_spec (blen data) (nchunks (blen data) - 1)) ltac:(lia)). lia.
Qed.

Lemma leaf_step ga r rest stk s : ga * g < nch ->
  gloop S sv (CLeaf (ga * g) (span_bytes size (ga * g) ((ga + 1) * g)) r [] :: rest) stk (drop (pos (ga * g)) data) s
  = gloop S sv rest (cv data (ga * g) (N.min ((ga + 1) * g) nch) r :: stk) (drop (pos ((ga + 1) * g)) data) s.
Proof.
  intro Hin. destruct nch_facts as (Hn1 & Hn2 & Hn3).
  assert (Hg : 0 < g) by apply pow2_pos.
  assert (Ha : ga * g = 0 \/ ga * g * 1024 < size).
  { apply nchunks_spec. exact Hin. }
  assert (Hab : ga * g < (ga + 1) * g) by lia.
  set (a := ga * g) in *. set (b := (ga + 1) * g) in *.
  cbn [gloop]. unfold span_bytes. fold (pos a) (pos b).
  assert (Hpa : pos a = a * 1024) by (unfold pos; lia).
  assert (Hpb : pos a <= pos b) by (unfold pos; lia).
  rewrite blen_drop. fold size.
  replace (size - pos a <? pos b - pos a) with false by (unfold pos; lia).
  rewrite drop_drop. replace (pos a + (pos b - pos a)) with (pos b) by lia.
  f_equal. f_equal.
  rewrite cv_hash_subtree_inside by (assumption || (fold nch; lia)).
  f_equal. unfold chunk_bytes, slice. rewrite Hpa. apply take_eq.
  rewrite blen_drop. fold size. unfold pos. lia.
Qed.

Lemma parent_step nd r l rt rs rest rh lh stk d s :
  gloop S sv (CParent nd r l rt rs :: rest) (rh :: lh :: stk) d s =
  match sv s nd lh rh with
  | Ok s' => gloop S sv rest (parent_cv HO lh rh r :: stk) d s'
  | Err k => (Err k, s, d)
  | Panic => (Panic, s, d)
  end.
Proof. reflexivity. Qed.

Definition run_ok (items : list chunk) (stk : list hash) (d : bytes) (s : S)
  (pairs : list (N * (hash * hash))) (rest : list chunk) (h : hash) (d' : bytes) : Prop :=
  match gfold S sv s pairs with
  | Ok s' => gloop S sv (items ++ rest) stk d s = gloop S sv rest (h :: stk) d' s'
  | Err k => fst (fst (gloop S sv (items ++ rest) stk d s)) = Err k
  | Panic => fst (fst (gloop S sv (items ++ rest) stk d s)) = Panic
  end.

Lemma loop_plan : forall (m : nat) f1 f2 ga n r rest stk s,
  (m < f1)%nat -> (m < f2)%nat -> 1 <= n -> n <= 2 ^ N.of_nat m -> (ga + n - 1) * g < nch ->
  run_ok (post_plan_rec f1 size bs ga n r) stk (drop (pos (ga * g)) data) s
         (pairs_rec f2 true data bs nch ga n) rest
         (cv data (ga * g) (N.min ((ga + n) * g) nch) r) (drop (pos ((ga + n) * g)) data).
Proof.
  induction m as [|m IH]; intros f1 f2 ga n r rest stk s Hf1 Hf2 H1 Hm Hlast;
    (destruct f1 as [|f1]; [lia|]); (destruct f2 as [|f2]; [lia|]).
  - apply le1_pow0 in Hm. assert (n = 1) by lia. subst n. unfold run_ok.
    rewrite pairs_rec_1, post_plan_rec_1. cbn [gfold app]. fold g.
    apply leaf_step. replace (ga + 1 - 1) with ga in Hlast by lia. exact Hlast.
  - destruct (N.eq_dec n 1) as [->|Hn1].
    { unfold run_ok. rewrite pairs_rec_1, post_plan_rec_1. cbn [gfold app]. fold g.
      apply leaf_step. replace (ga + 1 - 1) with ga in Hlast by lia. exact Hlast. }
    assert (H2 : 2 <= n) by lia.
    destruct f1 as [|f1]; [lia|].
    unfold run_ok.
    rewrite post_plan_rec_unfold, pairs_rec_unfold by assumption. cbv zeta.
    destruct (half_facts n m H2 Hm) as (Hh1 & Hh2 & Hh3 & Hh4 & (k & Hk)).
    set (half := next_pow2 n / 2) in *. fold g.
    assert (Hg : 0 < g) by apply pow2_pos.
    assert (HlastL : (ga + half - 1) * g < nch) by (apply (mul_lt_le _ (ga + n - 1)); [lia|exact Hlast]).
    assert (HlastR : (ga + half + (n - half) - 1) * g < nch) by (replace (ga + half + (n - half)) with (ga + n) by lia; exact Hlast).
    assert (Hmid : (ga + half) * g < nch) by (apply (mul_lt_le _ (ga + n - 1)); [lia|exact Hlast]).
    set (P1 := pairs_rec f2 true data bs nch ga half).
    set (P2 := pairs_rec f2 true data bs nch (ga + half) (n - half)).
    set (p1 := post_plan_rec (Datatypes.S f1) size bs ga half false).
    set (p2 := post_plan_rec (Datatypes.S f1) size bs (ga + half) (n - half) false).
    set (par := CParent (unshift bs (ga + half - 1)) r true true []).
    rewrite <- !app_assoc.
    pose proof (IH (Datatypes.S f1) f2 ga half false (p2 ++ [par] ++ rest) stk s
                  ltac:(lia) ltac:(lia) ltac:(lia) ltac:(lia) HlastL) as IH1.
    unfold run_ok in IH1. fold P1 p1 in IH1.
    rewrite gfold_app.
    destruct (gfold S sv s P1) as [s1|e|]; [|exact IH1|exact IH1].
    rewrite IH1. clear IH1.
    pose proof (IH (Datatypes.S f1) f2 (ga + half) (n - half) false ([par] ++ rest)
                  (cv data (ga * g) (N.min ((ga + half) * g) nch) false :: stk) s1
                  ltac:(lia) ltac:(lia) ltac:(lia) ltac:(lia) HlastR) as IH2.
    unfold run_ok in IH2. fold P2 p2 in IH2.
    rewrite gfold_app.
    destruct (gfold S sv s1 P2) as [s2|e|]; [|exact IH2|exact IH2].
    rewrite IH2. clear IH2.
    replace (ga + half + (n - half)) with (ga + n) by lia.
    replace (N.min ((ga + half) * g) nch) with ((ga + half) * g) by lia.
    unfold par. cbn [app]. rewrite parent_step. cbn [gfold].
    destruct (sv s2 (unshift bs (ga + half - 1)) (cv data (ga * g) ((ga + half) * g) false)
                 (cv data ((ga + half) * g) (N.min ((ga + n) * g) nch) false)) as [s3|e|];
      [|reflexivity|reflexivity].
    (* the parent value *)
    set (e := N.min ((ga + n) * g) nch).
    assert (He1 : (ga + n - 1) * g < e) by (unfold e; assert ((ga + n - 1) * g < (ga + n) * g) by nia; lia).
    assert (He2 : e <= (ga + n) * g) by (unfold e; lia).
    assert (Hspan1 : 2 ^ (k + bs) < e - ga * g).
    { rewrite pow2_add, <- Hk. fold g. assert ((ga + half) * g <= (ga + n - 1) * g) by (apply N.mul_le_mono_r; lia). nia. }
    assert (Hspan2 : e - ga * g <= 2 ^ (k + bs + 1)).
    { rewrite pow2_succ, pow2_add, <- Hk. fold g. assert ((ga + n) * g <= (ga + 2 * half) * g) by (apply N.mul_le_mono_r; lia). nia. }
    assert (Hhalf : next_pow2 (e - ga * g) / 2 = half * g).
    { rewrite (next_pow2_half_unique _ (k + bs) Hspan1 Hspan2), pow2_add, <- Hk. reflexivity. }
    assert (Hnb : nch <= 2 ^ 53) by (apply nchunks_bound; exact Hsize).
    rewrite (cv_split data (ga * g) e r).
    + cbv zeta. rewrite Hhalf. replace (ga * g + half * g) with ((ga + half) * g) by lia. reflexivity.
    + pose proof (pow2_pos (k + bs)). lia.
    + change (2 ^ 53) with 9007199254740992 in Hnb. change (2 ^ 63) with 9223372036854775808. lia.
Qed.

(* whole plan *)
Lemma loop_post_plan_gen f1 f2 s : (63 < f1)%nat -> (63 < f2)%nat ->
  match gfold S sv s (pairs_rec f2 true data bs nch 0 (sp_blocks size bs)) with
  | Ok s' => gloop S sv (post_plan_rec f1 size bs 0 (sp_blocks size bs) true) [] data s = (Ok (root_hash HO data), s', [])
  | Err k => fst (fst (gloop S sv (post_plan_rec f1 size bs 0 (sp_blocks size bs) true) [] data s)) = Err k
  | Panic => fst (fst (gloop S sv (post_plan_rec f1 size bs 0 (sp_blocks size bs) true) [] data s)) = Panic
  end.
Proof.
  intros Hf1 Hf2.
  pose proof (sp_blocks_pos size bs) as Hb1. pose proof (sp_blocks_bound size bs Hsize) as Hb2.
  pose proof (sp_blocks_last size bs) as Hb3. pose proof (sp_blocks_cover size bs) as Hb4.
  destruct nch_facts as (Hn1 & Hn2 & Hn3).
  assert (Hm : sp_blocks size bs <= 2 ^ N.of_nat 63).
  { change (2 ^ N.of_nat 63) with 9223372036854775808. change (2 ^ 53) with 9007199254740992 in Hb2. lia. }
  pose proof (loop_plan 63 f1 f2 0 (sp_blocks size bs) true [] [] s Hf1 Hf2 Hb1 Hm
                ltac:(exact Hb3)) as H.
  unfold run_ok in H. rewrite app_nil_r in H.
  assert (Hp0 : pos (0 * g) = 0) by (unfold pos; lia).
  rewrite Hp0, (drop_0 HO) in H.
  destruct (gfold S sv s (pairs_rec f2 true data bs nch 0 (sp_blocks size bs))) as [s'|e|]; [|exact H|exact H].
  rewrite H. fold g in Hb3, Hb4.
  assert (Hnch : nchunks size = nch) by reflexivity. rewrite Hnch in Hb3, Hb4.
  replace (N.min ((0 + sp_blocks size bs) * g) nch) with nch by lia.
  rewrite (drop_all HO (pos ((0 + sp_blocks size bs) * g))).
  - cbn [gloop]. unfold root_hash. rewrite N.mul_0_l. reflexivity.
  - fold size. unfold pos. assert (nch * 1024 <= (0 + sp_blocks size bs) * g * 1024) by lia. lia.
Qed.

Lemma loop_post_plan s :
  match gfold S sv s (pairs_rec 64 true data bs nch 0 (sp_blocks size bs)) with
  | Ok s' => gloop S sv (post_plan size bs) [] data s = (Ok (root_hash HO data), s', [])
  | Err k => fst (fst (gloop S sv (post_plan size bs) [] data s)) = Err k
  | Panic => fst (fst (gloop S sv (post_plan size bs) [] data s)) = Panic
  end.
Proof. apply (loop_post_plan_gen 65 64); lia. Qed.

Lemma loop_post_plan_ok s s' :
  gfold S sv s (pairs_rec 64 true data bs nch 0 (sp_blocks size bs)) = Ok s' ->
  gloop S sv (post_plan size bs) [] data s = (Ok (root_hash HO data), s', []).
Proof. intro E. pose proof (loop_post_plan s) as H. rewrite E in H. exact H. Qed.

End Run.

End ObLoop.
