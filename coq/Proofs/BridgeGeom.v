(* The geometric heart of the bridge: the query summaries q_any / q_full that the decoder's plan
   evaluates on the truncated query are existsb / forallb of the selection over the node's chunks. *)
From BaoV Require Import Spec.RangeSpec Spec.PlanSpec Spec.EncSpec Spec.PTree Spec.SpecTree Spec.HashAssm.
From BaoV Require Import Proofs.RangeBase Proofs.RangeRound Proofs.RangeTrunc Proofs.RangeProofs Proofs.BridgeBase Proofs.BridgeTree.
From Coq Require Import Lia Arith PeanoNat ZArith ZifyN ZifyNat ZifyBool.
Ltac Zify.zify_post_hook ::= Z.div_mod_to_equations.

(* ---- filters of boundaries as differences of counts ---- *)
Lemma r_is_empty_length (l : ranges) : r_is_empty l = (length l =? 0)%nat.
Proof. destruct l; reflexivity. Qed.

Lemma filter_all_gt (f : N -> bool) (t : list N) y :
  Forall (fun z => y < z) t -> (forall z, y < z -> f z = false) -> filter f t = [].
Proof.
  intros H Hf. induction t as [|z t IH]; [reflexivity|]. inversion H as [|? ? Hz Ht]; subst.
  cbn [filter]. rewrite (Hf z Hz). now apply IH.
Qed.

Lemma filter_between_cnt r x y : ssorted r -> x <= y ->
  length (filter (fun b => (x <? b) && (b <=? y)) r) = (cnt r y - cnt r x)%nat.
Proof.
  intros Hs Hxy. induction r as [|b t IH]; [reflexivity|].
  specialize (IH (ss_tail _ _ Hs)). pose proof (ss_head_lt _ _ Hs) as Hgt.
  cbn [filter cnt].
  destruct (b <=? x) eqn:E1.
  - apply N.leb_le in E1. assert (E2 : (b <=? y) = true) by (apply N.leb_le; lia). rewrite E2.
    assert (E3 : (x <? b) = false) by (apply N.ltb_ge; lia). rewrite E3. cbn [andb]. rewrite IH. lia.
  - apply N.leb_gt in E1. assert (E3 : (x <? b) = true) by (apply N.ltb_lt; lia). rewrite E3. cbn [andb].
    assert (Cx : cnt t x = O) by (apply cnt_all_gt; apply (Forall_gt_trans x b); [lia | assumption]).
    destruct (b <=? y) eqn:E2.
    + cbn [length]. rewrite IH, Cx. lia.
    + apply N.leb_gt in E2. rewrite (filter_all_gt _ t b); [reflexivity | assumption |].
      intros z Hz. assert (E4 : (z <=? y) = false) by (apply N.leb_gt; lia). rewrite E4. apply andb_false_r.
Qed.

Lemma filter_gt_cnt r x : ssorted r ->
  length (filter (fun b => x <? b) r) = (length r - cnt r x)%nat.
Proof.
  intros Hs. induction r as [|b t IH]; [reflexivity|].
  specialize (IH (ss_tail _ _ Hs)). pose proof (ss_head_lt _ _ Hs) as Hgt.
  cbn [filter cnt length].
  destruct (b <=? x) eqn:E1.
  - apply N.leb_le in E1. assert (E3 : (x <? b) = false) by (apply N.ltb_ge; lia). rewrite E3. rewrite IH. lia.
  - apply N.leb_gt in E1. assert (E3 : (x <? b) = true) by (apply N.ltb_lt; lia). rewrite E3. cbn [length].
    assert (Cx : cnt t x = O) by (apply cnt_all_gt; apply (Forall_gt_trans x b); [lia | assumption]).
    rewrite IH, Cx. lia.
Qed.

Lemma filter_ext' {A} (f g : A -> bool) l : (forall x, f x = g x) -> filter f l = filter g l.
Proof. intro H. induction l as [|x l IH]; [reflexivity|]. cbn [filter]. now rewrite H, IH. Qed.

Lemma filter_open_cnt r a e : ssorted r -> a < e ->
  length (filter (fun b => (a <? b) && (b <? e)) r) = (cnt r (e - 1) - cnt r a)%nat.
Proof.
  intros Hs Hae. rewrite <- (filter_between_cnt r a (e - 1)) by (assumption || lia).
  f_equal. apply filter_ext'. intro b. f_equal.
  destruct (b <? e) eqn:E1, (b <=? e - 1) eqn:E2; try reflexivity.
  - apply N.ltb_lt in E1. apply N.leb_gt in E2. lia.
  - apply N.ltb_ge in E1. apply N.leb_le in E2. lia.
Qed.

(* ---- q_any / q_full by counts ---- *)
Lemma q_any_cnt r a e : ssorted r -> a < e ->
  q_any r a e false = (cnt r a <? cnt r (e - 1))%nat || Nat.odd (cnt r a).
Proof.
  intros Hs Hae. unfold q_any. rewrite r_is_empty_length, filter_open_cnt, mem_cnt by assumption.
  pose proof (cnt_mono r a (e - 1) ltac:(lia)). f_equal.
  destruct (cnt r a <? cnt r (e - 1))%nat eqn:E1, (cnt r (e - 1) - cnt r a =? 0)%nat eqn:E2; try reflexivity; lia.
Qed.

Lemma q_any_rm_cnt r a e : ssorted r ->
  q_any r a e true = Nat.odd (length r) || (cnt r a <? length r)%nat.
Proof. intro Hs. unfold q_any. now apply reaches_cnt. Qed.

Lemma q_full_cnt r a e : ssorted r -> a < e ->
  q_full r a e false = Nat.odd (cnt r a) && (cnt r (e - 1) =? cnt r a)%nat.
Proof.
  intros Hs Hae. unfold q_full. rewrite r_is_empty_length, filter_open_cnt, mem_cnt by assumption.
  pose proof (cnt_mono r a (e - 1) ltac:(lia)). f_equal.
  destruct (cnt r (e - 1) =? cnt r a)%nat eqn:E1, (cnt r (e - 1) - cnt r a =? 0)%nat eqn:E2; try reflexivity; lia.
Qed.

Lemma q_full_rm_cnt r a e : ssorted r ->
  q_full r a e true = Nat.odd (cnt r a) && (cnt r a =? length r)%nat.
Proof.
  intros Hs. unfold q_full. rewrite r_is_empty_length, filter_gt_cnt, mem_cnt by assumption.
  pose proof (cnt_le_length r a). f_equal.
  destruct (cnt r a =? length r)%nat eqn:E1, (length r - cnt r a =? 0)%nat eqn:E2; try reflexivity; lia.
Qed.

(* ---- existsb / forallb of membership over an interval by counts ---- *)
Lemma cnt_step r x : ssorted r -> cnt r (x + 1) = cnt r x \/ cnt r (x + 1) = S (cnt r x).
Proof. intro Hs. pose proof (cnt_succ r x Hs). pose proof (cnt_mono r x (x + 1) ltac:(lia)). lia. Qed.

Lemma existsb_mem_cnt r a : ssorted r -> forall k,
  existsb (mem r) (chunk_range_list a (a + 1 + N.of_nat k)) =
  Nat.odd (cnt r a) || (cnt r a <? cnt r (a + N.of_nat k))%nat.
Proof.
  intros Hs. induction k as [|k IH].
  - change (N.of_nat 0) with 0. rewrite !N.add_0_r, crl_single. cbn [existsb]. rewrite mem_cnt, Nat.ltb_irrefl. reflexivity.
  - replace (a + 1 + N.of_nat (S k)) with (a + 1 + N.of_nat k + 1) by lia.
    rewrite crl_snoc by lia. rewrite existsb_app, IH. cbn [existsb]. rewrite orb_false_r, mem_cnt.
    replace (a + N.of_nat (S k)) with (a + N.of_nat k + 1) by lia.
    replace (a + 1 + N.of_nat k) with (a + N.of_nat k + 1) by lia.
    pose proof (cnt_mono r a (a + N.of_nat k) ltac:(lia)) as M.
    destruct (Nat.odd (cnt r a)) eqn:Eo; [reflexivity|]. cbn [orb].
    destruct (cnt_step r (a + N.of_nat k) Hs) as [E|E]; rewrite E.
    + destruct (cnt r a <? cnt r (a + N.of_nat k))%nat eqn:E1; [reflexivity|]. cbn [orb].
      apply Nat.ltb_ge in E1. assert (E2 : cnt r (a + N.of_nat k) = cnt r a) by lia. rewrite E2. exact Eo.
    + destruct (cnt r a <? cnt r (a + N.of_nat k))%nat eqn:E1.
      * cbn [orb]. symmetry. apply Nat.ltb_lt. apply Nat.ltb_lt in E1. lia.
      * cbn [orb]. apply Nat.ltb_ge in E1. assert (E2 : cnt r (a + N.of_nat k) = cnt r a) by lia. rewrite E2.
        rewrite Nat.odd_succ, <- Nat.negb_odd, Eo. cbn [negb]. symmetry. apply Nat.ltb_lt. lia.
Qed.

Lemma forallb_mem_cnt r a : ssorted r -> forall k,
  forallb (mem r) (chunk_range_list a (a + 1 + N.of_nat k)) =
  Nat.odd (cnt r a) && (cnt r (a + N.of_nat k) =? cnt r a)%nat.
Proof.
  intros Hs. induction k as [|k IH].
  - change (N.of_nat 0) with 0. rewrite !N.add_0_r, crl_single. cbn [forallb]. rewrite mem_cnt, Nat.eqb_refl. reflexivity.
  - replace (a + 1 + N.of_nat (S k)) with (a + 1 + N.of_nat k + 1) by lia.
    rewrite crl_snoc by lia. rewrite forallb_app, IH. cbn [forallb]. rewrite andb_true_r, mem_cnt.
    replace (a + N.of_nat (S k)) with (a + N.of_nat k + 1) by lia.
    replace (a + 1 + N.of_nat k) with (a + N.of_nat k + 1) by lia.
    pose proof (cnt_mono r a (a + N.of_nat k) ltac:(lia)) as M.
    destruct (Nat.odd (cnt r a)) eqn:Eo; [|reflexivity]. cbn [andb].
    destruct (cnt_step r (a + N.of_nat k) Hs) as [E|E]; rewrite E.
    + destruct (cnt r (a + N.of_nat k) =? cnt r a)%nat eqn:E1; [|reflexivity]. cbn [andb].
      apply Nat.eqb_eq in E1. rewrite E1. exact Eo.
    + destruct (cnt r (a + N.of_nat k) =? cnt r a)%nat eqn:E1.
      * cbn [andb]. apply Nat.eqb_eq in E1. rewrite E1.
        rewrite Nat.odd_succ, <- Nat.negb_odd, Eo. cbn [negb]. symmetry. apply Nat.eqb_neq. lia.
      * cbn [andb]. apply Nat.eqb_neq in E1. symmetry. apply Nat.eqb_neq. lia.
Qed.

Lemma existsb_mem_cnt' r a e : ssorted r -> a < e ->
  existsb (mem r) (chunk_range_list a e) = Nat.odd (cnt r a) || (cnt r a <? cnt r (e - 1))%nat.
Proof.
  intros Hs Hae. pose proof (existsb_mem_cnt r a Hs (N.to_nat (e - 1 - a))) as H.
  replace (a + 1 + N.of_nat (N.to_nat (e - 1 - a))) with e in H by lia.
  replace (a + N.of_nat (N.to_nat (e - 1 - a))) with (e - 1) in H by lia. exact H.
Qed.
Lemma forallb_mem_cnt' r a e : ssorted r -> a < e ->
  forallb (mem r) (chunk_range_list a e) = Nat.odd (cnt r a) && (cnt r (e - 1) =? cnt r a)%nat.
Proof.
  intros Hs Hae. pose proof (forallb_mem_cnt r a Hs (N.to_nat (e - 1 - a))) as H.
  replace (a + 1 + N.of_nat (N.to_nat (e - 1 - a))) with e in H by lia.
  replace (a + N.of_nat (N.to_nat (e - 1 - a))) with (e - 1) in H by lia. exact H.
Qed.

(* ---- the selection over an interval ---- *)
Lemma existsb_sel_inner r size a e : e < nchunks size ->
  existsb (sel r size) (chunk_range_list a e) = existsb (mem r) (chunk_range_list a e).
Proof. intro He. apply existsb_ext'. intros c Hc. apply crl_in in Hc. apply sel_below. lia. Qed.
Lemma forallb_sel_inner r size a e : e < nchunks size ->
  forallb (sel r size) (chunk_range_list a e) = forallb (mem r) (chunk_range_list a e).
Proof. intro He. apply forallb_ext'. intros c Hc. apply crl_in in Hc. apply sel_below. lia. Qed.

Lemma sel_last r size :
  sel r size (nchunks size - 1) = mem r (nchunks size - 1) || reaches r (nchunks size).
Proof.
  unfold sel. pose proof (nchunks_bounds size) as (B1 & _).
  assert (E : (nchunks size - 1 <? nchunks size) = true) by (apply N.ltb_lt; lia).
  rewrite E, N.eqb_refl. reflexivity.
Qed.

Lemma crl_last a n : a < n -> chunk_range_list a n = chunk_range_list a (n - 1) ++ [n - 1].
Proof. intro H. rewrite <- crl_snoc by lia. f_equal. lia. Qed.

Lemma existsb_sel_rm r size a : a < nchunks size ->
  existsb (sel r size) (chunk_range_list a (nchunks size)) =
  existsb (mem r) (chunk_range_list a (nchunks size)) || reaches r (nchunks size).
Proof.
  intro Ha. rewrite crl_last by assumption. rewrite !existsb_app. cbn [existsb].
  rewrite existsb_sel_inner by lia. rewrite sel_last, !orb_false_r, orb_assoc. reflexivity.
Qed.
Lemma forallb_sel_rm r size a : a < nchunks size ->
  forallb (sel r size) (chunk_range_list a (nchunks size)) =
  forallb (mem r) (chunk_range_list a (nchunks size - 1)) &&
  (mem r (nchunks size - 1) || reaches r (nchunks size)).
Proof.
  intro Ha. rewrite crl_last by assumption. rewrite !forallb_app. cbn [forallb].
  rewrite forallb_sel_inner by lia. rewrite sel_last, !andb_true_r. reflexivity.
Qed.

(* ---- any: holds for every well-formed query ---- *)
Lemma any_inner r size a e : wf_ranges r = true -> a < e -> e < nchunks size ->
  q_any r a e false = existsb (sel r size) (chunk_range_list a e).
Proof.
  intros Hwf Hae He. apply wf_iff in Hwf. destruct Hwf as [Hs _].
  rewrite existsb_sel_inner, existsb_mem_cnt', q_any_cnt by assumption. apply orb_comm.
Qed.

Lemma any_rm r size a e : wf_ranges r = true -> a < nchunks size ->
  q_any r a e true = existsb (sel r size) (chunk_range_list a (nchunks size)).
Proof.
  intros Hwf Ha. apply wf_iff in Hwf. destruct Hwf as [Hs _].
  rewrite existsb_sel_rm, existsb_mem_cnt', q_any_rm_cnt, reaches_cnt by assumption.
  set (n := nchunks size) in *.
  pose proof (cnt_mono r a (n - 1) ltac:(lia)) as M1.
  pose proof (cnt_mono r (n - 1) (n - 1 + 1) ltac:(lia)) as M2.
  pose proof (cnt_step r (n - 1) Hs) as St.
  replace (n - 1 + 1) with n in * by lia.
  pose proof (cnt_le_length r n) as L.
  destruct (Nat.odd (length r)) eqn:Eo; [now rewrite orb_true_r|]. cbn [orb].
  destruct (Nat.odd (cnt r a)) eqn:Ea.
  - cbn [orb]. apply Nat.ltb_lt. parity_hyps. assert (cnt r a <> length r) by (intro E; rewrite E in *; lia). lia.
  - cbn [orb]. parity_hyps.
    destruct (cnt r a <? length r)%nat eqn:E1, (cnt r a <? cnt r (n - 1))%nat eqn:E2, (cnt r n <? length r)%nat eqn:E3;
      try reflexivity; exfalso; lia.
Qed.

(* ---- full, inner nodes: every well-formed query ---- *)
Lemma full_inner r size a e : wf_ranges r = true -> a < e -> e < nchunks size ->
  q_full r a e false = forallb (sel r size) (chunk_range_list a e).
Proof.
  intros Hwf Hae He. apply wf_iff in Hwf. destruct Hwf as [Hs _].
  rewrite forallb_sel_inner, forallb_mem_cnt', q_full_cnt by assumption. reflexivity.
Qed.

(* ---- the shape of a truncated query: at most one boundary after the last chunk, and then the
   query is open-ended and the last chunk is not a member ---- *)
Lemma trunc_shape q size : wf_ranges q = true ->
  let q' := truncate_ranges q size in
  let lc := nchunks size - 1 in
  cnt q' lc = length q' \/
  (Nat.odd (length q') = true /\ S (cnt q' lc) = length q' /\ forall y, y + 1 = lc -> cnt q' y = cnt q' lc).
Proof.
  intro Hwf. apply wf_iff in Hwf. destruct Hwf as [Hs _]. cbn zeta.
  rewrite nchunks_lc. replace (chunks size - 1 + 1 - 1) with (chunks size - 1) by lia.
  set (lc := chunks size - 1).
  pose proof (truncated_len_cases q size Hs) as H. cbn zeta in H. fold lc in H.
  unfold truncate_ranges. set (k := truncated_len q size) in *.
  pose proof (cnt_le_length q lc) as HKL.
  rewrite cnt_firstn, firstn_length.
  destruct H as [[H HK] | [[H Ho] | [(H & He & Hl & Hnf) | (H & He & Hl & Hlt)]]].
  - left. lia.
  - left. lia.
  - right. split; [|split].
    + rewrite Nat.min_l by lia. parity_goal.
    + lia.
    + intros y Hy. rewrite cnt_firstn, (Hnf y Hy). reflexivity.
  - left. lia.
Qed.

Lemma full_rm q size a e : wf_ranges q = true -> a + 1 < nchunks size ->
  q_full (truncate_ranges q size) a e true =
  forallb (sel (truncate_ranges q size) size) (chunk_range_list a (nchunks size)).
Proof.
  intros Hwf Ha. pose proof (trunc_shape q size Hwf) as Sh. cbn zeta in Sh.
  pose proof (truncate_wf q size Hwf) as Hwf'.
  set (r := truncate_ranges q size) in *. apply wf_iff in Hwf'. destruct Hwf' as [Hs _].
  rewrite forallb_sel_rm by lia. rewrite forallb_mem_cnt' by (assumption || lia).
  rewrite q_full_rm_cnt, reaches_cnt, mem_cnt by assumption.
  set (n := nchunks size) in *.
  pose proof (cnt_mono r a (n - 1 - 1) ltac:(lia)) as M1.
  pose proof (cnt_step r (n - 1 - 1) Hs) as St1. replace (n - 1 - 1 + 1) with (n - 1) in St1 by lia.
  pose proof (cnt_step r (n - 1) Hs) as St2. replace (n - 1 + 1) with n in St2 by lia.
  pose proof (cnt_le_length r n) as L.
  destruct Sh as [Sh | (So & Sl & Sp)].
  - destruct (Nat.odd (cnt r a)) eqn:Ea; [|reflexivity]. cbn [andb].
    destruct (Nat.odd (length r)) eqn:Eo.
    + rewrite orb_true_r, andb_true_r. parity_hyps.
      destruct (cnt r a =? length r)%nat eqn:E1, (cnt r (n - 1 - 1) =? cnt r a)%nat eqn:E2; try reflexivity; exfalso; lia.
    + cbn [orb]. rewrite Sh, Eo. cbn [orb].
      assert (E3 : (cnt r n <? length r)%nat = false) by (apply Nat.ltb_ge; lia). rewrite E3, andb_false_r.
      apply Nat.eqb_neq. intro E. rewrite E in Ea. congruence.
  - specialize (Sp (n - 1 - 1) ltac:(lia)).
    assert (E1 : (cnt r a =? length r)%nat = false) by (apply Nat.eqb_neq; lia). rewrite E1, andb_false_r.
    symmetry. destruct (Nat.odd (cnt r a)) eqn:Ea; [|reflexivity]. cbn [andb].
    assert (E2 : (cnt r (n - 1 - 1) =? cnt r a)%nat = false).
    { apply Nat.eqb_neq. intro E. parity_hyps. lia. }
    rewrite E2. reflexivity.
Qed.
