(* A.1 / A.2: the stack machine PreOrderPartialChunkIterRef computes the recursive plan. *)
From BaoV Require Import Model.Iter Spec.PlanSpec Spec.PlanWf Proofs.NodeLevel Proofs.NodeBits Proofs.NodeAlgebra
  Proofs.RangeBase Proofs.PlanBase Proofs.PlanQuery Proofs.PlanRs Proofs.PlanNav Proofs.PlanRun.
From Coq Require Import ZArith Lia.
Open Scope N_scope.
Arguments N.add : simpl never.
Arguments N.sub : simpl never.
Arguments N.mul : simpl never.
Arguments N.pow : simpl never.
Arguments N.shiftl : simpl never.
Arguments N.shiftr : simpl never.
Arguments N.land : simpl never.
Arguments N.div : simpl never.
Arguments N.modulo : simpl never.
Arguments N.log2 : simpl never.
Arguments N.min : simpl never.
Arguments N.max : simpl never.
Ltac Zify.zify_post_hook ::= Z.to_euclidean_division_equations.

Section PreIter.
Variables (size bs ml : N) (q : ranges).
Hypothesis Hsize : size <= 2 ^ 63.
Hypothesis Hbs : bs <= 10.
Hypothesis Hq : ssorted q.

Let t := mkTree size bs.
Let B := sp_blocks size bs.
Let root := sid 0 B.
Let filled := filled_of B.
Let g := 2 ^ bs.
Definition ST (stk : list (N * ranges)) (buf : list chunk) : ppstate := mkPP t ml stk filled root buf.
Let A (ga : N) := ga * g.
Let E (ga n : N) := (ga + capof n) * g.
Let M (ga n : N) := (ga + capof n / 2) * g.

Lemma pp_next_node ga n rm rs stk : node_ok size bs ga n rm ->
  pp_next (ST ((sid ga n, rs) :: stk) []) =
  let nd := unshift bs (sid ga n) in
  let ir := sid ga n =? root in
  if r_is_all rs && (cexp n + bs <? ml)
  then Some (Some (CLeaf (A ga) (N.min (E ga n * 1024) size - A ga * 1024) ir rs, ST stk []))
  else if negb (n <=? 2) then
    let '(l_rs, r_rs) := split_inner rs (A ga) (M ga n) in
    match (if r_is_empty r_rs then Some stk
           else match right_descendant (sid ga n) filled with Some r => Some ((r, r_rs) :: stk) | None => None end) with
    | Some stk1 =>
        match (if r_is_empty l_rs then Some stk1
               else match left_child (sid ga n) with Some l => Some ((l, l_rs) :: stk1) | None => None end) with
        | Some stk2 => Some (Some (CParent nd ir (negb (r_is_empty l_rs)) (negb (r_is_empty r_rs)) rs, ST stk2 []))
        | None => Some None
        end
    | None => Some None
    end
  else if size <=? M ga n * 1024
  then Some (Some (CLeaf (A ga) (N.min (E ga n * 1024) size - A ga * 1024) ir rs, ST stk []))
  else
    let '(l_rs, r_rs) := split_inner rs (A ga) (M ga n) in
    Some (Some (CParent nd ir (negb (r_is_empty l_rs)) (negb (r_is_empty r_rs)) rs,
      ST stk (if r_is_empty l_rs
              then (if r_is_empty r_rs then [] else [CLeaf (M ga n) (N.min (E ga n * 1024) size - M ga n * 1024) false r_rs])
              else CLeaf (A ga) (M ga n * 1024 - A ga * 1024) false l_rs
                   :: (if r_is_empty r_rs then [] else [CLeaf (M ga n) (N.min (E ga n * 1024) size - M ga n * 1024) false r_rs])))).
Proof.
  intros Hok. pose proof (node_geom_ok size bs ga n rm Hsize Hbs Hok) as [G1 G2 G3 G4 G5].
  pose proof (node_end_bound size bs ga n rm Hsize Hbs Hok) as HE.
  assert (Hh : capof n / 2 <= capof n) by (apply N.div_le_upper_bound; lia).
  pose proof (pow2_pos bs) as Hp.
  assert (TA : to_bytes (ga * 2 ^ bs) = ga * 2 ^ bs * 1024) by (apply to_bytes_small; nia).
  assert (TE : to_bytes ((ga + capof n) * 2 ^ bs) = (ga + capof n) * 2 ^ bs * 1024) by (apply to_bytes_small; nia).
  assert (TM : to_bytes ((ga + capof n / 2) * 2 ^ bs) = (ga + capof n / 2) * 2 ^ bs * 1024) by (apply to_bytes_small; nia).
  unfold pp_next, ST. cbn [pp_buffer pp_stack pp_tree pp_min_full_level pp_filled pp_root].
  change (tbs t) with bs. change (tsize t) with size.
  unfold Ranges.split, byte_range. change (tsize t) with size.
  rewrite G1, G2, G4, G5. cbn [fst snd]. rewrite TA, TE, TM.
  rewrite (is_leaf_sid ga n rm size bs Hok).
  reflexivity.
Qed.

Lemma pp_next_buffer stk item rest : pp_next (ST stk (item :: rest)) = Some (Some (item, ST stk rest)).
Proof. reflexivity. Qed.

Lemma steps_buffer stk buf : steps pp_next' (ST stk buf) buf (ST stk []).
Proof.
  induction buf as [|c buf IH]; [constructor|].
  econstructor; [|exact IH]. unfold pp_next'. now rewrite pp_next_buffer.
Qed.

Lemma pp_next_done : pp_next' (ST [] []) = None.
Proof. reflexivity. Qed.

(* interval facts *)
Lemma ivl ga n rm : node_ok size bs ga n rm ->
  A ga < M ga n /\ M ga n < E ga n /\ A ga * 1024 <= size /\ 1 <= capof n / 2 /\ capof n / 2 < capof n.
Proof.
  intros Hok. pose proof Hok as [P [k Al] I R]. pose proof (pow2_pos bs) as Hp.
  destruct (capof_spec n P) as (j & Ej & _). pose proof (pow2_pos j).
  assert (Hh : capof n / 2 = 2 ^ j) by (rewrite Ej, pow2_succ, N.mul_comm, N.div_mul by lia; reflexivity).
  rewrite pow2_succ in Ej.
  assert (Hin : ga < sp_blocks size bs) by lia. apply (group_inside size bs) in Hin.
  apply nchunks_spec in Hin. unfold A, M, E, g. rewrite Hh, Ej.
  repeat split; try nia; destruct Hin as [Hin|Hin]; nia.
Qed.

Lemma leaf_size ga n rm : node_ok size bs ga n rm ->
  N.min (E ga n * 1024) size - A ga * 1024 = span_bytes size (A ga) (E ga n).
Proof.
  intro Hok. destruct (ivl ga n rm Hok) as (_ & _ & H & _). unfold span_bytes.
  rewrite (N.min_l (A ga * 1024)) by assumption. reflexivity.
Qed.

Definition Pnode (ga n : N) (ir rm : bool) (plan : list chunk) : Prop :=
  (q_any q (A ga) (E ga n) rm = false -> plan = []) /\
  (N.of_nat (length plan) < 2 * capof n) /\
  (forall rs stk, rs_ok q rs (A ga) (E ga n) rm -> q_any q (A ga) (E ga n) rm = true ->
     root_out root ga n -> ir = (sid ga n =? root) ->
     exists items, steps pp_next' (ST ((sid ga n, rs) :: stk) []) items (ST stk []) /\
                   map without_ranges items = plan).

Lemma capof_ge2 n : 1 <= n -> 2 <= capof n.
Proof. intro H. destruct (capof_spec n H) as (j & Ej & _). rewrite Ej, pow2_succ. pose proof (pow2_pos j). lia. Qed.

Lemma P_single ga n ir rm : node_ok size bs ga n rm ->
  q_any q (A ga) (E ga n) rm = true ->
  (forall rs stk, rs_ok q rs (A ga) (E ga n) rm ->
     pp_next (ST ((sid ga n, rs) :: stk) []) =
       Some (Some (CLeaf (A ga) (span_bytes size (A ga) (E ga n)) (sid ga n =? root) rs, ST stk []))) ->
  Pnode ga n ir rm [CLeaf (A ga) (span_bytes size (A ga) (E ga n)) ir []].
Proof.
  intros Hok Hany Hstep. pose proof (capof_ge2 n (nk_pos _ _ _ _ _ Hok)).
  split; [intro; congruence|]. split; [cbn [length]; lia|].
  intros rs stk Hrs _ _ Hir.
  exists [CLeaf (A ga) (span_bytes size (A ga) (E ga n)) (sid ga n =? root) rs]. split.
  - econstructor; [|constructor]. unfold pp_next'. now rewrite Hstep.
  - cbn [map without_ranges]. now rewrite Hir.
Qed.

Lemma case_full ga n ir rm : node_ok size bs ga n rm ->
  q_any q (A ga) (E ga n) rm = true -> q_full q (A ga) (E ga n) rm = true ->
  N.log2 (capof n * 2 ^ bs) - 1 < ml ->
  Pnode ga n ir rm [CLeaf (A ga) (span_bytes size (A ga) (E ga n)) ir []].
Proof.
  intros Hok Hany Hfull Hl. apply P_single; try assumption.
  intros rs stk Hrs. rewrite (pp_next_node ga n rm) by assumption. cbn zeta.
  destruct (ivl ga n rm Hok) as (I1 & I2 & _).
  rewrite (rs_ok_all q rs (A ga) (E ga n) rm Hq ltac:(lia) Hrs), Hfull.
  rewrite (ng_lvl _ _ _ _ (node_geom_ok size bs ga n rm Hsize Hbs Hok)) in Hl.
  apply N.ltb_lt in Hl. rewrite Hl. cbn [andb]. now rewrite (leaf_size ga n rm).
Qed.

Lemma case_half ga n ir rm : node_ok size bs ga n rm -> n <= 2 ->
  q_any q (A ga) (E ga n) rm = true ->
  q_full q (A ga) (E ga n) rm && (N.log2 (capof n * 2 ^ bs) - 1 <? ml) = false ->
  size <= (ga + 1) * 2 ^ bs * 1024 ->
  Pnode ga n ir rm [CLeaf (A ga) (span_bytes size (A ga) (E ga n)) ir []].
Proof.
  intros Hok Hn Hany Hnf Hsz. apply P_single; try assumption.
  intros rs stk Hrs. rewrite (pp_next_node ga n rm) by assumption. cbn zeta.
  destruct (ivl ga n rm Hok) as (I1 & I2 & _).
  rewrite (rs_ok_all q rs (A ga) (E ga n) rm Hq ltac:(lia) Hrs).
  rewrite (ng_lvl _ _ _ _ (node_geom_ok size bs ga n rm Hsize Hbs Hok)) in Hnf. rewrite Hnf.
  assert (En : (n <=? 2) = true) by (apply N.leb_le; assumption). rewrite En. cbn [negb].
  assert (Em : M ga n = (ga + 1) * 2 ^ bs) by (unfold M, g; rewrite capof_small by assumption; reflexivity).
  rewrite Em. assert (Es : (size <=? (ga + 1) * 2 ^ bs * 1024) = true) by (apply N.leb_le; assumption).
  rewrite Es. now rewrite (leaf_size ga n rm).
Qed.

Lemma case_pair ga n ir rm : node_ok size bs ga n rm -> n <= 2 ->
  q_any q (A ga) (E ga n) rm = true ->
  q_full q (A ga) (E ga n) rm && (N.log2 (capof n * 2 ^ bs) - 1 <? ml) = false ->
  (ga + 1) * 2 ^ bs * 1024 < size ->
  let m := (ga + 1) * 2 ^ bs in
  let l := q_any q (A ga) m false in
  let r := q_any q m (E ga n) rm in
  Pnode ga n ir rm ([CParent (unshift bs ga) ir l r []]
                    ++ (if l then [CLeaf (A ga) (span_bytes size (A ga) m) false []] else [])
                    ++ (if r then [CLeaf m (span_bytes size m (E ga n)) false []] else [])).
Proof.
  intros Hok Hn Hany Hnf Hsz m l r. pose proof (capof_ge2 n (nk_pos _ _ _ _ _ Hok)).
  split; [intro; congruence|]. split; [destruct l, r; cbn [length app]; lia|].
  intros rs stk Hrs _ _ Hir.
  destruct (ivl ga n rm Hok) as (I1 & I2 & I3 & _).
  assert (Em : M ga n = m) by (unfold M, g, m; rewrite capof_small by assumption; reflexivity).
  assert (Eid : sid ga n = ga) by (unfold sid; rewrite capof_small by assumption; change (2 / 2) with 1; lia).
  pose proof (pp_next_node ga n rm rs stk Hok) as Hstep. cbn zeta in Hstep.
  rewrite (rs_ok_all q rs (A ga) (E ga n) rm Hq ltac:(lia) Hrs) in Hstep.
  rewrite (ng_lvl _ _ _ _ (node_geom_ok size bs ga n rm Hsize Hbs Hok)) in Hnf. rewrite Hnf in Hstep.
  assert (En : (n <=? 2) = true) by (apply N.leb_le; assumption). rewrite En in Hstep. cbn [negb] in Hstep.
  rewrite Em in *.
  assert (Es : (size <=? m * 1024) = false) by (apply N.leb_gt; assumption). rewrite Es in Hstep.
  destruct (split_inner rs (A ga) m) as [l_rs r_rs] eqn:Esp.
  destruct (split_ok q rs (A ga) m (E ga n) rm l_rs r_rs Hrs I1 I2 Esp) as [Hl Hr].
  rewrite (rs_ok_empty q l_rs (A ga) m false Hq I1 Hl) in Hstep.
  rewrite (rs_ok_empty q r_rs m (E ga n) rm Hq I2 Hr) in Hstep.
  fold l in Hstep. fold r in Hstep. rewrite !negb_involutive in Hstep.
  eexists. split.
  - econstructor; [unfold pp_next'; rewrite Hstep; reflexivity|]. apply steps_buffer.
  - rewrite <- Hir, Eid. cbn [map without_ranges].
    assert (S1 : m * 1024 - A ga * 1024 = span_bytes size (A ga) m).
    { unfold span_bytes. rewrite (N.min_l (m * 1024)), (N.min_l (A ga * 1024)) by lia. reflexivity. }
    assert (S2 : N.min (E ga n * 1024) size - m * 1024 = span_bytes size m (E ga n)).
    { unfold span_bytes. rewrite (N.min_l (m * 1024)) by lia. reflexivity. }
    destruct l, r; cbn [negb map without_ranges app]; rewrite ?S1, ?S2; reflexivity.
Qed.

Lemma child_steps ga' n' rm' plan rs' stk' (flag : bool) :
  Pnode ga' n' false rm' plan -> rs_ok q rs' (A ga') (E ga' n') rm' ->
  flag = q_any q (A ga') (E ga' n') rm' -> root_out root ga' n' -> sid ga' n' <> root ->
  exists items, steps pp_next' (ST (if flag then (sid ga' n', rs') :: stk' else stk') []) items (ST stk' []) /\
                map without_ranges items = plan.
Proof.
  intros (P1 & _ & P3) Hrs Hf Hro Hne. destruct flag.
  - apply P3; auto. symmetry. now apply N.eqb_neq.
  - exists []. split; [constructor|]. rewrite P1 by auto. reflexivity.
Qed.

Lemma case_inner ga n ir rm pl pr : node_ok size bs ga n rm -> 3 <= n ->
  q_any q (A ga) (E ga n) rm = true ->
  q_full q (A ga) (E ga n) rm && (N.log2 (capof n * 2 ^ bs) - 1 <? ml) = false ->
  let half := capof n / 2 in
  let m := (ga + half) * 2 ^ bs in
  node_ok size bs ga half false -> node_ok size bs (ga + half) (n - half) rm ->
  Pnode ga half false false pl -> Pnode (ga + half) (n - half) false rm pr ->
  Pnode ga n ir rm ([CParent (unshift bs (ga + half - 1)) ir (q_any q (A ga) m false) (q_any q m (E ga n) rm) []]
                    ++ pl ++ pr).
Proof.
  intros Hok Hn Hany Hnf half m Hokl Hokr PL PR.
  destruct (capof_inner n Hn) as (j & Ecap & Eh & L1 & L2 & C1 & C2).
  pose proof (pow2_pos (j + 1)) as Hpj. pose proof (pow2_pos bs) as Hp.
  assert (Ecap' : capof n = 2 * half).
  { unfold half. rewrite Eh, Ecap. replace (j + 2) with (j + 1 + 1) by lia. now rewrite pow2_succ. }
  assert (Echalf : capof half = half) by (unfold half; rewrite Eh; exact C1).
  assert (EEl : E ga half = m) by (unfold E, m, g; now rewrite Echalf).
  assert (Em : M ga n = m) by reflexivity.
  assert (EAr : A (ga + half) = m) by reflexivity.
  assert (Hcr : capof (n - half) <= half) by (unfold half; rewrite Eh; exact C2).
  assert (Eany : q_any q m (E (ga + half) (n - half)) rm = q_any q m (E ga n) rm).
  { destruct rm; [reflexivity|]. pose proof (nk_rm _ _ _ _ _ Hok) as R. cbn in R.
    assert (n - half = half) by lia. f_equal. unfold E. rewrite H, Echalf, Ecap'. f_equal. lia. }
  split; [intro; congruence|]. split.
  { destruct PL as (_ & PL2 & _). destruct PR as (_ & PR2 & _). rewrite Echalf in PL2.
    rewrite !app_length. cbn [length]. lia. }
  intros rs stk Hrs _ Hro Hir.
  destruct (ivl ga n rm Hok) as (I1 & I2 & I3 & _). rewrite Em in *.
  pose proof (pp_next_node ga n rm rs stk Hok) as Hstep. cbn zeta in Hstep.
  rewrite (rs_ok_all q rs (A ga) (E ga n) rm Hq ltac:(lia) Hrs) in Hstep.
  rewrite (ng_lvl _ _ _ _ (node_geom_ok size bs ga n rm Hsize Hbs Hok)) in Hnf. rewrite Hnf in Hstep.
  assert (En : (n <=? 2) = false) by (apply N.leb_gt; lia). rewrite En in Hstep. cbn [negb] in Hstep.
  rewrite Em in Hstep.
  destruct (split_inner rs (A ga) m) as [l_rs r_rs] eqn:Esp.
  destruct (split_ok q rs (A ga) m (E ga n) rm l_rs r_rs Hrs I1 I2 Esp) as [Hl Hr].
  rewrite (rs_ok_empty q l_rs (A ga) m false Hq I1 Hl) in Hstep.
  rewrite (rs_ok_empty q r_rs m (E ga n) rm Hq I2 Hr) in Hstep.
  assert (Hce : cexp n <= 64).
  { pose proof (node_end_bound size bs ga n rm Hsize Hbs Hok) as HE.
    assert (capof n <= 2 ^ 53) by nia. rewrite (capof_pow2 n ltac:(lia)) in H. apply pow2_le_inv in H. lia. }
  fold filled in Hstep. unfold filled, B in Hstep.
  rewrite (right_descendant_sid size bs ga n rm Hok Hn Hce) in Hstep.
  rewrite (left_child_sid size bs ga n rm Hok Hn) in Hstep. fold half in Hstep.
  set (lf := q_any q (A ga) m false) in *. set (rf := q_any q m (E ga n) rm) in *.
  rewrite !negb_involutive in Hstep.
  set (stk1 := if rf then (sid (ga + half) (n - half), r_rs) :: stk else stk).
  assert (Hstep' : pp_next (ST ((sid ga n, rs) :: stk) []) =
            Some (Some (CParent (unshift bs (sid ga n)) (sid ga n =? root) lf rf rs,
                        ST (if lf then (sid ga half, l_rs) :: stk1 else stk1) []))).
  { rewrite Hstep. unfold stk1. destruct lf, rf; reflexivity. }
  destruct (root_out_left root ga n Hn Hro) as [Rl1 Rl2]. fold half in Rl1, Rl2.
  destruct (root_out_right root ga n Hn Hro) as [Rr1 Rr2]. fold half in Rr1, Rr2.
  destruct (child_steps ga half false pl l_rs stk1 lf PL) as (il & SL & ML); try assumption.
  { rewrite EEl. exact Hl. }
  { rewrite EEl. reflexivity. }
  destruct (child_steps (ga + half) (n - half) rm pr r_rs stk rf PR) as (ir' & SR & MR); try assumption.
  { rewrite EAr. destruct rm; [eapply rs_ok_rm_end; exact Hr|].
    pose proof (nk_rm _ _ _ _ _ Hok) as R. cbn in R.
    assert (Hnh : n - half = half) by lia. unfold E at 1. rewrite Hnh, Echalf.
    replace ((ga + half + half) * g) with (E ga n); [exact Hr|]. unfold E. rewrite Ecap'. f_equal. lia. }
  { rewrite EAr, Eany. reflexivity. }
  exists (CParent (unshift bs (sid ga n)) (sid ga n =? root) lf rf rs :: il ++ ir'). split.
  - econstructor; [unfold pp_next'; rewrite Hstep'; reflexivity|].
    eapply steps_app; [exact SL|]. exact SR.
  - cbn [map without_ranges app]. rewrite map_app, ML, MR, <- Hir. reflexivity.
Qed.

Lemma Pnode_all : forall fuel ga n ir rm,
  node_ok size bs ga n rm -> N.log2 (capof n) <= N.of_nat fuel ->
  Pnode ga n ir rm (pre_plan_rec fuel size bs ml q ga n ir rm).
Proof.
  apply (pre_plan_rec_ind size bs ml q Pnode).
  - intros ga n ir rm Hok Hany. pose proof (capof_ge2 n (nk_pos _ _ _ _ _ Hok)).
    split; [reflexivity|]. split; [cbn [length]; lia|]. intros rs stk _ Hany'.
    change (q_any q (A ga) (E ga n) rm = false) in Hany. congruence.
  - intros. now apply case_full.
  - intros. now apply case_half.
  - intros. now apply case_pair.
  - intros. now apply case_inner.
Qed.

End PreIter.

(* ---- the iterator as a whole ---- *)
Lemma pp_new_eq size bs ml q :
  pp_new (mkTree size bs) q ml =
    ST size bs ml (if r_is_empty q then [] else [(sid 0 (sp_blocks size bs), q)]) [].
Proof. unfold pp_new. rewrite shifted_eq. reflexivity. Qed.

Lemma pre_plan_trace size bs ml q : size <= 2 ^ 63 -> bs <= 10 -> wf_ranges q = true ->
  exists items, trace pp_next' (pp_new (mkTree size bs) q ml) items /\
                map without_ranges items = pre_plan size bs ml q /\
                len items < 2 ^ 64.
Proof.
  intros Hsize Hbs Hwf. pose proof Hwf as Hwf'. apply wf_iff in Hwf'. destruct Hwf' as [Hq _].
  pose proof (node_ok_root size bs) as Hok. unfold pre_plan.
  pose proof (Pnode_all size bs ml q Hsize Hbs Hq 65 0 (sp_blocks size bs) true true Hok (root_fuel size bs Hsize))
    as PP.
  set (plan := pre_plan_rec 65 size bs ml q 0 (sp_blocks size bs) true true) in *. clearbody plan.
  destruct PP as (P1 & P2 & P3).
  pose proof (node_end_bound size bs 0 _ true Hsize Hbs Hok) as HE. rewrite N.add_0_l in HE.
  pose proof (pow2_pos bs) as Hp.
  assert (Hcap : capof (sp_blocks size bs) <= 2 ^ 53) by nia.
  rewrite pp_new_eq. destruct q as [|x q'] eqn:Eq; cbn [r_is_empty].
  - exists []. split; [apply trace_nil; reflexivity|]. split; [|reflexivity].
    cbn [map]. symmetry. apply P1. reflexivity.
  - rewrite <- Eq in *.
    destruct (P3 q []) as (items & St & Mp).
    + rewrite N.mul_0_l. apply rs_ok_root. exact Hwf.
    + rewrite N.mul_0_l. apply reaches_zero; [assumption|]. rewrite Eq. discriminate.
    + right. right. reflexivity.
    + symmetry. apply N.eqb_refl.
    + exists items. split; [|split; [exact Mp|]].
      * exists (ST size bs ml [] []). split; [exact St|reflexivity].
      * unfold len. rewrite <- (map_length without_ranges), Mp.
        change (2 ^ 64) with 18446744073709551616. change (2 ^ 53) with 9007199254740992 in Hcap. lia.
Qed.

Theorem pre_plan_refines : forall size bs ml q, size <= 2 ^ 63 -> bs <= 10 -> wf_ranges q = true ->
  map without_ranges (pre_order_chunks_iter (mkTree size bs) q ml) = pre_plan size bs ml q.
Proof.
  intros size bs ml q Hsize Hbs Hwf.
  destruct (pre_plan_trace size bs ml q Hsize Hbs Hwf) as (items & Tr & Mp & Ln).
  unfold pre_order_chunks_iter. rewrite (run_iter_trace pp_next' _ items Tr Ln). exact Mp.
Qed.

Lemma response_next_eq st :
  response_next st = match pp_next' st with Some (c, s') => Some (without_ranges c, s') | None => None end.
Proof. reflexivity. Qed.

Theorem response_plan_refines : forall size bs q, size <= 2 ^ 63 -> bs <= 10 -> wf_ranges q = true ->
  response_iter (mkTree size bs) q = pre_plan size 0 bs q.
Proof.
  intros size bs q Hsize Hbs Hwf.
  destruct (pre_plan_trace size 0 bs q Hsize ltac:(lia) Hwf) as (items & (st' & St & He) & Mp & Ln).
  unfold response_iter, response_new. cbn [tsize tbs]. rewrite <- Mp.
  apply run_iter_trace.
  - exists st'. split.
    + apply (steps_map pp_next' without_ranges) in St. exact St.
    + rewrite response_next_eq, He. reflexivity.
  - unfold len in *. now rewrite map_length.
Qed.
