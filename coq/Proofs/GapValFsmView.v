(* C06, gap A, part 1: the fsm validators on arbitrary stores.
   [fsm_view ob] is the store as the fsm loader sees it: for an io-backed outboard (PreIO / PostIO) the whole
   64-byte slots that are completely present in the byte vector, followed by zero bytes up to (blocks - 1) * 64
   (fsm::Outboard::load turns a short read into a zero pair); other kinds are unchanged.  On every node of the
   tree the sync loader on the view returns what the fsm loader returns on the store, and the fsm validators
   consult the loader at nodes of the tree only, hence
       valid_ranges_fsm ob d q = valid_ranges (fsm_view ob) d q      (any store with ob_tree ob = mkTree size bs)
   with no premise relating load_fsm to load_sync. *)
From BaoV Require Import Model.Sync Model.Fsm Spec.PlanSpec Spec.PlanWf Spec.EncSpec Spec.HashAssm Spec.NodeSpec Props.C12.
From BaoV Require Import Proofs.NodeLevel Proofs.NodeBits Proofs.NodeAlgebra
  Proofs.ObBase Proofs.ObLoop Proofs.ObSize Proofs.DecHash Proofs.RangeBase Proofs.BridgeBase
  Proofs.ShapeBase Proofs.PlanBase Proofs.PlanRs Proofs.PlanNav Proofs.ValSpec Proofs.ValPath Proofs.ValTrue Proofs.ValTop
  Proofs.ValSound Proofs.HistOb Proofs.HistPath.
From Coq Require Import ZArith Lia Permutation.
Open Scope N_scope.
Arguments N.add : simpl never.
Arguments N.sub : simpl never.
Arguments N.mul : simpl never.
Arguments N.pow : simpl never.
Arguments N.shiftl : simpl never.
Arguments N.shiftr : simpl never.
Arguments N.land : simpl never.
Arguments N.div : simpl never.
Arguments N.modulo : simpl never.
Arguments N.log2 : simpl never.
Arguments N.min : simpl never.
Arguments N.max : simpl never.
Ltac Zify.zify_post_hook ::= Z.to_euclidean_division_equations.

Lemma firstn_repeat_min {A} (x : A) : forall n m, firstn n (repeat x m) = repeat x (Nat.min n m).
Proof. induction n as [|n IH]; intros [|m]; cbn; try reflexivity. now rewrite IH. Qed.

Lemma skipn_repeat_sub {A} (x : A) : forall n m, skipn n (repeat x m) = repeat x (m - n).
Proof. induction n as [|n IH]; intros [|m]; cbn; try reflexivity. apply IH. Qed.

Definition is_io (k : ob_kind) : bool := match k with PreIO | PostIO => true | _ => false end.

Section View.
Variable HO : hops.
Notation bytes := (bytes HO).
Notation hash := (hash HO).
Notation outboard := (outboard HO).

(* the first n bytes of: the complete 64-byte slots of d, then zeros *)
Definition fsm_bytes (d : bytes) (n : N) : bytes :=
  take HO n (take HO (blen HO d / 64 * 64) d ++ zeros HO (N.to_nat n)).

Definition fsm_view (ob : outboard) : outboard :=
  if is_io (ob_k ob)
  then mkOb (ob_k ob) (ob_root ob) (ob_tree ob) (fsm_bytes (ob_data ob) ((blocks (ob_tree ob) - 1) * 64))
  else ob.

(* the pair the fsm loader returns (None: no slot, or a failing load) *)
Definition stored_pair_fsm (ob : outboard) (nd : N) : option (hash * hash) :=
  match load_fsm HO ob nd with Ok x => x | _ => None end.

(* no fsm load of a node of the tree fails *)
Definition loads_ok_fsm (ob : outboard) (size bs : N) : Prop :=
  forall nd, In nd (sp_pre_nodes size bs) -> exists x, load_fsm HO ob nd = Ok x.

Lemma blen_zeros k : blen HO (zeros HO k) = N.of_nat k.
Proof. unfold blen, zeros. now rewrite repeat_length. Qed.

Lemma fsm_bytes_len d n : blen HO (fsm_bytes d n) = n.
Proof. unfold fsm_bytes. rewrite blen_take, blen_app, blen_zeros. lia. Qed.

Lemma drop_app_ge k (a b : bytes) : drop HO (blen HO a + k) (a ++ b) = drop HO k b.
Proof. rewrite <- drop_drop, drop_app_exact. reflexivity. Qed.

Lemma slice_zeros j n : j + 64 <= N.of_nat n -> take HO 64 (drop HO j (zeros HO n)) = zeros HO 64.
Proof.
  intro H. unfold take, drop, zeros. rewrite skipn_repeat_sub, firstn_repeat_min. f_equal. lia.
Qed.

Lemma fsm_bytes_slot d n o : o * 64 + 64 <= n ->
  slice HO (o * 64) 64 (fsm_bytes d n) =
  if o * 64 + 64 <=? blen HO d then slice HO (o * 64) 64 d else zeros HO 64.
Proof.
  intro Hn. unfold fsm_bytes, slice. set (w := blen HO d / 64 * 64).
  assert (Hw : w <= blen HO d) by (unfold w; lia).
  assert (Lw : blen HO (take HO w d) = w) by (rewrite blen_take; lia).
  rewrite drop_take, take_take. rewrite (N.min_l 64) by lia.
  destruct (N.leb_spec (o * 64 + 64) (blen HO d)) as [L|L].
  - assert (Ho : o * 64 + 64 <= w) by (unfold w; lia).
    rewrite drop_app_le by lia. rewrite take_app_le by (rewrite blen_drop; lia).
    rewrite drop_take, take_take. rewrite N.min_l by lia. reflexivity.
  - assert (Ho : w <= o * 64) by (unfold w; lia).
    replace (o * 64) with (blen HO (take HO w d) + (o * 64 - w)) by lia.
    rewrite drop_app_ge. apply slice_zeros. lia.
Qed.

Lemma parse_zeros : parse_pair HO (zeros HO 64) = zero_pair HO.
Proof. reflexivity. Qed.

Lemma view_root ob : ob_root (fsm_view ob) = ob_root ob.
Proof. unfold fsm_view. destruct (is_io (ob_k ob)); reflexivity. Qed.
Lemma view_tree ob : ob_tree (fsm_view ob) = ob_tree ob.
Proof. unfold fsm_view. destruct (is_io (ob_k ob)); reflexivity. Qed.
Lemma view_kind ob : ob_k (fsm_view ob) = ob_k ob.
Proof. unfold fsm_view. destruct (is_io (ob_k ob)); reflexivity. Qed.
Lemma view_offset ob nd : ob_offset HO (fsm_view ob) nd = ob_offset HO ob nd.
Proof. unfold ob_offset. rewrite view_kind, view_tree. reflexivity. Qed.
Lemma view_data_io ob : is_io (ob_k ob) = true ->
  ob_data (fsm_view ob) = fsm_bytes (ob_data ob) ((blocks (ob_tree ob) - 1) * 64).
Proof. unfold fsm_view. intros ->. reflexivity. Qed.
Lemma view_not_io ob : is_io (ob_k ob) = false -> fsm_view ob = ob.
Proof. unfold fsm_view. intros ->. reflexivity. Qed.

(* on stores that are not io-backed the two loaders are the same function *)
Lemma load_not_io ob nd : is_io (ob_k ob) = false -> load_fsm HO ob nd = load_sync HO ob nd.
Proof.
  unfold load_fsm, load_sync. destruct (ob_offset HO ob nd); [|reflexivity].
  destruct (ob_k ob); cbn [is_io]; intro H; try discriminate H; reflexivity.
Qed.

Variables (size bs : N).
Hypothesis Hsize : size <= 2 ^ 63.
Hypothesis Hbs : bs <= 10.
Let B := sp_blocks size bs.

(* the offsets of the nodes of the tree *)
Lemma tree_offset (ob : outboard) nd : hist_kind (ob_k ob) -> ob_tree ob = mkTree size bs ->
  In nd (sp_pre_nodes size bs) ->
  ob_offset HO ob nd = None \/ exists o, ob_offset HO ob nd = Some o /\ o < B - 1.
Proof.
  intros K T Hin.
  set (sz := mkOb (ob_k ob) (ob_root ob) (ob_tree ob) (zeros HO (N.to_nat ((sp_blocks size bs - 1) * 64)))).
  assert (Hs : ob_sized HO sz size bs).
  { constructor; cbn [ob_k ob_tree ob_data sz]; [exact K|exact T|]. rewrite blen_zeros. lia. }
  assert (Eo : forall x, ob_offset HO sz x = ob_offset HO ob x) by reflexivity.
  destruct (sp_persisted size bs nd) eqn:Ep.
  - right. assert (Hp : pnode size bs nd) by (rewrite pnodes_eq; apply filter_In; now split).
    destruct (pnode_offset HO size bs Hsize Hbs sz nd Hs Hp) as (o & Ho & Hlt).
    exists o. rewrite <- Eo. split; assumption.
  - left. unfold ob_offset. rewrite T.
    pose proof (C12_pre_none size bs nd Hsize Hbs Hin Ep) as N1.
    assert (Hin' : In nd (sp_post_nodes size bs))
      by (eapply Permutation_in; [apply (C12_nodes_perm size bs Hsize)|exact Hin]).
    pose proof (C12_post_none size bs nd Hsize Hbs Hin' Ep) as N2.
    destruct K as [K|[K|[K|K]]]; rewrite K; assumption.
Qed.

Lemma io_hist k : is_io k = true -> hist_kind k.
Proof. destruct k; cbn; intro H; try discriminate H; unfold hist_kind; auto. Qed.

(* the fsm loader on an io-backed store, at a node of the tree: never fails *)
Lemma io_load_fsm (ob : outboard) nd : is_io (ob_k ob) = true -> ob_tree ob = mkTree size bs ->
  In nd (sp_pre_nodes size bs) ->
  (ob_offset HO ob nd = None /\ load_fsm HO ob nd = Ok None) \/
  (exists o, ob_offset HO ob nd = Some o /\ o < B - 1 /\
     load_fsm HO ob nd = Ok (Some (if o * 64 + 64 <=? blen HO (ob_data ob)
                                   then parse_pair HO (slice HO (o * 64) 64 (ob_data ob)) else zero_pair HO))).
Proof.
  intros K T Hin. destruct (tree_offset ob nd (io_hist _ K) T Hin) as [Ho|(o & Ho & Hlt)].
  - left. split; [exact Ho|]. unfold load_fsm. rewrite Ho. reflexivity.
  - right. exists o. split; [exact Ho|]. split; [exact Hlt|]. unfold load_fsm. rewrite Ho. cbv zeta.
    assert (Hl : (blen HO (slice HO (o * 64) 64 (ob_data ob)) =? 64) = (o * 64 + 64 <=? blen HO (ob_data ob))).
    { unfold slice. rewrite blen_take, blen_drop.
      destruct (N.leb_spec (o * 64 + 64) (blen HO (ob_data ob))); [apply N.eqb_eq|apply N.eqb_neq]; lia. }
    rewrite Hl. destruct (ob_k ob); cbn [is_io] in K; try discriminate K;
      destruct (o * 64 + 64 <=? blen HO (ob_data ob)); reflexivity.
Qed.

(* the view of an io-backed store is pre-sized *)
Lemma view_sized (ob : outboard) : is_io (ob_k ob) = true -> ob_tree ob = mkTree size bs ->
  ob_sized HO (fsm_view ob) size bs.
Proof.
  intros K T. constructor.
  - rewrite view_kind. exact (io_hist _ K).
  - rewrite view_tree. exact T.
  - rewrite (view_data_io ob K), fsm_bytes_len, T, blocks_spec. reflexivity.
Qed.

(* the sync loader on the view = the fsm loader on the store, on the nodes of the tree *)
Lemma view_load_sync (ob : outboard) nd : ob_tree ob = mkTree size bs -> In nd (sp_pre_nodes size bs) ->
  load_sync HO (fsm_view ob) nd = load_fsm HO ob nd.
Proof.
  intros T Hin. destruct (is_io (ob_k ob)) eqn:K.
  2:{ rewrite (view_not_io ob K). symmetry. exact (load_not_io ob nd K). }
  destruct (io_load_fsm ob nd K T Hin) as [[Ho ->]|(o & Ho & Hlt & ->)].
  - unfold load_sync. rewrite view_offset, Ho. reflexivity.
  - unfold load_sync. rewrite view_offset, Ho. cbv zeta. rewrite view_kind.
    rewrite (view_data_io ob K), T, blocks_spec. fold B.
    rewrite fsm_bytes_slot by lia.
    assert (E64 : forall c : bytes, blen HO c = 64 -> (blen HO c =? 64) = true) by (intros c ->; reflexivity).
    destruct (N.leb_spec (o * 64 + 64) (blen HO (ob_data ob))) as [L|L].
    + rewrite E64 by (unfold slice; rewrite blen_take, blen_drop; lia).
      destruct (ob_k ob); cbn [is_io] in K; try discriminate K; reflexivity.
    + rewrite E64 by (rewrite blen_zeros; reflexivity). rewrite parse_zeros.
      destruct (ob_k ob); cbn [is_io] in K; try discriminate K; reflexivity.
Qed.

Lemma view_load_fsm (ob : outboard) nd : ob_tree ob = mkTree size bs -> In nd (sp_pre_nodes size bs) ->
  load_fsm HO (fsm_view ob) nd = load_fsm HO ob nd.
Proof.
  intros T Hin. destruct (is_io (ob_k ob)) eqn:K.
  2:{ rewrite (view_not_io ob K). reflexivity. }
  rewrite <- (view_load_sync ob nd T Hin).
  exact (proj2 (sized_loads HO size bs Hsize Hbs (fsm_view ob) nd (view_sized ob K T) Hin)).
Qed.

Lemma view_stored_pair (ob : outboard) nd : ob_tree ob = mkTree size bs -> In nd (sp_pre_nodes size bs) ->
  stored_pair HO (fsm_view ob) nd = stored_pair_fsm ob nd.
Proof. intros T Hin. unfold stored_pair, stored_pair_fsm. rewrite (view_load_sync ob nd T Hin). reflexivity. Qed.

(* ---- the loads premise, discharged ---- *)
Lemma loads_ok_fsm_io (ob : outboard) : ob_k ob = PreIO \/ ob_k ob = PostIO -> ob_tree ob = mkTree size bs ->
  loads_ok_fsm ob size bs.
Proof.
  intros K T nd Hin. assert (K' : is_io (ob_k ob) = true) by (destruct K as [-> | ->]; reflexivity).
  destruct (io_load_fsm ob nd K' T Hin) as [[_ ->]|(o & _ & _ & ->)]; eexists; reflexivity.
Qed.

Lemma loads_ok_fsm_sized (ob : outboard) : ob_sized HO ob size bs -> loads_ok_fsm ob size bs.
Proof.
  intros Hs nd Hin. destruct (sized_loads HO size bs Hsize Hbs ob nd Hs Hin) as [[x Hx] E]. exists x. now rewrite E.
Qed.

Lemma loads_ok_fsm_empty (ob : outboard) : ob_k ob = EmptyOb -> loads_ok_fsm ob size bs.
Proof.
  intros K nd _. unfold load_fsm. destruct (ob_offset HO ob nd); [|eexists; reflexivity]. rewrite K. eexists; reflexivity.
Qed.

Lemma view_loads_ok (ob : outboard) : ob_tree ob = mkTree size bs ->
  loads_ok_fsm ob size bs -> loads_ok HO (fsm_view ob) size bs.
Proof. intros T H nd Hin. rewrite (view_load_sync ob nd T Hin). exact (H nd Hin). Qed.

(* ---- the fsm validator on ob = the sync validator on a store whose sync loader agrees with ob's fsm loader
        on the nodes of the Shape ---- *)
Local Notation t := (mkTree size bs).

Lemma validate_fsm_shape2 (ob1 ob2 : outboard) (d : bytes) (wd : bool) : forall fuel ga n rm rs owed ir,
  node_ok size bs ga n rm -> N.log2 (capof n) <= N.of_nat fuel ->
  (forall x, In x (sh_pre fuel ga n) -> load_fsm HO ob1 (unshift bs x) = load_sync HO ob2 (unshift bs x)) ->
  validate_rec_fsm HO fuel wd t (filled_of B) ob1 d owed (sid ga n) ir rs
  = validate_rec HO fuel wd t (filled_of B) ob2 d owed (sid ga n) ir rs.
Proof.
  induction fuel as [|f IH]; intros ga n rm rs owed ir Hok Hf Hl; [reflexivity|].
  pose proof (node_geom_ok size bs ga n rm Hsize Hbs Hok) as [G1 G2 G3 G4 G5].
  pose proof (nk_pos _ _ _ _ _ Hok) as P.
  cbn [validate_rec_fsm validate_rec]. change (tbs t) with bs. rewrite G1.
  rewrite (Hl (sid ga n) (sh_pre_head f ga n P)).
  change (yield_if_valid_fsm HO) with (yield_if_valid HO).
  destruct (r_is_empty rs); [reflexivity|].
  destruct (leaf_byte_ranges3 t (unshift bs (sid ga n))) as [[l m] r].
  destruct (negb (is_relevant_for_outboard t (unshift bs (sid ga n)))); [reflexivity|].
  destruct (load_sync HO ob2 (unshift bs (sid ga n))) as [[[lh rh]|]|k|]; try reflexivity.
  destruct (negb (bytes_eqb HO (parent_cv HO lh rh ir) owed)); [reflexivity|].
  destruct (Ranges.split rs (unshift bs (sid ga n))) as [l_rs r_rs].
  rewrite (is_leaf_sid ga n rm size bs Hok).
  destruct (N.leb_spec n 2) as [L2|L2]; [reflexivity|].
  assert (Hn : 3 <= n) by lia.
  assert (Hce : cexp n <= 64).
  { pose proof (node_end_bound size bs ga n rm Hsize Hbs Hok) as HE. pose proof (pow2_pos bs) as Hp.
    assert (capof n <= 2 ^ 53) by nia. rewrite (capof_pow2 n ltac:(lia)) in H. apply pow2_le_inv in H. lia. }
  rewrite (left_child_sid size bs ga n rm Hok Hn).
  unfold B. rewrite (right_descendant_sid size bs ga n rm Hok Hn Hce). fold B.
  destruct (fuel_children n f Hn Hf) as [F1 F2].
  pose proof (node_ok_left size bs ga n rm Hok Hn) as Hokl.
  pose proof (node_ok_right size bs ga n rm Hok Hn) as Hokr.
  rewrite (sh_pre_inner f ga n Hn) in Hl.
  rewrite (IH ga (capof n / 2) false l_rs lh false Hokl F1)
    by (intros y Hy; apply Hl; right; apply in_or_app; left; exact Hy).
  destruct (validate_rec HO f wd t (filled_of B) ob2 d lh (sid ga (capof n / 2)) false l_rs) as [ys1 r1].
  destruct r1; try reflexivity.
  rewrite (IH (ga + capof n / 2) (n - capof n / 2) rm r_rs rh false Hokr F2)
    by (intros y Hy; apply Hl; right; apply in_or_app; right; exact Hy).
  reflexivity.
Qed.

Variable ob : outboard.
Hypothesis Htree : ob_tree ob = mkTree size bs.

Lemma view_shape : forall x, In x (sh_pre 70 0 B) ->
  load_fsm HO ob (unshift bs x) = load_sync HO (fsm_view ob) (unshift bs x).
Proof.
  intros x Hx. symmetry. apply view_load_sync; [exact Htree|]. unfold sp_pre_nodes. apply in_map. fold B.
  assert (HB1 : 1 <= B) by (unfold B, sp_blocks; lia).
  rewrite (sh_pre_fuel 65 70 0 B HB1 (root_fuel size bs Hsize)); [exact Hx|].
  pose proof (root_fuel size bs Hsize). fold B in H. lia.
Qed.

Lemma fuel70' : N.log2 (capof B) <= N.of_nat 70.
Proof. pose proof (root_fuel size bs Hsize) as H. fold B in H. lia. Qed.

(* the fsm validators on any store are the sync validators on its view: no premise on the loaders *)
Theorem valid_ranges_fsm_view d q : valid_ranges_fsm HO ob d q = valid_ranges HO (fsm_view ob) d q.
Proof.
  unfold valid_ranges_fsm, valid_ranges. rewrite view_tree, view_root, Htree.
  destruct (blocks (mkTree size bs) =? 1); [reflexivity|].
  rewrite shifted_eq. cbn [tsize].
  exact (validate_fsm_shape2 ob (fsm_view ob) d true 70 0 B true _ (ob_root ob) true
           (node_ok_root size bs) fuel70' view_shape).
Qed.

Theorem valid_outboard_ranges_fsm_view q :
  valid_outboard_ranges_fsm HO ob q = valid_outboard_ranges HO (fsm_view ob) q.
Proof.
  unfold valid_outboard_ranges_fsm, valid_outboard_ranges. rewrite view_tree, view_root, Htree.
  destruct (blocks (mkTree size bs) =? 1); [reflexivity|].
  rewrite shifted_eq. cbn [tsize].
  exact (validate_fsm_shape2 ob (fsm_view ob) [] false 70 0 B true _ (ob_root ob) true
           (node_ok_root size bs) fuel70' view_shape).
Qed.

End View.

Print Assumptions valid_ranges_fsm_view.
Print Assumptions valid_outboard_ranges_fsm_view.
Print Assumptions loads_ok_fsm_io.
Print Assumptions loads_ok_fsm_sized.
