(* Gap audit (C02 ii / iii), part 6: round trips that Props/C02.v did not state.
   - the decoders on the honest encoding for EVERY well-formed query (the empty one included), with the decoder's
     geometry (root, size, block size) given separately from the encoder's store;
   - the validating encoders on a store that is intact ON THE NODES OF THE PLAN only (not necessarily a complete,
     created store): a partially filled store serves every query whose plan it covers;
   - the NON-validating encoders where they are legitimate: every touched chunk group fully selected (groups_full),
     which holds for every query at block size 0. *)
From BaoV Require Import Model.Sync Model.Fsm Model.IO Spec.RangeSpec Spec.PlanSpec Spec.NodeSpec Spec.EncSpec Spec.HashAssm.
From BaoV Require Import Proofs.RangeBase Proofs.BridgeBase
  Proofs.BridgeLeaves Proofs.DecForest Proofs.DecRanges Proofs.EncLoop Proofs.EncThm Proofs.EncNonval
  Proofs.E2EGlue Proofs.E2EDecode Proofs.E2EMisc Proofs.ValSpec Proofs.HistOb Proofs.HistInv Proofs.HistStep
  Proofs.FinalStore Proofs.FinalEnc Proofs.GapEncStore Proofs.GapHNodes Proofs.GapHShort Proofs.GapHFault.
From Coq Require Import ZArith Lia.
Open Scope N_scope.
Arguments N.add : simpl never.
Arguments N.sub : simpl never.
Arguments N.mul : simpl never.
Arguments N.pow : simpl never.
Arguments N.div : simpl never.
Arguments N.modulo : simpl never.

(* both decoders on the honest encoding of any well-formed query, geometry given as three separate values *)
Theorem decoders_roundtrip_any : forall (HO : hops), hash_ok HO ->
  forall (data : bytes HO) (bs : N) (q : ranges), blen HO data <= 2 ^ 63 -> bs <= 10 -> wf_ranges q = true ->
  forall (root : hash HO) (size' bs' : N), root = root_hash HO data -> size' = blen HO data -> bs' = bs ->
  forall rest : bytes HO,
  (exists st, dec_run HO (dec_new HO root (mkTree size' bs') (flat HO (honest HO data bs q) ++ rest) q)
              = (honest HO data bs q, Finished, st) /\ d_enc HO st = rest) /\
  (exists st, rd_run HO (rd_new HO root q (mkTree size' bs') (flat HO (honest HO data bs q) ++ rest))
              = (honest HO data bs q, Finished, st) /\ Fsm.r_enc HO st = rest).
Proof.
  intros HO HOK data bs q Hs Hb Hwf root size' bs' -> -> -> rest.
  destruct (list_eq_dec N.eq_dec q []) as [->|Hne].
  - destruct (e2e_empty_query HO data (flat HO (honest HO data bs []) ++ rest) bs (root_hash HO data) (mkTree (blen HO data) bs))
      as (E & _ & (s1 & R1 & P1) & (s2 & R2 & P2)).
    rewrite E in *. cbn [flat map concat app] in *. split; [exists s1|exists s2]; split; assumption.
  - split.
    + exact (e2e_roundtrip_sync HO HOK data bs q Hs Hb Hwf Hne rest).
    + destruct (e2e_roundtrip_fsm HO HOK data bs q Hs Hb Hwf Hne rest) as (st & R & P & _). exists st. split; assumption.
Qed.

(* C02 (iii): the encoder takes its geometry from the store (ob_tree ob, ob_root ob: the claimed size, block size
   and root), the decoder takes (root, size, block size) as separate inputs.  When the store's claims are the
   blob's and the store is intact on the parents of the encoder's plan, the round trip holds for the decoder given
   the same three values - whatever the rest of the store holds *)
Theorem roundtrip_intact_plan : forall (HO : hops), hash_ok HO ->
  forall (data : bytes HO) (bs : N) (q : ranges), blen HO data <= 2 ^ 63 -> bs <= 10 -> wf_ranges q = true ->
  forall ob : outboard HO,
  ob_tree ob = mkTree (blen HO data) bs -> ob_root ob = root_hash HO data ->
  forall (root : hash HO) (size' bs' : N), root = ob_root ob -> mkTree size' bs' = ob_tree ob ->
  ((forall nd, In nd (enc_nodes (blen HO data) bs q) -> stored_ok HO data ob nd) ->
   exists enc, encode_ranges_validated HO data ob q = (Ok tt, enc) /\ enc = flat HO (honest HO data bs q) /\
     forall rest : bytes HO,
     (exists st, dec_run HO (dec_new HO root (mkTree size' bs') (enc ++ rest) q) = (honest HO data bs q, Finished, st) /\
                 d_enc HO st = rest) /\
     (exists st, rd_run HO (rd_new HO root q (mkTree size' bs') (enc ++ rest)) = (honest HO data bs q, Finished, st) /\
                 Fsm.r_enc HO st = rest)) /\
  ((forall nd, In nd (enc_nodes (blen HO data) bs q) -> stored_ok_fsm HO data ob nd) ->
   exists enc, encode_ranges_validated_fsm HO data ob q = (Ok tt, enc) /\ enc = flat HO (honest HO data bs q) /\
     forall rest : bytes HO,
     (exists st, dec_run HO (dec_new HO root (mkTree size' bs') (enc ++ rest) q) = (honest HO data bs q, Finished, st) /\
                 d_enc HO st = rest) /\
     (exists st, rd_run HO (rd_new HO root q (mkTree size' bs') (enc ++ rest)) = (honest HO data bs q, Finished, st) /\
                 Fsm.r_enc HO st = rest)).
Proof.
  intros HO HOK data bs q Hs Hb Hwf ob Ht Hr root size' bs' -> Hg.
  rewrite Ht in Hg. injection Hg as -> ->. rewrite Hr.
  split; intro Hst.
  - exists (flat HO (honest HO data bs q)).
    split; [exact (c02_sync HO data bs q Hwf Hs Hb ob Ht Hr (ho_beq HO HOK) Hst)|]. split; [reflexivity|].
    intro rest. exact (decoders_roundtrip_any HO HOK data bs q Hs Hb Hwf _ _ _ eq_refl eq_refl eq_refl rest).
  - exists (flat HO (honest HO data bs q)).
    split; [exact (c02_fsm HO data bs q Hwf Hs Hb ob Ht Hr (ho_beq HO HOK) Hst)|]. split; [reflexivity|].
    intro rest. exact (decoders_roundtrip_any HO HOK data bs q Hs Hb Hwf _ _ _ eq_refl eq_refl eq_refl rest).
Qed.

(* ---------- C02 (ii): the non-validating encoders ---------- *)
Lemma groups_full_bs0 : forall (q : ranges) (size : N), groups_full 0 q size.
Proof.
  intros q size c c' Hs He _. change (2 ^ 0) with 1 in He. rewrite !N.div_1_r in He. now subst c'.
Qed.

Theorem nonval_roundtrip : forall (HO : hops), hash_ok HO ->
  forall (data : bytes HO) (bs : N), blen HO data <= 2 ^ 63 -> bs <= 10 ->
  forall ob : outboard HO, created_store HO data bs ob ->
  forall q : ranges, wf_ranges q = true -> groups_full bs q (blen HO data) ->
  exists enc, encode_ranges HO data ob q = (Ok tt, enc) /\ encode_ranges_fsm HO data ob q = (Ok tt, enc) /\
    enc = flat HO (honest HO data bs q) /\
    (forall rest : bytes HO,
       (exists st, dec_run HO (dec_new HO (ob_root ob) (ob_tree ob) (enc ++ rest) q) = (honest HO data bs q, Finished, st) /\
                   d_enc HO st = rest) /\
       (exists st, rd_run HO (rd_new HO (ob_root ob) q (ob_tree ob) (enc ++ rest)) = (honest HO data bs q, Finished, st) /\
                   Fsm.r_enc HO st = rest)) /\
    (forall (rest target : bytes HO) (sink : outboard HO),
       ob_root sink = ob_root ob -> ob_tree sink = ob_tree ob -> sink_ok HO data bs sink ->
       exists ob',
         apply_items HO (honest HO data bs q) target sink = (SOk, write_leaves HO target (honest HO data bs q), ob') /\
         (exists st', decode_ranges HO (enc ++ rest) q target sink =
                      (Ok tt, write_leaves HO target (honest HO data bs q), ob', st') /\ d_enc HO st' = rest) /\
         (exists st', decode_ranges_fsm HO (enc ++ rest) q target sink =
                      (Ok tt, write_leaves HO target (honest HO data bs q), ob', st') /\ Fsm.r_enc HO st' = rest)).
Proof.
  intros HO HOK data bs Hs Hb ob Hc q Hwf Hgf.
  destruct (created_five HO HOK data bs Hs Hb ob Hc q Hwf) as (_ & _ & _ & Hnv). destruct (Hnv Hgf) as [E1 E2].
  pose proof Hc as [K T R D].
  exists (flat HO (honest HO data bs q)). split; [exact E1|]. split; [exact E2|]. split; [reflexivity|]. split.
  - intro rest. rewrite T, R. exact (decoders_roundtrip_any HO HOK data bs q Hs Hb Hwf _ _ _ eq_refl eq_refl eq_refl rest).
  - intros rest target sink Hr Ht Hsk. rewrite R in Hr. rewrite T in Ht.
    destruct (roundtrip_sinks HO HOK data bs Hs Hb q rest target sink Hwf Hr Ht Hsk) as (ob' & D1 & D2 & A & _).
    exists ob'. split; [exact A|]. split; assumption.
Qed.

(* at block size 0 every query qualifies *)
Theorem nonval_roundtrip_bs0 : forall (HO : hops), hash_ok HO ->
  forall (data : bytes HO), blen HO data <= 2 ^ 63 ->
  forall ob : outboard HO, created_store HO data 0 ob ->
  forall q : ranges, wf_ranges q = true ->
  exists enc, encode_ranges HO data ob q = (Ok tt, enc) /\ encode_ranges_fsm HO data ob q = (Ok tt, enc) /\
    enc = flat HO (honest HO data 0 q) /\
    forall rest : bytes HO,
      (exists st, dec_run HO (dec_new HO (ob_root ob) (ob_tree ob) (enc ++ rest) q) = (honest HO data 0 q, Finished, st) /\
                  d_enc HO st = rest) /\
      (exists st, rd_run HO (rd_new HO (ob_root ob) q (ob_tree ob) (enc ++ rest)) = (honest HO data 0 q, Finished, st) /\
                  Fsm.r_enc HO st = rest).
Proof.
  intros HO HOK data Hs ob Hc q Hwf.
  destruct (nonval_roundtrip HO HOK data 0 Hs ltac:(lia) ob Hc q Hwf (groups_full_bs0 q _)) as (enc & E1 & E2 & E3 & R & _).
  exists enc. split; [exact E1|]. split; [exact E2|]. split; [exact E3|exact R].
Qed.

(* ---------- non-vacuity of roundtrip_intact_plan: a store that is intact on the plan but is not a created store ----------
   the state wit_st of Proofs/GapHShort.v: a PreIO store of 64 of its 128 bytes (the root pair only) serves the query
   [2, oo), whose plan has the root as its only parent *)
Lemma intact_plan_nonvacuous :
  exists (HO : hops) (data : bytes HO) (bs : N) (q : ranges) (ob : outboard HO),
    hash_ok HO /\ blen HO data <= 2 ^ 63 /\ bs <= 10 /\ wf_ranges q = true /\ q <> [] /\
    ob_tree ob = mkTree (blen HO data) bs /\ ob_root ob = root_hash HO data /\
    enc_nodes (blen HO data) bs q = [1] /\
    (forall nd, In nd (enc_nodes (blen HO data) bs q) -> stored_ok HO data ob nd) /\
    (forall nd, In nd (enc_nodes (blen HO data) bs q) -> stored_ok_fsm HO data ob nd) /\
    blen HO (ob_data ob) = 64 /\ sp_blocks (blen HO data) bs = 3 /\ ~ created_store HO data bs ob.
Proof.
  exists DecWitness.term_hops, wit_data, 0, [2], (snd wit_st).
  assert (Hl : blen DecWitness.term_hops wit_data = 3000) by (unfold blen, wit_data; rewrite repeat_length; reflexivity).
  split; [exact DecWitness.term_hops_ok|]. split; [rewrite Hl; cbn; lia|]. split; [lia|]. split; [reflexivity|].
  split; [discriminate|]. rewrite Hl.
  assert (En : enc_nodes 3000 0 [2] = [1]) by (vm_compute; reflexivity).
  split; [vm_compute; reflexivity|]. split; [vm_compute; reflexivity|]. split; [exact En|]. rewrite En.
  split; [intros nd [<-|[]]; vm_compute; reflexivity|]. split; [intros nd [<-|[]]; vm_compute; reflexivity|].
  split; [vm_compute; reflexivity|]. split; [reflexivity|].
  intros [_ _ _ D]. apply (f_equal (@length _)) in D. revert D. vm_compute. discriminate.
Qed.
