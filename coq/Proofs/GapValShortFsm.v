(* C06, gap B, part 3: the fsm data validator on a data file of any length, stated on load_fsm
   (stored_pair_fsm); no premise relating load_fsm to load_sync. *)
From BaoV Require Import Model.Sync Model.Fsm Spec.PlanSpec Spec.PlanWf Spec.EncSpec Spec.HashAssm Spec.NodeSpec.
From BaoV Require Import Proofs.NodeLevel Proofs.NodeBits Proofs.NodeAlgebra
  Proofs.ObBase Proofs.ObLoop Proofs.ObSize Proofs.DecHash Proofs.RangeBase Proofs.BridgeBase
  Proofs.ShapeBase Proofs.PlanBase Proofs.PlanRs Proofs.PlanNav Proofs.ValSpec Proofs.ValPath Proofs.ValTrue Proofs.ValTop
  Proofs.ValSound Proofs.HistOb Proofs.HistPath Proofs.GapValFsmView Proofs.GapValFsm Proofs.GapValShort Proofs.GapValShortTop.
From Coq Require Import ZArith Lia.
Open Scope N_scope.
Arguments N.add : simpl never.
Arguments N.sub : simpl never.
Arguments N.mul : simpl never.
Arguments N.pow : simpl never.
Arguments N.shiftl : simpl never.
Arguments N.shiftr : simpl never.
Arguments N.land : simpl never.
Arguments N.div : simpl never.
Arguments N.modulo : simpl never.
Arguments N.log2 : simpl never.
Arguments N.min : simpl never.
Arguments N.max : simpl never.
Ltac Zify.zify_post_hook ::= Z.to_euclidean_division_equations.

Lemma find_ext' {A} (f g : A -> bool) l : (forall x, f x = g x) -> find f l = find g l.
Proof. intro H. induction l as [|x l IH]; [reflexivity|]. cbn [find]. now rewrite H, IH. Qed.

Local Transparent val_top_e.
Lemma val_top_e_unfold (HO : hops) wd (ob : outboard HO) d size bs q :
  val_top_e HO wd ob d size bs q = val_spec_e HO VFUEL wd ob d size bs (sel q size) 0 (sp_blocks size bs) (ob_root ob) true.
Proof. unfold val_top_e. reflexivity. Qed.
Local Opaque val_top_e.

Section Defs.
Variable HO : hops.
Notation bytes := (bytes HO).
Notation hash := (hash HO).
Notation outboard := (outboard HO).

Fixpoint val_spec_e_fsm (fuel : nat) (wd : bool) (ob : outboard) (d : bytes) (size bs : N) (Sel : N -> bool)
         (ga n : N) (owed : hash) (is_root : bool) : vres :=
  match fuel with
  | O => vnil
  | S f =>
    if negb (touchedn Sel size bs ga n) then vnil
    else if n <=? 1 then leaf_rep_e HO wd d size bs ga owed is_root
    else
      match stored_pair_fsm HO ob (unshift bs (sid ga n)) with
      | None => vnil
      | Some (l, r) =>
          if negb (bytes_eqb HO (parent_cv HO l r is_root) owed) then vnil
          else if n <=? 2 then
            vseq (if touchedn Sel size bs ga 1 then leaf_rep_e HO wd d size bs ga l false else vnil)
                 (if touchedn Sel size bs (ga + 1) 1 then leaf_rep_e HO wd d size bs (ga + 1) r false else vnil)
          else
            let half := capof n / 2 in
            vseq (val_spec_e_fsm f wd ob d size bs Sel ga half l false)
                 (val_spec_e_fsm f wd ob d size bs Sel (ga + half) (n - half) r false)
      end
  end.

Lemma val_spec_e_fsm_eq f wd ob d size bs Sel ga n owed is_root :
  val_spec_e_fsm (S f) wd ob d size bs Sel ga n owed is_root =
    if negb (touchedn Sel size bs ga n) then vnil
    else if n <=? 1 then leaf_rep_e HO wd d size bs ga owed is_root
    else
      match stored_pair_fsm HO ob (unshift bs (sid ga n)) with
      | None => vnil
      | Some (l, r) =>
          if negb (bytes_eqb HO (parent_cv HO l r is_root) owed) then vnil
          else if n <=? 2 then
            vseq (if touchedn Sel size bs ga 1 then leaf_rep_e HO wd d size bs ga l false else vnil)
                 (if touchedn Sel size bs (ga + 1) 1 then leaf_rep_e HO wd d size bs (ga + 1) r false else vnil)
          else
            let half := capof n / 2 in
            vseq (val_spec_e_fsm f wd ob d size bs Sel ga half l false)
                 (val_spec_e_fsm f wd ob d size bs Sel (ga + half) (n - half) r false)
      end.
Proof. reflexivity. Qed.

Definition val_top_e_fsm (wd : bool) (ob : outboard) (d : bytes) (size bs : N) (q : ranges) : vres :=
  val_spec_e_fsm VFUEL wd ob d size bs (sel q size) 0 (sp_blocks size bs) (ob_root ob) true.

Lemma val_top_e_fsm_eq wd ob d size bs q :
  val_top_e_fsm wd ob d size bs q =
  val_spec_e_fsm VFUEL wd ob d size bs (sel q size) 0 (sp_blocks size bs) (ob_root ob) true.
Proof. reflexivity. Qed.

Definition grp_eof_fsm (ob : outboard) (d : bytes) (size bs : N) (q : ranges) (ga : N) : bool :=
  touchedb q size bs ga && grp_verdict_fsm HO false ob [] size bs ga && negb (grp_bend size bs ga <=? blen HO d).

Definition grp_rep_fsm (ob : outboard) (d : bytes) (size bs : N) (q : ranges) (ga : N) : list (N * N) :=
  if touchedb q size bs ga && grp_verdict_fsm HO true ob (take HO size d) size bs ga
  then [(grp_start bs ga, grp_end size bs ga)] else [].

Lemma val_spec_e_fsm_transfer (ob ob' : outboard) wd d size bs Sel : forall fuel ga n owed ir,
  (forall x, In x (sh_pre fuel ga n) -> stored_pair HO ob' (unshift bs x) = stored_pair_fsm HO ob (unshift bs x)) ->
  val_spec_e_fsm fuel wd ob d size bs Sel ga n owed ir = val_spec_e HO fuel wd ob' d size bs Sel ga n owed ir.
Proof.
  induction fuel as [|f IH]; intros ga n owed ir Hag; [reflexivity|].
  rewrite val_spec_e_fsm_eq, val_spec_e_eq.
  destruct (negb (touchedn Sel size bs ga n)); [reflexivity|].
  destruct (N.leb_spec n 1) as [L1|L1]; [reflexivity|].
  rewrite (Hag (sid ga n)) by (apply sh_pre_head; lia).
  destruct (stored_pair_fsm HO ob (unshift bs (sid ga n))) as [[l r]|]; [|reflexivity].
  destruct (negb (bytes_eqb HO (parent_cv HO l r ir) owed)); [reflexivity|].
  destruct (N.leb_spec n 2) as [L2|L2]; [reflexivity|].
  rewrite (sh_pre_inner f ga n) in Hag by lia. cbv zeta.
  rewrite IH by (intros y Hy; apply Hag; right; apply in_or_app; left; exact Hy).
  rewrite IH by (intros y Hy; apply Hag; right; apply in_or_app; right; exact Hy).
  reflexivity.
Qed.

End Defs.
Global Opaque val_top_e_fsm.

(* ------------------------------------------------------------------------------------------- *)
Section Exact.
Variable HO : hops.
Notation bytes := (bytes HO).
Notation hash := (hash HO).
Notation outboard := (outboard HO).

Variables (size bs : N) (q : ranges) (ob : outboard).
Hypothesis Hsize : size <= 2 ^ 63.
Hypothesis Hbs : bs <= 10.
Hypothesis Hwf : wf_ranges q = true.
Hypothesis Htree : ob_tree ob = mkTree size bs.
Let B := sp_blocks size bs.
Let V := fsm_view HO ob.

Lemma val_top_e_fsm_view wd d : val_top_e_fsm HO wd ob d size bs q = val_top_e HO wd V d size bs q.
Proof.
  rewrite val_top_e_fsm_eq.
  rewrite (val_spec_e_fsm_transfer HO ob V wd d size bs (sel q size) VFUEL 0 (sp_blocks size bs) (ob_root ob) true).
  - rewrite val_top_e_unfold. unfold V. rewrite (view_root HO ob). reflexivity.
  - intros x Hx. apply (view_stored_pair HO size bs Hsize Hbs ob _ Htree). unfold sp_pre_nodes. apply in_map.
    assert (HB1 : 1 <= sp_blocks size bs) by (unfold sp_blocks; lia).
    rewrite (sh_pre_fuel 65 VFUEL 0 (sp_blocks size bs) HB1 (root_fuel size bs Hsize)); [exact Hx|].
    apply (top_fuel size bs Hsize).
Qed.

Lemma grp_eof_fsm_view d ga : grp_eof_fsm HO ob d size bs q ga = grp_eof HO V d size bs q ga.
Proof.
  unfold grp_eof_fsm, grp_eof. rewrite (grp_verdict_fsm_view HO size bs ob Hsize Hbs Htree false [] ga). reflexivity.
Qed.

Lemma grp_rep_fsm_view d ga : grp_rep_fsm HO ob d size bs q ga = grp_rep HO V d size bs q ga.
Proof.
  unfold grp_rep_fsm, grp_rep.
  rewrite (grp_verdict_fsm_view HO size bs ob Hsize Hbs Htree true (take HO size d) ga). reflexivity.
Qed.

Hypothesis Hloads : loads_ok_fsm HO ob size bs.

Let V_tree : ob_tree V = mkTree size bs := V_tree HO size bs ob Htree.
Let V_loads : loads_ok HO V size bs := V_loads HO size bs ob Hsize Hbs Htree Hloads.

Lemma fsm_short_data_spec d : 2 <= B -> valid_ranges_fsm HO ob d q = val_top_e_fsm HO true ob d size bs q.
Proof.
  intro HB. rewrite (valid_ranges_fsm_view HO size bs Hsize Hbs ob Htree d q). fold V.
  rewrite (short_data_spec HO size bs q V Hsize Hbs Hwf V_tree V_loads d HB).
  symmetry. apply val_top_e_fsm_view.
Qed.

Lemma fsm_short_data_find d : 2 <= B ->
  valid_ranges_fsm HO ob d q =
  match find (grp_eof_fsm HO ob d size bs q) (chunk_range_list 0 B) with
  | None => (flat_map (grp_rep_fsm HO ob d size bs q) (chunk_range_list 0 B), Ok tt)
  | Some ga => (flat_map (grp_rep_fsm HO ob d size bs q) (chunk_range_list 0 ga), Err KUnexpectedEof)
  end.
Proof.
  intro HB. rewrite (valid_ranges_fsm_view HO size bs Hsize Hbs ob Htree d q). fold V.
  rewrite (short_data_find HO size bs q V Hsize Hbs Hwf V_tree V_loads d HB).
  rewrite (find_ext' (grp_eof_fsm HO ob d size bs q) (grp_eof HO V d size bs q) _ (grp_eof_fsm_view d)).
  fold B. destruct (find (grp_eof HO V d size bs q) (chunk_range_list 0 B)) as [ga|];
    f_equal; apply flat_map_ext; intro ga'; symmetry; apply grp_rep_fsm_view.
Qed.

Lemma fsm_short_data_find_le d : blen HO d <= size -> 2 <= B ->
  valid_ranges_fsm HO ob d q =
  match find (grp_eof_fsm HO ob d size bs q) (chunk_range_list 0 B) with
  | None =>
      (flat_map (fun ga => if touchedb q size bs ga && grp_verdict_fsm HO true ob d size bs ga
                           then [(grp_start bs ga, grp_end size bs ga)] else [])
                (chunk_range_list 0 B), Ok tt)
  | Some ga =>
      (flat_map (fun ga => if touchedb q size bs ga && grp_verdict_fsm HO true ob d size bs ga
                           then [(grp_start bs ga, grp_end size bs ga)] else [])
                (chunk_range_list 0 ga), Err KUnexpectedEof)
  end.
Proof.
  intros Hd HB. rewrite (fsm_short_data_find d HB). unfold grp_rep_fsm. rewrite (ObBase.take_all HO size d Hd). reflexivity.
Qed.

Lemma fsm_grp_eof_iff d ga : 2 <= B ->
  grp_eof_fsm HO ob d size bs q ga = true <->
  touched q size bs ga /\ chain_ok_fsm HO ob size bs ga /\ blen HO d < grp_bend size bs ga.
Proof.
  intro HB. rewrite grp_eof_fsm_view, (grp_eof_iff HO size bs q V d ga HB).
  rewrite (chain_ok_fsm_view HO size bs ob Hsize Hbs Htree ga). reflexivity.
Qed.

Lemma fsm_short_data_ok d : 2 <= B -> (forall ga, ga < B -> grp_eof_fsm HO ob d size bs q ga = false) ->
  valid_ranges_fsm HO ob d q = (flat_map (grp_rep_fsm HO ob d size bs q) (chunk_range_list 0 B), Ok tt).
Proof.
  intros HB H. rewrite (fsm_short_data_find d HB), find_all_false; [reflexivity|].
  intros x Hx. apply crl_in in Hx. apply H. lia.
Qed.

Lemma fsm_short_data_err d ga : 2 <= B -> ga < B -> grp_eof_fsm HO ob d size bs q ga = true ->
  (forall ga', ga' < ga -> grp_eof_fsm HO ob d size bs q ga' = false) ->
  valid_ranges_fsm HO ob d q = (flat_map (grp_rep_fsm HO ob d size bs q) (chunk_range_list 0 ga), Err KUnexpectedEof).
Proof.
  intros HB Hga He Hb. rewrite (fsm_short_data_find d HB).
  rewrite (crl_app 0 ga B) by lia. rewrite (crl_cons ga B) by lia.
  rewrite find_first; [reflexivity| |exact He].
  intros y Hy. apply crl_in in Hy. apply Hb. lia.
Qed.

Lemma fsm_short_data_member d a e : 2 <= B ->
  In (a, e) (fst (valid_ranges_fsm HO ob d q)) <->
  exists ga, ga < B /\ a = grp_start bs ga /\ e = grp_end size bs ga /\
             touched q size bs ga /\ chain_ok_fsm HO ob size bs ga /\
             grp_bend size bs ga <= blen HO d /\ leaf_ok_fsm HO (take HO size d) ob size bs ga.
Proof.
  intro HB. rewrite (valid_ranges_fsm_view HO size bs Hsize Hbs ob Htree d q). fold V.
  rewrite (short_data_member HO size bs q V Hsize Hbs Hwf V_tree V_loads d a e HB).
  split; intros (ga & H1 & H2 & H3 & H4 & H5 & H6 & H7); exists ga; repeat split; try assumption.
  - exact (proj2 (chain_ok_fsm_view HO size bs ob Hsize Hbs Htree ga) H5).
  - exact (proj2 (leaf_ok_fsm_view HO size bs ob Hsize Hbs Htree (take HO size d) ga) H7).
  - exact (proj1 (chain_ok_fsm_view HO size bs ob Hsize Hbs Htree ga) H5).
  - exact (proj1 (leaf_ok_fsm_view HO size bs ob Hsize Hbs Htree (take HO size d) ga) H7).
Qed.

Lemma fsm_long_data d : size <= blen HO d -> valid_ranges_fsm HO ob d q = valid_ranges_fsm HO ob (take HO size d) q.
Proof.
  intro Hd. rewrite (valid_ranges_fsm_view HO size bs Hsize Hbs ob Htree d q).
  rewrite (valid_ranges_fsm_view HO size bs Hsize Hbs ob Htree (take HO size d) q). fold V.
  exact (long_data HO size bs q V Hsize Hbs Hwf V_tree V_loads d Hd).
Qed.

End Exact.

Section Single.
Variable HO : hops.
Variables (size bs : N) (q : ranges) (ob : outboard HO).
Hypothesis Htree : ob_tree ob = mkTree size bs.

Lemma fsm_short_data_single d : sp_blocks size bs = 1 ->
  valid_ranges_fsm HO ob d q =
  if size <=? blen HO d
  then ((if bytes_eqb HO (hash_subtree HO 0 (take HO size d) true) (ob_root ob) then [(0, chunks size)] else []), Ok tt)
  else ([], Err KUnexpectedEof).
Proof.
  intro HB. rewrite (proj1 (fsm_single_eq HO size bs q ob Htree d HB)).
  exact (short_data_single HO size bs q ob Htree d HB).
Qed.

Lemma fsm_short_data_single_lt d : sp_blocks size bs = 1 -> blen HO d < size ->
  valid_ranges_fsm HO ob d q = ([], Err KUnexpectedEof).
Proof.
  intros HB Hd. rewrite (proj1 (fsm_single_eq HO size bs q ob Htree d HB)).
  exact (short_data_single_lt HO size bs q ob Htree d HB Hd).
Qed.
End Single.

(* ------------------------------------------------------------------------------------------- *)
Section Sound.
Variable HO : hops.
Hypothesis HOK : hash_ok HO.
Notation bytes := (bytes HO).
Notation outboard := (outboard HO).

Variable data : bytes.
Variable bs : N.
Variable ob : outboard.
Hypothesis Hsize : blen HO data <= 2 ^ 63.
Hypothesis Hbs : bs <= 10.
Hypothesis Hroot : ob_root ob = root_hash HO data.
Hypothesis Htree : ob_tree ob = mkTree (blen HO data) bs.
Variable q : ranges.
Hypothesis Hwf : wf_ranges q = true.
Hypothesis Hloads : loads_ok_fsm HO ob (blen HO data) bs.

Let size := blen HO data.
Let B := sp_blocks size bs.
Let V := fsm_view HO ob.
Let V_root : ob_root V = root_hash HO data := V_root HO data ob Hroot.
Let V_tree : ob_tree V = mkTree size bs := V_tree HO size bs ob Htree.
Let V_loads : loads_ok HO V size bs := V_loads HO size bs ob Hsize Hbs Htree Hloads.

Lemma fsm_short_reported_is_true d a e : 2 <= B ->
  In (a, e) (fst (valid_ranges_fsm HO ob d q)) ->
  chunk_bytes HO (take HO size d) a e = chunk_bytes HO data a e /\
  exists ga, ga < B /\ a = grp_start bs ga /\ e = grp_end size bs ga /\ grp_bend size bs ga <= blen HO d /\
             path_true_fsm HO data bs ob ga.
Proof.
  intros HB. rewrite (valid_ranges_fsm_view HO size bs Hsize Hbs ob Htree d q). fold V. intro Hin.
  destruct (short_reported_is_true HO HOK data bs V Hsize Hbs V_root q Hwf V_tree V_loads d a e HB Hin)
    as [Hb (ga & H1 & H2 & H3 & H4 & H5)].
  split; [exact Hb|]. exists ga. repeat split; try assumption.
  exact (proj2 (path_true_fsm_view HO data bs ob Hsize Hbs Htree ga) H5).
Qed.

Lemma fsm_short_reported_is_true_le d a e : blen HO d <= size -> 2 <= B ->
  In (a, e) (fst (valid_ranges_fsm HO ob d q)) ->
  chunk_bytes HO d a e = chunk_bytes HO data a e /\
  exists ga, ga < B /\ a = grp_start bs ga /\ e = grp_end size bs ga /\ grp_bend size bs ga <= blen HO d /\
             path_true_fsm HO data bs ob ga.
Proof.
  intros Hd HB Hin. pose proof (fsm_short_reported_is_true d a e HB Hin) as H.
  rewrite ObBase.take_all in H by exact Hd. exact H.
Qed.

Lemma fsm_short_valid_is_reported d ga : 2 <= B -> ga < B ->
  touched q size bs ga -> path_true_fsm HO data bs ob ga -> grp_bend size bs ga <= blen HO d ->
  chunk_bytes HO (take HO size d) (grp_start bs ga) (grp_end size bs ga)
  = chunk_bytes HO data (grp_start bs ga) (grp_end size bs ga) ->
  In (grp_start bs ga, grp_end size bs ga) (fst (valid_ranges_fsm HO ob d q)).
Proof.
  intros HB Hga T P Hr Hb. rewrite (valid_ranges_fsm_view HO size bs Hsize Hbs ob Htree d q). fold V.
  apply (short_valid_is_reported HO HOK data bs V Hsize Hbs V_root q Hwf V_tree V_loads d ga HB Hga T); try assumption.
  exact (proj1 (path_true_fsm_view HO data bs ob Hsize Hbs Htree ga) P).
Qed.

Lemma fsm_short_single_reported_is_true d : B = 1 ->
  fst (valid_ranges_fsm HO ob d q) <> [] -> size <= blen HO d /\ take HO size d = data.
Proof.
  intros HB. rewrite (proj1 (fsm_single_eq HO size bs q ob Htree d HB)).
  exact (short_single_reported_is_true HO HOK data bs ob Hsize Hbs Hroot q Htree d HB).
Qed.

End Sound.

Print Assumptions fsm_short_data_spec.
Print Assumptions fsm_short_data_find.
Print Assumptions fsm_short_data_find_le.
Print Assumptions fsm_short_data_member.
Print Assumptions fsm_short_reported_is_true.
Print Assumptions fsm_short_valid_is_reported.
Print Assumptions fsm_long_data.
