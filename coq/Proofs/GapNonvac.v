(* Gap audit: concrete instances satisfying the hypotheses of the new theorems (term algebra hashes). *)
From BaoV Require Import Model.Fsm Spec.RangeSpec Spec.PlanSpec Spec.EncSpec Spec.HashAssm Spec.PTree.
From BaoV Require Import Proofs.DecLoop Proofs.DecHash Proofs.DecForest Proofs.DecConst Proofs.DecRanges Proofs.DecWitness.
From BaoV Require Import Proofs.E2EDecode.
From BaoV Require Import Proofs.GapPolls Proofs.GapLenient Proofs.GapWitness Proofs.GapDrivers.
From Coq Require Import Lia Arith.
Open Scope N_scope.

(* ---------- polls that continue after a leaf hash mismatch / a not-found error ---------- *)
(* the honest encoding of data2 with the first leaf replaced by foreign bytes *)
Definition hon2_item (k : nat) : item H := nth k hon2 (ILeaf 0 []).
Definition bad_leaf_stream : bytes H := item_bytes H (hon2_item 0) ++ evil_leaf ++ item_bytes H (hon2_item 2).
(* ... and cut off inside the first leaf *)
Definition cut_stream : bytes H := firstn 100 (flat H hon2).

Lemma polls_nonvacuous :
  exists HO, hash_ok HO /\
  exists (data : bytes HO) (bs : N) (q : ranges),
    blen HO data <= 2 ^ 63 /\ bs <= 10 /\ wf_ranges q = true /\
    (* sync: Ok, leaf hash mismatch, and then the genuine second leaf *)
    (exists stream tr st it0 it2 c,
       dec_polls HO (dec_new HO (root_hash HO data) (mkTree (blen HO data) bs) stream q) tr st /\
       tr = [Ok it0; Err (DLeafHashMismatch c); Ok it2] /\
       (forall j r, (j < 2)%nat -> nth_error tr j = Some r -> soft HO r) /\
       nth_error (honest HO data bs q) 2 = Some it2) /\
    (* fsm: the same *)
    (exists stream tr st it0 it2 c,
       rd_polls HO (rd_new HO (root_hash HO data) q (mkTree (blen HO data) bs) stream) tr st /\
       tr = [Ok it0; Err (DLeafHashMismatch c); Ok it2] /\
       (forall j r, (j < 2)%nat -> nth_error tr j = Some r -> soft HO r)) /\
    (* both: a not-found error followed by further errors *)
    (exists stream tr st it0 c c',
       dec_polls HO (dec_new HO (root_hash HO data) (mkTree (blen HO data) bs) stream q) tr st /\
       tr = [Ok it0; Err (DLeafNotFound c); Err (DLeafNotFound c')] /\ notfound (DLeafNotFound c)) /\
    (exists stream tr st it0 c c',
       rd_polls HO (rd_new HO (root_hash HO data) q (mkTree (blen HO data) bs) stream) tr st /\
       tr = [Ok it0; Err (DLeafNotFound c); Err (DLeafNotFound c')] /\ notfound (DLeafNotFound c)).
Proof.
  exists H. split; [exact term_hops_ok|]. exists data2, 0, q_all.
  destruct bounds2 as (B1 & B2 & B3). split; [exact B1|]. split; [exact B2|]. split; [exact B3|].
  assert (S3 : forall (a : item H) c (b : item H) j r, (j < 2)%nat ->
            nth_error [Ok a; Err (DLeafHashMismatch c); Ok b] j = Some r -> soft H r).
  { intros a c b j r Hj Hn. destruct j as [|[|j]]; [| |lia]; injection Hn as <-; exact I. }
  split; [|split; [|split]].
  - pose (st0 := dec_new H (root_hash H data2) (mkTree (blen H data2) 0) bad_leaf_stream q_all).
    exists bad_leaf_stream, (fst (dec_poll_fun H 3 st0)), (snd (dec_poll_fun H 3 st0)), (hon2_item 0), (hon2_item 2), 0.
    split; [apply dec_poll_fun_polls|].
    assert (E : fst (dec_poll_fun H 3 st0) = [Ok (hon2_item 0); Err (DLeafHashMismatch 0); Ok (hon2_item 2)])
      by (vm_compute; reflexivity).
    split; [exact E|]. split; [rewrite E; apply S3|vm_compute; reflexivity].
  - pose (st0 := rd_new H (root_hash H data2) q_all (mkTree (blen H data2) 0) bad_leaf_stream).
    exists bad_leaf_stream, (fst (rd_poll_fun H 3 st0)), (snd (rd_poll_fun H 3 st0)), (hon2_item 0), (hon2_item 2), 0.
    split; [apply rd_poll_fun_polls|].
    assert (E : fst (rd_poll_fun H 3 st0) = [Ok (hon2_item 0); Err (DLeafHashMismatch 0); Ok (hon2_item 2)])
      by (vm_compute; reflexivity).
    split; [exact E|]. rewrite E. apply S3.
  - pose (st0 := dec_new H (root_hash H data2) (mkTree (blen H data2) 0) cut_stream q_all).
    exists cut_stream, (fst (dec_poll_fun H 3 st0)), (snd (dec_poll_fun H 3 st0)), (hon2_item 0), 0, 1.
    split; [apply dec_poll_fun_polls|]. split; [vm_compute; reflexivity|exact I].
  - pose (st0 := rd_new H (root_hash H data2) q_all (mkTree (blen H data2) 0) cut_stream).
    exists cut_stream, (fst (rd_poll_fun H 3 st0)), (snd (rd_poll_fun H 3 st0)), (hon2_item 0), 0, 1.
    split; [apply rd_poll_fun_polls|]. split; [vm_compute; reflexivity|exact I].
Qed.

(* a plan tree satisfying the hypotheses of polls_tree_sync / polls_tree_fsm *)
Definition leafA : bytes H := repeat b0 64.
Definition leafB : bytes H := [b1].
Definition small_tree : ptree H :=
  PNode 0 true (hash_subtree H 0 leafA false) (hash_subtree H 1 leafB false)
        (PLeaf 0 false leafA) (PLeaf 1 false leafB).

Lemma polls_tree_nonvacuous :
  exists HO, hash_ok HO /\ exists T : ptree HO,
    consistent HO T /\ leaves_ok HO T /\ tail_ok (plan_of HO T) /\ length (plan_of HO T) = 3%nat.
Proof.
  exists H. split; [exact term_hops_ok|]. exists small_tree. split; [|split; [|split]].
  - cbn [small_tree consistent is_skip cv_of].
    split; [vm_compute; reflexivity|]. split; [vm_compute; reflexivity|]. repeat split; reflexivity.
  - cbn [small_tree leaves_ok]. unfold leaf_len_ok. split; vm_compute; discriminate.
  - cbn [small_tree plan_of app tail_ok is_skip negb]. unfold blen, leafA, leafB. rewrite repeat_length. cbn [length].
    change (N.of_nat 64) with 64. change (N.of_nat 1) with 1. cbn [no_leaf].
    repeat split; try lia.
  - reflexivity.
Qed.

(* ---------- C16: a wrong claimed size, an io-backed outboard ---------- *)
Lemma c16_nonvacuous :
  exists HO, hash_ok HO /\
  exists (data : bytes HO) (size' bs : N) (q : ranges) (ob : outboard HO),
    size' <= 2 ^ 63 /\ blen HO data <= 2 ^ 63 /\ bs <= 10 /\ wf_ranges q = true /\
    sel q size' (nchunks size' - 1) = true /\ size' <> blen HO data /\
    ob_root ob = root_hash HO data /\ ob_tree ob = mkTree size' bs /\
    (ob_k ob = PreIO \/ ob_k ob = PostIO \/ ob_k ob = EmptyOb).
Proof.
  exists H. split; [exact term_hops_ok|].
  exists data2, 3000, 0, q_all, (mkOb PreIO (root_hash H data2) (mkTree 3000 0) []).
  destruct bounds2 as (B1 & B2 & B3).
  split; [lia|]. split; [exact B1|]. split; [exact B2|]. split; [exact B3|].
  split; [vm_compute; reflexivity|]. split; [vm_compute; discriminate|].
  split; [cbn [ob_root]; reflexivity|]. split; [reflexivity|]. left. reflexivity.
Qed.

(* ---------- C09: a cut and an altered byte inside the first leaf, an outboard of the blob ---------- *)
Lemma c09_drivers_nonvacuous :
  exists HO, hash_ok HO /\
  exists (data : bytes HO) (bs : N) (q : ranges) (ob : outboard HO) (p k : nat) (b b' : B HO),
    blen HO data <= 2 ^ 63 /\ bs <= 10 /\ wf_ranges q = true /\
    (length (flat HO (firstn k (honest HO data bs q))) <= p)%nat /\
    (p < length (flat HO (firstn (S k) (honest HO data bs q))))%nat /\
    nth_error (flat HO (honest HO data bs q)) p = Some b /\ b' <> b /\
    ob_root ob = root_hash HO data /\ ob_tree ob = mkTree (blen HO data) bs.
Proof.
  exists H. split; [exact term_hops_ok|].
  exists data2, 0, q_all, (mkOb PreIO (root_hash H data2) (mkTree (blen H data2) 0) []), 100%nat, 1%nat, b0, b1.
  destruct bounds2 as (B1 & B2 & B3).
  split; [exact B1|]. split; [exact B2|]. split; [exact B3|].
  split; [vm_compute; lia|]. split; [vm_compute; lia|].
  split; [vm_compute; reflexivity|]. split; [discriminate|]. split; reflexivity.
Qed.

(* ---------- C20: a poll sequence through an error in which every call read its item fully ---------- *)
Lemma position_nonvacuous :
  exists HO, hash_ok HO /\
  exists root q t (stream : bytes HO) tr st e,
    rd_polls HO (rd_new HO root q t stream) tr st /\ Forall (read_fully HO) tr /\
    In (Err e) tr /\ length tr = 3%nat.
Proof.
  exists H. split; [exact term_hops_ok|].
  pose (st0 := rd_new H (root_hash H data2) q_all (mkTree (blen H data2) 0) evil_stream2).
  exists (root_hash H data2), q_all, (mkTree (blen H data2) 0), evil_stream2,
         (fst (rd_poll_fun H 3 st0)), (snd (rd_poll_fun H 3 st0)), (DParentHashMismatch 0).
  split; [apply rd_poll_fun_polls|].
  assert (E : fst (rd_poll_fun H 3 st0)
              = [Err (DParentHashMismatch 0); Ok (ILeaf 0 evil_leaf); Ok (ILeaf 1024 evil_leaf)])
    by (vm_compute; reflexivity).
  rewrite E. split; [|split; [left; reflexivity|reflexivity]].
  constructor; [intros e0 E0; injection E0 as <-; intro F; exact F|].
  constructor; [intros e0 E0; discriminate|]. constructor; [intros e0 E0; discriminate|constructor].
Qed.
