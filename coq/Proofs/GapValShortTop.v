(* C06, gap B, part 2: valid_ranges on a data file of any length: exact output (recursive specification, group
   by group up to the first group that cannot be read), membership, soundness, completeness, single group. *)
From BaoV Require Import Model.Sync Model.Fsm Spec.PlanSpec Spec.PlanWf Spec.EncSpec Spec.HashAssm.
From BaoV Require Import Proofs.NodeLevel Proofs.NodeBits Proofs.NodeAlgebra
  Proofs.ObBase Proofs.ObLoop Proofs.ObSize Proofs.DecHash Proofs.RangeBase Proofs.BridgeBase
  Proofs.ShapeBase Proofs.PlanBase Proofs.PlanRs Proofs.PlanNav Proofs.ValSpec Proofs.ValPath Proofs.ValTrue Proofs.ValTop
  Proofs.ValSound Proofs.GapValShort.
From Coq Require Import ZArith Lia.
Open Scope N_scope.
Arguments N.add : simpl never.
Arguments N.sub : simpl never.
Arguments N.mul : simpl never.
Arguments N.pow : simpl never.
Arguments N.shiftl : simpl never.
Arguments N.shiftr : simpl never.
Arguments N.land : simpl never.
Arguments N.div : simpl never.
Arguments N.modulo : simpl never.
Arguments N.log2 : simpl never.
Arguments N.min : simpl never.
Arguments N.max : simpl never.
Ltac Zify.zify_post_hook ::= Z.to_euclidean_division_equations.

Lemma find_all_false {A} (f : A -> bool) l : (forall x, In x l -> f x = false) -> find f l = None.
Proof.
  induction l as [|x l IH]; intro H; [reflexivity|]. cbn [find]. rewrite (H x) by now left.
  apply IH. intros y Hy. apply H. now right.
Qed.

Lemma find_first {A} (f : A -> bool) l1 x l2 : (forall y, In y l1 -> f y = false) -> f x = true ->
  find f (l1 ++ x :: l2) = Some x.
Proof.
  induction l1 as [|y l1 IH]; intros H Hx; cbn [app find]; [now rewrite Hx|].
  rewrite (H y) by now left. apply IH; [|exact Hx]. intros z Hz. apply H. now right.
Qed.

Section Defs.
Variable HO : hops.
Notation bytes := (bytes HO).
Notation hash := (hash HO).
Notation outboard := (outboard HO).

(* the recursive specification with the read check, at the root *)
Definition val_top_e (wd : bool) (ob : outboard) (d : bytes) (size bs : N) (q : ranges) : vres :=
  val_spec_e HO VFUEL wd ob d size bs (sel q size) 0 (sp_blocks size bs) (ob_root ob) true.

Lemma val_top_e_eq wd ob d size bs q :
  val_top_e wd ob d size bs q = val_spec_e HO VFUEL wd ob d size bs (sel q size) 0 (sp_blocks size bs) (ob_root ob) true.
Proof. reflexivity. Qed.

(* group ga stops the validator: touched, its chain of stored pairs verifies, and its bytes are not all in d *)
Definition grp_eof (ob : outboard) (d : bytes) (size bs : N) (q : ranges) (ga : N) : bool :=
  touchedb q size bs ga && grp_verdict HO false ob [] size bs ga && negb (grp_bend size bs ga <=? blen HO d).

(* what group ga reports when it can be read: as in C06_data_exact, on the first `size` bytes of d *)
Definition grp_rep (ob : outboard) (d : bytes) (size bs : N) (q : ranges) (ga : N) : list (N * N) :=
  if touchedb q size bs ga && grp_verdict HO true ob (take HO size d) size bs ga
  then [(grp_start bs ga, grp_end size bs ga)] else [].

End Defs.
Global Opaque val_top_e.

(* ------------------------------------------------------------------------------------------- *)
Section Exact.
Variable HO : hops.
Notation bytes := (bytes HO).
Notation hash := (hash HO).
Notation outboard := (outboard HO).

Variables (size bs : N) (q : ranges) (ob : outboard).
Hypothesis Hsize : size <= 2 ^ 63.
Hypothesis Hbs : bs <= 10.
Hypothesis Hwf : wf_ranges q = true.
Hypothesis Htree : ob_tree ob = mkTree size bs.
Hypothesis Hloads : loads_ok HO ob size bs.
Let B := sp_blocks size bs.

Lemma validate_top_e wd d : 2 <= B ->
  validate_rec HO VFUEL wd (mkTree size bs) (filled_of B) ob d (ob_root ob) (sid 0 B) true (truncate_ranges q size)
  = val_top_e HO wd ob d size bs q.
Proof.
  intros HB. rewrite val_top_e_eq. fold B.
  apply (validate_rec_spec_e HO size bs q Hsize Hbs Hwf ob d wd (fun s => In s (sh_pre VFUEL 0 B))) with (rm := true); try assumption.
  - intros s Hs. apply Hloads. unfold sp_pre_nodes. apply in_map. fold B.
    assert (HB1 : 1 <= B) by lia.
    rewrite (sh_pre_fuel 65 VFUEL 0 B HB1); [exact Hs| |apply (top_fuel size bs Hsize)].
    pose proof (root_fuel size bs Hsize) as H. exact H.
  - apply node_ok_root.
  - discriminate.
  - apply (top_fuel size bs Hsize).
  - apply rs_ok_root. apply RangeTrunc.truncate_wf. exact Hwf.
  - intros x Hx. exact Hx.
Qed.

(* B1, recursive form: any data file *)
Lemma short_data_spec d : 2 <= B -> valid_ranges HO ob d q = val_top_e HO true ob d size bs q.
Proof.
  intros HB. unfold valid_ranges. rewrite Htree, blocks_spec. fold B.
  destruct (N.eqb_spec B 1) as [E|_]; [lia|].
  rewrite shifted_eq. fold B. cbn [tsize]. apply validate_top_e. exact HB.
Qed.

Lemma grp_verdict_false_walk ga :
  grp_verdict HO false ob [] size bs ga =
  match chain_walk HO ob (top_path size bs ga) (ob_root ob) true with Some _ => true | None => false end.
Proof. unfold grp_verdict, grp_okb. destruct (chain_walk HO ob (top_path size bs ga) (ob_root ob) true); reflexivity. Qed.

Lemma grp_verdict_true_walk d ga :
  grp_verdict HO true ob d size bs ga =
  match chain_walk HO ob (top_path size bs ga) (ob_root ob) true with
  | Some h => bytes_eqb HO (hash_subtree HO (grp_start bs ga) (chunk_bytes HO d (grp_start bs ga) (grp_end size bs ga)) false) h
  | None => false end.
Proof. unfold grp_verdict, grp_okb. destruct (chain_walk HO ob (top_path size bs ga) (ob_root ob) true); reflexivity. Qed.

(* group by group: every group either stops with UnexpectedEof or reports as in C06_data_exact *)
Lemma val_top_e_groups d : 2 <= B ->
  val_top_e HO true ob d size bs q =
  vflat (fun ga => if grp_eof HO ob d size bs q ga then ([], Err KUnexpectedEof)
                   else (grp_rep HO ob d size bs q ga, Ok tt))
        (chunk_range_list 0 B).
Proof.
  intro HB. rewrite val_top_e_eq. fold B.
  rewrite (val_spec_e_groups HO size bs (sel q size) ob d true VFUEL 0 B (ob_root ob) true)
    by (lia || apply (top_fuel size bs Hsize)).
  rewrite N.add_0_l. apply vflat_ext_in. intros ga _.
  unfold grp_item_e, grp_eof, grp_rep. rewrite grp_verdict_false_walk, grp_verdict_true_walk.
  unfold B. rewrite <- (top_path_eq size bs ga). unfold touchedb.
  destruct (touchedn (sel q size) size bs ga 1); cbn [andb]; [|reflexivity].
  destruct (chain_walk HO ob (top_path size bs ga) (ob_root ob) true) as [h|]; cbn [andb]; [|reflexivity].
  unfold leaf_rep_e, leaf_rep. cbn [andb].
  destruct (grp_bend size bs ga <=? blen HO d); cbn [negb]; reflexivity.
Qed.

(* B1, flat form: the groups before the first stopping group *)
Lemma short_data_find d : 2 <= B ->
  valid_ranges HO ob d q =
  match find (grp_eof HO ob d size bs q) (chunk_range_list 0 B) with
  | None => (flat_map (grp_rep HO ob d size bs q) (chunk_range_list 0 B), Ok tt)
  | Some ga => (flat_map (grp_rep HO ob d size bs q) (chunk_range_list 0 ga), Err KUnexpectedEof)
  end.
Proof.
  intro HB. rewrite (short_data_spec d HB), (val_top_e_groups d HB).
  replace B with (0 + N.of_nat (N.to_nat B)) by lia.
  apply (vflat_find _ (grp_eof HO ob d size bs q) (grp_rep HO ob d size bs q) KUnexpectedEof).
  intro x. reflexivity.
Qed.

(* ... for a file not longer than the blob: the items of C06_data_exact on d itself *)
Lemma short_data_find_le d : blen HO d <= size -> 2 <= B ->
  valid_ranges HO ob d q =
  match find (grp_eof HO ob d size bs q) (chunk_range_list 0 B) with
  | None =>
      (flat_map (fun ga => if touchedb q size bs ga && grp_verdict HO true ob d size bs ga
                           then [(grp_start bs ga, grp_end size bs ga)] else [])
                (chunk_range_list 0 B), Ok tt)
  | Some ga =>
      (flat_map (fun ga => if touchedb q size bs ga && grp_verdict HO true ob d size bs ga
                           then [(grp_start bs ga, grp_end size bs ga)] else [])
                (chunk_range_list 0 ga), Err KUnexpectedEof)
  end.
Proof.
  intros Hd HB. rewrite (short_data_find d HB). unfold grp_rep. rewrite (ObBase.take_all HO size d Hd). reflexivity.
Qed.

Lemma grp_eof_iff d ga : 2 <= B ->
  grp_eof HO ob d size bs q ga = true <->
  touched q size bs ga /\ chain_ok HO ob size bs ga /\ blen HO d < grp_bend size bs ga.
Proof.
  intro HB. unfold grp_eof. rewrite !andb_true_iff, negb_true_iff, N.leb_gt.
  rewrite (touched_iff q size bs ga), (grp_verdict_iff HO size bs ob false [] ga HB).
  split; [intros [[T [C _]] L]|intros (T & C & L)]; repeat split; auto. discriminate.
Qed.

Lemma grp_rep_in d ga a e : 2 <= B ->
  In (a, e) (grp_rep HO ob d size bs q ga) <->
  a = grp_start bs ga /\ e = grp_end size bs ga /\
  touched q size bs ga /\ chain_ok HO ob size bs ga /\ leaf_ok HO (take HO size d) ob size bs ga.
Proof.
  intro HB. unfold grp_rep.
  destruct (touchedb q size bs ga && grp_verdict HO true ob (take HO size d) size bs ga) eqn:Ev.
  - apply andb_true_iff in Ev. destruct Ev as [T V]. apply touched_iff in T.
    apply (grp_verdict_iff HO size bs ob true (take HO size d) ga HB) in V. destruct V as [C L].
    split.
    + intros [H|[]]. injection H as <- <-. repeat split; auto.
    + intros (-> & -> & _). now left.
  - split; [intros []|]. intros (_ & _ & T & C & L). exfalso.
    apply touched_iff in T. rewrite T in Ev. cbn [andb] in Ev.
    rewrite (proj2 (grp_verdict_iff HO size bs ob true (take HO size d) ga HB) (conj C (fun _ => L))) in Ev. discriminate.
Qed.

(* no group stops: the complete list, Ok *)
Lemma short_data_ok d : 2 <= B -> (forall ga, ga < B -> grp_eof HO ob d size bs q ga = false) ->
  valid_ranges HO ob d q = (flat_map (grp_rep HO ob d size bs q) (chunk_range_list 0 B), Ok tt).
Proof.
  intros HB H. rewrite (short_data_find d HB), find_all_false; [reflexivity|].
  intros x Hx. apply crl_in in Hx. apply H. lia.
Qed.

(* ga is the first group that stops: the groups before ga, then UnexpectedEof *)
Lemma short_data_err d ga : 2 <= B -> ga < B -> grp_eof HO ob d size bs q ga = true ->
  (forall ga', ga' < ga -> grp_eof HO ob d size bs q ga' = false) ->
  valid_ranges HO ob d q = (flat_map (grp_rep HO ob d size bs q) (chunk_range_list 0 ga), Err KUnexpectedEof).
Proof.
  intros HB Hga He Hb. rewrite (short_data_find d HB).
  rewrite (crl_app 0 ga B) by lia. rewrite (crl_cons ga B) by lia.
  rewrite find_first; [reflexivity| |exact He].
  intros y Hy. apply crl_in in Hy. apply Hb. lia.
Qed.

(* the whole blob is inside d: nothing stops, and only the first `size` bytes of d are looked at *)
Lemma short_data_full d : 2 <= B -> size <= blen HO d ->
  valid_ranges HO ob d q =
  (flat_map (fun ga => if touchedb q size bs ga && grp_verdict HO true ob (take HO size d) size bs ga
                       then [(grp_start bs ga, grp_end size bs ga)] else [])
            (chunk_range_list 0 B), Ok tt).
Proof.
  intros HB Hd. rewrite (short_data_ok d HB); [reflexivity|].
  intros ga _. unfold grp_eof. pose proof (grp_bend_le size bs ga) as Hle.
  replace (grp_bend size bs ga <=? blen HO d) with true by (symmetry; apply N.leb_le; lia).
  cbn [negb]. apply andb_false_r.
Qed.

(* membership, any data file: reported = touched, chain verifies, readable, leaf verifies *)
Lemma short_data_member d a e : 2 <= B ->
  In (a, e) (fst (valid_ranges HO ob d q)) <->
  exists ga, ga < B /\ a = grp_start bs ga /\ e = grp_end size bs ga /\
             touched q size bs ga /\ chain_ok HO ob size bs ga /\
             grp_bend size bs ga <= blen HO d /\ leaf_ok HO (take HO size d) ob size bs ga.
Proof.
  intro HB. split.
  - rewrite (short_data_spec d HB), (val_top_e_groups d HB). intro Hin.
    apply vflat_in in Hin. destruct Hin as (ga & Hga & Hin). apply crl_in in Hga.
    destruct (grp_eof HO ob d size bs q ga) eqn:Ee; [destruct Hin|]. cbn [fst] in Hin.
    apply (grp_rep_in d ga a e HB) in Hin. destruct Hin as (-> & -> & T & C & L).
    exists ga. repeat split; auto; [lia|].
    destruct (N.le_gt_cases (grp_bend size bs ga) (blen HO d)) as [Hr|Hr]; [exact Hr|exfalso].
    rewrite (proj2 (grp_eof_iff d ga HB)) in Ee by auto. discriminate.
  - intros (ga & Hga & -> & -> & T & C & Hr & L).
    assert (Hrep : In (grp_start bs ga, grp_end size bs ga) (grp_rep HO ob d size bs q ga))
      by (apply (grp_rep_in d ga _ _ HB); auto).
    assert (Hbefore : forall gx, grp_eof HO ob d size bs q gx = true -> ga < gx).
    { intros gx Hx. apply (grp_eof_iff d gx HB) in Hx. destruct Hx as (_ & _ & Hx).
      destruct (N.lt_ge_cases ga gx) as [|Hle]; [assumption|exfalso].
      pose proof (grp_bend_mono size bs ga gx Hle). lia. }
    rewrite (short_data_find d HB).
    destruct (find (grp_eof HO ob d size bs q) (chunk_range_list 0 B)) as [gx|] eqn:Ef; cbn [fst].
    + apply find_some in Ef. destruct Ef as [_ Hx]. apply Hbefore in Hx.
      apply in_flat_map. exists ga. split; [apply crl_in; lia|exact Hrep].
    + apply in_flat_map. exists ga. split; [apply crl_in; lia|exact Hrep].
Qed.

(* B3: a single group *)
Lemma short_data_single d : B = 1 ->
  valid_ranges HO ob d q =
  if size <=? blen HO d
  then ((if bytes_eqb HO (hash_subtree HO 0 (take HO size d) true) (ob_root ob) then [(0, chunks size)] else []), Ok tt)
  else ([], Err KUnexpectedEof).
Proof. clear - Htree.
  intros HB. unfold valid_ranges. rewrite Htree, blocks_spec. fold B. rewrite HB. cbn [N.eqb Pos.eqb tsize].
  unfold read_exact_at, slice. rewrite ObBase.drop_0, ObBase.blen_take.
  destruct (N.leb_spec size (blen HO d)) as [L|L].
  - replace (N.min size (blen HO d) =? size) with true by (symmetry; apply N.eqb_eq; lia). reflexivity.
  - replace (N.min size (blen HO d) =? size) with false by (symmetry; apply N.eqb_neq; lia). reflexivity.
Qed.

Lemma short_data_single_lt d : B = 1 -> blen HO d < size -> valid_ranges HO ob d q = ([], Err KUnexpectedEof).
Proof. clear - Htree.
  intros HB Hd. rewrite (short_data_single d HB).
  replace (size <=? blen HO d) with false by (symmetry; apply N.leb_gt; exact Hd). reflexivity.
Qed.

(* a data file longer than the blob is read inside [0, size) only *)
Lemma long_data d : size <= blen HO d -> valid_ranges HO ob d q = valid_ranges HO ob (take HO size d) q.
Proof.
  intro Hd. assert (Hl : blen HO (take HO size d) = size) by (rewrite ObBase.blen_take; lia).
  destruct (N.le_gt_cases 2 B) as [HB|HB].
  - rewrite (short_data_full d HB Hd).
    rewrite (data_exact_groups HO size bs q ob Hsize Hbs Hwf Htree Hloads (take HO size d) Hl HB). reflexivity.
  - assert (HB1 : B = 1) by (unfold B, sp_blocks in *; lia).
    rewrite (short_data_single d HB1), (data_single HO size bs q ob Htree (take HO size d) Hl HB1).
    replace (size <=? blen HO d) with true by (symmetry; apply N.leb_le; exact Hd). reflexivity.
Qed.

End Exact.

(* ------------------------------------------------------------------------------------------- *)
Section Sound.
Variable HO : hops.
Hypothesis HOK : hash_ok HO.
Notation bytes := (bytes HO).
Notation hash := (hash HO).
Notation outboard := (outboard HO).

Variable data : bytes.
Variable bs : N.
Variable ob : outboard.
Hypothesis Hsize : blen HO data <= 2 ^ 63.
Hypothesis Hbs : bs <= 10.
Hypothesis Hroot : ob_root ob = root_hash HO data.

Let size := blen HO data.
Let B := sp_blocks size bs.

(* leaf_ok_true for a stored file that holds the group's bytes (it may be shorter than the blob) *)
Lemma leaf_ok_true_rd d ga : ga < B -> blen HO d <= size -> grp_bend size bs ga <= blen HO d ->
  chain_ok HO ob size bs ga -> leaf_ok HO d ob size bs ga ->
  chunk_bytes HO d (grp_start bs ga) (grp_end size bs ga) = chunk_bytes HO data (grp_start bs ga) (grp_end size bs ga).
Proof.
  intros Hga Hd Hr C (h & O & Hq). destruct (chain_ok_walk HO ob size bs ga C) as [h' Hw].
  destruct (top_walk_sound HO HOK data bs ob Hsize Hbs Hroot ga h' Hga Hw) as [E _].
  apply chain_walk_iff in Hw. destruct Hw as [_ O']. rewrite O in O'. injection O' as ->.
  unfold heq in Hq. apply (bytes_eqb_eq HO HOK) in Hq. fold size in E. fold B in Hq. fold B in E. rewrite E in Hq.
  rewrite (cv_hash_subtree_inside HO data) in Hq by (apply (grp_end_le HO data bs Hsize Hbs) || exact Hsize).
  pose proof (BridgeBase.blen_chunk_bytes HO d (grp_start bs ga) (grp_end size bs ga)) as L1.
  pose proof (BridgeBase.blen_chunk_bytes HO data (grp_start bs ga) (grp_end size bs ga)) as L2.
  fold size in L2.
  apply (hash_subtree_inj HO HOK) in Hq; [exact Hq| |].
  - unfold leaf_len_ok. rewrite L1. fold size in Hsize.
    change (2 ^ 63) with 9223372036854775808 in *. lia.
  - pose proof (nchunks_bounds size) as (N1 & N2 & N3).
    unfold grp_bend in Hr. unfold grp_start, grp_end in *.
    set (X := (ga + 1) * 2 ^ bs) in *. set (a := ga * 2 ^ bs) in *. set (nc := nchunks size) in *.
    assert (Ha : a <= X) by (unfold a, X; pose proof (pow2_pos bs); nia).
    unfold blen in *. lia.
Qed.

Variable q : ranges.
Hypothesis Hwf : wf_ranges q = true.
Hypothesis Htree : ob_tree ob = mkTree size bs.
Hypothesis Hloads : loads_ok HO ob size bs.

(* B2: soundness for a data file of any length *)
Lemma short_reported_is_true d a e : 2 <= B ->
  In (a, e) (fst (valid_ranges HO ob d q)) ->
  chunk_bytes HO (take HO size d) a e = chunk_bytes HO data a e /\
  exists ga, ga < B /\ a = grp_start bs ga /\ e = grp_end size bs ga /\ grp_bend size bs ga <= blen HO d /\
             path_true HO data bs ob ga.
Proof.
  intros HB Hin. apply (short_data_member HO size bs q ob Hsize Hbs Hwf Htree Hloads d a e HB) in Hin.
  destruct Hin as (ga & Hga & -> & -> & _ & C & Hr & L). split.
  - apply leaf_ok_true_rd; auto.
    + rewrite ObBase.blen_take. lia.
    + rewrite ObBase.blen_take. pose proof (grp_bend_le size bs ga). lia.
  - exists ga. repeat split; auto. apply (chain_ok_true HO HOK data bs ob Hsize Hbs Hroot ga Hga C).
Qed.

(* ... in particular on a file not longer than the blob the reported ranges hold the blob's bytes *)
Lemma short_reported_is_true_le d a e : blen HO d <= size -> 2 <= B ->
  In (a, e) (fst (valid_ranges HO ob d q)) ->
  chunk_bytes HO d a e = chunk_bytes HO data a e /\
  exists ga, ga < B /\ a = grp_start bs ga /\ e = grp_end size bs ga /\ grp_bend size bs ga <= blen HO d /\
             path_true HO data bs ob ga.
Proof.
  intros Hd HB Hin. pose proof (short_reported_is_true d a e HB Hin) as H.
  rewrite ObBase.take_all in H by exact Hd. exact H.
Qed.

(* completeness: a touched group with a true path whose bytes are in the file and true is reported *)
Lemma short_valid_is_reported d ga : 2 <= B -> ga < B ->
  touched q size bs ga -> path_true HO data bs ob ga -> grp_bend size bs ga <= blen HO d ->
  chunk_bytes HO (take HO size d) (grp_start bs ga) (grp_end size bs ga)
  = chunk_bytes HO data (grp_start bs ga) (grp_end size bs ga) ->
  In (grp_start bs ga, grp_end size bs ga) (fst (valid_ranges HO ob d q)).
Proof.
  intros HB Hga T P Hr Hb. apply (short_data_member HO size bs q ob Hsize Hbs Hwf Htree Hloads d _ _ HB).
  exists ga. repeat split; auto.
  - apply (true_chain_ok HO HOK data bs ob Hsize Hbs Hroot ga Hga P).
  - apply (true_leaf_ok HO HOK data bs ob Hsize Hbs Hroot (take HO size d) ga Hga P Hb).
Qed.

(* single group: anything reported means the first `size` bytes of the file are the blob *)
Lemma short_single_reported_is_true d : B = 1 ->
  fst (valid_ranges HO ob d q) <> [] -> size <= blen HO d /\ take HO size d = data.
Proof.
  intros HB. rewrite (short_data_single HO size bs q ob Htree d HB).
  destruct (N.leb_spec size (blen HO d)) as [L|L]; [|intro H; exfalso; apply H; reflexivity].
  intro H. split; [exact L|].
  assert (Hl : blen HO (take HO size d) = size) by (rewrite ObBase.blen_take; lia).
  apply (single_reported_is_true HO HOK data bs ob Hsize Hbs Hroot q Htree (take HO size d) Hl HB).
  rewrite (data_single HO size bs q ob Htree (take HO size d) Hl HB). exact H.
Qed.

End Sound.

Print Assumptions short_data_spec.
Print Assumptions short_data_find.
Print Assumptions short_data_find_le.
Print Assumptions short_data_member.
Print Assumptions short_reported_is_true.
Print Assumptions short_valid_is_reported.
Print Assumptions long_data.
