(* Gap audit (C01 / C09): witnesses for what polling a decoder AGAIN after an error can do, computed
   in the free term algebra instance of the hash interface (which satisfies hash_ok: no collisions).
   - F7  (fsm):  after a ParentHashMismatch the children named by the rejected pair stay on the stack:
                 the next polls hand out foreign leaf data as Ok;
   - F8  (sync): after a ParentHashMismatch the next poll panics (empty stack);
   - F7' (sync): after a ParentHashMismatch of an inner node the iterator can also hand out a foreign
                 PARENT item as Ok (the true pair of another node, under a wrong node id) before it panics;
   - io:         both reader-based decoders (Model/IOSched.v) polled again after an io error of the
                 transport report a spurious hash mismatch and then panic. *)
From BaoV Require Import Model.Fsm Model.IOSched Spec.RangeSpec Spec.EncSpec Spec.HashAssm Spec.PTree.
From BaoV Require Import Proofs.DecLoop Proofs.DecWitness Proofs.GapPolls.
From Coq Require Import Lia Arith.
Open Scope N_scope.

(* ---------- polling by computation ---------- *)
Section PollFun.
Variable HO : hops.
Notation rsl := (res dec_err (item HO)).

Fixpoint dec_poll_fun (n : nat) (st : dstate HO) : list rsl * dstate HO :=
  match n with
  | O => ([], st)
  | S n' => match dec_next HO st with
            | None => ([], st)
            | Some (r, st1) => (r :: fst (dec_poll_fun n' st1), snd (dec_poll_fun n' st1))
            end
  end.
Fixpoint rd_poll_fun (n : nat) (st : rstate HO) : list rsl * rstate HO :=
  match n with
  | O => ([], st)
  | S n' => match rd_next HO st with
            | RDone _ => ([], st)
            | RMore st1 r => (r :: fst (rd_poll_fun n' st1), snd (rd_poll_fun n' st1))
            end
  end.
Lemma dec_poll_fun_polls : forall n st, dec_polls HO st (fst (dec_poll_fun n st)) (snd (dec_poll_fun n st)).
Proof.
  induction n as [|n IH]; intros st; cbn [dec_poll_fun]; [constructor|].
  destruct (dec_next HO st) as [[r st1]|] eqn:E; [|constructor].
  cbn [fst snd]. econstructor; [exact E|apply IH].
Qed.
Lemma rd_poll_fun_polls : forall n st, rd_polls HO st (fst (rd_poll_fun n st)) (snd (rd_poll_fun n st)).
Proof.
  induction n as [|n IH]; intros st; cbn [rd_poll_fun]; [constructor|].
  destruct (rd_next HO st) as [st1 r|rd] eqn:E; [|constructor].
  cbn [fst snd]. econstructor; [exact E|apply IH].
Qed.

(* polls of the reader-based decoders of Model/IOSched.v *)
Inductive dec_polls_r : dstate_r HO -> list rsl -> dstate_r HO -> Prop :=
| dec_polls_r_nil : forall st, dec_polls_r st [] st
| dec_polls_r_cons : forall st r st1 tr st', dec_next_r HO st = Some (r, st1) -> dec_polls_r st1 tr st' ->
    dec_polls_r st (r :: tr) st'.
Inductive rd_polls_r : rstate_r HO -> list rsl -> rstate_r HO -> Prop :=
| rd_polls_r_nil : forall st, rd_polls_r st [] st
| rd_polls_r_cons : forall st r st1 tr st', rd_next_r HO st = Some (r, st1) -> rd_polls_r st1 tr st' ->
    rd_polls_r st (r :: tr) st'.
Fixpoint dec_poll_fun_r (n : nat) (st : dstate_r HO) : list rsl * dstate_r HO :=
  match n with
  | O => ([], st)
  | S n' => match dec_next_r HO st with
            | None => ([], st)
            | Some (r, st1) => (r :: fst (dec_poll_fun_r n' st1), snd (dec_poll_fun_r n' st1))
            end
  end.
Fixpoint rd_poll_fun_r (n : nat) (st : rstate_r HO) : list rsl * rstate_r HO :=
  match n with
  | O => ([], st)
  | S n' => match rd_next_r HO st with
            | None => ([], st)
            | Some (r, st1) => (r :: fst (rd_poll_fun_r n' st1), snd (rd_poll_fun_r n' st1))
            end
  end.
Lemma dec_poll_fun_r_polls : forall n st, dec_polls_r st (fst (dec_poll_fun_r n st)) (snd (dec_poll_fun_r n st)).
Proof.
  induction n as [|n IH]; intros st; cbn [dec_poll_fun_r]; [constructor|].
  destruct (dec_next_r HO st) as [[r st1]|] eqn:E; [|constructor].
  cbn [fst snd]. econstructor; [exact E|apply IH].
Qed.
Lemma rd_poll_fun_r_polls : forall n st, rd_polls_r st (fst (rd_poll_fun_r n st)) (snd (rd_poll_fun_r n st)).
Proof.
  induction n as [|n IH]; intros st; cbn [rd_poll_fun_r]; [constructor|].
  destruct (rd_next_r HO st) as [[r st1]|] eqn:E; [|constructor].
  cbn [fst snd]. econstructor; [exact E|apply IH].
Qed.
End PollFun.

Lemma combine_seq_nth {A} : forall (lst : list A) k base i, nth_error lst k = Some i ->
  nth_error (combine (seq base (length lst)) lst) k = Some ((base + k)%nat, i).
Proof.
  induction lst as [|a lst IH]; intros k base i Hn; destruct k; cbn in *; try discriminate.
  - injection Hn as <-. now rewrite Nat.add_0_r.
  - rewrite (IH _ (S base) _ Hn). f_equal. f_equal. lia.
Qed.

(* ---------- the concrete instances ---------- *)
Notation H := term_hops.
Definition b0 : B H := TZ.
Definition b1 : B H := TC 7 [] false.
Definition q_all : ranges := [0].

(* a blob of two chunks of b0, and a foreign blob of two chunks of b1 *)
Definition data2 : bytes H := repeat b0 2048.
Definition evil2 : bytes H := repeat b1 2048.
Definition evil_leaf : bytes H := repeat b1 1024.
(* the pair of the FOREIGN blob followed by its two chunks *)
Definition evil_stream2 : bytes H :=
  hash_subtree H 0 (firstn 1024 evil2) false ++ hash_subtree H 1 (skipn 1024 evil2) false ++ evil2.

Lemma bounds2 : blen H data2 <= 2 ^ 63 /\ 0 <= 10 /\ wf_ranges q_all = true.
Proof. split; [vm_compute; discriminate|]. split; [lia|reflexivity]. Qed.

(* F7 *)
Theorem fsm_repoll_foreign_leaf :
  exists HO, hash_ok HO /\
  exists (data stream : bytes HO) (bs : N) (q : ranges) tr st (n off : N) (d : bytes HO),
    blen HO data <= 2 ^ 63 /\ bs <= 10 /\ wf_ranges q = true /\
    rd_polls HO (rd_new HO (root_hash HO data) q (mkTree (blen HO data) bs) stream) tr st /\
    nth_error tr 0 = Some (Err (DParentHashMismatch n)) /\
    nth_error tr 1 = Some (Ok (ILeaf off d)) /\
    nth_error (honest HO data bs q) 1 <> Some (ILeaf off d) /\
    d <> take HO (blen HO d) (drop HO off data).
Proof.
  exists H. split; [exact term_hops_ok|].
  pose (st0 := rd_new H (root_hash H data2) q_all (mkTree (blen H data2) 0) evil_stream2).
  exists data2, evil_stream2, 0, q_all, (fst (rd_poll_fun H 3 st0)), (snd (rd_poll_fun H 3 st0)), 0, 0, evil_leaf.
  destruct bounds2 as (B1 & B2 & B3).
  split; [exact B1|]. split; [exact B2|]. split; [exact B3|].
  split; [apply rd_poll_fun_polls|].
  split; [vm_compute; reflexivity|]. split; [vm_compute; reflexivity|]. split.
  - intro E. apply (f_equal (fun o => match o with Some (ILeaf _ (x :: _)) => Some x | _ => None end)) in E.
    vm_compute in E. discriminate.
  - intro E. apply (f_equal (fun l => nth_error l 0)) in E. vm_compute in E. discriminate.
Qed.

(* F8 *)
Theorem sync_repoll_panics :
  exists HO, hash_ok HO /\
  exists (data stream : bytes HO) (bs : N) (q : ranges) tr st (n : N),
    blen HO data <= 2 ^ 63 /\ bs <= 10 /\ wf_ranges q = true /\
    dec_polls HO (dec_new HO (root_hash HO data) (mkTree (blen HO data) bs) stream q) tr st /\
    nth_error tr 0 = Some (Err (DParentHashMismatch n)) /\
    nth_error tr 1 = Some Panic.
Proof.
  exists H. split; [exact term_hops_ok|].
  pose (st0 := dec_new H (root_hash H data2) (mkTree (blen H data2) 0) evil_stream2 q_all).
  exists data2, evil_stream2, 0, q_all, (fst (dec_poll_fun H 2 st0)), (snd (dec_poll_fun H 2 st0)), 0.
  destruct bounds2 as (B1 & B2 & B3).
  split; [exact B1|]. split; [exact B2|]. split; [exact B3|].
  split; [apply dec_poll_fun_polls|].
  split; vm_compute; reflexivity.
Qed.

(* F7': a blob of eight chunks; the stream carries the honest root pair, 64 bytes of garbage in place
   of the pair of node 1, and then the honest pair of node 5 *)
Definition data8 : bytes H := repeat b0 8192.
Definition hon8 := honest H data8 0 q_all.
Definition item8 (k : nat) : item H := nth k hon8 (ILeaf 0 []).
Definition stream8 : bytes H := item_bytes H (item8 0) ++ repeat b1 64 ++ item_bytes H (item8 8).
Definition is_parent_of (n : N) (i : item H) : bool := match i with IParent n' _ _ => n =? n' | _ => false end.

Definition hd_is (x : term) (i : item H) : bool := match i with IParent _ (y :: _) _ => teqb y x | _ => false end.
Lemma bounds8 : blen H data8 <= 2 ^ 63 /\ 0 <= 10 /\ wf_ranges q_all = true.
Proof. split; [vm_compute; discriminate|]. split; [lia|reflexivity]. Qed.

Theorem sync_repoll_foreign_parent :
  exists HO, hash_ok HO /\
  exists (data stream : bytes HO) (bs : N) (q : ranges) tr st (n n' m : N) (l r : hash HO),
    blen HO data <= 2 ^ 63 /\ bs <= 10 /\ wf_ranges q = true /\
    dec_polls HO (dec_new HO (root_hash HO data) (mkTree (blen HO data) bs) stream q) tr st /\
    nth_error tr 1 = Some (Err (DParentHashMismatch n)) /\
    nth_error tr 2 = Some (Ok (IParent n' l r)) /\
    (* the pair handed out for node n' is the honest pair of ANOTHER node m, not that of n' *)
    In (IParent m l r) (honest HO data bs q) /\ m <> n' /\
    (forall l' r', In (IParent n' l' r') (honest HO data bs q) -> l' <> l).
Proof.
  exists H. split; [exact term_hops_ok|].
  pose (st0 := dec_new H (root_hash H data8) (mkTree (blen H data8) 0) stream8 q_all).
  pose (p := match item8 8 with IParent _ l r => (l, r) | _ => ([], []) end).
  exists data8, stream8, 0, q_all, (fst (dec_poll_fun H 3 st0)), (snd (dec_poll_fun H 3 st0)), 1, 0, 5, (fst p), (snd p).
  destruct bounds8 as (B1 & B2 & B3).
  (split; [exact B1|]). (split; [exact B2|]). (split; [exact B3|]).
  (split; [apply dec_poll_fun_polls|]).
  (split; [vm_compute; reflexivity|]).
  (split; [vm_compute; reflexivity|]).
  (split; [|split; [discriminate|]]).
  - assert (E : nth_error (honest H data8 0 q_all) 8 = Some (IParent 5 (fst p) (snd p))) by (vm_compute; reflexivity).
    (eapply nth_error_In; exact E).
  - intros l' r' Hin El. subst l'.
    pose (x0 := hd TZ (fst p)).
    assert (F : forallb (fun i => negb (is_parent_of 0 i && hd_is x0 i)) (honest H data8 0 q_all) = true)
      by (vm_compute; reflexivity).
    rewrite forallb_forall in F. specialize (F _ Hin).
    assert (Ep : fst p = x0 :: tl (fst p)) by (vm_compute; reflexivity).
    rewrite Ep in F. cbn [is_parent_of hd_is] in F.
    rewrite (proj2 (teqb_spec x0 x0) eq_refl) in F. discriminate F.
Qed.

(* io errors: the honest stream behind a transport whose first read call fails with a (non-EOF,
   non-Interrupted) error and which works again afterwards *)
Definition hon2 := honest H data2 0 q_all.
Definition flaky : reader H := mkRd H (flat H hon2) [] 0 (Some (0, KOther)).

Theorem sync_repoll_after_io_error :
  exists HO, hash_ok HO /\
  exists (data : bytes HO) (bs : N) (q : ranges) (rd : reader HO) tr st (c : N),
    blen HO data <= 2 ^ 63 /\ bs <= 10 /\ wf_ranges q = true /\
    rd_rest HO rd = flat HO (honest HO data bs q) /\
    dec_polls_r HO (dec_new_r HO (root_hash HO data) (mkTree (blen HO data) bs) rd q) tr st /\
    tr = [Err (DIo KOther); Err (DLeafHashMismatch c); Panic].
Proof.
  exists H. split; [exact term_hops_ok|].
  pose (st0 := dec_new_r H (root_hash H data2) (mkTree (blen H data2) 0) flaky q_all).
  exists data2, 0, q_all, flaky, (fst (dec_poll_fun_r H 3 st0)), (snd (dec_poll_fun_r H 3 st0)), 0.
  destruct bounds2 as (B1 & B2 & B3).
  split; [exact B1|]. split; [exact B2|]. split; [exact B3|].
  split; [vm_compute; reflexivity|]. split; [apply dec_poll_fun_r_polls|].
  vm_compute. reflexivity.
Qed.

Theorem fsm_repoll_after_io_error :
  exists HO, hash_ok HO /\
  exists (data : bytes HO) (bs : N) (q : ranges) (rd : reader HO) tr st (c : N),
    blen HO data <= 2 ^ 63 /\ bs <= 10 /\ wf_ranges q = true /\
    rd_rest HO rd = flat HO (honest HO data bs q) /\
    rd_polls_r HO (rd_new_r HO (root_hash HO data) q (mkTree (blen HO data) bs) rd) tr st /\
    tr = [Err (DIo KOther); Err (DLeafHashMismatch c); Panic].
Proof.
  exists H. split; [exact term_hops_ok|].
  pose (st0 := rd_new_r H (root_hash H data2) q_all (mkTree (blen H data2) 0) flaky).
  exists data2, 0, q_all, flaky, (fst (rd_poll_fun_r H 3 st0)), (snd (rd_poll_fun_r H 3 st0)), 0.
  destruct bounds2 as (B1 & B2 & B3).
  split; [exact B1|]. split; [exact B2|]. split; [exact B3|].
  split; [vm_compute; reflexivity|]. split; [apply rd_poll_fun_r_polls|].
  vm_compute. reflexivity.
Qed.
