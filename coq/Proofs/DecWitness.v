(* Non-vacuity of the hash assumptions: a free term algebra instance of `hops` satisfies hash_ok. *)
From BaoV Require Import Model.Hash Spec.HashAssm.
From Coq Require Import Lia Arith.

Inductive term :=
| TZ
| TC (c : N) (d : list term) (f : bool)
| TP (l r : list term) (f : bool).

Fixpoint teqb (a b : term) {struct a} : bool :=
  let leqb := fix leqb (x y : list term) {struct x} : bool :=
    match x, y with
    | [], [] => true
    | p :: x', q :: y' => teqb p q && leqb x' y'
    | _, _ => false
    end in
  match a, b with
  | TZ, TZ => true
  | TC c d f, TC c' d' f' => (c =? c') && Bool.eqb f f' && leqb d d'
  | TP l r f, TP l' r' f' => Bool.eqb f f' && leqb l l' && leqb r r'
  | _, _ => false
  end.

Fixpoint tleqb (x y : list term) : bool :=
  match x, y with
  | [], [] => true
  | p :: x', q :: y' => teqb p q && tleqb x' y'
  | _, _ => false
  end.

Fixpoint tm_size (t : term) : nat :=
  match t with
  | TZ => 1
  | TC _ d _ => S (fold_right (fun x a => tm_size x + a) 0 d)
  | TP l r _ => S (fold_right (fun x a => tm_size x + a) 0 l + fold_right (fun x a => tm_size x + a) 0 r)
  end%nat.
Definition tl_size (l : list term) : nat := fold_right (fun x a => (tm_size x + a)%nat) 0%nat l.

Lemma tm_size_TC : forall c d f, tm_size (TC c d f) = S (tl_size d).
Proof. reflexivity. Qed.
Lemma tm_size_TP : forall l r f, tm_size (TP l r f) = S (tl_size l + tl_size r).
Proof. reflexivity. Qed.
Lemma tl_size_cons : forall p x, tl_size (p :: x) = (tm_size p + tl_size x)%nat.
Proof. reflexivity. Qed.
Lemma tm_size_pos : forall p, (1 <= tm_size p)%nat.
Proof. destruct p; cbn; lia. Qed.

Lemma teqb_TC : forall c d f c' d' f',
  teqb (TC c d f) (TC c' d' f') = (c =? c') && Bool.eqb f f' && tleqb d d'.
Proof. reflexivity. Qed.
Lemma teqb_TP : forall l r f l' r' f',
  teqb (TP l r f) (TP l' r' f') = Bool.eqb f f' && tleqb l l' && tleqb r r'.
Proof. reflexivity. Qed.

Lemma teqb_spec_n : forall n,
  (forall a b, (tm_size a <= n)%nat -> (teqb a b = true <-> a = b)) /\
  (forall x y, (tl_size x <= n)%nat -> (tleqb x y = true <-> x = y)).
Proof.
  induction n as [|n [IHt IHl]].
  - split.
    + intros a b H. destruct a; cbn in H; lia.
    + intros x y H. destruct x as [|p x].
      * destruct y; cbn; split; intros; try discriminate; reflexivity.
      * exfalso. rewrite tl_size_cons in H. pose proof (tm_size_pos p). lia.
  - assert (Ht : forall a b, (tm_size a <= S n)%nat -> (teqb a b = true <-> a = b)).
    { intros a b H. destruct a as [|c d f|l r f], b as [|c' d' f'|l' r' f'];
        try (cbn; split; intros; (discriminate || reflexivity)).
      - rewrite teqb_TC. rewrite tm_size_TC in H.
        rewrite !andb_true_iff, N.eqb_eq, eqb_true_iff, (IHl d d') by lia.
        split; [intros [[-> ->] ->]; reflexivity|intros [= -> -> ->]; auto].
      - rewrite teqb_TP. rewrite tm_size_TP in H.
        rewrite !andb_true_iff, eqb_true_iff, (IHl l l'), (IHl r r') by lia.
        split; [intros [[-> ->] ->]; reflexivity|intros [= -> -> ->]; auto]. }
    split; [exact Ht|].
    induction x as [|p x IHx]; intros y H.
    + destruct y; cbn; split; intros; try discriminate; reflexivity.
    + destruct y as [|q y]; [cbn; split; intros; discriminate|].
      cbn [tleqb]. rewrite tl_size_cons in H.
      pose proof (tm_size_pos p).
      rewrite andb_true_iff, (Ht p q), (IHx y) by lia.
      split; [intros [-> ->]; reflexivity|intros [= -> ->]; auto].
Qed.

Lemma teqb_spec : forall a b, teqb a b = true <-> a = b.
Proof. intros a b. apply (proj1 (teqb_spec_n (tm_size a))). lia. Qed.

Definition term_hops : hops :=
  mkHops term teqb TZ
         (fun c d f => TC c d f :: repeat TZ 31)
         (fun l r f => TP l r f :: repeat TZ 31).

Theorem term_hops_ok : hash_ok term_hops.
Proof.
  constructor.
  - intros i j _ _ H. destruct i, j; cbn in H; injection H; intros; subst; reflexivity || discriminate.
  - intros i _. destruct i; reflexivity.
  - intros a b. apply teqb_spec.
Qed.

Theorem hash_ok_inhabited : exists HO, hash_ok HO.
Proof. exists term_hops. exact term_hops_ok. Qed.
