(* Shared foundations for the chunk-plan proofs (C15): next_pow2 / capacity arithmetic, the node
   invariant of the recursive plans and its preservation by the children, blob geometry in chunks. *)
From BaoV Require Import Model.Iter Spec.PlanSpec Spec.PlanWf Proofs.NodeLevel Proofs.NodeBits Proofs.NodeAlgebra.
From Coq Require Import ZArith Lia.
Open Scope N_scope.
Arguments N.add : simpl never.
Arguments N.sub : simpl never.
Arguments N.mul : simpl never.
Arguments N.pow : simpl never.
Arguments N.shiftl : simpl never.
Arguments N.shiftr : simpl never.
Arguments N.land : simpl never.
Arguments N.div : simpl never.
Arguments N.modulo : simpl never.
Arguments N.log2 : simpl never.
Arguments N.min : simpl never.
Arguments N.max : simpl never.
Ltac Zify.zify_post_hook ::= Z.to_euclidean_division_equations.

(* ---- next_pow2 ---- *)
Lemma pow2_lt_mono a b : a < b -> 2 ^ a < 2 ^ b.
Proof. intro H. apply N.pow_lt_mono_r; lia. Qed.
Lemma pow2_le_mono a b : a <= b -> 2 ^ a <= 2 ^ b.
Proof. intro H. apply N.pow_le_mono_r; lia. Qed.
Lemma pow2_lt_inv a b : 2 ^ a < 2 ^ b -> a < b.
Proof. intro H. apply (N.pow_lt_mono_r_iff 2); [lia|assumption]. Qed.
Lemma pow2_le_inv a b : 2 ^ a <= 2 ^ b -> a <= b.
Proof. intro H. apply (N.pow_le_mono_r_iff 2); [lia|assumption]. Qed.

Lemma next_pow2_spec n : 1 <= n -> exists k, next_pow2 n = 2 ^ k /\ n <= 2 ^ k /\ 2 ^ k < 2 * n.
Proof.
  intro H. destruct n as [|p]; [lia|]. unfold next_pow2. set (n := N.pos p) in *.
  destruct (N.log2_spec n ltac:(lia)) as [L1 L2]. rewrite N.pow_succ_r' in L2.
  destruct (N.eqb_spec n (2 ^ N.log2 n)) as [Q|Q].
  - exists (N.log2 n). rewrite <- Q. lia.
  - exists (N.succ (N.log2 n)). rewrite N.pow_succ_r'. lia.
Qed.

Lemma pow2_window_unique n k j : n <= 2 ^ k -> 2 ^ k < 2 * n -> n <= 2 ^ j -> 2 ^ j < 2 * n -> k = j.
Proof.
  intros A B C D.
  assert (2 ^ k < 2 ^ (j + 1)) by (rewrite pow2_succ; lia).
  assert (2 ^ j < 2 ^ (k + 1)) by (rewrite pow2_succ; lia).
  apply pow2_lt_inv in H. apply pow2_lt_inv in H0. lia.
Qed.

Lemma next_pow2_unique n k : n <= 2 ^ k -> 2 ^ k < 2 * n -> next_pow2 n = 2 ^ k.
Proof.
  intros A B. pose proof (pow2_pos k).
  destruct (next_pow2_spec n ltac:(lia)) as (j & -> & C & D). f_equal.
  eapply pow2_window_unique; eauto.
Qed.

Lemma next_pow2_pow2 k : next_pow2 (2 ^ k) = 2 ^ k.
Proof. pose proof (pow2_pos k). apply next_pow2_unique; lia. Qed.

Lemma next_pow2_le n k : n <= 2 ^ k -> next_pow2 n <= 2 ^ k.
Proof.
  intro H. destruct (N.eq_dec n 0) as [->|Hn]; [pose proof (pow2_pos k); cbn; lia|].
  destruct (next_pow2_spec n ltac:(lia)) as (j & -> & C & D).
  apply pow2_le_mono. assert (2 ^ j < 2 ^ (k + 1)) by (rewrite pow2_succ; lia).
  apply pow2_lt_inv in H0. lia.
Qed.

(* ---- capacity of the node over n in-blob groups ---- *)
Definition capof (n : N) : N := if n <=? 2 then 2 else next_pow2 n.
(* exponent: capof n = 2 ^ (cexp n + 1) *)
Definition cexp (n : N) : N := N.log2 (capof n) - 1.

Lemma capof_spec n : 1 <= n -> exists k, capof n = 2 ^ (k + 1) /\ n <= capof n /\ (3 <= n -> capof n < 2 * n).
Proof.
  intro H. unfold capof. destruct (N.leb_spec n 2) as [L|L].
  - exists 0. split; [reflexivity|]. split; lia.
  - destruct (next_pow2_spec n H) as (k & -> & A & B).
    destruct (N.eq_dec k 0) as [->|Hk]; [rewrite N.pow_0_r in A; lia|].
    exists (k - 1). replace (k - 1 + 1) with k by lia. split; [reflexivity|]. split; lia.
Qed.

Lemma capof_pow2 n : 1 <= n -> capof n = 2 ^ (cexp n + 1).
Proof.
  intro H. destruct (capof_spec n H) as (k & E & _). unfold cexp. rewrite E.
  rewrite N.log2_pow2 by lia. f_equal. lia.
Qed.

Lemma capof_small n : n <= 2 -> capof n = 2.
Proof. intro H. unfold capof. destruct (N.leb_spec n 2); [reflexivity|lia]. Qed.

Lemma capof_self k : capof (2 ^ (k + 1)) = 2 ^ (k + 1).
Proof.
  unfold capof. destruct (N.leb_spec (2 ^ (k + 1)) 2) as [L|L]; [|apply next_pow2_pow2].
  rewrite pow2_succ in *. pose proof (pow2_pos k). lia.
Qed.

Lemma capof_le n k : n <= 2 ^ (k + 1) -> capof n <= 2 ^ (k + 1).
Proof.
  intro H. unfold capof. destruct (N.leb_spec n 2) as [L|L]; [|now apply next_pow2_le].
  rewrite pow2_succ. pose proof (pow2_pos k). lia.
Qed.

Lemma capof_eq2 n : 1 <= n -> (capof n =? 2) = (n <=? 2).
Proof.
  intro H. destruct (capof_spec n H) as (k & E & A & B).
  destruct (N.leb_spec n 2) as [L|L].
  - rewrite capof_small by assumption. reflexivity.
  - apply N.eqb_neq. lia.
Qed.

(* the data of an inner node: n >= 3 groups, capacity 2*half with half = 2^(k+1) *)
Lemma capof_inner n : 3 <= n ->
  exists k, capof n = 2 ^ (k + 2) /\ capof n / 2 = 2 ^ (k + 1) /\
            2 ^ (k + 1) < n /\ n <= 2 ^ (k + 2) /\
            capof (2 ^ (k + 1)) = 2 ^ (k + 1) /\ capof (n - 2 ^ (k + 1)) <= 2 ^ (k + 1).
Proof.
  intro H. destruct (capof_spec n ltac:(lia)) as (k & E & A & B). specialize (B H).
  destruct (N.eq_dec k 0) as [->|Hk]; [change (2 ^ (0 + 1)) with 2 in E; lia|].
  exists (k - 1). replace (k - 1 + 2) with (k + 1) by lia. replace (k - 1 + 1) with k by lia.
  rewrite E in *. rewrite pow2_succ in *.
  split; [reflexivity|]. split; [lia|]. split; [lia|]. split; [lia|].
  split; [replace k with (k - 1 + 1) by lia; apply capof_self|].
  replace k with (k - 1 + 1) at 2 by lia. apply capof_le. replace (k - 1 + 1) with k by lia. lia.
Qed.

(* ---- the node invariant of the recursive plans ----
   node over groups [ga, ga + capof n), n of them inside the blob; rm = on the right spine *)
Record node_ok (size bs ga n : N) (rm : bool) : Prop := mk_node_ok {
  nk_pos : 1 <= n;
  nk_al : exists k, ga = k * capof n;
  nk_in : ga + n <= sp_blocks size bs;
  nk_rm : if rm then ga + n = sp_blocks size bs else n = capof n }.

Lemma node_ok_root size bs : node_ok size bs 0 (sp_blocks size bs) true.
Proof.
  assert (1 <= sp_blocks size bs) by (unfold sp_blocks; lia).
  constructor; [assumption|exists 0; lia|lia|lia].
Qed.

Lemma pow2_divides a b : a <= b -> exists d, 2 ^ b = d * 2 ^ a.
Proof. intro H. exists (2 ^ (b - a)). rewrite <- pow2_add. f_equal. lia. Qed.

Lemma node_ok_left size bs ga n rm : node_ok size bs ga n rm -> 3 <= n ->
  node_ok size bs ga (capof n / 2) false.
Proof.
  intros [P [k A] I R] H. destruct (capof_inner n H) as (j & E & Eh & L1 & L2 & C1 & C2).
  rewrite Eh. pose proof (pow2_pos (j + 1)).
  constructor; [lia| |lia|now rewrite C1].
  exists (2 * k). rewrite C1, A, E. replace (j + 2) with (j + 1 + 1) by lia. rewrite (pow2_succ (j + 1)). lia.
Qed.

Lemma node_ok_right size bs ga n rm : node_ok size bs ga n rm -> 3 <= n ->
  node_ok size bs (ga + capof n / 2) (n - capof n / 2) rm.
Proof.
  intros [P [k A] I R] H. destruct (capof_inner n H) as (j & E & Eh & L1 & L2 & C1 & C2).
  rewrite Eh. pose proof (pow2_pos (j + 1)).
  constructor; [lia| |lia|].
  - destruct (capof_spec (n - 2 ^ (j + 1)) ltac:(lia)) as (i & Ei & _).
    rewrite Ei in *. apply pow2_le_inv in C2.
    destruct (pow2_divides (i + 1) (j + 1) C2) as (d & D).
    exists ((2 * k + 1) * d). rewrite A, E. replace (j + 2) with (j + 1 + 1) by lia.
    rewrite (pow2_succ (j + 1)). rewrite D. lia.
  - destruct rm; [lia|]. rewrite R in L2, L1 |- *. rewrite E in *.
    replace (j + 2) with (j + 1 + 1) in * by lia. rewrite (pow2_succ (j + 1)) in *.
    replace (2 * 2 ^ (j + 1) - 2 ^ (j + 1)) with (2 ^ (j + 1)) by lia. now rewrite C1.
Qed.

(* fuel measure: log2 (capof n) <= fuel *)
Lemma fuel_children n f : 3 <= n -> N.log2 (capof n) <= N.of_nat (S f) ->
  N.log2 (capof (capof n / 2)) <= N.of_nat f /\ N.log2 (capof (n - capof n / 2)) <= N.of_nat f.
Proof.
  intros H F. destruct (capof_inner n H) as (j & E & Eh & L1 & L2 & C1 & C2).
  rewrite Eh, C1. rewrite E in F. rewrite N.log2_pow2 in * by lia.
  split; [lia|].
  destruct (capof_spec (n - 2 ^ (j + 1)) ltac:(lia)) as (i & Ei & _). rewrite Ei in *.
  apply pow2_le_inv in C2. rewrite N.log2_pow2 by lia. lia.
Qed.

Lemma fuel_pos n f : 1 <= n -> N.log2 (capof n) <= N.of_nat f -> exists f', f = S f'.
Proof.
  intros H F. destruct (capof_spec n H) as (k & E & _). rewrite E, N.log2_pow2 in F by lia.
  destruct f as [|f']; [lia|]. now exists f'.
Qed.

(* ---- blob geometry ---- *)
Lemma sp_blocks_spec size bs j : j < sp_blocks size bs <-> (j = 0 \/ j * 2 ^ bs * 1024 < size).
Proof.
  unfold sp_blocks. pose proof (pow2_pos bs) as Hp. set (g := 2 ^ bs) in *.
  assert (HD : 0 < 1024 * g) by lia.
  set (D := 1024 * g) in *.
  assert (E : j * g * 1024 = j * D) by (unfold D; lia). rewrite E. clear E.
  pose proof (N.div_mod (size + D - 1) D ltac:(lia)) as DM.
  pose proof (N.mod_upper_bound (size + D - 1) D ltac:(lia)) as MB.
  set (qq := (size + D - 1) / D) in *. set (rr := (size + D - 1) mod D) in *.
  clearbody qq rr D. clear Hp g. split; intro H.
  - destruct (N.eq_dec j 0); [now left|right]. assert (j < qq) by lia. nia.
  - destruct H as [->|H]; [lia|]. assert (j < qq); [|lia].
    destruct (N.lt_ge_cases j qq); [assumption|]. nia.
Qed.

Lemma sp_blocks_bound size bs : size <= 2 ^ 63 -> sp_blocks size bs * 2 ^ bs <= 2 ^ 53 + 2 ^ bs.
Proof.
  intro H. pose proof (pow2_pos bs) as Hp.
  destruct (N.le_gt_cases (sp_blocks size bs * 2 ^ bs) (2 ^ 53 + 2 ^ bs)) as [|G]; [assumption|exfalso].
  assert (L : sp_blocks size bs - 1 < sp_blocks size bs) by (unfold sp_blocks; lia).
  apply sp_blocks_spec in L. change (2 ^ 63) with (2 ^ 53 * 1024) in H.
  set (b := sp_blocks size bs) in *. set (g := 2 ^ bs) in *. clearbody b g.
  destruct L as [L|L]; nia.
Qed.

Lemma nchunks_spec size c : c < nchunks size <-> (c = 0 \/ c * 1024 < size).
Proof.
  unfold nchunks, chunks. rewrite N.shiftr_div_pow2. change 1023 with (N.ones 10).
  rewrite N.land_ones. change (2 ^ 10) with 1024.
  destruct (N.eqb_spec (size mod 1024) 0) as [E|E]; cbn [negb b2n]; lia.
Qed.

(* chunks of group j < sp_blocks that are inside the blob *)
Lemma group_inside size bs j : j < sp_blocks size bs -> j * 2 ^ bs < nchunks size.
Proof.
  intro H. apply sp_blocks_spec in H. apply nchunks_spec. pose proof (pow2_pos bs).
  destruct H as [->|H]; [left; lia|right; assumption].
Qed.

Lemma nchunks_le_blocks size bs : nchunks size <= sp_blocks size bs * 2 ^ bs.
Proof.
  pose proof (pow2_pos bs) as Hp.
  destruct (N.le_gt_cases (nchunks size) (sp_blocks size bs * 2 ^ bs)) as [|G]; [assumption|exfalso].
  apply nchunks_spec in G.
  assert (L : ~ sp_blocks size bs < sp_blocks size bs) by lia.
  rewrite sp_blocks_spec in L.
  assert (1 <= sp_blocks size bs) by (unfold sp_blocks; lia).
  destruct G as [G|G]; [nia|]. apply L. right. exact G.
Qed.

Lemma nchunks_pos size : 1 <= nchunks size.
Proof. unfold nchunks. lia. Qed.

(* leaf_chunks of the byte span of the chunks [a, e), a inside the blob *)
Lemma leaf_chunks_span size a e : a < e -> a < nchunks size ->
  leaf_chunks (span_bytes size a e) = N.min e (nchunks size) - a.
Proof.
  intros Hae Ha. unfold leaf_chunks, span_bytes.
  assert (Ha' : a = 0 \/ a * 1024 < size) by (now apply nchunks_spec).
  destruct (N.lt_ge_cases e (nchunks size)) as [He|He].
  - assert (He' : e * 1024 < size) by (apply nchunks_spec in He; lia).
    rewrite (N.min_l (e * 1024)), (N.min_l (a * 1024)), (N.min_l e) by lia. lia.
  - rewrite (N.min_r e) by lia.
    assert (He' : ~ (e = 0 \/ e * 1024 < size)) by (rewrite <- nchunks_spec; lia).
    rewrite (N.min_r (e * 1024)) by lia.
    assert (Hn : forall c, c < nchunks size <-> (c = 0 \/ c * 1024 < size)) by (intro; apply nchunks_spec).
    pose proof (nchunks_pos size) as Hp.
    set (nc := nchunks size) in *. clearbody nc.
    assert (Hlast : nc - 1 = 0 \/ (nc - 1) * 1024 < size) by (apply Hn; lia).
    assert (Hnc : ~ (nc = 0 \/ nc * 1024 < size)) by (rewrite <- Hn; lia).
    destruct (N.eq_dec size 0) as [->|Hs].
    + assert (nc = 1) by lia. subst nc. assert (a = 0) by lia. subst a. reflexivity.
    + rewrite (N.min_l (a * 1024)) by lia. lia.
Qed.

(* ---- shifted node ids and their chunk geometry ---- *)
Lemma unshift_succ bs s : unshift bs s + 1 = (s + 1) * 2 ^ bs.
Proof. unfold unshift. pose proof (pow2_pos bs). nia. Qed.

(* the node with mid group boundary ga + h, h = 2^i, ga = k * 2h *)
Lemma unshift_geom bs k i :
  let h := 2 ^ i in let ga := k * (2 * h) in let nd := unshift bs (ga + h - 1) in
  level nd = i + bs /\ sp_chunk_start nd = ga * 2 ^ bs /\ sp_chunk_end nd = (ga + 2 * h) * 2 ^ bs /\
  nd + 1 = (ga + h) * 2 ^ bs.
Proof.
  cbn zeta. pose proof (pow2_pos i) as Hi. pose proof (pow2_pos bs) as Hb.
  set (nd := unshift bs (k * (2 * 2 ^ i) + 2 ^ i - 1)).
  assert (E : nd + 1 = (2 * k + 1) * 2 ^ (i + bs)).
  { unfold nd. rewrite unshift_succ, pow2_add. replace (k * (2 * 2 ^ i) + 2 ^ i - 1 + 1) with ((2 * k + 1) * 2 ^ i) by lia. lia. }
  destruct (decomp_unique _ _ _ E) as [L K].
  unfold sp_chunk_start, sp_chunk_end. rewrite <- level_is_sp_level, L, K. rewrite E, pow2_add.
  repeat split; lia.
Qed.

(* ---- unfolding and induction principle for pre_plan_rec ---- *)
Lemma pre_plan_rec_eq f size bs ml q ga n ir rm :
  pre_plan_rec (S f) size bs ml q ga n ir rm =
    let g := 2 ^ bs in
    let cap := capof n in
    let a := ga * g in
    let e := (ga + cap) * g in
    let lvl := N.log2 (cap * g) - 1 in
    if negb (q_any q a e rm) then []
    else if q_full q a e rm && (lvl <? ml) then [CLeaf a (span_bytes size a e) ir []]
    else if cap =? 2 then
      let m := (ga + 1) * g in
      if size <=? m * 1024 then [CLeaf a (span_bytes size a e) ir []]
      else
        let l := q_any q a m false in
        let r := q_any q m e rm in
        [CParent (unshift bs ga) ir l r []]
        ++ (if l then [CLeaf a (span_bytes size a m) false []] else [])
        ++ (if r then [CLeaf m (span_bytes size m e) false []] else [])
    else
      let half := cap / 2 in
      let m := (ga + half) * g in
      let l := q_any q a m false in
      let r := q_any q m e rm in
      [CParent (unshift bs (ga + half - 1)) ir l r []]
      ++ pre_plan_rec f size bs ml q ga half false false
      ++ pre_plan_rec f size bs ml q (ga + half) (n - half) false rm.
Proof. reflexivity. Qed.

Section PreInd.
Variables (size bs ml : N) (q : ranges).
Variable P : N -> N -> bool -> bool -> list chunk -> Prop.
Let g := 2 ^ bs.
Let A (ga : N) := ga * g.
Let E (ga n : N) := (ga + capof n) * g.
Let LVL (n : N) := N.log2 (capof n * g) - 1.

Hypothesis P_empty : forall ga n ir rm, node_ok size bs ga n rm ->
  q_any q (A ga) (E ga n) rm = false -> P ga n ir rm [].
Hypothesis P_full : forall ga n ir rm, node_ok size bs ga n rm ->
  q_any q (A ga) (E ga n) rm = true -> q_full q (A ga) (E ga n) rm = true -> LVL n < ml ->
  P ga n ir rm [CLeaf (A ga) (span_bytes size (A ga) (E ga n)) ir []].
Hypothesis P_half : forall ga n ir rm, node_ok size bs ga n rm -> n <= 2 ->
  q_any q (A ga) (E ga n) rm = true -> q_full q (A ga) (E ga n) rm && (LVL n <? ml) = false ->
  size <= (ga + 1) * g * 1024 ->
  P ga n ir rm [CLeaf (A ga) (span_bytes size (A ga) (E ga n)) ir []].
Hypothesis P_pair : forall ga n ir rm, node_ok size bs ga n rm -> n <= 2 ->
  q_any q (A ga) (E ga n) rm = true -> q_full q (A ga) (E ga n) rm && (LVL n <? ml) = false ->
  (ga + 1) * g * 1024 < size ->
  let m := (ga + 1) * g in
  let l := q_any q (A ga) m false in
  let r := q_any q m (E ga n) rm in
  P ga n ir rm ([CParent (unshift bs ga) ir l r []]
                ++ (if l then [CLeaf (A ga) (span_bytes size (A ga) m) false []] else [])
                ++ (if r then [CLeaf m (span_bytes size m (E ga n)) false []] else [])).
Hypothesis P_inner : forall ga n ir rm pl pr, node_ok size bs ga n rm -> 3 <= n ->
  q_any q (A ga) (E ga n) rm = true -> q_full q (A ga) (E ga n) rm && (LVL n <? ml) = false ->
  let half := capof n / 2 in
  let m := (ga + half) * g in
  node_ok size bs ga half false -> node_ok size bs (ga + half) (n - half) rm ->
  P ga half false false pl -> P (ga + half) (n - half) false rm pr ->
  P ga n ir rm ([CParent (unshift bs (ga + half - 1)) ir (q_any q (A ga) m false) (q_any q m (E ga n) rm) []]
                ++ pl ++ pr).

Theorem pre_plan_rec_ind : forall fuel ga n ir rm,
  node_ok size bs ga n rm -> N.log2 (capof n) <= N.of_nat fuel ->
  P ga n ir rm (pre_plan_rec fuel size bs ml q ga n ir rm).
Proof.
  induction fuel as [|f IH]; intros ga n ir rm Hok Hf.
  - destruct (fuel_pos n 0 (nk_pos _ _ _ _ _ Hok) Hf) as [f' Ef]. discriminate.
  - rewrite pre_plan_rec_eq. cbn zeta. fold g. fold (A ga). fold (E ga n). fold (LVL n).
    destruct (q_any q (A ga) (E ga n) rm) eqn:Ea; cbn [negb]; [|now apply P_empty].
    destruct (q_full q (A ga) (E ga n) rm && (LVL n <? ml)) eqn:Eq.
    { apply andb_true_iff in Eq. destruct Eq as [Eq1 Eq2]. apply N.ltb_lt in Eq2. now apply P_full. }
    rewrite capof_eq2 by (apply (nk_pos _ _ _ _ _ Hok)).
    destruct (N.leb_spec n 2) as [L|L].
    + destruct (N.leb_spec size ((ga + 1) * g * 1024)) as [L'|L'].
      * now apply P_half.
      * now apply P_pair.
    + destruct (fuel_children n f ltac:(lia) Hf) as [F1 F2].
      apply P_inner; try assumption; try lia.
      * apply (node_ok_left _ _ _ _ _ Hok). lia.
      * apply (node_ok_right _ _ _ _ _ Hok). lia.
      * apply IH; [apply (node_ok_left _ _ _ _ _ Hok); lia|assumption].
      * apply IH; [apply (node_ok_right _ _ _ _ _ Hok); lia|assumption].
Qed.
End PreInd.

(* root instance: fuel 65 suffices for size <= 2^63 *)
Lemma root_fuel size bs : size <= 2 ^ 63 -> N.log2 (capof (sp_blocks size bs)) <= N.of_nat 65.
Proof.
  intro H. pose proof (sp_blocks_bound size bs H) as B. pose proof (pow2_pos bs) as Hp.
  assert (L : sp_blocks size bs <= 2 ^ (53 + 1)).
  { change (2 ^ (53 + 1)) with (2 * 2 ^ 53). set (b := sp_blocks size bs) in *. set (g := 2 ^ bs) in *.
    assert (1 <= b) by (unfold b, sp_blocks; lia). clearbody b g. nia. }
  apply capof_le in L.
  assert (1 <= sp_blocks size bs) by (unfold sp_blocks; lia).
  rewrite capof_pow2 in * by assumption. rewrite N.log2_pow2 by lia. apply pow2_le_inv in L. lia.
Qed.
