(* Gap audit C14, validators: valid_ranges / valid_outboard_ranges (sync and fsm) give identical results for
   two queries that select the same chunks - on EVERY store and data file (failing loads, missing pairs,
   corrupted pairs, short data), not only on the stores for which the validators are characterised. *)
From BaoV Require Import Model.Sync Model.Fsm Spec.PlanSpec Spec.PlanWf Spec.EncSpec.
From BaoV Require Import Proofs.NodeLevel Proofs.NodeBits Proofs.NodeAlgebra
  Proofs.ObBase Proofs.RangeBase Proofs.RangeTrunc Proofs.RangeProofs Proofs.BridgeBase Proofs.BridgeGeom
  Proofs.PlanBase Proofs.PlanQuery Proofs.PlanRs Proofs.PlanNav Proofs.ValSpec Proofs.ValTop.
From Coq Require Import ZArith Lia.
Open Scope N_scope.
Arguments N.add : simpl never.
Arguments N.sub : simpl never.
Arguments N.mul : simpl never.
Arguments N.pow : simpl never.
Arguments N.shiftl : simpl never.
Arguments N.shiftr : simpl never.
Arguments N.land : simpl never.
Arguments N.div : simpl never.
Arguments N.modulo : simpl never.
Arguments N.log2 : simpl never.
Arguments N.min : simpl never.
Arguments N.max : simpl never.
Ltac Zify.zify_post_hook ::= Z.to_euclidean_division_equations.

(* ------------------------------------------------------------------------------------------- *)
(* 1. validate_rec / validate_rec_fsm as one function of the loader (specification side: the model's
      two recursions are instances)                                                              *)
(* ------------------------------------------------------------------------------------------- *)
Section VGen.
Variable HO : hops.
Notation bytes := (bytes HO).
Notation hash := (hash HO).
Variable load : N -> res io_kind (option (hash * hash)).

Fixpoint vgen (fuel : nat) (with_data : bool) (t : tree) (filled : N) (data : bytes)
         (parent_hash : hash) (shifted_ : N) (is_root : bool) (rs : ranges)
  : list (N * N) * res io_kind unit :=
  match fuel with
  | O => ([], Panic)
  | S f =>
    if r_is_empty rs then ([], Ok tt)
    else
      let node := subtract_block_size shifted_ (tbs t) in
      let '(l, m, r) := leaf_byte_ranges3 t node in
      let yield s e h root :=
        if with_data then
          match yield_if_valid HO data s e h root with
          | Ok ys => (ys, Ok tt) | Err k => ([], Err k) | Panic => ([], Panic) end
        else ([(full_chunks s, chunks e)], Ok tt) in
      if negb (is_relevant_for_outboard t node) then yield l r parent_hash is_root
      else
        match load node with
        | Err k => ([], Err k)
        | Panic => ([], Panic)
        | Ok None => ([], Ok tt)
        | Ok (Some (lh, rh)) =>
            let actual := parent_cv HO lh rh is_root in
            if negb (bytes_eqb HO actual parent_hash) then ([], Ok tt)
            else
              let '(l_rs, r_rs) := split rs node in
              if is_leaf shifted_ then
                let '(ys1, r1) := if negb (r_is_empty l_rs) then yield l m lh false else ([], Ok tt) in
                match r1 with
                | Ok _ =>
                    let '(ys2, r2) := if negb (r_is_empty r_rs) then yield m r rh false else ([], Ok tt) in
                    (ys1 ++ ys2, r2)
                | _ => (ys1, r1)
                end
              else
                match left_child shifted_ with
                | None => ([], Panic)
                | Some lc =>
                    let '(ys1, r1) := vgen f with_data t filled data lh lc false l_rs in
                    match r1 with
                    | Ok _ =>
                        match right_descendant shifted_ filled with
                        | None => (ys1, Panic)
                        | Some rc =>
                            let '(ys2, r2) := vgen f with_data t filled data rh rc false r_rs in
                            (ys1 ++ ys2, r2)
                        end
                    | _ => (ys1, r1)
                    end
                end
        end
  end.
End VGen.

Lemma validate_rec_vgen (HO : hops) (ob : outboard HO) : forall fuel wd t filled d owed sh ir rs,
  validate_rec HO fuel wd t filled ob d owed sh ir rs = vgen HO (load_sync HO ob) fuel wd t filled d owed sh ir rs.
Proof.
  induction fuel as [|f IH]; intros; [reflexivity|].
  cbn [validate_rec vgen].
  destruct (r_is_empty rs); [reflexivity|].
  destruct (leaf_byte_ranges3 t (subtract_block_size sh (tbs t))) as [[l m] r].
  destruct (negb (is_relevant_for_outboard t (subtract_block_size sh (tbs t)))); [reflexivity|].
  destruct (load_sync HO ob (subtract_block_size sh (tbs t))) as [[[lh rh]|]|k|]; try reflexivity.
  destruct (negb (bytes_eqb HO (parent_cv HO lh rh ir) owed)); [reflexivity|].
  destruct (Ranges.split rs (subtract_block_size sh (tbs t))) as [l_rs r_rs].
  destruct (is_leaf sh); [reflexivity|].
  destruct (left_child sh) as [lc|]; [|reflexivity].
  rewrite IH. destruct (vgen HO (load_sync HO ob) f wd t filled d lh lc false l_rs) as [ys1 r1].
  destruct r1; try reflexivity.
  destruct (right_descendant sh filled) as [rc|]; [|reflexivity].
  rewrite IH. reflexivity.
Qed.

Lemma validate_rec_fsm_vgen (HO : hops) (ob : outboard HO) : forall fuel wd t filled d owed sh ir rs,
  validate_rec_fsm HO fuel wd t filled ob d owed sh ir rs = vgen HO (load_fsm HO ob) fuel wd t filled d owed sh ir rs.
Proof.
  induction fuel as [|f IH]; intros; [reflexivity|].
  cbn [validate_rec_fsm vgen]. change (yield_if_valid_fsm HO) with (yield_if_valid HO).
  destruct (r_is_empty rs); [reflexivity|].
  destruct (leaf_byte_ranges3 t (subtract_block_size sh (tbs t))) as [[l m] r].
  destruct (negb (is_relevant_for_outboard t (subtract_block_size sh (tbs t)))); [reflexivity|].
  destruct (load_fsm HO ob (subtract_block_size sh (tbs t))) as [[[lh rh]|]|k|]; try reflexivity.
  destruct (negb (bytes_eqb HO (parent_cv HO lh rh ir) owed)); [reflexivity|].
  destruct (Ranges.split rs (subtract_block_size sh (tbs t))) as [l_rs r_rs].
  destruct (is_leaf sh); [reflexivity|].
  destruct (left_child sh) as [lc|]; [|reflexivity].
  rewrite IH. destruct (vgen HO (load_fsm HO ob) f wd t filled d lh lc false l_rs) as [ys1 r1].
  destruct r1; try reflexivity.
  destruct (right_descendant sh filled) as [rc|]; [|reflexivity].
  rewrite IH. reflexivity.
Qed.

(* ------------------------------------------------------------------------------------------- *)
(* 2. the recursion depends on the query only through the selection                              *)
(* ------------------------------------------------------------------------------------------- *)
Section VRel.
Variable HO : hops.
Notation bytes := (bytes HO).
Notation hash := (hash HO).
Variable load : N -> res io_kind (option (hash * hash)).
Variables (size bs : N) (q1 q2 : ranges).
Hypothesis Hsize : size <= 2 ^ 63.
Hypothesis Hbs : bs <= 10.
Hypothesis W1 : wf_ranges q1 = true.
Hypothesis W2 : wf_ranges q2 = true.
Hypothesis Hsel : forall c, sel q1 size c = sel q2 size c.
Variable d : bytes.
Variable wd : bool.

Let t := mkTree size bs.
Let B := sp_blocks size bs.
Let filled := filled_of B.
Let g := 2 ^ bs.
Let A (ga : N) := ga * g.
Let E (ga n : N) := (ga + capof n) * g.
Let M (ga n : N) := (ga + capof n / 2) * g.

Lemma vgen_node f owed ga n rm ir rs : node_ok size bs ga n rm ->
  vgen HO load (S f) wd t filled d owed (sid ga n) ir rs =
    if r_is_empty rs then ([], Ok tt)
    else
      let nd := unshift bs (sid ga n) in
      if negb (is_relevant_for_outboard t nd)
      then vyield HO d wd (A ga * 1024) (N.min (E ga n * 1024) size) owed ir
      else
        match load nd with
        | Err k => ([], Err k)
        | Panic => ([], Panic)
        | Ok None => ([], Ok tt)
        | Ok (Some (lh, rh)) =>
            if negb (bytes_eqb HO (parent_cv HO lh rh ir) owed) then ([], Ok tt)
            else
              let '(l_rs, r_rs) := split_inner rs (A ga) (M ga n) in
              if n <=? 2 then
                let '(ys1, r1) := if negb (r_is_empty l_rs)
                                  then vyield HO d wd (A ga * 1024) (N.min (M ga n * 1024) size) lh false else ([], Ok tt) in
                match r1 with
                | Ok _ =>
                    let '(ys2, r2) := if negb (r_is_empty r_rs)
                                      then vyield HO d wd (N.min (M ga n * 1024) size) (N.min (E ga n * 1024) size) rh false
                                      else ([], Ok tt) in
                    (ys1 ++ ys2, r2)
                | _ => (ys1, r1)
                end
              else
                match left_child (sid ga n) with
                | None => ([], Panic)
                | Some lc =>
                    let '(ys1, r1) := vgen HO load f wd t filled d lh lc false l_rs in
                    match r1 with
                    | Ok _ =>
                        match right_descendant (sid ga n) filled with
                        | None => (ys1, Panic)
                        | Some rc =>
                            let '(ys2, r2) := vgen HO load f wd t filled d rh rc false r_rs in
                            (ys1 ++ ys2, r2)
                        end
                    | _ => (ys1, r1)
                    end
                end
        end.
Proof.
  intros Hok. pose proof (node_geom_ok size bs ga n rm Hsize Hbs Hok) as [G1 G2 G3 G4 G5].
  pose proof (node_end_bound size bs ga n rm Hsize Hbs Hok) as HE.
  assert (Hh : capof n / 2 <= capof n) by (apply N.div_le_upper_bound; lia).
  pose proof (pow2_pos bs) as Hp.
  assert (TA : to_bytes (ga * 2 ^ bs) = ga * 2 ^ bs * 1024) by (apply to_bytes_small; nia).
  assert (TE : to_bytes ((ga + capof n) * 2 ^ bs) = (ga + capof n) * 2 ^ bs * 1024) by (apply to_bytes_small; nia).
  assert (TM : to_bytes ((ga + capof n / 2) * 2 ^ bs) = (ga + capof n / 2) * 2 ^ bs * 1024) by (apply to_bytes_small; nia).
  cbn [vgen]. change (tbs t) with bs.
  unfold leaf_byte_ranges3, node_byte_range, Ranges.split. change (tsize t) with size.
  rewrite G1, G4, G5. cbn [fst snd]. rewrite TA, TE, TM.
  rewrite (is_leaf_sid ga n rm size bs Hok).
  reflexivity.
Qed.

(* helper lemmas of Proofs/ValSpec.v, instantiated (their statements do not depend on the store) *)
Lemma v_relevant ga n rm : node_ok size bs ga n rm -> (rm = false -> ga + n < B) ->
  is_relevant_for_outboard t (unshift bs (sid ga n)) = negb (n <=? 1).
Proof.
  intros Hok Hnr.
  refine (relevant_node HO size bs [] Hsize Hbs (@mkOb HO EmptyOb [] t []) [] false (fun _ => False) _ _ ga n rm Hok Hnr).
  - intros s [].
  - discriminate.
Qed.

Lemma v_ivl ga n rm : node_ok size bs ga n rm ->
  A ga < M ga n /\ M ga n < E ga n /\ A ga < nchunks size.
Proof.
  intros Hok.
  pose proof (ivl HO size bs [] Hsize Hbs (@mkOb HO EmptyOb [] t []) [] false (fun _ => False)
                ltac:(intros s []) ltac:(discriminate) ga n rm Hok) as (I1 & I2 & I3 & _).
  auto.
Qed.

Lemma v_end ga n rm : node_ok size bs ga n rm -> (rm = false -> ga + n < B) ->
  (rm = false -> E ga n < nchunks size).
Proof.
  intros Hok Hnr.
  exact (proj2 (node_end_sel HO size bs [] Hsize Hbs (@mkOb HO EmptyOb [] t []) [] false (fun _ => False)
                  ltac:(intros s []) ltac:(discriminate) ga n rm Hok Hnr)).
Qed.

Lemma empty_rel rs1 rs2 a e rm :
  rs_ok (truncate_ranges q1 size) rs1 a e rm -> rs_ok (truncate_ranges q2 size) rs2 a e rm ->
  a < e -> a < nchunks size -> (rm = false -> e < nchunks size) ->
  r_is_empty rs1 = r_is_empty rs2.
Proof.
  intros R1 R2 Hae Ha He.
  rewrite (rs_empty_sel size q1 W1 rs1 a e rm R1 Hae Ha He), (rs_empty_sel size q2 W2 rs2 a e rm R2 Hae Ha He).
  f_equal. apply existsb_ext'. intros c _. apply Hsel.
Qed.

Lemma vgen_rel : forall fuel ga n rm rs1 rs2 owed ir,
  node_ok size bs ga n rm -> (rm = false -> ga + n < B) -> N.log2 (capof n) <= N.of_nat fuel ->
  rs_ok (truncate_ranges q1 size) rs1 (A ga) (E ga n) rm ->
  rs_ok (truncate_ranges q2 size) rs2 (A ga) (E ga n) rm ->
  vgen HO load fuel wd t filled d owed (sid ga n) ir rs1 = vgen HO load fuel wd t filled d owed (sid ga n) ir rs2.
Proof.
  induction fuel as [|f IH]; intros ga n rm rs1 rs2 owed ir Hok Hnr Hf R1 R2; [reflexivity|].
  rewrite !(vgen_node f owed ga n rm ir _ Hok). cbn zeta.
  destruct (v_ivl ga n rm Hok) as (I1 & I2 & I3).
  pose proof (v_end ga n rm Hok Hnr) as Hlt.
  rewrite (empty_rel rs1 rs2 (A ga) (E ga n) rm R1 R2 ltac:(lia) I3 Hlt).
  destruct (r_is_empty rs2); [reflexivity|].
  rewrite (v_relevant ga n rm Hok Hnr), negb_involutive.
  destruct (N.leb_spec n 1) as [L1|L1]; [reflexivity|].
  destruct (load (unshift bs (sid ga n))) as [[[lh rh]|]|k|]; try reflexivity.
  destruct (negb (bytes_eqb HO (parent_cv HO lh rh ir) owed)); [reflexivity|].
  destruct (split_inner rs1 (A ga) (M ga n)) as [l1 r1] eqn:Esp1.
  destruct (split_inner rs2 (A ga) (M ga n)) as [l2 r2] eqn:Esp2.
  destruct (split_ok _ rs1 (A ga) (M ga n) (E ga n) rm l1 r1 R1 I1 I2 Esp1) as [Hl1 Hr1].
  destruct (split_ok _ rs2 (A ga) (M ga n) (E ga n) rm l2 r2 R2 I1 I2 Esp2) as [Hl2 Hr2].
  pose proof Hok as [P [k Al] I R]. pose proof (pow2_pos bs) as Hp.
  destruct (N.leb_spec n 2) as [L2|L2].
  - (* shifted leaf with both groups *)
    assert (n = 2) by lia. subst n.
    assert (EM : M ga 2 = (ga + 1) * g) by reflexivity.
    assert (Hg1 : ga + 1 < sp_blocks size bs) by (fold B; lia).
    pose proof (PlanBase.group_inside size bs (ga + 1) Hg1) as Hin1. fold g in Hin1.
    rewrite (empty_rel l1 l2 (A ga) (M ga 2) false Hl1 Hl2 I1 I3 ltac:(intros _; rewrite EM; exact Hin1)).
    rewrite (empty_rel r1 r2 (M ga 2) (E ga 2) rm Hr1 Hr2 I2 ltac:(rewrite EM; exact Hin1) Hlt).
    reflexivity.
  - (* inner node *)
    assert (Hn : 3 <= n) by lia.
    destruct (capof_inner n Hn) as (j & Ecap & Eh & K1 & K2 & C1 & C2).
    pose proof (pow2_pos (j + 1)) as Hpj.
    set (half := capof n / 2) in *.
    assert (Ecap' : capof n = 2 * half).
    { rewrite Eh, Ecap. replace (j + 2) with (j + 1 + 1) by lia. now rewrite pow2_succ. }
    assert (Echalf : capof half = half) by (rewrite Eh; exact C1).
    assert (Hce : cexp n <= 64).
    { pose proof (node_end_bound size bs ga n rm Hsize Hbs Hok) as HE.
      assert (capof n <= 2 ^ 53) by nia. rewrite (capof_pow2 n ltac:(lia)) in H. apply pow2_le_inv in H. lia. }
    rewrite (left_child_sid size bs ga n rm Hok Hn). fold half.
    unfold filled, B. rewrite (right_descendant_sid size bs ga n rm Hok Hn Hce). fold half. fold B. fold filled.
    destruct (fuel_children n f Hn Hf) as [F1 F2]. fold half in F1, F2.
    pose proof (node_ok_left size bs ga n rm Hok Hn) as Hokl. fold half in Hokl.
    pose proof (node_ok_right size bs ga n rm Hok Hn) as Hokr. fold half in Hokr.
    assert (Hhn : half < n) by (rewrite Eh; lia).
    assert (EEl : E ga half = M ga n) by (unfold E, M; fold half; now rewrite Echalf).
    assert (Hrl1 : rs_ok (truncate_ranges q1 size) l1 (A ga) (E ga half) false) by (rewrite EEl; exact Hl1).
    assert (Hrl2 : rs_ok (truncate_ranges q2 size) l2 (A ga) (E ga half) false) by (rewrite EEl; exact Hl2).
    assert (Hrr : forall qq rr, rs_ok qq rr (M ga n) (E ga n) rm -> rs_ok qq rr (A (ga + half)) (E (ga + half) (n - half)) rm).
    { intros qq rr Hr. change (A (ga + half)) with (M ga n). destruct rm.
      - eapply rs_ok_rm_end; exact Hr.
      - replace (E (ga + half) (n - half)) with (E ga n); [exact Hr|].
        cbn in R. assert (X : n - half = half) by lia. unfold E. rewrite X, Echalf, Ecap'. f_equal. lia. }
    rewrite (IH ga half false l1 l2 lh false Hokl ltac:(intros _; lia) F1 Hrl1 Hrl2).
    rewrite (IH (ga + half) (n - half) rm r1 r2 rh false Hokr ltac:(intro Erm; specialize (Hnr Erm); lia) F2
               (Hrr _ _ Hr1) (Hrr _ _ Hr2)).
    reflexivity.
Qed.

(* the root call *)
Lemma vgen_root owed :
  vgen HO load VFUEL wd t filled d owed (sid 0 B) true (truncate_ranges q1 size) =
  vgen HO load VFUEL wd t filled d owed (sid 0 B) true (truncate_ranges q2 size).
Proof.
  apply (vgen_rel VFUEL 0 B true).
  - apply node_ok_root.
  - discriminate.
  - apply top_fuel. exact Hsize.
  - apply rs_ok_root. now apply truncate_wf.
  - apply rs_ok_root. now apply truncate_wf.
Qed.
End VRel.

(* ------------------------------------------------------------------------------------------- *)
(* 3. the four validators                                                                        *)
(* ------------------------------------------------------------------------------------------- *)
Theorem validators_of_selection : forall (HO : hops) (ob : outboard HO) (d : bytes HO) (q1 q2 : ranges),
  tsize (ob_tree ob) <= 2 ^ 63 -> tbs (ob_tree ob) <= 10 -> wf_ranges q1 = true -> wf_ranges q2 = true ->
  (forall c, sel q1 (tsize (ob_tree ob)) c = sel q2 (tsize (ob_tree ob)) c) ->
  valid_ranges HO ob d q1 = valid_ranges HO ob d q2 /\
  valid_outboard_ranges HO ob q1 = valid_outboard_ranges HO ob q2 /\
  valid_ranges_fsm HO ob d q1 = valid_ranges_fsm HO ob d q2 /\
  valid_outboard_ranges_fsm HO ob q1 = valid_outboard_ranges_fsm HO ob q2.
Proof.
  intros HO ob d q1 q2 Hs Hb W1 W2 Hsel.
  unfold valid_ranges, valid_outboard_ranges, valid_ranges_fsm, valid_outboard_ranges_fsm.
  destruct (ob_tree ob) as [size bs]. cbn [tsize tbs] in *.
  destruct (blocks (mkTree size bs) =? 1); [repeat split; reflexivity|].
  rewrite shifted_eq. change 70%nat with VFUEL.
  rewrite !validate_rec_vgen, !validate_rec_fsm_vgen.
  repeat split; apply vgen_root; assumption.
Qed.

Print Assumptions validate_rec_vgen.
Print Assumptions validate_rec_fsm_vgen.
Print Assumptions validators_of_selection.
