(* C08, finding F6 made precise, part 3: when the non-validating encoders coincide with the validating
   ones.  As ITEM lists: exactly under groups_full (nonval_items_iff).  As BYTE strings: iff the two
   flattened specifications coincide (nonval_eq_validating_iff_spec); groups_full is sufficient but, for
   an arbitrary hash instance, NOT necessary (nonval_eq_without_groups_full).  The bytes emitted are the
   honest encoding of a well-formed SUPERSET query (nonval_is_honest_superset).  Nonvacuity witnesses. *)
From BaoV Require Import Model.Sync Model.Fsm Spec.RangeSpec Spec.NodeSpec Spec.PlanSpec Spec.PlanWf Spec.EncSpec Spec.HashAssm.
From BaoV Require Import Proofs.NodeLevel Proofs.NodeBits Proofs.NodeAlgebra Proofs.RangeBase Proofs.RangeTrunc Proofs.PlanBase Proofs.PlanNav Proofs.ValSpec Proofs.HistOb Proofs.HistPath Proofs.HistEnc.
From BaoV Require Import Proofs.BridgeBase Proofs.BridgeTree Proofs.BridgePlan Proofs.BridgeLeaves.
From BaoV Require Import Proofs.EncPlan Proofs.EncRec Proofs.EncLoop Proofs.EncMain Proofs.EncTop Proofs.EncThm Proofs.EncNonval.
From BaoV Require Import Proofs.E2EDecode Proofs.E2EDownload.
From BaoV Require Import Proofs.FinalStore Proofs.FinalEnc Proofs.GapNonval Proofs.GapNonvalW.
From Coq Require Import Lia Arith PeanoNat ZArith ZifyN ZifyNat ZifyBool.
Ltac Zify.zify_post_hook ::= Z.div_mod_to_equations.
Arguments N.add : simpl never.
Arguments N.sub : simpl never.
Arguments N.mul : simpl never.
Arguments N.pow : simpl never.
Arguments N.div : simpl never.
Arguments N.modulo : simpl never.
Arguments N.log2 : simpl never.
Arguments N.min : simpl never.
Arguments N.max : simpl never.

Lemma snd_of_eq {A B : Type} (p : A * B) a b : p = (a, b) -> snd p = b.
Proof. intros ->. reflexivity. Qed.

(* ---- the honest encoding depends on the selection pointwise, and determines it ---- *)
Section Ext.
Variable HO : hops.
Variable data : bytes HO.
Variable bs : N.

Lemma enc_rec_ext (S1 S2 : N -> bool) : (forall c, S1 c = S2 c) ->
  forall f a b, enc_rec HO f data bs S1 a b = enc_rec HO f data bs S2 a b.
Proof.
  intros Hext. induction f as [|f IH]; intros a b; [reflexivity|]. rewrite !enc_rec_unfold.
  rewrite (existsb_ext' S1 S2) by (intros; apply Hext). rewrite (forallb_ext' S1 S2) by (intros; apply Hext).
  now rewrite !IH.
Qed.

Lemma enc_spec_ext (S1 S2 : N -> bool) : (forall c, S1 c = S2 c) ->
  enc_spec HO data bs S1 = enc_spec HO data bs S2.
Proof. intro H. unfold enc_spec. now apply enc_rec_ext. Qed.

Hypothesis Hsize : blen HO data <= 2 ^ 63.

Lemma enc_spec_unfold63 (S0 : N -> bool) :
  enc_spec HO data bs S0 = enc_rec HO (S 63) data bs S0 0 (nchunks (blen HO data)).
Proof. reflexivity. Qed.

Lemma delivered_enc_spec (S0 : N -> bool) c :
  delivered HO (enc_spec HO data bs S0) c = (c <? nchunks (blen HO data)) && S0 c.
Proof.
  rewrite enc_spec_unfold63.
  pose proof (nchunks_small _ Hsize) as Hn.
  assert (P : 2 ^ 53 <= 2 ^ 63) by (apply pow2_le_mono; lia).
  rewrite (delivered_enc_rec HO data Hsize bs S0 63 0 (nchunks (blen HO data)) ltac:(lia) ltac:(lia)).
  - assert (E1 : (0 <=? c) = true) by (apply N.leb_le; lia). rewrite E1. reflexivity.
  - change (N.of_nat 63) with 63. lia.
Qed.

(* item 4, at the level of items: the item list the non-validating bytes flatten is the honest item list
   of the query exactly when every touched group is fully selected *)
Lemma honest_enc_spec (q : ranges) : honest HO data bs q = enc_spec HO data bs (sel q (blen HO data)).
Proof. unfold honest. reflexivity. Qed.

Theorem nv_items_iff (q : ranges) :
  enc_spec HO data bs (widen bs (blen HO data) (sel q (blen HO data))) = honest HO data bs q
  <-> groups_full bs q (blen HO data).
Proof.
  rewrite honest_enc_spec. split.
  - intro H. apply widen_id_iff. intro c.
    pose proof (delivered_enc_spec (widen bs (blen HO data) (sel q (blen HO data))) c) as D1.
    pose proof (delivered_enc_spec (sel q (blen HO data)) c) as D2.
    rewrite H, D2 in D1. clear D2 H.
    destruct (c <? nchunks (blen HO data)) eqn:Ec.
    + rewrite !andb_true_l in D1. symmetry. exact D1.
    + unfold widen, sel. rewrite Ec. reflexivity.
  - intro H. apply enc_spec_ext. now apply widen_id_iff.
Qed.

End Ext.

Theorem nonval_items_iff : forall (HO : hops) (data : bytes HO) (bs : N) (q : ranges),
  blen HO data <= 2 ^ 63 ->
  (enc_spec HO data bs (widen bs (blen HO data) (sel q (blen HO data))) = honest HO data bs q
   <-> groups_full bs q (blen HO data)).
Proof. intros HO data bs q Hsize. exact (nv_items_iff HO data bs Hsize q). Qed.
Print Assumptions nonval_items_iff.

(* ---- item 4, at the level of bytes ---- *)
Theorem nonval_eq_validating_iff_spec : forall (HO : hops) (data : bytes HO) (bs : N) (q : ranges),
  wf_ranges q = true -> blen HO data <= 2 ^ 63 -> bs <= 10 ->
  forall ob : outboard HO,
  ob_tree ob = mkTree (blen HO data) bs -> ob_root ob = root_hash HO data -> beq_correct HO ->
  (forall nd, In nd (enc_nodes_raw (blen HO data) bs q) -> stored_ok HO data ob nd /\ stored_ok_fsm HO data ob nd) ->
  (forall nd, In nd (enc_nodes (blen HO data) bs q) -> stored_ok HO data ob nd /\ stored_ok_fsm HO data ob nd) ->
  (snd (encode_ranges HO data ob q) = snd (encode_ranges_validated HO data ob q) <->
   flat HO (enc_spec HO data bs (widen bs (blen HO data) (sel q (blen HO data)))) = flat HO (honest HO data bs q)) /\
  (snd (encode_ranges_fsm HO data ob q) = snd (encode_ranges_validated_fsm HO data ob q) <->
   flat HO (enc_spec HO data bs (widen bs (blen HO data) (sel q (blen HO data)))) = flat HO (honest HO data bs q)) /\
  (groups_full bs q (blen HO data) ->
   flat HO (enc_spec HO data bs (widen bs (blen HO data) (sel q (blen HO data)))) = flat HO (honest HO data bs q)).
Proof.
  intros HO data bs q Hwf Hsize Hbs ob Htree Hroot Hbeq Hraw Hval.
  pose proof (nonval_exact_sync HO data bs q Hwf Hsize Hbs ob Htree (fun nd H => proj1 (Hraw nd H))) as N1.
  pose proof (nonval_exact_fsm HO data bs q Hwf Hsize Hbs ob Htree (fun nd H => proj2 (Hraw nd H))) as N2.
  pose proof (c02_sync HO data bs q Hwf Hsize Hbs ob Htree Hroot Hbeq (fun nd H => proj1 (Hval nd H))) as V1.
  pose proof (c02_fsm HO data bs q Hwf Hsize Hbs ob Htree Hroot Hbeq (fun nd H => proj2 (Hval nd H))) as V2.
  rewrite (snd_of_eq _ _ _ N1), (snd_of_eq _ _ _ N2), (snd_of_eq _ _ _ V1), (snd_of_eq _ _ _ V2).
  rewrite (nv_is_widened_honest HO data bs (sel q (blen HO data)) Hsize).
  split; [apply iff_refl|]. split; [apply iff_refl|].
  intro Hfull. now rewrite (proj2 (nonval_items_iff HO data bs q Hsize) Hfull).
Qed.
Print Assumptions nonval_eq_validating_iff_spec.

(* ---- every selection inside the blob is the selection of a well-formed query ---- *)
Fixpoint tog (W : N -> bool) (prev : bool) (l : list N) : ranges :=
  match l with
  | [] => []
  | c :: t => if xorb prev (W c) then c :: tog W (W c) t else tog W (W c) t
  end.

Lemma tog_in W : forall l prev x, In x (tog W prev l) -> In x l.
Proof.
  induction l as [|c t IH]; intros prev x H; [exact H|]. cbn [tog] in H.
  destruct (xorb prev (W c)).
  - destruct H as [->|H]; [now left|right; eauto].
  - right. eauto.
Qed.

Lemma mem_before : forall (r : ranges) x, (forall y, In y r -> x < y) -> mem r x = false.
Proof.
  intros [|b t] x H; [reflexivity|]. cbn [mem].
  assert (E : (b <=? x) = false) by (apply N.leb_gt; apply H; now left). rewrite E. reflexivity.
Qed.

Lemma mem_after : forall (r : ranges) x, (forall y, In y r -> y <= x) -> mem r x = Nat.odd (length r).
Proof.
  induction r as [|b t IH]; intros x H; [reflexivity|]. cbn [mem length].
  assert (E : (b <=? x) = true) by (apply N.leb_le; apply H; now left). rewrite E.
  rewrite IH by (intros y Hy; apply H; now right). rewrite Nat.odd_succ, <- Nat.negb_odd. reflexivity.
Qed.

Lemma tog_crl W : forall (n : nat) a prev,
  let r := tog W prev (chunk_range_list a (a + N.of_nat n)) in
  (forall x, a <= x < a + N.of_nat n -> mem r x = xorb prev (W x)) /\
  strictly_sorted r = true.
Proof.
  induction n as [|n IH]; intros a prev; cbv zeta.
  - rewrite crl_nil by lia. split; [intros x Hx; lia|reflexivity].
  - rewrite crl_cons by lia. replace (a + N.of_nat (S n)) with (a + 1 + N.of_nat n) by lia.
    cbn [tog]. destruct (IH (a + 1) (W a)) as [I1 I2]. cbv zeta in I1, I2.
    set (t := tog W (W a) (chunk_range_list (a + 1) (a + 1 + N.of_nat n))) in *.
    assert (Hin : forall y, In y t -> a + 1 <= y < a + 1 + N.of_nat n).
    { intros y Hy. apply tog_in in Hy. now apply crl_in in Hy. }
    destruct (xorb prev (W a)) eqn:Ex.
    + split.
      * intros x Hx. cbn [mem]. assert (E : (a <=? x) = true) by (apply N.leb_le; lia). rewrite E.
        destruct (N.eq_dec x a) as [->|Hne].
        -- rewrite mem_before by (intros y Hy; specialize (Hin y Hy); lia). rewrite Ex. reflexivity.
        -- rewrite I1 by lia. destruct prev, (W a), (W x); cbn in *; congruence.
      * cbn [strictly_sorted]. destruct t as [|y t'] eqn:Et; [reflexivity|].
        rewrite I2, andb_true_r. apply N.ltb_lt. specialize (Hin y ltac:(now left)). lia.
    + split; [|exact I2].
      intros x Hx. destruct (N.eq_dec x a) as [->|Hne].
      * rewrite mem_before by (intros y Hy; specialize (Hin y Hy); lia). now rewrite Ex.
      * rewrite I1 by lia. destruct prev, (W a), (W x); cbn in *; congruence.
Qed.

Theorem sel_realizable (size : N) (W : N -> bool) : nchunks size <= W64 ->
  exists q', wf_ranges q' = true /\ forall c, sel q' size c = (c <? nchunks size) && W c.
Proof.
  intro Hn. set (nn := nchunks size).
  exists (tog W false (chunk_range_list 0 nn)).
  destruct (tog_crl W (N.to_nat nn) 0 false) as [M S]. cbv zeta in M, S.
  replace (0 + N.of_nat (N.to_nat nn)) with nn in M, S by lia.
  set (r := tog W false (chunk_range_list 0 nn)) in *.
  assert (Hin : forall y, In y r -> y < nn).
  { intros y Hy. apply tog_in in Hy. apply crl_in in Hy. lia. }
  split.
  - unfold wf_ranges. rewrite S. cbn [andb]. apply forallb_forall. intros y Hy. apply N.ltb_lt.
    specialize (Hin y Hy). lia.
  - intro c. unfold sel. fold nn. destruct (c <? nn) eqn:Ec; [|reflexivity]. apply N.ltb_lt in Ec. cbn [andb].
    rewrite (M c) by lia. rewrite Bool.xorb_false_l.
    destruct (c =? nn - 1) eqn:El; [|cbn [andb]; now rewrite orb_false_r].
    apply N.eqb_eq in El. cbn [andb].
    assert (R : reaches r nn = Nat.odd (length r)).
    { unfold reaches. destruct (Nat.odd (length r)) eqn:Eo; [reflexivity|].
      apply N.ltb_ge. destruct r as [|y0 r0] eqn:Er; [cbn [last]; lia|].
      assert (In (last (y0 :: r0) 0) (y0 :: r0)).
      { destruct (exists_last (l := y0 :: r0) ltac:(discriminate)) as (l' & z & E). rewrite E, last_last.
        apply in_or_app. right. now left. }
      specialize (Hin _ H). lia. }
    rewrite R, <- (mem_after r c) by (intros y Hy; specialize (Hin y Hy); lia).
    rewrite (M c) by lia. rewrite Bool.xorb_false_l. now rewrite orb_diag.
Qed.
Print Assumptions sel_realizable.

(* item 3, in terms of queries: what the non-validating encoders send for q is the honest encoding of a
   well-formed query q' selecting a superset of q (q widened to whole chunk groups inside the blob);
   q' selects the same chunks as q exactly under groups_full *)
Theorem nonval_is_honest_superset : forall (HO : hops) (data : bytes HO) (bs : N) (q : ranges),
  blen HO data <= 2 ^ 63 ->
  exists q', wf_ranges q' = true /\
    (forall c, sel q' (blen HO data) c = widen bs (blen HO data) (sel q (blen HO data)) c) /\
    (forall c, sel q (blen HO data) c = true -> sel q' (blen HO data) c = true) /\
    (q <> [] -> wf_ranges q = true -> q' <> []) /\
    ((forall c, sel q' (blen HO data) c = sel q (blen HO data) c) <-> groups_full bs q (blen HO data)) /\
    nv_spec HO data bs (sel q (blen HO data)) = flat HO (honest HO data bs q').
Proof.
  intros HO data bs q Hsize.
  assert (Hn : nchunks (blen HO data) <= W64).
  { pose proof (nchunks_small _ Hsize). unfold W64. change (2 ^ 53) with 9007199254740992 in H. lia. }
  destruct (sel_realizable (blen HO data) (widen bs (blen HO data) (sel q (blen HO data))) Hn) as (q' & Hwf' & Hs).
  assert (Hs' : forall c, sel q' (blen HO data) c = widen bs (blen HO data) (sel q (blen HO data)) c).
  { intro c. rewrite Hs. unfold widen. destruct (c <? nchunks (blen HO data)); reflexivity. }
  exists q'. split; [exact Hwf'|]. split; [exact Hs'|]. split; [|split; [|split]].
  - intros c Hc. rewrite Hs'. now apply widen_superset.
  - intros Hne Hwf Hq'. destruct (sel_exists q (blen HO data) Hwf Hne) as (c & Hc).
    pose proof (widen_superset bs q (blen HO data) c Hc) as X. rewrite <- Hs', Hq', sel_nil in X. discriminate.
  - rewrite widen_id_iff. split; intros H c; [now rewrite <- Hs'|now rewrite Hs'].
  - rewrite (nv_is_widened_honest HO data bs _ Hsize), honest_enc_spec.
    rewrite (enc_spec_ext HO data bs (sel q' (blen HO data)) (widen bs (blen HO data) (sel q (blen HO data))) Hs').
    reflexivity.
Qed.
Print Assumptions nonval_is_honest_superset.

(* consequence: on a created store the decoders set up for the widened query q' (not for q) accept what the
   non-validating encoders send for q, and yield the honest items of q' *)
Theorem nonval_decodes_as_superset : forall (HO : hops), hash_ok HO ->
  forall (data : bytes HO) (bs : N), blen HO data <= 2 ^ 63 -> bs <= 10 ->
  forall ob : outboard HO, created_store HO data bs ob ->
  forall q : ranges, wf_ranges q = true -> q <> [] ->
  exists q', wf_ranges q' = true /\ q' <> [] /\
    (forall c, sel q' (blen HO data) c = widen bs (blen HO data) (sel q (blen HO data)) c) /\
    encode_ranges HO data ob q = (Ok tt, flat HO (honest HO data bs q')) /\
    encode_ranges_fsm HO data ob q = (Ok tt, flat HO (honest HO data bs q')) /\
    forall rest : bytes HO,
      (exists st, dec_run HO (dec_new HO (ob_root ob) (ob_tree ob) (flat HO (honest HO data bs q') ++ rest) q')
                  = (honest HO data bs q', Finished, st) /\ d_enc HO st = rest) /\
      (exists st, rd_run HO (rd_new HO (ob_root ob) q' (ob_tree ob) (flat HO (honest HO data bs q') ++ rest))
                  = (honest HO data bs q', Finished, st) /\ Fsm.r_enc HO st = rest).
Proof.
  intros HO HOK data bs Hsize Hbs ob Hc q Hwf Hne.
  destruct (nonval_is_honest_superset HO data bs q Hsize) as (q' & Hwf' & Hs & _ & Hne' & _ & Hnv).
  specialize (Hne' Hne Hwf).
  destruct (nonval_exact_created HO (ho_len HO HOK) data bs Hsize Hbs ob Hc q Hwf) as (E1 & E2 & _).
  exists q'. split; [exact Hwf'|]. split; [exact Hne'|]. split; [exact Hs|].
  rewrite Hnv in E1, E2. split; [exact E1|]. split; [exact E2|].
  intro rest. destruct Hc as [K T R D]. rewrite T, R. split.
  - exact (e2e_roundtrip_sync HO HOK data bs q' Hsize Hbs Hwf' Hne' rest).
  - destruct (e2e_roundtrip_fsm HO HOK data bs q' Hsize Hbs Hwf' Hne' rest) as (st & H1 & H2 & _).
    exists st. split; assumption.
Qed.
Print Assumptions nonval_decodes_as_superset.

(* ---- witnesses over the trivial hash instance HT of Proofs/EncNonval.v ---- *)
Lemma HT_len32 : cv_len32 HT.
Proof. intros [c d r|l r f] _; reflexivity. Qed.
Lemma HT_beq : beq_correct HT.
Proof. intros a b; destruct a, b; cbn; split; congruence. Qed.

(* nonvacuity of nonval_exact / nonval_exact_created / nonval_eq_validating_iff_spec: 4 chunks, two chunk
   groups (bs = 1), query = chunk 1: the plan has a parent, the store is a created store, group [0,2) is
   partially selected, and the bytes sent (root pair + whole group = 2112) are not the honest encoding
   (two pairs + one chunk = 1152) *)
Definition wit2_ob : outboard HT :=
  mkOb PreMem (root_hash HT wit_data) (mkTree (blen HT wit_data) 1) (spec_outboard HT (is_post PreMem) wit_data 1).

Lemma nonval_exact_nonvacuous :
  exists (HO : hops) (data : bytes HO) (bs : N) (ob : outboard HO) (q : ranges),
    cv_len32 HO /\ beq_correct HO /\ created_store HO data bs ob /\
    wf_ranges q = true /\ q <> [] /\ blen HO data <= 2 ^ 63 /\ bs <= 10 /\
    ob_tree ob = mkTree (blen HO data) bs /\ ob_root ob = root_hash HO data /\
    enc_nodes_raw (blen HO data) bs q <> [] /\
    (forall nd, In nd (enc_nodes_raw (blen HO data) bs q) -> stored_ok HO data ob nd /\ stored_ok_fsm HO data ob nd) /\
    (forall nd, In nd (enc_nodes (blen HO data) bs q) -> stored_ok HO data ob nd /\ stored_ok_fsm HO data ob nd) /\
    ~ groups_full bs q (blen HO data) /\
    length (nv_spec HO data bs (sel q (blen HO data))) = 2112%nat /\
    length (flat HO (honest HO data bs q)) = 1152%nat.
Proof.
  assert (Hsz : blen HT wit_data <= 2 ^ 63) by (vm_compute; discriminate).
  assert (Hb : 1 <= 10) by lia.
  assert (Hc : created_store HT wit_data 1 wit2_ob).
  { unfold wit2_ob. apply created_store_mk; [right; right; left; reflexivity|reflexivity]. }
  assert (Hwf : wf_ranges [1; 2] = true) by reflexivity.
  exists HT, wit_data, 1, wit2_ob, [1; 2].
  split; [exact HT_len32|]. split; [exact HT_beq|]. split; [exact Hc|].
  split; [exact Hwf|]. split; [discriminate|]. split; [exact Hsz|]. split; [exact Hb|].
  split; [reflexivity|]. split; [reflexivity|].
  split; [vm_compute; discriminate|].
  split; [exact (created_stored_ok_raw HT HT_len32 wit_data 1 Hsz Hb wit2_ob Hc [1; 2] Hwf)|].
  split.
  { intros nd Hin. unfold stored_ok, stored_ok_fsm. destruct Hc as [K T R D].
    apply (created_loads_pnode HT HT_len32 wit_data 1 Hsz Hb wit2_ob K T D).
    exact (enc_nodes_pnode (blen HT wit_data) 1 Hsz Hb [1; 2] Hwf nd Hin). }
  split.
  { intro H. assert (X : sel [1; 2] (blen HT wit_data) 0 = true).
    { apply (H 1 0); vm_compute; reflexivity. }
    vm_compute in X. discriminate. }
  split; vm_compute; reflexivity.
Qed.
Print Assumptions nonval_exact_nonvacuous.

(* item 4: for an arbitrary hash instance groups_full is NOT necessary for the two encoders to emit the
   same bytes.  Blob of 1024 + 64 equal bytes, one chunk group of two chunks (bs = 1), query = chunk 0
   only: the honest encoding is pair (64 bytes) + chunk 0 (1024 bytes), the non-validating encoder sends
   chunk 0 + chunk 1 (1024 + 64 bytes); with a hash whose values happen to equal the data the two strings
   coincide.  (Under cv_injective coincidence needs chunk 0 = (h0 ++ h1)^16, chunk 1 = h0 ++ h1 with
   h0, h1 the chaining values of chunks 0, 1: a fixed point of the hash, which injectivity alone does not
   exclude; so no byte-level "only if" is provable from hash_ok either.) *)
Definition wit3_data : bytes HT := repeat false 1088.
Definition wit3_ob : outboard HT :=
  mkOb PreMem (root_hash HT wit3_data) (mkTree (blen HT wit3_data) 1) (spec_outboard HT (is_post PreMem) wit3_data 1).

Lemma nonval_eq_without_groups_full :
  exists (HO : hops) (data : bytes HO) (bs : N) (ob : outboard HO) (q : ranges),
    cv_len32 HO /\ beq_correct HO /\ created_store HO data bs ob /\
    wf_ranges q = true /\ q <> [] /\ blen HO data <= 2 ^ 63 /\ bs <= 10 /\
    ~ groups_full bs q (blen HO data) /\
    encode_ranges_validated HO data ob q = (Ok tt, flat HO (honest HO data bs q)) /\
    encode_ranges HO data ob q = (Ok tt, flat HO (honest HO data bs q)) /\
    encode_ranges_fsm HO data ob q = (Ok tt, flat HO (honest HO data bs q)).
Proof.
  assert (Hc : created_store HT wit3_data 1 wit3_ob).
  { unfold wit3_ob. apply created_store_mk; [right; right; left; reflexivity|reflexivity]. }
  exists HT, wit3_data, 1, wit3_ob, [0; 1].
  split; [exact HT_len32|]. split; [exact HT_beq|]. split; [exact Hc|].
  split; [reflexivity|]. split; [discriminate|]. split; [vm_compute; discriminate|]. split; [lia|].
  split.
  { intro H. assert (X : sel [0; 1] (blen HT wit3_data) 1 = true).
    { apply (H 0 1); vm_compute; reflexivity. }
    vm_compute in X. discriminate. }
  split; [vm_compute; reflexivity|]. split; vm_compute; reflexivity.
Qed.
Print Assumptions nonval_eq_without_groups_full.
