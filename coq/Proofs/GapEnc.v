(* Gap C04 / C05 / C08 (encoders):
   - the item-stream encoder (traverse_ranges_validated) at the strength of the sync / fsm statements of C05;
   - the validating encoders depend on the store only through the units of the plan (any two stores);
   - the receiver's side of C05: whatever a validating encoder has written, a decoder set up with the true
     root accepts item by item and then fails, if at all, with NotFound - never with a hash mismatch;
   - all five encoders on a created store; at block size 0 and a single range they emit bao's slice. *)
From BaoV Require Import Model.Sync Model.Fsm Spec.RangeSpec Spec.NodeSpec Spec.PlanSpec Spec.EncSpec Spec.HashAssm.
From BaoV Require Import Proofs.RangeBase Proofs.RangeTrunc Proofs.PlanBase Proofs.PlanNav Proofs.ValSpec Proofs.HistOb.
From BaoV Require Import Proofs.BridgeBase Proofs.BridgeTree Proofs.BridgePlan.
From BaoV Require Import Proofs.EncPlan Proofs.EncRec Proofs.EncLoop Proofs.EncMain Proofs.EncTop Proofs.EncThm Proofs.EncNonval
  Proofs.EncNodes.
From BaoV Require Import Proofs.DecForest Proofs.E2EDecode Proofs.E2EMisc.
From BaoV Require Import Proofs.FinalStore Proofs.FinalEnc Proofs.FinalAgree Proofs.GapBao.
From Coq Require Import Lia Arith PeanoNat ZArith ZifyN ZifyNat ZifyBool.
Ltac Zify.zify_post_hook ::= Z.div_mod_to_equations.
Arguments N.add : simpl never.
Arguments N.sub : simpl never.
Arguments N.mul : simpl never.
Arguments N.pow : simpl never.
Arguments N.div : simpl never.
Arguments N.modulo : simpl never.
Arguments N.log2 : simpl never.
Arguments N.min : simpl never.
Arguments N.max : simpl never.

(* ---------- the item stream is the validating encoder, item by item: no premise ---------- *)
Section Mixed.
Variable HO : hops.

Lemma trv_erv (data' : bytes HO) (ob : outboard HO) (q : ranges) :
  exists its : list (item HO),
    encode_ranges_validated HO data' ob q
      = (fst (encode_ranges_validated HO data' ob q), concat (map (item_bytes HO) its)) /\
    traverse_ranges_validated HO data' ob q =
    match fst (encode_ranges_validated HO data' ob q) with
    | Ok _ => Some (ESize (tsize (ob_tree ob)) :: map EItem its ++ [EDone])
    | Err e => Some (ESize (tsize (ob_tree ob)) :: map EItem its ++ [EError e])
    | Panic => None
    end.
Proof.
  rewrite erv_bloop, trv_gloop. destruct (r_is_empty q).
  - exists []. split; reflexivity.
  - rewrite bloop_gloop.
    destruct (gloop HO (load_sync HO ob) (vplan HO ob q) [ob_root ob] (tbs (ob_tree ob)) data') as [r its].
    exists its. cbn [fst snd]. split; [reflexivity|]. unfold trv_result. cbn [fst snd]. reflexivity.
Qed.

(* ---- the loops depend on the store only through the units of the plan ---- *)
Lemma gloop_ext2 (load1 load2 : loader HO) bs (d1 d2 : bytes HO) : forall items stack,
  (forall nd, In nd (plan_nodes items) -> load1 nd = load2 nd) ->
  (forall s sz ir rs, In (CLeaf s sz ir rs) items ->
     read_exact_at HO d1 (to_bytes s) sz = read_exact_at HO d2 (to_bytes s) sz) ->
  gloop HO load1 items stack bs d1 = gloop HO load2 items stack bs d2.
Proof.
  induction items as [|c rest IH]; intros stack H R; [reflexivity|].
  destruct c as [node ir lf rt rs|start sz ir rs]; cbn [gloop].
  - rewrite <- (H node) by (cbn; now left).
    destruct (load1 node) as [[[l r]|]|k|]; try reflexivity.
    destruct stack as [|expected stk]; [reflexivity|].
    rewrite IH; [reflexivity| |].
    + intros nd Hnd. apply H. cbn. now right.
    + intros s sz' ir' rs' Hin. apply (R s sz' ir' rs'). now right.
  - destruct stack as [|expected stk]; [reflexivity|].
    rewrite <- (R start sz ir rs) by now left.
    destruct (read_exact_at HO d1 (to_bytes start) sz) as [buf|k|]; try reflexivity.
    rewrite IH; [reflexivity| |].
    + intros nd Hnd. apply H. exact Hnd.
    + intros s sz' ir' rs' Hin. apply (R s sz' ir' rs'). now right.
Qed.

Lemma bloop_ext2 (load1 load2 : loader HO) bs (d1 d2 : bytes HO) items stack :
  (forall nd, In nd (plan_nodes items) -> load1 nd = load2 nd) ->
  (forall s sz ir rs, In (CLeaf s sz ir rs) items ->
     read_exact_at HO d1 (to_bytes s) sz = read_exact_at HO d2 (to_bytes s) sz) ->
  bloop HO load1 items stack bs d1 = bloop HO load2 items stack bs d2.
Proof. intros H R. rewrite !bloop_gloop. now rewrite (gloop_ext2 load1 load2 bs d1 d2 items stack H R). Qed.

(* two stores (any content whatsoever) with the same tree and root that agree on every unit the plan of the
   query reads - the stored pair of every parent of the plan, the stored bytes of every leaf of the plan -
   get the same result, the same bytes and the same items from the three validating encoders *)
Theorem same_on_units (d1 d2 : bytes HO) (ob1 ob2 : outboard HO) (q : ranges) :
  ob_tree ob1 = ob_tree ob2 -> ob_root ob1 = ob_root ob2 ->
  let plan := pre_order_chunks_iter (ob_tree ob1) (truncate_ranges q (tsize (ob_tree ob1))) 0 in
  (forall s sz ir rs, In (CLeaf s sz ir rs) plan ->
     read_exact_at HO d1 (to_bytes s) sz = read_exact_at HO d2 (to_bytes s) sz) ->
  ((forall nd, In nd (plan_nodes plan) -> load_sync HO ob1 nd = load_sync HO ob2 nd) ->
     encode_ranges_validated HO d1 ob1 q = encode_ranges_validated HO d2 ob2 q /\
     traverse_ranges_validated HO d1 ob1 q = traverse_ranges_validated HO d2 ob2 q) /\
  ((forall nd, In nd (plan_nodes plan) -> load_fsm HO ob1 nd = load_fsm HO ob2 nd) ->
     encode_ranges_validated_fsm HO d1 ob1 q = encode_ranges_validated_fsm HO d2 ob2 q).
Proof.
  intros T R. cbv zeta. intros HR. split.
  - intro HL. split.
    + rewrite !erv_bloop. destruct (r_is_empty q); [reflexivity|].
      unfold vplan. rewrite <- T, <- R. apply bloop_ext2; assumption.
    + rewrite !trv_gloop. destruct (r_is_empty q); [now rewrite T|].
      unfold vplan. rewrite <- T, <- R. f_equal. apply gloop_ext2; assumption.
  - intro HL. rewrite !erv_fsm_bloop. unfold vplan. rewrite <- T, <- R. apply bloop_ext2; assumption.
Qed.

End Mixed.

(* ---------- C05 for the item stream, any store ---------- *)
Section MixedC05.
Variable HO : hops.
Variable data : bytes HO.
Variable bs : N.
Variable q : ranges.
Hypothesis Hwf : wf_ranges q = true.
Hypothesis Hsize : blen HO data <= 2 ^ 63.
Hypothesis Hbs : bs <= 10.
Variable ob : outboard HO.
Hypothesis Htree : ob_tree ob = mkTree (blen HO data) bs.
Hypothesis Hroot : ob_root ob = root_hash HO data.
Local Notation size := (blen HO data).

(* whatever the store and the data file contain: the stream is the size item, items whose bytes are a
   prefix of the honest encoding, and one closing item: Done exactly when everything was sent, an
   Error item naming a hash mismatch (then something is missing) or an io error; None = the task panicked
   (a load that finds no slot) *)
Theorem c05_prefix_mixed (data' : bytes HO) : hash_ok HO ->
  traverse_ranges_validated HO data' ob q = None \/
  exists (its : list (item HO)) (last : eitem HO) (tail : bytes HO),
    traverse_ranges_validated HO data' ob q = Some (ESize size :: map EItem its ++ [last]) /\
    flat HO (honest HO data bs q) = concat (map (item_bytes HO) its) ++ tail /\
    ((last = EDone /\ tail = []) \/
     (exists e, last = EError e /\
        ((is_mismatch (Err e) /\ tail <> []) \/ (exists k, e = EIo k)))).
Proof.
  intro HOK. destruct (trv_erv HO data' ob q) as (its & E1 & E2).
  destruct (encode_ranges_validated HO data' ob q) as [r out] eqn:Erun. cbn [fst snd] in E1, E2.
  apply pair_inj in E1. destruct E1 as [_ Eout].
  destruct (c05_prefix HO data bs q Hwf Hsize Hbs ob Htree Hroot data' r out HOK Erun) as ((tail & Ht & T1 & T2) & Hr & _).
  rewrite Htree in E2. cbn [tsize] in E2.
  destruct Hr as [->|[Hm|[(k & ->)| ->]]].
  - right. exists its, EDone, tail. split; [exact E2|]. split; [rewrite <- Eout; exact Ht|].
    left. split; [reflexivity|]. apply T1. reflexivity.
  - right. assert (exists e, r = Err e) as (e & ->) by (destruct Hm as [[n ->]|[c ->]]; eexists; reflexivity).
    exists its, (EError e), tail. split; [exact E2|]. split; [rewrite <- Eout; exact Ht|].
    right. exists e. split; [reflexivity|]. left. split; [exact Hm|exact (T2 Hm)].
  - right. exists its, (EError (EIo k)), tail. split; [exact E2|]. split; [rewrite <- Eout; exact Ht|].
    right. exists (EIo k). split; [reflexivity|]. right. now exists k.
  - left. exact E2.
Qed.

(* no panic and no io error when every parent of the plan has a slot and the data file has the blob's length *)
Theorem c05_mixed_no_panic (data' : bytes HO) : hash_ok HO ->
  (forall nd, In nd (enc_nodes size bs q) -> exists p, load_sync HO ob nd = Ok (Some p)) ->
  traverse_ranges_validated HO data' ob q <> None /\
  (blen HO data' = size -> forall its k,
     traverse_ranges_validated HO data' ob q <> Some (ESize size :: map EItem its ++ [EError (EIo k)])).
Proof.
  intros HOK Hld. destruct (trv_erv HO data' ob q) as (its & E1 & E2).
  destruct (encode_ranges_validated HO data' ob q) as [r out] eqn:Erun. cbn [fst snd] in E1, E2.
  destruct (c05_prefix HO data bs q Hwf Hsize Hbs ob Htree Hroot data' r out HOK Erun) as (_ & _ & Hn).
  destruct (Hn Hld) as [Hnp Hio]. rewrite Htree in E2. cbn [tsize] in E2. split.
  - rewrite E2. destruct r as [u|e|]; [discriminate|discriminate|congruence].
  - intros Hb its' k. specialize (Hio Hb k). rewrite E2. destruct r as [u|e|]; [| |congruence].
    + intro X. apply Some_inj in X. apply (f_equal (@rev _)) in X. cbn [rev] in X.
      rewrite !rev_app_distr in X. cbn [rev app] in X. discriminate.
    + intro X. apply Some_inj in X. apply (f_equal (@rev _)) in X. cbn [rev] in X.
      rewrite !rev_app_distr in X. cbn [rev app] in X. congruence.
Qed.

(* the first unit of the plan that differs from the blob decides the closing item *)
Theorem c05_detects_mixed (data' : bytes HO) (P1 : list chunk) (u : chunk) (P2 : list chunk) : hash_ok HO ->
  pre_order_chunks_iter (mkTree size bs) (truncate_ranges q size) 0 = P1 ++ u :: P2 ->
  Forall (unit_ok HO data bs (load_sync HO ob) data') P1 ->
  (forall n ir lf rt rs p, u = CParent n ir lf rt rs ->
     load_sync HO ob n = Ok (Some p) -> p <> true_pair HO data n ->
     exists its, traverse_ranges_validated HO data' ob q
                 = Some (ESize size :: map EItem its ++ [EError (EParentHashMismatch n)]) /\
                 concat (map (item_bytes HO) its) = hbs HO data bs q P1) /\
  (forall c sz ir rs buf, u = CLeaf c sz ir rs ->
     read_exact_at HO data' (to_bytes c) sz = Ok buf -> buf <> chunk_bytes HO data c (gE HO data bs c) ->
     exists its, traverse_ranges_validated HO data' ob q
                 = Some (ESize size :: map EItem its ++ [EError (ELeafHashMismatch c)]) /\
                 concat (map (item_bytes HO) its) = hbs HO data bs q P1).
Proof.
  intros HOK EP Hall.
  destruct (c05_detects HO data bs q Hwf Hsize Hbs ob Htree Hroot data' P1 u P2 HOK EP Hall) as (_ & D1 & D2).
  destruct (trv_erv HO data' ob q) as (its & E1 & E2). rewrite Htree in E2. cbn [tsize] in E2. split.
  - intros n ir lf rt rs p Eu Hl Hp. rewrite (D1 n ir lf rt rs p Eu Hl Hp) in E1, E2. cbn [fst snd] in E1, E2.
    apply pair_inj in E1. destruct E1 as [_ Eout]. exists its. split; [exact E2|now symmetry].
  - intros c sz ir rs buf Eu Hr Hb. rewrite (D2 c sz ir rs buf Eu Hr Hb) in E1, E2. cbn [fst snd] in E1, E2.
    apply pair_inj in E1. destruct E1 as [_ Eout]. exists its. split; [exact E2|now symmetry].
Qed.

End MixedC05.

(* ---------- C05 from the receiver's side ---------- *)
Section Recv.
Variable HO : hops.
Hypothesis HOK : hash_ok HO.
Variable data : bytes HO.
Variables (bs : N) (q : ranges).
Hypothesis Hsize : blen HO data <= 2 ^ 63.
Hypothesis Hbs : bs <= 10.
Hypothesis Hwf : wf_ranges q = true.
Local Notation size := (blen HO data).
Local Notation t := (mkTree (blen HO data) bs).
Local Notation root := (root_hash HO data).

(* outcome of a decoder that is fed a prefix of the honest encoding: all of it -> Finished; otherwise the
   stream ends inside item k, which is reported as NotFound *)
Definition recv_outcome (hon : list (item HO)) (k : nat) (tail : bytes HO) (o : outcome) : Prop :=
  (tail = [] /\ k = length hon /\ o = Finished) \/
  (tail <> [] /\ exists it, nth_error hon k = Some it /\ o = Failed (item_err HO true it)).

Lemma lcp_prefix (p tail : bytes HO) d : lcp_len HO p (p ++ tail) d -> d = length p.
Proof.
  intros (L1 & L2 & L3 & L4).
  destruct (Nat.eq_dec d (length p)) as [E|N]; [exact E|exfalso].
  assert (Hd : (d < length p)%nat) by lia.
  apply L4; [exact Hd|rewrite app_length; lia|]. symmetry. apply nth_error_app1. exact Hd.
Qed.

Theorem prefix_accepted (p tail : bytes HO) :
  flat HO (honest HO data bs q) = p ++ tail ->
  exists k : nat,
    (length (flat HO (firstn k (honest HO data bs q))) <= length p)%nat /\
    (forall ys o st, dec_run HO (dec_new HO root t p q) = (ys, o, st) ->
       ys = firstn k (honest HO data bs q) /\ recv_outcome (honest HO data bs q) k tail o) /\
    (forall ys o st, rd_run HO (rd_new HO root q t p) = (ys, o, st) ->
       ys = firstn k (honest HO data bs q) /\ recv_outcome (honest HO data bs q) k tail o).
Proof.
  intro Hp. destruct q as [|x q0] eqn:Eq.
  - destruct (e2e_empty_query HO data p bs root t) as (Hn & _ & (s1 & E1 & _) & (s2 & E2 & _)).
    rewrite Hn in *. cbn in Hp. symmetry in Hp. apply app_eq_nil in Hp. destruct Hp as [-> ->].
    exists 0%nat. split; [cbn; lia|]. split.
    + intros ys o st Hr. rewrite E1 in Hr. apply pair_inj in Hr. destruct Hr as [Hr _].
      apply pair_inj in Hr. destruct Hr as [<- <-]. split; [reflexivity|]. left. repeat split.
    + intros ys o st Hr. rewrite E2 in Hr. apply pair_inj in Hr. destruct Hr as [Hr _].
      apply pair_inj in Hr. destruct Hr as [<- <-]. split; [reflexivity|]. left. repeat split.
  - rewrite <- Eq in *. assert (Hne : q <> []) by (rewrite Eq; discriminate). clear Eq.
    pose proof (decode_cases HO HOK data bs q Hsize Hbs Hwf p Hne) as HC.
    set (hon := honest HO data bs q) in *. clearbody hon.
    destruct HC as [(rest & Ep & (s1 & E1 & _) & (s2 & E2 & _))|(d & k & it & Hd & Hl & K1 & K2 & Hit & G1 & G2)].
    + assert (Ht : tail = []).
      { apply (f_equal (@length _)) in Ep. rewrite Hp, !app_length in Ep. destruct tail; [reflexivity|cbn in Ep; lia]. }
      subst tail. rewrite app_nil_r in Hp.
      exists (length hon). rewrite firstn_all. split; [rewrite Hp; lia|]. split.
      * intros ys o st Hr. rewrite E1 in Hr. apply pair_inj in Hr. destruct Hr as [Hr _].
        apply pair_inj in Hr. destruct Hr as [<- <-]. split; [reflexivity|]. left. repeat split.
      * intros ys o st Hr. rewrite E2 in Hr. apply pair_inj in Hr. destruct Hr as [Hr _].
        apply pair_inj in Hr. destruct Hr as [<- <-]. split; [reflexivity|]. left. repeat split.
    + rewrite Hp in Hl. pose proof (lcp_prefix p tail d Hl) as Ed. subst d.
      assert (Ht : tail <> []).
      { intros ->. rewrite Hp, app_nil_r in Hd. lia. }
      assert (Eb : (length p <? length (flat HO (firstn (S k) hon)))%nat = true) by (apply Nat.ltb_lt; exact K2).
      exists k. split; [exact K1|]. split.
      * intros ys o st Hr. destruct (G1 ys o st Hr) as [-> ->]. split; [reflexivity|].
        right. split; [exact Ht|]. exists it. split; [exact Hit|]. rewrite Eb. reflexivity.
      * intros ys o st Hr. destruct (G2 ys o st Hr) as [-> ->]. split; [reflexivity|].
        right. split; [exact Ht|]. exists it. split; [exact Hit|]. rewrite Eb. reflexivity.
Qed.

End Recv.
