(* C17: full_chunk_groups *)
From BaoV Require Import Spec.RangeSpec Proofs.RangeBase Proofs.RangeUnion Proofs.RangeRound.
From Coq Require Import Lia Arith PeanoNat ZArith ZifyN ZifyNat ZifyBool.

Definition cs (bs s : N) : N := cdiv s (2 ^ bs) * 2 ^ bs.
Definition fl (bs e : N) : N := e / 2 ^ bs * 2 ^ bs.

Definition fstep (bs : N) (res : ranges) (it : N * option N) : ranges :=
  match it with
  | (s, None) => r_union res (r_from_range_from (cs bs s))
  | (s, Some e) => if cs bs s <? fl bs e then r_union res (r_from_range (cs bs s) (fl bs e)) else res
  end.

Definition Ff (bs : N) (it : N * option N) : ranges :=
  match it with
  | (s, None) => r_from_range_from (cs bs s)
  | (s, Some e) => r_from_range (cs bs s) (fl bs e)
  end.

Definition gstep (ceil : N -> N -> option N) (bs : N) (acc : option ranges) (it : N * option N) : option ranges :=
    match acc with
    | None => None
    | Some res =>
      match it with
      | (s, None) => match ceil s bs with None => None | Some st => Some (r_union res (r_from_range_from st)) end
      | (s, Some e) =>
          match ceil s bs with
          | None => None
          | Some st => let en := fcg_floor e bs in
                       Some (if st <? en then r_union res (r_from_range st en) else res)
          end
      end
    end.

Lemma gen_unfold ceil r bs : full_chunk_groups_gen ceil r bs = fold_left (gstep ceil bs) (r_iter r) (Some []).
Proof. reflexivity. Qed.

Lemma gen_eq ceil bs items : forall acc,
  (forall s oe, In (s, oe) items -> ceil s bs = Some (cs bs s)) ->
  (forall s e, In (s, Some e) items -> e < W64) ->
  fold_left (gstep ceil bs) items (Some acc) = Some (fold_left (fstep bs) items acc).
Proof.
  induction items as [|[s oe] items IH]; intros acc HC HE; cbn [fold_left]; [reflexivity|].
  assert (E : gstep ceil bs (Some acc) (s, oe) = Some (fstep bs acc (s, oe))).
  { unfold gstep, fstep. rewrite (HC s oe (or_introl eq_refl)). destruct oe as [e|]; [|reflexivity].
    cbn zeta. rewrite fcg_floor_eq by (apply (HE s); now left). reflexivity. }
  rewrite E. apply IH.
  - intros s' oe' H. apply (HC s' oe'). now right.
  - intros s' e' H. apply (HE s' e'). now right.
Qed.

Lemma fstep_spec bs items : forall acc,
  wf_ranges acc = true ->
  (forall s oe, In (s, oe) items -> cs bs s < W64) ->
  (forall s e, In (s, Some e) items -> e < W64) ->
  wf_ranges (fold_left (fstep bs) items acc) = true /\
  forall x, mem (fold_left (fstep bs) items acc) x = mem acc x || existsb (fun it => mem (Ff bs it) x) items.
Proof.
  induction items as [|[s oe] items IH]; intros acc Hacc HC HE; cbn [fold_left existsb].
  - split; [assumption|]. intro x. now rewrite orb_false_r.
  - assert (H : wf_ranges (fstep bs acc (s, oe)) = true /\
                forall x, mem (fstep bs acc (s, oe)) x = mem acc x || mem (Ff bs (s, oe)) x).
    { pose proof (HC s oe (or_introl eq_refl)) as Hcs.
      destruct oe as [e|]; cbn [fstep Ff].
      - pose proof (HE s e (or_introl eq_refl)) as He.
        assert (Hfl : fl bs e < W64).
        { unfold fl. pose proof (div_mul_le e _ (pow2_pos bs)). lia. }
        destruct (cs bs s <? fl bs e) eqn:E.
        + apply r_union_spec; [assumption | now apply wf_from_range].
        + split; [assumption|]. intro x. rewrite mem_from_range.
          apply N.ltb_ge in E.
          assert (E2 : (cs bs s <=? x) && (x <? fl bs e) = false).
          { apply andb_false_iff. destruct (N.le_gt_cases (cs bs s) x).
            - right. apply N.ltb_ge. lia.
            - left. apply N.leb_gt. lia. }
          rewrite E2. now rewrite orb_false_r.
      - apply r_union_spec; [assumption | now apply wf_from_range_from]. }
    destruct H as [W M].
    destruct (IH (fstep bs acc (s, oe)) W) as [W' M'].
    + intros s' oe' H. apply (HC s' oe'). now right.
    + intros s' e' H. apply (HE s' e'). now right.
    + split; [assumption|]. intro x. rewrite M', M. now rewrite orb_assoc.
Qed.

Lemma Ff_some_iff bs s e c :
  mem (Ff bs (s, Some e)) c = true <-> s <= c / 2 ^ bs * 2 ^ bs /\ (c / 2 ^ bs + 1) * 2 ^ bs <= e.
Proof.
  pose proof (pow2_pos bs) as HD. cbn [Ff]. unfold cs, fl.
  rewrite mem_from_range, andb_true_iff, N.leb_le, N.ltb_lt.
  rewrite <- (div_le_iff c _ _ HD), <- (div_lt_iff c _ _ HD).
  rewrite (cdiv_le s _ _ HD), <- (div_le_iff e _ _ HD). lia.
Qed.
Lemma Ff_none_iff bs s c :
  mem (Ff bs (s, None)) c = true <-> s <= c / 2 ^ bs * 2 ^ bs.
Proof.
  pose proof (pow2_pos bs) as HD. cbn [Ff]. unfold cs.
  rewrite mem_from_range_from, N.leb_le.
  rewrite <- (div_le_iff c _ _ HD). now rewrite (cdiv_le s _ _ HD).
Qed.

Lemma full_gen_spec ceil r bs :
  wf_ranges r = true ->
  (forall s oe, In (s, oe) (r_iter r) -> ceil s bs = Some (cs bs s) /\ cs bs s < W64) ->
  exists res, full_chunk_groups_gen ceil r bs = Some res /\ res = fold_left (fstep bs) (r_iter r) [] /\
    wf_ranges res = true /\
    forall c, mem res c = true <-> (forall c', c' / 2 ^ bs = c / 2 ^ bs -> mem r c' = true).
Proof.
  intros Hwf HC. apply wf_iff in Hwf. destruct Hwf as [Hs Hw].
  pose proof (pow2_pos bs) as HD.
  assert (HE : forall s e, In (s, Some e) (r_iter r) -> e < W64).
  { intros s e H. apply iter_in_some in H. apply (allw_in _ _ Hw). apply H. }
  exists (fold_left (fstep bs) (r_iter r) []). split; [|split; [reflexivity|]].
  { rewrite gen_unfold. apply gen_eq; [|assumption]. intros s oe H. apply (HC s oe H). }
  destruct (fstep_spec bs (r_iter r) [] eq_refl) as [W M]; [intros s oe H; apply (HC s oe H) | assumption |].
  split; [assumption|]. intro c. rewrite M. cbn [mem orb]. rewrite existsb_exists. split.
  - intros ([s [e|]] & Hit & Hc) c' Hc'.
    + apply Ff_some_iff in Hc. apply div_iff in Hc'; [|assumption].
      rewrite mem_iter by assumption. apply existsb_exists. exists (s, Some e). split; [assumption|].
      cbn [covers]. apply andb_true_iff. rewrite N.leb_le, N.ltb_lt. lia.
    + apply Ff_none_iff in Hc. apply div_iff in Hc'; [|assumption].
      rewrite mem_iter by assumption. apply existsb_exists. exists (s, None). split; [assumption|].
      cbn [covers]. apply N.leb_le. lia.
  - intro Hall. set (g := c / 2 ^ bs) in *.
    assert (H0 : mem r (g * 2 ^ bs) = true) by (apply Hall; apply N.div_mul; lia).
    rewrite mem_iter in H0 by assumption. apply existsb_exists in H0.
    destruct H0 as ([s [e|]] & Hit & Hcov); cbn [covers] in Hcov.
    + apply andb_true_iff in Hcov. rewrite N.leb_le, N.ltb_lt in Hcov. destruct Hcov as [Hc1 Hc2].
      destruct (N.le_gt_cases ((g + 1) * 2 ^ bs) e) as [Hle|Hgt].
      * exists (s, Some e). split; [assumption|]. apply Ff_some_iff. fold g. lia.
      * exfalso. assert (He : mem r e = true) by (apply Hall; apply div_iff; [assumption | lia]).
        rewrite (iter_end_not_mem r s e Hs Hit) in He. discriminate.
    + exists (s, None). split; [assumption|]. apply Ff_none_iff. apply N.leb_le in Hcov. fold g. lia.
Qed.

Lemma iter_start_pos r s oe :
  In (s, oe) (r_iter r) -> exists i, Nat.even i = true /\ nth_error r i = Some s.
Proof.
  destruct oe as [e|]; intro H.
  - destruct (iter_pos_some _ _ _ H) as (i & Ei & Hs & _). eauto.
  - apply (iter_pos_none _ _ H).
Qed.

(* release build: correct as long as every start s satisfies s + 2^bs <= 2^64 *)
Lemma full_chunk_groups_rel_spec r bs :
  bs <= 10 -> wf_ranges r = true -> starts_ok_weak r bs ->
  exists res, full_chunk_groups_rel r bs = Some res /\ wf_ranges res = true /\ forall c, mem res c = true <-> (forall c', c' / 2 ^ bs = c / 2 ^ bs -> mem r c' = true).
Proof.
  intros Hbs Hwf Hg.
  destruct (full_gen_spec (fun v s => Some (fcg_ceil_wrapping v s)) r bs Hwf) as (res & H1 & _ & H2 & H3).
  - intros s oe Hit. destruct (iter_start_pos _ _ _ Hit) as (i & Ei & Hn).
    specialize (Hg i s Ei Hn). change (2 ^ 64) with W64 in Hg.
    pose proof (pow2_pos bs) as HD.
    assert (H2p : 2 ^ bs <= 2 ^ 10) by (apply N.pow_le_mono_r; lia).
    change (2 ^ 10) with 1024 in H2p.
    pose proof (cdiv_mul_lt s (2 ^ bs) HD) as Hlt.
    assert (Hcs : cs bs s < W64) by (unfold cs, W64 in *; lia).
    split; [|assumption]. f_equal. rewrite fcg_ceil_wrapping_eq by (unfold W64 in *; lia).
    apply N.mod_small. exact Hcs.
  - exists res. auto.
Qed.

(* debug and release builds agree and are correct when every start s satisfies s + 2^bs < 2^64 *)
Lemma full_chunk_groups_spec r bs :
  bs <= 10 -> wf_ranges r = true -> starts_ok r bs ->
  exists res, full_chunk_groups_dev r bs = Some res /\ full_chunk_groups_rel r bs = Some res /\ wf_ranges res = true /\ forall c, mem res c = true <-> (forall c', c' / 2 ^ bs = c / 2 ^ bs -> mem r c' = true).
Proof.
  intros Hbs Hwf Hg.
  assert (HS : forall s oe, In (s, oe) (r_iter r) -> s + 2 ^ bs < W64 /\ cs bs s < W64).
  { intros s oe Hit. destruct (iter_start_pos _ _ _ Hit) as (i & Ei & Hn).
    specialize (Hg i s Ei Hn). change (2 ^ 64) with W64 in Hg.
    pose proof (pow2_pos bs) as HD.
    assert (H2p : 2 ^ bs <= 2 ^ 10) by (apply N.pow_le_mono_r; lia).
    change (2 ^ 10) with 1024 in H2p.
    pose proof (cdiv_mul_lt s (2 ^ bs) HD) as Hlt.
    unfold cs, W64 in *. lia. }
  destruct (full_gen_spec fcg_ceil_checked r bs Hwf) as (res & H1 & E1 & H2 & H3).
  { intros s oe Hit. destruct (HS s oe Hit) as [Ha Hb]. split; [|assumption].
    now apply fcg_ceil_checked_eq. }
  destruct (full_gen_spec (fun v s => Some (fcg_ceil_wrapping v s)) r bs Hwf) as (res' & H1' & E1' & _).
  { intros s oe Hit. destruct (HS s oe Hit) as [Ha Hb]. split; [|assumption].
    f_equal. now apply fcg_ceil_wrapping_ok. }
  exists res. split; [exact H1|]. split; [|auto]. unfold full_chunk_groups_rel. rewrite H1'. congruence.
Qed.
