(* Writing the leaf items of the honest encoding into a target reproduces exactly the selected chunks. *)
From BaoV Require Import Model.Outboard Spec.RangeSpec Spec.PlanSpec Spec.EncSpec Spec.PTree Spec.SpecTree Spec.HashAssm.
From BaoV Require Import Proofs.RangeBase Proofs.RangeRound Proofs.BridgeBase Proofs.BridgeTree.
From Coq Require Import Lia Arith PeanoNat ZArith ZifyN ZifyNat ZifyBool.
Ltac Zify.zify_post_hook ::= Z.div_mod_to_equations.

Section ListSlices.
Context {A : Type}.
Lemma slice_app_l (X R : list A) k m : (k + m <= length X)%nat ->
  firstn m (skipn k (X ++ R)) = firstn m (skipn k X).
Proof.
  intro H. rewrite skipn_app. replace (k - length X)%nat with O by lia. cbn [skipn].
  rewrite firstn_app, skipn_length. replace (m - (length X - k))%nat with O by lia.
  cbn [firstn]. apply app_nil_r.
Qed.
Lemma slice_app_r (X R : list A) k m : (length X <= k)%nat ->
  firstn m (skipn k (X ++ R)) = firstn m (skipn (k - length X) R).
Proof.
  intro H. rewrite skipn_app. rewrite (skipn_all2 X) by lia. reflexivity.
Qed.
End ListSlices.

Section Leaves.
Variable HO : hops.
Notation bytes := (bytes HO).
Notation item := (item HO).

(* what a decoder does with the leaf items of a response: positioned writes into the target *)
Definition write_leaves (target : bytes) (items : list item) : bytes :=
  fold_left (fun t it => match it with ILeaf off d => write_at HO t off d | IParent _ _ _ => t end) items target.

Lemma write_leaves_app t l r : write_leaves t (l ++ r) = write_leaves (write_leaves t l) r.
Proof. unfold write_leaves. apply fold_left_app. Qed.

Lemma chunk_bytes_slice (x : bytes) c :
  chunk_bytes HO x c (c + 1) = firstn 1024 (skipn (N.to_nat (c * 1024)) x).
Proof. unfold chunk_bytes, slice, take, drop. f_equal. lia. Qed.

(* one positioned write of the bytes of chunks [s, e) *)
Lemma write_chunks (data t : bytes) s e :
  length t = length data -> s < e -> e <= nchunks (blen HO data) ->
  let out := write_at HO t (s * 1024) (chunk_bytes HO data s e) in
  length out = length data /\
  forall c, c < nchunks (blen HO data) ->
    chunk_bytes HO out c (c + 1) =
    if (s <=? c) && (c <? e) then chunk_bytes HO data c (c + 1) else chunk_bytes HO t c (c + 1).
Proof.
  intros Hlen Hse He. cbn zeta.
  pose proof (nchunks_bounds (blen HO data)) as (B1 & B2 & B3).
  pose proof (blen_chunk_bytes HO data s e) as HL.
  set (n := nchunks (blen HO data)) in *. set (d := chunk_bytes HO data s e) in *.
  assert (Hsz : blen HO data = N.of_nat (length data)) by reflexivity.
  assert (Hsz' : blen HO t = N.of_nat (length data)) by (unfold blen; now rewrite Hlen).
  assert (HLd : blen HO d = N.of_nat (length d)) by reflexivity.
  assert (Hoff : s * 1024 <= blen HO data) by lia.
  unfold write_at.
  assert (E0 : (blen HO t <? s * 1024) = false) by (apply N.ltb_ge; lia). rewrite E0.
  unfold take, drop.
  set (off := N.to_nat (s * 1024)). set (L := length d).
  replace (N.to_nat (s * 1024 + blen HO d)) with (off + L)%nat by (subst off L; lia).
  assert (HoffL : (off + L <= length data)%nat) by (subst off L; lia).
  assert (Lf : length (firstn off t) = off) by (rewrite firstn_length; lia).
  split.
  - rewrite !app_length, Lf, skipn_length. fold L. lia.
  - intros c Hc. rewrite (chunk_bytes_slice (firstn off t ++ d ++ skipn (off + L) t)), (chunk_bytes_slice t).
    set (k := N.to_nat (c * 1024)).
    destruct (s <=? c) eqn:E1; cbn [andb].
    + apply N.leb_le in E1. destruct (c <? e) eqn:E2.
      * (* inside the written run *)
        apply N.ltb_lt in E2.
        rewrite slice_app_r by (rewrite Lf; subst k off; lia). rewrite Lf.
        assert (Hd : firstn 1024 (skipn (k - off) d) = chunk_bytes HO data c (c + 1)).
        { rewrite <- (chunk_bytes_take HO data c (c + 1) e) by lia.
          rewrite <- (chunk_bytes_drop HO data s c e) by lia. fold d. unfold take, drop.
          f_equal; [lia | f_equal; subst k off; lia]. }
        rewrite <- Hd.
        destruct (Nat.le_gt_cases (k - off + 1024) L) as [Hfit|Hfit].
        -- apply slice_app_l. exact Hfit.
        -- assert (Z : skipn (off + L) t = []).
           { apply skipn_all2. subst k off L. lia. }
           rewrite Z, app_nil_r. reflexivity.
      * (* after the written run *)
        apply N.ltb_ge in E2.
        rewrite app_assoc.
        assert (Lp : length (firstn off t ++ d) = (off + L)%nat) by (rewrite app_length, Lf; reflexivity).
        assert (Hk : (off + L <= k)%nat) by (subst k off L; lia).
        rewrite slice_app_r by (rewrite Lp; exact Hk). rewrite Lp.
        rewrite <- (firstn_skipn (off + L) t) at 2.
        assert (Lq : length (firstn (off + L) t) = (off + L)%nat) by (rewrite firstn_length; lia).
        rewrite slice_app_r by (rewrite Lq; exact Hk). rewrite Lq. reflexivity.
    + (* before the written run *)
      apply N.leb_gt in E1.
      assert (Hk : (k + 1024 <= off)%nat) by (subst k off; lia).
      rewrite slice_app_l by (rewrite Lf; exact Hk).
      rewrite <- (firstn_skipn off t) at 2.
      rewrite slice_app_l by (rewrite Lf; exact Hk). reflexivity.
Qed.

Lemma enc_rec_unfold f (data : bytes) bs (S0 : N -> bool) a b :
  enc_rec HO (S f) data bs S0 a b =
    if negb (existsb S0 (chunk_range_list a b)) then []
    else if b - a <=? 1 then [ILeaf (a * 1024) (chunk_bytes HO data a b)]
    else
      if forallb S0 (chunk_range_list a b) && (next_pow2 (b - a) <=? 2 ^ bs) then [ILeaf (a * 1024) (chunk_bytes HO data a b)]
      else IParent (a + next_pow2 (b - a) / 2 - 1) (cv HO data a (a + next_pow2 (b - a) / 2) false) (cv HO data (a + next_pow2 (b - a) / 2) b false)
           :: enc_rec HO f data bs S0 a (a + next_pow2 (b - a) / 2) ++ enc_rec HO f data bs S0 (a + next_pow2 (b - a) / 2) b.
Proof. reflexivity. Qed.

Lemma in_range_sel (S0 : N -> bool) a b c :
  existsb S0 (chunk_range_list a b) = false -> (a <=? c) && (c <? b) && S0 c = false.
Proof.
  intro H. destruct ((a <=? c) && (c <? b)) eqn:E; [|reflexivity]. cbn [andb].
  apply andb_true_iff in E. destruct E as [E1 E2]. apply N.leb_le in E1. apply N.ltb_lt in E2.
  destruct (S0 c) eqn:Ec; [|reflexivity]. rewrite <- H. symmetry.
  apply existsb_exists. exists c. split; [apply crl_in; lia | exact Ec].
Qed.
Lemma in_range_all (S0 : N -> bool) a b c :
  forallb S0 (chunk_range_list a b) = true -> (a <=? c) && (c <? b) && S0 c = (a <=? c) && (c <? b).
Proof.
  intro H. destruct ((a <=? c) && (c <? b)) eqn:E; [|reflexivity]. cbn [andb].
  apply andb_true_iff in E. destruct E as [E1 E2]. apply N.leb_le in E1. apply N.ltb_lt in E2.
  rewrite forallb_forall in H. apply H. apply crl_in. lia.
Qed.

(* writing the leaves of the encoding of [a, b) replaces exactly the selected chunks of [a, b) *)
Lemma write_enc_rec (data : bytes) bs (S0 : N -> bool) : forall f a b t,
  length t = length data -> a <= b -> b <= nchunks (blen HO data) -> b - a <= 2 ^ N.of_nat f ->
  let out := write_leaves t (enc_rec HO (S f) data bs S0 a b) in
  length out = length data /\
  forall c, c < nchunks (blen HO data) ->
    chunk_bytes HO out c (c + 1) =
    if (a <=? c) && (c <? b) && S0 c then chunk_bytes HO data c (c + 1) else chunk_bytes HO t c (c + 1).
Proof.
  induction f as [|f IH]; intros a b t Hlen Hab Hb Hf; cbn zeta; rewrite enc_rec_unfold.
  - change (2 ^ N.of_nat 0) with 1 in Hf.
    destruct (existsb S0 (chunk_range_list a b)) eqn:Eex; cbn [negb].
    + pose proof (exists_nonempty _ _ _ Eex) as Hlt.
      assert (E1 : (b - a <=? 1) = true) by (apply N.leb_le; lia). rewrite E1.
      cbn [write_leaves fold_left].
      destruct (write_chunks data t a b Hlen Hlt Hb) as [W1 W2]. split; [exact W1|].
      intros c Hc. rewrite (W2 c Hc).
      assert (b = a + 1) by lia. subst b. rewrite crl_single in Eex. cbn [existsb] in Eex. rewrite orb_false_r in Eex.
      destruct ((a <=? c) && (c <? a + 1)) eqn:E; [|reflexivity]. cbn [andb].
      apply andb_true_iff in E. destruct E as [E2 E3]. apply N.leb_le in E2. apply N.ltb_lt in E3.
      assert (c = a) by lia. subst c. rewrite Eex. reflexivity.
    + cbn [write_leaves fold_left]. split; [exact Hlen|]. intros c Hc. now rewrite in_range_sel.
  - destruct (existsb S0 (chunk_range_list a b)) eqn:Eex; cbn [negb].
    2:{ cbn [write_leaves fold_left]. split; [exact Hlen|]. intros c Hc. now rewrite in_range_sel. }
    pose proof (exists_nonempty _ _ _ Eex) as Hlt.
    destruct (b - a <=? 1) eqn:E1.
    + apply N.leb_le in E1. cbn [write_leaves fold_left].
      destruct (write_chunks data t a b Hlen Hlt Hb) as [W1 W2]. split; [exact W1|].
      intros c Hc. rewrite (W2 c Hc).
      assert (b = a + 1) by lia. subst b. rewrite crl_single in Eex. cbn [existsb] in Eex. rewrite orb_false_r in Eex.
      destruct ((a <=? c) && (c <? a + 1)) eqn:E; [|reflexivity]. cbn [andb].
      apply andb_true_iff in E. destruct E as [E2 E3]. apply N.leb_le in E2. apply N.ltb_lt in E3.
      assert (c = a) by lia. subst c. rewrite Eex. reflexivity.
    + apply N.leb_gt in E1.
      destruct (forallb S0 (chunk_range_list a b)) eqn:Efa; cbn [andb].
      * destruct (next_pow2 (b - a) <=? 2 ^ bs).
        -- cbn [write_leaves fold_left].
           destruct (write_chunks data t a b Hlen Hlt Hb) as [W1 W2]. split; [exact W1|].
           intros c Hc. rewrite (W2 c Hc), in_range_all by assumption. reflexivity.
        -- rewrite of_nat_S in Hf.
           pose proof (half_bounds (b - a) (N.of_nat f) ltac:(lia) Hf) as (A1 & A2 & A3 & A4 & A5). cbv zeta in A1, A2, A3, A4, A5.
           set (h := next_pow2 (b - a) / 2) in *.
           change (write_leaves t (?x :: ?l)) with (write_leaves t l). rewrite write_leaves_app.
           destruct (IH a (a + h) t Hlen ltac:(lia) ltac:(lia) ltac:(lia)) as [L1 C1].
           destruct (IH (a + h) b _ L1 ltac:(lia) ltac:(lia) ltac:(lia)) as [L2 C2].
           split; [exact L2|]. intros c Hc. rewrite (C2 c Hc), (C1 c Hc).
           destruct (a <=? c) eqn:Q1, (c <? a + h) eqn:Q2, (a + h <=? c) eqn:Q3, (c <? b) eqn:Q4, (S0 c);
             cbn [andb]; try reflexivity; exfalso; lia.
      * rewrite of_nat_S in Hf.
        pose proof (half_bounds (b - a) (N.of_nat f) ltac:(lia) Hf) as (A1 & A2 & A3 & A4 & A5). cbv zeta in A1, A2, A3, A4, A5.
        set (h := next_pow2 (b - a) / 2) in *.
        change (write_leaves t (?x :: ?l)) with (write_leaves t l). rewrite write_leaves_app.
        destruct (IH a (a + h) t Hlen ltac:(lia) ltac:(lia) ltac:(lia)) as [L1 C1].
        destruct (IH (a + h) b _ L1 ltac:(lia) ltac:(lia) ltac:(lia)) as [L2 C2].
        split; [exact L2|]. intros c Hc. rewrite (C2 c Hc), (C1 c Hc).
        destruct (a <=? c) eqn:Q1, (c <? a + h) eqn:Q2, (a + h <=? c) eqn:Q3, (c <? b) eqn:Q4, (S0 c);
          cbn [andb]; try reflexivity; exfalso; lia.
Qed.

Lemma bridge_leaves_are_selection (data t : bytes) bs q :
  let size := blen HO data in
  size <= 2 ^ 63 -> length t = length data ->
  let out := write_leaves t (honest HO data bs q) in
  blen HO out = size /\
  forall c, c < nchunks size ->
    chunk_bytes HO out c (c + 1) =
    if sel q size c then chunk_bytes HO data c (c + 1) else chunk_bytes HO t c (c + 1).
Proof.
  cbn zeta. intros Hs Hlen. unfold honest, enc_spec, blob_chunks.
  pose proof (nchunks_small _ Hs) as Hn.
  assert (P : 2 ^ 53 <= 2 ^ 63) by (apply pow2_le_mono; lia).
  change 64%nat with (S 63).
  destruct (write_enc_rec data bs (sel q (blen HO data)) 63 0 (nchunks (blen HO data)) t Hlen ltac:(lia) ltac:(lia))
    as [L C].
  { change (N.of_nat 63) with 63. lia. }
  split; [apply (f_equal N.of_nat) in L; exact L|].
  intros c Hc. rewrite (C c Hc).
  assert (E1 : (0 <=? c) = true) by (apply N.leb_le; lia).
  assert (E2 : (c <? nchunks (blen HO data)) = true) by (apply N.ltb_lt; lia).
  rewrite E1, E2. reflexivity.
Qed.

(* every leaf item is the bytes of a run of selected chunks of one chunk group *)
Lemma items_leaf_in (T : ptree HO) off d :
  In (ILeaf off d) (items_of HO T) -> exists s r, leaf_in HO T s r d /\ off = to_bytes s.
Proof.
  induction T as [|s r d'|nd r lh rh l IHl rr IHr]; cbn [items_of leaf_in].
  - intros [].
  - intros [H|[]]. inversion H; subst. exists s, r. repeat split.
  - intros [H|H]; [discriminate|]. apply in_app_or in H. destruct H as [H|H].
    + destruct (IHl H) as (s & r0 & H1 & H2). exists s, r0. split; [now left | exact H2].
    + destruct (IHr H) as (s & r0 & H1 & H2). exists s, r0. split; [now right | exact H2].
Qed.

Lemma bridge_leaf_items (data : bytes) bs q off d :
  let size := blen HO data in
  size <= 2 ^ 63 ->
  In (ILeaf off d) (honest HO data bs q) ->
  exists s e, off = s * 1024 /\ s < e /\ e <= nchunks size /\ e - s <= 2 ^ bs /\
              d = chunk_bytes HO data s e /\ (forall c, s <= c < e -> sel q size c = true).
Proof.
  cbn zeta. intros Hs H. rewrite <- (bridge_items HO data bs q Hs) in H.
  apply items_leaf_in in H. destruct H as (s & r & H1 & H2).
  destruct (bridge_leaves HO data bs q s r d Hs H1) as (_ & B2 & e & B3 & B4 & B5 & B6 & _ & B8).
  exists s, e. rewrite to_bytes_small in H2 by assumption. repeat split; assumption.
Qed.
End Leaves.
