(* The range set carried by a stack entry of PreOrderPartialChunkIterRef, related to the original query:
   invariant [rs_ok], its consequences for is_empty / is_all, and its preservation by [split_inner]. *)
From BaoV Require Import Model.Iter Spec.PlanSpec Proofs.RangeBase Proofs.RangeTrunc Proofs.RangeUnion Proofs.PlanQuery.
From Coq Require Import Lia Arith PeanoNat ZArith ZifyN ZifyNat ZifyBool.
Open Scope N_scope.

(* ---- structure of r_split ---- *)
Lemma bsearch_from_prefix_lt l x : forall i0 f j,
  bsearch_from l x i0 = (f, j) -> Forall (fun y => y < x) (firstn (j - i0) l).
Proof.
  induction l as [|y t IH]; intros i0 f j H; cbn [bsearch_from] in H.
  - rewrite firstn_nil. constructor.
  - destruct (N.eqb_spec y x) as [E|E].
    + inversion H; subst. rewrite Nat.sub_diag. constructor.
    + destruct (N.ltb_spec x y) as [L|L].
      * inversion H; subst. rewrite Nat.sub_diag. constructor.
      * pose proof (bsearch_from_bounds _ _ _ _ _ H) as (B & _).
        replace (j - i0)%nat with (S (j - S i0)) by lia. cbn [firstn]. constructor; [lia|].
        eapply IH; eauto.
Qed.

Lemma tl_skipn {A} (l : list A) : forall j, tl (skipn j l) = skipn (S j) l.
Proof.
  induction l as [|a l IH]; intro j.
  - rewrite !skipn_nil. reflexivity.
  - destruct j as [|j]; [reflexivity|]. cbn [skipn]. rewrite IH. reflexivity.
Qed.

Lemma tl_firstn {A} (l : list A) j : tl (firstn j l) = firstn (Nat.pred j) (tl l).
Proof. destruct j as [|j]; [reflexivity|]. destruct l as [|a l]; [cbn [firstn tl Nat.pred]; now rewrite firstn_nil|reflexivity]. Qed.

Lemma r_split_struct r at_ x y : ssorted r -> r_split r at_ = (x, y) ->
  (exists i, x = firstn i r) /\ Forall (fun b => b < at_) x /\
  (exists j, y = skipn j r) /\ Forall (fun b => at_ < b) (tl y).
Proof.
  intros Hs H. unfold r_split in H. destruct (bsearch r at_) as [f i] eqn:E.
  pose proof (bsearch_from_prefix_lt r at_ 0 f i E) as PL. rewrite Nat.sub_0_r in PL.
  destruct (bsearch_spec _ _ _ _ Hs E) as (B & S1 & S2).
  assert (C : (cnt r at_ <= S i)%nat).
  { destruct f; [destruct (S1 eq_refl) as (_ & C & _); lia|rewrite (S2 eq_refl); lia]. }
  destruct (Nat.even i) eqn:Ev.
  - apply pair_equal_spec in H; destruct H as [<- <-]. split; [now exists i|]. split; [assumption|]. split; [now exists i|].
    rewrite tl_skipn. now apply skipn_all_gt.
  - destruct f.
    + destruct (S1 eq_refl) as (Hl & C' & _).
      assert (Em : Init.Nat.min (S i) (length r) = S i) by (apply Nat.min_l; lia). rewrite Em in H.
      apply pair_equal_spec in H; destruct H as [<- <-]. split; [now exists i|]. split; [assumption|]. split; [exists (S i); reflexivity|].
      rewrite tl_skipn. apply skipn_all_gt; [assumption|]. lia.
    + apply pair_equal_spec in H; destruct H as [<- <-]. split; [now exists i|]. split; [assumption|]. split; [exists (Nat.pred i); reflexivity|].
      rewrite tl_skipn. apply skipn_all_gt; [assumption|].
      rewrite (S2 eq_refl). destruct i as [|i]; [discriminate Ev|]. cbn [Nat.pred]. lia.
Qed.

(* ---- the invariant ---- *)
Record rs_ok (q rs : ranges) (a e : N) (rm : bool) : Prop := mk_rs_ok {
  ro_wf : wf_ranges rs = true;
  ro_mem : forall c, inrng a e rm c -> mem rs c = mem q c;
  ro_end : rm = false -> Forall (fun b => b < e) rs;
  ro_tl : Forall (fun b => a < b) (tl rs);
  ro_norm : forall x, rs = [x] -> x <= a -> x = 0 }.

Lemma rs_ok_root q e : wf_ranges q = true -> rs_ok q q 0 e true.
Proof.
  intro W. pose proof W as W'. apply wf_iff in W'. destruct W' as [Hs _].
  constructor; [assumption|reflexivity|discriminate| |].
  - destruct q as [|x t]; [constructor|]. cbn [tl]. apply (Forall_gt_trans 0 x); [lia|now apply ss_head_lt].
  - intros x _ Hx. lia.
Qed.

(* right spine: the end of the interval is irrelevant *)
Lemma rs_ok_rm_end q rs a e e' : rs_ok q rs a e true -> rs_ok q rs a e' true.
Proof.
  intros [W M En T Nm]. constructor; [assumption| |discriminate|assumption|assumption].
  intros c [C1 C2]. apply M. split; [assumption|now left].
Qed.

Lemma mem_head_le x t c : x <= c -> mem (x :: t) c = negb (mem t c).
Proof. intro H. cbn [mem]. assert (E : (x <=? c) = true) by (apply N.leb_le; lia). now rewrite E. Qed.
Lemma mem_head_gt x t c : c < x -> mem (x :: t) c = false.
Proof. intro H. cbn [mem]. assert (E : (x <=? c) = false) by (apply N.leb_gt; lia). now rewrite E. Qed.

Lemma rs_ok_empty q rs a e rm : ssorted q -> a < e -> rs_ok q rs a e rm ->
  r_is_empty rs = negb (q_any q a e rm).
Proof.
  intros Hs Hae [W M En T Nm]. apply wf_iff in W. destruct W as [Hrs _].
  destruct rs as [|b0 rest]; cbn [r_is_empty].
  - symmetry. apply negb_true_iff. apply q_any_false; [assumption|assumption|].
    intros c Hc. rewrite <- M by assumption. reflexivity.
  - symmetry. apply negb_false_iff. apply q_any_spec; [assumption|assumption|].
    cbn [tl] in T. destruct (N.le_gt_cases b0 a) as [L|L].
    + exists a. split; [now apply inrng_start|]. rewrite <- M by now apply inrng_start.
      rewrite mem_head_le by assumption. now rewrite mem_all_gt.
    + exists b0. assert (I : inrng a e rm b0).
      { split; [lia|]. destruct rm; [now left|right]. specialize (En eq_refl). inversion En; subst. assumption. }
      split; [assumption|]. rewrite <- M by assumption. rewrite mem_head_le by lia.
      rewrite mem_all_gt; [reflexivity|now apply ss_head_lt].
Qed.

Lemma rs_ok_all q rs a e rm : ssorted q -> a < e -> rs_ok q rs a e rm ->
  r_is_all rs = q_full q a e rm.
Proof.
  intros Hs Hae [W M En T Nm]. apply wf_iff in W. destruct W as [Hrs _].
  destruct (q_full q a e rm) eqn:Ef.
  - rewrite q_full_spec in Ef by assumption.
    assert (Ha : mem rs a = true) by (rewrite M by (now apply inrng_start); apply Ef; now apply inrng_start).
    destruct rs as [|b0 rest]; [discriminate Ha|]. cbn [tl] in T.
    destruct (N.le_gt_cases b0 a) as [L|L]; [|rewrite mem_head_gt in Ha by assumption; discriminate].
    destruct rest as [|b1 rest'].
    + rewrite (Nm b0 eq_refl L). reflexivity.
    + exfalso. inversion T as [|? ? T1 T2]; subst.
      assert (I : inrng a e rm b1).
      { split; [lia|]. destruct rm; [now left|right]. specialize (En eq_refl).
        inversion En as [|? ? _ En']; subst. inversion En'; subst. assumption. }
      pose proof (Ef b1 I) as Hb. rewrite <- M in Hb by assumption.
      rewrite mem_head_le in Hb by lia. rewrite mem_head_le in Hb by lia.
      rewrite mem_all_gt in Hb; [discriminate|]. apply ss_head_lt. eapply ss_tail; eauto.
  - destruct (r_is_all rs) eqn:Ea; [|reflexivity]. exfalso.
    assert (E0 : rs = [0]).
    { unfold r_is_all in Ea. destruct rs as [|x [|y t]]; try discriminate. apply N.eqb_eq in Ea. now subst. }
    subst rs. assert (q_full q a e rm = true); [|congruence].
    apply q_full_spec; [assumption|assumption|]. intros c Hc. rewrite <- M by assumption.
    cbn [mem]. destruct c; reflexivity.
Qed.

(* normalisation step of split_inner *)
Definition norm1 (r : ranges) (start : N) : ranges :=
  match r with [x] => if x <=? start then [0] else r | _ => r end.

Lemma split_inner_norm r start mid_ :
  split_inner r start mid_ = (norm1 (fst (r_split r mid_)) start, norm1 (snd (r_split r mid_)) mid_).
Proof. unfold split_inner. destruct (r_split r mid_) as [a b]. reflexivity. Qed.

Lemma norm1_cases r start : norm1 r start = r \/ (norm1 r start = [0] /\ exists x, r = [x] /\ x <= start).
Proof.
  unfold norm1. destruct r as [|x [|y t]]; try (now left).
  destruct (N.leb_spec x start) as [L|L]; [right|now left]. split; [reflexivity|]. exists x. now split.
Qed.

Lemma norm1_single r start x : norm1 r start = [x] -> x <= start -> x = 0.
Proof.
  intros H Hx. unfold norm1 in H. destruct r as [|y [|z t]]; try discriminate.
  destruct (N.leb_spec y start) as [L|L]; injection H as <-; lia.
Qed.

Lemma split_ok q rs a m e rm l r : rs_ok q rs a e rm -> a < m -> m < e ->
  split_inner rs a m = (l, r) -> rs_ok q l a m false /\ rs_ok q r m e rm.
Proof.
  intros [W M En T Nm] Ham Hme H.
  pose proof (split_inner_spec rs a m W) as SP. rewrite H in SP. destruct SP as (Wl & Wr & Ml & Mr).
  rewrite split_inner_norm in H. injection H as Hl Hr.
  pose proof W as W'. apply wf_iff in W'. destruct W' as [Hrs _].
  destruct (r_split rs m) as [x y] eqn:Es. cbn [fst snd] in Hl, Hr.
  destruct (r_split_struct rs m x y Hrs Es) as ((i & Hx) & Fx & (j & Hy) & Fy).
  split.
  - constructor.
    + assumption.
    + intros c [C1 [C2|C2]]; [discriminate|]. rewrite Ml by assumption. apply M. split; [assumption|]. destruct rm; [now left|right; lia].
    + intros _. destruct (norm1_cases x a) as [E|[E _]]; rewrite <- Hl, E; [assumption|].
      constructor; [lia|constructor].
    + destruct (norm1_cases x a) as [E|[E _]]; rewrite <- Hl, E; [|constructor].
      rewrite Hx, tl_firstn. now apply Forall_firstn.
    + intros z Hz Hza. rewrite <- Hl in Hz. eapply norm1_single; eauto.
  - constructor.
    + assumption.
    + intros c [C1 C2]. rewrite Mr by assumption. apply M. split; [lia|assumption].
    + intros Hrm. specialize (En Hrm). destruct (norm1_cases y m) as [E|[E _]]; rewrite <- Hr, E.
      * rewrite Hy. now apply Forall_skipn'.
      * constructor; [lia|constructor].
    + destruct (norm1_cases y m) as [E|[E _]]; rewrite <- Hr, E; [assumption|constructor].
    + intros z Hz Hzm. rewrite <- Hr in Hz. eapply norm1_single; eauto.
Qed.
