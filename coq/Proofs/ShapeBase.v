(* L5: the recursive Shape and the in-order node numbering: arithmetic foundations. *)
From BaoV Require Import Model.Iter Spec.NodeSpec Proofs.NodeLevel Proofs.NodeBits Proofs.NodeAlgebra Proofs.NodeRestricted.
From Coq Require Import ZArith Lia.
Open Scope N_scope.
Ltac Zify.zify_post_hook ::= Z.to_euclidean_division_equations.

(* ---- powers of two ---- *)
Lemma pow2_lt_iff a b : 2 ^ a < 2 ^ b <-> a < b.
Proof. symmetry. apply N.pow_lt_mono_r_iff. lia. Qed.

Lemma pow2_le_iff a b : 2 ^ a <= 2 ^ b <-> a <= b.
Proof. symmetry. apply N.pow_le_mono_r_iff. lia. Qed.

Lemma pow2_lt_inv a b : 2 ^ a < 2 ^ b -> a < b.
Proof. apply pow2_lt_iff. Qed.
Lemma pow2_le_inv a b : 2 ^ a <= 2 ^ b -> a <= b.
Proof. apply pow2_le_iff. Qed.
Lemma pow2_lt_mono a b : a < b -> 2 ^ a < 2 ^ b.
Proof. apply pow2_lt_iff. Qed.
Lemma pow2_le_mono a b : a <= b -> 2 ^ a <= 2 ^ b.
Proof. apply pow2_le_iff. Qed.

Lemma pow2_ge1 n : 1 <= 2 ^ n.
Proof. pose proof (pow2_pos n). lia. Qed.

Lemma pow2_ge2 n : 1 <= n -> 2 <= 2 ^ n.
Proof. intros H. rewrite (pow2_pred n) by lia. pose proof (pow2_pos (n - 1)). lia. Qed.

Lemma pow2_split a b : b <= a -> 2 ^ a = 2 ^ (a - b) * 2 ^ b.
Proof. intros H. rewrite <- pow2_add. f_equal. lia. Qed.

Lemma next_pow2_between l m : 2 ^ l < m -> m <= 2 ^ (l + 1) -> next_pow2 m = 2 ^ (l + 1).
Proof.
  intros H1 H2. unfold next_pow2. pose proof (pow2_pos l) as Hp.
  destruct m as [|p]; [lia|].
  destruct (N.eq_dec (N.pos p) (2 ^ (l + 1))) as [E|E].
  - rewrite E, N.log2_pow2 by lia. now rewrite N.eqb_refl.
  - assert (El : N.log2 (N.pos p) = l).
    { apply N.log2_unique; [lia|]. rewrite <- N.add_1_r. lia. }
    rewrite El. destruct (N.eqb_spec (N.pos p) (2 ^ l)); [lia|]. now rewrite N.add_1_r.
Qed.

Lemma next_pow2_1 : next_pow2 1 = 1. Proof. reflexivity. Qed.

Lemma level_of_size m : 2 < m -> exists l, 1 <= l /\ 2 ^ l < m /\ m <= 2 ^ (l + 1).
Proof.
  intros H. exists (N.log2 (m - 1)).
  pose proof (N.log2_spec (m - 1) ltac:(lia)) as [S1 S2]. rewrite <- N.add_1_r in S2.
  assert (H1 : N.log2 2 <= N.log2 (m - 1)) by (apply N.log2_le_mono; lia).
  change (N.log2 2) with 1 in H1. lia.
Qed.

(* ---- nodes written as  first id of the subtree + 2^level - 1 ---- *)
Definition spine (s j : N) : N := s + 2 ^ j - 1.

Lemma spine_succ s j : spine s j + 1 = s + 2 ^ j.
Proof. unfold spine. pose proof (pow2_pos j). lia. Qed.

Lemma spine_decomp s j q : s = q * 2 ^ (j + 1) -> spine s j + 1 = (2 * q + 1) * 2 ^ j.
Proof. intros ->. rewrite spine_succ, pow2_succ. lia. Qed.

Lemma spine_level s j q : s = q * 2 ^ (j + 1) -> level (spine s j) = j.
Proof. intros H. exact (proj1 (decomp_unique _ _ _ (spine_decomp s j q H))). Qed.

Lemma spine_index s j q : s = q * 2 ^ (j + 1) -> sp_index (spine s j) = q.
Proof. intros H. exact (proj2 (decomp_unique _ _ _ (spine_decomp s j q H))). Qed.

Lemma spine_0 s : spine s 0 = s.
Proof. unfold spine. rewrite N.pow_0_r. lia. Qed.

Lemma spine_start s j q : s = q * 2 ^ (j + 1) -> sp_node_start (spine s j) = s.
Proof.
  intros H. rewrite start_eq, (spine_level s j q H), (spine_index s j q H). rewrite H, pow2_succ. lia.
Qed.

Lemma spine_left s j q : 1 <= j -> s = q * 2 ^ (j + 1) ->
  left_child (spine s j) = Some (spine s (j - 1)).
Proof.
  intros Hj H. pose proof (spine_level s j q H) as Lv. pose proof (spine_index s j q H) as Ix.
  rewrite left_child_spec by lia. f_equal.
  unfold sp_left, sp_node. rewrite <- level_is_sp_level, Lv, Ix. unfold spine.
  rewrite H, pow2_succ, (pow2_pred j) by lia. pose proof (pow2_pos (j - 1)). nia.
Qed.

Lemma spine_leaf s q : s = q * 2 ^ 1 -> left_child (spine s 0) = None.
Proof.
  intros H. pose proof (spine_level s 0 q H) as Lv.
  now destruct (leaf_no_children _ Lv) as [E _].
Qed.

Lemma spine_right s j q : 1 <= j -> s = q * 2 ^ (j + 1) ->
  right_child (spine s j) = Some (spine (s + 2 ^ j) (j - 1)).
Proof.
  intros Hj H. pose proof (spine_level s j q H) as Lv. pose proof (spine_index s j q H) as Ix.
  rewrite right_child_spec by lia. f_equal.
  unfold sp_right, sp_node. rewrite <- level_is_sp_level, Lv, Ix. unfold spine.
  rewrite H, pow2_succ, (pow2_pred j) by lia. pose proof (pow2_pos (j - 1)). nia.
Qed.

(* parent of a left / right child *)
Lemma spine_parent_l s j q : j <= 61 -> s = q * 2 ^ (j + 2) ->
  parent (spine s j) = Some (spine s (j + 1)).
Proof.
  intros Hj H.
  assert (H' : s = (2 * q) * 2 ^ (j + 1)).
  { rewrite H. replace (j + 2) with (j + 1 + 1) by lia. rewrite (pow2_succ (j + 1)). lia. }
  pose proof (spine_level s j _ H') as Lv. pose proof (spine_index s j _ H') as Ix.
  rewrite parent_gen by lia. f_equal.
  unfold sp_parent, sp_node. rewrite <- level_is_sp_level, Lv, Ix.
  replace (2 * q / 2) with q by (rewrite N.mul_comm, N.div_mul; lia).
  unfold spine. rewrite H. replace (j + 2) with (j + 1 + 1) by lia. rewrite (pow2_succ (j + 1)).
  pose proof (pow2_pos (j + 1)). nia.
Qed.

Lemma spine_parent_r s j q : j <= 61 -> s = q * 2 ^ (j + 2) ->
  parent (spine (s + 2 ^ (j + 1)) j) = Some (spine s (j + 1)).
Proof.
  intros Hj H.
  assert (H' : s + 2 ^ (j + 1) = (2 * q + 1) * 2 ^ (j + 1)).
  { rewrite H. replace (j + 2) with (j + 1 + 1) by lia. rewrite (pow2_succ (j + 1)). lia. }
  pose proof (spine_level _ j _ H') as Lv. pose proof (spine_index _ j _ H') as Ix.
  rewrite parent_gen by lia. f_equal.
  unfold sp_parent, sp_node. rewrite <- level_is_sp_level, Lv, Ix.
  replace ((2 * q + 1) / 2) with q by (apply N.div_unique with (r := 1); lia).
  unfold spine. rewrite H. replace (j + 2) with (j + 1 + 1) by lia. rewrite (pow2_succ (j + 1)).
  pose proof (pow2_pos (j + 1)). nia.
Qed.

Lemma spine_mono s j j' : j <= j' -> spine s j <= spine s j'.
Proof. intros H. unfold spine. apply pow2_le_mono in H. lia. Qed.

(* ---- the tree over B chunk groups: len = 2 * leaves - 1 ---- *)
Definition shlen (B : N) : N := 2 * ((B + 1) / 2) - 1.

Lemma shlen_leaf B s u : s = 2 * u -> (s < shlen B <-> s < B).
Proof. intros ->. unfold shlen. lia. Qed.

Lemma shlen_inner B s u p v : s = 2 * u -> p = 2 * v -> 1 <= v -> (s + p - 1 < shlen B <-> s + p < B).
Proof. intros -> -> Hv. unfold shlen. lia. Qed.

Lemma shlen_le B : 1 <= B -> shlen B <= B.
Proof. intros H. unfold shlen. lia. Qed.

Lemma shlen_ge B : 1 <= B -> B <= shlen B + 1.
Proof. intros H. unfold shlen. lia. Qed.

(* Shape(a, m) inside the tree over B groups: root level l, a = c * 2^(l+1);
   it is either the complete tree over 2^(l+1) groups or reaches the end of the tree *)
Definition wf (B a m l c : N) : Prop :=
  1 <= m /\ a + m <= B /\ a = c * 2 ^ (l + 1) /\ m <= 2 ^ (l + 1) /\
  (2 ^ l < m \/ l = 0) /\ (a + m = B \/ m = 2 ^ (l + 1)).

Lemma wf_small B a m l c : wf B a m l c -> m <= 2 -> l = 0.
Proof.
  intros (H1 & H2 & H3 & H4 & H5 & H6) Hm. destruct H5 as [H5|H5]; [|assumption].
  destruct (N.eq_dec l 0) as [E|E]; [assumption|].
  pose proof (pow2_ge2 l ltac:(lia)). lia.
Qed.

Lemma wf_large B a m l c : wf B a m l c -> 2 < m -> 1 <= l /\ 2 ^ l < m.
Proof.
  intros (H1 & H2 & H3 & H4 & H5 & H6) Hm.
  destruct (N.eq_dec l 0) as [E|E].
  - rewrite E in H4. change (2 ^ (0 + 1)) with 2 in H4. lia.
  - split; [lia|]. destruct H5; [assumption|lia].
Qed.

Lemma wf_half B a m l c : wf B a m l c -> 2 < m -> next_pow2 m / 2 = 2 ^ l.
Proof.
  intros W Hm. destruct (wf_large _ _ _ _ _ W Hm) as [Hl Hlt].
  destruct W as (H1 & H2 & H3 & H4 & H5 & H6).
  rewrite (next_pow2_between l m Hlt H4), pow2_succ.
  rewrite N.mul_comm, N.div_mul; lia.
Qed.

Lemma wf_level B a m l c : wf B a m l c -> B <= 2 ^ 60 -> l <= 60.
Proof.
  intros (H1 & H2 & H3 & H4 & H5 & H6) HB. destruct H5 as [H5|H5]; [|lia].
  assert (H : 2 ^ l < 2 ^ 60) by lia. apply pow2_lt_inv in H. clear - H. lia.
Qed.

Lemma wf_root_in B a m l c : wf B a m l c -> spine a l < shlen B.
Proof.
  intros (H1 & H2 & H3 & H4 & H5 & H6).
  destruct (N.eq_dec l 0) as [E|E].
  - subst l. rewrite spine_0. change (2 ^ (0 + 1)) with 2 in *.
    apply (shlen_leaf B a c); lia.
  - unfold spine. rewrite pow2_succ in H3.
    apply (shlen_inner B a (c * 2 ^ l) (2 ^ l) (2 ^ (l - 1)));
      [lia | apply pow2_pred; lia | apply pow2_ge1 | lia].
Qed.

Lemma wf_left B a m l c : wf B a m l c -> 2 < m -> wf B a (2 ^ l) (l - 1) (2 * c).
Proof.
  intros W Hm. destruct (wf_large _ _ _ _ _ W Hm) as [Hl Hlt].
  destruct W as (H1 & H2 & H3 & H4 & H5 & H6).
  unfold wf. replace (l - 1 + 1) with l by lia.
  pose proof (pow2_pos l). pose proof (pow2_pos (l - 1)).
  repeat split; try lia.
  - rewrite H3, pow2_succ. lia.
  - left. apply pow2_lt_mono. lia.
Qed.

Lemma wf_right B a m l c : wf B a m l c -> 2 < m ->
  exists l' c', l' <= l - 1 /\ wf B (a + 2 ^ l) (m - 2 ^ l) l' c' /\
    (l' = l - 1 \/ shlen B <= spine (a + 2 ^ l) (l' + 1)).
Proof.
  intros W Hm. destruct (wf_large _ _ _ _ _ W Hm) as [Hl Hlt].
  destruct W as (H1 & H2 & H3 & H4 & H5 & H6).
  pose proof (pow2_pos l) as Pl.
  assert (HB : 1 <= B) by lia.
  pose proof (shlen_le B HB) as SL.
  assert (Ea : a + 2 ^ l = (2 * c + 1) * 2 ^ l) by (rewrite H3, pow2_succ; lia).
  rewrite pow2_succ in H4.
  destruct (N.le_gt_cases (m - 2 ^ l) 2) as [Hs|Hb].
  - (* the right part is one leaf *)
    exists 0, ((2 * c + 1) * 2 ^ (l - 1)). change (2 ^ (0 + 1)) with 2.
    split; [lia|]. split.
    + repeat split; try lia.
      * rewrite Ea. rewrite (pow2_pred l) by lia. lia.
      * destruct H6 as [H6|H6]; [left; lia|right].
        rewrite pow2_succ in H6. pose proof (pow2_ge2 l Hl). lia.
    + destruct (N.eq_dec l 1) as [E|E]; [left; lia|right].
      unfold spine. change (2 ^ (0 + 1)) with 2.
      destruct H6 as [H6|H6].
      * assert (Ev : exists u, a + 2 ^ l = 2 * u).
        { exists ((2 * c + 1) * 2 ^ (l - 1)). rewrite Ea, (pow2_pred l) by lia. lia. }
        destruct Ev as [u Eu]. unfold shlen. lia.
      * rewrite pow2_succ in H6.
        assert (4 <= 2 ^ l).
        { rewrite (pow2_pred l) by lia. pose proof (pow2_ge2 (l - 1) ltac:(lia)). lia. }
        lia.
  - destruct (level_of_size _ Hb) as (l' & Hl' & Hlo & Hhi).
    assert (Lt : l' < l).
    { apply pow2_lt_inv. lia. }
    exists l', ((2 * c + 1) * 2 ^ (l - (l' + 1))).
    split; [lia|]. split.
    + repeat split; try lia.
      * rewrite Ea, <- N.mul_assoc, <- pow2_split by lia. reflexivity.
      * destruct H6 as [H6|H6]; [left; lia|right].
        rewrite pow2_succ in H6.
        assert (2 ^ l <= 2 ^ (l' + 1)) by lia.
        apply pow2_le_inv in H. assert (El : l = l' + 1) by lia. rewrite El in *. lia.
    + destruct (N.eq_dec l' (l - 1)) as [E|E]; [left; assumption|right].
      destruct H6 as [H6|H6].
      * unfold spine.
        assert (Ev : exists u, a + 2 ^ l = 2 * u).
        { exists ((2 * c + 1) * 2 ^ (l - 1)). rewrite Ea, (pow2_pred l) by lia. lia. }
        destruct Ev as [u Eu]. rewrite (pow2_succ l') in *. unfold shlen. lia.
      * exfalso. rewrite pow2_succ in H6.
        assert (2 ^ l <= 2 ^ (l' + 1)) by lia.
        apply pow2_le_inv in H. lia.
Qed.

(* induction over the Shape recursion, carrying the fuel of the Spec functions *)
Lemma shape_ind (B : N) (P : nat -> N -> N -> N -> N -> Prop) :
  (forall f a m c, wf B a m 0 c -> m <= 2 -> P (S f) a m 0 c) ->
  (forall f a m l c l' c', wf B a m l c -> 2 < m -> 1 <= l -> l' <= l - 1 ->
     wf B a (2 ^ l) (l - 1) (2 * c) -> wf B (a + 2 ^ l) (m - 2 ^ l) l' c' ->
     (l' = l - 1 \/ shlen B <= spine (a + 2 ^ l) (l' + 1)) ->
     2 ^ l <= 2 * 2 ^ N.of_nat f -> m - 2 ^ l <= 2 * 2 ^ N.of_nat f ->
     P (S f) a (2 ^ l) (l - 1) (2 * c) -> P (S f) (a + 2 ^ l) (m - 2 ^ l) l' c' ->
     P (S (S f)) a m l c) ->
  forall f a m l c, wf B a m l c -> m <= 2 * 2 ^ N.of_nat f -> P (S f) a m l c.
Proof.
  intros Hleaf Hnode. induction f as [|f IH]; intros a m l c W Hm.
  - change (2 ^ N.of_nat 0) with 1 in Hm.
    pose proof (wf_small _ _ _ _ _ W ltac:(lia)) as ->. apply Hleaf; [assumption|lia].
  - destruct (N.le_gt_cases m 2) as [Hs|Hb].
    + pose proof (wf_small _ _ _ _ _ W Hs) as ->. now apply Hleaf.
    + destruct (wf_large _ _ _ _ _ W Hb) as [Hl Hlt].
      pose proof (wf_left _ _ _ _ _ W Hb) as WL.
      destruct (wf_right _ _ _ _ _ W Hb) as (l' & c' & Hl' & WR & Hsp).
      rewrite Nat2N.inj_succ, N.pow_succ_r' in Hm.
      assert (Hle : 2 ^ l <= 2 * 2 ^ N.of_nat f).
      { assert (Hx : 2 ^ l < 2 ^ (N.of_nat f + 2)).
        { replace (N.of_nat f + 2) with (N.of_nat f + 1 + 1) by lia. rewrite !pow2_succ. lia. }
        apply pow2_lt_inv in Hx. rewrite <- pow2_succ. apply pow2_le_mono. lia. }
      assert (Hle' : m - 2 ^ l <= 2 * 2 ^ N.of_nat f).
      { destruct W as (H1 & H2 & H3 & H4 & H5 & H6). rewrite pow2_succ in H4. lia. }
      apply (Hnode f a m l c l' c'); try assumption.
      * apply IH; assumption.
      * apply IH; assumption.
Qed.

(* ---- navigation inside the tree of length len: exact values ---- *)
Lemma rd_loop_exact len s l' : forall (g fuel : nat) q, (g < fuel)%nat ->
  s = q * 2 ^ (l' + N.of_nat g + 1) -> spine s l' < len ->
  (g = 0%nat \/ len <= spine s (l' + 1)) ->
  right_descendant_loop fuel (spine s (l' + N.of_nat g)) len = Some (spine s l').
Proof.
  induction g as [|g IH]; intros fuel q Hf Hs Hin Hout.
  - destruct fuel as [|f]; [lia|]. cbn [right_descendant_loop].
    rewrite N.add_0_r. destruct (N.leb_spec len (spine s l')); [lia|reflexivity].
  - destruct fuel as [|f]; [lia|]. cbn [right_descendant_loop].
    destruct Hout as [Hout|Hout]; [lia|].
    pose proof (spine_mono s (l' + 1) (l' + N.of_nat (S g)) ltac:(lia)) as Hm.
    destruct (N.leb_spec len (spine s (l' + N.of_nat (S g)))) as [_|Hlt]; [|lia].
    rewrite (spine_left s (l' + N.of_nat (S g)) q) by (try assumption; lia).
    replace (l' + N.of_nat (S g) - 1) with (l' + N.of_nat g) by lia.
    apply (IH f (2 * q)); [lia| |assumption|right; assumption].
    rewrite Hs. replace (l' + N.of_nat (S g) + 1) with (l' + N.of_nat g + 1 + 1) by lia.
    rewrite (pow2_succ (l' + N.of_nat g + 1)). lia.
Qed.

Lemma rp_loop_exact len a l c : a = c * 2 ^ (l + 1) -> l <= 61 -> spine a l < len ->
  forall (g fuel : nat) j, (g < fuel)%nat -> j + N.of_nat g + 1 = l ->
  (g = 0%nat \/ len <= spine (a + 2 ^ l) (j + 1)) ->
  restricted_parent_loop fuel (spine (a + 2 ^ l) j) len = Some (spine a l).
Proof.
  intros Ha Hl Hin. induction g as [|g IH]; intros fuel j Hf Hj Hout.
  - destruct fuel as [|f]; [lia|]. cbn [restricted_parent_loop].
    assert (El : l = j + 1) by lia. rewrite El in *.
    rewrite (spine_parent_r a j c) by (try lia; rewrite Ha; f_equal; f_equal; lia).
    destruct (N.ltb_spec (spine a (j + 1)) len); [reflexivity|lia].
  - destruct fuel as [|f]; [lia|]. cbn [restricted_parent_loop].
    destruct Hout as [Hout|Hout]; [lia|].
    assert (Es : a + 2 ^ l = ((2 * c + 1) * 2 ^ (l - (j + 2))) * 2 ^ (j + 2)).
    { rewrite <- N.mul_assoc, <- pow2_split by lia. rewrite Ha, pow2_succ. lia. }
    rewrite (spine_parent_l _ j _ ltac:(lia) Es).
    destruct (N.ltb_spec (spine (a + 2 ^ l) (j + 1)) len) as [Hlt|_]; [lia|].
    apply IH; [lia|lia|].
    destruct g; [left; reflexivity|right].
    pose proof (spine_mono (a + 2 ^ l) (j + 1) (j + 1 + 1) ltac:(lia)). lia.
Qed.

Lemma nav_a B a m l c : wf B a m l c -> a = c * 2 ^ (l + 1).
Proof. intros W. now destruct W as (H1 & H2 & H3 & _). Qed.

Lemma nav_l60 B a m l c : B <= 2 ^ 60 -> wf B a m l c -> l <= 60.
Proof. intros HB W. exact (wf_level _ _ _ _ _ W HB). Qed.

Lemma nav_left B a m l c : wf B a m l c -> 1 <= l -> left_child (spine a l) = Some (spine a (l - 1)).
Proof. intros W Hl. apply (spine_left a l c Hl (nav_a _ _ _ _ _ W)). Qed.

Lemma nav_order a l l' : 1 <= l -> spine a (l - 1) < spine a l /\ spine a l < spine (a + 2 ^ l) l'.
Proof.
  intros Hl. unfold spine. pose proof (pow2_lt_mono (l - 1) l ltac:(lia)).
  pose proof (pow2_pos (l - 1)). pose proof (pow2_pos l'). split; lia.
Qed.

Lemma nav_up_left B a m l c : B <= 2 ^ 60 -> wf B a m l c -> 1 <= l ->
  restricted_parent (spine a (l - 1)) (shlen B) = Some (spine a l).
Proof.
  intros HB W Hl.
  unfold restricted_parent. change 65%nat with (S 64). cbn [restricted_parent_loop].
  pose proof (nav_a _ _ _ _ _ W) as Ha. pose proof (nav_l60 _ _ _ _ _ HB W) as L60.
  rewrite (spine_parent_l a (l - 1) c) by (try lia; rewrite Ha; f_equal; f_equal; lia).
  replace (l - 1 + 1) with l by lia.
  pose proof (wf_root_in _ _ _ _ _ W) as Hin.
  destruct (N.ltb_spec (spine a l) (shlen B)); [reflexivity|lia].
Qed.

Lemma nav_right B a m l c l' c' : B <= 2 ^ 60 -> wf B a m l c -> 1 <= l -> l' <= l - 1 ->
  wf B (a + 2 ^ l) (m - 2 ^ l) l' c' ->
  (l' = l - 1 \/ shlen B <= spine (a + 2 ^ l) (l' + 1)) ->
  right_descendant (spine a l) (shlen B) = Some (spine (a + 2 ^ l) l').
Proof.
  intros HB W Hl Hl' WR Hsp.
  unfold right_descendant. pose proof (nav_a _ _ _ _ _ W) as Ha. pose proof (nav_l60 _ _ _ _ _ HB W) as L60.
  rewrite (spine_right a l c Hl Ha).
  pose proof (wf_root_in _ _ _ _ _ WR) as Hin.
  set (g := N.to_nat (l - 1 - l')).
  replace (l - 1) with (l' + N.of_nat g) by (unfold g; lia).
  apply (rd_loop_exact (shlen B) (a + 2 ^ l) l' g 65 (2 * c + 1)).
  - unfold g. lia.
  - replace (l' + N.of_nat g + 1) with l by (unfold g; lia). rewrite Ha, pow2_succ. lia.
  - exact Hin.
  - destruct Hsp as [E|E]; [left; unfold g; lia|right; exact E].
Qed.

Lemma nav_up_right B a m l c l' : B <= 2 ^ 60 -> wf B a m l c -> 1 <= l -> l' <= l - 1 ->
  (l' = l - 1 \/ shlen B <= spine (a + 2 ^ l) (l' + 1)) ->
  restricted_parent (spine (a + 2 ^ l) l') (shlen B) = Some (spine a l).
Proof.
  intros HB W Hl Hl' Hsp.
  unfold restricted_parent. pose proof (nav_a _ _ _ _ _ W) as Ha. pose proof (nav_l60 _ _ _ _ _ HB W) as L60.
  pose proof (wf_root_in _ _ _ _ _ W) as Hin.
  apply (rp_loop_exact (shlen B) a l c Ha ltac:(lia) Hin (N.to_nat (l - 1 - l')) 65 l'); [lia|lia|].
  destruct Hsp as [E|E]; [left; lia|right; exact E].
Qed.

(* leaves and the root *)
Lemma nav_leaf B a m c : wf B a m 0 c -> left_child (spine a 0) = None.
Proof. intros (H1 & H2 & H3 & _). apply (spine_leaf a c). exact H3. Qed.

Lemma nav_root B m l : B <= 2 ^ 60 -> wf B 0 m l 0 -> m = B -> restricted_parent (spine 0 l) (shlen B) = None.
Proof.
  intros HB W ->. destruct (restricted_parent (spine 0 l) (shlen B)) as [p|] eqn:E; [exfalso|reflexivity].
  unfold restricted_parent in E.
  apply (rp_loop_sound (spine 0 l) (shlen B)) in E; [|lia|apply in_sub_refl].
  destruct E as (E1 & E2 & E3 & E4).
  rewrite (spine_level 0 l 0) in E2 by lia.
  pose proof (level_decomp p) as D.
  destruct W as (H1 & H2 & H3 & H4 & H5 & H6).
  pose proof (shlen_ge B H1) as G.
  assert (Hp : 2 ^ (l + 1) <= 2 ^ level p) by (apply pow2_le_mono; lia).
  assert (Hq : 2 ^ level p <= p + 1) by nia.
  rewrite pow2_succ in *. unfold shlen in *. clear D. lia.
Qed.

(* ---- one-step unfoldings of the Spec recursions ---- *)
Lemma sh_pre_leaf f a m : m <= 2 -> sh_pre (S f) a m = [a].
Proof. intros H. cbn [sh_pre]. destruct (N.leb_spec m 2); [reflexivity|lia]. Qed.

Lemma sh_pre_node B f a m l c : wf B a m l c -> 2 < m ->
  sh_pre (S f) a m = spine a l :: sh_pre f a (2 ^ l) ++ sh_pre f (a + 2 ^ l) (m - 2 ^ l).
Proof.
  intros W H. cbn [sh_pre]. destruct (N.leb_spec m 2); [lia|]. cbv zeta.
  now rewrite (wf_half _ _ _ _ _ W H).
Qed.

Lemma sh_post_leaf f a m : m <= 2 -> sh_post (S f) a m = [a].
Proof. intros H. cbn [sh_post]. destruct (N.leb_spec m 2); [reflexivity|lia]. Qed.

Lemma sh_post_node B f a m l c : wf B a m l c -> 2 < m ->
  sh_post (S f) a m = sh_post f a (2 ^ l) ++ sh_post f (a + 2 ^ l) (m - 2 ^ l) ++ [spine a l].
Proof.
  intros W H. cbn [sh_post]. destruct (N.leb_spec m 2); [lia|]. cbv zeta.
  now rewrite (wf_half _ _ _ _ _ W H).
Qed.

Lemma sh_pre_pos_leaf f a m s : m <= 2 -> sh_pre_pos (S f) a m s = 0.
Proof. intros H. cbn [sh_pre_pos]. destruct (N.leb_spec m 2); [reflexivity|lia]. Qed.

Lemma sh_pre_pos_node B f a m l c s : wf B a m l c -> 2 < m ->
  sh_pre_pos (S f) a m s =
    if s =? spine a l then 0
    else if s <? spine a l then 1 + sh_pre_pos f a (2 ^ l) s
    else 1 + (2 ^ l - 1) + sh_pre_pos f (a + 2 ^ l) (m - 2 ^ l) s.
Proof.
  intros W H. cbn [sh_pre_pos]. destruct (N.leb_spec m 2); [lia|]. cbv zeta.
  now rewrite (wf_half _ _ _ _ _ W H).
Qed.

Lemma sh_post_pos_leaf f a m s : m <= 2 -> sh_post_pos (S f) a m s = 0.
Proof. intros H. cbn [sh_post_pos]. destruct (N.leb_spec m 2); [reflexivity|lia]. Qed.

Lemma sh_post_pos_node B f a m l c s : wf B a m l c -> 2 < m ->
  sh_post_pos (S f) a m s =
    if s =? spine a l then m - 2
    else if s <? spine a l then sh_post_pos f a (2 ^ l) s
    else (2 ^ l - 1) + sh_post_pos f (a + 2 ^ l) (m - 2 ^ l) s.
Proof.
  intros W H. cbn [sh_post_pos]. destruct (N.leb_spec m 2); [lia|]. cbv zeta.
  now rewrite (wf_half _ _ _ _ _ W H).
Qed.

(* ---- the tree of a blob ---- *)
Lemma ceil_div x q : 0 < q -> (x + q - 1) / q = x / q + b2n (negb (x mod q =? 0)).
Proof.
  intros Hq. pose proof (N.div_mod x q ltac:(lia)) as D. pose proof (N.mod_upper_bound x q ltac:(lia)) as M.
  destruct (N.eqb_spec (x mod q) 0) as [E|E]; cbn [negb b2n]; symmetry.
  - apply N.div_unique with (r := q - 1); lia.
  - apply N.div_unique with (r := x mod q - 1); lia.
Qed.

Lemma blocks_raw_spec size bs : blocks_raw size bs = (size + 1024 * 2 ^ bs - 1) / (1024 * 2 ^ bs).
Proof.
  unfold blocks_raw. rewrite mask_ones, N.land_ones, N.shiftr_div_pow2.
  rewrite pow2_add. change (2 ^ 10) with 1024. rewrite (N.mul_comm (2 ^ bs)).
  symmetry. apply ceil_div. pose proof (pow2_pos bs). lia.
Qed.

Lemma blocks_spec size bs : blocks (mkTree size bs) = sp_blocks size bs.
Proof. unfold blocks, sp_blocks. cbn [tsize tbs]. rewrite blocks_raw_spec. apply N.max_comm. Qed.

Lemma sp_blocks_pos size bs : 1 <= sp_blocks size bs.
Proof. unfold sp_blocks. lia. Qed.

Lemma sp_blocks_bound size bs : size <= 2 ^ 63 -> sp_blocks size bs <= 2 ^ 53 + 1.
Proof.
  intros H. unfold sp_blocks. pose proof (pow2_pos bs) as Hp.
  rewrite ceil_div by lia.
  assert (size / (1024 * 2 ^ bs) <= size / 1024) by (apply N.div_le_compat_l; lia).
  assert (size / 1024 <= 2 ^ 63 / 1024) by (apply N.div_le_mono; lia).
  change (2 ^ 63 / 1024) with (2 ^ 53) in *.
  destruct (negb (size mod (1024 * 2 ^ bs) =? 0)); cbn [b2n]; lia.
Qed.

Lemma sp_blocks_60 size bs : size <= 2 ^ 63 -> sp_blocks size bs <= 2 ^ 60.
Proof. intros H. pose proof (sp_blocks_bound size bs H). change (2 ^ 53) with 9007199254740992 in *. change (2 ^ 60) with 1152921504606846976. lia. Qed.

Lemma wf_top B : 1 <= B -> exists l, wf B 0 B l 0 /\ next_pow2 (div_ceil2 B) - 1 = spine 0 l.
Proof.
  intros HB. unfold div_ceil2. destruct (N.le_gt_cases B 2) as [Hs|Hb].
  - exists 0. split.
    + unfold wf. change (2 ^ (0 + 1)) with 2. repeat split; try lia.
    + assert (E : (B + 1) / 2 = 1) by lia. rewrite E. reflexivity.
  - destruct (level_of_size _ Hb) as (l & Hl & Hlo & Hhi). exists l. split.
    + unfold wf. repeat split; try lia.
    + unfold spine. rewrite N.add_0_l. f_equal.
      rewrite pow2_succ in Hhi. rewrite (pow2_pred l) in Hlo, Hhi by lia.
      rewrite (next_pow2_between (l - 1)); [f_equal; lia| |].
      * lia.
      * replace (l - 1 + 1) with l by lia. rewrite (pow2_pred l) by lia. lia.
Qed.

Lemma shifted_spec size bs :
  exists l, wf (sp_blocks size bs) 0 (sp_blocks size bs) l 0 /\
            shifted (mkTree size bs) = (spine 0 l, shlen (sp_blocks size bs)).
Proof.
  pose proof (sp_blocks_pos size bs) as HB.
  destruct (wf_top _ HB) as (l & W & E). exists l. split; [assumption|].
  unfold shifted. cbn [tsize tbs]. rewrite blocks_raw_spec, N.max_comm. fold (sp_blocks size bs).
  rewrite E. f_equal. unfold shlen, div_ceil2. lia.
Qed.

(* ---- block-size shifting on listed nodes ---- *)
Lemma unshift_spec bs s : (s + 1) * 2 ^ bs <= 2 ^ 64 -> subtract_block_size s bs = unshift bs s.
Proof. intros H. unfold unshift. now apply subtract_block_size_gen. Qed.

Lemma unshift_decomp bs s : unshift bs s + 1 = (2 * sp_index s + 1) * 2 ^ (level s + bs).
Proof.
  unfold unshift. pose proof (pow2_pos bs). rewrite pow2_add, N.mul_assoc, <- level_decomp. nia.
Qed.

Lemma unshift_level bs s : level (unshift bs s) = level s + bs.
Proof. exact (proj1 (decomp_unique _ _ _ (unshift_decomp bs s))). Qed.

Lemma unshift_index bs s : sp_index (unshift bs s) = sp_index s.
Proof. exact (proj2 (decomp_unique _ _ _ (unshift_decomp bs s))). Qed.

Lemma unshift_add bs s : add_block_size (unshift bs s) bs = Some s.
Proof.
  rewrite add_block_size_gen, unshift_level.
  destruct (N.leb_spec bs (level s + bs)); [|lia]. f_equal.
  unfold unshift. pose proof (pow2_pos bs). symmetry.
  apply N.div_unique with (r := 2 ^ bs - 1); [lia|nia].
Qed.

Lemma unshift_inj bs s s' : unshift bs s = unshift bs s' -> s = s'.
Proof. unfold unshift. pose proof (pow2_pos bs) as Hp. intros H. nia. Qed.
