(* The validating encoders of sync.rs / fsm.rs and the item stream of mixed.rs are one loop: a generic
   loop over the plan, parametric in the pair loader, producing items ([gloop]) or bytes ([bloop]);
   the three model loops are instances, and the loop depends on the loader only at the parents of the
   plan.  Likewise [nloop] for the two non-validating encoders. *)
From BaoV Require Import Model.Fsm Spec.EncSpec Proofs.EncRec.
From Coq Require Import Lia.

Definition plan_nodes (l : list chunk) : list N :=
  flat_map (fun c => match c with CParent nd _ _ _ _ => [nd] | CLeaf _ _ _ _ => [] end) l.

Lemma plan_nodes_app l1 l2 : plan_nodes (l1 ++ l2) = plan_nodes l1 ++ plan_nodes l2.
Proof. apply flat_map_app. Qed.

Section Loop.
Variable HO : hops.
Notation bytes := (bytes HO).
Notation hash := (hash HO).
Notation item := (item HO).
Notation outboard := (outboard HO).

Definition loader := N -> res io_kind (option (hash * hash)).

Definition push (b : bool) (x : hash) (stk : list hash) : list hash := if b then x :: stk else stk.

Definition leaf_items (bs start : N) (buf : bytes) (ir : bool) (rs : ranges) : list item * hash :=
  if negb (r_is_all rs) then traverse_selected_rec HO REC_FUEL start buf ir rs bs true
  else ([ILeaf (to_bytes start) buf], hash_subtree HO start buf ir).
Definition leaf_bytes (bs start : N) (buf : bytes) (ir : bool) (rs : ranges) : bytes * hash :=
  if negb (r_is_all rs) then encode_selected_rec HO REC_FUEL start buf ir rs bs true
  else (buf, hash_subtree HO start buf ir).

Lemma leaf_bytes_items bs start buf ir rs :
  leaf_bytes bs start buf ir rs = (iflat HO (fst (leaf_items bs start buf ir rs)), snd (leaf_items bs start buf ir rs)).
Proof.
  unfold leaf_bytes, leaf_items. destruct (negb (r_is_all rs)).
  - apply tsr_flat.
  - cbn [fst snd]. unfold iflat. cbn [map concat item_bytes]. now rewrite app_nil_r.
Qed.

Lemma leaf_bytes_hash bs start buf ir rs : snd (leaf_bytes bs start buf ir rs) = hash_subtree HO start buf ir.
Proof. unfold leaf_bytes. destruct (negb (r_is_all rs)); [apply esr_hash|reflexivity]. Qed.

Fixpoint gloop (load : loader) (items : list chunk) (stack : list hash) (bs : N) (data : bytes)
  : res enc_err unit * list item :=
  match items with
  | [] => (Ok tt, [])
  | CParent node is_root lf rt _ :: rest =>
      match load node with
      | Ok (Some (l, r)) =>
          match stack with
          | [] => (Panic, [])
          | expected :: stk =>
              if negb (bytes_eqb HO (parent_cv HO l r is_root) expected) then (Err (EParentHashMismatch node), [])
              else let G := gloop load rest (push lf l (push rt r stk)) bs data in (fst G, IParent node l r :: snd G)
          end
      | Ok None => (Panic, [])
      | Err k => (Err (EIo k), [])
      | Panic => (Panic, [])
      end
  | CLeaf start size is_root rs :: rest =>
      match stack with
      | [] => (Panic, [])
      | expected :: stk =>
          match read_exact_at HO data (to_bytes start) size with
          | Ok buf =>
              let LI := leaf_items bs start buf is_root rs in
              if negb (bytes_eqb HO (snd LI) expected) then (Err (ELeafHashMismatch start), [])
              else let G := gloop load rest stk bs data in (fst G, fst LI ++ snd G)
          | Err k => (Err (EIo k), [])
          | Panic => (Panic, [])
          end
      end
  end.

Fixpoint bloop (load : loader) (items : list chunk) (stack : list hash) (bs : N) (data : bytes)
  : res enc_err unit * bytes :=
  match items with
  | [] => (Ok tt, [])
  | CParent node is_root lf rt _ :: rest =>
      match load node with
      | Ok (Some (l, r)) =>
          match stack with
          | [] => (Panic, [])
          | expected :: stk =>
              if negb (bytes_eqb HO (parent_cv HO l r is_root) expected) then (Err (EParentHashMismatch node), [])
              else let G := bloop load rest (push lf l (push rt r stk)) bs data in (fst G, l ++ r ++ snd G)
          end
      | Ok None => (Panic, [])
      | Err k => (Err (EIo k), [])
      | Panic => (Panic, [])
      end
  | CLeaf start size is_root rs :: rest =>
      match stack with
      | [] => (Panic, [])
      | expected :: stk =>
          match read_exact_at HO data (to_bytes start) size with
          | Ok buf =>
              let LB := leaf_bytes bs start buf is_root rs in
              if negb (bytes_eqb HO (snd LB) expected) then (Err (ELeafHashMismatch start), [])
              else let G := bloop load rest stk bs data in (fst G, fst LB ++ snd G)
          | Err k => (Err (EIo k), [])
          | Panic => (Panic, [])
          end
      end
  end.

Lemma bloop_gloop load bs data : forall items stack,
  bloop load items stack bs data =
  (fst (gloop load items stack bs data), iflat HO (snd (gloop load items stack bs data))).
Proof.
  induction items as [|c rest IH]; intro stack; [reflexivity|].
  destruct c as [node ir lf rt rs|start sz ir rs]; cbn [bloop gloop].
  - destruct (load node) as [[[l r]|]|k|]; try reflexivity.
    destruct stack as [|expected stk]; [reflexivity|].
    destruct (negb (bytes_eqb HO (parent_cv HO l r ir) expected)); [reflexivity|].
    cbv zeta. rewrite IH. cbn [fst snd]. f_equal.
    change (IParent node l r :: ?x) with ([IParent node l r] ++ x). rewrite iflat_app, iflat_parent1.
    now rewrite <- app_assoc.
  - destruct stack as [|expected stk]; [reflexivity|].
    destruct (read_exact_at HO data (to_bytes start) sz) as [buf|k|]; try reflexivity.
    cbv zeta. rewrite leaf_bytes_items. cbn [fst snd].
    destruct (negb (bytes_eqb HO (snd (leaf_items bs start buf ir rs)) expected)); [reflexivity|].
    rewrite IH. cbn [fst snd]. now rewrite iflat_app.
Qed.

(* ---- the loop depends on the loader only at the parents of the plan ---- *)
Lemma gloop_ext (load1 load2 : loader) bs data : forall items stack,
  (forall nd, In nd (plan_nodes items) -> load1 nd = load2 nd) ->
  gloop load1 items stack bs data = gloop load2 items stack bs data.
Proof.
  induction items as [|c rest IH]; intros stack H; [reflexivity|].
  destruct c as [node ir lf rt rs|start sz ir rs]; cbn [gloop].
  - rewrite <- (H node) by (cbn; now left).
    destruct (load1 node) as [[[l r]|]|k|]; try reflexivity.
    destruct stack as [|expected stk]; [reflexivity|].
    rewrite IH; [reflexivity|]. intros nd Hnd. apply H. cbn. now right.
  - destruct stack as [|expected stk]; [reflexivity|].
    destruct (read_exact_at HO data (to_bytes start) sz) as [buf|k|]; try reflexivity.
    rewrite IH; [reflexivity|]. intros nd Hnd. apply H. exact Hnd.
Qed.

Lemma bloop_ext (load1 load2 : loader) bs data items stack :
  (forall nd, In nd (plan_nodes items) -> load1 nd = load2 nd) ->
  bloop load1 items stack bs data = bloop load2 items stack bs data.
Proof. intro H. rewrite !bloop_gloop. now rewrite (gloop_ext load1 load2). Qed.

(* ---- the model loops are instances ---- *)
Lemma traverse_loop_gloop t data ob : forall items stack out,
  traverse_loop HO items stack t data ob out =
  (fst (gloop (load_sync HO ob) items stack (tbs t) data), out ++ snd (gloop (load_sync HO ob) items stack (tbs t) data)).
Proof.
  induction items as [|c rest IH]; intros stack out; [cbn; now rewrite app_nil_r|].
  destruct c as [node ir lf rt rs|start sz ir rs]; cbn [traverse_loop gloop].
  - destruct (load_sync HO ob node) as [[[l r]|]|k|]; cbn [fst snd]; rewrite ?app_nil_r; try reflexivity.
    destruct stack as [|expected stk]; cbn [fst snd]; rewrite ?app_nil_r; [reflexivity|].
    destruct (negb (bytes_eqb HO (parent_cv HO l r ir) expected)); cbn [fst snd]; rewrite ?app_nil_r; [reflexivity|].
    rewrite IH. unfold push. cbn [fst snd]. now rewrite <- app_assoc.
  - destruct stack as [|expected stk]; cbn [fst snd]; rewrite ?app_nil_r; [reflexivity|].
    destruct (read_exact_at HO data (to_bytes start) sz) as [buf|k|]; cbn [fst snd]; rewrite ?app_nil_r; try reflexivity.
    unfold leaf_items. destruct (negb (r_is_all rs)).
    + destruct (traverse_selected_rec HO REC_FUEL start buf ir rs (tbs t) true) as [its actual]. cbn [fst snd].
      destruct (negb (bytes_eqb HO actual expected)); cbn [fst snd]; rewrite ?app_nil_r; [reflexivity|].
      rewrite IH. cbn [fst snd]. now rewrite <- app_assoc.
    + cbn [fst snd].
      destruct (negb (bytes_eqb HO (hash_subtree HO start buf ir) expected)); cbn [fst snd]; rewrite ?app_nil_r; [reflexivity|].
      rewrite IH. cbn [fst snd]. now rewrite <- app_assoc.
Qed.

Lemma enc_val_bloop t data ob : forall items stack out,
  encode_val_loop HO items stack t data ob out =
  (fst (bloop (load_sync HO ob) items stack (tbs t) data), out ++ snd (bloop (load_sync HO ob) items stack (tbs t) data)).
Proof.
  induction items as [|c rest IH]; intros stack out; [cbn; now rewrite app_nil_r|].
  destruct c as [node ir lf rt rs|start sz ir rs]; cbn [encode_val_loop bloop].
  - destruct (load_sync HO ob node) as [[[l r]|]|k|]; cbn [fst snd]; rewrite ?app_nil_r; try reflexivity.
    destruct stack as [|expected stk]; cbn [fst snd]; rewrite ?app_nil_r; [reflexivity|].
    destruct (negb (bytes_eqb HO (parent_cv HO l r ir) expected)); cbn [fst snd]; rewrite ?app_nil_r; [reflexivity|].
    rewrite IH. unfold push, combine_pair. cbn [fst snd]. now rewrite <- !app_assoc.
  - destruct stack as [|expected stk]; cbn [fst snd]; rewrite ?app_nil_r; [reflexivity|].
    destruct (read_exact_at HO data (to_bytes start) sz) as [buf|k|]; cbn [fst snd]; rewrite ?app_nil_r; try reflexivity.
    fold (leaf_bytes (tbs t) start buf ir rs).
    destruct (leaf_bytes (tbs t) start buf ir rs) as [w actual]. cbn [fst snd].
    destruct (negb (bytes_eqb HO actual expected)); cbn [fst snd]; rewrite ?app_nil_r; [reflexivity|].
    rewrite IH. cbn [fst snd]. now rewrite <- app_assoc.
Qed.

Lemma enc_val_fsm_bloop t data ob : forall items stack out,
  encode_val_loop_fsm HO items stack t data ob out =
  (fst (bloop (load_fsm HO ob) items stack (tbs t) data), out ++ snd (bloop (load_fsm HO ob) items stack (tbs t) data)).
Proof.
  induction items as [|c rest IH]; intros stack out; [cbn; now rewrite app_nil_r|].
  destruct c as [node ir lf rt rs|start sz ir rs]; cbn [encode_val_loop_fsm bloop].
  - destruct (load_fsm HO ob node) as [[[l r]|]|k|]; cbn [fst snd]; rewrite ?app_nil_r; try reflexivity.
    destruct stack as [|expected stk]; cbn [fst snd]; rewrite ?app_nil_r; [reflexivity|].
    destruct (negb (bytes_eqb HO (parent_cv HO l r ir) expected)); cbn [fst snd]; rewrite ?app_nil_r; [reflexivity|].
    rewrite IH. unfold push, combine_pair. cbn [fst snd]. now rewrite <- !app_assoc.
  - destruct stack as [|expected stk]; cbn [fst snd]; rewrite ?app_nil_r; [reflexivity|].
    destruct (read_exact_at HO data (to_bytes start) sz) as [buf|k|]; cbn [fst snd]; rewrite ?app_nil_r; try reflexivity.
    fold (leaf_bytes (tbs t) start buf ir rs).
    destruct (leaf_bytes (tbs t) start buf ir rs) as [w actual]. cbn [fst snd].
    destruct (negb (bytes_eqb HO actual expected)); cbn [fst snd]; rewrite ?app_nil_r; [reflexivity|].
    rewrite IH. cbn [fst snd]. now rewrite <- app_assoc.
Qed.

(* ---- the non-validating encoders ---- *)
Fixpoint nloop (load : loader) (items : list chunk) (data : bytes) : res enc_err unit * bytes :=
  match items with
  | [] => (Ok tt, [])
  | CParent node _ _ _ _ :: rest =>
      match load node with
      | Ok (Some (l, r)) => let G := nloop load rest data in (fst G, l ++ r ++ snd G)
      | Ok None => (Panic, [])
      | Err k => (Err (EIo k), [])
      | Panic => (Panic, [])
      end
  | CLeaf start size _ _ :: rest =>
      match read_exact_at HO data (to_bytes start) size with
      | Ok buf => let G := nloop load rest data in (fst G, buf ++ snd G)
      | Err k => (Err (EIo k), [])
      | Panic => (Panic, [])
      end
  end.

Lemma enc_loop_nloop data ob : forall items out,
  encode_loop HO items data ob out =
  (fst (nloop (load_sync HO ob) items data), out ++ snd (nloop (load_sync HO ob) items data)).
Proof.
  induction items as [|c rest IH]; intro out; [cbn; now rewrite app_nil_r|].
  destruct c as [node ir lf rt rs|start sz ir rs]; cbn [encode_loop nloop].
  - destruct (load_sync HO ob node) as [[[l r]|]|k|]; cbn [fst snd]; rewrite ?app_nil_r; try reflexivity.
    rewrite IH. unfold combine_pair. cbn [fst snd]. now rewrite <- !app_assoc.
  - destruct (read_exact_at HO data (to_bytes start) sz) as [buf|k|]; cbn [fst snd]; rewrite ?app_nil_r; try reflexivity.
    rewrite IH. cbn [fst snd]. now rewrite <- app_assoc.
Qed.

Lemma enc_loop_fsm_nloop data ob : forall items out,
  encode_loop_fsm HO items data ob out =
  (fst (nloop (load_fsm HO ob) items data), out ++ snd (nloop (load_fsm HO ob) items data)).
Proof.
  induction items as [|c rest IH]; intro out; [cbn; now rewrite app_nil_r|].
  destruct c as [node ir lf rt rs|start sz ir rs]; cbn [encode_loop_fsm nloop].
  - destruct (load_fsm HO ob node) as [[[l r]|]|k|]; cbn [fst snd]; rewrite ?app_nil_r; try reflexivity.
    rewrite IH. unfold combine_pair. cbn [fst snd]. now rewrite <- !app_assoc.
  - destruct (read_exact_at HO data (to_bytes start) sz) as [buf|k|]; cbn [fst snd]; rewrite ?app_nil_r; try reflexivity.
    rewrite IH. cbn [fst snd]. now rewrite <- app_assoc.
Qed.

Lemma nloop_ext (load1 load2 : loader) data : forall items,
  (forall nd, In nd (plan_nodes items) -> load1 nd = load2 nd) ->
  nloop load1 items data = nloop load2 items data.
Proof.
  induction items as [|c rest IH]; intros H; [reflexivity|].
  destruct c as [node ir lf rt rs|start sz ir rs]; cbn [nloop].
  - rewrite <- (H node) by (cbn; now left).
    destruct (load1 node) as [[[l r]|]|k|]; try reflexivity.
    rewrite IH; [reflexivity|]. intros nd Hnd. apply H. cbn. now right.
  - destruct (read_exact_at HO data (to_bytes start) sz) as [buf|k|]; try reflexivity.
    rewrite IH; [reflexivity|]. intros nd Hnd. apply H. exact Hnd.
Qed.

(* ---- the entry points ---- *)
Definition vplan (ob : outboard) (q : ranges) : list chunk :=
  pre_order_chunks_iter (ob_tree ob) (truncate_ranges q (tsize (ob_tree ob))) 0.

Lemma erv_bloop data ob q :
  encode_ranges_validated HO data ob q =
  if r_is_empty q then (Ok tt, [])
  else bloop (load_sync HO ob) (vplan ob q) [ob_root ob] (tbs (ob_tree ob)) data.
Proof.
  unfold encode_ranges_validated, vplan. destruct (r_is_empty q); [reflexivity|].
  rewrite enc_val_bloop. cbn [app]. now rewrite <- surjective_pairing.
Qed.

Lemma erv_fsm_bloop data ob q :
  encode_ranges_validated_fsm HO data ob q =
  bloop (load_fsm HO ob) (vplan ob q) [ob_root ob] (tbs (ob_tree ob)) data.
Proof.
  unfold encode_ranges_validated_fsm, vplan.
  rewrite enc_val_fsm_bloop. cbn [app]. now rewrite <- surjective_pairing.
Qed.

Lemma er_nloop data ob q :
  encode_ranges HO data ob q = nloop (load_sync HO ob) (pre_order_chunks_iter (ob_tree ob) q 0) data.
Proof. unfold encode_ranges. rewrite enc_loop_nloop. cbn [app]. now rewrite <- surjective_pairing. Qed.
Lemma er_fsm_nloop data ob q :
  encode_ranges_fsm HO data ob q = nloop (load_fsm HO ob) (pre_order_chunks_iter (ob_tree ob) q 0) data.
Proof. unfold encode_ranges_fsm. rewrite enc_loop_fsm_nloop. cbn [app]. now rewrite <- surjective_pairing. Qed.

Definition trv_result (r : res enc_err unit * list item) (size : N) : option (list (eitem HO)) :=
  match fst r with
  | Ok _ => Some (ESize size :: map EItem (snd r) ++ [EDone])
  | Err e => Some (ESize size :: map EItem (snd r) ++ [EError e])
  | Panic => None
  end.

Lemma trv_gloop data ob q :
  traverse_ranges_validated HO data ob q =
  trv_result (if r_is_empty q then (Ok tt, [])
              else gloop (load_sync HO ob) (vplan ob q) [ob_root ob] (tbs (ob_tree ob)) data) (tsize (ob_tree ob)).
Proof.
  unfold traverse_ranges_validated, vplan, trv_result. destruct (r_is_empty q); [reflexivity|].
  rewrite traverse_loop_gloop. cbn [app fst snd].
  destruct (gloop _ _ _ _ _) as [r its]. reflexivity.
Qed.

End Loop.
