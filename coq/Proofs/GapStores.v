(* Gap C03 / C08 (stores):
   - the specified outboard is, slot by slot, the blob's true pairs of the persisted nodes in pre / post order;
   - every creation entry point agrees with every other: root, tree, bytes (per ordering), and every load of a
     node of the tree, sync and fsm, across the four store kinds;
   - the sync and fsm validating encoders agree whenever no sync load of a parent of the plan fails, and DISAGREE
     on an io-backed outboard whose byte vector is truncated (witness). *)
From BaoV Require Import Model.Sync Model.Fsm Spec.RangeSpec Spec.EncSpec Spec.PlanSpec Spec.NodeSpec Spec.HashAssm.
From BaoV Require Import Proofs.NodeLevel Proofs.ObBase Proofs.ObLoop Proofs.ObCreate Proofs.ObSize Proofs.ObLayout Proofs.ObLayoutC
  Proofs.E2EOutboard.
From BaoV Require Import Proofs.ValSpec Proofs.HistOb Proofs.EncLoop Proofs.EncThm.
From BaoV Require Import Proofs.FinalStore Proofs.FinalAgree Proofs.DecWitness.
From Coq Require Import Lia Arith PeanoNat ZArith Permutation.
Open Scope N_scope.
Arguments N.add : simpl never.
Arguments N.sub : simpl never.
Arguments N.mul : simpl never.
Arguments N.pow : simpl never.
Arguments N.div : simpl never.
Arguments N.modulo : simpl never.
Arguments N.min : simpl never.
Arguments N.max : simpl never.

Section Pairs.
Variable HO : hops.
Hypothesis Hlen : cv_len32 HO.
Variable data : bytes HO.
Variable bs : N.
Hypothesis Hsize : blen HO data <= 2 ^ 63.
Hypothesis Hbs : bs <= 10.
Local Notation size := (blen HO data).

(* the outboard bytes, explicitly *)
Theorem spec_outboard_pairs (post : bool) :
  spec_outboard HO post data bs =
  concat (map (fun nd => fst (true_pair HO data nd) ++ snd (true_pair HO data nd))
              (filter (sp_persisted size bs) (if post then sp_post_nodes size bs else sp_pre_nodes size bs))).
Proof.
  destruct (spec_pairs HO Hlen data bs Hsize Hbs post) as (P & Hflat & _ & _ & Hfst & Htrue & _).
  rewrite Hflat. unfold shape_nodes_of in Hfst. rewrite <- Hfst. unfold flat_pairs. rewrite map_map. f_equal.
  apply map_ext_in. intros p Hp. rewrite Forall_forall in Htrue. rewrite <- (Htrue p Hp). reflexivity.
Qed.

End Pairs.

(* both orderings store the same pairs: the node lists are permutations of each other *)
Theorem spec_outboard_same_pairs (size bs : N) : size <= 2 ^ 63 ->
  Permutation (filter (sp_persisted size bs) (sp_pre_nodes size bs))
              (filter (sp_persisted size bs) (sp_post_nodes size bs)).
Proof.
  intro Hsize. pose proof (Proofs.ShapeList.pre_post_perm size bs Hsize) as H.
  set (l1 := sp_pre_nodes size bs) in *. set (l2 := sp_post_nodes size bs) in *. clearbody l1 l2.
  induction H as [|x l l' _ IH|x y l|l l' l'' _ IH1 _ IH2].
  - constructor.
  - cbn [filter]. destruct (sp_persisted size bs x); [now constructor|exact IH].
  - cbn [filter]. destruct (sp_persisted size bs x), (sp_persisted size bs y); try apply Permutation_refl. constructor.
  - eapply Permutation_trans; eassumption.
Qed.


(* ---------- all creation entry points agree ---------- *)
Theorem creation_agree : forall (HO : hops), cv_len32 HO ->
  forall (data : bytes HO) (bs : N), blen HO data <= 2 ^ 63 -> bs <= 10 ->
  (* the streaming post-order writer, sync and fsm: the bytes of the post-order stores *)
  (outboard_post_order HO (mkTree (blen HO data) bs) data
     = (Ok (root_hash HO data), spec_outboard HO true data bs, []) /\
   outboard_post_order_fsm HO (mkTree (blen HO data) bs) data
     = (Ok (root_hash HO data), spec_outboard HO true data bs, [])) /\
  (* any two stores returned by creation entry points *)
  (forall ob1 ob2 : outboard HO, created_by HO data bs ob1 -> created_by HO data bs ob2 ->
     ob_root ob1 = ob_root ob2 /\ ob_tree ob1 = ob_tree ob2 /\
     (is_post (ob_k ob1) = is_post (ob_k ob2) -> ob_data ob1 = ob_data ob2) /\
     (is_post (ob_k ob1) = true -> outboard_post_order HO (mkTree (blen HO data) bs) data = (Ok (ob_root ob1), ob_data ob1, [])) /\
     (forall nd, In nd (sp_pre_nodes (blen HO data) bs) ->
        load_sync HO ob1 nd = load_sync HO ob2 nd /\ load_fsm HO ob1 nd = load_fsm HO ob2 nd /\
        load_sync HO ob1 nd = load_fsm HO ob1 nd)) /\
  (* re-initialising any pre-sized store gives the store a fresh creation of the same kind gives *)
  (forall ob0 ob : outboard HO,
     (ob_k ob0 = PreIO \/ ob_k ob0 = PostIO \/ ob_k ob0 = PreMem \/ ob_k ob0 = PostMem) ->
     ob_tree ob0 = mkTree (blen HO data) bs ->
     blen HO (ob_data ob0) = (sp_blocks (blen HO data) bs - 1) * 64 ->
     created_by HO data bs ob -> ob_k ob = ob_k ob0 ->
     init_from HO ob0 data = Ok ob /\ init_from_fsm HO ob0 data = Ok ob).
Proof.
  intros HO Hlen data bs Hsize Hbs.
  pose proof (e2e_post_order_writer HO data bs Hsize Hbs) as W.
  split; [exact W|]. split.
  - intros ob1 ob2 C1 C2.
    pose proof (c03_created_by_store HO Hlen data bs Hsize Hbs ob1 C1) as S1.
    pose proof (c03_created_by_store HO Hlen data bs Hsize Hbs ob2 C2) as S2.
    pose proof S1 as [K1 T1 R1 D1]. pose proof S2 as [K2 T2 R2 D2].
    split; [congruence|]. split; [congruence|]. split; [intro E; rewrite D1, D2, E; reflexivity|]. split.
    + intro E. rewrite R1, D1, E. exact (proj1 W).
    + intros nd Hin.
      destruct (c03_created_store_loads' HO Hlen data bs Hsize Hbs ob1 S1 nd Hin) as [A1 A2].
      destruct (c03_created_store_loads' HO Hlen data bs Hsize Hbs ob2 S2 nd Hin) as [B1 B2].
      destruct (sp_persisted (blen HO data) bs nd).
      * destruct (A1 eq_refl) as [-> ->]. destruct (B1 eq_refl) as [-> ->]. repeat split.
      * destruct (A2 eq_refl) as [-> ->]. destruct (B2 eq_refl) as [-> ->]. repeat split.
  - intros ob0 ob K T L C Ek.
    destruct (c03_init_from_sized HO Hlen data bs Hsize Hbs ob0 K T L) as (ob' & E1 & E2 & Ek' & S').
    pose proof (c03_created_by_store HO Hlen data bs Hsize Hbs ob C) as S.
    assert (E : ob' = ob).
    { destruct S as [Ka Ta Ra Da], S' as [Kb Tb Rb Db]. destruct ob as [k r t d], ob' as [k' r' t' d'].
      cbn [ob_k ob_root ob_tree ob_data] in *. subst. congruence. }
    subst ob'. split; assumption.
Qed.

(* ---------- sync and fsm validating encoders on arbitrary stores ---------- *)
Theorem encode_agree_loads (HO : hops) (data' : bytes HO) (ob : outboard HO) (q : ranges) :
  q <> [] ->
  (forall nd, In nd (plan_nodes (pre_order_chunks_iter (ob_tree ob) (truncate_ranges q (tsize (ob_tree ob))) 0)) ->
     exists x, load_sync HO ob nd = Ok x) ->
  encode_ranges_validated HO data' ob q = encode_ranges_validated_fsm HO data' ob q.
Proof.
  intros Hne Hl. pose proof (c08_encode_agree HO data' ob q) as H. cbv zeta in H.
  refine (proj1 (H _) Hne).
  intros nd Hin. destruct (Hl nd Hin) as [x Hx]. rewrite Hx. symmetry. exact (load_agree_io HO ob nd x Hx).
Qed.

(* an io-backed pre-order outboard whose byte vector was truncated to its first pair (a partially written file):
   blob of 3 chunks, block size 0, query = everything.  The sync encoder sends the root pair and fails with an io error
   (UnexpectedEof: the short read); the fsm encoder reads a zero pair instead and reports a parent hash mismatch. *)
Definition tr_data : bytes term_hops := repeat TZ 2049.
Definition tr_ob : outboard term_hops :=
  mkOb PreIO (root_hash term_hops tr_data) (mkTree 2049 0) (take term_hops 64 (spec_outboard term_hops false tr_data 0)).

Theorem truncated_io_disagree :
  exists (HO : hops) (data : bytes HO) (bs : N) (ob : outboard HO) (q : ranges) (out : bytes HO),
    hash_ok HO /\ blen HO data <= 2 ^ 63 /\ bs <= 10 /\ wf_ranges q = true /\ q <> [] /\
    ob_k ob = PreIO /\ ob_tree ob = mkTree (blen HO data) bs /\ ob_root ob = root_hash HO data /\
    (exists full, created_store HO data bs (mkOb PreIO (ob_root ob) (ob_tree ob) full) /\
                  ob_data ob = take HO 64 full /\ blen HO full = 128) /\
    encode_ranges_validated HO data ob q = (Err (EIo KUnexpectedEof), out) /\
    encode_ranges_validated_fsm HO data ob q = (Err (EParentHashMismatch 0), out) /\
    length out = 64%nat.
Proof.
  exists term_hops, tr_data, 0, tr_ob, [0]. eexists.
  split; [exact term_hops_ok|]. split; [vm_compute; discriminate|]. split; [vm_compute; discriminate|].
  split; [reflexivity|]. split; [discriminate|]. split; [reflexivity|]. split; [reflexivity|]. split; [reflexivity|].
  split.
  - exists (spec_outboard term_hops false tr_data 0). split.
    + constructor; [left; reflexivity|reflexivity|reflexivity|reflexivity].
    + split; [reflexivity|vm_compute; reflexivity].
  - split; [vm_compute; reflexivity|]. split; vm_compute; reflexivity.
Qed.

(* ---------- the fifth store kind: EmptyOutboard has a (zero) pair exactly at the persisted nodes ---------- *)
From BaoV Require Import Proofs.NodeBits Proofs.BridgeBase Proofs.ShapeBase Proofs.ShapeOffsets.

Lemma relevant_is_persisted size bs nd : size <= 2 ^ 63 -> bs <= 10 -> In nd (sp_pre_nodes size bs) ->
  is_relevant_for_outboard (mkTree size bs) nd = sp_persisted size bs nd.
Proof.
  intros Hs Hb Hin. destruct (pre_listed size bs nd Hs Hin) as (s & -> & Hl & _).
  pose proof (ShapeBase.sp_blocks_pos size bs) as HB1. pose proof (shlen_le _ HB1) as HL.
  pose proof (ObLoop.sp_blocks_last size bs) as Hlast. pose proof (nchunks_le size 53 Hs) as Hn.
  pose proof (NodeBits.pow2_pos bs) as Hp.
  assert (Hp10 : 2 ^ bs <= 2 ^ 10) by (apply N.pow_le_mono_r; lia).
  change (2 ^ 10) with 1024 in Hp10. change (2 ^ 53) with 9007199254740992 in Hn.
  assert (Hb54 : (s + 1) * 2 ^ bs < 2 ^ 54).
  { change (2 ^ 54) with 18014398509481984. nia. }
  unfold is_relevant_for_outboard, sp_persisted. cbn [tbs tsize].
  rewrite <- level_is_sp_level, unshift_level. unfold mid. rewrite PlanBase.unshift_succ.
  rewrite (BridgeBase.to_bytes_small _ Hb54).
  destruct (N.ltb_spec (level s + bs) bs) as [L|L]; [lia|].
  destruct (N.ltb_spec bs (level s + bs)) as [G|G]; [reflexivity|].
  assert (E : bs =? level s + bs = true) by (apply N.eqb_eq; lia). rewrite E. reflexivity.
Qed.

Theorem empty_ob_loads (HO : hops) (size bs : N) (ob : outboard HO) : size <= 2 ^ 63 -> bs <= 10 ->
  ob_k ob = EmptyOb -> ob_tree ob = mkTree size bs ->
  forall nd, In nd (sp_pre_nodes size bs) ->
  load_sync HO ob nd = Ok (if sp_persisted size bs nd then Some (zero_pair HO) else None) /\
  load_fsm HO ob nd = Ok (if sp_persisted size bs nd then Some (zero_pair HO) else None).
Proof.
  intros Hs Hb K T nd Hin. unfold load_sync, load_fsm, ob_offset. rewrite K, T.
  rewrite (relevant_is_persisted size bs nd Hs Hb Hin).
  destruct (sp_persisted size bs nd); split; reflexivity.
Qed.

(* ---------- C03, last clause: at block size 0 the pre-order outboards are bao's outboard ---------- *)
From BaoV Require Import Proofs.GapBao.

Theorem bs0_outboard_is_bao : forall (HO : hops), cv_len32 HO ->
  forall (data : bytes HO), blen HO data <= 2 ^ 63 ->
  create_sized HO PreIO data (blen HO data) 0
    = Ok (mkOb PreIO (root_hash HO data) (mkTree (blen HO data) 0) (bao_outboard HO data)) /\
  create_sized_fsm HO PreIO data (blen HO data) 0
    = Ok (mkOb PreIO (root_hash HO data) (mkTree (blen HO data) 0) (bao_outboard HO data)) /\
  pre_mem_create HO data 0
    = Ok (mkOb PreMem (root_hash HO data) (mkTree (blen HO data) 0) (bao_outboard HO data)) /\
  blen HO (bao_outboard HO data) = (nchunks (blen HO data) - 1) * 64.
Proof.
  intros HO Hlen data Hsize.
  assert (Hbs : 0 <= 10) by lia.
  destruct (c03_created_entry_points HO Hlen data 0 Hsize Hbs) as ((A1 & A2) & _ & C & _).
  pose proof (spec_outboard_size HO Hlen data 0 false Hsize) as Hs.
  rewrite (spec_outboard_bs0_is_bao HO data) in A1, A2, C, Hs. rewrite sp_blocks_0 in Hs.
  split; [exact A1|]. split; [exact A2|]. split; [exact C|exact Hs].
Qed.
