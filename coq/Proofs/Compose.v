(* Composition of the separately proved layers: discharging the interface hypotheses. *)
From BaoV Require Import Model.Iter Spec.PlanSpec Spec.NodeSpec.
From BaoV Require Import Proofs.ShapeBase Proofs.ShapeIter Proofs.PlanProps Proofs.PlanPostIter.
From Coq Require Import Lia.

(* the shifted post-order node iterator lists the Shape (L2), in the form the plan layer (L4) takes as premise *)
Lemma post_nodes_shifted_spec size bs : size <= 2 ^ 63 ->
  post_order_nodes_shifted (fst (shifted (mkTree size bs))) (snd (shifted (mkTree size bs))) = sh_post 65 0 (sp_blocks size bs).
Proof.
  intros Hs. destruct (shifted_spec size bs) as (l & W & E). rewrite E. cbn [fst snd].
  apply post_shifted; [apply sp_blocks_60; exact Hs | exact W].
Qed.

Theorem post_plan_refines size bs : size <= 2 ^ 63 -> bs <= 10 ->
  post_order_chunks_iter (mkTree size bs) = post_plan size bs.
Proof.
  intros Hs Hb. apply (post_plan_from_nodes size bs Hs Hb). apply post_nodes_shifted_spec. exact Hs.
Qed.
