(* C13 (byte level): pairs of complete subtrees inside the blob do not depend on later bytes. *)
From BaoV Require Import Model.Sync Spec.EncSpec Spec.PlanSpec Spec.HashAssm
  Proofs.NodeLevel Proofs.NodeBits Proofs.RangeRound Proofs.ObBase Proofs.ObLoop.
From Coq Require Import Lia Arith PeanoNat ZArith ZifyN ZifyNat ZifyBool.

Section ObStable.
Variable HO : hops.
Notation bytes := (bytes HO).
Notation hash := (hash HO).
Notation blen := (blen HO).

Lemma chunk_bytes_prefix (data ext : bytes) a b : b * 1024 <= blen data ->
  chunk_bytes HO (data ++ ext) a b = chunk_bytes HO data a b.
Proof.
  intro H. unfold chunk_bytes, slice.
  destruct (N.le_gt_cases a b) as [L|L].
  - rewrite drop_app_le by lia. apply take_app_le. rewrite blen_drop. lia.
  - replace (b - a) with 0 by lia. reflexivity.
Qed.

Lemma cv_rec_prefix (data ext : bytes) : forall f a b r, b * 1024 <= blen data ->
  cv_rec HO f (data ++ ext) a b r = cv_rec HO f data a b r.
Proof.
  induction f as [|f IH]; intros a b r H; [reflexivity|].
  rewrite !cv_rec_unfold. rewrite chunk_bytes_prefix by exact H.
  destruct (b - a <=? 1) eqn:E; [reflexivity|]. cbv zeta.
  destruct (next_pow2_half (b - a) ltac:(lia)) as (j & Ej & L1 & L2).
  rewrite Ej. rewrite (IH a (a + 2 ^ j) false), (IH (a + 2 ^ j) b false) by lia. reflexivity.
Qed.

Lemma cv_prefix (data ext : bytes) a b r : b * 1024 <= blen data ->
  cv HO (data ++ ext) a b r = cv HO data a b r.
Proof. intro H. unfold cv. apply cv_rec_prefix. exact H. Qed.

Lemma inside_le_nchunks size c : 1 <= c -> c * 1024 <= size -> c <= nchunks size.
Proof.
  intros H1 H2. assert (H : c - 1 < nchunks size) by (apply nchunks_spec; lia). lia.
Qed.

Lemma keeps_pair (data ext : bytes) nd : sp_chunk_end nd * 1024 <= blen data ->
  true_pair HO data nd = true_pair HO (data ++ ext) nd.
Proof.
  intro H. unfold true_pair, blob_chunks.
  pose proof (level_index_decomp nd) as Hd.
  pose proof (pow2_pos (sp_level nd)) as Hp.
  assert (Hce : sp_chunk_end nd = nd + 1 + 2 ^ sp_level nd) by (unfold sp_chunk_end; lia).
  assert (H1 : 1 <= sp_chunk_end nd) by lia.
  rewrite blen_app.
  pose proof (inside_le_nchunks (blen data) _ H1 H) as Hn1.
  pose proof (inside_le_nchunks (blen data + blen ext) _ H1 ltac:(lia)) as Hn2.
  rewrite !N.min_l by assumption.
  rewrite !cv_prefix by lia. reflexivity.
Qed.
End ObStable.
