(* End-to-end download, part 1: the leaves of the honest encoding of a query carry exactly the selected
   chunks (delivered_honest); the history invariant only looks at the delivered set below nchunks (Inv_ext). *)
From BaoV Require Import Model.Sync Model.Fsm Model.IO Spec.RangeSpec Spec.PlanSpec Spec.PlanWf Spec.EncSpec Spec.HashAssm.
From BaoV Require Import Proofs.RangeBase Proofs.BridgeBase Proofs.BridgeTree Proofs.BridgeLeaves
  Proofs.DecForest Proofs.DecRanges Proofs.IOSinkFaults Proofs.E2EMisc
  Proofs.HistOb Proofs.HistEnc Proofs.HistInv Proofs.HistStep.
From Coq Require Import ZArith Lia.
Open Scope N_scope.
Arguments N.add : simpl never.
Arguments N.sub : simpl never.
Arguments N.mul : simpl never.
Arguments N.pow : simpl never.
Arguments N.div : simpl never.
Arguments N.modulo : simpl never.
Arguments N.log2 : simpl never.
Arguments N.min : simpl never.
Arguments N.max : simpl never.

(* ---- (A) what the honest encoding delivers ---- *)
Section Delivered.
Variable HO : hops.
Notation bytes := (bytes HO).
Notation item := (item HO).
Variable data : bytes.
Hypothesis Hsize : blen HO data <= 2 ^ 63.
Notation size := (blen HO data).
Notation nc := (nchunks (blen HO data)).

Lemma bs0_le10 : 0 <= 10.
Proof. lia. Qed.

Lemma delivered_nil c : delivered HO (@nil item) c = false.
Proof. reflexivity. Qed.

Lemma delivered_parent nd l r (ys : list item) c : delivered HO (IParent nd l r :: ys) c = delivered HO ys c.
Proof. reflexivity. Qed.

(* a leaf item over chunks [a, b) of the blob carries exactly these chunks (also for the empty blob: its one
   chunk 0 has length 0 and leaf_chunks 0 = 1) *)
Lemma delivered_leaf a b c : a < b -> b <= nc ->
  delivered HO [ILeaf (a * 1024) (chunk_bytes HO data a b)] c = (a <=? c) && (c <? b).
Proof.
  intros Hab Hb. unfold delivered. cbn [existsb item_has]. rewrite orb_false_r, N.div_mul by lia.
  rewrite (leaf_chunks_bytes HO data 0 Hsize bs0_le10 a b Hab Hb).
  replace (a + (b - a)) with b by lia. reflexivity.
Qed.

(* generic fuel: the items of the encoding of [a, b) deliver the selected chunks of [a, b) *)
Lemma delivered_enc_rec bs (S0 : N -> bool) : forall f a b,
  a <= b -> b <= nc -> b - a <= 2 ^ N.of_nat f ->
  forall c, delivered HO (enc_rec HO (S f) data bs S0 a b) c = (a <=? c) && (c <? b) && S0 c.
Proof.
  induction f as [|f IH]; intros a b Hab Hb Hf c; rewrite enc_rec_unfold.
  - change (2 ^ N.of_nat 0) with 1 in Hf.
    destruct (existsb S0 (chunk_range_list a b)) eqn:Eex; cbn [negb].
    + pose proof (exists_nonempty _ _ _ Eex) as Hlt.
      assert (E1 : (b - a <=? 1) = true) by (apply N.leb_le; lia). rewrite E1.
      rewrite (delivered_leaf a b c Hlt Hb).
      assert (b = a + 1) by lia. subst b. rewrite crl_single in Eex. cbn [existsb] in Eex. rewrite orb_false_r in Eex.
      destruct ((a <=? c) && (c <? a + 1)) eqn:E; [|reflexivity]. cbn [andb].
      apply andb_true_iff in E. destruct E as [E2 E3]. apply N.leb_le in E2. apply N.ltb_lt in E3.
      assert (c = a) by lia. subst c. rewrite Eex. reflexivity.
    + rewrite delivered_nil. symmetry. now apply in_range_sel.
  - destruct (existsb S0 (chunk_range_list a b)) eqn:Eex; cbn [negb].
    2:{ rewrite delivered_nil. symmetry. now apply in_range_sel. }
    pose proof (exists_nonempty _ _ _ Eex) as Hlt.
    destruct (b - a <=? 1) eqn:E1.
    + apply N.leb_le in E1. rewrite (delivered_leaf a b c Hlt Hb).
      assert (b = a + 1) by lia. subst b. rewrite crl_single in Eex. cbn [existsb] in Eex. rewrite orb_false_r in Eex.
      destruct ((a <=? c) && (c <? a + 1)) eqn:E; [|reflexivity]. cbn [andb].
      apply andb_true_iff in E. destruct E as [E2 E3]. apply N.leb_le in E2. apply N.ltb_lt in E3.
      assert (c = a) by lia. subst c. rewrite Eex. reflexivity.
    + apply N.leb_gt in E1.
      assert (Hsplit : forall h, 1 <= h -> h < b - a -> h <= 2 ^ N.of_nat f -> b - a - h <= 2 ^ N.of_nat f ->
                delivered HO (IParent (a + h - 1) (cv HO data a (a + h) false) (cv HO data (a + h) b false)
                               :: enc_rec HO (S f) data bs S0 a (a + h) ++ enc_rec HO (S f) data bs S0 (a + h) b) c
                = (a <=? c) && (c <? b) && S0 c).
      { intros h A1 A2 A4 A5. rewrite delivered_parent, delivered_app.
        rewrite (IH a (a + h) ltac:(lia) ltac:(lia) ltac:(lia) c), (IH (a + h) b ltac:(lia) ltac:(lia) ltac:(lia) c).
        destruct (a <=? c) eqn:Q1, (c <? a + h) eqn:Q2, (a + h <=? c) eqn:Q3, (c <? b) eqn:Q4, (S0 c);
          cbn [andb orb]; try reflexivity; exfalso; lia. }
      rewrite of_nat_S in Hf.
      pose proof (half_bounds (b - a) (N.of_nat f) ltac:(lia) Hf) as (A1 & A2 & A3 & A4 & A5). cbv zeta in A1, A2, A3, A4, A5.
      destruct (forallb S0 (chunk_range_list a b)) eqn:Efa; cbn [andb].
      * destruct (next_pow2 (b - a) <=? 2 ^ bs).
        -- rewrite (delivered_leaf a b c Hlt Hb). symmetry. now apply in_range_all.
        -- apply Hsplit; lia.
      * apply Hsplit; lia.
Qed.

Lemma honest_unfold63 bs q :
  honest HO data bs q = enc_rec HO (S 63) data bs (sel q size) 0 nc.
Proof. reflexivity. Qed.

(* no guard is needed: outside the blob neither side is true, and the empty blob has the one chunk 0 *)
Theorem delivered_honest_all bs q c : delivered HO (honest HO data bs q) c = sel q size c.
Proof.
  rewrite honest_unfold63.
  pose proof (nchunks_small _ Hsize) as Hn.
  assert (P : 2 ^ 53 <= 2 ^ 63) by (apply pow2_le_mono; lia).
  rewrite (delivered_enc_rec bs (sel q size) 63 0 nc ltac:(lia) ltac:(lia)).
  - assert (E1 : (0 <=? c) = true) by (apply N.leb_le; lia). rewrite E1. cbn [andb].
    unfold sel. destruct (c <? nc); reflexivity.
  - change (N.of_nat 63) with 63. lia.
Qed.

End Delivered.

(* (A) as asked: the guards wf_ranges q, bs <= 10 and c < nchunks are not needed (delivered_honest_all) *)
Theorem delivered_honest : forall (HO : hops) (data : bytes HO) (bs : N) (q : ranges) (c : N),
  wf_ranges q = true -> blen HO data <= 2 ^ 63 -> bs <= 10 -> c < nchunks (blen HO data) ->
  delivered HO (honest HO data bs q) c = sel q (blen HO data) c.
Proof. intros HO data bs q c _ Hsize _ _. exact (delivered_honest_all HO data Hsize bs q c). Qed.

(* ---- Inv only looks at the delivered set below nchunks ---- *)
Section InvExt.
Variable HO : hops.
Variable data : bytes HO.
Variable bs : N.

Lemma Inv_ext D1 D2 st : (forall c, c < nchunks (blen HO data) -> D1 c = D2 c) ->
  Inv HO data bs D1 st -> Inv HO data bs D2 st.
Proof.
  intros E [I1 I2 I3 I4 I5 I6 I7]. constructor.
  - exact I1.
  - intros c Hc Hd. apply (I2 c Hc). now rewrite (E c Hc).
  - intros c Hc Hd. apply (I3 c Hc). now rewrite (E c Hc).
  - exact I4.
  - exact I5.
  - exact I6.
  - intros c Hc Hd. apply (I7 c Hc). now rewrite (E c Hc).
Qed.
End InvExt.
