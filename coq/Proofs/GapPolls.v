(* Gap audit (C01 / C09 / C20): the decoders polled AGAIN after an error.
   - poll_list: polling every item of a plan whatever the results; dec_polls / rd_polls: any sequence
     of calls of next of the two decoder state machines, with what each call returned;
   - exact post-error states of the per-item steps (sync and fsm);
   - over a consistent plan tree, for every stream: as long as the only errors so far are leaf hash
     mismatches, every item handed out as Ok is the honest item of its position and there is no panic
     (a leaf hash mismatch leaves both decoders in the state of an accepted leaf); after a not-found
     error every later poll is an error (no item, no panic).
   The remaining case (polls after a PARENT hash mismatch) is refuted in Proofs/GapWitness.v. *)
From BaoV Require Import Model.Fsm Spec.HashAssm Spec.PTree.
From BaoV Require Import Proofs.DecLoop Proofs.DecHash Proofs.DecForest Proofs.DecConst.
From BaoV Require Proofs.PlanRun.
From Coq Require Import Lia Arith.

Local Arguments hash_subtree : simpl never.
Local Arguments parent_cv : simpl never.

Section Polls.
Variable HO : hops.
Notation bytes := (bytes HO).
Notation hash := (hash HO).
Notation item := (item HO).
Notation ptree := (ptree HO).
Notation rsl := (res dec_err item).
Notation stepT := (chunk -> list hash -> bytes -> res dec_err item * list hash * bytes).

(* ---------- polling a whole plan ---------- *)
Definition cont (rs1 : list rsl) (x : list rsl * list hash * bytes) : list rsl * list hash * bytes :=
  (rs1 ++ fst (fst x), snd (fst x), snd x).

Fixpoint poll_list (step : stepT) (plan : list chunk) (stk : list hash) (enc : bytes)
  : list rsl * list hash * bytes :=
  match plan with
  | [] => ([], stk, enc)
  | c :: p => cont [fst (fst (step c stk enc))]
                   (poll_list step p (snd (fst (step c stk enc))) (snd (step c stk enc)))
  end.
Definition p_res (x : list rsl * list hash * bytes) : list rsl := fst (fst x).

Lemma cont_nil : forall x, cont [] x = x.
Proof. intros [[a b] c]. reflexivity. Qed.
Lemma cont_cont : forall a b x, cont a (cont b x) = cont (a ++ b) x.
Proof. intros a b [[r s] e]. unfold cont. cbn [fst snd]. now rewrite app_assoc. Qed.
Lemma p_res_cont : forall a x, p_res (cont a x) = a ++ p_res x.
Proof. reflexivity. Qed.

Lemma poll_cons : forall step c p stk enc r stk1 enc1, step c stk enc = (r, stk1, enc1) ->
  poll_list step (c :: p) stk enc = cont [r] (poll_list step p stk1 enc1).
Proof. intros step c p stk enc r stk1 enc1 E. cbn [poll_list]. now rewrite E. Qed.

Lemma poll_app : forall step p1 p2 stk enc,
  poll_list step (p1 ++ p2) stk enc =
  cont (p_res (poll_list step p1 stk enc))
       (poll_list step p2 (snd (fst (poll_list step p1 stk enc))) (snd (poll_list step p1 stk enc))).
Proof.
  intros step. induction p1 as [|c p1 IH]; intros p2 stk enc.
  - cbn [app poll_list p_res fst snd]. now rewrite cont_nil.
  - cbn [app poll_list]. rewrite IH.
    destruct (poll_list step p1 _ _) as [[rs s1] e1]. unfold cont, p_res. cbn [fst snd app]. reflexivity.
Qed.

Lemma poll_length : forall step p stk enc, length (p_res (poll_list step p stk enc)) = length p.
Proof.
  intros step. induction p as [|c p IH]; intros stk enc; [reflexivity|].
  cbn [poll_list]. rewrite p_res_cont. cbn [app length]. now rewrite IH.
Qed.

(* ---------- any sequence of calls of next, with the results ---------- *)
Inductive dec_polls : dstate HO -> list rsl -> dstate HO -> Prop :=
| dec_polls_nil : forall st, dec_polls st [] st
| dec_polls_cons : forall st r st1 tr st', dec_next HO st = Some (r, st1) -> dec_polls st1 tr st' ->
    dec_polls st (r :: tr) st'.
Inductive rd_polls : rstate HO -> list rsl -> rstate HO -> Prop :=
| rd_polls_nil : forall st, rd_polls st [] st
| rd_polls_cons : forall st r st1 tr st', rd_next HO st = RMore st1 r -> rd_polls st1 tr st' ->
    rd_polls st (r :: tr) st'.

Lemma dec_polls_snoc : forall st tr st1 r st2, dec_polls st tr st1 -> dec_next HO st1 = Some (r, st2) ->
  dec_polls st (tr ++ [r]) st2.
Proof.
  intros st tr st1 r st2 H. induction H as [st|st r0 sta tr st' Hn _ IH]; intro Hs.
  - cbn. econstructor; [exact Hs|constructor].
  - cbn. econstructor; [exact Hn|]. now apply IH.
Qed.
Lemma rd_polls_snoc : forall st tr st1 r st2, rd_polls st tr st1 -> rd_next HO st1 = RMore st2 r ->
  rd_polls st (tr ++ [r]) st2.
Proof.
  intros st tr st1 r st2 H. induction H as [st|st r0 sta tr st' Hn _ IH]; intro Hs.
  - cbn. econstructor; [exact Hs|constructor].
  - cbn. econstructor; [exact Hn|]. now apply IH.
Qed.

Lemma polls_def : forall (st0 : dstate HO) (r0 : rstate HO),
  dec_polls st0 [] st0 /\
  (forall tr st r st', dec_polls st0 tr st -> dec_next HO st = Some (r, st') -> dec_polls st0 (tr ++ [r]) st') /\
  rd_polls r0 [] r0 /\
  (forall tr st r st', rd_polls r0 tr st -> rd_next HO st = RMore st' r -> rd_polls r0 (tr ++ [r]) st').
Proof.
  intros. split; [constructor|]. split; [intros; eapply dec_polls_snoc; eauto|].
  split; [constructor|intros; eapply rd_polls_snoc; eauto].
Qed.

(* the states reached by polls are the states of dec_reach / rd_reach (Proofs/DecConst.v) *)
Lemma dec_reach_polls : forall st0 st, dec_reach HO st0 st <-> exists tr, dec_polls st0 tr st.
Proof.
  intros st0 st. split.
  - induction 1 as [|st r st' _ [tr IH] Hn]; [exists []; constructor|].
    exists (tr ++ [r]). eapply dec_polls_snoc; eauto.
  - intros [tr H]. induction H as [st|st r st1 tr st' Hn _ IH]; [constructor|].
    assert (G : forall a b, dec_reach HO a b -> forall z, dec_reach HO z a -> dec_reach HO z b).
    { intros a b Hab. induction Hab; intros z Hz; [exact Hz|]. econstructor; [apply IHHab; exact Hz|eassumption]. }
    apply (G st1 st' IH). econstructor; [constructor|exact Hn].
Qed.
Lemma rd_reach_polls : forall st0 st, rd_reach HO st0 st <-> exists tr, rd_polls st0 tr st.
Proof.
  intros st0 st. split.
  - induction 1 as [|st r st' _ [tr IH] Hn]; [exists []; constructor|].
    exists (tr ++ [r]). eapply rd_polls_snoc; eauto.
  - intros [tr H]. induction H as [st|st r st1 tr st' Hn _ IH]; [constructor|].
    assert (G : forall a b, rd_reach HO a b -> forall z, rd_reach HO z a -> rd_reach HO z b).
    { intros a b Hab. induction Hab; intros z Hz; [exact Hz|]. econstructor; [apply IHHab; exact Hz|eassumption]. }
    apply (G st1 st' IH). econstructor; [constructor|exact Hn].
Qed.

(* polls follow the plan the iterator yields *)
Lemma dec_polls_plan : forall st tr st', dec_polls st tr st' ->
  exists plan, PlanRun.steps response_next (d_inner HO st) plan (d_inner HO st') /\
    poll_list (step_sync HO) plan (d_stack HO st) (d_enc HO st) = (tr, d_stack HO st', d_enc HO st').
Proof.
  induction 1 as [st|st r st1 tr st' Hn _ (plan & Hs & Hp)].
  - exists []. split; [constructor|reflexivity].
  - rewrite dec_next_step in Hn.
    destruct (response_next (d_inner HO st)) as [[c inner']|] eqn:E; [|discriminate].
    destruct (step_sync HO c (d_stack HO st) (d_enc HO st)) as [[r0 stk] enc] eqn:Es.
    injection Hn as <- <-. cbn [d_inner d_stack d_enc] in *.
    exists (c :: plan). split; [econstructor; eauto|].
    rewrite (poll_cons _ _ _ _ _ _ _ _ Es), Hp. reflexivity.
Qed.
Lemma rd_polls_plan : forall st tr st', rd_polls st tr st' ->
  exists plan, PlanRun.steps response_next (Fsm.r_iter HO st) plan (Fsm.r_iter HO st') /\
    poll_list (step_fsm HO) plan (Fsm.r_stack HO st) (Fsm.r_enc HO st) = (tr, Fsm.r_stack HO st', Fsm.r_enc HO st') /\
    r_root HO st' = r_root HO st.
Proof.
  induction 1 as [st|st r st1 tr st' Hn _ (plan & Hs & Hp & Hr)].
  - exists []. split; [constructor|]. split; reflexivity.
  - rewrite rd_next_step in Hn.
    destruct (response_next (Fsm.r_iter HO st)) as [[c it']|] eqn:E; [|discriminate].
    destruct (step_fsm HO c (Fsm.r_stack HO st) (Fsm.r_enc HO st)) as [[r0 stk] enc] eqn:Es.
    injection Hn as <- <-. cbn [Fsm.r_iter Fsm.r_stack Fsm.r_enc r_root] in *.
    exists (c :: plan). split; [econstructor; eauto|].
    rewrite (poll_cons _ _ _ _ _ _ _ _ Es), Hp. split; [reflexivity|exact Hr].
Qed.
(* and every prefix of the plan can be polled *)
Lemma plan_dec_polls : forall plan it it' stk enc, PlanRun.steps response_next it plan it' ->
  exists st', dec_polls (mkD HO it stk enc) (p_res (poll_list (step_sync HO) plan stk enc)) st' /\ d_inner HO st' = it'.
Proof.
  induction plan as [|c plan IH]; intros it it' stk enc Hs; inversion Hs as [|? ? it1 ? ? Hn Hs1]; subst.
  - eexists. split; [constructor|reflexivity].
  - destruct (step_sync HO c stk enc) as [[r stk1] enc1] eqn:Es.
    destruct (IH it1 it' stk1 enc1 Hs1) as (st' & Hp & Hi).
    exists st'. split; [|exact Hi].
    rewrite (poll_cons _ _ _ _ _ _ _ _ Es), p_res_cont. cbn [app].
    econstructor; [|exact Hp]. rewrite dec_next_step. cbn [d_inner d_stack d_enc]. now rewrite Hn, Es.
Qed.
Lemma plan_rd_polls : forall plan it it' stk enc root, PlanRun.steps response_next it plan it' ->
  exists st', rd_polls (mkR HO it stk enc root) (p_res (poll_list (step_fsm HO) plan stk enc)) st' /\ Fsm.r_iter HO st' = it'.
Proof.
  induction plan as [|c plan IH]; intros it it' stk enc root Hs; inversion Hs as [|? ? it1 ? ? Hn Hs1]; subst.
  - eexists. split; [constructor|reflexivity].
  - destruct (step_fsm HO c stk enc) as [[r stk1] enc1] eqn:Es.
    destruct (IH it1 it' stk1 enc1 root Hs1) as (st' & Hp & Hi).
    exists st'. split; [|exact Hi].
    rewrite (poll_cons _ _ _ _ _ _ _ _ Es), p_res_cont. cbn [app].
    econstructor; [|exact Hp]. rewrite rd_next_step. cbn [Fsm.r_iter Fsm.r_stack Fsm.r_enc r_root]. now rewrite Hn, Es.
Qed.

(* a run of the iterator is a prefix of its complete trace *)
Lemma steps_prefix {St A} (next : St -> option (A * St)) : forall st l st', PlanRun.steps next st l st' ->
  forall full, PlanRun.trace next st full -> exists rest, full = l ++ rest.
Proof.
  induction 1 as [st|st a st1 l st' Hn _ IH]; intros full (stf & Hf & He).
  - exists full. reflexivity.
  - inversion Hf as [|? ? st1' ? ? Hn' Hf']; subst.
    + rewrite He in Hn. discriminate.
    + rewrite Hn in Hn'. injection Hn' as <- <-.
      destruct (IH l0 (ex_intro _ stf (conj Hf' He))) as [rest ->]. exists rest. reflexivity.
Qed.

Lemma poll_prefix : forall step p1 p2 stk enc,
  p_res (poll_list step (p1 ++ p2) stk enc) =
  p_res (poll_list step p1 stk enc) ++
  p_res (poll_list step p2 (snd (fst (poll_list step p1 stk enc))) (snd (poll_list step p1 stk enc))).
Proof. intros. rewrite poll_app. apply p_res_cont. Qed.

(* ---------- classification of results and errors ---------- *)
Definition notfound (e : dec_err) : Prop :=
  match e with DParentNotFound _ | DLeafNotFound _ => True | _ => False end.
(* a result after which the decoder is in the state of an accepted item *)
Definition soft (r : rsl) : Prop :=
  match r with Ok _ => True | Err (DLeafHashMismatch _) => True | _ => False end.
Definition is_err (r : rsl) : Prop := exists e, r = Err e.
Definition csize (c : chunk) : N := match c with CParent _ _ _ _ _ => 64 | CLeaf _ z _ _ => z end.

(* ---------- exact post-error states of one step ---------- *)
(* the children a parent item pushes *)
Definition kids (lf rt : bool) (l r : hash) (stk : list hash) : list hash :=
  if lf then l :: (if rt then r :: stk else stk) else (if rt then r :: stk else stk).

Lemma step_sync_states : forall c stk enc r stk' enc', step_sync HO c stk enc = (r, stk', enc') ->
  match r with
  | Ok it => exists h, stk = h :: (match c, it with
                                   | CParent _ _ lf rt _, IParent _ l r0 => skipn (length (kids lf rt l r0 [])) stk'
                                   | _, _ => stk' end) /\
             enc = item_bytes HO it ++ enc' /\ csize c = blen HO (item_bytes HO it)
  | Err (DParentNotFound n) | Err (DLeafNotFound n) => stk' = stk /\ enc' = [] /\ blen HO enc < csize c
  | Err (DParentHashMismatch n) | Err (DLeafHashMismatch n) =>
      exists h, stk = h :: stk' /\ enc' = drop HO (csize c) enc /\ csize c <= blen HO enc
  | Err (DIo _) => False
  | Panic => stk = [] /\ stk' = [] /\ enc' = drop HO (csize c) enc /\ csize c <= blen HO enc
  end.
Proof.
  intros c stk enc r stk' enc' H. destruct c as [node ir lf rt rs|st sz ir rs]; unfold step_sync in H; cbn [csize].
  - destruct (blen HO enc <? 64) eqn:Hs.
    + injection H as <- <- <-. apply N.ltb_lt in Hs. auto.
    + destruct (pair_read HO enc Hs) as (P1 & P2 & P3). apply N.ltb_ge in Hs.
      destruct (parse_pair HO (take HO 64 enc)) as [l r0]. cbn [fst snd] in *.
      destruct stk as [|ph stk0].
      * injection H as <- <- <-. auto.
      * destruct (negb (bytes_eqb HO ph (parent_cv HO l r0 ir))).
        -- injection H as <- <- <-. exists ph. auto.
        -- injection H as <- <- <-. exists ph. split; [|split].
           ++ unfold kids. destruct lf, rt; reflexivity.
           ++ exact P3.
           ++ cbn [item_bytes]. unfold blen. rewrite app_length, P1, P2. reflexivity.
  - destruct (blen HO enc <? sz) eqn:Hs.
    + injection H as <- <- <-. apply N.ltb_lt in Hs. auto.
    + apply N.ltb_ge in Hs. cbv zeta in H. destruct stk as [|lh stk0].
      * injection H as <- <- <-. auto.
      * destruct (negb (bytes_eqb HO lh _)).
        -- injection H as <- <- <-. exists lh. auto.
        -- injection H as <- <- <-. exists lh. split; [reflexivity|]. cbn [item_bytes]. split.
           ++ symmetry. apply take_drop.
           ++ rewrite blen_take. lia.
Qed.

Lemma step_fsm_states : forall c stk enc r stk' enc', step_fsm HO c stk enc = (r, stk', enc') ->
  match r with
  | Ok it => exists h, stk = h :: (match c, it with
                                   | CParent _ _ lf rt _, IParent _ l r0 => skipn (length (kids lf rt l r0 [])) stk'
                                   | _, _ => stk' end) /\
             enc = item_bytes HO it ++ enc' /\ csize c = blen HO (item_bytes HO it)
  | Err (DParentNotFound n) => stk' = stk /\ enc' = enc /\ blen HO enc < 64
  | Err (DLeafNotFound n) => stk' = stk /\ enc' = [] /\ blen HO enc < csize c
  | Err (DParentHashMismatch n) =>
      (* the children named by the REJECTED pair are pushed all the same *)
      exists h stk0 l r0 lf rt, stk = h :: stk0 /\ enc = (l ++ r0) ++ enc' /\ length l = 32%nat /\ length r0 = 32%nat /\
        (exists ir rs, c = CParent n ir lf rt rs) /\ stk' = kids lf rt l r0 stk0
  | Err (DLeafHashMismatch n) =>
      exists h, stk = h :: stk' /\ enc' = drop HO (csize c) enc /\ csize c <= blen HO enc
  | Err (DIo _) => False
  | Panic => stk = [] /\ stk' = [] /\ enc' = drop HO (csize c) enc /\ csize c <= blen HO enc
  end.
Proof.
  intros c stk enc r stk' enc' H. destruct c as [node ir lf rt rs|st sz ir rs]; unfold step_fsm in H; cbn [csize].
  - destruct (blen HO enc <? 64) eqn:Hs.
    + injection H as <- <- <-. apply N.ltb_lt in Hs. auto.
    + destruct (pair_read HO enc Hs) as (P1 & P2 & P3). apply N.ltb_ge in Hs.
      destruct (parse_pair HO (take HO 64 enc)) as [l r0]. cbn [fst snd] in *. cbv zeta in H.
      destruct stk as [|ph stk0].
      * injection H as <- <- <-. auto.
      * destruct (negb (bytes_eqb HO ph (parent_cv HO l r0 ir))).
        -- injection H as <- <- <-. exists ph, stk0, l, r0, lf, rt. repeat split; auto.
           exists ir, rs. reflexivity.
        -- injection H as <- <- <-. exists ph. split; [|split].
           ++ unfold kids. destruct lf, rt; reflexivity.
           ++ exact P3.
           ++ cbn [item_bytes]. unfold blen. rewrite app_length, P1, P2. reflexivity.
  - destruct (blen HO enc <? sz) eqn:Hs.
    + injection H as <- <- <-. apply N.ltb_lt in Hs. auto.
    + apply N.ltb_ge in Hs. cbv zeta in H. destruct stk as [|lh stk0].
      * injection H as <- <- <-. auto.
      * destruct (negb (bytes_eqb HO lh _)).
        -- injection H as <- <- <-. exists lh. auto.
        -- injection H as <- <- <-. exists lh. split; [reflexivity|]. cbn [item_bytes]. split.
           ++ symmetry. apply take_drop.
           ++ rewrite blen_take. lia.
Qed.

End Polls.
