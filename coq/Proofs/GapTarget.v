(* Gap audit (C01): "every byte written to the target is the blob's" for a target of ANY length (a decode
   usually starts from an empty or short target; positioned writes past the end zero-extend it).
   pad n t = t cut / zero-extended to exactly n bytes.  A positioned write that stays within the first n bytes
   commutes with pad and leaves everything from byte n on untouched, so the theorem for targets of the blob's
   length (Proofs/E2ERanges.v) transfers. *)
From BaoV Require Import Model.Fsm Spec.RangeSpec Spec.PlanSpec Spec.EncSpec Spec.HashAssm Spec.PTree.
From BaoV Require Proofs.BridgeBase Proofs.PlanBase.
From BaoV Require Import Proofs.BridgeLeaves.
From BaoV Require Import Proofs.DecLoop Proofs.DecHash Proofs.DecForest Proofs.DecRanges.
From BaoV Require Import Proofs.E2ERanges Proofs.GapDrivers.
From Coq Require Import Lia Arith.
Open Scope N_scope.

Section ListFacts.
Context {A : Type}.

Lemma nth_error_ext' : forall l l' : list A, (forall i, nth_error l i = nth_error l' i) -> l = l'.
Proof.
  induction l as [|a l IH]; intros [|b l'] H.
  - reflexivity.
  - specialize (H 0%nat). discriminate.
  - specialize (H 0%nat). discriminate.
  - pose proof (H 0%nat) as H0. cbn in H0. injection H0 as ->. f_equal. apply IH. intro i. exact (H (S i)).
Qed.

Lemma nth_error_firstn' : forall n (l : list A) i,
  nth_error (firstn n l) i = if (i <? n)%nat then nth_error l i else None.
Proof.
  induction n as [|n IH]; intros l i.
  - cbn. destruct i; reflexivity.
  - destruct l as [|a l].
    + cbn [firstn]. destruct i; cbn [nth_error]; destruct (_ <? _)%nat; reflexivity.
    + destruct i; [reflexivity|]. cbn [firstn nth_error]. rewrite IH. reflexivity.
Qed.

Lemma nth_error_skipn' : forall n (l : list A) i, nth_error (skipn n l) i = nth_error l (n + i).
Proof.
  induction n as [|n IH]; intros l i; [reflexivity|].
  destruct l as [|a l]; [cbn; destruct i; reflexivity|]. cbn [skipn Nat.add nth_error]. apply IH.
Qed.

Lemma nth_error_repeat' : forall (a : A) m i, nth_error (repeat a m) i = if (i <? m)%nat then Some a else None.
Proof.
  intros a. induction m as [|m IH]; intros i; [destruct i; reflexivity|].
  destruct i; [reflexivity|]. cbn [repeat nth_error]. rewrite IH. reflexivity.
Qed.

Lemma nth_error_app' : forall (l l' : list A) i,
  nth_error (l ++ l') i = if (i <? length l)%nat then nth_error l i else nth_error l' (i - length l).
Proof.
  intros l l' i. destruct (Nat.ltb_spec i (length l)); [apply nth_error_app1|apply nth_error_app2]; assumption.
Qed.
End ListFacts.

Section Pad.
Variable HO : hops.
Notation bytes := (bytes HO).
Notation item := (item HO).

(* t cut / zero-extended to exactly n bytes *)
Definition pad (n : nat) (t : bytes) : bytes := firstn n (t ++ zeros HO (n - length t)).

Lemma pad_length : forall n t, length (pad n t) = n.
Proof. intros n t. unfold pad, zeros. rewrite firstn_length, app_length, repeat_length. lia. Qed.

Lemma nth_error_pad : forall n t i,
  nth_error (pad n t) i =
  if (i <? n)%nat then (if (i <? length t)%nat then nth_error t i else Some (bzero HO)) else None.
Proof.
  intros n t i. unfold pad, zeros. rewrite nth_error_firstn', nth_error_app', nth_error_repeat'.
  destruct (Nat.ltb_spec i n); [|reflexivity].
  destruct (Nat.ltb_spec i (length t)); [reflexivity|].
  destruct (Nat.ltb_spec (i - length t) (n - length t)); [reflexivity|lia].
Qed.

Lemma pad_id : forall n t, length t = n -> pad n t = t.
Proof.
  intros n t H. unfold pad. rewrite H, Nat.sub_diag. cbn. rewrite app_nil_r, <- H. apply firstn_all.
Qed.

(* the bytes of t' below n are bytes of pad n t' *)
Lemma pad_prefix : forall n t, firstn (length t) (pad n t) = firstn n t.
Proof.
  intros n t. apply nth_error_ext'. intro i. rewrite !nth_error_firstn', nth_error_pad.
  destruct (Nat.ltb_spec i (length t)), (Nat.ltb_spec i n); try reflexivity.
  symmetry. apply nth_error_None. lia.
Qed.

(* write_at in terms of nat positions *)
Lemma write_at_nat : forall (d : bytes) off (b : bytes),
  write_at HO d off b =
  firstn (N.to_nat off) (d ++ zeros HO (N.to_nat off - length d)) ++ b ++
  skipn (N.to_nat off + length b) (d ++ zeros HO (N.to_nat off - length d)).
Proof.
  intros d off b. unfold write_at, take, drop, blen.
  replace (N.to_nat (off + N.of_nat (length b))) with (N.to_nat off + length b)%nat by lia.
  destruct (N.ltb_spec (N.of_nat (length d)) off).
  - replace (N.to_nat (off - N.of_nat (length d))) with (N.to_nat off - length d)%nat by lia. reflexivity.
  - replace (N.to_nat off - length d)%nat with 0%nat by lia. cbn [zeros repeat]. rewrite app_nil_r. reflexivity.
Qed.

Lemma nth_error_write_at : forall (d : bytes) off (b : bytes) i,
  nth_error (write_at HO d off b) i =
  if (i <? N.to_nat off)%nat then (if (i <? length d)%nat then nth_error d i else Some (bzero HO))
  else if (i <? N.to_nat off + length b)%nat then nth_error b (i - N.to_nat off)
  else nth_error d i.
Proof.
  intros d off b i. rewrite write_at_nat. set (o := N.to_nat off). unfold zeros.
  assert (Lf : length (firstn o (d ++ repeat (bzero HO) (o - length d))) = o).
  { rewrite firstn_length, app_length, repeat_length. lia. }
  rewrite nth_error_app', Lf.
  destruct (Nat.ltb_spec i o).
  - rewrite nth_error_firstn'. replace (i <? o)%nat with true by (symmetry; apply Nat.ltb_lt; lia).
    rewrite nth_error_app', nth_error_repeat'.
    destruct (Nat.ltb_spec i (length d)); [reflexivity|].
    replace (i - length d <? o - length d)%nat with true by (symmetry; apply Nat.ltb_lt; lia). reflexivity.
  - rewrite nth_error_app'.
    destruct (Nat.ltb_spec (i - o) (length b)).
    + replace (i <? o + length b)%nat with true by (symmetry; apply Nat.ltb_lt; lia). reflexivity.
    + replace (i <? o + length b)%nat with false by (symmetry; apply Nat.ltb_ge; lia).
      rewrite nth_error_skipn', nth_error_app', nth_error_repeat'.
      replace (o + length b + (i - o - length b))%nat with i by lia.
      destruct (Nat.ltb_spec i (length d)); [reflexivity|].
      replace (i - length d <? o - length d)%nat with false by (symmetry; apply Nat.ltb_ge; lia).
      symmetry. apply nth_error_None. lia.
Qed.

Lemma write_at_length : forall (d : bytes) off (b : bytes),
  length (write_at HO d off b) = Nat.max (length d) (N.to_nat off + length b).
Proof.
  intros d off b. rewrite write_at_nat. unfold zeros.
  rewrite !app_length, firstn_length, skipn_length, app_length, repeat_length. lia.
Qed.

(* a positioned write that ends within the first n bytes *)
Lemma write_at_pad : forall n (t : bytes) off (b : bytes), (N.to_nat off + length b <= n)%nat ->
  pad n (write_at HO t off b) = write_at HO (pad n t) off b /\
  skipn n (write_at HO t off b) = skipn n t.
Proof.
  intros n t off b Hfit. set (o := N.to_nat off) in *. split.
  - apply nth_error_ext'. intro i.
    rewrite nth_error_pad, !nth_error_write_at, write_at_length, pad_length, nth_error_pad. fold o.
    destruct (Nat.ltb_spec i n).
    + destruct (Nat.ltb_spec i o).
      * replace (i <? Nat.max (length t) (o + length b))%nat with true by (symmetry; apply Nat.ltb_lt; lia).
        reflexivity.
      * destruct (Nat.ltb_spec i (o + length b)).
        -- replace (i <? Nat.max (length t) (o + length b))%nat with true by (symmetry; apply Nat.ltb_lt; lia).
           reflexivity.
        -- destruct (Nat.ltb_spec i (length t)).
           ++ replace (i <? Nat.max (length t) (o + length b))%nat with true by (symmetry; apply Nat.ltb_lt; lia).
              reflexivity.
           ++ replace (i <? Nat.max (length t) (o + length b))%nat with false by (symmetry; apply Nat.ltb_ge; lia).
              reflexivity.
    + replace (i <? o)%nat with false by (symmetry; apply Nat.ltb_ge; lia).
      replace (i <? o + length b)%nat with false by (symmetry; apply Nat.ltb_ge; lia). reflexivity.
  - apply nth_error_ext'. intro i. rewrite !nth_error_skipn', nth_error_write_at. fold o.
    replace (n + i <? o)%nat with false by (symmetry; apply Nat.ltb_ge; lia).
    replace (n + i <? o + length b)%nat with false by (symmetry; apply Nat.ltb_ge; lia). reflexivity.
Qed.

(* leaves that are runs of chunks of the blob end within the blob *)
Lemma good_leaf_fits : forall (data : bytes) s e, s < e -> e <= nchunks (blen HO data) ->
  (N.to_nat (s * 1024) + length (chunk_bytes HO data s e) <= length data)%nat.
Proof.
  intros data s e Hse He.
  pose proof (BridgeBase.blen_chunk_bytes HO data s e) as HL. unfold blen in HL.
  assert (Hs : s < nchunks (N.of_nat (length data))) by (unfold blen in He; lia).
  apply PlanBase.nchunks_spec in Hs. lia.
Qed.

Lemma write_leaves_pad : forall (data : bytes) (S0 : N -> bool) zs (t : bytes),
  good_leaves HO data S0 zs ->
  pad (length data) (write_leaves HO t zs) = write_leaves HO (pad (length data) t) zs /\
  skipn (length data) (write_leaves HO t zs) = skipn (length data) t.
Proof.
  intros data S0. induction zs as [|[node l r|off d] zs IH]; intros t G.
  - split; reflexivity.
  - change (write_leaves HO t (IParent node l r :: zs)) with (write_leaves HO t zs).
    change (write_leaves HO (pad (length data) t) (IParent node l r :: zs))
      with (write_leaves HO (pad (length data) t) zs).
    apply IH. intros off d Hin. apply G. now right.
  - change (write_leaves HO t (ILeaf off d :: zs)) with (write_leaves HO (write_at HO t off d) zs).
    change (write_leaves HO (pad (length data) t) (ILeaf off d :: zs))
      with (write_leaves HO (write_at HO (pad (length data) t) off d) zs).
    destruct (G off d (or_introl eq_refl)) as (s & e & -> & Hse & He & -> & _).
    destruct (write_at_pad (length data) t (s * 1024) (chunk_bytes HO data s e) (good_leaf_fits data s e Hse He))
      as [W1 W2].
    destruct (IH (write_at HO t (s * 1024) (chunk_bytes HO data s e))) as [I1 I2].
    { intros off' d' Hin. apply G. now right. }
    rewrite I1, I2, W1, W2. split; reflexivity.
Qed.
End Pad.

(* ---------- the decode_ranges drivers with a target of any length ---------- *)
Theorem e2e_decode_ranges_bytes_any_target : forall HO, hash_ok HO ->
  forall (data : bytes HO) (bs : N) (q : ranges),
  blen HO data <= 2 ^ 63 -> bs <= 10 -> wf_ranges q = true ->
  forall (stream target : bytes HO) (ob : outboard HO),
  ob_root ob = root_hash HO data -> ob_tree ob = mkTree (blen HO data) bs ->
  forall res target' ob',
  (exists st', decode_ranges HO stream q target ob = (res, target', ob', st')) \/
  (exists st', decode_ranges_fsm HO stream q target ob = (res, target', ob', st')) ->
  let n := length data in
  (* nothing from the blob's length on is touched; the bytes below it are those of the padded result *)
  skipn n target' = skipn n target /\
  firstn (length target') (pad HO n target') = firstn n target' /\
  (length target <= length target')%nat /\
  (forall c, c < nchunks (blen HO data) ->
     chunk_bytes HO (pad HO n target') c (c + 1) = chunk_bytes HO (pad HO n target) c (c + 1) \/
     (sel q (blen HO data) c = true /\
      chunk_bytes HO (pad HO n target') c (c + 1) = chunk_bytes HO data c (c + 1))) /\
  (res = Ok tt -> forall c, c < nchunks (blen HO data) ->
     chunk_bytes HO (pad HO n target') c (c + 1) =
     if sel q (blen HO data) c then chunk_bytes HO data c (c + 1)
     else chunk_bytes HO (pad HO n target) c (c + 1)).
Proof.
  intros HO HOK data bs q Hs Hb Hwf stream target ob Hr Ht res target' ob' Hd n.
  (* the target is the old one with the leaves of a prefix zs of the honest encoding written into it *)
  assert (Z : exists zs, is_prefix zs (honest HO data bs q) /\ target' = write_leaves HO target zs /\
                (res = Ok tt -> zs = honest HO data bs q /\ is_prefix (flat HO (honest HO data bs q)) stream)).
  { destruct (e2e_decode_ranges_any HO HOK data bs q Hs Hb Hwf stream target ob Hr Ht) as [A B].
    destruct Hd as [[st' Hd]|[st' Hd]].
    - destruct A as (ys & o & st1 & Hd' & S1 & S2 & S3 & S4 & S5).
      cbv zeta in Hd'. rewrite Hd in Hd'. injection Hd' as -> -> _ _.
      exact (ranges_post_of HO data bs q stream target ob ys o S1 S2 S4 S5).
    - destruct B as (ys & o & st1 & Hd' & S1 & S2 & S3 & S4 & S5).
      cbv zeta in Hd'. rewrite Hd in Hd'. injection Hd' as -> -> _ _.
      exact (ranges_post_of HO data bs q stream target ob ys o S1 S2 S4 S5). }
  destruct Z as (zs & Z1 & -> & Z3).
  pose proof (prefix_good_leaves HO data bs q Hs zs Z1) as G.
  destruct (write_leaves_pad HO data (sel q (blen HO data)) zs target G) as [P1 P2].
  split; [exact P2|]. split; [apply pad_prefix|]. split.
  { (* the target never shrinks *)
    clear. revert target. induction zs as [|[node l r|off d] zs IH]; intro target; [apply le_n| |].
    - change (write_leaves HO target (IParent node l r :: zs)) with (write_leaves HO target zs). apply IH.
    - change (write_leaves HO target (ILeaf off d :: zs)) with (write_leaves HO (write_at HO target off d) zs).
      etransitivity; [|apply IH]. rewrite write_at_length. lia. }
  fold n in P1. rewrite P1.
  assert (Hlen : length (pad HO n target) = length data) by apply pad_length.
  pose proof (target_post_of HO data bs q Hs stream (pad HO n target) (write_leaves HO (pad HO n target) zs) res Hlen) as TP.
  destruct TP as (_ & T2 & T3).
  { exists zs. split; [exact Z1|]. split; [reflexivity|exact Z3]. }
  split; [exact T2|exact T3].
Qed.

Lemma pad_def : forall HO n (t : bytes HO),
  pad HO n t = firstn n (t ++ zeros HO (n - length t)) /\ length (pad HO n t) = n /\
  (length t = n -> pad HO n t = t) /\
  forall i, nth_error (pad HO n t) i =
    if (i <? n)%nat then (if (i <? length t)%nat then nth_error t i else Some (bzero HO)) else None.
Proof.
  intros HO n t. split; [reflexivity|]. split; [apply pad_length|]. split; [apply pad_id|apply nth_error_pad].
Qed.
