(* (c) union; r_iter; folds of unions *)
From BaoV Require Import Spec.RangeSpec Proofs.RangeBase.
From Coq Require Import Lia Arith PeanoNat ZArith ZifyN ZifyNat ZifyBool.

Lemma mem_all_gt r q : Forall (fun y => q < y) r -> mem r q = false.
Proof. intro H. now rewrite mem_cnt, cnt_all_gt. Qed.

Lemma ss_all_gt y t q : ssorted (y :: t) -> q < y -> Forall (fun z => q < z) (y :: t).
Proof.
  intros Hs Hq. constructor; [assumption|]. apply (Forall_gt_trans q y); [lia | now apply ss_head_lt].
Qed.

Lemma S_cons_le st x r q : x <= q -> xorb st (mem (x :: r) q) = xorb (negb st) (mem r q).
Proof.
  intro H. cbn [mem]. assert (E : (x <=? q) = true) by (apply N.leb_le; lia). rewrite E.
  destruct st, (mem r q); reflexivity.
Qed.
Lemma S_gt st r q : Forall (fun y => q < y) r -> xorb st (mem r q) = st.
Proof. intro H. rewrite mem_all_gt by assumption. destruct st; reflexivity. Qed.

Lemma emit_le old new x res q :
  x <= q -> xorb old (mem (if Bool.eqb old new then res else x :: res) q) = xorb new (mem res q).
Proof.
  intro H. destruct (Bool.eqb old new) eqn:E.
  - apply eqb_prop in E. now subst.
  - rewrite S_cons_le by assumption. destruct old, new; try discriminate E; reflexivity.
Qed.
Lemma emit_all (P : N -> Prop) (c : bool) (x : N) res : P x -> Forall P res -> Forall P (if c then res else x :: res).
Proof. intros. destruct c; [assumption | now constructor]. Qed.
Lemma emit_gt old (c : bool) x res q :
  q < x -> Forall (fun y => q < y) res -> xorb old (mem (if c then res else x :: res) q) = old.
Proof. intros. apply S_gt. now apply emit_all. Qed.
Lemma emit_sorted (c : bool) x res :
  ssorted res -> Forall (fun y => x < y) res -> ssorted (if c then res else x :: res).
Proof. intros. destruct c; [assumption | now apply ss_cons]. Qed.

Lemma union_aux_all (P : N -> Prop) f : forall a b ia ib,
  Forall P a -> Forall P b -> Forall P (r_union_aux f a b ia ib).
Proof.
  induction f as [|f IH]; intros a b ia ib Ha Hb; [constructor|].
  destruct b as [|y b'], a as [|x a']; cbn [r_union_aux]; [constructor| | |].
  - inversion Ha; subst. apply (emit_all P); [assumption|]. apply IH; auto.
  - inversion Hb; subst. apply (emit_all P); [assumption|]. apply IH; auto.
  - inversion Ha; inversion Hb; subst.
    destruct (x <? y); [|destruct (y <? x)]; (apply (emit_all P); [assumption|]); apply IH; auto.
Qed.

Lemma union_aux_sorted f : forall a b ia ib,
  ssorted a -> ssorted b -> ssorted (r_union_aux f a b ia ib).
Proof.
  induction f as [|f IH]; intros a b ia ib Ha Hb; [reflexivity|].
  destruct b as [|y b'], a as [|x a']; cbn [r_union_aux]; [reflexivity| | |].
  - apply emit_sorted; [apply IH; [eapply ss_tail; eauto | assumption]|].
    apply union_aux_all; [now apply ss_head_lt | constructor].
  - apply emit_sorted; [apply IH; [assumption | eapply ss_tail; eauto]|].
    apply union_aux_all; [constructor | now apply ss_head_lt].
  - destruct (x <? y) eqn:E1; [|destruct (y <? x) eqn:E2].
    + apply N.ltb_lt in E1. apply emit_sorted; [apply IH; [eapply ss_tail; eauto | assumption]|].
      apply union_aux_all; [now apply ss_head_lt | now apply ss_all_gt].
    + apply N.ltb_lt in E2. apply emit_sorted; [apply IH; [assumption | eapply ss_tail; eauto]|].
      apply union_aux_all; [now apply ss_all_gt | now apply ss_head_lt].
    + apply N.ltb_ge in E1. apply N.ltb_ge in E2. assert (x = y) by lia. subst y.
      apply emit_sorted; [apply IH; eapply ss_tail; eauto|].
      apply union_aux_all; now apply ss_head_lt.
Qed.

Lemma union_aux_mem f : forall a b ia ib q,
  (length a + length b < f)%nat -> ssorted a -> ssorted b ->
  xorb (ia || ib) (mem (r_union_aux f a b ia ib) q) = xorb ia (mem a q) || xorb ib (mem b q).
Proof.
  induction f as [|f IH]; intros a b ia ib q Hf Ha Hb; [lia|].
  destruct b as [|y b'], a as [|x a']; cbn [r_union_aux length] in *.
  - cbn [mem]. destruct ia, ib; reflexivity.
  - destruct (N.le_gt_cases x q) as [Hq|Hq].
    + rewrite emit_le, (S_cons_le ia) by assumption.
      apply IH; [cbn [length]; lia | eapply ss_tail; eauto | assumption].
    + rewrite emit_gt; [|lia|].
      * rewrite (S_gt ia) by (apply ss_all_gt; [assumption | lia]). cbn [mem]. now destruct ib; rewrite ?orb_true_r, ?orb_false_r.
      * apply union_aux_all; [|constructor]. apply (Forall_gt_trans q x); [lia | now apply ss_head_lt].
  - destruct (N.le_gt_cases y q) as [Hq|Hq].
    + rewrite emit_le, (S_cons_le ib) by assumption.
      apply IH; [cbn [length]; lia | assumption | eapply ss_tail; eauto].
    + rewrite emit_gt; [|lia|].
      * rewrite (S_gt ib) by (apply ss_all_gt; [assumption | lia]). cbn [mem]. now destruct ia.
      * apply union_aux_all; [constructor|]. apply (Forall_gt_trans q y); [lia | now apply ss_head_lt].
  - destruct (x <? y) eqn:E1; [|destruct (y <? x) eqn:E2].
    + apply N.ltb_lt in E1. destruct (N.le_gt_cases x q) as [Hq|Hq].
      * rewrite emit_le, (S_cons_le ia) by assumption.
        apply IH; [cbn [length]; lia | eapply ss_tail; eauto | assumption].
      * rewrite emit_gt; [|lia|].
        -- rewrite (S_gt ia) by (apply ss_all_gt; [assumption | lia]).
           rewrite (S_gt ib) by (apply ss_all_gt; [assumption | lia]). reflexivity.
        -- apply union_aux_all; [|apply ss_all_gt; [assumption|lia]].
           apply (Forall_gt_trans q x); [lia | now apply ss_head_lt].
    + apply N.ltb_lt in E2. destruct (N.le_gt_cases y q) as [Hq|Hq].
      * rewrite emit_le, (S_cons_le ib) by assumption.
        apply IH; [cbn [length]; lia | assumption | eapply ss_tail; eauto].
      * rewrite emit_gt; [|lia|].
        -- rewrite (S_gt ia) by (apply ss_all_gt; [assumption | lia]).
           rewrite (S_gt ib) by (apply ss_all_gt; [assumption | lia]). reflexivity.
        -- apply union_aux_all; [apply ss_all_gt; [assumption|lia]|].
           apply (Forall_gt_trans q y); [lia | now apply ss_head_lt].
    + apply N.ltb_ge in E1. apply N.ltb_ge in E2. assert (x = y) by lia. subst y.
      destruct (N.le_gt_cases x q) as [Hq|Hq].
      * rewrite emit_le, (S_cons_le ia), (S_cons_le ib) by assumption.
        apply IH; [lia | eapply ss_tail; eauto | eapply ss_tail; eauto].
      * rewrite emit_gt; [|lia|].
        -- rewrite (S_gt ia) by (apply ss_all_gt; [assumption | lia]).
           rewrite (S_gt ib) by (apply ss_all_gt; [assumption | lia]). reflexivity.
        -- apply union_aux_all; (apply (Forall_gt_trans q x); [lia | now apply ss_head_lt]).
Qed.

Lemma r_union_spec a b :
  wf_ranges a = true -> wf_ranges b = true ->
  wf_ranges (r_union a b) = true /\ forall x, mem (r_union a b) x = mem a x || mem b x.
Proof.
  rewrite !wf_iff. intros [Sa Wa] [Sb Wb]. unfold r_union. split; [split|].
  - now apply union_aux_sorted.
  - now apply union_aux_all.
  - intro x. pose proof (union_aux_mem (S (length a + length b)) a b false false x ltac:(lia) Sa Sb) as H.
    cbn [orb] in H. rewrite !xorb_false_l in H. exact H.
Qed.

Lemma r_union_in a b y : In y (r_union a b) -> In y a \/ In y b.
Proof.
  intro H. destruct (in_dec N.eq_dec y a) as [|Na]; [now left|].
  destruct (in_dec N.eq_dec y b) as [|Nb]; [now right|]. exfalso.
  assert (HF : Forall (fun z => z <> y) (r_union a b)).
  { apply union_aux_all; apply Forall_forall; intros z Hz Hzy; subst; contradiction. }
  rewrite Forall_forall in HF. now apply (HF y H).
Qed.

(* ---- r_iter ---- *)
Lemma pair_ind (P : list N -> Prop) :
  P [] -> (forall a, P [a]) -> (forall a b t, P t -> P (a :: b :: t)) -> forall l, P l.
Proof.
  intros H0 H1 H2 l. enough (H : P l /\ forall a, P (a :: l)) by apply H.
  induction l as [|x l [IH1 IH2]]; split; auto.
Qed.

Definition covers (it : N * option N) (x : N) : bool :=
  match it with (s, None) => s <=? x | (s, Some e) => (s <=? x) && (x <? e) end.

Lemma mem_iter r x : ssorted r -> mem r x = existsb (fun it => covers it x) (r_iter r).
Proof.
  induction r as [| a | a b t IH] using pair_ind; intro Hs.
  - reflexivity.
  - cbn [mem r_iter existsb covers]. destruct (a <=? x); reflexivity.
  - pose proof (ss_tail _ _ Hs) as Hs1. pose proof (ss_tail _ _ Hs1) as Hs2.
    pose proof (ss_head_lt _ _ Hs) as Ha. inversion Ha as [|? ? Hab _]; subst.
    cbn [mem r_iter existsb covers]. rewrite <- (IH Hs2).
    destruct (a <=? x) eqn:E1; destruct (b <=? x) eqn:E2; cbn [andb orb negb].
    + apply N.leb_le in E2. apply N.ltb_ge in E2. rewrite E2. now rewrite negb_involutive.
    + apply N.leb_gt in E2. apply N.ltb_lt in E2. rewrite E2. reflexivity.
    + apply N.leb_gt in E1. apply N.leb_le in E2. lia.
    + symmetry. apply mem_all_gt. apply N.leb_gt in E2. apply (Forall_gt_trans x b); [lia | now apply ss_head_lt].
Qed.

Lemma iter_pos_some r s e :
  In (s, Some e) (r_iter r) ->
  exists i, Nat.even i = true /\ nth_error r i = Some s /\ nth_error r (S i) = Some e.
Proof.
  induction r as [| a | a b t IH] using pair_ind; cbn [r_iter In].
  - intros [].
  - intros [H|[]]. discriminate.
  - intros [H|H].
    + inversion H; subst. exists O. repeat split.
    + destruct (IH H) as (i & E & H1 & H2). exists (S (S i)). repeat split; assumption.
Qed.
Lemma iter_pos_none r s :
  In (s, None) (r_iter r) -> exists i, Nat.even i = true /\ nth_error r i = Some s.
Proof.
  induction r as [| a | a b t IH] using pair_ind; cbn [r_iter In].
  - intros [].
  - intros [H|[]]. inversion H; subst. exists O. split; reflexivity.
  - intros [H|H]; [discriminate|].
    destruct (IH H) as (i & E & H1). exists (S (S i)). split; assumption.
Qed.

Lemma iter_lt r s e : ssorted r -> In (s, Some e) (r_iter r) -> s < e.
Proof.
  induction r as [| a | a b t IH] using pair_ind; cbn [r_iter In]; intros Hs.
  - intros [].
  - intros [H|[]]. discriminate.
  - intros [H|H].
    + inversion H; subst. pose proof (ss_head_lt _ _ Hs) as Ha. now inversion Ha.
    + apply IH; [|assumption]. eapply ss_tail, ss_tail; eauto.
Qed.

Lemma iter_in_some r s e : In (s, Some e) (r_iter r) -> In s r /\ In e r.
Proof.
  intro H. destruct (iter_pos_some _ _ _ H) as (i & _ & H1 & H2).
  split; eapply nth_error_In; eauto.
Qed.
Lemma iter_in_none r s : In (s, None) (r_iter r) -> In s r.
Proof. intro H. destruct (iter_pos_none _ _ H) as (i & _ & H1). eapply nth_error_In; eauto. Qed.

Lemma iter_end_not_mem r s e : ssorted r -> In (s, Some e) (r_iter r) -> mem r e = false.
Proof.
  induction r as [| a | a b t IH] using pair_ind; cbn [r_iter In]; intros Hs.
  - intros [].
  - intros [H|[]]. discriminate.
  - pose proof (ss_tail _ _ Hs) as Hs1. pose proof (ss_tail _ _ Hs1) as Hs2.
    pose proof (ss_head_lt _ _ Hs) as Ha. inversion Ha as [|? ? Hab _]; subst.
    pose proof (ss_head_lt _ _ Hs1) as Hb. rewrite Forall_forall in Hb.
    intros [H|H].
    + inversion H; subst. cbn [mem].
      assert (E1 : (s <=? e) = true) by (apply N.leb_le; lia). rewrite E1, N.leb_refl.
      rewrite mem_all_gt; [reflexivity | now apply ss_head_lt].
    + specialize (IH Hs2 H). apply iter_in_some in H. destruct H as [_ He]. specialize (Hb _ He).
      cbn [mem]. assert (E1 : (a <=? e) = true) by (apply N.leb_le; lia).
      assert (E2 : (b <=? e) = true) by (apply N.leb_le; lia). rewrite E1, E2, IH. reflexivity.
Qed.

(* ---- r_from_range ---- *)
Lemma mem_from_range a b x : mem (r_from_range a b) x = (a <=? x) && (x <? b).
Proof.
  unfold r_from_range. destruct (a <? b) eqn:E; cbn [mem].
  - destruct (a <=? x); [|reflexivity]. cbn [andb]. destruct (b <=? x) eqn:E2.
    + apply N.leb_le in E2. apply N.ltb_ge in E2. now rewrite E2.
    + apply N.leb_gt in E2. apply N.ltb_lt in E2. now rewrite E2.
  - apply N.ltb_ge in E. destruct (a <=? x) eqn:E1; [|reflexivity]. apply N.leb_le in E1.
    symmetry. cbn [andb]. apply N.ltb_ge. lia.
Qed.
Lemma mem_from_range_from a x : mem (r_from_range_from a) x = (a <=? x).
Proof. unfold r_from_range_from. cbn [mem]. destruct (a <=? x); reflexivity. Qed.
Lemma wf_from_range a b : a < W64 -> b < W64 -> wf_ranges (r_from_range a b) = true.
Proof.
  intros Ha Hb. unfold r_from_range. destruct (a <? b) eqn:E; [|reflexivity].
  apply wf_iff. split; [|repeat constructor; assumption].
  unfold ssorted. cbn [strictly_sorted]. now rewrite E.
Qed.
Lemma wf_from_range_from a : a < W64 -> wf_ranges (r_from_range_from a) = true.
Proof. intros Ha. apply wf_iff. split; [reflexivity | repeat constructor; assumption]. Qed.

(* ---- folds of unions ---- *)
Lemma fold_left_ext {A B} (f g : A -> B -> A) l a :
  (forall a b, f a b = g a b) -> fold_left f l a = fold_left g l a.
Proof. intro H. revert a. induction l as [|x l IH]; intro a; cbn [fold_left]; [reflexivity|]. now rewrite H, IH. Qed.

Lemma fold_union_spec {A} (F : A -> ranges) items : forall acc,
  wf_ranges acc = true -> (forall it, In it items -> wf_ranges (F it) = true) ->
  wf_ranges (fold_left (fun res it => r_union res (F it)) items acc) = true /\
  forall x, mem (fold_left (fun res it => r_union res (F it)) items acc) x
            = mem acc x || existsb (fun it => mem (F it) x) items.
Proof.
  induction items as [|it items IH]; intros acc Hacc HF; cbn [fold_left existsb].
  - split; [assumption|]. intro x. now rewrite orb_false_r.
  - destruct (r_union_spec acc (F it) Hacc (HF it (or_introl eq_refl))) as [W M].
    destruct (IH (r_union acc (F it)) W (fun it' H => HF it' (or_intror H))) as [W' M'].
    split; [assumption|]. intro x. rewrite M', M. now rewrite orb_assoc.
Qed.

Lemma fold_union_in {A} (F : A -> ranges) items : forall acc y,
  In y (fold_left (fun res it => r_union res (F it)) items acc) ->
  In y acc \/ exists it, In it items /\ In y (F it).
Proof.
  induction items as [|it items IH]; intros acc y H; cbn [fold_left] in H.
  - now left.
  - apply IH in H. destruct H as [H|(it' & H1 & H2)].
    + apply r_union_in in H. destruct H as [H|H]; [now left|]. right. exists it. split; [now left | assumption].
    + right. exists it'. split; [now right | assumption].
Qed.
