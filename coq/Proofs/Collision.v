(* The collision form of the security theorems.  `hash_ok` (Spec/HashAssm.v) bundles an idealisation
   (cv_injective: no two distinct valid inputs share a chaining value - false of every real hash by
   counting) with two facts that ARE true of BLAKE3 and of byte comparison (cv_len32, beq_correct).
   Here the idealisation is removed: under the two true facts alone, every conclusion C proved from
   hash_ok holds OR the hash functions at hand have a collision between two distinct valid inputs,
   i.e. a counterexample to C exhibits a BLAKE3 collision (chunk/chunk, parent/parent or cross domain).
   This is the one place of the development that uses an axiom: excluded middle, Classical_Prop.classic
   of the standard library (the collision is not computed from the failing run). *)
From Coq Require Import Classical_Prop.
From BaoV Require Import Spec.HashAssm.

Definition collision (HO : hops) : Prop :=
  exists i j : hash_input HO,
    valid_input HO i /\ valid_input HO j /\ cv_in HO i = cv_in HO j /\ i <> j.

Lemma injective_or_collision : forall HO, cv_injective HO \/ collision HO.
Proof.
  intros HO. destruct (classic (collision HO)) as [C | NC]; [right; exact C | left].
  intros i j Vi Vj E. apply NNPP. intro NE. apply NC. exists i, j. repeat split; assumption.
Qed.

Lemma injective_excludes_collision : forall HO, cv_injective HO -> ~ collision HO.
Proof. intros HO Hinj (i & j & Vi & Vj & E & NE). apply NE. apply Hinj; assumption. Qed.

Lemma or_collision : forall HO (P : Prop),
  cv_len32 HO -> beq_correct HO -> (hash_ok HO -> P) -> P \/ collision HO.
Proof.
  intros HO P Hl Hb H. destruct (injective_or_collision HO) as [Hi | C]; [left | right; exact C].
  apply H. constructor; assumption.
Qed.
