(* C07, part 4: the invariant of decode histories, its preservation by applying a prefix of an honest
   encoding, convergence of the target, and what the validator reports in a state of the invariant. *)
From BaoV Require Import Model.Sync Model.Fsm Spec.PlanSpec Spec.PlanWf Spec.EncSpec Spec.HashAssm.
From BaoV Require Import Proofs.NodeLevel Proofs.NodeBits Proofs.NodeAlgebra
  Proofs.ObBase Proofs.ObLoop Proofs.ObSize Proofs.DecHash Proofs.RangeBase Proofs.BridgeBase Proofs.BridgeTree Proofs.BridgeLeaves
  Proofs.DecLoop Proofs.DecForest Proofs.DecRanges Proofs.ShapeBase
  Proofs.PlanBase Proofs.PlanNav Proofs.ValSpec Proofs.ValPath Proofs.ValTrue Proofs.ValTop Proofs.ValSound
  Proofs.HistOb Proofs.HistPath Proofs.HistEnc.
From Coq Require Import ZArith Lia.
Open Scope N_scope.
Arguments N.add : simpl never.
Arguments N.sub : simpl never.
Arguments N.mul : simpl never.
Arguments N.pow : simpl never.
Arguments N.shiftl : simpl never.
Arguments N.shiftr : simpl never.
Arguments N.land : simpl never.
Arguments N.div : simpl never.
Arguments N.modulo : simpl never.
Arguments N.log2 : simpl never.
Arguments N.min : simpl never.
Arguments N.max : simpl never.
Ltac Zify.zify_post_hook ::= Z.to_euclidean_division_equations.

Section Chunks.
Variable HO : hops.
Notation bytes := (bytes HO).

(* equality of byte vectors chunk by chunk *)
Lemma chunks_eq_range (x y : bytes) a : forall k : nat,
  (forall c, a <= c < a + N.of_nat k -> chunk_bytes HO x c (c + 1) = chunk_bytes HO y c (c + 1)) ->
  chunk_bytes HO x a (a + N.of_nat k) = chunk_bytes HO y a (a + N.of_nat k).
Proof.
  induction k as [|k IH]; intro H.
  - rewrite N.add_0_r. unfold chunk_bytes, slice, take. rewrite N.sub_diag. reflexivity.
  - replace (a + N.of_nat (S k)) with (a + N.of_nat k + 1) by lia.
    rewrite (chunk_bytes_app HO x a (a + N.of_nat k)), (chunk_bytes_app HO y a (a + N.of_nat k)) by lia.
    rewrite IH by (intros c Hc; apply H; lia). rewrite (H (a + N.of_nat k)) by lia. reflexivity.
Qed.

Lemma chunks_eq_group (x y : bytes) a e : a <= e ->
  (forall c, a <= c < e -> chunk_bytes HO x c (c + 1) = chunk_bytes HO y c (c + 1)) ->
  chunk_bytes HO x a e = chunk_bytes HO y a e.
Proof.
  intros Hae H. replace e with (a + N.of_nat (N.to_nat (e - a))) by lia. apply chunks_eq_range.
  intros c Hc. apply H. lia.
Qed.

Lemma group_eq_chunks (x y : bytes) a e c : a <= c < e ->
  chunk_bytes HO x a e = chunk_bytes HO y a e -> chunk_bytes HO x c (c + 1) = chunk_bytes HO y c (c + 1).
Proof.
  intros Hc H.
  rewrite <- (chunk_bytes_take HO x c (c + 1) e), <- (chunk_bytes_take HO y c (c + 1) e) by lia.
  rewrite <- (chunk_bytes_drop HO x a c e), <- (chunk_bytes_drop HO y a c e) by lia. now rewrite H.
Qed.

Lemma chunks_eq_all (x y : bytes) : length x = length y ->
  (forall c, c < nchunks (blen HO y) -> chunk_bytes HO x c (c + 1) = chunk_bytes HO y c (c + 1)) -> x = y.
Proof.
  intros Hl H. assert (Hb : blen HO x = blen HO y) by (unfold blen; now rewrite Hl).
  rewrite <- (chunk_bytes_whole HO x), <- (chunk_bytes_whole HO y). unfold blob_chunks. rewrite Hb.
  apply chunks_eq_group; [lia|]. intros c Hc. apply H. lia.
Qed.

Lemma forallb_false_ex {A} (f : A -> bool) l : forallb f l = false -> exists x, In x l /\ f x = false.
Proof.
  induction l as [|a l IH]; cbn [forallb]; [discriminate|]. intro H. apply andb_false_iff in H.
  destruct H as [H|H]; [exists a; split; [now left|exact H]|].
  destruct (IH H) as (x & Hx & Hf). exists x. split; [now right|exact Hf].
Qed.

Lemma zeros_slice n off len : (off + len <= n)%nat -> firstn len (skipn off (zeros HO n)) = zeros HO len.
Proof.
  intro H. unfold zeros. replace n with (off + (len + (n - off - len)))%nat by lia.
  rewrite !repeat_app. rewrite skipn_app, skipn_all2 by (rewrite repeat_length; lia).
  rewrite repeat_length, Nat.sub_diag. cbn [skipn app]. rewrite firstn_app, repeat_length, Nat.sub_diag.
  cbn [firstn]. rewrite app_nil_r. rewrite <- (repeat_length (bzero HO) len) at 1. apply firstn_all.
Qed.
End Chunks.

Section HistInv.
Variable HO : hops.
Hypothesis HOK : hash_ok HO.
Notation bytes := (bytes HO).
Notation hash := (hash HO).
Notation outboard := (outboard HO).
Notation item := (item HO).

Variable data : bytes.
Variable bs : N.
Hypothesis Hsize : blen HO data <= 2 ^ 63.
Hypothesis Hbs : bs <= 10.
Let size := blen HO data.
Let nc := nchunks size.
Let g := 2 ^ bs.
Let B := sp_blocks size bs.

(* the invariant: D = the set of delivered chunks *)
Record Inv (D : N -> bool) (st : bytes * outboard) : Prop := mk_Inv {
  inv_len : length (fst st) = length data;
  inv_in : forall c, c < nc -> D c = true -> chunk_bytes HO (fst st) c (c + 1) = chunk_bytes HO data c (c + 1);
  inv_out : forall c, c < nc -> D c = false ->
            chunk_bytes HO (fst st) c (c + 1) = chunk_bytes HO (zeros HO (length data)) c (c + 1);
  inv_sized : ob_sized HO (snd st) size bs;
  inv_root : ob_root (snd st) = root_hash HO data;
  inv_slots : forall nd, pnode size bs nd ->
              stored_pair HO (snd st) nd = Some (zero_pair HO) \/ stored_pair HO (snd st) nd = Some (true_pair HO data nd);
  inv_paths : forall c, c < nc -> D c = true -> path_true HO data bs (snd st) (c / g) }.

(* ---- the honest encoding of any query applies well ---- *)
Lemma honest_good q :
  Good HO data bs (honest HO data bs q) 0 nc (fun c => map fst (top_path size bs (c / g))).
Proof.
  pose proof (enc_shape_good HO (ho_len HO HOK) data bs Hsize Hbs (sel q size) VFUEL 0 B true
                (node_ok_root size bs) (top_fuel size bs Hsize)) as G.
  assert (En : nend HO data bs 0 B = nc).
  { unfold nend. fold size. fold nc. pose proof (nchunks_le_blocks size bs) as H. fold B in H. fold nc in H. rewrite N.add_0_l. lia. }
  rewrite En, N.mul_0_l in G.
  unfold honest, enc_spec, blob_chunks. fold size. fold nc. change 64%nat with (S 63).
  eapply Good_ext; [|apply (G ltac:(intros ga _ nd rt Hin; apply (top_path_pnode size bs Hsize Hbs ga nd rt); rewrite top_path_eq; exact Hin) 63%nat)].
  - intros c _. cbv beta. rewrite top_path_eq. reflexivity.
  - pose proof (nchunks_bound size Hsize) as Hb. fold nc in Hb. change (N.of_nat 63) with 63.
    change (2 ^ 53) with 9007199254740992 in Hb. change (2 ^ 63) with 9223372036854775808. lia.
Qed.

(* C07.5, core: applying a prefix of an honest encoding *)
Lemma inv_apply D t ob q ys : Inv D (t, ob) -> is_prefix ys (honest HO data bs q) ->
  exists t' ob', apply_items HO ys t ob = (SOk, t', ob') /\
                 Inv (fun c => D c || delivered HO ys c) (t', ob').
Proof.
  intros [I1 I2 I3 I4 I5 I6 I7] [rest Hp]. cbn [fst snd] in *.
  destruct (honest_good q ys rest t ob Hp I1 I4) as (t' & ob' & A1 & [T1 T2] & M & A4).
  exists t', ob'. split; [exact A1|]. pose proof M as (S' & R' & K' & M').
  constructor; cbn [fst snd].
  - exact T1.
  - intros c Hc Hd. rewrite (T2 c Hc). destruct (delivered HO ys c); [reflexivity|].
    rewrite orb_false_r in Hd. now apply I2.
  - intros c Hc Hd. apply orb_false_iff in Hd. destruct Hd as [Hd1 Hd2]. rewrite (T2 c Hc), Hd2. now apply I3.
  - exact S'.
  - rewrite R'. exact I5.
  - intros nd Hn. destruct (M' nd Hn) as [E|E]; [rewrite E; now apply I6|now right].
  - intros c Hc Hd nd rt Hin. fold size in Hin.
    destruct (delivered HO ys c) eqn:Ed.
    + destruct (A4 c Ed) as [_ Z]. apply Z. apply (in_map fst) in Hin. exact Hin.
    + rewrite orb_false_r in Hd. apply (Mono_true HO data bs ob ob' nd M).
      * apply (top_path_pnode size bs Hsize Hbs (c / g) nd rt Hin).
      * apply (I7 c Hc Hd nd rt Hin).
Qed.

(* ---- the initial state ---- *)
Definition init_ob (k : ob_kind) : outboard :=
  mkOb k (root_hash HO data) (mkTree size bs) (zeros HO (N.to_nat ((B - 1) * 64))).
Definition init_target : bytes := zeros HO (length data).

Lemma init_sized k : hist_kind k -> ob_sized HO (init_ob k) size bs.
Proof.
  intro Hk. constructor; cbn [init_ob ob_k ob_tree ob_data]; [exact Hk|reflexivity|].
  unfold blen, zeros. rewrite repeat_length. fold B. lia.
Qed.

Lemma init_inv k : hist_kind k -> Inv (fun _ => false) (init_target, init_ob k).
Proof.
  intro Hk. pose proof (init_sized k Hk) as Hs. constructor; cbn [fst snd].
  - unfold init_target, zeros. apply repeat_length.
  - intros c _ H. discriminate.
  - intros c _ _. reflexivity.
  - exact Hs.
  - reflexivity.
  - intros nd Hn. left. destruct (pnode_offset HO size bs Hsize Hbs (init_ob k) nd Hs Hn) as (o & Ho & Hlt).
    unfold stored_pair. rewrite (proj1 (sized_load HO size bs Hsize Hbs (init_ob k) nd o Hs Ho Hlt)).
    cbn [init_ob ob_data]. unfold slice, take, drop, zero_pair, zero_hash. fold B in Hlt.
    rewrite zeros_slice by lia. replace (N.to_nat 64) with (32 + 32)%nat by reflexivity.
    unfold zeros. rewrite repeat_app. rewrite parse_combine by apply repeat_length. reflexivity.
  - intros c _ H. discriminate.
Qed.

(* ---- C07.6 (target): everything delivered = the blob ---- *)
Lemma inv_converges_target D st : Inv D st -> (forall c, c < nc -> D c = true) -> fst st = data.
Proof.
  intros I HD. apply chunks_eq_all; [apply (inv_len D st I)|].
  intros c Hc. fold size in Hc. fold nc in Hc. apply (inv_in D st I c Hc). now apply HD.
Qed.

(* ---- C07.7: what valid_ranges reports in a state of the invariant ---- *)
Definition grp_full (D : N -> bool) (ga : N) : bool :=
  forallb D (chunk_range_list (grp_start bs ga) (grp_end size bs ga)).

(* no chunk of the blob is all zeros *)
Definition nondegenerate : Prop :=
  forall c, c < nc -> chunk_bytes HO data c (c + 1) <> chunk_bytes HO (zeros HO (length data)) c (c + 1).

Lemma inv_loads D st : Inv D st -> loads_ok HO (snd st) size bs.
Proof.
  intros I nd Hin. exact (proj1 (sized_loads HO size bs Hsize Hbs (snd st) nd (inv_sized D st I) Hin)).
Qed.

Lemma grp_bounds ga : ga < B -> grp_start bs ga < grp_end size bs ga /\ grp_end size bs ga <= nc /\
  forall c, grp_start bs ga <= c < grp_end size bs ga -> c / g = ga.
Proof.
  intro Hga. pose proof (group_inside size bs ga Hga) as Hin. fold g in Hin. fold nc in Hin.
  pose proof (pow2_pos bs) as Hp. fold g in Hp. unfold grp_start, grp_end. fold g. fold nc.
  split; [lia|]. split; [lia|]. intros c Hc. symmetry. apply (N.div_unique c g ga (c - ga * g)); lia.
Qed.

Lemma inv_verdict D t ob ga : Inv D (t, ob) -> nondegenerate -> 2 <= B -> ga < B ->
  grp_verdict HO true ob t size bs ga = grp_full D ga.
Proof.
  intros I Hnd HB Hga. pose proof I as [I1 I2 I3 I4 I5 I6 I7]. cbn [fst snd] in *.
  destruct (grp_bounds ga Hga) as (G1 & G2 & G3).
  assert (Hbt : blen HO t = blen HO data) by (unfold blen; now rewrite I1).
  destruct (grp_full D ga) eqn:Ef.
  - (* every chunk delivered: the chain and the leaf verify *)
    unfold grp_full in Ef. rewrite forallb_forall in Ef.
    assert (HD : forall c, grp_start bs ga <= c < grp_end size bs ga -> D c = true) by (intros c Hc; apply Ef, crl_in, Hc).
    assert (Hp : path_true HO data bs ob ga).
    { rewrite <- (G3 (grp_start bs ga)) by lia. apply I7; [lia|apply HD; lia]. }
    apply (grp_verdict_iff HO size bs ob true t ga HB). split.
    + apply (true_chain_ok HO HOK data bs ob Hsize Hbs I5 ga Hga Hp).
    + intros _. apply (true_leaf_ok HO HOK data bs ob Hsize Hbs I5 t ga Hga Hp). fold size.
      apply chunks_eq_group; [lia|]. intros c Hc. apply I2; [lia|now apply HD].
  - (* some chunk is not delivered: it holds zeros, not the blob's bytes *)
    destruct (grp_verdict HO true ob t size bs ga) eqn:Ev; [exfalso|reflexivity].
    apply (grp_verdict_iff HO size bs ob true t ga HB) in Ev. destruct Ev as [C L]. specialize (L eq_refl).
    pose proof (leaf_ok_true HO HOK data bs ob Hsize Hbs I5 t ga Hga Hbt C L) as Eb. fold size in Eb.
    unfold grp_full in Ef. apply forallb_false_ex in Ef. destruct Ef as (c & Hc & Hd). apply crl_in in Hc.
    pose proof (group_eq_chunks HO t data _ _ c Hc Eb) as Ec.
    rewrite (I3 c ltac:(lia) Hd) in Ec. apply (Hnd c ltac:(lia)). now symmetry.
Qed.

Lemma inv_validator_exact D t ob q : Inv D (t, ob) -> nondegenerate -> 2 <= B -> wf_ranges q = true ->
  valid_ranges HO ob t q =
  (flat_map (fun ga => if touchedb q size bs ga && grp_full D ga
                       then [(grp_start bs ga, grp_end size bs ga)] else [])
            (chunk_range_list 0 B), Ok tt).
Proof.
  intros I Hnd HB Hwf. pose proof I as [I1 I2 I3 I4 I5 I6 I7]. cbn [fst snd] in *.
  assert (Hbt : blen HO t = size) by (unfold size, blen; now rewrite I1).
  rewrite (data_exact_groups HO size bs q ob Hsize Hbs Hwf (os_tree HO ob size bs I4) (inv_loads D (t, ob) I) t Hbt HB).
  f_equal. apply flat_map_ext_in. intros ga Hga. apply crl_in in Hga.
  rewrite (inv_verdict D t ob ga I Hnd HB ltac:(lia)). reflexivity.
Qed.

(* ---- C07.6 (outboard, partial): everything delivered = every pair on every path is the blob's ---- *)
Lemma inv_converges_pairs D st : Inv D st -> (forall c, c < nc -> D c = true) ->
  forall ga, ga < B -> path_true HO data bs (snd st) ga.
Proof.
  intros I HD ga Hga. destruct (grp_bounds ga Hga) as (G1 & G2 & G3).
  rewrite <- (G3 (grp_start bs ga)) by lia. apply (inv_paths D st I); [lia|apply HD; lia].
Qed.

End HistInv.
