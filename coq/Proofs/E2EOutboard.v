(* End-to-end composition, part 5 (C03): the outboard creation theorems with their interface hypotheses
   discharged: Hplan by the post-order chunk iterator refinement (L2 + L4), the offset hypotheses by the
   Shape offset theorems (C12). *)
From BaoV Require Import Model.Sync Model.Fsm Spec.EncSpec Spec.PlanSpec Spec.NodeSpec Spec.HashAssm.
From BaoV Require Import Proofs.ObBase Proofs.ObLoop Proofs.ObCreate Proofs.ObSize Proofs.ObLayoutC.
From BaoV Require Proofs.Compose Proofs.ShapePre Proofs.ShapePost Proofs.ShapeList.
From Coq Require Import Lia Arith Permutation.
Open Scope N_scope.

(* a list with slots 0, 1, 2, ...: every element has a slot below the count *)
Lemma slots_in {A} (f : A -> option N) (L : list A) (k : nat) x :
  map f L = map (fun i => Some (N.of_nat i)) (seq 0 k) -> In x L ->
  exists i, (i < k)%nat /\ f x = Some (N.of_nat i).
Proof.
  intros E Hin. apply (in_map f) in Hin. rewrite E in Hin. apply in_map_iff in Hin.
  destruct Hin as (i & Hi & Hs). apply in_seq in Hs. exists i. split; [lia|now symmetry].
Qed.

Section Ob.
Variable HO : hops.
Variable data : bytes HO.
Variable bs : N.
Hypothesis Hsize : blen HO data <= 2 ^ 63.
Notation size := (blen HO data).
Notation t := (mkTree (blen HO data) bs).

Lemma blocks_le_63 : sp_blocks size bs <= 2 ^ N.of_nat 63.
Proof.
  pose proof (sp_blocks_bound size bs Hsize) as Hb2.
  change (2 ^ N.of_nat 63) with 9223372036854775808. change (2 ^ 53) with 9007199254740992 in Hb2. lia.
Qed.

(* the parents of the post-order plan are exactly the stored nodes of the Shape, in post order *)
Lemma post_plan_parents :
  plan_parents (post_plan size bs) = filter (sp_persisted size bs) (sp_post_nodes size bs).
Proof.
  pose proof (ObLoop.sp_blocks_pos size bs) as Hb1. pose proof blocks_le_63 as Hm.
  pose proof (sp_blocks_last size bs) as Hlast.
  unfold post_plan.
  rewrite (pairs_nodes_post HO data size bs (blob_chunks HO data) 63 65 64 0 (sp_blocks size bs) true
             ltac:(lia) ltac:(lia) Hb1 Hm).
  rewrite sp_post_nodes_eq. symmetry.
  apply (shape_nodes HO data bs true 63 65 64 0 (sp_blocks size bs)); try lia; try exact Hm.
  - exact Hlast.
  - exists 63, 0. split; [lia|split; [lia|split; [exact Hm|right]]].
    rewrite N.add_0_l. apply sp_blocks_cover.
Qed.

Hypothesis Hbs : bs <= 10.

Lemma e2e_plan : post_order_chunks_iter t = post_plan size bs.
Proof. exact (Compose.post_plan_refines size bs Hsize Hbs). Qed.

(* every parent of the post-order plan has a slot in the pre-order outboard *)
Lemma e2e_pre_slots : forall nd, In nd (plan_parents (post_plan size bs)) ->
  exists o, pre_order_offset t nd = Some o /\ o < sp_blocks size bs - 1.
Proof.
  intros nd Hin. rewrite post_plan_parents in Hin. apply filter_In in Hin. destruct Hin as [Hin Hp].
  apply (Permutation_in _ (Permutation_sym (ShapeList.pre_post_perm size bs Hsize))) in Hin.
  assert (Hin' : In nd (filter (sp_persisted size bs) (sp_pre_nodes size bs))) by (apply filter_In; split; assumption).
  destruct (slots_in _ _ _ nd (ShapePre.pre_offsets_spec size bs Hsize Hbs) Hin') as (i & Hi & Ho).
  exists (N.of_nat i). split; [exact Ho|lia].
Qed.

Theorem e2e_post_order_writer :
  outboard_post_order HO t data = (Ok (root_hash HO data), spec_outboard HO true data bs, []) /\
  outboard_post_order_fsm HO t data = (Ok (root_hash HO data), spec_outboard HO true data bs, []).
Proof. exact (c03_post_order_writer HO data bs Hsize e2e_plan). Qed.

Theorem e2e_outboard_impl : forall ob0 : outboard HO,
  match save_all HO ob0 (saves HO data (post_plan size bs)) with
  | Ok ob' => outboard_impl HO t data ob0 = (Ok (root_hash HO data), ob', []) /\
              outboard_impl_fsm HO t data ob0 = (Ok (root_hash HO data), ob', [])
  | Err k => fst (fst (outboard_impl HO t data ob0)) = Err k /\
             fst (fst (outboard_impl_fsm HO t data ob0)) = Err k
  | Panic => fst (fst (outboard_impl HO t data ob0)) = Panic /\
             fst (fst (outboard_impl_fsm HO t data ob0)) = Panic
  end.
Proof. intro ob0. exact (c03_outboard_impl HO data bs ob0 Hsize e2e_plan). Qed.

Theorem e2e_root_all_entry_points :
  let good (k : ob_kind) (r : res io_kind (outboard HO)) :=
    exists ob, r = Ok ob /\ ob_root ob = root_hash HO data /\ ob_k ob = k /\ ob_tree ob = t in
  (forall k, k = PreIO \/ k = PostIO -> good k (create_sized HO k data size bs)) /\
  (forall k, k = PreIO \/ k = PostIO -> good k (create_sized_fsm HO k data size bs)) /\
  (forall ob0 : outboard HO, ob_k ob0 = PreIO \/ ob_k ob0 = PostIO -> ob_tree ob0 = t ->
     good (ob_k ob0) (init_from HO ob0 data) /\ good (ob_k ob0) (init_from_fsm HO ob0 data)) /\
  good PreMem (pre_mem_create HO data bs) /\
  post_mem_create HO data bs = Ok (mkOb PostMem (root_hash HO data) t (spec_outboard HO true data bs)).
Proof.
  pose proof (c03_root_all_entry_points HO data bs Hsize e2e_plan) as H. cbv zeta in H.
  destruct H as (A & B & C & D & E). cbv zeta.
  split; [exact A|]. split; [exact B|]. split; [exact C|]. split; [exact (D e2e_pre_slots)|exact E].
Qed.

Hypothesis Hlen : cv_len32 HO.

Theorem e2e_layout_post :
  create_sized HO PostIO data size bs = Ok (mkOb PostIO (root_hash HO data) t (spec_outboard HO true data bs)) /\
  create_sized_fsm HO PostIO data size bs = Ok (mkOb PostIO (root_hash HO data) t (spec_outboard HO true data bs)).
Proof.
  exact (layout_post HO Hlen data bs Hsize e2e_plan (ShapePost.post_offsets_spec size bs Hsize Hbs)).
Qed.

Theorem e2e_layout_pre :
  create_sized HO PreIO data size bs = Ok (mkOb PreIO (root_hash HO data) t (spec_outboard HO false data bs)) /\
  create_sized_fsm HO PreIO data size bs = Ok (mkOb PreIO (root_hash HO data) t (spec_outboard HO false data bs)).
Proof.
  exact (layout_pre HO Hlen data bs Hsize e2e_plan (ShapePre.pre_offsets_spec size bs Hsize Hbs)).
Qed.

End Ob.
