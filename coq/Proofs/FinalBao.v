(* Final composition, part 6 (C04): the parent items of the honest encoding are the parents of the decoder's
   plan; at block size 0 nothing is pruned and they are the parents of the encoder's plan = the inner nodes
   of the selection (the plain bao layout). *)
From BaoV Require Import Model.Fsm Spec.RangeSpec Spec.NodeSpec Spec.PlanSpec Spec.EncSpec Spec.HashAssm Spec.PTree Spec.SpecTree.
From BaoV Require Proofs.BridgeBase Proofs.BridgeTree Proofs.BridgePlan.
From BaoV Require Import Proofs.EncLoop Proofs.EncThm Proofs.EncPrune Proofs.EncNodes Proofs.E2EDecode.
From Coq Require Import Lia.
Open Scope N_scope.

Definition item_nodes {HO : hops} (l : list (item HO)) : list N :=
  flat_map (fun i => match i with IParent n _ _ => [n] | ILeaf _ _ => [] end) l.

Lemma names_nodes (HO : hops) (plan : list chunk) (its : list (item HO)) :
  Forall2 (names_item_s HO) plan its -> item_nodes its = plan_nodes plan.
Proof.
  induction 1 as [|c it plan its Hn _ IH]; [reflexivity|].
  unfold item_nodes, plan_nodes in *. cbn [flat_map]. rewrite IH.
  destruct c as [node ir lf rt rs|st sz ir rs], it as [node' l r|off d]; cbn in Hn; try contradiction.
  - subst node'. reflexivity.
  - reflexivity.
Qed.

Theorem honest_nodes (HO : hops) (data : bytes HO) (bs : N) (q : ranges) :
  wf_ranges q = true -> blen HO data <= 2 ^ 63 ->
  item_nodes (honest HO data bs q) = plan_nodes (pre_plan (blen HO data) 0 bs (truncate_ranges q (blen HO data))).
Proof.
  intros Hwf Hsize.
  assert (H8 : forall s r d, BridgeTree.leaf_in HO (spec_tree HO data bs q) s r d -> s < 2 ^ 54).
  { intros s r d Hin. destruct (BridgeTree.bridge_leaves HO data bs q s r d Hsize Hin) as (_ & Bd & _). exact Bd. }
  apply plan_items_match_s in H8.
  pose proof (BridgeTree.bridge_items HO data bs q Hsize) as H3.
  pose proof (BridgePlan.bridge_plan HO data bs q Hwf Hsize) as H4.
  set (T := spec_tree HO data bs q) in *. clearbody T.
  rewrite H3, H4 in H8. exact (names_nodes HO _ _ H8).
Qed.

Theorem c04_bs0_is_bao_layout : forall (HO : hops) (data : bytes HO) (q : ranges),
  wf_ranges q = true -> blen HO data <= 2 ^ 63 ->
  (forall i : item HO, keep HO 0 q (blen HO data) i = true) /\
  filter (keep HO 0 q (blen HO data)) (honest HO data 0 q) = honest HO data 0 q /\
  item_nodes (honest HO data 0 q) = enc_nodes (blen HO data) 0 q /\
  item_nodes (honest HO data 0 q) = sel_nodes (blen HO data) 0 (sel q (blen HO data)).
Proof.
  intros HO data q Hwf Hsize.
  assert (K : forall i : item HO, keep HO 0 q (blen HO data) i = true).
  { intro i. rewrite keep_def. destruct i as [n l r|off d]; [|reflexivity].
    assert (E : (sp_level n <? 0) = false) by (apply N.ltb_ge; lia). rewrite E. reflexivity. }
  split; [exact K|]. split.
  - set (h := honest HO data 0 q). clearbody h. induction h as [|i h IH]; [reflexivity|].
    cbn [filter]. rewrite K, IH. reflexivity.
  - assert (E : item_nodes (honest HO data 0 q) = enc_nodes (blen HO data) 0 q).
    { rewrite (honest_nodes HO data 0 q Hwf Hsize), enc_nodes_def. reflexivity. }
    split; [exact E|]. rewrite E. apply (enc_nodes_spec HO data 0 q Hwf Hsize). lia.
Qed.

Theorem c04_honest_nodes : forall (HO : hops) (data : bytes HO) (bs : N) (q : ranges),
  wf_ranges q = true -> blen HO data <= 2 ^ 63 ->
  item_nodes (honest HO data bs q) = plan_nodes (pre_plan (blen HO data) 0 bs (truncate_ranges q (blen HO data))).
Proof. exact honest_nodes. Qed.
