(* Cover of the pre-order partial plan (C15): every selected chunk lies in a leaf of the plan and every
   leaf of the plan contains a selected chunk. *)
From BaoV Require Import Model.Iter Spec.PlanSpec Spec.PlanWf Proofs.NodeLevel Proofs.NodeBits Proofs.NodeAlgebra
  Proofs.RangeBase Proofs.PlanBase Proofs.PlanQuery.
From Coq Require Import ZArith Lia.
Open Scope N_scope.
Arguments N.add : simpl never.
Arguments N.sub : simpl never.
Arguments N.mul : simpl never.
Arguments N.pow : simpl never.
Arguments N.shiftl : simpl never.
Arguments N.shiftr : simpl never.
Arguments N.land : simpl never.
Arguments N.div : simpl never.
Arguments N.modulo : simpl never.
Arguments N.log2 : simpl never.
Arguments N.min : simpl never.
Arguments N.max : simpl never.
Ltac Zify.zify_post_hook ::= Z.to_euclidean_division_equations.

(* ---- selection versus the query summary of a chunk interval ---- *)
Lemma sel_lt q size c : sel q size c = true -> c < nchunks size.
Proof. unfold sel. intro H. apply andb_true_iff in H. destruct H as [H _]. now apply N.ltb_lt in H. Qed.

(* a selected chunk of the interval makes the summary true (off the right spine the interval must lie
   strictly inside the blob) *)
Lemma sel_any q size a e rm c : ssorted q -> a < e -> (rm = false -> e < nchunks size) ->
  inrng a e rm c -> sel q size c = true -> q_any q a e rm = true.
Proof.
  intros Hs Hae Hrm Hin Hsel. pose proof (sel_lt _ _ _ Hsel) as Hc.
  unfold sel in Hsel. apply andb_true_iff in Hsel. destruct Hsel as [_ Hsel].
  apply orb_true_iff in Hsel. destruct Hsel as [Hm|Hl].
  - apply q_any_spec; [assumption|assumption|]. exists c. now split.
  - apply andb_true_iff in Hl. destruct Hl as [Hl Hr]. apply N.eqb_eq in Hl.
    destruct Hin as [I1 I2]. destruct rm.
    + unfold q_any. apply (reaches_mono q a (nchunks size)); [assumption|lia|assumption].
    + exfalso. specialize (Hrm eq_refl). destruct I2 as [I2|I2]; [discriminate|lia].
Qed.

(* conversely a true summary gives a selected chunk in the clipped interval *)
Lemma any_sel q size a e (rm : bool) : ssorted q -> a < e -> a < nchunks size ->
  (if rm return Prop then nchunks size <= e else e <= nchunks size) ->
  q_any q a e rm = true -> exists c, a <= c < N.min e (nchunks size) /\ sel q size c = true.
Proof.
  intros Hs Hae Ha Hrm Hq. apply q_any_spec in Hq; [|assumption|assumption].
  destruct Hq as (c & [I1 I2] & Hm).
  destruct (N.lt_ge_cases c (nchunks size)) as [Hc|Hc].
  - exists c. split.
    + destruct rm; [lia|]. destruct I2 as [I2|I2]; [discriminate|lia].
    + unfold sel. apply andb_true_iff. split; [now apply N.ltb_lt|]. rewrite Hm. reflexivity.
  - destruct rm; [|destruct I2 as [I2|I2]; [discriminate|lia]].
    exists (nchunks size - 1). split; [lia|].
    unfold sel. apply andb_true_iff. split; [apply N.ltb_lt; lia|].
    apply orb_true_iff. right. rewrite N.eqb_refl. cbn [andb].
    apply reaches_spec; [assumption|]. exists c. now split.
Qed.

(* the leaf over the chunks [a, e) clipped to the blob *)
Lemma leaf_interval size a e ir : a < e -> a < nchunks size ->
  leaves_of_plan [CLeaf a (span_bytes size a e) ir []] = [(a, N.min e (nchunks size))].
Proof.
  intros Hae Ha. unfold leaves_of_plan. cbn [flat_map app].
  rewrite leaf_chunks_span by assumption.
  replace (a + (N.min e (nchunks size) - a)) with (N.min e (nchunks size)) by lia. reflexivity.
Qed.

Lemma in_leaves_one lo hi c : in_leaves [(lo, hi)] c = true <-> lo <= c < hi.
Proof.
  unfold in_leaves. cbn [existsb fst snd]. rewrite orb_false_r, andb_true_iff, N.leb_le, N.ltb_lt. reflexivity.
Qed.

Lemma in_leaves_app l1 l2 c : in_leaves (l1 ++ l2) c = in_leaves l1 c || in_leaves l2 c.
Proof. unfold in_leaves. apply existsb_app. Qed.

Lemma leaves_of_plan_app l1 l2 : leaves_of_plan (l1 ++ l2) = leaves_of_plan l1 ++ leaves_of_plan l2.
Proof. unfold leaves_of_plan. apply flat_map_app. Qed.

Section Cover.
Variables (size bs ml : N) (q : ranges).
Hypothesis Hs : ssorted q.

(* geometry of a node: nonempty, starts inside the blob; on the right spine it contains the end of
   the blob, off it (given the strict bound) it lies strictly inside *)
Lemma node_geom ga n rm : node_ok size bs ga n rm -> (rm = false -> ga + n < sp_blocks size bs) ->
  ga * 2 ^ bs < (ga + capof n) * 2 ^ bs /\ ga * 2 ^ bs < nchunks size /\
  (if rm return Prop then nchunks size <= (ga + capof n) * 2 ^ bs else (ga + capof n) * 2 ^ bs < nchunks size).
Proof.
  intros [P A I R] Hrm. destruct (capof_spec n P) as (k & _ & C1 & _).
  pose proof (pow2_pos bs) as Hg.
  assert (G1 : ga * 2 ^ bs < nchunks size) by (apply group_inside; lia).
  split; [nia|]. split; [assumption|]. destruct rm.
  - pose proof (nchunks_le_blocks size bs) as B. rewrite <- R in B. nia.
  - rewrite <- R. apply group_inside. now apply Hrm.
Qed.

Definition coverP (ga n : N) (ir rm : bool) (plan : list chunk) : Prop :=
  (rm = false -> ga + n < sp_blocks size bs) ->
  (forall c, inrng (ga * 2 ^ bs) ((ga + capof n) * 2 ^ bs) rm c -> sel q size c = true ->
     in_leaves (leaves_of_plan plan) c = true) /\
  (forall lo hi, In (lo, hi) (leaves_of_plan plan) -> exists c, lo <= c < hi /\ sel q size c = true).

(* a node answered by a single leaf (full / half cases) *)
Lemma cover_single ga n ir rm : node_ok size bs ga n rm ->
  q_any q (ga * 2 ^ bs) ((ga + capof n) * 2 ^ bs) rm = true ->
  coverP ga n ir rm [CLeaf (ga * 2 ^ bs) (span_bytes size (ga * 2 ^ bs) ((ga + capof n) * 2 ^ bs)) ir []].
Proof.
  intros Hok Hq Hrm. destruct (node_geom ga n rm Hok Hrm) as (G1 & G2 & G3).
  rewrite leaf_interval by assumption. split.
  - intros c [I1 I2] Hsel. apply in_leaves_one. pose proof (sel_lt _ _ _ Hsel).
    destruct rm; [lia|]. destruct I2 as [I2|I2]; [discriminate|lia].
  - intros lo hi [E|[]]. inversion E; subst lo hi.
    apply any_sel with (rm := rm); try assumption. destruct rm; lia.
Qed.

Lemma cover_all : forall fuel ga n ir rm, node_ok size bs ga n rm -> N.log2 (capof n) <= N.of_nat fuel ->
  coverP ga n ir rm (pre_plan_rec fuel size bs ml q ga n ir rm).
Proof.
  apply pre_plan_rec_ind.
  - (* empty *)
    intros ga n ir rm Hok Hq Hrm. destruct (node_geom ga n rm Hok Hrm) as (G1 & G2 & G3). split.
    + intros c Hin Hsel. exfalso.
      assert (q_any q (ga * 2 ^ bs) ((ga + capof n) * 2 ^ bs) rm = true); [|congruence].
      apply (sel_any q size _ _ rm c); try assumption. intros ->. exact G3.
    + intros lo hi [].
  - (* full *)
    intros ga n ir rm Hok Hq _ _. now apply cover_single.
  - (* half *)
    intros ga n ir rm Hok _ Hq _ _. now apply cover_single.
  - (* pair *)
    intros ga n ir rm Hok Hn Hq _ Hsz. unfold coverP. rewrite (capof_small n Hn) in Hq |- *. intro Hrm.
    set (m := (ga + 1) * 2 ^ bs) in *. set (l := q_any q (ga * 2 ^ bs) m false).
    set (r := q_any q m ((ga + 2) * 2 ^ bs) rm).
    destruct (node_geom ga n rm Hok Hrm) as (G1 & G2 & G3).
    rewrite (capof_small n Hn) in G1, G3.
    pose proof (pow2_pos bs) as Hg.
    assert (Hm : m < nchunks size) by (apply nchunks_spec; right; exact Hsz).
    assert (Ham : ga * 2 ^ bs < m) by (unfold m; nia).
    assert (Hme : m < (ga + 2) * 2 ^ bs) by (unfold m; nia).
    assert (EL : leaves_of_plan (if l then [CLeaf (ga * 2 ^ bs) (span_bytes size (ga * 2 ^ bs) m) false []] else [])
                 = if l then [(ga * 2 ^ bs, m)] else []).
    { destruct l; [|reflexivity]. rewrite leaf_interval by assumption. rewrite N.min_l by lia. reflexivity. }
    assert (ER : leaves_of_plan (if r then [CLeaf m (span_bytes size m ((ga + 2) * 2 ^ bs)) false []] else [])
                 = if r then [(m, N.min ((ga + 2) * 2 ^ bs) (nchunks size))] else []).
    { destruct r; [|reflexivity]. now rewrite leaf_interval by assumption. }
    rewrite !leaves_of_plan_app, EL, ER. change (leaves_of_plan [CParent (unshift bs ga) ir l r []]) with (@nil (N * N)).
    cbn [app]. split.
    + intros c [I1 I2] Hsel. pose proof (sel_lt _ _ _ Hsel) as Hc. rewrite in_leaves_app.
      apply orb_true_iff. destruct (N.lt_ge_cases c m) as [L|L].
      * left. assert (El : l = true).
        { unfold l. apply (sel_any q size _ _ false c); try assumption; [intros _; assumption|].
          split; [assumption|now right]. }
        rewrite El. apply in_leaves_one. lia.
      * right. assert (Er : r = true).
        { unfold r. apply (sel_any q size _ _ rm c); try assumption; [intros ->; exact G3|].
          split; assumption. }
        rewrite Er. apply in_leaves_one. destruct rm; [lia|]. destruct I2 as [I2|I2]; [discriminate|lia].
    + intros lo hi Hin. apply in_app_or in Hin. destruct Hin as [Hin|Hin].
      * destruct l eqn:El; [|destruct Hin]. destruct Hin as [E|[]]. inversion E; subst lo hi.
        destruct (any_sel q size (ga * 2 ^ bs) m false Hs Ham G2 (N.lt_le_incl _ _ Hm) El) as (c & C1 & C2).
        exists c. split; [lia|assumption].
      * destruct r eqn:Er; [|destruct Hin]. destruct Hin as [E|[]]. inversion E; subst lo hi.
        apply any_sel with (rm := rm); try assumption. destruct rm; lia.
  - (* inner *)
    intros ga n ir rm pl pr Hok Hn Hq _ half m Hokl Hokr IHl IHr Hrm.
    destruct (capof_inner n Hn) as (k & E & Eh & L1 & L2 & C1 & C2).
    assert (Ehalf : half = 2 ^ (k + 1)) by exact Eh.
    pose proof (pow2_pos bs) as Hg.
    destruct IHl as [IHl1 IHl2].
    { intros _. destruct Hok as [_ _ I _]. lia. }
    destruct IHr as [IHr1 IHr2].
    { intro Er. specialize (Hrm Er). lia. }
    rewrite !leaves_of_plan_app.
    change (leaves_of_plan [CParent (unshift bs (ga + half - 1)) ir
              (q_any q (ga * 2 ^ bs) m false) (q_any q m ((ga + capof n) * 2 ^ bs) rm) []]) with (@nil (N * N)).
    cbn [app]. split.
    + intros c [I1 I2] Hsel. rewrite in_leaves_app. apply orb_true_iff.
      destruct (N.lt_ge_cases c m) as [L|L].
      * left. apply IHl1; [|assumption]. split; [assumption|right].
        rewrite Ehalf, C1, <- Ehalf. exact L.
      * right. apply IHr1; [|assumption]. split; [exact L|].
        destruct rm; [now left|right]. destruct I2 as [I2|I2]; [discriminate|].
        destruct Hok as [_ _ _ R]. rewrite E in R, I2.
        replace (k + 2) with (k + 1 + 1) in R, I2 by lia. rewrite (pow2_succ (k + 1)) in R, I2.
        assert (X : n - half = half) by (rewrite Ehalf; lia).
        rewrite X, Ehalf, C1.
        replace (ga + 2 ^ (k + 1) + 2 ^ (k + 1)) with (ga + 2 * 2 ^ (k + 1)) by lia. exact I2.
    + intros lo hi Hin. apply in_app_or in Hin. destruct Hin as [Hin|Hin]; [now apply IHl2|now apply IHr2].
Qed.
End Cover.

(* ---- final statements ---- *)
Lemma pre_cover_both size bs ml q : size <= 2 ^ 63 -> wf_ranges q = true ->
  coverP size bs q 0 (sp_blocks size bs) true true (pre_plan size bs ml q).
Proof.
  intros Hsz Hwf. apply wf_iff in Hwf. destruct Hwf as [Hs _].
  unfold pre_plan. apply cover_all; [assumption|apply node_ok_root|now apply root_fuel].
Qed.

Lemma pre_cover_sel_plan : forall size bs ml q, size <= 2 ^ 63 -> bs <= 10 -> wf_ranges q = true -> q <> [] ->
  forall c, sel q size c = true -> in_leaves (leaves_of_plan (pre_plan size bs ml q)) c = true.
Proof.
  intros size bs ml q Hsz _ Hwf _ c Hsel.
  destruct (pre_cover_both size bs ml q Hsz Hwf) as [H _]; [discriminate|].
  apply H; [|assumption]. split; [lia|now left].
Qed.

Lemma pre_cover_leaf_plan : forall size bs ml q, size <= 2 ^ 63 -> bs <= 10 -> wf_ranges q = true -> q <> [] ->
  forall lo hi, In (lo, hi) (leaves_of_plan (pre_plan size bs ml q)) -> exists c, lo <= c < hi /\ sel q size c = true.
Proof.
  intros size bs ml q Hsz _ Hwf _ lo hi Hin.
  destruct (pre_cover_both size bs ml q Hsz Hwf) as [_ H]; [discriminate|].
  now apply H.
Qed.

Print Assumptions pre_cover_sel_plan.
Print Assumptions pre_cover_leaf_plan.
