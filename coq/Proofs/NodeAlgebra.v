(* L2: the TreeNode bit tricks agree with (level, index) arithmetic. *)
From BaoV Require Import Model.Node Spec.NodeSpec Proofs.NodeLevel Proofs.NodeBits.
From Coq Require Import ZArith Lia.
Open Scope N_scope.
Ltac Zify.zify_post_hook ::= Z.to_euclidean_division_equations.

Lemma lt62_level x : x < 2 ^ 62 -> level x <= 62.
Proof. apply level_le_of_lt. Qed.

(* ---- is_leaf ---- *)
Lemma is_leaf_level x : is_leaf x = (level x =? 0).
Proof.
  unfold is_leaf. change 1 with (N.ones 1) at 1. rewrite N.land_ones, N.pow_1_r.
  pose proof (level_decomp x) as D.
  destruct (N.eqb_spec (level x) 0) as [E|E].
  - rewrite E, N.pow_0_r in D.
    replace (x mod 2) with 0; [reflexivity|]. apply N.mod_unique with (q := sp_index x); lia.
  - rewrite (pow2_pred (level x)) in D by lia.
    replace (x mod 2) with 1; [reflexivity|].
    pose proof (pow2_pos (level x - 1)).
    apply N.mod_unique with (q := (2 * sp_index x + 1) * 2 ^ (level x - 1) - 1); nia.
Qed.

(* ---- children ---- *)
Lemma left_child_spec x : 0 < level x -> left_child x = Some (sp_left x).
Proof.
  intros H. unfold left_child, sp_left, sp_node. rewrite <- level_is_sp_level.
  destruct (N.eqb_spec (level x) 0); [lia|]. rewrite N.shiftl_1_l. f_equal.
  pose proof (level_decomp x) as D. rewrite (pow2_pred (level x)) in D by lia.
  pose proof (pow2_pos (level x - 1)). nia.
Qed.

Lemma right_child_spec x : 0 < level x -> right_child x = Some (sp_right x).
Proof.
  intros H. unfold right_child, sp_right, sp_node. rewrite <- level_is_sp_level.
  destruct (N.eqb_spec (level x) 0); [lia|]. rewrite N.shiftl_1_l. f_equal.
  pose proof (level_decomp x) as D. rewrite (pow2_pred (level x)) in D by lia.
  pose proof (pow2_pos (level x - 1)). nia.
Qed.

Lemma leaf_no_children x : level x = 0 -> left_child x = None /\ right_child x = None /\ is_leaf x = true.
Proof.
  intros H. rewrite is_leaf_level. unfold left_child, right_child. now rewrite H.
Qed.

(* ---- parent ---- *)
Lemma parent_gen x : level x <> 63 -> parent x = Some (sp_parent x).
Proof.
  intros H. unfold parent. destruct (N.eqb_spec (level x) 63); [contradiction|].
  f_equal. rewrite N.shiftl_1_l.
  replace (2 ^ level x * 2) with (2 ^ (level x + 1)) by (rewrite pow2_succ; lia).
  rewrite land_pow2_eq0.
  unfold sp_parent, sp_node. rewrite <- level_is_sp_level.
  pose proof (level_decomp x) as D. pose proof (pow2_pos (level x)) as Hp.
  assert (Ex : x = sp_index x * 2 ^ (level x + 1) + (2 ^ level x - 1)) by (rewrite pow2_succ; nia).
  rewrite Ex at 1. rewrite testbit_add_mul_pow2 by (rewrite pow2_succ; lia).
  rewrite N.ltb_irrefl, N.sub_diag, N.bit0_eqb.
  rewrite pow2_succ.
  pose proof (N.div_mod (sp_index x) 2 ltac:(discriminate)) as Dk.
  pose proof (N.mod_upper_bound (sp_index x) 2 ltac:(discriminate)) as Mk.
  clear Ex. set (P := 2 ^ level x) in *. set (q := sp_index x / 2) in *.
  destruct (N.eqb_spec (sp_index x mod 2) 1) as [E|E]; cbn [negb].
  - assert (Dk' : sp_index x = 2 * q + 1) by lia. rewrite Dk' in D. clearbody P q. lia.
  - assert (Dk' : sp_index x = 2 * q) by lia. rewrite Dk' in D. clearbody P q. lia.
Qed.

Lemma parent_spec x : x < 2 ^ 62 -> parent x = Some (sp_parent x).
Proof. intros H. apply parent_gen. apply lt62_level in H. lia. Qed.

Lemma level_sp_parent x : level (sp_parent x) = level x + 1.
Proof. unfold sp_parent. rewrite level_sp_node. now rewrite level_is_sp_level. Qed.

Lemma index_sp_parent x : sp_index (sp_parent x) = sp_index x / 2.
Proof. unfold sp_parent. now rewrite index_sp_node. Qed.

Lemma level_sp_left x : level (sp_left x) = level x - 1.
Proof. unfold sp_left. rewrite level_sp_node. now rewrite level_is_sp_level. Qed.
Lemma level_sp_right x : level (sp_right x) = level x - 1.
Proof. unfold sp_right. rewrite level_sp_node. now rewrite level_is_sp_level. Qed.
Lemma index_sp_left x : sp_index (sp_left x) = 2 * sp_index x.
Proof. unfold sp_left. now rewrite index_sp_node. Qed.
Lemma index_sp_right x : sp_index (sp_right x) = 2 * sp_index x + 1.
Proof. unfold sp_right. now rewrite index_sp_node. Qed.

Lemma sp_node_eq x : sp_node (level x) (sp_index x) = x.
Proof. unfold sp_node. rewrite <- level_decomp. lia. Qed.

Lemma sp_parent_left x : 0 < level x -> sp_parent (sp_left x) = x.
Proof.
  intros H. unfold sp_parent. rewrite <- level_is_sp_level, level_sp_left, index_sp_left.
  replace (2 * sp_index x / 2) with (sp_index x) by (rewrite N.mul_comm, N.div_mul; [reflexivity|discriminate]).
  replace (level x - 1 + 1) with (level x) by lia. apply sp_node_eq.
Qed.

Lemma sp_parent_right x : 0 < level x -> sp_parent (sp_right x) = x.
Proof.
  intros H. unfold sp_parent. rewrite <- level_is_sp_level, level_sp_right, index_sp_right.
  replace ((2 * sp_index x + 1) / 2) with (sp_index x)
    by (apply N.div_unique with (r := 1); lia).
  replace (level x - 1 + 1) with (level x) by lia. apply sp_node_eq.
Qed.

Lemma children_spec x : x < 2 ^ 62 -> 0 < level x ->
  left_child x = Some (sp_left x) /\ right_child x = Some (sp_right x) /\
  parent (sp_left x) = Some x /\ parent (sp_right x) = Some x /\
  level (sp_left x) = level x - 1 /\ level (sp_right x) = level x - 1.
Proof.
  intros Hx Hl. pose proof (lt62_level x Hx) as L.
  repeat split.
  - now apply left_child_spec.
  - now apply right_child_spec.
  - rewrite parent_gen by (rewrite level_sp_left; lia). now rewrite sp_parent_left.
  - rewrite parent_gen by (rewrite level_sp_right; lia). now rewrite sp_parent_right.
  - apply level_sp_left.
  - apply level_sp_right.
Qed.

Lemma sp_parent_child x : sp_left (sp_parent x) = x \/ sp_right (sp_parent x) = x.
Proof.
  unfold sp_left, sp_right. rewrite <- !level_is_sp_level, level_sp_parent, index_sp_parent.
  replace (level x + 1 - 1) with (level x) by lia.
  pose proof (N.div_mod (sp_index x) 2 ltac:(discriminate)) as Dk.
  pose proof (N.mod_upper_bound (sp_index x) 2 ltac:(discriminate)) as Mk.
  assert (C : sp_index x mod 2 = 0 \/ sp_index x mod 2 = 1) by lia.
  destruct C as [C|C]; [left|right]; rewrite <- (sp_node_eq x) at 3; f_equal; lia.
Qed.

Lemma parent_full_spec x : x < 2 ^ 62 ->
  parent x = Some (sp_parent x) /\ level (sp_parent x) = level x + 1 /\
  (sp_left (sp_parent x) = x \/ sp_right (sp_parent x) = x).
Proof.
  intros H. split; [now apply parent_spec|]. split; [apply level_sp_parent|apply sp_parent_child].
Qed.

(* ---- ranges ---- *)
Lemma chunk_range_gen x : chunk_range x = (sp_chunk_start x, sp_chunk_end x).
Proof.
  unfold chunk_range, sp_chunk_start, sp_chunk_end. rewrite <- level_is_sp_level, N.shiftl_1_l.
  pose proof (level_decomp x) as D. pose proof (pow2_pos (level x)). rewrite D.
  f_equal; lia.
Qed.

Lemma chunk_range_split x : 0 < level x ->
  fst (chunk_range (sp_left x)) = fst (chunk_range x) /\
  snd (chunk_range (sp_left x)) = mid x /\
  fst (chunk_range (sp_right x)) = mid x /\
  snd (chunk_range (sp_right x)) = snd (chunk_range x).
Proof.
  intros H. rewrite !chunk_range_gen. cbn [fst snd]. unfold sp_chunk_start, sp_chunk_end, mid.
  rewrite <- !level_is_sp_level, level_sp_left, level_sp_right, index_sp_left, index_sp_right.
  pose proof (level_decomp x) as D. rewrite D.
  rewrite (pow2_pred (level x)) by lia. pose proof (pow2_pos (level x - 1)).
  repeat split; lia.
Qed.

Lemma node_range_gen x : node_range x = (sp_node_start x, sp_node_start x + 2 ^ (level x + 1) - 1).
Proof.
  unfold node_range, half_span, sp_node_start. rewrite <- level_is_sp_level, N.shiftl_1_l, pow2_succ.
  pose proof (level_decomp x) as D. pose proof (pow2_pos (level x)).
  f_equal; [rewrite D; lia|]. replace x with (x + 1 - 1) at 1 by lia. rewrite D. lia.
Qed.

(* ---- lowest set bit ---- *)
Lemma land_compl k m : k < 2 ^ m -> N.land k (2 ^ m - 1 - k) = 0.
Proof.
  intros H. destruct (N.eq_dec k 0) as [->|Hk]; [apply N.land_0_l|].
  assert (L : N.log2 k < m) by (apply N.log2_lt_pow2; lia).
  rewrite <- (N.land_lnot_diag_low k m L). f_equal.
  rewrite N.lnot_sub_low by assumption. rewrite N.ones_equiv. lia.
Qed.

Lemma lowest_bit_neg64 y l k : y = (2 * k + 1) * 2 ^ l -> y < 2 ^ 64 ->
  N.land y (neg64 y) = 2 ^ l.
Proof.
  intros Hy Hlt. pose proof (pow2_pos l) as Hp.
  assert (Ll : l < 64).
  { destruct (N.lt_ge_cases l 64) as [|G]; [assumption|exfalso].
    assert (2 ^ 64 <= 2 ^ l) by (apply N.pow_le_mono_r; lia). nia. }
  unfold neg64. rewrite W64_pow. rewrite (N.mod_small y) by assumption.
  rewrite N.mod_small by lia.
  set (m := 63 - l).
  assert (E64 : 2 ^ 64 = 2 * 2 ^ m * 2 ^ l).
  { replace 64 with ((m + 1) + l) by (unfold m; lia). rewrite pow2_add, pow2_succ. reflexivity. }
  assert (Hk : k < 2 ^ m) by nia.
  replace (2 ^ 64 - y) with ((2 * (2 ^ m - 1 - k) + 1) * 2 ^ l) by (rewrite E64, Hy; nia).
  rewrite Hy.
  replace ((2 * k + 1) * 2 ^ l) with ((2 * k + 1) * 2 ^ l + 0) by lia.
  replace ((2 * (2 ^ m - 1 - k) + 1) * 2 ^ l) with ((2 * (2 ^ m - 1 - k) + 1) * 2 ^ l + 0) by lia.
  rewrite land_add_mul_pow2 by assumption. rewrite N.land_0_l, N.add_0_r.
  replace (2 * k + 1) with (k * 2 ^ 1 + 1) by (rewrite N.pow_1_r; lia).
  replace (2 * (2 ^ m - 1 - k) + 1) with ((2 ^ m - 1 - k) * 2 ^ 1 + 1) by (rewrite N.pow_1_r; lia).
  rewrite land_add_mul_pow2 by (rewrite N.pow_1_r; lia).
  rewrite land_compl by assumption. rewrite N.land_diag. lia.
Qed.

Lemma count_below_spec x : x < 2 ^ 62 -> count_below x = 2 ^ (level x + 1) - 2.
Proof.
  intros H. unfold count_below.
  rewrite (lowest_bit_neg64 (x + 1) (level x) (sp_index x) (level_decomp x)).
  - rewrite pow2_succ. lia.
  - change (2 ^ 64) with 18446744073709551616. change (2 ^ 62) with 4611686018427387904 in H. lia.
Qed.

(* ---- next left ancestor ---- *)
Lemma clear_lowest_bit x :
  N.land (x + 1) (x + 1 - 1) = sp_index x * 2 ^ (level x + 1).
Proof.
  pose proof (level_decomp x) as D. pose proof (pow2_pos (level x)) as Hp.
  assert (E1 : x + 1 = sp_index x * 2 ^ (level x + 1) + 2 ^ level x) by (rewrite pow2_succ; lia).
  assert (E2 : x + 1 - 1 = sp_index x * 2 ^ (level x + 1) + (2 ^ level x - 1)) by (rewrite pow2_succ; lia).
  rewrite E2. rewrite E1 at 1. rewrite land_add_mul_pow2 by (rewrite pow2_succ; lia).
  rewrite N.land_diag. replace (2 ^ level x - 1) with (N.ones (level x)) by (rewrite N.ones_equiv; lia).
  rewrite N.land_ones, N.mod_same by lia. lia.
Qed.

Lemma next_left_ancestor_gen x : next_left_ancestor x = sp_next_left_ancestor x.
Proof.
  unfold next_left_ancestor, next_left_ancestor0, sp_next_left_ancestor.
  rewrite clear_lowest_bit. rewrite <- level_is_sp_level.
  pose proof (pow2_pos (level x + 1)) as Hp.
  destruct (N.eqb_spec (sp_index x) 0) as [E|E].
  - rewrite E, N.mul_0_l. reflexivity.
  - destruct (N.eqb_spec (sp_index x * 2 ^ (level x + 1)) 0) as [E'|E']; [nia|].
    f_equal. unfold sp_node.
    rewrite (tz_decomp (sp_index x) E) at 1.
    set (tz := trailing_zeros64 (sp_index x)).
    replace (level x + tz + 1) with (tz + (level x + 1)) by lia. rewrite (pow2_add tz (level x + 1)). now rewrite N.mul_assoc.
Qed.

Lemma right_count_spec x : right_count x = popcount (sp_index x).
Proof.
  unfold right_count. rewrite (level_decomp x), popcount_mul_pow2, popcount_double1. lia.
Qed.

(* ---- block size conversion ---- *)
Lemma add_block_size_gen x n :
  add_block_size x n = (if n <=? level x then Some (x / 2 ^ n) else None).
Proof.
  unfold add_block_size. rewrite mask_ones, N.land_ones, N.ones_equiv, N.shiftr_div_pow2.
  pose proof (level_decomp x) as D. pose proof (pow2_pos n) as Hn.
  pose proof (N.mod_upper_bound x (2 ^ n) ltac:(lia)) as Hm.
  pose proof (N.div_mod x (2 ^ n) ltac:(lia)) as Hd.
  destruct (N.leb_spec n (level x)) as [L|L].
  - replace (x mod 2 ^ n) with (N.pred (2 ^ n)); [now rewrite N.eqb_refl|].
    replace (level x) with ((level x - n) + n) in D by lia. rewrite pow2_add in D.
    pose proof (pow2_pos (level x - n)).
    apply N.mod_unique with (q := (2 * sp_index x + 1) * 2 ^ (level x - n) - 1); [lia|].
    set (A := (2 * sp_index x + 1) * 2 ^ (level x - n)) in *.
    assert (1 <= A) by (unfold A; nia). rewrite N.mul_assoc in D. fold A in D. clearbody A. nia.
  - destruct (N.eqb_spec (x mod 2 ^ n) (N.pred (2 ^ n))) as [E|E]; [exfalso|reflexivity].
    assert (E1 : x + 1 = (x / 2 ^ n + 1) * 2 ^ n) by (clear D; nia).
    pose proof (level_decomp (x / 2 ^ n)) as D'. rewrite D' in E1.
    rewrite <- N.mul_assoc, <- pow2_add in E1.
    apply decomp_unique in E1. lia.
Qed.

Lemma subtract_block_size_gen y n : (y + 1) * 2 ^ n <= 2 ^ 64 ->
  subtract_block_size y n = (y + 1) * 2 ^ n - 1.
Proof.
  intros H. pose proof (pow2_pos n) as Hn.
  unfold subtract_block_size, not64, shl64. rewrite N.shiftl_mul_pow2.
  rewrite N.mod_mod by discriminate.
  change (2 ^ 64) with W64 in H.
  assert (Hy : y < W64) by nia.
  rewrite (N.mod_small y) by assumption.
  replace ((MAX64 - y) * 2 ^ n mod W64) with (W64 - (y + 1) * 2 ^ n).
  - unfold MAX64, W64 in *. lia.
  - apply N.mod_unique with (q := 2 ^ n - 1); [unfold W64 in *; lia|].
    unfold MAX64, W64 in *. set (m := (y + 1) * 2 ^ n) in *.
    replace ((18446744073709551615 - y) * 2 ^ n) with (18446744073709551616 * 2 ^ n - m) by (unfold m; nia).
    clearbody m. lia.
Qed.

Lemma subtract_add y n : (y + 1) * 2 ^ n <= 2 ^ 63 ->
  add_block_size (subtract_block_size y n) n = Some y /\
  level (subtract_block_size y n) = level y + n /\
  sp_index (subtract_block_size y n) = sp_index y.
Proof.
  intros H. pose proof (pow2_pos n) as Hn.
  assert (H64 : (y + 1) * 2 ^ n <= 2 ^ 64).
  { eapply N.le_trans; [exact H|]. apply N.pow_le_mono_r; lia. }
  rewrite subtract_block_size_gen by assumption.
  set (z := (y + 1) * 2 ^ n - 1).
  assert (Dz : z + 1 = (2 * sp_index y + 1) * 2 ^ (level y + n)).
  { unfold z. rewrite pow2_add, N.mul_assoc, <- level_decomp. nia. }
  destruct (decomp_unique _ _ _ Dz) as [Lz Kz].
  split; [|split; assumption].
  rewrite add_block_size_gen, Lz.
  destruct (N.leb_spec n (level y + n)); [|lia]. f_equal.
  symmetry. apply N.div_unique with (r := 2 ^ n - 1); [lia|]. unfold z. nia.
Qed.

Lemma add_subtract x y n : x < 2 ^ 62 -> add_block_size x n = Some y -> subtract_block_size y n = x.
Proof.
  intros Hx H. rewrite add_block_size_gen in H.
  destruct (N.leb_spec n (level x)) as [L|L]; [|discriminate].
  injection H as <-.
  pose proof (pow2_pos n) as Hn. pose proof (level_decomp x) as D.
  pose proof (pow2_pos (level x - n)) as Hn'.
  replace (level x) with ((level x - n) + n) in D by lia. rewrite pow2_add, N.mul_assoc in D.
  set (A := (2 * sp_index x + 1) * 2 ^ (level x - n)) in *.
  assert (1 <= A) by (unfold A; nia). clearbody A.
  assert (Ey : x / 2 ^ n = A - 1).
  { symmetry. apply N.div_unique with (r := 2 ^ n - 1); [lia|]. nia. }
  rewrite Ey. rewrite subtract_block_size_gen.
  - replace (A - 1 + 1) with A by lia. lia.
  - replace (A - 1 + 1) with A by lia. rewrite <- D.
    change (2 ^ 64) with 18446744073709551616. change (2 ^ 62) with 4611686018427387904 in Hx. lia.
Qed.

(* ---- post-order offset ---- *)
Lemma post_order_offset_spec x : x < 2 ^ 62 -> post_order_offset_node x = sp_post_offset x.
Proof.
  intros H. unfold post_order_offset_node, sp_post_offset, sp_node_start.
  rewrite count_below_spec by assumption. rewrite <- level_is_sp_level.
  unfold next_left_ancestor0. rewrite clear_lowest_bit.
  pose proof (pow2_pos (level x)) as Hp. rewrite pow2_succ.
  pose proof (popcount_le (sp_index x)) as Hc.
  destruct (N.eqb_spec (sp_index x * (2 * 2 ^ level x)) 0) as [E|E].
  - assert (E0 : sp_index x = 0) by nia. rewrite E0. cbn [popcount]. lia.
  - replace (sp_index x * (2 * 2 ^ level x) - 1 + 1) with (sp_index x * 2 ^ (level x + 1))
      by (rewrite pow2_succ; lia).
    rewrite popcount_mul_pow2. nia.
Qed.

Lemma post_order_range_spec x : x < 2 ^ 62 ->
  post_order_range x = (sp_post_offset x - (2 ^ (level x + 1) - 2), sp_post_offset x + 1).
Proof.
  intros H. unfold post_order_range.
  now rewrite post_order_offset_spec, count_below_spec by assumption.
Qed.

(* ---- the statements in the exact form used by Props/C18.v ---- *)
Lemma c18_chunk_range : forall x, x < 2 ^ 62 -> chunk_range x = (sp_chunk_start x, sp_chunk_end x).
Proof. intros x _. apply chunk_range_gen. Qed.

Lemma c18_chunk_range_split : forall x, x < 2 ^ 62 -> 0 < level x ->
  fst (chunk_range (sp_left x)) = fst (chunk_range x) /\
  snd (chunk_range (sp_left x)) = mid x /\
  fst (chunk_range (sp_right x)) = mid x /\
  snd (chunk_range (sp_right x)) = snd (chunk_range x).
Proof. intros x _. apply chunk_range_split. Qed.

Lemma c18_node_range : forall x, x < 2 ^ 62 ->
  node_range x = (sp_node_start x, sp_node_start x + 2 ^ (level x + 1) - 1).
Proof. intros x _. apply node_range_gen. Qed.

Lemma c18_next_left_ancestor : forall x, x < 2 ^ 62 -> next_left_ancestor x = sp_next_left_ancestor x.
Proof. intros x _. apply next_left_ancestor_gen. Qed.

Lemma c18_add_block_size : forall x n, n <= 10 ->
  add_block_size x n = (if n <=? level x then Some (x / 2 ^ n) else None).
Proof. intros x n _. apply add_block_size_gen. Qed.

Lemma c18_subtract_add : forall y n, n <= 10 -> (y + 1) * 2 ^ n <= 2 ^ 63 ->
  add_block_size (subtract_block_size y n) n = Some y /\
  level (subtract_block_size y n) = level y + n /\
  sp_index (subtract_block_size y n) = sp_index y.
Proof. intros y n _. apply subtract_add. Qed.

Lemma c18_add_subtract : forall x y n, n <= 10 -> x < 2 ^ 62 ->
  add_block_size x n = Some y -> subtract_block_size y n = x.
Proof. intros x y n _. apply add_subtract. Qed.
