(* C10 gap closure (2): failing SOURCES under the operational model.  The encoders (sync / fsm, validating or
   not, and the item stream), the validators (sync / fsm, data and outboard flavour) and copy reach their
   data only through positioned exact reads and their outboard only through `load`.  Whenever some of these
   calls fail with an io error where the fault-free run gets its answer (every other call answering as in
   the fault-free run), the operation returns exactly that io error (EncodeError::Io / io::Error: never
   LeafWrite / ParentWrite, a hash mismatch, success or a panic) and what it has emitted by then is a prefix of
   what the fault-free run emits.
   The loops are restated once over abstract `load` / `read` oracles (specification-side mirrors, proved equal
   to the model functions), so that one proof serves the sync and the fsm twin. *)
From BaoV Require Import Model.Fsm.
From Coq Require Import Lia.

Section Gen.
Variable HO : hops.
Notation bytes := (bytes HO).
Notation hash := (hash HO).
Notation item := (item HO).
Notation outboard := (outboard HO).

Definition loader := N -> res io_kind (option (hash * hash)).
Definition preader := N -> N -> res io_kind bytes.

(* a source that fails where the other one answers *)
Definition deg_load (ld' ld : loader) : Prop := forall n, ld' n = ld n \/ exists k, ld' n = Err k.
Definition deg_read (rd' rd : preader) : Prop := forall o l, rd' o l = rd o l \/ exists k, rd' o l = Err k.
Definition fails (ld' : loader) (rd' : preader) (k : io_kind) : Prop :=
  (exists n, ld' n = Err k) \/ (exists o l, rd' o l = Err k).

(* ---------- mirrors ---------- *)
Fixpoint g_enc (ld : loader) (rd : preader) (items : list chunk) (out : bytes) : res enc_err unit * bytes :=
  match items with
  | [] => (Ok tt, out)
  | CParent node _ _ _ _ :: rest =>
      match ld node with
      | Ok (Some (l, r)) => g_enc ld rd rest (out ++ combine_pair HO l r)
      | Ok None => (Panic, out)
      | Err k => (Err (EIo k), out)
      | Panic => (Panic, out)
      end
  | CLeaf start size _ _ :: rest =>
      match rd (to_bytes start) size with
      | Ok buf => g_enc ld rd rest (out ++ buf)
      | Err k => (Err (EIo k), out)
      | Panic => (Panic, out)
      end
  end.

Fixpoint g_encv (ld : loader) (rd : preader) (items : list chunk) (stack : list hash) (t : tree) (out : bytes)
  : res enc_err unit * bytes :=
  match items with
  | [] => (Ok tt, out)
  | CParent node is_root lf rt _ :: rest =>
      match ld node with
      | Ok (Some (l, r)) =>
          let actual := parent_cv HO l r is_root in
          match stack with
          | [] => (Panic, out)
          | expected :: stk =>
              if negb (bytes_eqb HO actual expected) then (Err (EParentHashMismatch node), out)
              else
                let stk1 := if rt then r :: stk else stk in
                let stk2 := if lf then l :: stk1 else stk1 in
                g_encv ld rd rest stk2 t (out ++ combine_pair HO l r)
          end
      | Ok None => (Panic, out)
      | Err k => (Err (EIo k), out)
      | Panic => (Panic, out)
      end
  | CLeaf start size is_root rs :: rest =>
      match stack with
      | [] => (Panic, out)
      | expected :: stk =>
          match rd (to_bytes start) size with
          | Ok buf =>
              let '(to_write, actual) :=
                if negb (r_is_all rs)
                then encode_selected_rec HO (REC_FUEL) start buf is_root rs (tbs t) true
                else (buf, hash_subtree HO start buf is_root) in
              if negb (bytes_eqb HO actual expected) then (Err (ELeafHashMismatch start), out)
              else g_encv ld rd rest stk t (out ++ to_write)
          | Err k => (Err (EIo k), out)
          | Panic => (Panic, out)
          end
      end
  end.

Fixpoint g_trav (ld : loader) (rd : preader) (items : list chunk) (stack : list hash) (t : tree) (out : list item)
  : res enc_err unit * list item :=
  match items with
  | [] => (Ok tt, out)
  | CParent node is_root lf rt _ :: rest =>
      match ld node with
      | Ok (Some (l, r)) =>
          let actual := parent_cv HO l r is_root in
          match stack with
          | [] => (Panic, out)
          | expected :: stk =>
              if negb (bytes_eqb HO actual expected) then (Err (EParentHashMismatch node), out)
              else
                let stk1 := if rt then r :: stk else stk in
                let stk2 := if lf then l :: stk1 else stk1 in
                g_trav ld rd rest stk2 t (out ++ [IParent node l r])
          end
      | Ok None => (Panic, out)
      | Err k => (Err (EIo k), out)
      | Panic => (Panic, out)
      end
  | CLeaf start size is_root rs :: rest =>
      match stack with
      | [] => (Panic, out)
      | expected :: stk =>
          match rd (to_bytes start) size with
          | Ok buf =>
              if negb (r_is_all rs) then
                let '(its, actual) := traverse_selected_rec HO (REC_FUEL) start buf is_root rs (tbs t) true in
                if negb (bytes_eqb HO actual expected) then (Err (ELeafHashMismatch start), out)
                else g_trav ld rd rest stk t (out ++ its)
              else
                let actual := hash_subtree HO start buf is_root in
                if negb (bytes_eqb HO actual expected) then (Err (ELeafHashMismatch start), out)
                else g_trav ld rd rest stk t (out ++ [ILeaf (to_bytes start) buf])
          | Err k => (Err (EIo k), out)
          | Panic => (Panic, out)
          end
      end
  end.

Definition g_yield (rd : preader) (s e : N) (h : hash) (is_root : bool) : res io_kind (list (N * N)) :=
  match rd s (e - s) with
  | Ok tmp =>
      let actual := hash_subtree HO (full_chunks s) tmp is_root in
      Ok (if bytes_eqb HO actual h then [(full_chunks s, chunks e)] else [])
  | Err k => Err k
  | Panic => Panic
  end.

Fixpoint g_val (ld : loader) (rd : preader) (fuel : nat) (with_data : bool) (t : tree) (filled : N)
         (parent_hash : hash) (shifted_ : N) (is_root : bool) (rs : ranges)
  : list (N * N) * res io_kind unit :=
  match fuel with
  | O => ([], Panic)
  | S f =>
    if r_is_empty rs then ([], Ok tt)
    else
      let node := subtract_block_size shifted_ (tbs t) in
      let '(l, m, r) := leaf_byte_ranges3 t node in
      let yield s e h root :=
        if with_data then
          match g_yield rd s e h root with
          | Ok ys => (ys, Ok tt) | Err k => ([], Err k) | Panic => ([], Panic) end
        else ([(full_chunks s, chunks e)], Ok tt) in
      if negb (is_relevant_for_outboard t node) then yield l r parent_hash is_root
      else
        match ld node with
        | Err k => ([], Err k)
        | Panic => ([], Panic)
        | Ok None => ([], Ok tt)
        | Ok (Some (lh, rh)) =>
            let actual := parent_cv HO lh rh is_root in
            if negb (bytes_eqb HO actual parent_hash) then ([], Ok tt)
            else
              let '(l_rs, r_rs) := split rs node in
              if is_leaf shifted_ then
                let '(ys1, r1) := if negb (r_is_empty l_rs) then yield l m lh false else ([], Ok tt) in
                match r1 with
                | Ok _ =>
                    let '(ys2, r2) := if negb (r_is_empty r_rs) then yield m r rh false else ([], Ok tt) in
                    (ys1 ++ ys2, r2)
                | _ => (ys1, r1)
                end
              else
                match left_child shifted_ with
                | None => ([], Panic)
                | Some lc =>
                    let '(ys1, r1) := g_val ld rd f with_data t filled lh lc false l_rs in
                    match r1 with
                    | Ok _ =>
                        match right_descendant shifted_ filled with
                        | None => (ys1, Panic)
                        | Some rc =>
                            let '(ys2, r2) := g_val ld rd f with_data t filled rh rc false r_rs in
                            (ys1 ++ ys2, r2)
                        end
                    | _ => (ys1, r1)
                    end
                end
        end
  end.

Fixpoint g_copy (ld : loader) (nodes : list N) (to : outboard) : res io_kind outboard :=
  match nodes with
  | [] => Ok to
  | n :: rest =>
      match ld n with
      | Ok (Some (l, r)) =>
          match save HO to n l r with
          | Ok to' => g_copy ld rest to'
          | Err k => Err k
          | Panic => Panic
          end
      | Ok None => g_copy ld rest to
      | Err k => Err k
      | Panic => Panic
      end
  end.

(* ---------- the model functions are the mirrors ---------- *)
Lemma encode_loop_g : forall items data ob out,
  encode_loop HO items data ob out = g_enc (load_sync HO ob) (read_exact_at HO data) items out.
Proof.
  induction items as [|c rest IH]; intros; [reflexivity|]. destruct c; cbn [encode_loop g_enc].
  - destruct (load_sync HO ob node) as [[[l r]|]|k|]; try reflexivity. apply IH.
  - destruct (read_exact_at HO data (to_bytes start_chunk) size); try reflexivity. apply IH.
Qed.
Lemma encode_loop_fsm_g : forall items data ob out,
  encode_loop_fsm HO items data ob out = g_enc (load_fsm HO ob) (read_exact_at HO data) items out.
Proof.
  induction items as [|c rest IH]; intros; [reflexivity|]. destruct c; cbn [encode_loop_fsm g_enc].
  - destruct (load_fsm HO ob node) as [[[l r]|]|k|]; try reflexivity. apply IH.
  - destruct (read_exact_at HO data (to_bytes start_chunk) size); try reflexivity. apply IH.
Qed.
Lemma encode_val_loop_g : forall items stack t data ob out,
  encode_val_loop HO items stack t data ob out = g_encv (load_sync HO ob) (read_exact_at HO data) items stack t out.
Proof.
  induction items as [|c rest IH]; intros; [reflexivity|]. destruct c; cbn [encode_val_loop g_encv].
  - destruct (load_sync HO ob node) as [[[l r]|]|k|]; try reflexivity.
    destruct stack; try reflexivity. destruct (negb _); try reflexivity. apply IH.
  - destruct stack; try reflexivity.
    destruct (read_exact_at HO data (to_bytes start_chunk) size); try reflexivity.
    destruct (if negb (r_is_all rs) then _ else _) as [tw ac]. destruct (negb _); try reflexivity. apply IH.
Qed.
Lemma encode_val_loop_fsm_g : forall items stack t data ob out,
  encode_val_loop_fsm HO items stack t data ob out = g_encv (load_fsm HO ob) (read_exact_at HO data) items stack t out.
Proof.
  induction items as [|c rest IH]; intros; [reflexivity|]. destruct c; cbn [encode_val_loop_fsm g_encv].
  - destruct (load_fsm HO ob node) as [[[l r]|]|k|]; try reflexivity.
    destruct stack; try reflexivity. destruct (negb _); try reflexivity. apply IH.
  - destruct stack; try reflexivity.
    destruct (read_exact_at HO data (to_bytes start_chunk) size); try reflexivity.
    destruct (if negb (r_is_all rs) then _ else _) as [tw ac]. destruct (negb _); try reflexivity. apply IH.
Qed.
Lemma traverse_loop_g : forall items stack t data ob out,
  traverse_loop HO items stack t data ob out = g_trav (load_sync HO ob) (read_exact_at HO data) items stack t out.
Proof.
  induction items as [|c rest IH]; intros; [reflexivity|]. destruct c; cbn [traverse_loop g_trav].
  - destruct (load_sync HO ob node) as [[[l r]|]|k|]; try reflexivity.
    destruct stack; try reflexivity. destruct (negb _); try reflexivity. apply IH.
  - destruct stack; try reflexivity.
    destruct (read_exact_at HO data (to_bytes start_chunk) size); try reflexivity.
    destruct (negb (r_is_all rs)).
    + destruct (traverse_selected_rec HO REC_FUEL start_chunk a is_root rs (tbs t) true) as [its ac].
      destruct (negb _); try reflexivity. apply IH.
    + destruct (negb _); try reflexivity. apply IH.
Qed.

Lemma validate_rec_g : forall fuel wd t filled ob data ph sh ir rs,
  validate_rec HO fuel wd t filled ob data ph sh ir rs
  = g_val (load_sync HO ob) (read_exact_at HO data) fuel wd t filled ph sh ir rs.
Proof.
  induction fuel as [|f IH]; intros; [reflexivity|].
  cbn [validate_rec g_val]. change (yield_if_valid HO data) with (g_yield (read_exact_at HO data)).
  destruct (r_is_empty rs); [reflexivity|].
  destruct (leaf_byte_ranges3 t (subtract_block_size sh (tbs t))) as [[l m] r].
  destruct (negb (is_relevant_for_outboard t (subtract_block_size sh (tbs t)))); [reflexivity|].
  destruct (load_sync HO ob (subtract_block_size sh (tbs t))) as [[[lh rh]|]|k|]; try reflexivity.
  destruct (negb (bytes_eqb HO (parent_cv HO lh rh ir) ph)); [reflexivity|].
  destruct (split rs (subtract_block_size sh (tbs t))) as [l_rs r_rs].
  destruct (is_leaf sh); [reflexivity|].
  destruct (left_child sh) as [lc|]; [|reflexivity].
  rewrite IH. destruct (g_val _ _ f wd t filled lh lc false l_rs) as [ys1 r1].
  destruct r1; try reflexivity.
  destruct (right_descendant sh filled) as [rc|]; [|reflexivity].
  rewrite IH. reflexivity.
Qed.
Lemma validate_rec_fsm_g : forall fuel wd t filled ob data ph sh ir rs,
  validate_rec_fsm HO fuel wd t filled ob data ph sh ir rs
  = g_val (load_fsm HO ob) (read_exact_at HO data) fuel wd t filled ph sh ir rs.
Proof.
  induction fuel as [|f IH]; intros; [reflexivity|].
  cbn [validate_rec_fsm g_val]. change (yield_if_valid_fsm HO data) with (g_yield (read_exact_at HO data)).
  destruct (r_is_empty rs); [reflexivity|].
  destruct (leaf_byte_ranges3 t (subtract_block_size sh (tbs t))) as [[l m] r].
  destruct (negb (is_relevant_for_outboard t (subtract_block_size sh (tbs t)))); [reflexivity|].
  destruct (load_fsm HO ob (subtract_block_size sh (tbs t))) as [[[lh rh]|]|k|]; try reflexivity.
  destruct (negb (bytes_eqb HO (parent_cv HO lh rh ir) ph)); [reflexivity|].
  destruct (split rs (subtract_block_size sh (tbs t))) as [l_rs r_rs].
  destruct (is_leaf sh); [reflexivity|].
  destruct (left_child sh) as [lc|]; [|reflexivity].
  rewrite IH. destruct (g_val _ _ f wd t filled lh lc false l_rs) as [ys1 r1].
  destruct r1; try reflexivity.
  destruct (right_descendant sh filled) as [rc|]; [|reflexivity].
  rewrite IH. reflexivity.
Qed.

Lemma copy_loop_g : forall nodes from to, copy_loop HO nodes from to = g_copy (load_sync HO from) nodes to.
Proof.
  induction nodes as [|n rest IH]; intros; [reflexivity|]. cbn [copy_loop g_copy].
  destruct (load_sync HO from n) as [[[l r]|]|k|]; try reflexivity; [|apply IH].
  destruct (save HO to n l r); try reflexivity. apply IH.
Qed.
Lemma copy_loop_fsm_g : forall nodes from to, copy_loop_fsm HO nodes from to = g_copy (load_fsm HO from) nodes to.
Proof.
  induction nodes as [|n rest IH]; intros; [reflexivity|]. cbn [copy_loop_fsm g_copy].
  destruct (load_fsm HO from n) as [[[l r]|]|k|]; try reflexivity; [|apply IH].
  destruct (save HO to n l r); try reflexivity. apply IH.
Qed.

(* ---------- what is emitted only grows ---------- *)
Lemma g_enc_extends ld rd : forall items out, exists more, snd (g_enc ld rd items out) = out ++ more.
Proof.
  induction items as [|c rest IH]; intros out; [exists []; cbn; now rewrite app_nil_r|].
  destruct c; cbn [g_enc].
  - destruct (ld node) as [[[l r]|]|k|]; try (exists []; cbn [snd]; now rewrite app_nil_r).
    destruct (IH (out ++ combine_pair HO l r)) as [more Hm]. exists (combine_pair HO l r ++ more). rewrite Hm. now rewrite app_assoc.
  - destruct (rd (to_bytes start_chunk) size) as [buf|k|]; try (exists []; cbn [snd]; now rewrite app_nil_r).
    destruct (IH (out ++ buf)) as [more Hm]. exists (buf ++ more). rewrite Hm. now rewrite app_assoc.
Qed.
Lemma g_encv_extends ld rd : forall items stack t out, exists more, snd (g_encv ld rd items stack t out) = out ++ more.
Proof.
  induction items as [|c rest IH]; intros stack t out; [exists []; cbn; now rewrite app_nil_r|].
  destruct c; cbn [g_encv].
  - destruct (ld node) as [[[l r]|]|k|]; try (exists []; cbn [snd]; now rewrite app_nil_r).
    destruct stack as [|ex stk]; try (exists []; cbn [snd]; now rewrite app_nil_r).
    destruct (negb _); try (exists []; cbn [snd]; now rewrite app_nil_r).
    match goal with |- context [g_encv ld rd rest ?s t ?o] => destruct (IH s t o) as [more Hm] end.
    exists (combine_pair HO l r ++ more). rewrite Hm. now rewrite app_assoc.
  - destruct stack as [|ex stk]; try (exists []; cbn [snd]; now rewrite app_nil_r).
    destruct (rd (to_bytes start_chunk) size) as [buf|k|]; try (exists []; cbn [snd]; now rewrite app_nil_r).
    destruct (if negb (r_is_all rs) then _ else _) as [tw ac].
    destruct (negb _); try (exists []; cbn [snd]; now rewrite app_nil_r).
    destruct (IH stk t (out ++ tw)) as [more Hm]. exists (tw ++ more). rewrite Hm. now rewrite app_assoc.
Qed.
Lemma g_trav_extends ld rd : forall items stack t out, exists more, snd (g_trav ld rd items stack t out) = out ++ more.
Proof.
  induction items as [|c rest IH]; intros stack t out; [exists []; cbn; now rewrite app_nil_r|].
  destruct c; cbn [g_trav].
  - destruct (ld node) as [[[l r]|]|k|]; try (exists []; cbn [snd]; now rewrite app_nil_r).
    destruct stack as [|ex stk]; try (exists []; cbn [snd]; now rewrite app_nil_r).
    destruct (negb _); try (exists []; cbn [snd]; now rewrite app_nil_r).
    match goal with |- context [g_trav ld rd rest ?s t ?o] => destruct (IH s t o) as [more Hm] end.
    exists ([IParent node l r] ++ more). rewrite Hm. now rewrite app_assoc.
  - destruct stack as [|ex stk]; try (exists []; cbn [snd]; now rewrite app_nil_r).
    destruct (rd (to_bytes start_chunk) size) as [buf|k|]; try (exists []; cbn [snd]; now rewrite app_nil_r).
    destruct (negb (r_is_all rs)).
    + destruct (traverse_selected_rec HO REC_FUEL start_chunk buf is_root rs (tbs t) true) as [its ac].
      destruct (negb _); try (exists []; cbn [snd]; now rewrite app_nil_r).
      destruct (IH stk t (out ++ its)) as [more Hm]. exists (its ++ more). rewrite Hm. now rewrite app_assoc.
    + destruct (negb _); try (exists []; cbn [snd]; now rewrite app_nil_r).
      destruct (IH stk t (out ++ [ILeaf (to_bytes start_chunk) buf])) as [more Hm].
      exists ([ILeaf (to_bytes start_chunk) buf] ++ more). rewrite Hm. now rewrite app_assoc.
Qed.

(* ---------- the first failing source call decides ---------- *)
Section Degraded.
Variables (ld ld' : loader) (rd rd' : preader).
Hypothesis Hld : deg_load ld' ld.
Hypothesis Hrd : deg_read rd' rd.

Definition enc_concl {A} (x' x : res enc_err unit * list A) : Prop :=
  x' = x \/ exists k more, fst x' = Err (EIo k) /\ snd x = snd x' ++ more /\ fails ld' rd' k.

Lemma g_enc_fault : forall items out, enc_concl (g_enc ld' rd' items out) (g_enc ld rd items out).
Proof.
  induction items as [|c rest IH]; intros out; [left; reflexivity|].
  destruct c; cbn [g_enc].
  - destruct (Hld node) as [-> | [k Hk]].
    + destruct (ld node) as [[[l r]|]|k|]; try (left; reflexivity). apply IH.
    + rewrite Hk. right. exists k. cbn [fst snd].
      destruct (g_enc_extends ld rd (CParent node is_root left right rs :: rest) out) as [more Hm].
      exists more. split; [reflexivity|]. split; [exact Hm|]. left. now exists node.
  - destruct (Hrd (to_bytes start_chunk) size) as [-> | [k Hk]].
    + destruct (rd (to_bytes start_chunk) size) as [buf|k|]; try (left; reflexivity). apply IH.
    + rewrite Hk. right. exists k. cbn [fst snd].
      destruct (g_enc_extends ld rd (CLeaf start_chunk size is_root rs :: rest) out) as [more Hm].
      exists more. split; [reflexivity|]. split; [exact Hm|]. right. now exists (to_bytes start_chunk), size.
Qed.

Lemma g_encv_fault : forall items stack t out,
  enc_concl (g_encv ld' rd' items stack t out) (g_encv ld rd items stack t out).
Proof.
  induction items as [|c rest IH]; intros stack t out; [left; reflexivity|].
  destruct c.
  - destruct (Hld node) as [E | [k Hk]].
    + cbn [g_encv]. rewrite E. destruct (ld node) as [[[l r]|]|k|]; try (left; reflexivity).
      destruct stack as [|ex stk]; try (left; reflexivity).
      destruct (negb _); try (left; reflexivity). apply IH.
    + destruct (g_encv_extends ld rd (CParent node is_root left right rs :: rest) stack t out) as [more Hm].
      right. exists k, more. cbn [g_encv] in *. rewrite Hk. cbn [fst snd].
      split; [reflexivity|]. split; [exact Hm|]. left. now exists node.
  - destruct stack as [|ex stk]; [left; reflexivity|].
    destruct (Hrd (to_bytes start_chunk) size) as [E | [k Hk]].
    + cbn [g_encv]. rewrite E. destruct (rd (to_bytes start_chunk) size) as [buf|k|]; try (left; reflexivity).
      destruct (if negb (r_is_all rs) then _ else _) as [tw ac].
      destruct (negb _); try (left; reflexivity). apply IH.
    + destruct (g_encv_extends ld rd (CLeaf start_chunk size is_root rs :: rest) (ex :: stk) t out) as [more Hm].
      right. exists k, more. cbn [g_encv] in *. rewrite Hk. cbn [fst snd].
      split; [reflexivity|]. split; [exact Hm|]. right. now exists (to_bytes start_chunk), size.
Qed.

Lemma g_trav_fault : forall items stack t out,
  enc_concl (g_trav ld' rd' items stack t out) (g_trav ld rd items stack t out).
Proof.
  induction items as [|c rest IH]; intros stack t out; [left; reflexivity|].
  destruct c.
  - destruct (Hld node) as [E | [k Hk]].
    + cbn [g_trav]. rewrite E. destruct (ld node) as [[[l r]|]|k|]; try (left; reflexivity).
      destruct stack as [|ex stk]; try (left; reflexivity).
      destruct (negb _); try (left; reflexivity). apply IH.
    + destruct (g_trav_extends ld rd (CParent node is_root left right rs :: rest) stack t out) as [more Hm].
      right. exists k, more. cbn [g_trav] in *. rewrite Hk. cbn [fst snd].
      split; [reflexivity|]. split; [exact Hm|]. left. now exists node.
  - destruct stack as [|ex stk]; [left; reflexivity|].
    destruct (Hrd (to_bytes start_chunk) size) as [E | [k Hk]].
    + cbn [g_trav]. rewrite E. destruct (rd (to_bytes start_chunk) size) as [buf|k|]; try (left; reflexivity).
      destruct (negb (r_is_all rs)).
      * destruct (traverse_selected_rec HO REC_FUEL start_chunk buf is_root rs (tbs t) true) as [its ac].
        destruct (negb _); try (left; reflexivity). apply IH.
      * destruct (negb _); try (left; reflexivity). apply IH.
    + destruct (g_trav_extends ld rd (CLeaf start_chunk size is_root rs :: rest) (ex :: stk) t out) as [more Hm].
      right. exists k, more. cbn [g_trav] in *. rewrite Hk. cbn [fst snd].
      split; [reflexivity|]. split; [exact Hm|]. right. now exists (to_bytes start_chunk), size.
Qed.

(* validators *)
Definition vfails (wd : bool) (k : io_kind) : Prop :=
  (exists n, ld' n = Err k) \/ (wd = true /\ exists o l, rd' o l = Err k).
Definition val_concl (wd : bool) (x' x : list (N * N) * res io_kind unit) : Prop :=
  x' = x \/ exists k more, snd x' = Err k /\ fst x = fst x' ++ more /\ vfails wd k.

Lemma val_concl_nil wd x k : vfails wd k -> val_concl wd ([], Err k) x.
Proof. intros H. right. exists k, (fst x). now repeat split. Qed.

Lemma g_yield_fault s e h root :
  g_yield rd' s e h root = g_yield rd s e h root \/
  exists k, g_yield rd' s e h root = Err k /\ exists o l, rd' o l = Err k.
Proof.
  unfold g_yield. destruct (Hrd s (e - s)) as [-> | [k Hk]]; [left; reflexivity|].
  right. exists k. rewrite Hk. split; [reflexivity|]. now exists s, (e - s).
Qed.

Lemma g_val_fault : forall fuel wd t filled ph sh ir rs,
  val_concl wd (g_val ld' rd' fuel wd t filled ph sh ir rs) (g_val ld rd fuel wd t filled ph sh ir rs).
Proof.
  induction fuel as [|f IH]; intros; [left; reflexivity|].
  cbn [g_val].
  destruct (r_is_empty rs); [left; reflexivity|].
  destruct (leaf_byte_ranges3 t (subtract_block_size sh (tbs t))) as [[l m] r].
  (* the yield helper, compared once *)
  assert (Hy : forall s e h root,
    val_concl wd (if wd then match g_yield rd' s e h root with
                          | Ok ys => (ys, Ok tt) | Err k => ([], Err k) | Panic => ([], Panic) end
               else ([(full_chunks s, chunks e)], Ok tt))
              (if wd then match g_yield rd s e h root with
                          | Ok ys => (ys, Ok tt) | Err k => ([], Err k) | Panic => ([], Panic) end
               else ([(full_chunks s, chunks e)], Ok tt))).
  { intros s e h root. destruct wd; [|left; reflexivity].
    destruct (g_yield_fault s e h root) as [-> | (k & -> & Hk)]; [left; reflexivity|].
    apply val_concl_nil. right. now split. }
  destruct (negb (is_relevant_for_outboard t (subtract_block_size sh (tbs t)))); [apply Hy|].
  destruct (Hld (subtract_block_size sh (tbs t))) as [-> | [k Hk]].
  2:{ rewrite Hk. apply val_concl_nil. left. now exists (subtract_block_size sh (tbs t)). }
  destruct (ld (subtract_block_size sh (tbs t))) as [[[lh rh]|]|k|]; try (left; reflexivity).
  destruct (negb (bytes_eqb HO (parent_cv HO lh rh ir) ph)); [left; reflexivity|].
  destruct (split rs (subtract_block_size sh (tbs t))) as [l_rs r_rs].
  destruct (is_leaf sh).
  - (* two leaf halves *)
    assert (H1 : val_concl wd (if negb (r_is_empty l_rs)
                            then (if wd then match g_yield rd' l m lh false with
                                             | Ok ys => (ys, Ok tt) | Err k => ([], Err k) | Panic => ([], Panic) end
                                  else ([(full_chunks l, chunks m)], Ok tt))
                            else ([], Ok tt))
                           (if negb (r_is_empty l_rs)
                            then (if wd then match g_yield rd l m lh false with
                                             | Ok ys => (ys, Ok tt) | Err k => ([], Err k) | Panic => ([], Panic) end
                                  else ([(full_chunks l, chunks m)], Ok tt))
                            else ([], Ok tt))).
    { destruct (negb (r_is_empty l_rs)); [apply Hy | left; reflexivity]. }
    assert (H2 : val_concl wd (if negb (r_is_empty r_rs)
                            then (if wd then match g_yield rd' m r rh false with
                                             | Ok ys => (ys, Ok tt) | Err k => ([], Err k) | Panic => ([], Panic) end
                                  else ([(full_chunks m, chunks r)], Ok tt))
                            else ([], Ok tt))
                           (if negb (r_is_empty r_rs)
                            then (if wd then match g_yield rd m r rh false with
                                             | Ok ys => (ys, Ok tt) | Err k => ([], Err k) | Panic => ([], Panic) end
                                  else ([(full_chunks m, chunks r)], Ok tt))
                            else ([], Ok tt))).
    { destruct (negb (r_is_empty r_rs)); [apply Hy | left; reflexivity]. }
    revert H1 H2.
    generalize (if negb (r_is_empty l_rs)
                then (if wd then match g_yield rd' l m lh false with
                                 | Ok ys => (ys, Ok tt) | Err k => ([], Err k) | Panic => ([], Panic) end
                      else ([(full_chunks l, chunks m)], Ok tt))
                else ([], Ok tt)).
    generalize (if negb (r_is_empty l_rs)
                then (if wd then match g_yield rd l m lh false with
                                 | Ok ys => (ys, Ok tt) | Err k => ([], Err k) | Panic => ([], Panic) end
                      else ([(full_chunks l, chunks m)], Ok tt))
                else ([], Ok tt)).
    generalize (if negb (r_is_empty r_rs)
                then (if wd then match g_yield rd' m r rh false with
                                 | Ok ys => (ys, Ok tt) | Err k => ([], Err k) | Panic => ([], Panic) end
                      else ([(full_chunks m, chunks r)], Ok tt))
                else ([], Ok tt)).
    generalize (if negb (r_is_empty r_rs)
                then (if wd then match g_yield rd m r rh false with
                                 | Ok ys => (ys, Ok tt) | Err k => ([], Err k) | Panic => ([], Panic) end
                      else ([(full_chunks m, chunks r)], Ok tt))
                else ([], Ok tt)).
    intros [ys2 r2] [ys2' r2'] [ys1 r1] [ys1' r1'] H1 H2.
    destruct H1 as [[= -> ->] | (k & more & Hk & Hm & Hf)].
    + destruct r1 as [u|e|]; try (left; reflexivity).
      destruct H2 as [[= -> ->] | (k & more & Hk & Hm & Hf)]; [left; reflexivity|].
      cbn [fst snd] in *. subst r2'. right. exists k, more. cbn [fst snd]. split; [reflexivity|].
      split; [rewrite Hm; now rewrite app_assoc | exact Hf].
    + cbn [fst snd] in *. subst r1'. right. exists k. cbn [fst snd].
      destruct r1 as [u|e|]; eexists; (split; [reflexivity|]); (split; [|exact Hf]); rewrite Hm;
        first [rewrite <- app_assoc; reflexivity | reflexivity].
  - destruct (left_child sh) as [lc|]; [|left; reflexivity].
    pose proof (IH wd t filled lh lc false l_rs) as H1.
    destruct (g_val ld' rd' f wd t filled lh lc false l_rs) as [ys1' r1'].
    destruct (g_val ld rd f wd t filled lh lc false l_rs) as [ys1 r1].
    destruct H1 as [[= -> ->] | (k & more & Hk & Hm & Hf)].
    + destruct r1 as [u|e|]; try (left; reflexivity).
      destruct (right_descendant sh filled) as [rc|]; [|left; reflexivity].
      pose proof (IH wd t filled rh rc false r_rs) as H2.
      destruct (g_val ld' rd' f wd t filled rh rc false r_rs) as [ys2' r2'].
      destruct (g_val ld rd f wd t filled rh rc false r_rs) as [ys2 r2].
      destruct H2 as [[= -> ->] | (k & more & Hk & Hm & Hf)]; [left; reflexivity|].
      cbn [fst snd] in *. subst r2'. right. exists k, more. cbn [fst snd]. split; [reflexivity|].
      split; [rewrite Hm; now rewrite app_assoc | exact Hf].
    + cbn [fst snd] in *. subst r1'. right. exists k. cbn [fst snd].
      destruct r1 as [u|e|]; [destruct (right_descendant sh filled) as [rc|];
                              [destruct (g_val ld rd f wd t filled rh rc false r_rs) as [ys2 r2]|]| |];
        eexists; (split; [reflexivity|]); (split; [|exact Hf]); cbn [fst]; rewrite Hm;
        first [rewrite <- app_assoc; reflexivity | reflexivity].
Qed.

(* copy: the result only *)
Lemma g_copy_fault : forall nodes to,
  g_copy ld' nodes to = g_copy ld nodes to \/ exists k, g_copy ld' nodes to = Err k /\ exists n, ld' n = Err k.
Proof.
  induction nodes as [|n rest IH]; intros to; [left; reflexivity|]. cbn [g_copy].
  destruct (Hld n) as [-> | [k Hk]].
  - destruct (ld n) as [[[l r]|]|k|]; try (left; reflexivity); [|apply IH].
    destruct (save HO to n l r); try (left; reflexivity). apply IH.
  - rewrite Hk. right. exists k. split; [reflexivity|]. now exists n.
Qed.

End Degraded.
End Gen.

(* ================= the public operations ================= *)
Section Top.
Variable HO : hops.
Notation bytes := (bytes HO).
Notation outboard := (outboard HO).

(* ---- encoders ---- *)
Theorem encode_ranges_source_fault (data data' : bytes) (ob ob' : outboard) q :
  ob_tree ob' = ob_tree ob ->
  (forall n, load_sync HO ob' n = load_sync HO ob n \/ exists k, load_sync HO ob' n = Err k) ->
  (forall o l, read_exact_at HO data' o l = read_exact_at HO data o l \/ exists k, read_exact_at HO data' o l = Err k) ->
  encode_ranges HO data' ob' q = encode_ranges HO data ob q \/
  exists k more, fst (encode_ranges HO data' ob' q) = Err (EIo k) /\
    snd (encode_ranges HO data ob q) = snd (encode_ranges HO data' ob' q) ++ more /\
    ((exists n, load_sync HO ob' n = Err k) \/ (exists o l, read_exact_at HO data' o l = Err k)).
Proof.
  intros Ht Hl Hr. unfold encode_ranges. rewrite Ht. rewrite !encode_loop_g.
  exact (g_enc_fault HO _ _ _ _ Hl Hr (pre_order_chunks_iter (ob_tree ob) q 0) []).
Qed.

Theorem encode_ranges_fsm_source_fault (data data' : bytes) (ob ob' : outboard) q :
  ob_tree ob' = ob_tree ob ->
  (forall n, load_fsm HO ob' n = load_fsm HO ob n \/ exists k, load_fsm HO ob' n = Err k) ->
  (forall o l, read_exact_at HO data' o l = read_exact_at HO data o l \/ exists k, read_exact_at HO data' o l = Err k) ->
  encode_ranges_fsm HO data' ob' q = encode_ranges_fsm HO data ob q \/
  exists k more, fst (encode_ranges_fsm HO data' ob' q) = Err (EIo k) /\
    snd (encode_ranges_fsm HO data ob q) = snd (encode_ranges_fsm HO data' ob' q) ++ more /\
    ((exists n, load_fsm HO ob' n = Err k) \/ (exists o l, read_exact_at HO data' o l = Err k)).
Proof.
  intros Ht Hl Hr. unfold encode_ranges_fsm. rewrite Ht. rewrite !encode_loop_fsm_g.
  exact (g_enc_fault HO _ _ _ _ Hl Hr (pre_order_chunks_iter (ob_tree ob) q 0) []).
Qed.

Theorem encode_ranges_validated_source_fault (data data' : bytes) (ob ob' : outboard) q :
  ob_tree ob' = ob_tree ob -> ob_root ob' = ob_root ob ->
  (forall n, load_sync HO ob' n = load_sync HO ob n \/ exists k, load_sync HO ob' n = Err k) ->
  (forall o l, read_exact_at HO data' o l = read_exact_at HO data o l \/ exists k, read_exact_at HO data' o l = Err k) ->
  encode_ranges_validated HO data' ob' q = encode_ranges_validated HO data ob q \/
  exists k more, fst (encode_ranges_validated HO data' ob' q) = Err (EIo k) /\
    snd (encode_ranges_validated HO data ob q) = snd (encode_ranges_validated HO data' ob' q) ++ more /\
    ((exists n, load_sync HO ob' n = Err k) \/ (exists o l, read_exact_at HO data' o l = Err k)).
Proof.
  intros Ht Hrt Hl Hr. unfold encode_ranges_validated. destruct (r_is_empty q); [left; reflexivity|].
  rewrite Ht, Hrt. rewrite !encode_val_loop_g.
  exact (g_encv_fault HO _ _ _ _ Hl Hr (pre_order_chunks_iter (ob_tree ob) (truncate_ranges q (tsize (ob_tree ob))) 0)
           [ob_root ob] (ob_tree ob) []).
Qed.

Theorem encode_ranges_validated_fsm_source_fault (data data' : bytes) (ob ob' : outboard) q :
  ob_tree ob' = ob_tree ob -> ob_root ob' = ob_root ob ->
  (forall n, load_fsm HO ob' n = load_fsm HO ob n \/ exists k, load_fsm HO ob' n = Err k) ->
  (forall o l, read_exact_at HO data' o l = read_exact_at HO data o l \/ exists k, read_exact_at HO data' o l = Err k) ->
  encode_ranges_validated_fsm HO data' ob' q = encode_ranges_validated_fsm HO data ob q \/
  exists k more, fst (encode_ranges_validated_fsm HO data' ob' q) = Err (EIo k) /\
    snd (encode_ranges_validated_fsm HO data ob q) = snd (encode_ranges_validated_fsm HO data' ob' q) ++ more /\
    ((exists n, load_fsm HO ob' n = Err k) \/ (exists o l, read_exact_at HO data' o l = Err k)).
Proof.
  intros Ht Hrt Hl Hr. unfold encode_ranges_validated_fsm.
  rewrite Ht, Hrt. rewrite !encode_val_loop_fsm_g.
  exact (g_encv_fault HO _ _ _ _ Hl Hr (pre_order_chunks_iter (ob_tree ob) (truncate_ranges q (tsize (ob_tree ob))) 0)
           [ob_root ob] (ob_tree ob) []).
Qed.

(* the item stream: Size, the items, then Error(Io) in place of the remaining items *)
Theorem traverse_ranges_validated_source_fault (data data' : bytes) (ob ob' : outboard) q :
  ob_tree ob' = ob_tree ob -> ob_root ob' = ob_root ob ->
  (forall n, load_sync HO ob' n = load_sync HO ob n \/ exists k, load_sync HO ob' n = Err k) ->
  (forall o l, read_exact_at HO data' o l = read_exact_at HO data o l \/ exists k, read_exact_at HO data' o l = Err k) ->
  traverse_ranges_validated HO data' ob' q = traverse_ranges_validated HO data ob q \/
  exists k its,
    traverse_ranges_validated HO data' ob' q
      = Some (ESize (tsize (ob_tree ob)) :: map EItem its ++ [EError (EIo k)]) /\
    ((exists n, load_sync HO ob' n = Err k) \/ (exists o l, read_exact_at HO data' o l = Err k)) /\
    (forall l, traverse_ranges_validated HO data ob q = Some l ->
       exists more last, l = ESize (tsize (ob_tree ob)) :: map EItem (its ++ more) ++ [last]).
Proof.
  intros Ht Hrt Hl Hr. unfold traverse_ranges_validated. destruct (r_is_empty q); [left; rewrite Ht; reflexivity|].
  rewrite Ht, Hrt. rewrite !traverse_loop_g.
  pose proof (g_trav_fault HO _ _ _ _ Hl Hr (pre_order_chunks_iter (ob_tree ob) (truncate_ranges q (tsize (ob_tree ob))) 0)
                [ob_root ob] (ob_tree ob) []) as H.
  revert H.
  generalize (g_trav HO (load_sync HO ob') (read_exact_at HO data')
                (pre_order_chunks_iter (ob_tree ob) (truncate_ranges q (tsize (ob_tree ob))) 0) [ob_root ob] (ob_tree ob) []).
  generalize (g_trav HO (load_sync HO ob) (read_exact_at HO data)
                (pre_order_chunks_iter (ob_tree ob) (truncate_ranges q (tsize (ob_tree ob))) 0) [ob_root ob] (ob_tree ob) []).
  intros [r its] [r' its'] [[= -> ->] | (k & more & Hk & Hm & Hf)]; [left; reflexivity|].
  cbn [fst snd] in *. subst r' its. right. exists k, its'. split; [reflexivity|]. split; [exact Hf|].
  intros l. destruct r as [u|e|]; intros [= <-]; eexists more, _; reflexivity.
Qed.

(* ---- validators ---- *)
Theorem valid_ranges_source_fault (data data' : bytes) (ob ob' : outboard) q :
  ob_tree ob' = ob_tree ob -> ob_root ob' = ob_root ob ->
  (forall n, load_sync HO ob' n = load_sync HO ob n \/ exists k, load_sync HO ob' n = Err k) ->
  (forall o l, read_exact_at HO data' o l = read_exact_at HO data o l \/ exists k, read_exact_at HO data' o l = Err k) ->
  valid_ranges HO ob' data' q = valid_ranges HO ob data q \/
  exists k more, snd (valid_ranges HO ob' data' q) = Err k /\
    fst (valid_ranges HO ob data q) = fst (valid_ranges HO ob' data' q) ++ more /\
    ((exists n, load_sync HO ob' n = Err k) \/ (exists o l, read_exact_at HO data' o l = Err k)).
Proof.
  intros Ht Hrt Hl Hr. unfold valid_ranges. rewrite Ht, Hrt. destruct (blocks (ob_tree ob) =? 1).
  - destruct (Hr 0 (tsize (ob_tree ob))) as [-> | [k Hk]]; [left; reflexivity|].
    rewrite Hk. right. exists k. cbn [fst snd]. eexists. split; [reflexivity|]. split; [reflexivity|].
    right. now exists 0, (tsize (ob_tree ob)).
  - destruct (shifted (ob_tree ob)) as [root filled]. rewrite !validate_rec_g.
    destruct (g_val_fault HO _ _ _ _ Hl Hr 70%nat true (ob_tree ob) filled (ob_root ob) root true
                (truncate_ranges q (tsize (ob_tree ob)))) as [E | (k & more & Hk & Hm & [Hf | [_ Hf]])];
      [left; exact E | right; exists k, more; now repeat split; try (left; exact Hf)
                     | right; exists k, more; now repeat split; try (right; exact Hf)].
Qed.

Theorem valid_ranges_fsm_source_fault (data data' : bytes) (ob ob' : outboard) q :
  ob_tree ob' = ob_tree ob -> ob_root ob' = ob_root ob ->
  (forall n, load_fsm HO ob' n = load_fsm HO ob n \/ exists k, load_fsm HO ob' n = Err k) ->
  (forall o l, read_exact_at HO data' o l = read_exact_at HO data o l \/ exists k, read_exact_at HO data' o l = Err k) ->
  valid_ranges_fsm HO ob' data' q = valid_ranges_fsm HO ob data q \/
  exists k more, snd (valid_ranges_fsm HO ob' data' q) = Err k /\
    fst (valid_ranges_fsm HO ob data q) = fst (valid_ranges_fsm HO ob' data' q) ++ more /\
    ((exists n, load_fsm HO ob' n = Err k) \/ (exists o l, read_exact_at HO data' o l = Err k)).
Proof.
  intros Ht Hrt Hl Hr. unfold valid_ranges_fsm. rewrite Ht, Hrt. destruct (blocks (ob_tree ob) =? 1).
  - destruct (Hr 0 (tsize (ob_tree ob))) as [-> | [k Hk]]; [left; reflexivity|].
    rewrite Hk. right. exists k. cbn [fst snd]. eexists. split; [reflexivity|]. split; [reflexivity|].
    right. now exists 0, (tsize (ob_tree ob)).
  - destruct (shifted (ob_tree ob)) as [root filled]. rewrite !validate_rec_fsm_g.
    destruct (g_val_fault HO _ _ _ _ Hl Hr 70%nat true (ob_tree ob) filled (ob_root ob) root true
                (truncate_ranges q (tsize (ob_tree ob)))) as [E | (k & more & Hk & Hm & [Hf | [_ Hf]])];
      [left; exact E | right; exists k, more; now repeat split; try (left; exact Hf)
                     | right; exists k, more; now repeat split; try (right; exact Hf)].
Qed.

(* the outboard flavour reads no data: only loads can fail *)
Theorem valid_outboard_ranges_source_fault (ob ob' : outboard) q :
  ob_tree ob' = ob_tree ob -> ob_root ob' = ob_root ob ->
  (forall n, load_sync HO ob' n = load_sync HO ob n \/ exists k, load_sync HO ob' n = Err k) ->
  valid_outboard_ranges HO ob' q = valid_outboard_ranges HO ob q \/
  exists k more, snd (valid_outboard_ranges HO ob' q) = Err k /\
    fst (valid_outboard_ranges HO ob q) = fst (valid_outboard_ranges HO ob' q) ++ more /\
    (exists n, load_sync HO ob' n = Err k).
Proof.
  intros Ht Hrt Hl. unfold valid_outboard_ranges. rewrite Ht, Hrt. destruct (blocks (ob_tree ob) =? 1); [left; reflexivity|].
  destruct (shifted (ob_tree ob)) as [root filled]. rewrite !validate_rec_g.
  destruct (g_val_fault HO _ _ (read_exact_at HO []) (read_exact_at HO []) Hl (fun o l => or_introl eq_refl)
              70%nat false (ob_tree ob) filled (ob_root ob) root true (truncate_ranges q (tsize (ob_tree ob))))
    as [E | (k & more & Hk & Hm & Hf)]; [left; exact E|].
  right. exists k, more. split; [exact Hk|]. split; [exact Hm|].
  destruct Hf as [Hf | [Hf _]]; [exact Hf | discriminate Hf].
Qed.

Theorem valid_outboard_ranges_fsm_source_fault (ob ob' : outboard) q :
  ob_tree ob' = ob_tree ob -> ob_root ob' = ob_root ob ->
  (forall n, load_fsm HO ob' n = load_fsm HO ob n \/ exists k, load_fsm HO ob' n = Err k) ->
  valid_outboard_ranges_fsm HO ob' q = valid_outboard_ranges_fsm HO ob q \/
  exists k more, snd (valid_outboard_ranges_fsm HO ob' q) = Err k /\
    fst (valid_outboard_ranges_fsm HO ob q) = fst (valid_outboard_ranges_fsm HO ob' q) ++ more /\
    (exists n, load_fsm HO ob' n = Err k).
Proof.
  intros Ht Hrt Hl. unfold valid_outboard_ranges_fsm. rewrite Ht, Hrt. destruct (blocks (ob_tree ob) =? 1); [left; reflexivity|].
  destruct (shifted (ob_tree ob)) as [root filled]. rewrite !validate_rec_fsm_g.
  destruct (g_val_fault HO _ _ (read_exact_at HO []) (read_exact_at HO []) Hl (fun o l => or_introl eq_refl)
              70%nat false (ob_tree ob) filled (ob_root ob) root true (truncate_ranges q (tsize (ob_tree ob))))
    as [E | (k & more & Hk & Hm & Hf)]; [left; exact E|].
  right. exists k, more. split; [exact Hk|]. split; [exact Hm|].
  destruct Hf as [Hf | [Hf _]]; [exact Hf | discriminate Hf].
Qed.

(* ---- copy ---- *)
Theorem copy_source_fault (from from' to : outboard) :
  ob_tree from' = ob_tree from ->
  (forall n, load_sync HO from' n = load_sync HO from n \/ exists k, load_sync HO from' n = Err k) ->
  copy HO from' to = copy HO from to \/
  exists k, copy HO from' to = Err k /\ exists n, load_sync HO from' n = Err k.
Proof.
  intros Ht Hl. unfold copy. rewrite Ht, !copy_loop_g. exact (g_copy_fault HO _ _ Hl _ to).
Qed.
Theorem copy_fsm_source_fault (from from' to : outboard) :
  ob_tree from' = ob_tree from ->
  (forall n, load_fsm HO from' n = load_fsm HO from n \/ exists k, load_fsm HO from' n = Err k) ->
  copy_fsm HO from' to = copy_fsm HO from to \/
  exists k, copy_fsm HO from' to = Err k /\ exists n, load_fsm HO from' n = Err k.
Proof.
  intros Ht Hl. unfold copy_fsm. rewrite Ht, !copy_loop_fsm_g. exact (g_copy_fault HO _ _ Hl _ to).
Qed.

(* ---- the hypotheses are met by truncated sources (the faults the byte-vector stores of the model can produce) ---- *)
Lemma slice_firstn (d : bytes) n o l :
  blen HO (slice HO o l (firstn n d)) = l -> slice HO o l (firstn n d) = slice HO o l d.
Proof.
  unfold slice, take, drop, blen. rewrite skipn_firstn_comm, firstn_firstn.
  intros H. rewrite firstn_length in H.
  assert (Hmin : Nat.min (N.to_nat l) (n - N.to_nat o) = N.to_nat l) by lia.
  now rewrite Hmin.
Qed.

Lemma read_exact_at_truncated (d : bytes) n o l :
  read_exact_at HO (firstn n d) o l = read_exact_at HO d o l \/ read_exact_at HO (firstn n d) o l = Err KUnexpectedEof.
Proof.
  unfold read_exact_at. destruct (blen HO (slice HO o l (firstn n d)) =? l) eqn:E; [|right; reflexivity].
  apply N.eqb_eq in E. left. pose proof (slice_firstn d n o l E) as Hs. rewrite Hs in E |- *. rewrite E, N.eqb_refl. reflexivity.
Qed.
Lemma read_exact_at_truncated_deg (d : bytes) n :
  forall o l, read_exact_at HO (firstn n d) o l = read_exact_at HO d o l \/ exists k, read_exact_at HO (firstn n d) o l = Err k.
Proof. intros o l. destruct (read_exact_at_truncated d n o l) as [H|H]; [left; exact H | right; now exists KUnexpectedEof]. Qed.

Lemma load_sync_truncated (k : ob_kind) root t (d : bytes) n node :
  k = PreIO \/ k = PostIO ->
  load_sync HO (mkOb k root t (firstn n d)) node = load_sync HO (mkOb k root t d) node \/
  load_sync HO (mkOb k root t (firstn n d)) node = Err KUnexpectedEof.
Proof.
  intros Hk. unfold load_sync, ob_offset. cbn [ob_k ob_tree ob_data].
  destruct Hk as [-> | ->].
  - destruct (pre_order_offset t node) as [o|]; [|left; reflexivity].
    destruct (blen HO (slice HO (o * 64) 64 (firstn n d)) =? 64) eqn:E; [|right; reflexivity].
    apply N.eqb_eq in E. left. pose proof (slice_firstn d n _ _ E) as Hs. rewrite Hs in E |- *. rewrite E. reflexivity.
  - destruct (option_map po_value (post_order_offset t node)) as [o|]; [|left; reflexivity].
    destruct (blen HO (slice HO (o * 64) 64 (firstn n d)) =? 64) eqn:E; [|right; reflexivity].
    apply N.eqb_eq in E. left. pose proof (slice_firstn d n _ _ E) as Hs. rewrite Hs in E |- *. rewrite E. reflexivity.
Qed.

(* the fsm loads of the model never fail: a short read of an io-backed outboard is a zero pair *)
Lemma load_fsm_never_err (ob : outboard) node k : load_fsm HO ob node <> Err k.
Proof.
  unfold load_fsm. destruct (ob_offset HO ob node); [|discriminate].
  destruct (ob_k ob); try discriminate; repeat match goal with |- context [if ?c then _ else _] => destruct c end; discriminate.
Qed.

(* a run that does fail: a one-byte blob whose data file is empty *)
Lemma encode_ranges_source_fault_nonvacuous :
  (forall o l, read_exact_at HO (firstn 0 [bzero HO]) o l = read_exact_at HO [bzero HO] o l \/
               exists k, read_exact_at HO (firstn 0 [bzero HO]) o l = Err k) /\
  encode_ranges_validated HO (firstn 0 [bzero HO]) (mkOb EmptyOb (hash_subtree HO 0 [bzero HO] true) (mkTree 1 0) []) [0]
  = (Err (EIo KUnexpectedEof), []).
Proof. split; [apply read_exact_at_truncated_deg | vm_compute; reflexivity]. Qed.

(* sync vs fsm on an outboard FILE that is too short (here: empty) for the pair asked for: the sync load is an
   io error (UnexpectedEof), the fsm load answers with a zero pair, so the non-validating fsm encoder sends zero
   hashes and succeeds, and the validating one reports a hash mismatch instead of an io error *)
Theorem fsm_short_outboard_is_not_an_io_error :
  let t := mkTree 2048 0 in
  let data := repeat (bzero HO) 2048 in
  let ob := mkOb PreIO (zero_hash HO) t [] in
  encode_ranges HO data ob [0] = (Err (EIo KUnexpectedEof), []) /\
  encode_ranges_fsm HO data ob [0] = (Ok tt, zero_hash HO ++ zero_hash HO ++ data) /\
  fst (encode_ranges_validated HO data ob [0]) = Err (EIo KUnexpectedEof) /\
  (bytes_eqb HO (parent_cv HO (zero_hash HO) (zero_hash HO) true) (zero_hash HO) = false ->
   fst (encode_ranges_validated_fsm HO data ob [0]) = Err (EParentHashMismatch 0)).
Proof.
  cbv zeta. split; [vm_compute; reflexivity|]. split; [vm_compute; reflexivity|]. split; [vm_compute; reflexivity|].
  intros H. unfold encode_ranges_validated_fsm.
  change (pre_order_chunks_iter (ob_tree (mkOb PreIO (zero_hash HO) (mkTree 2048 0) []))
            (truncate_ranges [0] (tsize (ob_tree (mkOb PreIO (zero_hash HO) (mkTree 2048 0) [])))) 0)
    with (pre_order_chunks_iter (mkTree 2048 0) (truncate_ranges [0] 2048) 0).
  replace (pre_order_chunks_iter (mkTree 2048 0) (truncate_ranges [0] 2048) 0)
    with [CParent 0 true true true [0]; CLeaf 0 1024 false [0]; CLeaf 1 1024 false [0]] by (vm_compute; reflexivity).
  cbn [encode_val_loop_fsm ob_root ob_tree].
  replace (load_fsm HO (mkOb PreIO (zero_hash HO) (mkTree 2048 0) []) 0) with (Ok (Some (zero_pair HO)) : res io_kind _)
    by (vm_compute; reflexivity).
  unfold zero_pair. rewrite H. reflexivity.
Qed.

End Top.
