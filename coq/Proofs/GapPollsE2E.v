(* Gap audit (C01 / C09): the decoders set up for (root hash of a blob, tree of the blob, q), polled through
   ANY sequence of calls of next, errors included, on ANY stream.  The plan-tree theorems of
   Proofs/GapLenient.v instantiated at the spec tree of the blob; the plan side conditions (every leaf
   non-empty, only the last leaf can be shorter than a hash pair) are discharged from the C15 facts. *)
From BaoV Require Import Model.Fsm Spec.RangeSpec Spec.PlanSpec Spec.PlanWf Spec.EncSpec Spec.HashAssm Spec.PTree Spec.SpecTree.
From BaoV Require Proofs.PlanRun Proofs.PlanBase Proofs.PlanProps Proofs.PlanPreLeaves.
From BaoV Require Proofs.RangeTrunc Proofs.BridgeBase Proofs.BridgeTree Proofs.BridgePlan.
From BaoV Require Import Proofs.DecLoop Proofs.DecHash Proofs.DecForest Proofs.DecConst.
From BaoV Require Import Proofs.E2EGlue Proofs.E2EDecode Proofs.E2EMisc.
From BaoV Require Import Proofs.GapPolls Proofs.GapLenient.
From Coq Require Import Lia Arith.
Open Scope N_scope.

(* ---------- the plan side conditions from the C15 facts ---------- *)
Lemma no_leaf_intro : forall p, (forall s z ir rs, ~ In (CLeaf s z ir rs) p) -> no_leaf p.
Proof.
  induction p as [|c p IH]; intro H; [exact I|].
  destruct c as [n ir lf rt rs|s z ir rs]; cbn [no_leaf].
  - apply IH. intros s z ir0 rs0 Hin. apply (H s z ir0 rs0). now right.
  - apply (H s z ir rs). now left.
Qed.

Lemma leaves_increasing_lb : forall p pos s z ir rs, leaves_increasing p pos = true ->
  In (CLeaf s z ir rs) p -> pos <= s.
Proof.
  induction p as [|c p IH]; intros pos s z ir rs H Hin; [contradiction|].
  destruct c as [n ir0 lf rt rs0|s0 z0 ir0 rs0]; cbn [leaves_increasing] in H.
  - destruct Hin as [Hd|Hin]; [discriminate|]. eapply IH; eauto.
  - apply andb_true_iff in H. destruct H as [H1 H2]. apply N.leb_le in H1.
    destruct Hin as [Hd|Hin]; [injection Hd as <- _ _ _; exact H1|].
    specialize (IH _ _ _ _ _ H2 Hin). unfold leaf_chunks in IH. lia.
Qed.

Lemma leaf_chunks_small : forall z, z < 64 -> leaf_chunks z = 1.
Proof.
  intros z H. unfold leaf_chunks.
  assert ((z + 1023) / 1024 < 2) by (apply N.div_lt_upper_bound; lia). lia.
Qed.

Lemma tail_ok_of_facts : forall size, 0 < size -> forall plan pos,
  leaves_increasing plan pos = true ->
  (forall s z ir rs, In (CLeaf s z ir rs) plan ->
     leaf_shape_ok size s z = true /\ s + leaf_chunks z <= nchunks size) ->
  tail_ok plan.
Proof.
  intros size Hpos. induction plan as [|c plan IH]; intros pos Hinc Hl; [exact I|].
  destruct c as [n ir lf rt rs|s z ir rs]; cbn [tail_ok leaves_increasing] in *.
  - apply (IH pos Hinc). intros s z ir0 rs0 Hin. apply (Hl s z ir0 rs0). now right.
  - apply andb_true_iff in Hinc. destruct Hinc as [_ Hinc].
    destruct (Hl s z ir rs (or_introl eq_refl)) as [Hsh Hend].
    unfold leaf_shape_ok in Hsh. apply andb_true_iff in Hsh. destruct Hsh as [Hsh _].
    apply N.eqb_eq in Hsh. unfold span_bytes in Hsh.
    assert (Hs : s < nchunks size) by (unfold leaf_chunks in Hend; lia).
    apply PlanBase.nchunks_spec in Hs.
    assert (Hk : 1 <= leaf_chunks z) by (unfold leaf_chunks; lia).
    assert (Hz : z <> 0).
    { intro Hz0. rewrite Hz0 in Hsh. change (leaf_chunks 0) with 1 in Hsh. lia. }
    split; [exact Hz|]. split.
    + intro Hz64. apply no_leaf_intro. intros s2 z2 ir2 rs2 Hin.
      rewrite (leaf_chunks_small z Hz64) in Hsh, Hinc.
      pose proof (leaves_increasing_lb _ _ _ _ _ _ Hinc Hin) as Hlb.
      destruct (Hl s2 z2 ir2 rs2 (or_intror Hin)) as [_ Hend2].
      assert (Hs2 : s2 < nchunks size) by (unfold leaf_chunks in Hend2; lia).
      apply PlanBase.nchunks_spec in Hs2. lia.
    + apply (IH _ Hinc). intros s2 z2 ir2 rs2 Hin. apply (Hl s2 z2 ir2 rs2). now right.
Qed.

Lemma pre_plan_size0 : forall f ml q ir rm, (length (pre_plan_rec (S f) 0 0 ml q 0 1 ir rm) <= 1)%nat.
Proof.
  intros f ml q ir rm. rewrite BridgePlan.pre_plan_rec_unfold0. cbv zeta.
  change (BridgePlan.capof 1) with 2.
  destruct (negb (q_any q 0 (0 + 2) rm)); [cbn; lia|].
  destruct (q_full q 0 (0 + 2) rm && (N.log2 2 - 1 <? ml)); [cbn; lia|].
  change (2 =? 2) with true. change (0 <=? (0 + 1) * 1024) with true. cbn. lia.
Qed.

Lemma tail_ok_pre_plan : forall size ml q, size <= 2 ^ 63 -> wf_ranges q = true ->
  tail_ok (pre_plan size 0 ml q) \/ (length (pre_plan size 0 ml q) <= 1)%nat.
Proof.
  intros size ml q Hs Hwf. destruct (N.eq_dec size 0) as [->|Hne].
  - right. unfold pre_plan. change (sp_blocks 0 0) with 1. apply pre_plan_size0.
  - destruct q as [|x q0] eqn:Eq.
    + right. unfold pre_plan. change 65%nat with (S 64). rewrite BridgePlan.pre_plan_rec_unfold0. cbv zeta.
      assert (E : q_any [] 0 (0 + BridgePlan.capof (sp_blocks size 0)) true = false) by reflexivity.
      rewrite E. cbn. lia.
    + left. rewrite <- Eq in *. assert (Hq : q <> []) by (rewrite Eq; discriminate).
      destruct (PlanProps.c15_pre_leaves size 0 ml q Hs ltac:(lia) Hwf Hq) as [Hinc Hsh].
      apply (tail_ok_of_facts size ltac:(lia) _ 0 Hinc).
      intros s z ir rs Hin. split; [eapply Hsh; exact Hin|].
      assert (Hin2 : In (s, s + leaf_chunks z) (leaves_of_plan (pre_plan size 0 ml q))).
      { unfold leaves_of_plan. apply in_flat_map. exists (CLeaf s z ir rs). split; [exact Hin|now left]. }
      destruct (PlanPreLeaves.pre_leaves_bounds_plan size 0 ml q Hs ltac:(lia) Hwf Hq _ _ Hin2) as [_ B]. exact B.
Qed.

(* ---------- the decoders of a blob ---------- *)
Section E2EPolls.
Variable HO : hops.
Hypothesis HOK : hash_ok HO.
Variable data : bytes HO.
Variables (bs : N) (q : ranges).
Hypothesis Hsize : blen HO data <= 2 ^ 63.
Hypothesis Hbs : bs <= 10.
Hypothesis Hwf : wf_ranges q = true.

Notation size := (blen HO data).
Notation t := (mkTree (blen HO data) bs).
Notation root := (root_hash HO data).
Notation hon := (honest HO data bs q).
Notation rsl := (res dec_err (item HO)).

(* what the three clauses say about a list of poll results *)
Definition polls_post (tr : list rsl) : Prop :=
  forall k : nat, (forall j r, (j < k)%nat -> nth_error tr j = Some r -> soft HO r) ->
    (forall it, nth_error tr k = Some (Ok it) -> nth_error hon k = Some it) /\
    nth_error tr k <> Some Panic /\
    (forall e, nth_error tr k = Some (Err e) -> notfound e ->
       forall j r, (k < j)%nat -> nth_error tr j = Some r -> is_err HO r).

Lemma polls_post_nil : polls_post [].
Proof.
  intros k _. split; [intros it H; destruct k; discriminate|].
  split; [destruct k; discriminate|intros e H; destruct k; discriminate].
Qed.

(* transfer from the results over the whole plan to a prefix of them *)
Lemma polls_post_prefix : forall tr more, polls_post (tr ++ more) -> polls_post tr.
Proof.
  intros tr more H k Hsoft.
  destruct (nth_error tr k) as [rk|] eqn:Ek.
  - assert (Hk : (k < length tr)%nat) by (apply nth_error_Some; congruence).
    assert (Hs : forall j r, (j < k)%nat -> nth_error (tr ++ more) j = Some r -> soft HO r).
    { intros j r Hj Hn. rewrite nth_error_app1 in Hn by lia. eapply Hsoft; eauto. }
    destruct (H k Hs) as (A1 & A2 & A3). rewrite nth_error_app1 in A1, A2, A3 by exact Hk. rewrite Ek in *.
    split; [exact A1|]. split; [exact A2|].
    intros e He Hnf j r Hj Hn. apply (A3 e He Hnf j r Hj).
    rewrite nth_error_app1; [exact Hn|]. apply nth_error_Some. congruence.
  - split; [intros it E; discriminate|]. split; [discriminate|intros e E; discriminate].
Qed.

Lemma tail_ok_or_short : forall T : ptree HO,
  plan_of HO T = pre_plan size 0 bs (truncate_ranges q size) ->
  tail_ok (plan_of HO T) \/ (length (plan_of HO T) <= 1)%nat.
Proof.
  intros T ->. apply tail_ok_pre_plan; [exact Hsize|apply RangeTrunc.truncate_wf; exact Hwf].
Qed.

Section NonEmpty.
Hypothesis Hne : q <> [].
Let T := spec_tree HO data bs q.
Let it0 := response_new t (truncate_ranges q size).

Lemma T_facts :
  consistent HO T /\ leaves_ok HO T /\ items_of HO T = hon /\
  (forall stream, dec_new HO root t stream q = mkD HO it0 [cv_of HO T] stream) /\
  (forall stream, rd_new HO root q t stream = mkR HO it0 [cv_of HO T] stream root) /\
  PlanRun.trace response_next it0 (plan_of HO T) /\
  (tail_ok (plan_of HO T) \/ (length (plan_of HO T) <= 1)%nat).
Proof.
  pose proof (setup_consistent HO HOK data bs q Hsize) as H1.
  pose proof (setup_leaves HO data bs q Hsize Hbs) as H2.
  pose proof (setup_items HO data bs q Hsize) as H3.
  pose proof (setup_dec_new HO data bs q Hsize Hwf Hne) as H4.
  pose proof (setup_rd_new HO data bs q Hsize Hwf Hne) as H5.
  pose proof (BridgePlan.bridge_plan HO data bs q Hwf Hsize) as H6.
  destruct (response_trace size bs (truncate_ranges q size) Hsize Hbs (RangeTrunc.truncate_wf q size Hwf)) as [H7 _].
  pose proof (tail_ok_or_short _ H6) as H8.
  subst T it0. rewrite <- H6 in H7.
  repeat split; assumption.
Qed.

Lemma post_of_tree : forall (RS : list rsl),
  (forall k, (forall j r, (j < k)%nat -> nth_error RS j = Some r -> soft HO r) ->
    (forall it, nth_error RS k = Some (Ok it) -> nth_error (items_of HO T) k = Some it) /\
    nth_error RS k <> Some Panic /\
    (tail_ok (plan_of HO T) -> forall e, nth_error RS k = Some (Err e) -> notfound e ->
       forall j r, (k < j)%nat -> nth_error RS j = Some r -> is_err HO r)) ->
  length RS = length (plan_of HO T) ->
  items_of HO T = hon -> (tail_ok (plan_of HO T) \/ (length (plan_of HO T) <= 1)%nat) ->
  polls_post RS.
Proof.
  intros RS H Hlen I Ht k Hsoft. destruct (H k Hsoft) as (A1 & A2 & A3). rewrite I in A1.
  split; [exact A1|]. split; [exact A2|].
  intros e He Hnf j r Hj Hn. destruct Ht as [Ht|Hshort].
  - exact (A3 Ht e He Hnf j r Hj Hn).
  - exfalso. assert ((j < length RS)%nat) by (apply nth_error_Some; congruence). lia.
Qed.

Lemma polls_sync_ne : forall (stream : bytes HO) tr st,
  dec_polls HO (dec_new HO root t stream q) tr st -> polls_post tr.
Proof.
  intros stream tr st Hp. destruct T_facts as (C & L & I & D1 & _ & Tr & Ht).
  rewrite D1 in Hp. destruct (dec_polls_plan HO _ _ _ Hp) as (plan & Hs & He).
  cbn [d_inner d_stack d_enc] in Hs, He.
  destruct (steps_prefix response_next _ _ _ Hs _ Tr) as [rest Hrest].
  assert (E : p_res HO (poll_list HO (step_sync HO) (plan_of HO T) [cv_of HO T] stream) = tr ++
              p_res HO (poll_list HO (step_sync HO) rest (d_stack HO st) (d_enc HO st))).
  { rewrite Hrest, poll_prefix, He. reflexivity. }
  assert (Hpost : polls_post (p_res HO (poll_list HO (step_sync HO) (plan_of HO T) [cv_of HO T] stream))).
  { apply post_of_tree; [|apply poll_length|exact I|exact Ht].
    exact (polls_tree_sync HO HOK T stream C L). }
  rewrite E in Hpost. exact (polls_post_prefix _ _ Hpost).
Qed.

Lemma polls_fsm_ne : forall (stream : bytes HO) tr st,
  rd_polls HO (rd_new HO root q t stream) tr st -> polls_post tr.
Proof.
  intros stream tr st Hp. destruct T_facts as (C & L & I & _ & D2 & Tr & Ht).
  rewrite D2 in Hp. destruct (rd_polls_plan HO _ _ _ Hp) as (plan & Hs & He & _).
  cbn [Fsm.r_iter Fsm.r_stack Fsm.r_enc] in Hs, He.
  destruct (steps_prefix response_next _ _ _ Hs _ Tr) as [rest Hrest].
  assert (E : p_res HO (poll_list HO (step_fsm HO) (plan_of HO T) [cv_of HO T] stream) = tr ++
              p_res HO (poll_list HO (step_fsm HO) rest (Fsm.r_stack HO st) (Fsm.r_enc HO st))).
  { rewrite Hrest, poll_prefix, He. reflexivity. }
  assert (Hpost : polls_post (p_res HO (poll_list HO (step_fsm HO) (plan_of HO T) [cv_of HO T] stream))).
  { apply post_of_tree; [|apply poll_length|exact I|exact Ht].
    exact (polls_tree_fsm HO HOK T stream C L). }
  rewrite E in Hpost. exact (polls_post_prefix _ _ Hpost).
Qed.
End NonEmpty.

Theorem e2e_polls_sync : forall (stream : bytes HO) tr st,
  dec_polls HO (dec_new HO root t stream q) tr st -> polls_post tr.
Proof.
  intros stream tr st Hp. destruct q as [|x q0] eqn:Eq.
  - assert (tr = []) as ->; [|apply polls_post_nil].
    inversion Hp as [|? r st1 tr' ? Hn _]; subst; [reflexivity|]. exfalso.
    rewrite dec_next_step in Hn. unfold dec_new in Hn. cbn [d_inner] in Hn.
    rewrite truncate_nil, response_new_nil in Hn. discriminate.
  - rewrite <- Eq in *. apply (polls_sync_ne ltac:(rewrite Eq; discriminate) stream tr st Hp).
Qed.

Theorem e2e_polls_fsm : forall (stream : bytes HO) tr st,
  rd_polls HO (rd_new HO root q t stream) tr st -> polls_post tr.
Proof.
  intros stream tr st Hp. destruct q as [|x q0] eqn:Eq.
  - assert (tr = []) as ->; [|apply polls_post_nil].
    inversion Hp as [|? r st1 tr' ? Hn _]; subst; [reflexivity|]. exfalso.
    rewrite rd_next_step in Hn. unfold rd_new in Hn. cbn [Fsm.r_iter] in Hn.
    rewrite RangeTrunc.truncate_owned_eq, truncate_nil, response_new_nil in Hn. discriminate.
  - rewrite <- Eq in *. apply (polls_fsm_ne ltac:(rewrite Eq; discriminate) stream tr st Hp).
Qed.

End E2EPolls.

(* ---------- the statements in closed form ---------- *)
Theorem e2e_polls_both : forall HO, hash_ok HO ->
  forall (data : bytes HO) (bs : N) (q : ranges),
  blen HO data <= 2 ^ 63 -> bs <= 10 -> wf_ranges q = true ->
  forall (stream : bytes HO) (tr : list (res dec_err (item HO))),
  (exists st, dec_polls HO (dec_new HO (root_hash HO data) (mkTree (blen HO data) bs) stream q) tr st) \/
  (exists st, rd_polls HO (rd_new HO (root_hash HO data) q (mkTree (blen HO data) bs) stream) tr st) ->
  forall k : nat, (forall j r, (j < k)%nat -> nth_error tr j = Some r -> soft HO r) ->
    (forall it, nth_error tr k = Some (Ok it) -> nth_error (honest HO data bs q) k = Some it) /\
    nth_error tr k <> Some Panic /\
    (forall e, nth_error tr k = Some (Err e) -> notfound e ->
       forall j r, (k < j)%nat -> nth_error tr j = Some r -> is_err HO r).
Proof.
  intros HO HOK data bs q Hs Hb Hwf stream tr [[st H]|[st H]].
  - exact (e2e_polls_sync HO HOK data bs q Hs Hb Hwf stream tr st H).
  - exact (e2e_polls_fsm HO HOK data bs q Hs Hb Hwf stream tr st H).
Qed.
