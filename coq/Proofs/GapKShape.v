(* Gap audit (C01), part 4: WHICH node ids are right under a wrong claimed size.
   The claimed and the true tree are walked along the same paths.  As long as the two nodes AGREE (same start chunk,
   and same end or both on the right spine) a parent is yielded under the id of the true node whose pair it carries.
   The first parent whose claimed and true split points differ (it lies on the right spine) is yielded under a WRONG
   id; from then on both walks stay in DIVERGED nodes: no leaf is accepted any more, every further item is a parent
   under a wrong id, and the run does not finish.
   So the items yielded are  ys1 ++ ys2 : ys1 items under their right ids, ys2 parents under wrong ids. *)
From BaoV Require Import Model.Fsm Spec.HashAssm Spec.EncSpec Spec.RangeSpec Spec.PlanSpec Spec.PTree Spec.SpecTree.
From BaoV Require Import Proofs.DecLoop Proofs.DecHash Proofs.DecForest Proofs.DecRanges Proofs.BridgeBase Proofs.BridgeTree Proofs.PlanBase.
From BaoV Require Import Proofs.SizeHash Proofs.SizeDec Proofs.GapPairs Proofs.GapKInv.
From Coq Require Import Lia Arith NArith.
Open Scope N_scope.

(* ---------- arithmetic of aligned blocks ---------- *)
Lemma odd_pow2_lt : forall k' k i' i, i' < i -> (2 * k' + 1) * 2 ^ i' = (2 * k + 1) * 2 ^ i -> False.
Proof.
  intros k' k i' i Hlt E.
  replace i with (i' + ((i - i' - 1) + 1)) in E by lia.
  rewrite N.pow_add_r, pow2_succ in E.
  set (P := 2 ^ i') in *. set (Q := 2 ^ (i - i' - 1)) in *.
  assert (HP : P <> 0) by (unfold P; apply N.pow_nonzero; lia).
  assert (E' : P * (2 * k' + 1) = P * (2 * ((2 * k + 1) * Q))).
  { rewrite (N.mul_comm P (2 * k' + 1)), E. ring. }
  apply N.mul_cancel_l in E'; [|exact HP].
  set (M := (2 * k + 1) * Q) in *. lia.
Qed.

Lemma odd_pow2_unique : forall k' k i' i, (2 * k' + 1) * 2 ^ i' = (2 * k + 1) * 2 ^ i -> i' = i.
Proof.
  intros k' k i' i E. destruct (N.lt_trichotomy i' i) as [L|[L|L]]; [|exact L|].
  - exfalso. exact (odd_pow2_lt _ _ _ _ L E).
  - exfalso. symmetry in E. exact (odd_pow2_lt _ _ _ _ L E).
Qed.

(* the split point determines the node *)
Lemma mid_inj : forall n' n a' b' a b, aligned n' a' b' -> aligned n a b -> 2 <= b' - a' -> 2 <= b - a ->
  a' + next_pow2 (b' - a') / 2 = a + next_pow2 (b - a) / 2 ->
  a' = a /\ next_pow2 (b' - a') / 2 = next_pow2 (b - a) / 2.
Proof.
  intros n' n a' b' a b (_ & _ & j' & k' & Ej' & Ea' & _) (_ & _ & j & k & Ej & Ea & _) H2' H2 E.
  destruct (np2_half (b' - a') H2') as (i' & E1' & Eh' & _).
  destruct (np2_half (b - a) H2) as (i & E1 & Eh & _).
  rewrite Eh', Eh in *.
  assert (A' : a' = k' * (2 * 2 ^ i')) by (rewrite <- pow2_succ, <- E1', Ej'; exact Ea').
  assert (A : a = k * (2 * 2 ^ i)) by (rewrite <- pow2_succ, <- E1, Ej; exact Ea).
  assert (EE : (2 * k' + 1) * 2 ^ i' = (2 * k + 1) * 2 ^ i) by lia.
  apply odd_pow2_unique in EE. subst i'. split; [lia|reflexivity].
Qed.

(* a block strictly inside the blob is full: twice its half *)
Lemma inner_full : forall n a b, aligned n a b -> b < n -> 2 <= b - a -> b - a = 2 * (next_pow2 (b - a) / 2).
Proof.
  intros n a b (_ & _ & j & k & Ej & _ & Eb) Hb H2.
  destruct (np2_half (b - a) H2) as (i & E1 & Eh & _).
  destruct Eb as [Eb|Eb]; [|lia]. rewrite Eh. rewrite Ej in E1. rewrite pow2_succ in E1. lia.
Qed.

Lemma blen_chunk_le' : forall HO (d0 : bytes HO) a b, blen HO (chunk_bytes HO d0 a b) <= blen HO d0.
Proof. intros HO d0 a b. rewrite blen_chunk_bytes. lia. Qed.

Section Shape.
Variable HO : hops.
Notation bytes := (bytes HO).
Notation hash := (hash HO).
Notation item := (item HO).
Hypothesis HOK : hash_ok HO.
Variable step : stepT HO.
Hypothesis Hok : step_ok2 HO step.
Variable data : bytes.
Variable data' : bytes.
Variable bs : N.
Variable Sel : N -> bool.
Hypothesis Hdata : blen HO data <= 2 ^ 63.
Hypothesis Hdata' : blen HO data' <= 2 ^ 63.

Let NT := nchunks (blen HO data).
Let NT' := nchunks (blen HO data').

Definition agree (a' b' a b : N) : Prop := a' = a /\ (b' = b \/ (b' = NT' /\ b = NT)).
Definition diverged (a' b' a b : N) : Prop :=
  (b' < NT' /\ b < NT /\ (a' <> a \/ b' - a' <> b - a)) \/ (b' = NT' /\ b = NT /\ a' <> a).

(* a parent yielded under the id of the true node whose pair it carries / under another id *)
Definition parent_at (same : bool) (i : item) : Prop :=
  match i with
  | ILeaf _ _ => False
  | IParent nd l r =>
      exists a' b' a b, same_path NT' NT a' b' a b /\ 2 <= b' - a' /\ 2 <= b - a /\
        nd = a' + next_pow2 (b' - a') / 2 - 1 /\
        l = cv HO data a (a + next_pow2 (b - a) / 2) false /\
        r = cv HO data (a + next_pow2 (b - a) / 2) b false /\
        (if same then a' + next_pow2 (b' - a') / 2 = a + next_pow2 (b - a) / 2
         else a' + next_pow2 (b' - a') / 2 <> a + next_pow2 (b - a) / 2)
  end.
Definition right_item (i : item) : Prop :=
  match i with ILeaf _ _ => good_item HO data data' i | IParent _ _ _ => parent_at true i end.
Definition wrong_item (i : item) : Prop := parent_at false i.

Definition shape (R : dres HO) : Prop :=
  exists ys1 ys2, r_items HO R = ys1 ++ ys2 /\ Forall right_item ys1 /\ Forall wrong_item ys2 /\
                  (ys2 <> [] -> r_outcome HO R <> Finished).
Definition all_wrong (R : dres HO) : Prop := Forall wrong_item (r_items HO R) /\ r_outcome HO R <> Finished.

Lemma shape_cons_right : forall i R, right_item i -> shape R -> shape (cons_item HO i R).
Proof.
  intros i R Hi (ys1 & ys2 & E & F1 & F2 & Ho). exists (i :: ys1), ys2.
  rewrite r_items_cons, r_outcome_cons, E. split; [reflexivity|]. split; [constructor; assumption|]. split; assumption.
Qed.
Lemma shape_wrong : forall R, all_wrong R -> shape R.
Proof.
  intros R [F Ho]. exists [], (r_items HO R). split; [reflexivity|]. split; [constructor|]. split; [exact F|]. intros _. exact Ho.
Qed.
Lemma all_wrong_cons : forall i R, wrong_item i -> all_wrong R -> all_wrong (cons_item HO i R).
Proof.
  intros i R Hi [F Ho]. split; [rewrite r_items_cons; constructor; assumption|rewrite r_outcome_cons; exact Ho].
Qed.
Lemma shape_stop : forall (o : outcome) (stk : list hash) (enc : bytes), shape ([], o, stk, enc).
Proof.
  intros o stk enc. exists [], []. split; [reflexivity|]. split; [constructor|]. split; [constructor|]. intros C; contradiction.
Qed.

Lemma all_wrong_stop : forall (o : outcome) (stk : list hash) (enc : bytes), o <> Finished -> all_wrong ([], o, stk, enc).
Proof. intros o stk enc Ho. split; [exact (Forall_nil _)|exact Ho]. Qed.

Let NT_ge1 : 1 <= NT. Proof. unfold NT. pose proof (nchunks_bounds (blen HO data)). lia. Qed.
Let NT'_ge1 : 1 <= NT'. Proof. unfold NT'. pose proof (nchunks_bounds (blen HO data')). lia. Qed.
Let NT_le : NT <= 2 ^ 53. Proof. unfold NT. apply nchunks_small. exact Hdata. Qed.

(* a block that ends strictly inside a blob has all its bytes *)
Lemma inner_bytes : forall (d0 : bytes) a b, a < b -> b < nchunks (blen HO d0) ->
  blen HO (chunk_bytes HO d0 a b) = (b - a) * 1024.
Proof.
  intros d0 a b Hab Hb. rewrite blen_chunk_bytes.
  pose proof (nchunks_bounds (blen HO d0)) as (_ & _ & B3). lia.
Qed.

(* the children of a node that is not skipped are not both skipped *)
Lemma kids_not_both_skip : forall f a b m ir1 ir2, a <= m -> m <= b ->
  existsb Sel (chunk_range_list a b) = true ->
  is_skip HO (st_rec HO (S f) data' bs Sel a m ir1) = true ->
  is_skip HO (st_rec HO (S f) data' bs Sel m b ir2) = true -> False.
Proof.
  intros f a b m ir1 ir2 H1 H2 He K1 K2. rewrite st_is_skip in K1, K2.
  rewrite (crl_app a m b H1 H2), existsb_app in He.
  destruct (existsb Sel (chunk_range_list a m)); [discriminate|].
  destruct (existsb Sel (chunk_range_list m b)); discriminate.
Qed.

(* ---------- diverged nodes: only wrong parents, never finished ---------- *)
Lemma div_rec : forall f a' b' ir rest stk enc h a b flag,
  b' - a' <= 2 ^ N.of_nat f ->
  is_skip HO (st_rec HO (S f) data' bs Sel a' b' ir) = false ->
  same_path NT' NT a' b' a b -> diverged a' b' a b -> h = cv HO data a b flag ->
  all_wrong (dec_items HO step (plan_of HO (st_rec HO (S f) data' bs Sel a' b' ir) ++ rest) (h :: stk) enc).
Proof.
  assert (P53 : 2 ^ 53 <= 2 ^ 63) by (apply pow2_le_mono; lia).
  pose proof NT_le as HNT.
  induction f as [|f IH]; intros a' b' ir rest stk enc h a b flag Hf Hskip Hsp Hdiv Hh;
  destruct (same_path_aligned _ _ _ _ _ _ NT'_ge1 NT_ge1 Hsp) as [Hal' Hal];
  pose proof Hal as (Hab & HbN & _); pose proof Hal' as (Hab' & HbN' & _);
  pose proof Hskip as Hex; rewrite st_is_skip in Hex; apply Bool.negb_false_iff in Hex;
  rewrite st_rec_unfold in Hskip |- *; rewrite Hex in Hskip |- *; cbn [negb] in Hskip |- *.
  all: assert (LEAF : all_wrong
            (dec_items HO step (plan_of HO (PLeaf a' ir (chunk_bytes HO data' a' b')) ++ rest) (h :: stk) enc)).
  1,3: cbn [plan_of app]; rewrite dec_items_cons;
    destruct (step (CLeaf a' (blen HO (chunk_bytes HO data' a' b')) ir []) (h :: stk) enc)
      as [[[i|e|] stk'] enc1] eqn:Es; [|apply all_wrong_stop; discriminate|apply all_wrong_stop; discriminate];
    exfalso; apply Hok in Es; destruct Es as (buf & stk0 & E & Hlen & _ & _);
    injection E as Eh _; rewrite Hh in Eh; rewrite <- (hash_subtree_cv HO data a b flag Hab HbN) in Eh; symmetry in Eh;
    pose proof (blen_chunk_le' HO data' a' b') as L1; pose proof (blen_chunk_le' HO data a b) as L2;
    apply (hash_subtree_inj_gen HO HOK) in Eh; [|lia|lia];
    destruct Eh as [Ea Eb]; subst a'; rewrite Eb in Hlen;
    destruct Hdiv as [(D1 & D2 & D3)|(_ & _ & D3)]; [|congruence];
    rewrite (inner_bytes data a b Hab D2), (inner_bytes data' a b' Hab' D1) in Hlen; lia.
  - (* fuel for one chunk only *)
    change (2 ^ N.of_nat 0) with 1 in Hf.
    replace (b' - a' <=? 1) with true by (symmetry; apply N.leb_le; lia). exact LEAF.
  - destruct (b' - a' <=? 1) eqn:E1; [exact LEAF|].
    destruct (forallb Sel (chunk_range_list a' b') && (next_pow2 (b' - a') <=? 2 ^ bs)); [exact LEAF|].
    clear LEAF. apply N.leb_gt in E1.
    pose proof (half_bounds (b' - a') (N.of_nat f) ltac:(lia) ltac:(rewrite <- of_nat_S; exact Hf)) as (G1 & G2 & G3 & G4 & G5).
    cbv zeta in G1, G2, G3, G4, G5.
    set (h' := next_pow2 (b' - a') / 2) in *.
    set (TL := st_rec HO (S f) data' bs Sel a' (a' + h') false) in *.
    set (TR := st_rec HO (S f) data' bs Sel (a' + h') b' false) in *.
    cbn [plan_of]. rewrite <- app_comm_cons. rewrite dec_items_cons.
    destruct (step (CParent (a' + h' - 1) ir (negb (is_skip HO TL)) (negb (is_skip HO TR)) []) (h :: stk) enc)
      as [[[i|e|] stk'] enc1] eqn:Es; [|apply all_wrong_stop; discriminate|apply all_wrong_stop; discriminate].
    apply Hok in Es. destruct Es as (l & r & stk0 & E & Ll & Lr & -> & ->).
    injection E as Eh <-. rewrite Hh in Eh. symmetry in Eh.
    destruct (parent_eq_cv HO HOK data a b flag l r ir ltac:(lia) Ll Lr Eh) as (H2 & El & Er).
    pose proof (half_bounds (b - a) 62 H2 ltac:(lia)) as (F1 & F2 & F3 & _). cbv zeta in F1, F2, F3.
    set (hh := next_pow2 (b - a) / 2) in *.
    pose proof (sp_left _ _ _ _ _ _ Hsp ltac:(lia) H2) as SL. fold h' hh in SL.
    pose proof (sp_right _ _ _ _ _ _ Hsp ltac:(lia) H2) as SR. fold h' hh in SR.
    (* the split points differ *)
    assert (Hmid : a' + h' <> a + hh).
    { intro Em. destruct (mid_inj _ _ _ _ _ _ Hal' Hal ltac:(lia) H2 Em) as [Ea Ehh]. fold h' hh in Ehh.
      destruct Hdiv as [(D1 & D2 & D3)|(_ & _ & D3)]; [|congruence].
      pose proof (inner_full _ _ _ Hal' D1 ltac:(lia)) as I1. pose proof (inner_full _ _ _ Hal D2 H2) as I2.
      fold h' in I1. fold hh in I2. lia. }
    (* both children are diverged *)
    assert (DL : diverged a' (a' + h') a (a + hh)).
    { left. split; [lia|]. split; [lia|].
      destruct Hdiv as [(D1 & D2 & D3)|(_ & _ & D3)]; [|left; exact D3].
      pose proof (inner_full _ _ _ Hal' D1 ltac:(lia)) as I1. pose proof (inner_full _ _ _ Hal D2 H2) as I2.
      fold h' in I1. fold hh in I2. lia. }
    assert (DR : diverged (a' + h') b' (a + hh) b).
    { destruct Hdiv as [(D1 & D2 & D3)|(D1 & D2 & D3)].
      - left. split; [exact D1|]. split; [exact D2|]. left. exact Hmid.
      - right. split; [exact D1|]. split; [exact D2|]. exact Hmid. }
    apply all_wrong_cons.
    { exists a', b', a, b. fold h' hh. repeat split; try assumption; lia. }
    rewrite <- app_assoc.
    destruct (is_skip HO TL) eqn:KL; cbn [negb app].
    + destruct (is_skip HO TR) eqn:KR; cbn [negb app].
      * exfalso. exact (kids_not_both_skip f a' b' (a' + h') false false ltac:(lia) ltac:(lia) Hex KL KR).
      * rewrite (skip_plan _ _ KL). cbn [app]. unfold TR.
        apply (IH (a' + h') b' false rest stk enc1 r (a + hh) b false ltac:(lia) KR SR DR Er).
    + unfold TL at 1.
      apply (IH a' (a' + h') false _ _ enc1 l a (a + hh) false ltac:(lia) KL SL DL El).
Qed.

(* ---------- agreeing nodes ---------- *)
Lemma agree_rec : forall f a' b' ir rest stk,
  (forall enc', shape (dec_items HO step rest stk enc')) ->
  b' - a' <= 2 ^ N.of_nat f ->
  is_skip HO (st_rec HO (S f) data' bs Sel a' b' ir) = false ->
  forall enc h a b flag, same_path NT' NT a' b' a b -> agree a' b' a b -> h = cv HO data a b flag ->
  shape (dec_items HO step (plan_of HO (st_rec HO (S f) data' bs Sel a' b' ir) ++ rest) (h :: stk) enc).
Proof.
  assert (P53 : 2 ^ 53 <= 2 ^ 63) by (apply pow2_le_mono; lia).
  assert (P54 : 2 ^ 53 < 2 ^ 54) by (apply N.pow_lt_mono_r; lia).
  pose proof NT_le as HNT.
  induction f as [|f IH]; intros a' b' ir rest stk Hrest Hf Hskip enc h a b flag Hsp Hag Hh;
  destruct (same_path_aligned _ _ _ _ _ _ NT'_ge1 NT_ge1 Hsp) as [Hal' Hal];
  pose proof Hal as (Hab & HbN & _); pose proof Hal' as (Hab' & HbN' & _);
  pose proof Hskip as Hex; rewrite st_is_skip in Hex; apply Bool.negb_false_iff in Hex;
  rewrite st_rec_unfold in Hskip |- *; rewrite Hex in Hskip |- *; cbn [negb] in Hskip |- *.
  all: assert (LEAF : shape
            (dec_items HO step (plan_of HO (PLeaf a' ir (chunk_bytes HO data' a' b')) ++ rest) (h :: stk) enc)).
  1,3: cbn [plan_of app]; rewrite dec_items_cons;
    destruct (step (CLeaf a' (blen HO (chunk_bytes HO data' a' b')) ir []) (h :: stk) enc)
      as [[[i|e|] stk'] enc1] eqn:Es; [|apply shape_stop|apply shape_stop];
    apply Hok in Es; destruct Es as (buf & stk0 & E & Hlen & -> & ->);
    injection E as Eh <-; apply shape_cons_right; [|apply Hrest];
    rewrite Hh in Eh; rewrite <- (hash_subtree_cv HO data a b flag Hab HbN) in Eh; symmetry in Eh;
    pose proof (blen_chunk_le' HO data' a' b') as L1; pose proof (blen_chunk_le' HO data a b) as L2;
    apply (hash_subtree_inj_gen HO HOK) in Eh; [|lia|lia];
    destruct Eh as [-> ->];
    exists b', a, b; (split; [exact Hsp|]); (split; [apply to_bytes_small; lia|]); (split; [reflexivity|]);
    rewrite Hlen; apply blen_chunk_bytes.
  - change (2 ^ N.of_nat 0) with 1 in Hf.
    replace (b' - a' <=? 1) with true by (symmetry; apply N.leb_le; lia). exact LEAF.
  - destruct (b' - a' <=? 1) eqn:E1; [exact LEAF|].
    destruct (forallb Sel (chunk_range_list a' b') && (next_pow2 (b' - a') <=? 2 ^ bs)); [exact LEAF|].
    clear LEAF. apply N.leb_gt in E1.
    pose proof (half_bounds (b' - a') (N.of_nat f) ltac:(lia) ltac:(rewrite <- of_nat_S; exact Hf)) as (G1 & G2 & G3 & G4 & G5).
    cbv zeta in G1, G2, G3, G4, G5.
    set (h' := next_pow2 (b' - a') / 2) in *.
    set (TL := st_rec HO (S f) data' bs Sel a' (a' + h') false) in *.
    set (TR := st_rec HO (S f) data' bs Sel (a' + h') b' false) in *.
    cbn [plan_of]. rewrite <- app_comm_cons. rewrite dec_items_cons.
    destruct (step (CParent (a' + h' - 1) ir (negb (is_skip HO TL)) (negb (is_skip HO TR)) []) (h :: stk) enc)
      as [[[i|e|] stk'] enc1] eqn:Es; [|apply shape_stop|apply shape_stop].
    apply Hok in Es. destruct Es as (l & r & stk0 & E & Ll & Lr & -> & ->).
    injection E as Eh <-. rewrite Hh in Eh. symmetry in Eh.
    destruct (parent_eq_cv HO HOK data a b flag l r ir ltac:(lia) Ll Lr Eh) as (H2 & El & Er).
    pose proof (half_bounds (b - a) 62 H2 ltac:(lia)) as (F1 & F2 & F3 & _). cbv zeta in F1, F2, F3.
    set (hh := next_pow2 (b - a) / 2) in *.
    pose proof (sp_left _ _ _ _ _ _ Hsp ltac:(lia) H2) as SL. fold h' hh in SL.
    pose proof (sp_right _ _ _ _ _ _ Hsp ltac:(lia) H2) as SR. fold h' hh in SR.
    destruct Hag as [Ea Hend]. subst a'.
    rewrite <- app_assoc.
    destruct (N.eq_dec h' hh) as [Ehh|Nhh].
    + (* same split: the id is right, both children agree *)
      apply shape_cons_right.
      { exists a, b', a, b. fold h' hh. repeat split; try assumption; lia. }
      assert (AL : agree a (a + h') a (a + hh)) by (split; [reflexivity|left; lia]).
      assert (AR : agree (a + h') b' (a + hh) b) by (split; [lia|exact Hend]).
      destruct (is_skip HO TL) eqn:KL; destruct (is_skip HO TR) eqn:KR; cbn [negb app].
      * rewrite (skip_plan _ _ KL), (skip_plan _ _ KR). cbn [app]. apply Hrest.
      * rewrite (skip_plan _ _ KL). cbn [app]. unfold TR.
        apply (IH (a + h') b' false rest stk Hrest ltac:(lia) KR enc1 r (a + hh) b false SR AR Er).
      * rewrite (skip_plan _ _ KR). cbn [app]. unfold TL.
        apply (IH a (a + h') false rest stk Hrest ltac:(lia) KL enc1 l a (a + hh) false SL AL El).
      * assert (CR : forall enc2, shape (dec_items HO step (plan_of HO TR ++ rest) (r :: stk) enc2)).
        { intros enc2. unfold TR.
          apply (IH (a + h') b' false rest stk Hrest ltac:(lia) KR enc2 r (a + hh) b false SR AR Er). }
        unfold TL at 1.
        apply (IH a (a + h') false (plan_of HO TR ++ rest) (r :: stk) CR ltac:(lia) KL enc1 l a (a + hh) false SL AL El).
    + (* the splits differ: we are on the right spine; wrong id, and both children are diverged *)
      assert (Hspine : b' = NT' /\ b = NT).
      { destruct Hend as [Eb|Hs]; [|exact Hs]. exfalso. apply Nhh. unfold h', hh. rewrite Eb. reflexivity. }
      destruct Hspine as [Eb' Eb].
      apply shape_wrong. apply all_wrong_cons.
      { exists a, b', a, b. fold h' hh. repeat split; try assumption; lia. }
      assert (DL : diverged a (a + h') a (a + hh)) by (left; split; [lia|]; split; [lia|]; right; lia).
      assert (DR : diverged (a + h') b' (a + hh) b) by (right; split; [exact Eb'|]; split; [exact Eb|]; lia).
      destruct (is_skip HO TL) eqn:KL; cbn [negb app].
      * destruct (is_skip HO TR) eqn:KR; cbn [negb app].
        -- exfalso. exact (kids_not_both_skip f a b' (a + h') false false ltac:(lia) ltac:(lia) Hex KL KR).
        -- rewrite (skip_plan _ _ KL). cbn [app]. unfold TR.
           apply (div_rec f (a + h') b' false rest stk enc1 r (a + hh) b false ltac:(lia) KR SR DR Er).
      * unfold TL at 1.
        apply (div_rec f a (a + h') false _ _ enc1 l a (a + hh) false ltac:(lia) KL SL DL El).
Qed.

(* the whole claimed plan tree against the true root value (root value generic) *)
Lemma shape_top : forall root enc, root = cv HO data 0 NT true ->
  shape (dec_items HO step (plan_of HO (st_rec HO 64 data' bs Sel 0 NT' true)) [root] enc).
Proof.
  intros root enc Hroot. change 64%nat with (S 63).
  destruct (is_skip HO (st_rec HO (S 63) data' bs Sel 0 NT' true)) eqn:K.
  - rewrite (skip_plan _ _ K). cbn [dec_items]. apply shape_stop.
  - rewrite <- (app_nil_r (plan_of HO _)).
    assert (C0 : forall enc', shape (dec_items HO step [] [] enc')).
    { intros enc'. cbn [dec_items]. apply shape_stop. }
    assert (Hf : NT' - 0 <= 2 ^ N.of_nat 63).
    { change (N.of_nat 63) with 63. unfold NT'. pose proof (nchunks_small _ Hdata').
      assert (2 ^ 53 <= 2 ^ 63) by (apply pow2_le_mono; lia). lia. }
    assert (A0 : agree 0 NT' 0 NT) by (split; [reflexivity|right; split; reflexivity]).
    exact (agree_rec 63 0 NT' true [] [] C0 Hf K enc root 0 NT true (sp_root NT' NT) A0 Hroot).
Qed.

End Shape.
