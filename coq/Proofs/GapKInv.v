(* Gap audit (C01), part 1: a decoder that expects the TRUE root value of `data` but walks the plan of ANY CLAIMED
   geometry (the plan tree of a blob data' of the claimed size) yields, up to its first error, only
     - leaves that carry the bytes of a node [a,b) of the TRUE tree at the true offset a * 1024, and
     - parents that carry the pair of a node [a,b) of the TRUE tree,
   where the true node lies on the SAME PATH from the root as the claimed node the plan item belongs to
   (same_path).  Continuation-passing induction over the recursion of the claimed plan tree (st_rec). *)
From BaoV Require Import Model.Fsm Spec.HashAssm Spec.EncSpec Spec.RangeSpec Spec.PlanSpec Spec.PTree Spec.SpecTree.
From BaoV Require Import Proofs.DecLoop Proofs.DecHash Proofs.DecForest Proofs.DecRanges Proofs.BridgeBase Proofs.BridgeTree Proofs.PlanBase.
From BaoV Require Import Proofs.SizeHash Proofs.SizeDec Proofs.GapPairs.
From Coq Require Import Lia Arith.
Open Scope N_scope.

(* [a',b') in the tree over n' chunks and [a,b) in the tree over n chunks are reached from the two roots by the
   same sequence of left / right descents (both trees split an interval at the largest power of two below its
   length) *)
Inductive same_path (n' n : N) : N -> N -> N -> N -> Prop :=
| sp_root : same_path n' n 0 n' 0 n
| sp_left : forall a' b' a b, same_path n' n a' b' a b -> 2 <= b' - a' -> 2 <= b - a ->
    same_path n' n a' (a' + next_pow2 (b' - a') / 2) a (a + next_pow2 (b - a) / 2)
| sp_right : forall a' b' a b, same_path n' n a' b' a b -> 2 <= b' - a' -> 2 <= b - a ->
    same_path n' n (a' + next_pow2 (b' - a') / 2) b' (a + next_pow2 (b - a) / 2) b.

Lemma same_path_aligned : forall n' n a' b' a b, 1 <= n' -> 1 <= n ->
  same_path n' n a' b' a b -> aligned n' a' b' /\ aligned n a b.
Proof.
  intros n' n a' b' a b H1 H2. induction 1 as [|a' b' a b _ [I1 I2] G1 G2|a' b' a b _ [I1 I2] G1 G2].
  - split; apply aligned_root; assumption.
  - destruct (aligned_children _ _ _ I1 G1) as (A1 & _). destruct (aligned_children _ _ _ I2 G2) as (A2 & _).
    split; assumption.
  - destruct (aligned_children _ _ _ I1 G1) as (_ & A1 & _). destruct (aligned_children _ _ _ I2 G2) as (_ & A2 & _).
    split; assumption.
Qed.

(* with the same number of chunks the two nodes coincide *)
Lemma same_path_same : forall n a' b' a b, same_path n n a' b' a b -> a' = a /\ b' = b.
Proof.
  intros n a' b' a b. induction 1 as [|a' b' a b _ [-> ->] G1 G2|a' b' a b _ [-> ->] G1 G2]; split; reflexivity.
Qed.

Lemma same_path_refl_gen : forall n' n a' b' a b, same_path n' n a' b' a b -> same_path n n a b a b.
Proof.
  intros n' n a' b' a b. induction 1 as [|a' b' a b _ I G1 G2|a' b' a b _ I G1 G2].
  - constructor.
  - apply sp_left; assumption.
  - apply sp_right; assumption.
Qed.

Section Inv.
Variable HO : hops.
Notation bytes := (bytes HO).
Notation hash := (hash HO).
Notation item := (item HO).
Hypothesis HOK : hash_ok HO.

(* an accepted step compares the expected value and yields exactly what it read *)
Definition step_ok2 (step : stepT HO) : Prop :=
  forall c stk enc i stk' enc', step c stk enc = (Ok i, stk', enc') ->
    match c with
    | CParent node ir lf rt _ =>
        exists l r stk0, stk = parent_cv HO l r ir :: stk0 /\ length l = 32%nat /\ length r = 32%nat /\
          stk' = (if lf then [l] else []) ++ (if rt then [r] else []) ++ stk0 /\ i = IParent node l r
    | CLeaf s size ir _ =>
        exists buf stk0, stk = hash_subtree HO s buf ir :: stk0 /\ blen HO buf = size /\ stk' = stk0 /\
          i = ILeaf (to_bytes s) buf
    end.

Lemma step_sync_ok2 : step_ok2 (step_sync HO).
Proof.
  intros c stk enc i stk' enc'. destruct c as [node ir lf rt rs|s size ir rs]; unfold step_sync.
  - destruct (blen HO enc <? 64) eqn:Hs; [discriminate|].
    destruct (pair_read HO enc Hs) as [P1 [P2 _]].
    destruct (parse_pair HO (take HO 64 enc)) as [l r]. cbn [fst snd] in P1, P2.
    destruct stk as [|ph stk0]; [discriminate|].
    destruct (bytes_eqb HO ph (parent_cv HO l r ir)) eqn:E; cbn [negb]; [|discriminate].
    apply (bytes_eqb_eq HO HOK) in E. intros H. injection H as <- <- _.
    exists l, r, stk0. subst ph. destruct lf, rt; auto 6.
  - destruct (blen HO enc <? size) eqn:Hs; [discriminate|]. cbv zeta.
    destruct stk as [|lh stk0]; [discriminate|].
    destruct (bytes_eqb HO lh (hash_subtree HO s (take HO size enc) ir)) eqn:E; cbn [negb]; [|discriminate].
    apply (bytes_eqb_eq HO HOK) in E. intros H. injection H as <- <- _.
    exists (take HO size enc), stk0. subst lh. repeat split.
    rewrite blen_take. apply N.ltb_ge in Hs. lia.
Qed.

Lemma step_fsm_ok2 : step_ok2 (step_fsm HO).
Proof.
  intros c stk enc i stk' enc'. destruct c as [node ir lf rt rs|s size ir rs]; unfold step_fsm.
  - destruct (blen HO enc <? 64) eqn:Hs; [discriminate|].
    destruct (pair_read HO enc Hs) as [P1 [P2 _]].
    destruct (parse_pair HO (take HO 64 enc)) as [l r]. cbn [fst snd] in P1, P2.
    destruct stk as [|ph stk0]; [discriminate|]. cbv zeta.
    destruct (bytes_eqb HO ph (parent_cv HO l r ir)) eqn:E; cbn [negb]; [|discriminate].
    apply (bytes_eqb_eq HO HOK) in E. intros H. injection H as <- <- _.
    exists l, r, stk0. subst ph. destruct lf, rt; auto 6.
  - destruct (blen HO enc <? size) eqn:Hs; [discriminate|]. cbv zeta.
    destruct stk as [|lh stk0]; [discriminate|].
    destruct (bytes_eqb HO lh (hash_subtree HO s (take HO size enc) ir)) eqn:E; cbn [negb]; [|discriminate].
    apply (bytes_eqb_eq HO HOK) in E. intros H. injection H as <- <- _.
    exists (take HO size enc), stk0. subst lh. repeat split.
    rewrite blen_take. apply N.ltb_ge in Hs. lia.
Qed.

Lemma st_rec_unfold f (d0 : bytes) bs (S0 : N -> bool) a b ir :
  st_rec HO (S f) d0 bs S0 a b ir =
  if negb (existsb S0 (chunk_range_list a b)) then PSkip
  else if b - a <=? 1 then PLeaf a ir (chunk_bytes HO d0 a b)
  else if forallb S0 (chunk_range_list a b) && (next_pow2 (b - a) <=? 2 ^ bs) then PLeaf a ir (chunk_bytes HO d0 a b)
  else PNode (a + next_pow2 (b - a) / 2 - 1) ir
             (cv HO d0 a (a + next_pow2 (b - a) / 2) false) (cv HO d0 (a + next_pow2 (b - a) / 2) b false)
             (st_rec HO f d0 bs S0 a (a + next_pow2 (b - a) / 2) false)
             (st_rec HO f d0 bs S0 (a + next_pow2 (b - a) / 2) b false).
Proof. reflexivity. Qed.

Lemma skip_plan : forall T : ptree HO, is_skip HO T = true -> plan_of HO T = [].
Proof. intros [| |]; cbn; intros; (reflexivity || discriminate). Qed.

Lemma dec_items_cons : forall step c plan stk enc,
  dec_items HO step (c :: plan) stk enc =
  match step c stk enc with
  | (Ok i, stk', enc') => cons_item HO i (dec_items HO step plan stk' enc')
  | (Err e, stk', enc') => ([], Failed e, stk', enc')
  | (Panic, stk', enc') => ([], Panicked, stk', enc')
  end.
Proof. reflexivity. Qed.

Variable step : stepT HO.
Hypothesis Hok : step_ok2 step.

Variable data : bytes.          (* the true blob *)
Variable data' : bytes.         (* any blob of the CLAIMED size: only its length matters (geometry of the plan) *)
Variable bs : N.
Variable Sel : N -> bool.
Hypothesis Hdata : blen HO data <= 2 ^ 63.
Hypothesis Hdata' : blen HO data' <= 2 ^ 63.

Let NT := nchunks (blen HO data).
Let NT' := nchunks (blen HO data').

Definition good_item (i : item) : Prop :=
  match i with
  | ILeaf off d =>
      exists b' a b, same_path NT' NT a b' a b /\ off = a * 1024 /\ d = chunk_bytes HO data a b /\
                     blen HO d = N.min ((b' - a) * 1024) (blen HO data' - a * 1024)
  | IParent nd l r =>
      exists a' b' a b, same_path NT' NT a' b' a b /\ 2 <= b' - a' /\ 2 <= b - a /\
        nd = a' + next_pow2 (b' - a') / 2 - 1 /\
        l = cv HO data a (a + next_pow2 (b - a) / 2) false /\
        r = cv HO data (a + next_pow2 (b - a) / 2) b false
  end.

Lemma NT_ge1 : 1 <= NT. Proof. unfold NT. pose proof (nchunks_bounds (blen HO data)). lia. Qed.
Lemma NT'_ge1 : 1 <= NT'. Proof. unfold NT'. pose proof (nchunks_bounds (blen HO data')). lia. Qed.
Lemma NT_le : NT <= 2 ^ 53. Proof. unfold NT. apply nchunks_small. exact Hdata. Qed.

Lemma blen_chunk_le : forall (d0 : bytes) a b, blen HO (chunk_bytes HO d0 a b) <= blen HO d0.
Proof. intros d0 a b. rewrite blen_chunk_bytes. lia. Qed.

Lemma inv_rec : forall f a' b' ir rest stk,
  (forall enc', Forall good_item (r_items HO (dec_items HO step rest stk enc'))) ->
  is_skip HO (st_rec HO f data' bs Sel a' b' ir) = false ->
  forall enc h a b flag, same_path NT' NT a' b' a b -> h = cv HO data a b flag ->
  Forall good_item
    (r_items HO (dec_items HO step (plan_of HO (st_rec HO f data' bs Sel a' b' ir) ++ rest) (h :: stk) enc)).
Proof.
  assert (P53 : 2 ^ 53 <= 2 ^ 63) by (apply pow2_le_mono; lia).
  assert (P54 : 2 ^ 53 < 2 ^ 54) by (apply N.pow_lt_mono_r; lia).
  pose proof NT_le as HNT.
  induction f as [|f IH]; intros a' b' ir rest stk Hrest Hskip enc h a b flag Hsp Hh.
  { cbn in Hskip. discriminate. }
  destruct (same_path_aligned _ _ _ _ _ _ NT'_ge1 NT_ge1 Hsp) as [_ Hal].
  destruct Hal as (Hab & HbN & _).
  rewrite st_rec_unfold in Hskip |- *.
  destruct (negb (existsb Sel (chunk_range_list a' b'))); [cbn in Hskip; discriminate|].
  assert (LEAF : Forall good_item
            (r_items HO (dec_items HO step (plan_of HO (PLeaf a' ir (chunk_bytes HO data' a' b')) ++ rest) (h :: stk) enc))).
  { cbn [plan_of app]. rewrite dec_items_cons.
    destruct (step (CLeaf a' (blen HO (chunk_bytes HO data' a' b')) ir []) (h :: stk) enc)
      as [[[i|e|] stk'] enc1] eqn:Es; [|constructor|constructor].
    apply Hok in Es. destruct Es as (buf & stk0 & E & Hlen & -> & ->).
    rewrite r_items_cons. injection E as Eh <-.
    constructor; [|apply Hrest].
    rewrite Hh in Eh. rewrite <- (hash_subtree_cv HO data a b flag Hab HbN) in Eh. symmetry in Eh.
    pose proof (blen_chunk_le data' a' b') as L1. pose proof (blen_chunk_le data a b) as L2.
    apply (hash_subtree_inj_gen HO HOK) in Eh; [|lia|lia].
    destruct Eh as [-> ->].
    exists b', a, b. split; [exact Hsp|]. split; [apply to_bytes_small; lia|]. split; [reflexivity|].
    rewrite Hlen. apply blen_chunk_bytes. }
  destruct (b' - a' <=? 1) eqn:E1; [exact LEAF|].
  destruct (forallb Sel (chunk_range_list a' b') && (next_pow2 (b' - a') <=? 2 ^ bs)); [exact LEAF|].
  clear LEAF. apply N.leb_gt in E1.
  set (h' := next_pow2 (b' - a') / 2) in *.
  set (TL := st_rec HO f data' bs Sel a' (a' + h') false) in *.
  set (TR := st_rec HO f data' bs Sel (a' + h') b' false) in *.
  cbn [plan_of]. rewrite <- app_comm_cons. rewrite dec_items_cons.
  destruct (step (CParent (a' + h' - 1) ir (negb (is_skip HO TL)) (negb (is_skip HO TR)) []) (h :: stk) enc)
    as [[[i|e|] stk'] enc1] eqn:Es; [|constructor|constructor].
  apply Hok in Es. destruct Es as (l & r & stk0 & E & Ll & Lr & -> & ->).
  injection E as Eh <-. rewrite Hh in Eh. symmetry in Eh.
  destruct (parent_eq_cv HO HOK data a b flag l r ir ltac:(lia) Ll Lr Eh) as (H2 & El & Er).
  set (hh := next_pow2 (b - a) / 2) in *.
  pose proof (sp_left _ _ _ _ _ _ Hsp ltac:(lia) H2) as SL. fold h' hh in SL.
  pose proof (sp_right _ _ _ _ _ _ Hsp ltac:(lia) H2) as SR. fold h' hh in SR.
  rewrite r_items_cons. constructor.
  { exists a', b', a, b. fold h' hh. repeat split; try assumption; lia. }
  rewrite <- app_assoc.
  destruct (is_skip HO TL) eqn:KL; destruct (is_skip HO TR) eqn:KR; cbn [negb app].
  - rewrite (skip_plan _ KL), (skip_plan _ KR). cbn [app]. apply Hrest.
  - rewrite (skip_plan _ KL). cbn [app]. unfold TR.
    apply (IH (a' + h') b' false rest stk Hrest KR enc1 r (a + hh) b false SR Er).
  - rewrite (skip_plan _ KR). cbn [app]. unfold TL.
    apply (IH a' (a' + h') false rest stk Hrest KL enc1 l a (a + hh) false SL El).
  - unfold TL at 1.
    assert (CR : forall enc2, Forall good_item
              (r_items HO (dec_items HO step (plan_of HO TR ++ rest) (r :: stk) enc2))).
    { intros enc2. unfold TR.
      apply (IH (a' + h') b' false rest stk Hrest KR enc2 r (a + hh) b false SR Er). }
    apply (IH a' (a' + h') false (plan_of HO TR ++ rest) (r :: stk) CR KL enc1 l a (a + hh) false SL El).
Qed.

(* the whole claimed plan tree against the true root value (fuel and root value generic: never compute them) *)
Lemma inv_top : forall f root enc, root = cv HO data 0 NT true ->
  Forall good_item (r_items HO (dec_items HO step (plan_of HO (st_rec HO f data' bs Sel 0 NT' true)) [root] enc)).
Proof.
  intros f root enc Hroot.
  destruct (is_skip HO (st_rec HO f data' bs Sel 0 NT' true)) eqn:K.
  - rewrite (skip_plan _ K). cbn. constructor.
  - rewrite <- (app_nil_r (plan_of HO _)).
    assert (C0 : forall enc', Forall good_item (r_items HO (dec_items HO step [] [] enc'))).
    { intros enc'. cbn. constructor. }
    exact (inv_rec f 0 NT' true [] [] C0 K enc root 0 NT true (sp_root NT' NT) Hroot).
Qed.

End Inv.
