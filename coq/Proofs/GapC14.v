(* Gap audit C14: queries that select the same chunks are interchangeable -
   for the decoders on EVERY stream (dec_run, rd_run, decode_ranges sync / fsm), for the encoders on
   every store (non-validating: any store; validating: any store with an honest root), for the
   validators on every store, and the cross decoding of decode_ranges. *)
From BaoV Require Import Model.Fsm Spec.RangeSpec Spec.PlanSpec Spec.EncSpec Spec.HashAssm Spec.PTree Spec.SpecTree.
From BaoV Require Import Proofs.RangeBase Proofs.RangeTrunc Proofs.RangeProofs.
From BaoV Require Proofs.BridgeBase Proofs.BridgeTree Proofs.BridgePlan Proofs.PlanProps.
From BaoV Require Import Proofs.DecLoop Proofs.DecRanges Proofs.DecTheorems.
From BaoV Require Import Proofs.E2EGlue Proofs.E2EDecode Proofs.E2ERanges Proofs.E2EMisc.
From BaoV Require Proofs.DecWitness.
From Coq Require Import Lia Arith.
Open Scope N_scope.

(* ------------------------------------------------------------------------------------------- *)
(* 1. the decoder's plan is a function of the selection                                          *)
(* ------------------------------------------------------------------------------------------- *)
(* a trivial hashing instance: only used to have blobs of every size at hand *)
Definition unit_hops : hops := mkHops unit (fun _ _ => true) tt (fun _ _ _ => []) (fun _ _ _ => []).
Definition unit_blob (size : N) : bytes unit_hops := repeat tt (N.to_nat size).
Lemma unit_blob_len size : blen unit_hops (unit_blob size) = size.
Proof. unfold blen, unit_blob. rewrite repeat_length. apply N2Nat.id. Qed.

Lemma response_plan_of_selection : forall size bs q1 q2,
  size <= 2 ^ 63 -> wf_ranges q1 = true -> wf_ranges q2 = true ->
  (forall c, sel q1 size c = sel q2 size c) ->
  pre_plan size 0 bs (truncate_ranges q1 size) = pre_plan size 0 bs (truncate_ranges q2 size).
Proof.
  intros size bs q1 q2 Hs W1 W2 Hsel.
  pose proof (unit_blob_len size) as Hl.
  assert (Hs' : blen unit_hops (unit_blob size) <= 2 ^ 63) by (rewrite Hl; exact Hs).
  pose proof (BridgePlan.bridge_plan unit_hops (unit_blob size) bs q1 W1 Hs') as P1.
  pose proof (BridgePlan.bridge_plan unit_hops (unit_blob size) bs q2 W2 Hs') as P2.
  assert (E : spec_tree unit_hops (unit_blob size) bs q1 = spec_tree unit_hops (unit_blob size) bs q2).
  { apply BridgePlan.bridge_tree_function_of_selection. rewrite Hl. exact Hsel. }
  rewrite E in P1. rewrite P1 in P2. rewrite Hl in P2. exact P2.
Qed.

Lemma response_iter_unfold t r : response_iter t r = run_iter response_next (response_new t r).
Proof. reflexivity. Qed.

Theorem response_iter_of_selection : forall size bs q1 q2,
  size <= 2 ^ 63 -> bs <= 10 -> wf_ranges q1 = true -> wf_ranges q2 = true ->
  (forall c, sel q1 size c = sel q2 size c) ->
  response_iter (mkTree size bs) (truncate_ranges q1 size) = response_iter (mkTree size bs) (truncate_ranges q2 size).
Proof.
  intros size bs q1 q2 Hs Hb W1 W2 Hsel.
  rewrite (PlanProps.c15_response_plan size bs _ Hs Hb (truncate_wf q1 size W1)).
  rewrite (PlanProps.c15_response_plan size bs _ Hs Hb (truncate_wf q2 size W2)).
  now apply response_plan_of_selection.
Qed.

(* ------------------------------------------------------------------------------------------- *)
(* 2. the decoders are functions of the selection, on every stream and for every root            *)
(* ------------------------------------------------------------------------------------------- *)
Section DecSel.
Variable HO : hops.
Variables (size bs : N) (q1 q2 : ranges).
Hypothesis Hsize : size <= 2 ^ 63.
Hypothesis Hbs : bs <= 10.
Hypothesis W1 : wf_ranges q1 = true.
Hypothesis W2 : wf_ranges q2 = true.
Hypothesis Hsel : forall c, sel q1 size c = sel q2 size c.
Let t := mkTree size bs.

Lemma run_iter_sel :
  run_iter response_next (response_new t (truncate_ranges q1 size)) =
  run_iter response_next (response_new t (truncate_ranges q2 size)).
Proof. rewrite <- !response_iter_unfold. now apply response_iter_of_selection. Qed.

Theorem dec_run_of_selection : forall (root : hash HO) (stream : bytes HO),
  fst (dec_run HO (dec_new HO root t stream q1)) = fst (dec_run HO (dec_new HO root t stream q2)) /\
  d_stack HO (snd (dec_run HO (dec_new HO root t stream q1))) = d_stack HO (snd (dec_run HO (dec_new HO root t stream q2))) /\
  d_enc HO (snd (dec_run HO (dec_new HO root t stream q1))) = d_enc HO (snd (dec_run HO (dec_new HO root t stream q2))).
Proof.
  intros root stream. unfold dec_new. change (tsize t) with size.
  destruct (response_ends_within_ex size bs _ Hsize Hbs (truncate_wf q1 size W1)) as (n1 & E1 & B1).
  destruct (response_ends_within_ex size bs _ Hsize Hbs (truncate_wf q2 size W2)) as (n2 & E2 & B2).
  fold t in E1, E2.
  rewrite (dec_run_refines HO n1 _ _ _ E1 B1), (dec_run_refines HO n2 _ _ _ E2 B2).
  rewrite run_iter_sel. cbn [fst snd d_stack d_enc]. auto.
Qed.

Theorem rd_run_of_selection : forall (root : hash HO) (stream : bytes HO),
  fst (rd_run HO (rd_new HO root q1 t stream)) = fst (rd_run HO (rd_new HO root q2 t stream)) /\
  Fsm.r_stack HO (snd (rd_run HO (rd_new HO root q1 t stream))) = Fsm.r_stack HO (snd (rd_run HO (rd_new HO root q2 t stream))) /\
  Fsm.r_enc HO (snd (rd_run HO (rd_new HO root q1 t stream))) = Fsm.r_enc HO (snd (rd_run HO (rd_new HO root q2 t stream))).
Proof.
  intros root stream. unfold rd_new. rewrite !truncate_owned_eq. change (tsize t) with size.
  destruct (response_ends_within_ex size bs _ Hsize Hbs (truncate_wf q1 size W1)) as (n1 & E1 & B1).
  destruct (response_ends_within_ex size bs _ Hsize Hbs (truncate_wf q2 size W2)) as (n2 & E2 & B2).
  fold t in E1, E2.
  rewrite (rd_run_refines HO n1 _ _ _ _ E1 B1), (rd_run_refines HO n2 _ _ _ _ E2 B2).
  rewrite run_iter_sel. cbn [fst snd Fsm.r_stack Fsm.r_enc]. auto.
Qed.

(* decode_ranges: same result, same target file, same outboard - whatever the stream and the store *)
Theorem decode_ranges_of_selection : forall (stream target : bytes HO) (ob : outboard HO),
  ob_tree ob = t ->
  fst (decode_ranges HO stream q1 target ob) = fst (decode_ranges HO stream q2 target ob) /\
  fst (decode_ranges_fsm HO stream q1 target ob) = fst (decode_ranges_fsm HO stream q2 target ob).
Proof.
  intros stream target ob Ht.
  destruct (response_ends_within_ex size bs _ Hsize Hbs (truncate_wf q1 size W1)) as (n1 & E1 & B1).
  destruct (response_ends_within_ex size bs _ Hsize Hbs (truncate_wf q2 size W2)) as (n2 & E2 & B2).
  fold t in E1, E2. apply loop_bound_of_N in B1. apply loop_bound_of_N in B2.
  split.
  - pose proof (decode_ranges_items HO n1 stream q1 target ob) as D1.
    pose proof (decode_ranges_items HO n2 stream q2 target ob) as D2.
    cbv zeta in D1, D2. rewrite Ht in D1, D2. change (tsize t) with size in D1, D2.
    destruct (D1 E1 B1) as (s1 & ->). destruct (D2 E2 B2) as (s2 & ->).
    rewrite run_iter_sel. reflexivity.
  - pose proof (decode_ranges_fsm_items HO n1 stream q1 target ob) as D1.
    pose proof (decode_ranges_fsm_items HO n2 stream q2 target ob) as D2.
    cbv zeta in D1, D2. rewrite !truncate_owned_eq, Ht in D1, D2. change (tsize t) with size in D1, D2.
    destruct (D1 E1 B1) as (s1 & ->). destruct (D2 E2 B2) as (s2 & ->).
    rewrite run_iter_sel. reflexivity.
Qed.
End DecSel.

(* ------------------------------------------------------------------------------------------- *)
(* 3. cross decoding with decode_ranges (sync and fsm): the honest encoding made for q1 is applied in
      full by decode_ranges called with q2                                                        *)
(* ------------------------------------------------------------------------------------------- *)
Section CrossRanges.
Variable HO : hops.
Hypothesis HOK : hash_ok HO.
Variable data : bytes HO.
Variables (bs : N) (q1 q2 : ranges).
Hypothesis Hsize : blen HO data <= 2 ^ 63.
Hypothesis Hbs : bs <= 10.
Hypothesis Hwf2 : wf_ranges q2 = true.
Hypothesis Hne2 : q2 <> [].
Hypothesis Hsel : forall c, sel q1 (blen HO data) c = sel q2 (blen HO data) c.

Theorem cross_decode_ranges : forall (rest target : bytes HO) (sink : outboard HO),
  ob_root sink = root_hash HO data -> ob_tree sink = mkTree (blen HO data) bs ->
  let a := apply_items HO (honest HO data bs q1) target sink in
  (exists st', decode_ranges HO (flat HO (honest HO data bs q1) ++ rest) q2 target sink =
               (ranges_result (a_res HO a) Finished, a_target HO a, a_ob HO a, st')) /\
  (exists st', decode_ranges_fsm HO (flat HO (honest HO data bs q1) ++ rest) q2 target sink =
               (ranges_result (a_res HO a) Finished, a_target HO a, a_ob HO a, st')).
Proof.
  intros rest target sink Rs Ts.
  rewrite (BridgePlan.bridge_function_of_selection HO data bs q1 q2 Hsel).
  exact (e2e_decode_ranges_roundtrip HO HOK data bs q2 Hsize Hbs Hwf2 Hne2 rest target sink Rs Ts).
Qed.
End CrossRanges.

(* ------------------------------------------------------------------------------------------- *)
(* 4. provider and requester need not agree on the representation: what a provider encodes for q1
      from a store that serves the blob's pairs is applied in full by a requester that asked with q2 *)
(* ------------------------------------------------------------------------------------------- *)
From BaoV Require Import Proofs.EncThm.

Theorem provider_requester : forall (HO : hops), hash_ok HO ->
  forall (data : bytes HO) (bs : N) (q1 q2 : ranges) (ob : outboard HO),
  blen HO data <= 2 ^ 63 -> bs <= 10 -> wf_ranges q1 = true -> wf_ranges q2 = true -> q2 <> [] ->
  (forall c, sel q1 (blen HO data) c = sel q2 (blen HO data) c) ->
  ob_tree ob = mkTree (blen HO data) bs -> ob_root ob = root_hash HO data ->
  (forall nd, In nd (enc_nodes (blen HO data) bs q1) -> stored_ok HO data ob nd /\ stored_ok_fsm HO data ob nd) ->
  encode_ranges_validated HO data ob q1 = (Ok tt, flat HO (honest HO data bs q2)) /\
  encode_ranges_validated_fsm HO data ob q1 = (Ok tt, flat HO (honest HO data bs q2)) /\
  forall (rest target : bytes HO) (sink : outboard HO),
    ob_root sink = root_hash HO data -> ob_tree sink = mkTree (blen HO data) bs ->
    let a := apply_items HO (honest HO data bs q2) target sink in
    (exists st', decode_ranges HO (flat HO (honest HO data bs q2) ++ rest) q2 target sink =
                 (ranges_result (a_res HO a) Finished, a_target HO a, a_ob HO a, st')) /\
    (exists st', decode_ranges_fsm HO (flat HO (honest HO data bs q2) ++ rest) q2 target sink =
                 (ranges_result (a_res HO a) Finished, a_target HO a, a_ob HO a, st')).
Proof.
  intros HO HOK data bs q1 q2 ob Hs Hb W1 W2 Hne Hsel Ht Hr Hst.
  pose proof (BridgePlan.bridge_function_of_selection HO data bs q1 q2 Hsel) as E.
  split; [|split].
  - rewrite <- E. apply (c02_sync HO data bs q1 W1 Hs Hb ob Ht Hr (ho_beq HO HOK)). intros nd H. apply (Hst nd H).
  - rewrite <- E. apply (c02_fsm HO data bs q1 W1 Hs Hb ob Ht Hr (ho_beq HO HOK)). intros nd H. apply (Hst nd H).
  - intros rest target sink Rs Ts.
    exact (e2e_decode_ranges_roundtrip HO HOK data bs q2 Hs Hb W2 Hne rest target sink Rs Ts).
Qed.

(* ------------------------------------------------------------------------------------------- *)
(* non-vacuity: two different boundary lists (also after canonicalisation) with the same selection *)
Lemma sel_equiv_witness : forall c, sel [4] 4000 c = sel [3] 4000 c.
Proof.
  intro c. unfold sel. change (nchunks 4000) with 4. change (4 - 1) with 3.
  change (reaches [4] 4) with true. change (reaches [3] 4) with true.
  destruct (c <? 4) eqn:E; [|reflexivity]. apply N.ltb_lt in E. cbn [andb mem].
  destruct (c =? 3) eqn:E3.
  - apply N.eqb_eq in E3. subst c. reflexivity.
  - apply N.eqb_neq in E3.
    assert (E4 : (4 <=? c) = false) by (apply N.leb_gt; lia).
    assert (E5 : (3 <=? c) = false) by (apply N.leb_gt; lia). rewrite E4, E5. reflexivity.
Qed.

Lemma gap_c14_nonvacuous :
  4000 <= 2 ^ 63 /\ wf_ranges [4] = true /\ wf_ranges [3] = true /\ [3] <> @nil N /\
  (forall c, sel [4] 4000 c = sel [3] 4000 c) /\
  truncate_ranges [4] 4000 <> truncate_ranges [3] 4000 /\
  response_iter (mkTree 4000 1) (truncate_ranges [4] 4000) = response_iter (mkTree 4000 1) (truncate_ranges [3] 4000) /\
  (exists HO, hash_ok HO).
Proof.
  split; [vm_compute; discriminate|]. split; [reflexivity|]. split; [reflexivity|]. split; [discriminate|].
  split; [exact sel_equiv_witness|]. split; [vm_compute; discriminate|]. split; [vm_compute; reflexivity|].
  exact DecWitness.hash_ok_inhabited.
Qed.

Print Assumptions response_iter_of_selection.
Print Assumptions dec_run_of_selection.
Print Assumptions rd_run_of_selection.
Print Assumptions decode_ranges_of_selection.
Print Assumptions cross_decode_ranges.
Print Assumptions provider_requester.
Print Assumptions gap_c14_nonvacuous.
