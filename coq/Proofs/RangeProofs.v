(* Umbrella for the range-set proofs; refutation witnesses and corollaries for C14 / C17. *)
From BaoV Require Export Spec.RangeSpec Proofs.RangeBase Proofs.RangeTrunc Proofs.RangeUnion
  Proofs.RangeRound Proofs.RangeFull.
From Coq Require Import Lia Arith PeanoNat ZArith ZifyN ZifyNat ZifyBool.

(* ---- C17: the unguarded statements are false ---- *)
Lemma groups_refuted :
  exists r bs c, wf_ranges r = true /\ bs <= 10 /\ mem r c = true /\
                 mem (round_up_to_chunks_groups r bs) c = false.
Proof.
  exists [5; 18446744073709551615], 4, 5.
  split; [vm_compute; reflexivity|]. split; [discriminate|]. split; vm_compute; reflexivity.
Qed.

Lemma groups_refuted_empty : round_up_to_chunks_groups [5; 18446744073709551615] 4 = [].
Proof. vm_compute. reflexivity. Qed.

Lemma full_refuted :
  exists r bs, wf_ranges r = true /\ bs <= 10 /\
    full_chunk_groups_dev r bs = None /\
    exists res c c', full_chunk_groups_rel r bs = Some res /\ mem res c = true /\
                     c' / 2 ^ bs = c / 2 ^ bs /\ mem r c' = false.
Proof.
  exists [18446744073709551615], 4.
  split; [vm_compute; reflexivity|]. split; [discriminate|]. split; [vm_compute; reflexivity|].
  exists [0], 0, 1. repeat split; vm_compute; reflexivity.
Qed.

Lemma full_refuted_values :
  full_chunk_groups_dev [18446744073709551615] 4 = None /\
  full_chunk_groups_rel [18446744073709551615] 4 = Some [0].
Proof. split; vm_compute; reflexivity. Qed.

(* the guard of C17_full_spec cannot be weakened to <= for the debug build *)
Lemma full_guard_strict :
  full_chunk_groups_dev [18446744073709551600] 4 = None /\
  full_chunk_groups_rel [18446744073709551600] 4 = Some [18446744073709551600].
Proof. split; vm_compute; reflexivity. Qed.

(* ---- C14: canonical form.  The statement "same selection -> truncations agree inside the blob"
   is false at the last chunk (q1 = [4], q2 = [3], size = 4000); it holds below the last chunk. ---- *)
Lemma sel_below q size c : c < nchunks size - 1 -> sel q size c = mem q c.
Proof.
  intro Hc. unfold sel.
  assert (E1 : (c <? nchunks size) = true) by (apply N.ltb_lt; lia).
  assert (E2 : (c =? nchunks size - 1) = false) by (apply N.eqb_neq; lia).
  rewrite E1, E2. cbn [andb]. now rewrite orb_false_r.
Qed.

Lemma truncate_canonical_below q1 q2 size :
  wf_ranges q1 = true -> wf_ranges q2 = true ->
  (forall c, sel q1 size c = sel q2 size c) ->
  forall c, c < nchunks size - 1 -> mem (truncate_ranges q1 size) c = mem (truncate_ranges q2 size) c.
Proof.
  intros W1 W2 H c Hc. rewrite !truncate_mem_below by assumption.
  rewrite <- !(sel_below _ size c Hc). apply H.
Qed.

Lemma truncate_canonical_refuted :
  exists q1 q2 size c, wf_ranges q1 = true /\ wf_ranges q2 = true /\ size <= 2 ^ 63 /\
    (forall c, sel q1 size c = sel q2 size c) /\ c < nchunks size /\
    mem (truncate_ranges q1 size) c <> mem (truncate_ranges q2 size) c.
Proof.
  exists [4], [3], 4000, 3. split; [reflexivity|]. split; [reflexivity|].
  split; [vm_compute; discriminate|]. split; [|split; [vm_compute; reflexivity | vm_compute; discriminate]].
  intro c. unfold sel. change (nchunks 4000) with 4. change (4 - 1) with 3.
  change (reaches [4] 4) with true. change (reaches [3] 4) with true.
  destruct (c <? 4) eqn:E; [|reflexivity]. apply N.ltb_lt in E. cbn [andb mem].
  destruct (c =? 3) eqn:E3.
  - apply N.eqb_eq in E3. subst c. reflexivity.
  - apply N.eqb_neq in E3.
    assert (E4 : (4 <=? c) = false) by (apply N.leb_gt; lia).
    assert (E5 : (3 <=? c) = false) by (apply N.leb_gt; lia). rewrite E4, E5. reflexivity.
Qed.

(* ---- C17 corollaries: monotonicity ---- *)
Lemma round_up_to_chunks_mono br1 br2 :
  wf_ranges br1 = true -> wf_ranges br2 = true ->
  (forall b, mem br1 b = true -> mem br2 b = true) ->
  forall c, mem (round_up_to_chunks br1) c = true -> mem (round_up_to_chunks br2) c = true.
Proof.
  intros W1 W2 H c Hc.
  apply (proj2 (round_up_to_chunks_spec br1 W1)) in Hc. destruct Hc as (b & Hb & Hbc).
  apply (proj2 (round_up_to_chunks_spec br2 W2)). exists b. auto.
Qed.

Lemma round_up_to_chunks_groups_mono r1 r2 bs :
  bs <= 10 -> wf_ranges r1 = true -> wf_ranges r2 = true -> ends_ok r1 bs -> ends_ok r2 bs ->
  (forall c, mem r1 c = true -> mem r2 c = true) ->
  forall c, mem (round_up_to_chunks_groups r1 bs) c = true -> mem (round_up_to_chunks_groups r2 bs) c = true.
Proof.
  intros Hbs W1 W2 G1 G2 H c Hc.
  apply (proj2 (round_up_to_chunks_groups_spec r1 bs Hbs W1 G1)) in Hc. destruct Hc as (b & Hb & Hbc).
  apply (proj2 (round_up_to_chunks_groups_spec r2 bs Hbs W2 G2)). exists b. auto.
Qed.

Lemma full_chunk_groups_mono r1 r2 bs res1 res2 :
  bs <= 10 -> wf_ranges r1 = true -> wf_ranges r2 = true -> starts_ok r1 bs -> starts_ok r2 bs ->
  (forall c, mem r1 c = true -> mem r2 c = true) ->
  full_chunk_groups_dev r1 bs = Some res1 -> full_chunk_groups_dev r2 bs = Some res2 ->
  forall c, mem res1 c = true -> mem res2 c = true.
Proof.
  intros Hbs W1 W2 G1 G2 H E1 E2 c Hc.
  destruct (full_chunk_groups_spec r1 bs Hbs W1 G1) as (x1 & D1 & _ & _ & S1).
  destruct (full_chunk_groups_spec r2 bs Hbs W2 G2) as (x2 & D2 & _ & _ & S2).
  assert (x1 = res1) by congruence. assert (x2 = res2) by congruence. subst.
  apply S2. intros c' Hc'. apply H. apply (proj1 (S1 c) Hc c' Hc').
Qed.

(* ---- C17 corollaries: idempotence (at the level of mem) ---- *)
Lemma multiple_guard bs y k : bs <= 64 -> y < W64 -> y = k * 2 ^ bs -> y <= W64 - 2 ^ bs.
Proof.
  intros Hbs Hy Hk. pose proof (pow2_pos bs) as HD. pose proof (W64_split bs Hbs) as HW.
  set (D := 2 ^ bs) in *. set (M := 2 ^ (64 - bs)) in *.
  assert (HM : (M - 1) * D = W64 - D) by (rewrite N.mul_sub_distr_r; lia).
  rewrite <- HM. subst y. apply N.mul_le_mono_r.
  assert (k < M); [|lia]. rewrite HW in Hy. apply (N.mul_lt_mono_pos_r D); assumption.
Qed.

Lemma in_from_range a b y : In y (r_from_range a b) -> y = a \/ y = b.
Proof. unfold r_from_range. destruct (a <? b); cbn [In]; intuition. Qed.

Lemma groups_out_multiple r bs y :
  bs <= 10 -> wf_ranges r = true -> ends_ok r bs ->
  In y (round_up_to_chunks_groups r bs) -> exists k, y = k * 2 ^ bs.
Proof.
  intros Hbs Hwf Hg Hy. rewrite round_up_to_chunks_groups_fold in Hy.
  apply fold_union_in in Hy. destruct Hy as [[]|([s [e|]] & Hit & Hy)]; cbn [Fg] in Hy.
  - apply in_from_range in Hy. destruct Hy as [-> | ->].
    + rewrite chunk_group_start_eq. eauto.
    + destruct (iter_pos_some _ _ _ Hit) as (i & Ei & _ & Hne).
      assert (He : e <= W64 - 2 ^ bs) by (apply (Hg (S i)); [now rewrite Nat.odd_succ | assumption]).
      rewrite chunk_group_end_w_ok by (assumption || lia). eauto.
  - destruct Hy as [<-|[]]. rewrite chunk_group_start_eq. eauto.
Qed.

Lemma groups_out_guard r bs :
  bs <= 10 -> wf_ranges r = true -> ends_ok r bs -> ends_ok (round_up_to_chunks_groups r bs) bs.
Proof.
  intros Hbs Hwf Hg i e _ Hn. apply nth_error_In in Hn.
  destruct (groups_out_multiple r bs e Hbs Hwf Hg Hn) as [k Hk].
  destruct (round_up_to_chunks_groups_spec r bs Hbs Hwf Hg) as [W _].
  apply wf_iff in W. destruct W as [_ W]. pose proof (allw_in _ _ W Hn).
  change (2 ^ 64) with W64. apply (multiple_guard bs e k); [lia | assumption | assumption].
Qed.

Lemma round_up_to_chunks_groups_idem r bs :
  bs <= 10 -> wf_ranges r = true -> ends_ok r bs ->
  forall c, mem (round_up_to_chunks_groups (round_up_to_chunks_groups r bs) bs) c
            = mem (round_up_to_chunks_groups r bs) c.
Proof.
  intros Hbs Hwf Hg c.
  destruct (round_up_to_chunks_groups_spec r bs Hbs Hwf Hg) as [W S1].
  destruct (round_up_to_chunks_groups_spec _ bs Hbs W (groups_out_guard r bs Hbs Hwf Hg)) as [_ S2].
  apply b2. rewrite S2. split.
  - intros (c' & Hc' & E). apply S1 in Hc'. destruct Hc' as (c'' & Hc'' & E').
    apply S1. exists c''. split; [assumption | congruence].
  - intro H. exists c. auto.
Qed.

(* full_chunk_groups: the guard is NOT inherited by the output in the debug build
   (r = [2^64-20], bs = 4 gives [2^64-16], on which the debug build overflows), so it is assumed. *)
Lemma full_chunk_groups_idem r bs res :
  bs <= 10 -> wf_ranges r = true -> starts_ok r bs ->
  full_chunk_groups_dev r bs = Some res -> starts_ok res bs ->
  exists res', full_chunk_groups_dev res bs = Some res' /\ full_chunk_groups_rel res bs = Some res' /\
               forall c, mem res' c = mem res c.
Proof.
  intros Hbs Hwf Hg E Hg'.
  destruct (full_chunk_groups_spec r bs Hbs Hwf Hg) as (x & D1 & _ & W & S1).
  assert (x = res) by congruence. subst x.
  destruct (full_chunk_groups_spec res bs Hbs W Hg') as (res' & D2 & R2 & _ & S2).
  exists res'. split; [assumption|]. split; [assumption|]. intro c. apply b2. rewrite S2. split.
  - intro H. apply H. reflexivity.
  - intros H c' Hc'. apply S1. intros c'' Hc''. apply (proj1 (S1 c) H). congruence.
Qed.

Lemma full_idem_guard_needed :
  full_chunk_groups_dev [18446744073709551596] 4 = Some [18446744073709551600] /\
  full_chunk_groups_dev [18446744073709551600] 4 = None.
Proof. split; vm_compute; reflexivity. Qed.

(* ---- C14: canonical form on the whole blob, given agreement of the queries on the last chunk ---- *)
Lemma truncate_canonical_last q1 q2 size :
  wf_ranges q1 = true -> wf_ranges q2 = true ->
  (forall c, sel q1 size c = sel q2 size c) ->
  mem q1 (nchunks size - 1) = mem q2 (nchunks size - 1) ->
  forall c, c < nchunks size -> mem (truncate_ranges q1 size) c = mem (truncate_ranges q2 size) c.
Proof.
  intros W1 W2 H Hl c Hc.
  destruct (N.lt_ge_cases c (nchunks size - 1)) as [Hlt|Hge].
  { now apply truncate_canonical_below. }
  assert (c = nchunks size - 1) by lia. subst c.
  rewrite (truncate_mem_last q1 size W1), (truncate_mem_last q2 size W2). rewrite Hl.
  destruct (mem q2 (nchunks size - 1)) eqn:E2; [reflexivity|]. cbn [orb].
  destruct (0 <? nchunks size - 1) eqn:E0; [|reflexivity]. apply N.ltb_lt in E0. cbn [andb].
  assert (Hp : mem q1 (nchunks size - 1 - 1) = mem q2 (nchunks size - 1 - 1)).
  { rewrite <- !(sel_below _ size (nchunks size - 1 - 1)) by lia. apply H. }
  rewrite Hp. f_equal.
  pose proof (H (nchunks size - 1)) as Hs. unfold sel in Hs.
  rewrite Hl, E2, N.eqb_refl in Hs. cbn [orb andb] in Hs.
  assert (E1 : (nchunks size - 1 <? nchunks size) = true) by (apply N.ltb_lt; lia).
  rewrite E1 in Hs. cbn [andb] in Hs.
  replace (nchunks size - 1 + 1) with (nchunks size) by lia. exact Hs.
Qed.

(* foundations are closed too *)
Print Assumptions r_contains_mem.
Print Assumptions r_split_spec.
Print Assumptions split_inner_spec.
Print Assumptions r_union_spec.

(* versions carrying the (unused) domain hypothesis size <= 2^63 of the property statements *)
Lemma truncate_sel_dom q size c :
  wf_ranges q = true -> size <= 2 ^ 63 -> sel (truncate_ranges q size) size c = sel q size c.
Proof. intros H _. now apply truncate_sel. Qed.
Lemma truncate_idem_dom q size :
  wf_ranges q = true -> size <= 2 ^ 63 ->
  truncate_ranges (truncate_ranges q size) size = truncate_ranges q size.
Proof. intros H _. now apply truncate_idem. Qed.
Lemma truncate_canonical_below_dom q1 q2 size :
  wf_ranges q1 = true -> wf_ranges q2 = true -> size <= 2 ^ 63 ->
  (forall c, sel q1 size c = sel q2 size c) ->
  forall c, c < nchunks size - 1 -> mem (truncate_ranges q1 size) c = mem (truncate_ranges q2 size) c.
Proof. intros W1 W2 _. now apply truncate_canonical_below. Qed.
Lemma truncate_canonical_last_dom q1 q2 size :
  wf_ranges q1 = true -> wf_ranges q2 = true -> size <= 2 ^ 63 ->
  (forall c, sel q1 size c = sel q2 size c) ->
  mem q1 (nchunks size - 1) = mem q2 (nchunks size - 1) ->
  forall c, c < nchunks size -> mem (truncate_ranges q1 size) c = mem (truncate_ranges q2 size) c.
Proof. intros W1 W2 _. now apply truncate_canonical_last. Qed.
