(* C06, gap B, part 1: the data validator on a data file of ANY length (in particular shorter than the blob:
   a partially written data file).  validate_rec reads the bytes of a chunk group with read_exact_at; on a
   short file the first visited group whose byte range is not inside the file fails with UnexpectedEof and the
   traversal stops there, having yielded the groups before it.  A file longer than the blob is only read
   inside [0, size): the validator sees [take size d].
     grp_bend size bs ga      end byte of chunk group ga: min ((ga + 1) * 2^bs * 1024) size
     vseq x y                 sequencing of two partial results (an error in x stops)
     leaf_rep_e               what a group reports, with the read check
     val_spec_e               recursive mirror of validate_rec over the Shape with the read check
     vflat f l                the items f x (x in l) in sequence
   Main results: validate_rec_spec_e (the validator computes val_spec_e, any d), val_spec_e_groups (group by
   group, in increasing order). *)
From BaoV Require Import Model.Sync Model.Fsm Spec.PlanSpec Spec.PlanWf Spec.EncSpec Spec.HashAssm.
From BaoV Require Import Proofs.NodeLevel Proofs.NodeBits Proofs.NodeAlgebra
  Proofs.ObBase Proofs.RangeBase Proofs.RangeTrunc Proofs.RangeProofs Proofs.BridgeBase Proofs.BridgeGeom
  Proofs.PlanBase Proofs.PlanQuery Proofs.PlanRs Proofs.PlanNav Proofs.ValSpec Proofs.ValPath.
From Coq Require Import ZArith Lia.
Open Scope N_scope.
Arguments N.add : simpl never.
Arguments N.sub : simpl never.
Arguments N.mul : simpl never.
Arguments N.pow : simpl never.
Arguments N.shiftl : simpl never.
Arguments N.shiftr : simpl never.
Arguments N.land : simpl never.
Arguments N.div : simpl never.
Arguments N.modulo : simpl never.
Arguments N.log2 : simpl never.
Arguments N.min : simpl never.
Arguments N.max : simpl never.
Ltac Zify.zify_post_hook ::= Z.to_euclidean_division_equations.

Definition vres := (list (N * N) * res io_kind unit)%type.

(* x then y: an error (or panic) in x stops *)
Definition vseq (x y : vres) : vres :=
  let '(ys1, r1) := x in
  match r1 with
  | Ok _ => let '(ys2, r2) := y in (ys1 ++ ys2, r2)
  | _ => (ys1, r1)
  end.

Definition vnil : vres := ([], Ok tt).

Lemma vseq_nil_l y : vseq vnil y = y.
Proof. destruct y as [ys r]. reflexivity. Qed.
Lemma vseq_nil_r x : vseq x vnil = x.
Proof. destruct x as [ys [[]|k|]]; cbn; rewrite ?app_nil_r; reflexivity. Qed.
Lemma vseq_assoc x y z : vseq (vseq x y) z = vseq x (vseq y z).
Proof.
  destruct x as [xs [u|k|]]; cbn [vseq]; try reflexivity.
  destruct y as [ys [v|k|]]; cbn [vseq]; try reflexivity.
  destruct z as [zs r]. now rewrite app_assoc.
Qed.
Lemma vseq_ok xs y : vseq (xs, Ok tt) y = (xs ++ fst y, snd y).
Proof. destruct y; reflexivity. Qed.
Lemma vseq_err xs k y : vseq (xs, Err k) y = (xs, Err k).
Proof. reflexivity. Qed.

Definition vflat {A} (f : A -> vres) (l : list A) : vres := fold_right (fun x acc => vseq (f x) acc) vnil l.

Lemma vflat_cons {A} (f : A -> vres) x l : vflat f (x :: l) = vseq (f x) (vflat f l).
Proof. reflexivity. Qed.
Lemma vflat_app {A} (f : A -> vres) l1 l2 : vflat f (l1 ++ l2) = vseq (vflat f l1) (vflat f l2).
Proof.
  induction l1 as [|x l1 IH]; [cbn [app vflat fold_right]; now rewrite vseq_nil_l|].
  cbn [app]. rewrite !vflat_cons, IH, vseq_assoc. reflexivity.
Qed.
Lemma vflat_nil {A} (f : A -> vres) l : (forall x, In x l -> f x = vnil) -> vflat f l = vnil.
Proof.
  induction l as [|x l IH]; intro H; [reflexivity|]. rewrite vflat_cons, (H x) by now left.
  rewrite vseq_nil_l. apply IH. intros y Hy. apply H. now right.
Qed.
Lemma vflat_ext_in {A} (f g : A -> vres) l : (forall x, In x l -> f x = g x) -> vflat f l = vflat g l.
Proof.
  induction l as [|x l IH]; intro H; [reflexivity|]. rewrite !vflat_cons, (H x) by now left.
  f_equal. apply IH. intros y Hy. apply H. now right.
Qed.
Lemma vflat_in {A} (f : A -> vres) l y : In y (fst (vflat f l)) -> exists x, In x l /\ In y (fst (f x)).
Proof.
  induction l as [|x l IH]; [intros []|]. rewrite vflat_cons.
  destruct (f x) as [xs [[]|k|]] eqn:Ef; cbn [vseq].
  - destruct (vflat f l) as [zs r]. cbn [fst] in *. intro H. apply in_app_or in H. destruct H as [H|H].
    + exists x. split; [now left|]. rewrite Ef. exact H.
    + destruct (IH H) as (x' & H1 & H2). exists x'. split; [now right|exact H2].
  - cbn [fst]. intro H. exists x. split; [now left|]. rewrite Ef. exact H.
  - cbn [fst]. intro H. exists x. split; [now left|]. rewrite Ef. exact H.
Qed.

(* items that either stop with an error or report: up to the first stopping item *)
Lemma vflat_find (f : N -> vres) (eb : N -> bool) (it : N -> list (N * N)) (k : io_kind) :
  (forall x, f x = if eb x then ([], Err k) else (it x, Ok tt)) ->
  forall m a,
  vflat f (chunk_range_list a (a + N.of_nat m)) =
  match find eb (chunk_range_list a (a + N.of_nat m)) with
  | None => (flat_map it (chunk_range_list a (a + N.of_nat m)), Ok tt)
  | Some ga => (flat_map it (chunk_range_list a ga), Err k)
  end.
Proof.
  intro Hf. induction m as [|m IH]; intro a.
  - rewrite crl_nil by lia. reflexivity.
  - rewrite (crl_cons a (a + N.of_nat (S m))) by lia. replace (a + N.of_nat (S m)) with (a + 1 + N.of_nat m) by lia.
    rewrite vflat_cons, Hf. cbn [find flat_map].
    destruct (eb a) eqn:Ea.
    + rewrite (crl_nil a a) by lia. reflexivity.
    + rewrite vseq_ok, IH.
      destruct (find eb (chunk_range_list (a + 1) (a + 1 + N.of_nat m))) as [ga|] eqn:Efd; cbn [fst snd].
      * apply find_some in Efd. destruct Efd as [Hin _]. apply crl_in in Hin.
        rewrite (crl_cons a ga) by lia. reflexivity.
      * reflexivity.
Qed.

Section ShortDefs.
Variable HO : hops.
Notation bytes := (bytes HO).
Notation hash := (hash HO).
Notation outboard := (outboard HO).

(* end byte of chunk group ga *)
Definition grp_bend (size bs ga : N) : N := N.min ((ga + 1) * 2 ^ bs * 1024) size.

(* what a group reports, with the read: UnexpectedEof when the group's bytes are not all inside d; otherwise
   as leaf_rep on the first `size` bytes of d *)
Definition leaf_rep_e (wd : bool) (d : bytes) (size bs ga : N) (owed : hash) (is_root : bool) : vres :=
  if wd && negb (grp_bend size bs ga <=? blen HO d) then ([], Err KUnexpectedEof)
  else (leaf_rep HO wd (take HO size d) size bs ga owed is_root, Ok tt).

Fixpoint val_spec_e (fuel : nat) (wd : bool) (ob : outboard) (d : bytes) (size bs : N) (Sel : N -> bool)
         (ga n : N) (owed : hash) (is_root : bool) : vres :=
  match fuel with
  | O => vnil
  | S f =>
    if negb (touchedn Sel size bs ga n) then vnil
    else if n <=? 1 then leaf_rep_e wd d size bs ga owed is_root
    else
      match stored_pair HO ob (unshift bs (sid ga n)) with
      | None => vnil
      | Some (l, r) =>
          if negb (bytes_eqb HO (parent_cv HO l r is_root) owed) then vnil
          else if n <=? 2 then
            vseq (if touchedn Sel size bs ga 1 then leaf_rep_e wd d size bs ga l false else vnil)
                 (if touchedn Sel size bs (ga + 1) 1 then leaf_rep_e wd d size bs (ga + 1) r false else vnil)
          else
            let half := capof n / 2 in
            vseq (val_spec_e f wd ob d size bs Sel ga half l false)
                 (val_spec_e f wd ob d size bs Sel (ga + half) (n - half) r false)
      end
  end.

Lemma val_spec_e_eq f wd ob d size bs Sel ga n owed is_root :
  val_spec_e (S f) wd ob d size bs Sel ga n owed is_root =
    if negb (touchedn Sel size bs ga n) then vnil
    else if n <=? 1 then leaf_rep_e wd d size bs ga owed is_root
    else
      match stored_pair HO ob (unshift bs (sid ga n)) with
      | None => vnil
      | Some (l, r) =>
          if negb (bytes_eqb HO (parent_cv HO l r is_root) owed) then vnil
          else if n <=? 2 then
            vseq (if touchedn Sel size bs ga 1 then leaf_rep_e wd d size bs ga l false else vnil)
                 (if touchedn Sel size bs (ga + 1) 1 then leaf_rep_e wd d size bs (ga + 1) r false else vnil)
          else
            let half := capof n / 2 in
            vseq (val_spec_e f wd ob d size bs Sel ga half l false)
                 (val_spec_e f wd ob d size bs Sel (ga + half) (n - half) r false)
      end.
Proof. reflexivity. Qed.

(* one group: touched and the chain verifies => what the group reports (with the read check) *)
Definition grp_item_e (wd : bool) (ob : outboard) (d : bytes) (size bs : N) (Sel : N -> bool)
           (fuel : nat) (ga0 n : N) (owed : hash) (ir : bool) (ga : N) : vres :=
  if touchedn Sel size bs ga 1 then
    match chain_walk HO ob (grp_path fuel bs ga0 n ga) owed ir with
    | None => vnil
    | Some h => leaf_rep_e wd d size bs ga h false
    end
  else vnil.

Lemma grp_bend_mono size bs ga ga' : ga' <= ga -> grp_bend size bs ga' <= grp_bend size bs ga.
Proof. intro H. unfold grp_bend. pose proof (pow2_pos bs). nia. Qed.

Lemma grp_bend_le size bs ga : grp_bend size bs ga <= size.
Proof. unfold grp_bend. lia. Qed.

End ShortDefs.

(* ------------------------------------------------------------------------------------------- *)
Section ValRecE.
Variable HO : hops.
Notation bytes := (bytes HO).
Notation hash := (hash HO).
Notation outboard := (outboard HO).

Variables (size bs : N) (q : ranges).
Hypothesis Hsize : size <= 2 ^ 63.
Hypothesis Hbs : bs <= 10.
Hypothesis Hwf : wf_ranges q = true.

Let t := mkTree size bs.
Let B := sp_blocks size bs.
Let filled := filled_of B.
Let g := 2 ^ bs.
Let q' := truncate_ranges q size.
Let Sel := sel q size.
Let A (ga : N) := ga * g.
Let E (ga n : N) := (ga + capof n) * g.
Let M (ga n : N) := (ga + capof n / 2) * g.

Variable ob : outboard.
Variable d : bytes.          (* ANY length *)
Variable wd : bool.
Variable LP : N -> Prop.
Hypothesis Hloads : forall s, LP s -> exists x, load_sync HO ob (unshift bs s) = Ok x.

(* the lemmas of Proofs/ValSpec.v whose statements do not mention the data, instantiated at wd = false *)
Let Hl0 : forall s, False -> exists x, load_sync HO ob (unshift bs s) = Ok x := fun s F => match F with end.
Let Hd0 : false = true -> blen HO d = size := fun H => match Bool.diff_false_true H with end.

Lemma relevant_node_e ga n rm : node_ok size bs ga n rm -> (rm = false -> ga + n < B) ->
  is_relevant_for_outboard t (unshift bs (sid ga n)) = negb (n <=? 1).
Proof. exact (relevant_node HO size bs q Hsize Hbs ob d false (fun _ => False) Hl0 Hd0 ga n rm). Qed.

Lemma ivl_e ga n rm : node_ok size bs ga n rm ->
  A ga < M ga n /\ M ga n < E ga n /\ A ga < nchunks size /\ (2 <= B -> A ga * 1024 < size).
Proof. exact (ivl HO size bs q Hsize Hbs ob d false (fun _ => False) Hl0 Hd0 ga n rm). Qed.

Lemma node_end_sel_e ga n rm : node_ok size bs ga n rm -> (rm = false -> ga + n < B) ->
  (if rm then nchunks size else E ga n) = N.min ((ga + n) * 2 ^ bs) (nchunks size) /\
  (rm = false -> E ga n < nchunks size).
Proof. exact (node_end_sel HO size bs q Hsize Hbs ob d false (fun _ => False) Hl0 Hd0 ga n rm). Qed.

Lemma rs_touched_e rs ga n rm : node_ok size bs ga n rm -> (rm = false -> ga + n < B) ->
  rs_ok q' rs (A ga) (E ga n) rm -> r_is_empty rs = negb (touchedn Sel size bs ga n).
Proof. exact (rs_touched HO size bs q Hsize Hbs Hwf ob d false (fun _ => False) Hl0 Hd0 rs ga n rm). Qed.

Lemma full_chunks_mul_e a : full_chunks (a * 1024) = a.
Proof. exact (full_chunks_mul HO size bs q Hsize Hbs ob d false (fun _ => False) Hl0 Hd0 a). Qed.

Lemma chunks_min_e X : 0 < size -> chunks (N.min (X * 1024) size) = N.min X (nchunks size).
Proof. exact (chunks_min HO size bs q Hsize Hbs ob d false (fun _ => False) Hl0 Hd0 X). Qed.

(* one step of validate_rec at a node of the Shape (as validate_rec_node, without the premise on blen d) *)
Lemma validate_rec_node_e f owed ga n rm ir rs : node_ok size bs ga n rm ->
  validate_rec HO (S f) wd t filled ob d owed (sid ga n) ir rs =
    if r_is_empty rs then ([], Ok tt)
    else
      let nd := unshift bs (sid ga n) in
      if negb (is_relevant_for_outboard t nd)
      then vyield HO d wd (A ga * 1024) (N.min (E ga n * 1024) size) owed ir
      else
        match load_sync HO ob nd with
        | Err k => ([], Err k)
        | Panic => ([], Panic)
        | Ok None => ([], Ok tt)
        | Ok (Some (lh, rh)) =>
            if negb (bytes_eqb HO (parent_cv HO lh rh ir) owed) then ([], Ok tt)
            else
              let '(l_rs, r_rs) := split_inner rs (A ga) (M ga n) in
              if n <=? 2 then
                let '(ys1, r1) := if negb (r_is_empty l_rs)
                                  then vyield HO d wd (A ga * 1024) (N.min (M ga n * 1024) size) lh false else ([], Ok tt) in
                match r1 with
                | Ok _ =>
                    let '(ys2, r2) := if negb (r_is_empty r_rs)
                                      then vyield HO d wd (N.min (M ga n * 1024) size) (N.min (E ga n * 1024) size) rh false
                                      else ([], Ok tt) in
                    (ys1 ++ ys2, r2)
                | _ => (ys1, r1)
                end
              else
                match left_child (sid ga n) with
                | None => ([], Panic)
                | Some lc =>
                    let '(ys1, r1) := validate_rec HO f wd t filled ob d lh lc false l_rs in
                    match r1 with
                    | Ok _ =>
                        match right_descendant (sid ga n) filled with
                        | None => (ys1, Panic)
                        | Some rc =>
                            let '(ys2, r2) := validate_rec HO f wd t filled ob d rh rc false r_rs in
                            (ys1 ++ ys2, r2)
                        end
                    | _ => (ys1, r1)
                    end
                end
        end.
Proof.
  intros Hok. pose proof (node_geom_ok size bs ga n rm Hsize Hbs Hok) as [G1 G2 G3 G4 G5].
  pose proof (node_end_bound size bs ga n rm Hsize Hbs Hok) as HE.
  assert (Hh : capof n / 2 <= capof n) by (apply N.div_le_upper_bound; lia).
  pose proof (pow2_pos bs) as Hp.
  assert (TA : to_bytes (ga * 2 ^ bs) = ga * 2 ^ bs * 1024) by (apply to_bytes_small; nia).
  assert (TE : to_bytes ((ga + capof n) * 2 ^ bs) = (ga + capof n) * 2 ^ bs * 1024) by (apply to_bytes_small; nia).
  assert (TM : to_bytes ((ga + capof n / 2) * 2 ^ bs) = (ga + capof n / 2) * 2 ^ bs * 1024) by (apply to_bytes_small; nia).
  cbn [validate_rec]. change (tbs t) with bs.
  unfold leaf_byte_ranges3, node_byte_range, Ranges.split. change (tsize t) with size.
  rewrite G1, G4, G5. cbn [fst snd]. rewrite TA, TE, TM.
  rewrite (is_leaf_sid ga n rm size bs Hok).
  reflexivity.
Qed.

(* yielding one group, with the read check *)
Lemma vyield_e a X owed root : a < X -> a * 1024 < size ->
  vyield HO d wd (a * 1024) (N.min (X * 1024) size) owed root =
  if wd && negb (N.min (X * 1024) size <=? blen HO d) then ([], Err KUnexpectedEof)
  else ((if wd then
           if bytes_eqb HO (hash_subtree HO a (chunk_bytes HO (take HO size d) a (N.min X (nchunks size))) root) owed
           then [(a, N.min X (nchunks size))] else []
         else [(a, N.min X (nchunks size))]), Ok tt).
Proof.
  intros HaX Ha. assert (Hs : 0 < size) by lia.
  unfold vyield, yield_if_valid. rewrite full_chunks_mul_e, (chunks_min_e X Hs).
  destruct wd eqn:Ew; [|reflexivity]. cbn [andb].
  pose proof (nchunks_bounds size) as (B1 & B2 & B3).
  unfold read_exact_at.
  assert (Hlen : blen HO (slice HO (a * 1024) (N.min (X * 1024) size - a * 1024) d)
                 = N.min (N.min (X * 1024) size - a * 1024) (blen HO d - a * 1024)).
  { unfold slice. rewrite ObBase.blen_take, ObBase.blen_drop. reflexivity. }
  rewrite Hlen.
  destruct (N.leb_spec (N.min (X * 1024) size) (blen HO d)) as [L|L]; cbn [negb].
  - replace (N.min (N.min (X * 1024) size - a * 1024) (blen HO d - a * 1024) =? N.min (X * 1024) size - a * 1024)
      with true by (symmetry; apply N.eqb_eq; lia).
    assert (Es : slice HO (a * 1024) (N.min (X * 1024) size - a * 1024) d
                 = chunk_bytes HO (take HO size d) a (N.min X (nchunks size))).
    { unfold chunk_bytes, slice. rewrite ObBase.drop_take, ObBase.take_take. apply ObBase.take_eq.
      rewrite ObBase.blen_drop.
      destruct (N.le_gt_cases (X * 1024) size) as [L'|L'].
      - rewrite (N.min_l (X * 1024)) in * by assumption. rewrite (N.min_l X) by lia. lia.
      - rewrite (N.min_r (X * 1024)) in * by lia. rewrite (N.min_r X) by lia. nia. }
    rewrite Es. reflexivity.
  - replace (N.min (N.min (X * 1024) size - a * 1024) (blen HO d - a * 1024) =? N.min (X * 1024) size - a * 1024)
      with false by (symmetry; apply N.eqb_neq; lia).
    reflexivity.
Qed.

(* ---- the validator computes val_spec_e ---- *)
Lemma validate_rec_spec_e : forall fuel ga n rm rs owed ir,
  2 <= B -> node_ok size bs ga n rm -> (rm = false -> ga + n < B) -> N.log2 (capof n) <= N.of_nat fuel ->
  rs_ok q' rs (A ga) (E ga n) rm -> (forall x, In x (sh_pre fuel ga n) -> LP x) ->
  validate_rec HO fuel wd t filled ob d owed (sid ga n) ir rs
  = val_spec_e HO fuel wd ob d size bs Sel ga n owed ir.
Proof.
  induction fuel as [|f IH]; intros ga n rm rs owed ir HB Hok Hnr Hf Hrs Hsub.
  { destruct (fuel_pos n 0 (nk_pos _ _ _ _ _ Hok) Hf) as [f' Ef]. discriminate. }
  rewrite (validate_rec_node_e f owed ga n rm ir rs Hok), val_spec_e_eq. cbn zeta.
  rewrite (rs_touched_e rs ga n rm Hok Hnr Hrs).
  destruct (touchedn Sel size bs ga n) eqn:Et; cbn [negb]; [|reflexivity].
  rewrite (relevant_node_e ga n rm Hok Hnr), negb_involutive.
  destruct (ivl_e ga n rm Hok) as (I1 & I2 & I3 & I4). specialize (I4 HB).
  pose proof Hok as [P [k Al] I R]. pose proof (pow2_pos bs) as Hp.
  pose proof (nchunks_le_blocks size bs) as Hnb. fold B in Hnb.
  pose proof (nchunks_cover size) as Hcov.
  destruct (N.leb_spec n 1) as [L1|L1].
  - (* half leaf *)
    assert (n = 1) by lia. subst n. destruct rm; [|discriminate R].
    unfold A in *. rewrite (vyield_e (ga * g) (E ga 1) owed ir ltac:(lia) I4).
    unfold leaf_rep_e, leaf_rep, grp_bend, grp_start, grp_end. fold g.
    assert (Ee : N.min (E ga 1) (nchunks size) = N.min ((ga + 1) * g) (nchunks size)).
    { unfold E. change (capof 1) with 2. unfold B in Hnb. rewrite <- R in Hnb. fold g in Hnb. nia. }
    assert (Eb : N.min (E ga 1 * 1024) size = N.min ((ga + 1) * g * 1024) size).
    { unfold E. change (capof 1) with 2. unfold B in Hnb. rewrite <- R in Hnb. fold g in Hnb. nia. }
    rewrite Ee, Eb. reflexivity.
  - destruct (Hloads (sid ga n) (Hsub _ (sh_pre_head f ga n P))) as [x Hx]. unfold stored_pair. rewrite Hx.
    destruct x as [[lh rh]|]; [|reflexivity].
    destruct (bytes_eqb HO (parent_cv HO lh rh ir) owed); cbn [negb]; [|reflexivity].
    destruct (split_inner rs (A ga) (M ga n)) as [l_rs r_rs] eqn:Esp.
    destruct (split_ok q' rs (A ga) (M ga n) (E ga n) rm l_rs r_rs Hrs I1 I2 Esp) as [Hl Hr].
    destruct (N.leb_spec n 2) as [L2|L2].
    + (* shifted leaf with both groups *)
      assert (n = 2) by lia. subst n.
      assert (EM : M ga 2 = (ga + 1) * g) by reflexivity.
      assert (EE : E ga 2 = (ga + 1 + 1) * g) by (unfold E; change (capof 2) with 2; f_equal; lia).
      assert (Hg1 : ga + 1 < sp_blocks size bs) by (fold B; lia).
      pose proof (group_inside size bs (ga + 1) Hg1) as Hin1. fold g in Hin1.
      assert (Hm : M ga 2 * 1024 < size).
      { apply sp_blocks_spec in Hg1. destruct Hg1 as [Hg1|Hg1]; [lia|]. rewrite EM. exact Hg1. }
      assert (Tl : r_is_empty l_rs = negb (touchedn Sel size bs ga 1)).
      { rewrite (rs_empty_sel size q Hwf l_rs (A ga) (M ga 2) false Hl I1 I3 ltac:(intros _; rewrite EM; exact Hin1)).
        unfold touchedn. fold g. rewrite EM. f_equal. f_equal. f_equal. lia. }
      assert (Tr : r_is_empty r_rs = negb (touchedn Sel size bs (ga + 1) 1)).
      { destruct (node_end_sel_e ga 2 rm Hok Hnr) as [En Hlt].
        rewrite (rs_empty_sel size q Hwf r_rs (M ga 2) (E ga 2) rm Hr I2 ltac:(rewrite EM; exact Hin1) Hlt).
        unfold touchedn. fold g. rewrite En. fold g. rewrite EM. do 3 f_equal. f_equal. lia. }
      rewrite Tl, Tr, !negb_involutive.
      unfold A in *.
      assert (Y1 : vyield HO d wd (ga * g * 1024) (N.min (M ga 2 * 1024) size) lh false
                   = leaf_rep_e HO wd d size bs ga lh false).
      { rewrite (vyield_e (ga * g) (M ga 2) lh false I1 I4).
        unfold leaf_rep_e, leaf_rep, grp_bend, grp_start, grp_end. fold g. rewrite EM. reflexivity. }
      assert (Y2 : vyield HO d wd (N.min (M ga 2 * 1024) size) (N.min (E ga 2 * 1024) size) rh false
                   = leaf_rep_e HO wd d size bs (ga + 1) rh false).
      { rewrite (N.min_l (M ga 2 * 1024) size) by lia.
        rewrite (vyield_e (M ga 2) (E ga 2) rh false I2 Hm).
        unfold leaf_rep_e, leaf_rep, grp_bend, grp_start, grp_end. fold g. rewrite EM, EE. reflexivity. }
      rewrite Y1, Y2. reflexivity.
    + (* inner node *)
      assert (Hn : 3 <= n) by lia.
      destruct (capof_inner n Hn) as (j & Ecap & Eh & K1 & K2 & C1 & C2).
      pose proof (pow2_pos (j + 1)) as Hpj.
      set (half := capof n / 2) in *.
      assert (Ecap' : capof n = 2 * half).
      { rewrite Eh, Ecap. replace (j + 2) with (j + 1 + 1) by lia. now rewrite pow2_succ. }
      assert (Echalf : capof half = half) by (rewrite Eh; exact C1).
      assert (Hce : cexp n <= 64).
      { pose proof (node_end_bound size bs ga n rm Hsize Hbs Hok) as HE.
        assert (capof n <= 2 ^ 53) by nia. rewrite (capof_pow2 n ltac:(lia)) in H. apply pow2_le_inv in H. lia. }
      rewrite (left_child_sid size bs ga n rm Hok Hn). fold half.
      unfold filled, B. rewrite (right_descendant_sid size bs ga n rm Hok Hn Hce). fold half. fold B. fold filled.
      destruct (fuel_children n f Hn Hf) as [F1 F2]. fold half in F1, F2.
      pose proof (node_ok_left size bs ga n rm Hok Hn) as Hokl. fold half in Hokl.
      pose proof (node_ok_right size bs ga n rm Hok Hn) as Hokr. fold half in Hokr.
      assert (Hhn : half < n) by (rewrite Eh; lia).
      assert (Hrl : rs_ok q' l_rs (A ga) (E ga half) false).
      { replace (E ga half) with (M ga n); [exact Hl|]. unfold E, M. fold half. now rewrite Echalf. }
      assert (Hrr : rs_ok q' r_rs (A (ga + half)) (E (ga + half) (n - half)) rm).
      { change (A (ga + half)) with (M ga n). destruct rm.
        - eapply rs_ok_rm_end; exact Hr.
        - replace (E (ga + half) (n - half)) with (E ga n); [exact Hr|].
          cbn in R. assert (n - half = half) by lia. unfold E. rewrite H, Echalf, Ecap'. f_equal. lia. }
      rewrite (sh_pre_inner f ga n Hn) in Hsub. fold half in Hsub.
      rewrite (IH ga half false l_rs lh false HB Hokl ltac:(intros _; lia) F1 Hrl)
        by (intros y Hy; apply Hsub; right; apply in_or_app; left; exact Hy).
      rewrite (IH (ga + half) (n - half) rm r_rs rh false HB Hokr ltac:(intro Erm; specialize (Hnr Erm); lia) F2 Hrr)
        by (intros y Hy; apply Hsub; right; apply in_or_app; right; exact Hy).
      reflexivity.
Qed.

End ValRecE.

(* ---- val_spec_e, group by group ---- *)
Section ValPathE.
Variable HO : hops.
Notation bytes := (bytes HO).
Notation hash := (hash HO).
Notation outboard := (outboard HO).
Variables (size bs : N) (Sel : N -> bool).
Variable ob : outboard.
Variable d : bytes.
Variable wd : bool.

Lemma val_spec_e_groups : forall fuel ga0 n owed ir,
  1 <= n -> N.log2 (capof n) <= N.of_nat fuel -> (n = 1 -> ir = false) ->
  val_spec_e HO fuel wd ob d size bs Sel ga0 n owed ir =
  vflat (grp_item_e HO wd ob d size bs Sel fuel ga0 n owed ir) (chunk_range_list ga0 (ga0 + n)).
Proof.
  induction fuel as [|f IH]; intros ga0 n owed ir Hn Hf Hir.
  { destruct (fuel_pos n 0 Hn Hf) as [f' Ef]. discriminate. }
  rewrite val_spec_e_eq.
  destruct (touchedn Sel size bs ga0 n) eqn:Et; cbn [negb].
  2:{ symmetry. apply vflat_nil. intros ga Hga. apply crl_in in Hga. unfold grp_item_e.
      destruct (touchedn Sel size bs ga 1) eqn:E1; [|reflexivity].
      rewrite (touchedn_sub size bs Sel ga0 n ga) in Et by (assumption || lia). discriminate. }
  destruct (N.leb_spec n 1) as [L1|L1].
  - assert (n = 1) by lia. subst n. rewrite (Hir eq_refl). rewrite crl_single. rewrite vflat_cons.
    change (vflat (grp_item_e HO wd ob d size bs Sel (S f) ga0 1 owed false) []) with vnil. rewrite vseq_nil_r.
    unfold grp_item_e. rewrite Et, grp_path_eq. change (1 <=? 1) with true. cbv iota.
    cbn [chain_walk]. reflexivity.
  - destruct (N.leb_spec n 2) as [L2|L2].
    + assert (n = 2) by lia. subst n.
      replace (ga0 + 2) with (ga0 + 1 + 1) by lia. rewrite crl_snoc, crl_single by lia. cbn [app].
      rewrite !vflat_cons.
      change (vflat (grp_item_e HO wd ob d size bs Sel (S f) ga0 2 owed ir) []) with vnil. rewrite vseq_nil_r.
      unfold grp_item_e. rewrite !grp_path_eq. change (2 <=? 1) with false. change (2 <=? 2) with true. cbv iota.
      rewrite N.eqb_refl. replace (ga0 + 1 =? ga0) with false by (symmetry; apply N.eqb_neq; lia). cbn [negb].
      cbn [chain_walk].
      destruct (stored_pair HO ob (unshift bs (sid ga0 2))) as [[l r]|].
      2:{ destruct (touchedn Sel size bs ga0 1), (touchedn Sel size bs (ga0 + 1) 1); reflexivity. }
      destruct (bytes_eqb HO (parent_cv HO l r ir) owed); cbn [negb]; [reflexivity|].
      destruct (touchedn Sel size bs ga0 1), (touchedn Sel size bs (ga0 + 1) 1); reflexivity.
    + assert (H3 : 3 <= n) by lia.
      destruct (capof_inner n H3) as (j & Ecap & Eh & K1 & K2 & C1 & C2).
      pose proof (pow2_pos (j + 1)) as Hpj.
      destruct (fuel_children n f H3 Hf) as [F1 F2].
      set (half := capof n / 2) in *. cbv zeta. fold half.
      rewrite (crl_app ga0 (ga0 + half) (ga0 + n)) by lia. rewrite vflat_app.
      assert (EL : vflat (grp_item_e HO wd ob d size bs Sel (S f) ga0 n owed ir) (chunk_range_list ga0 (ga0 + half)) =
                   match stored_pair HO ob (unshift bs (sid ga0 n)) with
                   | None => vnil
                   | Some (l, r) => if negb (bytes_eqb HO (parent_cv HO l r ir) owed) then vnil
                                    else val_spec_e HO f wd ob d size bs Sel ga0 half l false end).
      { destruct (stored_pair HO ob (unshift bs (sid ga0 n))) as [[l r]|] eqn:Es.
        - destruct (bytes_eqb HO (parent_cv HO l r ir) owed) eqn:Eb; cbn [negb].
          + rewrite (IH ga0 half l false) by (lia || assumption). apply vflat_ext_in.
            intros ga Hga. apply crl_in in Hga. unfold grp_item_e. rewrite (grp_path_eq f bs ga0 n ga).
            replace (n <=? 1) with false by lia. replace (n <=? 2) with false by lia. cbv zeta. fold half.
            replace (ga <? ga0 + half) with true by lia. cbn [chain_walk]. rewrite Es, Eb. reflexivity.
          + apply vflat_nil. intros ga Hga. apply crl_in in Hga. unfold grp_item_e. rewrite (grp_path_eq f bs ga0 n ga).
            replace (n <=? 1) with false by lia. replace (n <=? 2) with false by lia. cbv zeta. fold half.
            replace (ga <? ga0 + half) with true by lia. cbn [chain_walk]. rewrite Es, Eb.
            destruct (touchedn Sel size bs ga 1); reflexivity.
        - apply vflat_nil. intros ga Hga. apply crl_in in Hga. unfold grp_item_e. rewrite (grp_path_eq f bs ga0 n ga).
          replace (n <=? 1) with false by lia. replace (n <=? 2) with false by lia. cbv zeta. fold half.
          replace (ga <? ga0 + half) with true by lia. cbn [chain_walk]. rewrite Es.
          destruct (touchedn Sel size bs ga 1); reflexivity. }
      assert (ER : vflat (grp_item_e HO wd ob d size bs Sel (S f) ga0 n owed ir) (chunk_range_list (ga0 + half) (ga0 + n)) =
                   match stored_pair HO ob (unshift bs (sid ga0 n)) with
                   | None => vnil
                   | Some (l, r) => if negb (bytes_eqb HO (parent_cv HO l r ir) owed) then vnil
                                    else val_spec_e HO f wd ob d size bs Sel (ga0 + half) (n - half) r false end).
      { destruct (stored_pair HO ob (unshift bs (sid ga0 n))) as [[l r]|] eqn:Es.
        - destruct (bytes_eqb HO (parent_cv HO l r ir) owed) eqn:Eb; cbn [negb].
          + rewrite (IH (ga0 + half) (n - half) r false) by (lia || assumption).
            replace (ga0 + half + (n - half)) with (ga0 + n) by lia. apply vflat_ext_in.
            intros ga Hga. apply crl_in in Hga. unfold grp_item_e. rewrite (grp_path_eq f bs ga0 n ga).
            replace (n <=? 1) with false by lia. replace (n <=? 2) with false by lia. cbv zeta. fold half.
            replace (ga <? ga0 + half) with false by lia. cbn [chain_walk]. rewrite Es, Eb. reflexivity.
          + apply vflat_nil. intros ga Hga. apply crl_in in Hga. unfold grp_item_e. rewrite (grp_path_eq f bs ga0 n ga).
            replace (n <=? 1) with false by lia. replace (n <=? 2) with false by lia. cbv zeta. fold half.
            replace (ga <? ga0 + half) with false by lia. cbn [chain_walk]. rewrite Es, Eb.
            destruct (touchedn Sel size bs ga 1); reflexivity.
        - apply vflat_nil. intros ga Hga. apply crl_in in Hga. unfold grp_item_e. rewrite (grp_path_eq f bs ga0 n ga).
          replace (n <=? 1) with false by lia. replace (n <=? 2) with false by lia. cbv zeta. fold half.
          replace (ga <? ga0 + half) with false by lia. cbn [chain_walk]. rewrite Es.
          destruct (touchedn Sel size bs ga 1); reflexivity. }
      rewrite EL, ER.
      destruct (stored_pair HO ob (unshift bs (sid ga0 n))) as [[l r]|]; [|reflexivity].
      destruct (bytes_eqb HO (parent_cv HO l r ir) owed); reflexivity.
Qed.

End ValPathE.

Print Assumptions validate_rec_spec_e.
Print Assumptions val_spec_e_groups.
