(* End-to-end composition, part 3: decode_ranges (sync and fsm) on any stream, and what the leaves of
   (a prefix of) the honest encoding do to a target. *)
From BaoV Require Import Model.Fsm Spec.RangeSpec Spec.PlanSpec Spec.EncSpec Spec.HashAssm Spec.PTree Spec.SpecTree.
From BaoV Require Proofs.RangeTrunc.
From BaoV Require Proofs.BridgeBase Proofs.BridgeTree Proofs.BridgePlan.
From BaoV Require Import Proofs.BridgeLeaves.
From BaoV Require Import Proofs.DecLoop Proofs.DecHash Proofs.DecForest Proofs.DecConst Proofs.DecRanges Proofs.DecTheorems.
From BaoV Require Import Proofs.E2EGlue Proofs.E2EDecode.
From Coq Require Import Lia Arith.
Open Scope N_scope.

Section ApplyItems.
Variable HO : hops.

(* the target after apply_items: the leaves of the items up to the first failing save, written in order *)
Lemma apply_items_target : forall (ys : list (item HO)) (target : bytes HO) (ob : outboard HO),
  exists zs, is_prefix zs ys /\
    a_target HO (apply_items HO ys target ob) = write_leaves HO target zs /\
    (a_res HO (apply_items HO ys target ob) = SOk -> zs = ys).
Proof.
  induction ys as [|[node l r|off d] ys IH]; intros target ob.
  - exists []. split; [exists []; reflexivity|]. split; reflexivity.
  - cbn [apply_items]. destruct (save HO ob node l r) as [ob'|k|].
    + destruct (IH target ob') as (zs & (w & Hw) & H2 & H3).
      exists (IParent node l r :: zs). split; [exists w; cbn; now rewrite Hw|].
      split; [exact H2|]. intro H. now rewrite (H3 H).
    + exists []. split; [eexists; reflexivity|]. split; [reflexivity|]. cbn. discriminate.
    + exists []. split; [eexists; reflexivity|]. split; [reflexivity|]. cbn. discriminate.
  - cbn [apply_items].
    destruct (IH (write_at HO target off d) ob) as (zs & (w & Hw) & H2 & H3).
    exists (ILeaf off d :: zs). split; [exists w; cbn; now rewrite Hw|].
    split; [exact H2|]. intro H. now rewrite (H3 H).
Qed.

Lemma is_prefix_trans {A} (a b c : list A) : is_prefix a b -> is_prefix b c -> is_prefix a c.
Proof. intros (x & ->) (y & ->). exists (x ++ y). now rewrite app_assoc. Qed.

Lemma is_prefix_refl {A} (a : list A) : is_prefix a a.
Proof. exists []. now rewrite app_nil_r. Qed.

Lemma is_prefix_In {A} (a b : list A) x : is_prefix a b -> In x a -> In x b.
Proof. intros (w & ->) H. apply in_or_app. now left. Qed.

Lemma flat_prefix (a b : list (item HO)) : is_prefix a b -> is_prefix (flat HO a) (flat HO b).
Proof.
  intros (w & ->). exists (flat HO w). change (flat HO) with (flat_items HO). apply flat_items_app.
Qed.

(* writing leaves that are runs of chunks of the blob: no chunk is ever wrong *)
Definition chunk_state (data t out : bytes HO) (S0 : N -> bool) : Prop :=
  length out = length data /\
  forall c, c < nchunks (blen HO data) ->
    chunk_bytes HO out c (c + 1) = chunk_bytes HO t c (c + 1) \/
    (S0 c = true /\ chunk_bytes HO out c (c + 1) = chunk_bytes HO data c (c + 1)).

Definition good_leaves (data : bytes HO) (S0 : N -> bool) (zs : list (item HO)) : Prop :=
  forall off d, In (ILeaf off d) zs ->
    exists s e, off = s * 1024 /\ s < e /\ e <= nchunks (blen HO data) /\
                d = chunk_bytes HO data s e /\ (forall c, s <= c < e -> S0 c = true).

Lemma write_good_leaves (data t : bytes HO) (S0 : N -> bool) : forall zs cur,
  good_leaves data S0 zs -> chunk_state data t cur S0 ->
  chunk_state data t (write_leaves HO cur zs) S0.
Proof.
  induction zs as [|[node l r|off d] zs IH]; intros cur G Inv.
  - exact Inv.
  - change (write_leaves HO cur (IParent node l r :: zs)) with (write_leaves HO cur zs).
    apply IH; [|exact Inv]. intros off d Hin. apply G. now right.
  - change (write_leaves HO cur (ILeaf off d :: zs)) with (write_leaves HO (write_at HO cur off d) zs).
    apply IH; [intros off' d' Hin; apply G; now right|].
    destruct (G off d (or_introl eq_refl)) as (s & e & -> & Hse & He & -> & Hsel).
    destruct Inv as [Len Inv].
    destruct (write_chunks HO data cur s e Len Hse He) as [W1 W2]. split; [exact W1|].
    intros c Hc. rewrite (W2 c Hc).
    destruct ((s <=? c) && (c <? e)) eqn:E.
    + right. split; [|reflexivity]. apply Hsel.
      apply andb_true_iff in E. destruct E as [E1 E2]. apply N.leb_le in E1. apply N.ltb_lt in E2. lia.
    + apply Inv. exact Hc.
Qed.
End ApplyItems.

Section E2ER.
Variable HO : hops.
Hypothesis HOK : hash_ok HO.
Variable data : bytes HO.
Variables (bs : N) (q : ranges).
Hypothesis Hsize : blen HO data <= 2 ^ 63.
Hypothesis Hbs : bs <= 10.
Hypothesis Hwf : wf_ranges q = true.

Notation size := (blen HO data).
Notation t := (mkTree (blen HO data) bs).
Notation root := (root_hash HO data).
Notation hon := (honest HO data bs q).

(* the leaves of any prefix of the honest encoding are runs of selected chunks of the blob *)
Lemma prefix_good_leaves zs : is_prefix zs hon -> good_leaves HO data (sel q size) zs.
Proof.
  intros Hp off d Hin. apply (is_prefix_In _ _ _ Hp) in Hin.
  destruct (bridge_leaf_items HO data bs q off d Hsize Hin) as (s & e & H1 & H2 & H3 & _ & H5 & H6).
  exists s, e. repeat split; assumption.
Qed.

(* what a prefix of the honest encoding does to a target of the blob's length: every chunk is either
   untouched or (selected and) the blob's; unselected chunks are never touched *)
Theorem e2e_prefix_writes : forall (target : bytes HO) zs,
  length target = length data -> is_prefix zs hon ->
  let out := write_leaves HO target zs in
  length out = length data /\
  forall c, c < nchunks size ->
    chunk_bytes HO out c (c + 1) = chunk_bytes HO target c (c + 1) \/
    (sel q size c = true /\ chunk_bytes HO out c (c + 1) = chunk_bytes HO data c (c + 1)).
Proof.
  intros target zs Hlen Hp. cbv zeta.
  apply (write_good_leaves HO data target (sel q size) zs target (prefix_good_leaves zs Hp)).
  split; [exact Hlen|]. intros c _. now left.
Qed.

(* the leaves of the whole honest encoding deliver exactly the selection *)
Theorem e2e_delivers_selection_sec : forall (target : bytes HO),
  length target = length data ->
  let out := write_leaves HO target hon in
  (blen HO out = size /\
   forall c, c < nchunks size ->
     chunk_bytes HO out c (c + 1) =
     if sel q size c then chunk_bytes HO data c (c + 1) else chunk_bytes HO target c (c + 1)) /\
  (forall off d, In (ILeaf off d) hon ->
     exists s e, (off = s * 1024 /\ s < e /\ e <= nchunks size /\ e - s <= 2 ^ bs) /\
                 d = chunk_bytes HO data s e /\ (forall c, s <= c < e -> sel q size c = true)).
Proof.
  intros target Hlen. cbv zeta. split.
  - exact (bridge_leaves_are_selection HO data target bs q Hsize Hlen).
  - intros off d Hin.
    destruct (bridge_leaf_items HO data bs q off d Hsize Hin) as (s & e & H1 & H2 & H3 & H4 & H5 & H6).
    exists s, e. repeat split; assumption.
Qed.

Hypothesis Hne : q <> [].

(* decode_ranges on ANY stream: the items applied are a prefix ys of the honest encoding, the result is
   ranges_result of the saves and the decoder's outcome *)
Theorem e2e_decode_ranges : forall (stream target : bytes HO) (ob : outboard HO),
  ob_root ob = root -> ob_tree ob = t ->
  exists ys o st',
    let a := apply_items HO ys target ob in
    decode_ranges HO stream q target ob = (ranges_result (a_res HO a) o, a_target HO a, a_ob HO a, st') /\
    is_prefix ys hon /\
    (o = Finished -> ys = hon /\ is_prefix (flat HO hon) stream) /\
    (forall e, o = Failed e -> ~ is_prefix (flat HO (firstn (length ys + 1) hon)) stream) /\
    o <> Panicked /\ o <> OutOfFuel.
Proof.
  intros stream target ob Hr Ht.
  destruct (dec_run HO (dec_new HO (ob_root ob) (ob_tree ob) stream q)) as [[ys o] stf] eqn:Hrun.
  destruct (setup_ends HO data bs q Hsize Hbs Hwf) as (n & En & Bn).
  assert (En' : ends_within response_next
                  (response_new (ob_tree ob) (truncate_ranges q (tsize (ob_tree ob)))) n)
    by (rewrite Ht; exact En).
  destruct (decode_ranges_sound HO n stream q target ob ys o stf En' Bn Hrun) as (st' & Hd).
  rewrite Hr, Ht in Hrun.
  destruct (e2e_sync HO HOK data bs q Hsize Hbs Hwf Hne stream ys o stf Hrun) as (S1 & S2 & S3 & S4 & S5).
  exists ys, o, st'. cbv zeta. split; [exact Hd|]. split; [exact S1|]. split; [|auto].
  intro Ho. destruct (S2 Ho) as [E1 E2]. split; [exact E1|]. eexists. exact E2.
Qed.

Theorem e2e_decode_ranges_fsm : forall (stream target : bytes HO) (ob : outboard HO),
  ob_root ob = root -> ob_tree ob = t ->
  exists ys o st',
    let a := apply_items HO ys target ob in
    decode_ranges_fsm HO stream q target ob = (ranges_result (a_res HO a) o, a_target HO a, a_ob HO a, st') /\
    is_prefix ys hon /\
    (o = Finished -> ys = hon /\ is_prefix (flat HO hon) stream) /\
    (forall e, o = Failed e -> ~ is_prefix (flat HO (firstn (length ys + 1) hon)) stream) /\
    o <> Panicked /\ o <> OutOfFuel.
Proof.
  intros stream target ob Hr Ht.
  destruct (rd_run HO (rd_new HO (ob_root ob) q (ob_tree ob) stream)) as [[ys o] stf] eqn:Hrun.
  destruct (setup_ends HO data bs q Hsize Hbs Hwf) as (n & En & Bn).
  assert (En' : ends_within response_next
                  (response_new (ob_tree ob) (truncate_ranges_owned q (tsize (ob_tree ob)))) n)
    by (rewrite Ht, RangeTrunc.truncate_owned_eq; exact En).
  destruct (decode_ranges_fsm_sound HO n stream q target ob ys o stf En' Bn Hrun) as (st' & Hd).
  rewrite Hr, Ht in Hrun.
  destruct (e2e_fsm HO HOK data bs q Hsize Hbs Hwf Hne stream ys o stf Hrun) as (S1 & S2 & S3 & S4 & S5).
  exists ys, o, st'. cbv zeta. split; [exact Hd|]. split; [exact S1|]. split; [|auto].
  intro Ho. destruct (S2 Ho) as [E1 E2]. split; [exact E1|]. eexists. exact E2.
Qed.

(* in terms of the returned target alone *)
Lemma ranges_post_of : forall (stream target : bytes HO) (ob : outboard HO) ys o,
  is_prefix ys hon ->
  (o = Finished -> ys = hon /\ is_prefix (flat HO hon) stream) ->
  o <> Panicked -> o <> OutOfFuel ->
  let a := apply_items HO ys target ob in
  exists zs, is_prefix zs hon /\ a_target HO a = write_leaves HO target zs /\
    (ranges_result (a_res HO a) o = Ok tt -> zs = hon /\ is_prefix (flat HO hon) stream).
Proof.
  intros stream target ob ys o S1 S2 S4 S5. cbv zeta.
  destruct (apply_items_target HO ys target ob) as (zs & P1 & P2 & P3).
  exists zs. split; [eapply is_prefix_trans; eauto|]. split; [exact P2|].
  intro Hok. apply ranges_result_ok in Hok. destruct Hok as [Hs Ho].
  destruct (S2 Ho) as [E1 E2]. rewrite (P3 Hs). split; assumption.
Qed.

Theorem e2e_decode_ranges_target : forall (stream target : bytes HO) (ob : outboard HO) res target' ob' st',
  ob_root ob = root -> ob_tree ob = t ->
  decode_ranges HO stream q target ob = (res, target', ob', st') ->
  exists zs, is_prefix zs hon /\ target' = write_leaves HO target zs /\
             (res = Ok tt -> zs = hon /\ is_prefix (flat HO hon) stream).
Proof.
  intros stream target ob res target' ob' st' Hr Ht Hd.
  destruct (e2e_decode_ranges stream target ob Hr Ht) as (ys & o & st1 & Hd' & S1 & S2 & S3 & S4 & S5).
  cbv zeta in Hd'. rewrite Hd in Hd'. injection Hd' as -> -> _ _.
  exact (ranges_post_of stream target ob ys o S1 S2 S4 S5).
Qed.

Theorem e2e_decode_ranges_fsm_target : forall (stream target : bytes HO) (ob : outboard HO) res target' ob' st',
  ob_root ob = root -> ob_tree ob = t ->
  decode_ranges_fsm HO stream q target ob = (res, target', ob', st') ->
  exists zs, is_prefix zs hon /\ target' = write_leaves HO target zs /\
             (res = Ok tt -> zs = hon /\ is_prefix (flat HO hon) stream).
Proof.
  intros stream target ob res target' ob' st' Hr Ht Hd.
  destruct (e2e_decode_ranges_fsm stream target ob Hr Ht) as (ys & o & st1 & Hd' & S1 & S2 & S3 & S4 & S5).
  cbv zeta in Hd'. rewrite Hd in Hd'. injection Hd' as -> -> _ _.
  exact (ranges_post_of stream target ob ys o S1 S2 S4 S5).
Qed.

(* every byte written is the blob's, at the right offset: for a target of the blob's length, whatever
   the stream and the outcome, no chunk of the returned target is wrong and unselected chunks are
   untouched; on Ok the selected chunks are all delivered *)
Definition target_post (target target' : bytes HO) (res : res dec_err unit) : Prop :=
  length target' = length data /\
  (forall c, c < nchunks size ->
     chunk_bytes HO target' c (c + 1) = chunk_bytes HO target c (c + 1) \/
     (sel q size c = true /\ chunk_bytes HO target' c (c + 1) = chunk_bytes HO data c (c + 1))) /\
  (res = Ok tt -> forall c, c < nchunks size ->
     chunk_bytes HO target' c (c + 1) =
     if sel q size c then chunk_bytes HO data c (c + 1) else chunk_bytes HO target c (c + 1)).

Lemma target_post_of (stream target target' : bytes HO) res :
  length target = length data ->
  (exists zs, is_prefix zs hon /\ target' = write_leaves HO target zs /\
              (res = Ok tt -> zs = hon /\ is_prefix (flat HO hon) stream)) ->
  target_post target target' res.
Proof.
  intros Hlen (zs & Z1 & -> & Z3).
  destruct (e2e_prefix_writes target zs Hlen Z1) as [W1 W2]. split; [exact W1|]. split; [exact W2|].
  intros Hok c Hc. destruct (Z3 Hok) as [-> _].
  destruct (bridge_leaves_are_selection HO data target bs q Hsize Hlen) as [_ B]. exact (B c Hc).
Qed.

Theorem e2e_decode_ranges_bytes : forall (stream target : bytes HO) (ob : outboard HO) res target' ob' st',
  ob_root ob = root -> ob_tree ob = t -> length target = length data ->
  decode_ranges HO stream q target ob = (res, target', ob', st') ->
  length target' = length data /\
  (forall c, c < nchunks size ->
     chunk_bytes HO target' c (c + 1) = chunk_bytes HO target c (c + 1) \/
     (sel q size c = true /\ chunk_bytes HO target' c (c + 1) = chunk_bytes HO data c (c + 1))) /\
  (res = Ok tt -> forall c, c < nchunks size ->
     chunk_bytes HO target' c (c + 1) =
     if sel q size c then chunk_bytes HO data c (c + 1) else chunk_bytes HO target c (c + 1)).
Proof.
  intros stream target ob res target' ob' st' Hr Ht Hlen Hd.
  exact (target_post_of stream target target' res Hlen
           (e2e_decode_ranges_target stream target ob res target' ob' st' Hr Ht Hd)).
Qed.

Theorem e2e_decode_ranges_fsm_bytes : forall (stream target : bytes HO) (ob : outboard HO) res target' ob' st',
  ob_root ob = root -> ob_tree ob = t -> length target = length data ->
  decode_ranges_fsm HO stream q target ob = (res, target', ob', st') ->
  length target' = length data /\
  (forall c, c < nchunks size ->
     chunk_bytes HO target' c (c + 1) = chunk_bytes HO target c (c + 1) \/
     (sel q size c = true /\ chunk_bytes HO target' c (c + 1) = chunk_bytes HO data c (c + 1))) /\
  (res = Ok tt -> forall c, c < nchunks size ->
     chunk_bytes HO target' c (c + 1) =
     if sel q size c then chunk_bytes HO data c (c + 1) else chunk_bytes HO target c (c + 1)).
Proof.
  intros stream target ob res target' ob' st' Hr Ht Hlen Hd.
  exact (target_post_of stream target target' res Hlen
           (e2e_decode_ranges_fsm_target stream target ob res target' ob' st' Hr Ht Hd)).
Qed.

End E2ER.

Theorem e2e_delivers_selection : forall HO (data target : bytes HO) (bs : N) (q : ranges),
  blen HO data <= 2 ^ 63 -> length target = length data ->
  let size := blen HO data in
  let out := write_leaves HO target (honest HO data bs q) in
  (blen HO out = size /\
   forall c, c < nchunks size ->
     chunk_bytes HO out c (c + 1) =
     if sel q size c then chunk_bytes HO data c (c + 1) else chunk_bytes HO target c (c + 1)) /\
  (forall off d, In (ILeaf off d) (honest HO data bs q) ->
     exists s e, (off = s * 1024 /\ s < e /\ e <= nchunks size /\ e - s <= 2 ^ bs) /\
                 d = chunk_bytes HO data s e /\ (forall c, s <= c < e -> sel q size c = true)).
Proof.
  intros HO data target bs q Hs Hlen. exact (e2e_delivers_selection_sec HO data bs q Hs target Hlen).
Qed.
