(* L12: in the post-order outboard all stable slots come before all unstable slots (C13 item 8). *)
From BaoV Require Import Model.Iter Spec.NodeSpec Proofs.NodeLevel Proofs.NodeBits Proofs.NodeAlgebra
  Proofs.NodeRestricted Proofs.ShapeBase Proofs.ShapeIter Proofs.ShapeOffsets Proofs.ShapePos Proofs.ShapePre
  Proofs.ShapePost.
From Coq Require Import ZArith Lia.
Open Scope N_scope.
Ltac Zify.zify_post_hook ::= Z.to_euclidean_division_equations.

Section Layout.
Variables B FB : N.
Hypothesis HFB1 : FB <= B.
Hypothesis HFB2 : B <= FB + 1.

(* number of stable stored nodes of Shape(a, m) *)
Definition stc (f : nat) (a m : N) : N :=
  N.of_nat (length (filter (fun s => pers B s && ins FB s) (sh_pre f a m))).

Lemma layout_shape : forall f a m l c, wf B a m l c -> m <= 2 * 2 ^ N.of_nat f ->
  stc (S f) a m <= m - 1 /\
  (a + 2 ^ (l + 1) <= FB -> stc (S f) a m = m - 1) /\
  forall s, a <= s -> s < a + shlen m ->
    (ins FB s = true -> pers B s = true -> sh_post_pos (S f) a m s < stc (S f) a m) /\
    (ins FB s = false -> pers B s = true -> a + m = B -> stc (S f) a m <= sh_post_pos (S f) a m s).
Proof.
  apply (shape_ind B (fun f a m l c =>
    stc f a m <= m - 1 /\
    (a + 2 ^ (l + 1) <= FB -> stc f a m = m - 1) /\
    forall s, a <= s -> s < a + shlen m ->
      (ins FB s = true -> pers B s = true -> sh_post_pos f a m s < stc f a m) /\
      (ins FB s = false -> pers B s = true -> a + m = B -> stc f a m <= sh_post_pos f a m s))).
  - intros f a m c W Hm.
    pose proof (nav_a _ _ _ _ _ W) as Ha.
    pose proof (spine_level a 0 c Ha) as Lv. rewrite spine_0 in Lv.
    pose proof (nleft_spine a 0 c Ha) as Nl. rewrite spine_0 in Nl.
    assert (Ep : pers B a = (a + 1 <? B)).
    { unfold pers. rewrite Lv. reflexivity. }
    assert (Ei : ins FB a = (a + 2 <=? FB)).
    { unfold ins. rewrite Lv, Nl. reflexivity. }
    unfold stc. rewrite sh_pre_leaf by assumption. cbn [filter]. rewrite Ep, Ei.
    destruct W as (W1 & W2 & _ & _ & _ & W6). change (2 ^ (0 + 1)) with 2 in *.
    assert (Hs : forall s, a <= s -> s < a + shlen m -> s = a) by (intros s A C; unfold shlen in C; lia).
    destruct (N.ltb_spec (a + 1) B) as [P1|P1], (N.leb_spec (a + 2) FB) as [I1|I1]; cbn [andb length N.of_nat].
    + split; [lia|]. split; [lia|]. intros s A C. rewrite (Hs s A C). rewrite sh_post_pos_leaf by assumption.
      split; [intros _ _; lia|]. rewrite Ei. destruct (N.leb_spec (a + 2) FB); [discriminate|lia].
    + split; [lia|]. split; [lia|]. intros s A C. rewrite (Hs s A C). rewrite sh_post_pos_leaf by assumption.
      split; [|intros _ _ _; lia]. rewrite Ei. destruct (N.leb_spec (a + 2) FB); [lia|discriminate].
    + lia.
    + split; [lia|]. split; [lia|]. intros s A C. rewrite (Hs s A C). rewrite sh_post_pos_leaf by assumption.
      split; [|intros _ _ _; lia]. rewrite Ei. destruct (N.leb_spec (a + 2) FB); [lia|discriminate].
  - intros f a m l c l' c' W Hm Hl Hl' WL WR Hsp Hf1 Hf2 IH1 IH2.
    destruct IH1 as (A1 & A2 & A3). destruct IH2 as (C1 & C2 & C3).
    replace (l - 1 + 1) with l in A2 by lia.
    pose proof (nav_a _ _ _ _ _ W) as Ha.
    destruct (wf_large _ _ _ _ _ W Hm) as [_ Hlt].
    assert (Hmu : m <= 2 ^ (l + 1)) by (destruct W as (_ & _ & _ & W4 & _); exact W4).
    assert (Hab : a + m <= B) by (destruct W as (_ & W2 & _); exact W2).
    assert (Hsh : a + m = B \/ m = 2 ^ (l + 1)) by (destruct W as (_ & _ & _ & _ & _ & W6); exact W6).
    pose proof (shlen_pow l Hl) as E1. pose proof (shlen_split m l Hl Hlt) as E2.
    pose proof (shlen_lt_pow m l ltac:(lia) Hmu) as E3.
    pose proof (spine_level a l c Ha) as Rl. pose proof (nleft_spine a l c Ha) as Rn.
    pose proof (pow2_ge2 l Hl) as G2.
    assert (P2 : 2 ^ (l' + 1) <= 2 ^ l) by (apply pow2_le_mono; lia).
    rewrite (pow2_succ l) in *.
    (* the stable count splits *)
    assert (Pr : pers B (spine a l) = true).
    { unfold pers. rewrite Rl. destruct (N.ltb_spec 0 l); [reflexivity|lia]. }
    assert (Ir : ins FB (spine a l) = (a + 2 * 2 ^ l <=? FB)).
    { unfold ins. rewrite Rl, Rn, pow2_succ. reflexivity. }
    assert (Es : stc (S (S f)) a m =
                 b2n (a + 2 * 2 ^ l <=? FB) + stc (S f) a (2 ^ l) + stc (S f) (a + 2 ^ l) (m - 2 ^ l)).
    { unfold stc. rewrite (sh_pre_node B _ _ _ _ _ W Hm). cbn [filter]. rewrite Pr, Ir. cbn [andb].
      destruct (a + 2 * 2 ^ l <=? FB); cbn [b2n length]; rewrite filter_app, app_length; lia. }
    specialize (A2 ltac:(lia)).
    assert (Case : (a + 2 * 2 ^ l <= FB /\ stc (S (S f)) a m = m - 1) \/
                   (FB < a + 2 * 2 ^ l /\
                    stc (S (S f)) a m = 2 ^ l - 1 + stc (S f) (a + 2 ^ l) (m - 2 ^ l))).
    { destruct (N.leb_spec (a + 2 * 2 ^ l) FB) as [I1|I1]; cbn [b2n] in Es.
      - left. split; [assumption|]. rewrite Es, A2, (C2 ltac:(lia)). lia.
      - right. split; [assumption|]. rewrite Es, A2. lia. }
    split; [destruct Case as [[_ K]|[_ K]]; rewrite K; lia|].
    split; [intros I1; destruct Case as [[_ K]|[K _]]; [exact K|lia]|].
    intros s H1 H2.
    rewrite (sh_post_pos_node B _ _ _ _ _ _ W Hm).
    destruct (N.eqb_spec s (spine a l)) as [Eq|Ne].
    + rewrite Eq, Ir. split.
      * intros I1 _. apply N.leb_le in I1. destruct Case as [[_ K]|[K _]]; [rewrite K; lia|lia].
      * intros I1 _ _. apply N.leb_gt in I1. destruct Case as [[K _]|[_ K]]; [lia|rewrite K; lia].
    + destruct (N.ltb_spec s (spine a l)) as [Lt|Ge].
      * assert (Ha2 : a = (2 * c) * 2 ^ (l - 1 + 1)).
        { replace (l - 1 + 1) with l by lia. rewrite Ha. lia. }
        destruct (sub_contained a (l - 1) (2 * c) s Ha2 H1) as (S1 & S2 & S3).
        { replace (l - 1 + 1) with l by lia. unfold spine in Lt. lia. }
        replace (l - 1 + 1) with l in S2 by lia.
        assert (Hi : ins FB s = true) by (unfold ins; apply N.leb_le; lia).
        destruct (A3 s H1 ltac:(unfold spine in Lt; lia)) as [T1 _].
        split; [|intros Hn; rewrite Hi in Hn; discriminate].
        intros _ Hp. pose proof (T1 Hi Hp).
        destruct Case as [[_ K]|[_ K]]; rewrite K; lia.
      * assert (Ge' : a + 2 ^ l <= s) by (unfold spine in *; lia).
        pose proof (nav_a _ _ _ _ _ WR) as Ha'.
        assert (Hm' : 1 <= m - 2 ^ l /\ m - 2 ^ l <= 2 ^ (l' + 1)) by (destruct WR as (W1 & _ & _ & W4 & _); split; assumption).
        pose proof (shlen_lt_pow (m - 2 ^ l) l' (proj1 Hm') (proj2 Hm')) as E4.
        destruct (sub_contained (a + 2 ^ l) l' c' s Ha' Ge' ltac:(lia)) as (S1 & S2 & S3).
        destruct (C3 s Ge' ltac:(lia)) as [T1 T2].
        split.
        -- intros Hi Hp. pose proof (T1 Hi Hp).
           destruct Case as [[_ K]|[_ K]]; rewrite K; lia.
        -- intros Hn Hp Hb. pose proof (T2 Hn Hp ltac:(lia)).
           destruct Case as [[K _]|[_ K]]; [|rewrite K; lia].
           exfalso. unfold ins in Hn. apply N.leb_gt in Hn. lia.
Qed.
End Layout.

Lemma stable_count_eq size bs : size <= 2 ^ 63 -> bs <= 10 ->
  sp_stable_count size bs = stc (sp_blocks size bs) (size / (1024 * 2 ^ bs)) 65 0 (sp_blocks size bs).
Proof.
  intros Hs Hb. destruct (shifted_spec size bs) as (l0 & W & _).
  pose proof (sp_blocks_60 size bs Hs) as HB.
  unfold sp_stable_count, stc. rewrite sp_pre_nodes_eq, filter_map_comm, map_length.
  f_equal. f_equal. apply filter_ext_in'. intros x Hx.
  apply (sh_pre_range _ 64 _ _ _ _ W (fuel64 _ HB)) in Hx.
  assert (Hin : x + 1 <= shlen (sp_blocks size bs)) by lia.
  now rewrite (pers_spec size bs x Hs Hb Hin), (ins_spec size bs x Hs Hb Hin).
Qed.

Theorem layout_spec size bs nd v : size <= 2 ^ 63 -> bs <= 10 -> In nd (sp_post_nodes size bs) ->
  (post_order_offset (mkTree size bs) nd = Some (Stable v) -> v < sp_stable_count size bs) /\
  (post_order_offset (mkTree size bs) nd = Some (Unstable v) -> sp_stable_count size bs <= v).
Proof.
  intros Hs Hb H. destruct (post_listed size bs nd Hs H) as (s & -> & Hin & _).
  destruct (shifted_spec size bs) as (l0 & W & _).
  pose proof (sp_blocks_60 size bs Hs) as HB.
  destruct (full_blocks_bounds size bs) as [F1 F2].
  rewrite (stable_count_eq size bs Hs Hb).
  pose proof (post_offset_pos size bs l0 s Hs Hb W Hin) as E.
  pose proof (inside_persisted size bs s Hs Hb Hin) as IP.
  rewrite (post_offset_listed size bs s Hs Hb Hin) in *.
  rewrite (ins_spec size bs s Hs Hb Hin), (pers_spec size bs s Hs Hb Hin) in *.
  set (nb := sp_blocks size bs) in *. set (FB := size / (1024 * 2 ^ bs)) in *.
  destruct (layout_shape nb FB F1 F2 64 0 nb l0 0 W (fuel64 _ HB)) as (_ & _ & Q).
  destruct (Q s ltac:(lia) ltac:(lia)) as [Q1 Q2]. change (S 64) with 65%nat in Q1, Q2.
  clear Q.
  remember (sh_post_pos 65 0 nb s) as pos eqn:Epos. clear Epos.
  remember (stc nb FB 65 0 nb) as cnt eqn:Ecnt. clear Ecnt.
  destruct (ins FB s) eqn:Ei.
  - specialize (IP eq_refl). rewrite IP in E. cbn [option_map po_value] in E.
    split; [|intros D; discriminate]. intros D. injection D as <-. injection E as ->.
    exact (Q1 eq_refl IP).
  - destruct (pers nb s) eqn:Ep.
    + cbn [option_map po_value] in E. split; [intros D; discriminate|].
      intros D. injection D as <-. injection E as ->. exact (Q2 eq_refl eq_refl ltac:(lia)).
    + split; intros D; discriminate.
Qed.
