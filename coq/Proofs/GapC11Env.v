(* C11 gap: the two loops the model treats as ATOMIC, over an environment that slices them.

   ENVIRONMENT MODEL, NOT CRATE CODE.  Nothing in this file transcribes bao-tree.  It defines
     - a byte SINK whose `write(buf)` accepts a short count per call (and may return Interrupted,
       or Pending polls, or be full), with the std / tokio `write_all` loops over it;
     - a POSITIONED STORE whose `read_at(pos, buf)` returns a short count per call (or Interrupted),
       with positioned_io's default `read_exact_at` loop over it;
   and proves that for EVERY schedule these loops compute exactly what the model uses in their place:
     (1) every stream write (`std::io::Write::write_all` in src/io/sync.rs:395-494, 612-613; tokio
         `AsyncWriteExt::write_all` behind iroh-io's AsyncStreamWriter::write / write_bytes in
         src/io/fsm.rs) is modelled as `out ++ buf`;
     (2) every `positioned_io::ReadAt::read_exact_at` (sync.rs:151, 255, 402, 469, 713, 744;
         mixed.rs:370) is modelled by `read_exact_at HO data off len` of Model/Sync.v.
   The schedule type `ev` is that of Model/IOSched.v: `EFrag n` = this call transfers at most
   max n 1 bytes, `EIntr` = this call returns Interrupted, `EPending` = a Pending poll (skipped: an
   `.await` / a blocking call is "poll until ready"); an exhausted schedule transfers all that is asked. *)
From BaoV Require Import Model.IOSched Proofs.IOReadExact.
From Coq Require Import Lia.

Arguments N.mul : simpl never. Arguments N.add : simpl never. Arguments N.sub : simpl never.
Arguments N.min : simpl never. Arguments N.max : simpl never.

Section Env.
Variable HO : hops.
Notation bytes := (bytes HO).
Notation hash := (hash HO).
Notation take := (take HO).
Notation drop := (drop HO).
Notation blen := (blen HO).

(* ================= environment: a sink accepting short counts ================= *)
(* sk_cap = total capacity of the sink: once `blen sk_out` reaches it a write accepts 0 bytes
   (None = unbounded) *)
Record sink := mkSink { sk_out : bytes; sk_sched : list ev; sk_cap : option N }.

(* the count the transport would take, further limited by the room that is left *)
Definition lim_cap (w : sink) (n : N) : N :=
  match sk_cap w with
  | None => n
  | Some c => N.min n (c - blen (sk_out w))
  end.

(* one write(buf) call, buf non-empty, polled to readiness *)
Definition wr_write (w : sink) (buf : bytes) : res io_kind N * sink :=
  match drop_pending (sk_sched w) with
  | EIntr :: s' => (Err KInterrupted, mkSink (sk_out w) s' (sk_cap w))
  | EFrag m :: s' => let n := lim_cap w (N.min (N.max m 1) (blen buf)) in
                     (Ok n, mkSink (sk_out w ++ take n buf) s' (sk_cap w))
  | _ => let n := lim_cap w (blen buf) in
         (Ok n, mkSink (sk_out w ++ take n buf) [] (sk_cap w))
  end.

(* std::io::Write::write_all (default): while !buf.is_empty() { match write(buf) {
     Ok(0) => return Err(WriteZero), Ok(n) => buf = &buf[n..],
     Err(Interrupted) => {}, Err(e) => return Err(e) } } *)
Fixpoint write_all_std (fuel : nat) (w : sink) (buf : bytes) : res io_kind unit * sink :=
  match fuel with
  | O => (Panic, w)
  | S f =>
    if blen buf =? 0 then (Ok tt, w)
    else match wr_write w buf with
         | (Ok n, w') => if n =? 0 then (Err KWriteZero, w') else write_all_std f w' (drop n buf)
         | (Err KInterrupted, w') => write_all_std f w' buf
         | (Err k, w') => (Err k, w')
         | (Panic, w') => (Panic, w')
         end
  end.
(* fuel: every call shortens buf, or consumes a schedule event, or ends the loop *)
Definition wa_fuel (w : sink) (buf : bytes) : nat := S (length buf + length (sk_sched w)).
Definition write_all_sync (w : sink) (buf : bytes) : res io_kind unit * sink :=
  write_all_std (wa_fuel w buf) w buf.

(* tokio AsyncWriteExt::write_all: the same loop, every error is propagated (no Interrupted retry) *)
Fixpoint write_all_tokio_loop (fuel : nat) (w : sink) (buf : bytes) : res io_kind unit * sink :=
  match fuel with
  | O => (Panic, w)
  | S f =>
    if blen buf =? 0 then (Ok tt, w)
    else match wr_write w buf with
         | (Ok n, w') => if n =? 0 then (Err KWriteZero, w') else write_all_tokio_loop f w' (drop n buf)
         | (Err k, w') => (Err k, w')
         | (Panic, w') => (Panic, w')
         end
  end.
Definition write_all_tokio (w : sink) (buf : bytes) : res io_kind unit * sink :=
  write_all_tokio_loop (wa_fuel w buf) w buf.

(* ================= environment: a positioned store returning short counts ================= *)
Record pstore := mkPS { ps_data : bytes; ps_sched : list ev }.

(* one read_at(off, buf) call, |buf| = len > 0: 0 bytes exactly when off >= blen data *)
Definition ps_read_at (p : pstore) (off len : N) : res io_kind bytes * pstore :=
  match drop_pending (ps_sched p) with
  | EIntr :: s' => (Err KInterrupted, mkPS (ps_data p) s')
  | EFrag m :: s' => (Ok (take (N.min (N.max m 1) len) (drop off (ps_data p))), mkPS (ps_data p) s')
  | _ => (Ok (take len (drop off (ps_data p))), mkPS (ps_data p) [])
  end.

(* positioned_io::ReadAt::read_exact_at (default): while !buf.is_empty() { match read_at(pos, buf) {
     Ok(0) => break, Ok(n) => { buf = &mut buf[n..]; pos += n }, Err(Interrupted) => {},
     Err(e) => return Err(e) } }  if !buf.is_empty() { Err(UnexpectedEof) } else { Ok(()) } *)
Fixpoint read_exact_at_loop (fuel : nat) (p : pstore) (off len : N) (acc : bytes) : res io_kind bytes * pstore :=
  match fuel with
  | O => (Panic, p)
  | S f =>
    if len =? 0 then (Ok acc, p)
    else match ps_read_at p off len with
         | (Ok got, p') => if blen got =? 0 then (Err KUnexpectedEof, p')
                           else read_exact_at_loop f p' (off + blen got) (len - blen got) (acc ++ got)
         | (Err KInterrupted, p') => read_exact_at_loop f p' off len acc
         | (Err k, p') => (Err k, p')
         | (Panic, p') => (Panic, p')
         end
  end.
Definition read_exact_at_sched (p : pstore) (off len : N) : res io_kind bytes * pstore :=
  read_exact_at_loop (S (N.to_nat len + length (ps_sched p))) p off len [].

(* ================= the sink: one call ================= *)
Inductive write_out (w : sink) (buf : bytes) : res io_kind N * sink -> Prop :=
| WO_intr s' : suffix (EIntr :: s') (sk_sched w) ->
    write_out w buf (Err KInterrupted, mkSink (sk_out w) s' (sk_cap w))
| WO_data j s' : 1 <= j <= blen buf -> suffix s' (sk_sched w) ->
    write_out w buf (Ok (lim_cap w j), mkSink (sk_out w ++ take (lim_cap w j) buf) s' (sk_cap w)).

Lemma wr_write_out w buf : 0 < blen buf -> write_out w buf (wr_write w buf).
Proof.
  intros Hb. unfold wr_write.
  pose proof (drop_pending_suffix (sk_sched w)) as Hs.
  pose proof (drop_pending_head (sk_sched w)) as Hh.
  destruct (drop_pending (sk_sched w)) as [|[m| |] s'].
  - cbv zeta. apply WO_data; [lia | apply suffix_nil].
  - cbv zeta. apply WO_data; [lia | eapply suffix_cons; exact Hs].
  - apply WO_intr. exact Hs.
  - exfalso. eapply Hh. reflexivity.
Qed.

Lemma take_drop_id n (d : bytes) : take n d ++ drop n d = d.
Proof. unfold Hash.take, Hash.drop. apply firstn_skipn. Qed.
Lemma take_nil n : take n [] = [].
Proof. unfold Hash.take. apply firstn_nil. Qed.
Lemma length_drop n (d : bytes) : length (drop n d) = (length d - N.to_nat n)%nat.
Proof. unfold Hash.drop. apply skipn_length. Qed.

(* ================= write_all: the general statement ================= *)
(* does everything fit / what ends up stored *)
Definition fits (w : sink) (buf : bytes) : bool :=
  match sk_cap w with None => true | Some c => blen (sk_out w) + blen buf <=? c end.
Definition stored (w : sink) (buf : bytes) : bytes :=
  match sk_cap w with None => buf | Some c => take (c - blen (sk_out w)) buf end.
Definition cap_ok (w : sink) : Prop := forall c, sk_cap w = Some c -> blen (sk_out w) <= c.

Lemma write_all_std_spec : forall fuel w buf,
  (length buf + length (sk_sched w) < fuel)%nat -> cap_ok w ->
  exists w', write_all_std fuel w buf = ((if fits w buf then Ok tt else Err KWriteZero), w') /\
     sk_out w' = sk_out w ++ stored w buf /\ sk_cap w' = sk_cap w /\ suffix (sk_sched w') (sk_sched w).
Proof.
  induction fuel as [|f IH]; intros w buf Hm Hok; [lia|].
  cbn [write_all_std]. destruct (blen buf =? 0) eqn:Eb.
  { apply N.eqb_eq in Eb. pose proof (blen_0_nil HO buf Eb) as ->. exists w.
    unfold fits, stored, cap_ok in *. destruct (sk_cap w) as [c|].
    - specialize (Hok c eq_refl). replace (blen (sk_out w) + blen [] <=? c) with true
        by (symmetry; apply N.leb_le; rewrite (blen_nil HO); lia).
      rewrite take_nil, app_nil_r. repeat split; apply suffix_refl.
    - rewrite app_nil_r. repeat split; apply suffix_refl. }
  apply N.eqb_neq in Eb. assert (Hb : 0 < blen buf) by lia.
  pose proof (wr_write_out w buf Hb) as Hwo.
  remember (wr_write w buf) as o eqn:Eo. destruct Hwo as [s' Hs | j s' Hj Hs].
  - (* Interrupted: retry *)
    pose proof (suffix_length _ _ Hs) as Hl. cbn [length] in Hl.
    destruct (IH (mkSink (sk_out w) s' (sk_cap w)) buf) as (w' & He & Ho & Hc & Hsf).
    { cbn [sk_sched]. lia. }
    { exact Hok. }
    exists w'. split; [exact He|]. cbn [sk_out sk_sched sk_cap] in *.
    split; [exact Ho|]. split; [exact Hc|]. eapply suffix_trans; [exact Hsf | eapply suffix_cons; exact Hs].
  - (* some count accepted *)
    pose proof (suffix_length _ _ Hs) as Hl.
    destruct w as [out sched cap]. unfold lim_cap, fits, stored, cap_ok in *. cbn [sk_out sk_sched sk_cap] in *.
    destruct cap as [c|].
    + specialize (Hok c eq_refl).
      destruct (N.min j (c - blen out) =? 0) eqn:E0.
      { apply N.eqb_eq in E0. assert (Hc : c - blen out = 0) by lia.
        eexists. split.
        { replace (blen out + blen buf <=? c) with false by (symmetry; apply N.leb_gt; lia). reflexivity. }
        cbn [sk_out sk_sched sk_cap]. rewrite E0, Hc. split; [reflexivity|]. split; [reflexivity | exact Hs]. }
      apply N.eqb_neq in E0. remember (N.min j (c - blen out)) as n eqn:En.
      destruct (IH (mkSink (out ++ take n buf) s' (Some c)) (drop n buf)) as (w' & He & Ho & Hc & Hsf).
      { cbn [sk_sched]. rewrite length_drop. unfold Hash.blen in *. lia. }
      { intros c' [= <-]. cbn [sk_out]. rewrite (blen_app HO), (blen_take HO). lia. }
      exists w'. cbn [sk_out sk_sched sk_cap] in *. split.
      { rewrite He. f_equal. rewrite (blen_app HO), (blen_take HO), (blen_drop HO).
        replace (blen out + N.min n (blen buf) + (blen buf - n) <=? c) with (blen out + blen buf <=? c); [reflexivity|].
        destruct (blen out + blen buf <=? c) eqn:E1; symmetry.
        - apply N.leb_le in E1. apply N.leb_le. lia.
        - apply N.leb_gt in E1. apply N.leb_gt. lia. }
      split.
      { rewrite Ho, <- app_assoc. f_equal. rewrite (blen_app HO), (blen_take HO).
        transitivity (take (n + (c - (blen out + N.min n (blen buf)))) buf);
          [now rewrite (take_add HO) | f_equal; lia]. }
      split; [exact Hc|]. eapply suffix_trans; [exact Hsf | exact Hs].
    + replace (j =? 0) with false by (symmetry; apply N.eqb_neq; lia).
      destruct (IH (mkSink (out ++ take j buf) s' None) (drop j buf)) as (w' & He & Ho & Hc & Hsf).
      { cbn [sk_sched]. rewrite length_drop. unfold Hash.blen in *. lia. }
      { intros c' [=]. }
      exists w'. cbn [sk_out sk_sched sk_cap] in *. split; [exact He|]. split.
      { rewrite Ho, <- app_assoc, take_drop_id. reflexivity. }
      split; [exact Hc|]. eapply suffix_trans; [exact Hsf | exact Hs].
Qed.

(* T1: over an unbounded sink std's write_all stores exactly `out ++ buf`, whatever the schedule *)
Theorem write_all_sync_indep : forall w buf, sk_cap w = None ->
  exists w', write_all_sync w buf = (Ok tt, w') /\ sk_out w' = sk_out w ++ buf /\ sk_cap w' = None /\
     suffix (sk_sched w') (sk_sched w).
Proof.
  intros w buf Hc. unfold write_all_sync, wa_fuel.
  destruct (write_all_std_spec (S (length buf + length (sk_sched w))) w buf) as (w' & He & Ho & Hc' & Hs).
  { lia. }
  { intros c Hc2. congruence. }
  exists w'. unfold fits, stored in *. rewrite Hc in *. now repeat split.
Qed.

(* T3: a sink with `cap` bytes of room in total.  Whatever the schedule, write_all succeeds iff
   everything fits; otherwise it fails with WriteZero once the sink holds exactly `cap` bytes, and what
   it stored is a prefix of what the unbounded run stores. *)
Theorem write_all_sync_full : forall w buf cap, sk_cap w = Some cap -> blen (sk_out w) <= cap ->
  exists w', write_all_sync w buf
             = ((if blen (sk_out w) + blen buf <=? cap then Ok tt else Err KWriteZero), w') /\
     sk_out w' = sk_out w ++ take (cap - blen (sk_out w)) buf /\ sk_cap w' = Some cap /\
     suffix (sk_sched w') (sk_sched w).
Proof.
  intros w buf cap Hc Hle. unfold write_all_sync, wa_fuel.
  destruct (write_all_std_spec (S (length buf + length (sk_sched w))) w buf) as (w' & He & Ho & Hc' & Hs).
  { lia. }
  { intros c Hc2. rewrite Hc in Hc2. injection Hc2 as <-. exact Hle. }
  exists w'. unfold fits, stored in *. rewrite Hc in *. now repeat split.
Qed.
(* the two cases of T3 spelt out *)
Corollary write_all_sync_full_fits : forall w buf cap, sk_cap w = Some cap ->
  blen (sk_out w) + blen buf <= cap ->
  exists w', write_all_sync w buf = (Ok tt, w') /\ sk_out w' = sk_out w ++ buf.
Proof.
  intros w buf cap Hc Hle. destruct (write_all_sync_full w buf cap Hc ltac:(lia)) as (w' & He & Ho & _).
  exists w'. replace (blen (sk_out w) + blen buf <=? cap) with true in He by (symmetry; apply N.leb_le; exact Hle).
  split; [exact He|]. rewrite Ho, (take_all HO) by lia. reflexivity.
Qed.
Corollary write_all_sync_full_overflow : forall w buf cap, sk_cap w = Some cap ->
  blen (sk_out w) <= cap -> cap < blen (sk_out w) + blen buf ->
  exists w', write_all_sync w buf = (Err KWriteZero, w') /\ blen (sk_out w') = cap /\
     exists rest, sk_out w ++ buf = sk_out w' ++ rest.
Proof.
  intros w buf cap Hc Hle Hlt. destruct (write_all_sync_full w buf cap Hc Hle) as (w' & He & Ho & _).
  exists w'. replace (blen (sk_out w) + blen buf <=? cap) with false in He by (symmetry; apply N.leb_gt; exact Hlt).
  split; [exact He|]. split.
  - rewrite Ho, (blen_app HO), (blen_take HO). lia.
  - exists (drop (cap - blen (sk_out w)) buf). rewrite Ho, <- app_assoc, take_drop_id. reflexivity.
Qed.

(* ================= tokio's write_all ================= *)
Definition sk_no_intr (w : sink) : Prop := forall e, In e (sk_sched w) -> e <> EIntr.

Lemma write_all_tokio_std : forall fuel w buf, sk_no_intr w ->
  write_all_tokio_loop fuel w buf = write_all_std fuel w buf.
Proof.
  induction fuel as [|f IH]; intros w buf Hni; [reflexivity|].
  cbn [write_all_tokio_loop write_all_std]. destruct (blen buf =? 0) eqn:Eb; [reflexivity|].
  apply N.eqb_neq in Eb. assert (Hb : 0 < blen buf) by lia.
  pose proof (wr_write_out w buf Hb) as Hwo.
  remember (wr_write w buf) as o eqn:Eo. destruct Hwo as [s' Hs | j s' Hj Hs].
  - exfalso. apply (Hni EIntr); [|reflexivity]. eapply suffix_In; [exact Hs | now left].
  - destruct (lim_cap w j =? 0); [reflexivity|]. apply IH.
    intros e He. cbn [sk_sched] in He. apply Hni. eapply suffix_In; eassumption.
Qed.

(* T2 *)
Theorem write_all_tokio_indep : forall w buf, sk_cap w = None ->
  (forall e, In e (sk_sched w) -> e <> EIntr) ->
  exists w', write_all_tokio w buf = (Ok tt, w') /\ sk_out w' = sk_out w ++ buf /\ sk_cap w' = None /\
     suffix (sk_sched w') (sk_sched w).
Proof.
  intros w buf Hc Hni. unfold write_all_tokio. rewrite write_all_tokio_std by exact Hni.
  apply write_all_sync_indep. exact Hc.
Qed.
Theorem write_all_tokio_full : forall w buf cap, sk_cap w = Some cap -> blen (sk_out w) <= cap ->
  (forall e, In e (sk_sched w) -> e <> EIntr) ->
  exists w', write_all_tokio w buf
             = ((if blen (sk_out w) + blen buf <=? cap then Ok tt else Err KWriteZero), w') /\
     sk_out w' = sk_out w ++ take (cap - blen (sk_out w)) buf /\ sk_cap w' = Some cap /\
     suffix (sk_sched w') (sk_sched w).
Proof.
  intros w buf cap Hc Hle Hni. unfold write_all_tokio. rewrite write_all_tokio_std by exact Hni.
  apply write_all_sync_full; assumption.
Qed.
(* the hypothesis is needed: tokio's write_all hands an Interrupted to its caller, with nothing
   written (std's retries it) *)
Theorem write_all_tokio_interrupted_is_propagated :
  write_all_tokio (mkSink [] [EIntr] None) [bzero HO] = (Err KInterrupted, mkSink [] [] None).
Proof. reflexivity. Qed.
Theorem write_all_sync_interrupted_is_retried :
  write_all_sync (mkSink [] [EIntr] None) [bzero HO] = (Ok tt, mkSink [bzero HO] [] None).
Proof. reflexivity. Qed.

(* ================= the positioned store ================= *)
Inductive pread_out (p : pstore) (off len : N) : res io_kind bytes * pstore -> Prop :=
| PO_intr s' : suffix (EIntr :: s') (ps_sched p) ->
    pread_out p off len (Err KInterrupted, mkPS (ps_data p) s')
| PO_data j s' : 1 <= j <= len -> suffix s' (ps_sched p) ->
    pread_out p off len (Ok (take j (drop off (ps_data p))), mkPS (ps_data p) s').

Lemma ps_read_at_out p off len : 0 < len -> pread_out p off len (ps_read_at p off len).
Proof.
  intros Hlen. unfold ps_read_at.
  pose proof (drop_pending_suffix (ps_sched p)) as Hs.
  pose proof (drop_pending_head (ps_sched p)) as Hh.
  destruct (drop_pending (ps_sched p)) as [|[m| |] s'].
  - apply PO_data; [lia | apply suffix_nil].
  - apply PO_data; [lia | eapply suffix_cons; exact Hs].
  - apply PO_intr. exact Hs.
  - exfalso. eapply Hh. reflexivity.
Qed.

(* what the loop returns, in terms of the bytes from `off` on *)
Definition at_post (data : bytes) (off len : N) (acc : bytes) (x : res io_kind bytes) : Prop :=
  (len <= blen (drop off data) /\ x = Ok (acc ++ take len (drop off data)))
  \/ (blen (drop off data) < len /\ x = Err KUnexpectedEof).

Lemma read_exact_at_loop_spec : forall fuel p off len acc,
  (N.to_nat len + length (ps_sched p) < fuel)%nat ->
  exists x p', read_exact_at_loop fuel p off len acc = (x, p') /\ ps_data p' = ps_data p /\
     suffix (ps_sched p') (ps_sched p) /\ at_post (ps_data p) off len acc x.
Proof.
  induction fuel as [|f IH]; intros p off len acc Hm; [lia|].
  cbn [read_exact_at_loop]. destruct (len =? 0) eqn:El.
  { apply N.eqb_eq in El. subst len. exists (Ok acc), p.
    split; [reflexivity|]. split; [reflexivity|]. split; [apply suffix_refl|].
    left. rewrite (take_0 HO), app_nil_r. split; [lia | reflexivity]. }
  apply N.eqb_neq in El. assert (Hlen : 0 < len) by lia.
  pose proof (ps_read_at_out p off len Hlen) as Hpo.
  remember (ps_read_at p off len) as o eqn:Eo. destruct Hpo as [s' Hs | j s' Hj Hs].
  - pose proof (suffix_length _ _ Hs) as Hl. cbn [length] in Hl.
    destruct (IH (mkPS (ps_data p) s') off len acc) as (x & p' & He & Hd & Hsf & Hp).
    { cbn [ps_sched]. lia. }
    exists x, p'. cbn [ps_data ps_sched] in *. split; [exact He|]. split; [exact Hd|].
    split; [eapply suffix_trans; [exact Hsf | eapply suffix_cons; exact Hs] | exact Hp].
  - pose proof (suffix_length _ _ Hs) as Hl.
    rewrite (blen_take HO). remember (drop off (ps_data p)) as rest eqn:Erest.
    destruct (N.min j (blen rest) =? 0) eqn:E0.
    { apply N.eqb_eq in E0. eexists (Err KUnexpectedEof), _. split; [reflexivity|].
      cbn [ps_data ps_sched]. split; [reflexivity|]. split; [exact Hs|].
      right. rewrite <- Erest. split; [lia | reflexivity]. }
    apply N.eqb_neq in E0.
    destruct (IH (mkPS (ps_data p) s') (off + N.min j (blen rest)) (len - N.min j (blen rest)) (acc ++ take j rest))
      as (x & p' & He & Hd & Hsf & Hp).
    { cbn [ps_sched]. lia. }
    exists x, p'. cbn [ps_data ps_sched] in *. split; [exact He|]. split; [exact Hd|].
    split; [eapply suffix_trans; [exact Hsf | exact Hs]|].
    unfold at_post in *. rewrite (drop_add HO), <- Erest, (blen_drop HO) in Hp. rewrite <- Erest.
    destruct Hp as [(Hle & Hx) | (Hlt & Hx)].
    + left. assert (Hjr : j <= blen rest) by lia. rewrite N.min_l in * by exact Hjr.
      split; [lia|]. rewrite Hx, <- app_assoc, <- (take_add HO).
      replace (j + (len - j)) with len by lia. reflexivity.
    + right. split; [lia | exact Hx].
Qed.

(* T4: positioned_io's read_exact_at loop over a store that returns short counts / Interrupted
   computes exactly the atomic `read_exact_at` of Model/Sync.v, for every schedule *)
Theorem read_exact_at_sched_indep : forall p off len,
  exists p', read_exact_at_sched p off len = (read_exact_at HO (ps_data p) off len, p') /\
     ps_data p' = ps_data p /\ suffix (ps_sched p') (ps_sched p).
Proof.
  intros p off len. unfold read_exact_at_sched.
  destruct (read_exact_at_loop_spec (S (N.to_nat len + length (ps_sched p))) p off len []) as (x & p' & He & Hd & Hs & Hp).
  { lia. }
  exists p'. split; [|split; assumption]. rewrite He. f_equal.
  unfold read_exact_at, slice. rewrite (blen_take HO).
  destruct Hp as [(Hle & Hx) | (Hlt & Hx)]; subst x.
  - replace (N.min len (blen (drop off (ps_data p))) =? len) with true by (symmetry; apply N.eqb_eq; lia).
    reflexivity.
  - replace (N.min len (blen (drop off (ps_data p))) =? len) with false by (symmetry; apply N.eqb_neq; lia).
    reflexivity.
Qed.
(* the schedule is irrelevant: same result as the store that answers every call in full *)
Corollary read_exact_at_sched_plain : forall p off len,
  fst (read_exact_at_sched p off len) = fst (read_exact_at_sched (mkPS (ps_data p) []) off len).
Proof.
  intros p off len.
  destruct (read_exact_at_sched_indep p off len) as (p1 & E1 & _).
  destruct (read_exact_at_sched_indep (mkPS (ps_data p) []) off len) as (p2 & E2 & _).
  rewrite E1, E2. reflexivity.
Qed.
(* unlike write_all there is no tokio variant to worry about: an Interrupted is retried *)
Theorem read_exact_at_sched_interrupted_is_retried :
  read_exact_at_sched (mkPS [bzero HO] [EIntr; EPending; EFrag 0]) 0 1 = (Ok [bzero HO], mkPS [bzero HO] []).
Proof. reflexivity. Qed.

(* ================= T5: the sync encoder over both environments ================= *)
(* sync::encode_ranges (sync.rs:380-408) with its data reads going through the scheduled positioned
   store and its writes through the scheduled sink; same shape as `encode_loop` of Model/Sync.v
   (the outboard load stays the model's) *)
Fixpoint encode_loop_env (items : list chunk) (p : pstore) (ob : outboard HO) (w : sink)
  : res enc_err unit * pstore * sink :=
  match items with
  | [] => (Ok tt, p, w)
  | CParent node _ _ _ _ :: rest =>
      match load_sync HO ob node with
      | Ok (Some (l, r)) =>
          match write_all_sync w (combine_pair HO l r) with
          | (Ok _, w') => encode_loop_env rest p ob w'
          | (Err k, w') => (Err (EIo k), p, w')
          | (Panic, w') => (Panic, p, w')
          end
      | Ok None => (Panic, p, w)
      | Err k => (Err (EIo k), p, w)
      | Panic => (Panic, p, w)
      end
  | CLeaf start size _ _ :: rest =>
      match read_exact_at_sched p (to_bytes start) size with
      | (Ok buf, p') =>
          match write_all_sync w buf with
          | (Ok _, w') => encode_loop_env rest p' ob w'
          | (Err k, w') => (Err (EIo k), p', w')
          | (Panic, w') => (Panic, p', w')
          end
      | (Err k, p') => (Err (EIo k), p', w)
      | (Panic, p') => (Panic, p', w)
      end
  end.

(* one leaf step *)
Theorem encode_leaf_step_env : forall p w start size, sk_cap w = None ->
  exists p' w',
    ps_data p' = ps_data p /\ suffix (ps_sched p') (ps_sched p) /\
    sk_cap w' = None /\ suffix (sk_sched w') (sk_sched w) /\
    match read_exact_at HO (ps_data p) (to_bytes start) size with
    | Ok buf => read_exact_at_sched p (to_bytes start) size = (Ok buf, p') /\
                write_all_sync w buf = (Ok tt, w') /\ sk_out w' = sk_out w ++ buf
    | Err k => read_exact_at_sched p (to_bytes start) size = (Err k, p') /\ w' = w
    | Panic => False
    end.
Proof.
  intros p w start size Hc.
  destruct (read_exact_at_sched_indep p (to_bytes start) size) as (p' & Hr & Hd & Hs).
  destruct (read_exact_at HO (ps_data p) (to_bytes start) size) as [buf|k|] eqn:Ex.
  - destruct (write_all_sync_indep w buf Hc) as (w' & Hw & Ho & Hc' & Hs').
    exists p', w'. now repeat split.
  - exists p', w. repeat split; try assumption. apply suffix_refl.
  - unfold read_exact_at in Ex. destruct (_ =? _) in Ex; discriminate.
Qed.

(* the whole encoder: for every read schedule and every write schedule the result and the bytes
   written are those of the model's atomic `encode_loop` *)
Theorem encode_loop_env_indep : forall items p ob w, sk_cap w = None ->
  exists p' w', encode_loop_env items p ob w = (fst (encode_loop HO items (ps_data p) ob (sk_out w)), p', w') /\
     sk_out w' = snd (encode_loop HO items (ps_data p) ob (sk_out w)) /\
     ps_data p' = ps_data p /\ sk_cap w' = None /\
     suffix (ps_sched p') (ps_sched p) /\ suffix (sk_sched w') (sk_sched w).
Proof.
  induction items as [|it rest IH]; intros p ob w Hc.
  { exists p, w. cbn [encode_loop_env encode_loop fst snd]. repeat split; try assumption; apply suffix_refl. }
  destruct it as [node ir lf rt rs | start size ir rs]; cbn [encode_loop_env encode_loop].
  - destruct (load_sync HO ob node) as [[[l r]|]|k|].
    + destruct (write_all_sync_indep w (combine_pair HO l r) Hc) as (w1 & Hw & Ho & Hc1 & Hs1).
      rewrite Hw. destruct (IH p ob w1 Hc1) as (p' & w' & He & Hout & Hd & Hc' & Hsp & Hsw).
      rewrite Ho in He, Hout. exists p', w'. repeat split; try assumption.
      eapply suffix_trans; eassumption.
    + exists p, w. cbn [fst snd]. repeat split; try assumption; apply suffix_refl.
    + exists p, w. cbn [fst snd]. repeat split; try assumption; apply suffix_refl.
    + exists p, w. cbn [fst snd]. repeat split; try assumption; apply suffix_refl.
  - destruct (read_exact_at_sched_indep p (to_bytes start) size) as (p1 & Hr & Hd1 & Hsp1). rewrite Hr.
    destruct (read_exact_at HO (ps_data p) (to_bytes start) size) as [buf|k|].
    + destruct (write_all_sync_indep w buf Hc) as (w1 & Hw & Ho & Hc1 & Hs1).
      rewrite Hw. destruct (IH p1 ob w1 Hc1) as (p' & w' & He & Hout & Hd & Hc' & Hsp & Hsw).
      rewrite Ho, Hd1 in He, Hout. exists p', w'. repeat split; try assumption; try congruence.
      * eapply suffix_trans; eassumption.
      * eapply suffix_trans; eassumption.
    + exists p1, w. cbn [fst snd]. repeat split; try assumption; apply suffix_refl.
    + exists p1, w. cbn [fst snd]. repeat split; try assumption; apply suffix_refl.
Qed.
(* sync::encode_ranges itself *)
Definition encode_ranges_env (p : pstore) (ob : outboard HO) (q : ranges) (w : sink) : res enc_err unit * pstore * sink :=
  encode_loop_env (pre_order_chunks_iter (ob_tree ob) q 0) p ob w.
Theorem encode_ranges_env_indep : forall p ob q ws,
  exists p' w', encode_ranges_env p ob q (mkSink [] ws None) = (fst (encode_ranges HO (ps_data p) ob q), p', w') /\
     sk_out w' = snd (encode_ranges HO (ps_data p) ob q) /\ ps_data p' = ps_data p /\
     suffix (ps_sched p') (ps_sched p) /\ suffix (sk_sched w') ws.
Proof.
  intros p ob q ws. unfold encode_ranges_env, encode_ranges.
  destruct (encode_loop_env_indep (pre_order_chunks_iter (ob_tree ob) q 0) p ob (mkSink [] ws None) eq_refl)
    as (p' & w' & He & Ho & Hd & _ & Hsp & Hsw).
  exists p', w'. cbn [sk_out sk_sched] in *. repeat split; assumption.
Qed.

End Env.

Print Assumptions write_all_sync_indep.
Print Assumptions write_all_tokio_indep.
Print Assumptions write_all_tokio_full.
Print Assumptions write_all_tokio_interrupted_is_propagated.
Print Assumptions write_all_sync_interrupted_is_retried.
Print Assumptions write_all_sync_full.
Print Assumptions write_all_sync_full_fits.
Print Assumptions write_all_sync_full_overflow.
Print Assumptions read_exact_at_sched_indep.
Print Assumptions read_exact_at_sched_plain.
Print Assumptions read_exact_at_sched_interrupted_is_retried.
Print Assumptions encode_leaf_step_env.
Print Assumptions encode_loop_env_indep.
Print Assumptions encode_ranges_env_indep.
