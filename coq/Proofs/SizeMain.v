(* C16, part 4: the response iterator ends (so dec_run / rd_run are the plan decoders), and the
   property theorems for the decoder state machines. *)
From BaoV Require Import Model.Fsm Spec.HashAssm Spec.EncSpec Spec.RangeSpec Spec.PlanSpec Spec.PlanWf.
From BaoV Require Import Proofs.PlanRun Proofs.PlanPreIter Proofs.PlanPreStruct Proofs.PlanProps.
From BaoV Require Import Proofs.RangeTrunc.
From BaoV Require Import Proofs.DecLoop Proofs.DecHash Proofs.DecTheorems.
From BaoV Require Import Proofs.SizeHash Proofs.SizeDec Proofs.SizeSpine.
From Coq Require Import Lia Arith.


(* ---- a complete trace bounds the iterator ---- *)
Lemma ends_within_steps {St A} (next : St -> option (A * St)) : forall st l st',
  steps next st l st' -> next st' = None -> ends_within next st (length l).
Proof.
  induction 1 as [st|st a st1 l st' Hn _ IH]; intro He.
  - cbn. rewrite He. exact I.
  - cbn [length ends_within]. rewrite Hn. apply IH. exact He.
Qed.

(* the response iterator of any geometry and well-formed query ends within fewer than 2^64 items,
   and yields the recursive plan *)
Lemma response_ends : forall size bs q, size <= 2 ^ 63 -> wf_ranges q = true ->
  exists n, ends_within response_next (response_new (mkTree size bs) q) n /\ N.of_nat n < 2 ^ 64 /\
            run_iter response_next (response_new (mkTree size bs) q) = pre_plan size 0 bs q.
Proof.
  intros size bs q Hsize Hwf.
  destruct (pre_plan_trace size 0 bs q Hsize ltac:(lia) Hwf) as (items & (st' & St & He) & Mp & Ln).
  assert (St' : steps response_next (response_new (mkTree size bs) q) (map without_ranges items) st').
  { unfold response_new. cbn [tsize tbs].
    apply (steps_map pp_next' without_ranges) in St. exact St. }
  assert (He' : response_next st' = None) by (rewrite response_next_eq, He; reflexivity).
  assert (Ln' : N.of_nat (length (map without_ranges items)) < 2 ^ 64) by (rewrite map_length; exact Ln).
  exists (length (map without_ranges items)). split; [|split].
  - apply (ends_within_steps response_next _ _ st'); assumption.
  - exact Ln'.
  - rewrite <- Mp. apply run_iter_trace; [exists st'; split; assumption|exact Ln'].
Qed.

Section SizeMain.
Variable HO : hops.
Notation bytes := (bytes HO).
Hypothesis HOK : hash_ok HO.

(* generic: the outcome of the state machines is the outcome of the plan decoders over the plan
   the iterator yields (plan abstract) *)
Lemma dec_run_outcome : forall it n stk (enc : bytes) plan ys o st,
  ends_within response_next it n -> N.of_nat n < 2 ^ 64 -> run_iter response_next it = plan ->
  dec_run HO (mkD HO it stk enc) = (ys, o, st) ->
  o = r_outcome HO (dec_items HO (step_sync HO) plan stk enc).
Proof.
  intros it n stk enc plan ys o st He Hn Hp H.
  rewrite (dec_run_refines HO n _ _ _ He Hn) in H. rewrite Hp in H. clear Hp He.
  injection H as _ Ho _. symmetry. exact Ho.
Qed.

Lemma rd_run_outcome : forall it n stk (enc : bytes) root plan ys o st,
  ends_within response_next it n -> N.of_nat n < 2 ^ 64 -> run_iter response_next it = plan ->
  rd_run HO (mkR HO it stk enc root) = (ys, o, st) ->
  o = r_outcome HO (dec_items HO (step_fsm HO) plan stk enc).
Proof.
  intros it n stk enc root plan ys o st He Hn Hp H.
  rewrite (rd_run_refines HO n _ _ _ _ He Hn) in H. rewrite Hp in H. clear Hp He.
  injection H as _ Ho _. symmetry. exact Ho.
Qed.

Variable data : bytes.
Variables (size' bs : N) (q : ranges).
Hypothesis Hsize' : size' <= 2 ^ 63.
Hypothesis Hdata : blen HO data <= 2 ^ 63.
Hypothesis Hbs : bs <= 10.
Hypothesis Hwf : wf_ranges q = true.
Hypothesis Hsel : sel q size' (nchunks size' - 1) = true.

(* the claimed decoder is a plan decoder over an (abstract) plan equal to the claimed plan *)
Lemma dec_run_claimed : forall root (stream : bytes) ys o st,
  dec_run HO (dec_new HO root (mkTree size' bs) stream q) = (ys, o, st) ->
  exists plan, plan = pre_plan size' 0 bs (truncate_ranges q size') /\
               o = r_outcome HO (dec_items HO (step_sync HO) plan [root] stream).
Proof.
  intros root stream ys o st H. unfold dec_new in H. cbn [tsize] in H.
  destruct (response_ends size' bs (truncate_ranges q size') Hsize' (truncate_wf q size' Hwf))
    as (n & He & Hn & Hp).
  remember (pre_plan size' 0 bs (truncate_ranges q size')) as plan eqn:Hplan.
  exists plan. split; [reflexivity|].
  exact (dec_run_outcome _ n _ _ plan ys o st He Hn Hp H).
Qed.

Lemma rd_run_claimed : forall root (stream : bytes) ys o st,
  rd_run HO (rd_new HO root q (mkTree size' bs) stream) = (ys, o, st) ->
  exists plan, plan = pre_plan size' 0 bs (truncate_ranges q size') /\
               o = r_outcome HO (dec_items HO (step_fsm HO) plan [root] stream).
Proof.
  intros root stream ys o st H. unfold rd_new in H. cbn [tsize] in H. rewrite truncate_owned_eq in H.
  destruct (response_ends size' bs (truncate_ranges q size') Hsize' (truncate_wf q size' Hwf))
    as (n & He & Hn & Hp).
  remember (pre_plan size' 0 bs (truncate_ranges q size')) as plan eqn:Hplan.
  exists plan. split; [reflexivity|].
  exact (rd_run_outcome _ n _ _ _ plan ys o st He Hn Hp H).
Qed.

Theorem size_authenticated : forall (stream : bytes) ys st,
  dec_run HO (dec_new HO (root_hash HO data) (mkTree size' bs) stream q) = (ys, Finished, st) ->
  size' = blen HO data.
Proof.
  intros stream ys st H.
  remember (root_hash HO data) as root eqn:Hroot.
  destruct (dec_run_claimed root stream ys Finished st H) as (plan & Hplan & Ho).
  apply (plan_size_authenticated HO HOK (step_sync HO) (step_sync_ok HO HOK) data size' bs q
           Hsize' Hdata Hwf Hsel plan root [] stream Hplan Hroot).
  unfold fin. symmetry. exact Ho.
Qed.

Theorem size_authenticated_fsm : forall (stream : bytes) ys st,
  rd_run HO (rd_new HO (root_hash HO data) q (mkTree size' bs) stream) = (ys, Finished, st) ->
  size' = blen HO data.
Proof.
  intros stream ys st H.
  remember (root_hash HO data) as root eqn:Hroot.
  destruct (rd_run_claimed root stream ys Finished st H) as (plan & Hplan & Ho).
  apply (plan_size_authenticated HO HOK (step_fsm HO) (step_fsm_ok HO HOK) data size' bs q
           Hsize' Hdata Hwf Hsel plan root [] stream Hplan Hroot).
  unfold fin. symmetry. exact Ho.
Qed.

(* no claimed size makes the decoder model panic or run out of fuel *)
Lemma claimed_stack_ok : forall plan, plan = pre_plan size' 0 bs (truncate_ranges q size') ->
  pre_stack_ok plan 1 = true.
Proof.
  intros plan ->.
  apply (pre_stack_plan size' 0 bs _ Hsize' (N.le_0_l 10) (truncate_wf q size' Hwf)).
  apply (q'_nonempty size' q Hwf Hsel).
Qed.

Theorem size_total : forall root (stream : bytes) ys o st,
  dec_run HO (dec_new HO root (mkTree size' bs) stream q) = (ys, o, st) ->
  o <> Panicked /\ o <> OutOfFuel.
Proof.
  intros root stream ys o st H.
  destruct (dec_run_claimed root stream ys o st H) as (plan & Hplan & ->).
  pose proof (claimed_stack_ok plan Hplan) as Hs. clear Hplan H. split.
  - apply (dec_items_nopanic HO (step_sync HO) (step_sync_ok HO HOK) (step_sync_nopanic HO)).
    exact Hs.
  - apply dec_items_outcome.
Qed.

Theorem size_total_fsm : forall root (stream : bytes) ys o st,
  rd_run HO (rd_new HO root q (mkTree size' bs) stream) = (ys, o, st) ->
  o <> Panicked /\ o <> OutOfFuel.
Proof.
  intros root stream ys o st H.
  destruct (rd_run_claimed root stream ys o st H) as (plan & Hplan & ->).
  pose proof (claimed_stack_ok plan Hplan) as Hs. clear Hplan H. split.
  - apply (dec_items_nopanic HO (step_fsm HO) (step_fsm_ok HO HOK) (step_fsm_nopanic HO)).
    exact Hs.
  - apply dec_items_outcome.
Qed.

End SizeMain.

(* ---- the statements of Props/C16.v, in their exact form ---- *)
Lemma c16_size_authenticated : forall HO, hash_ok HO ->
  forall (data : bytes HO) size' bs q (stream : bytes HO) ys st,
  size' <= 2 ^ 63 -> blen HO data <= 2 ^ 63 -> bs <= 10 -> wf_ranges q = true ->
  sel q size' (nchunks size' - 1) = true ->
  dec_run HO (dec_new HO (root_hash HO data) (mkTree size' bs) stream q) = (ys, Finished, st) ->
  size' = blen HO data.
Proof.
  intros HO HOK data size' bs q stream ys st H1 H2 _ H4 H5 H.
  exact (size_authenticated HO HOK data size' bs q H1 H2 H4 H5 stream ys st H).
Qed.

Lemma c16_size_authenticated_fsm : forall HO, hash_ok HO ->
  forall (data : bytes HO) size' bs q (stream : bytes HO) ys st,
  size' <= 2 ^ 63 -> blen HO data <= 2 ^ 63 -> bs <= 10 -> wf_ranges q = true ->
  sel q size' (nchunks size' - 1) = true ->
  rd_run HO (rd_new HO (root_hash HO data) q (mkTree size' bs) stream) = (ys, Finished, st) ->
  size' = blen HO data.
Proof.
  intros HO HOK data size' bs q stream ys st H1 H2 _ H4 H5 H.
  exact (size_authenticated_fsm HO HOK data size' bs q H1 H2 H4 H5 stream ys st H).
Qed.

(* totality for an arbitrary expected root value (the true root hash in particular) *)
Lemma c16_total_any_root : forall HO, hash_ok HO ->
  forall (root : hash HO) size' bs q (stream : bytes HO),
  size' <= 2 ^ 63 -> bs <= 10 -> wf_ranges q = true ->
  sel q size' (nchunks size' - 1) = true ->
  (forall ys o st, dec_run HO (dec_new HO root (mkTree size' bs) stream q) = (ys, o, st) ->
     o <> Panicked /\ o <> OutOfFuel) /\
  (forall ys o st, rd_run HO (rd_new HO root q (mkTree size' bs) stream) = (ys, o, st) ->
     o <> Panicked /\ o <> OutOfFuel).
Proof.
  intros HO HOK root size' bs q stream H1 _ H4 H5. split; intros ys o st H.
  - exact (size_total HO HOK size' bs q H1 H4 H5 root stream ys o st H).
  - exact (size_total_fsm HO HOK size' bs q H1 H4 H5 root stream ys o st H).
Qed.

Lemma c16_total : forall HO, hash_ok HO ->
  forall (data : bytes HO) size' bs q (stream : bytes HO),
  size' <= 2 ^ 63 -> blen HO data <= 2 ^ 63 -> bs <= 10 -> wf_ranges q = true ->
  sel q size' (nchunks size' - 1) = true ->
  (forall ys o st,
     dec_run HO (dec_new HO (root_hash HO data) (mkTree size' bs) stream q) = (ys, o, st) ->
     o <> Panicked /\ o <> OutOfFuel) /\
  (forall ys o st,
     rd_run HO (rd_new HO (root_hash HO data) q (mkTree size' bs) stream) = (ys, o, st) ->
     o <> Panicked /\ o <> OutOfFuel).
Proof.
  intros HO HOK data size' bs q stream H1 _ H3 H4 H5.
  exact (c16_total_any_root HO HOK (root_hash HO data) size' bs q stream H1 H3 H4 H5).
Qed.
