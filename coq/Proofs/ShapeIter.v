(* L6: the stack-free node iterators list exactly the Shape (C12, items 1 and 2). *)
From BaoV Require Import Model.Iter Spec.NodeSpec Proofs.NodeLevel Proofs.NodeBits Proofs.NodeAlgebra
  Proofs.NodeRestricted Proofs.ShapeBase.
From Coq Require Import ZArith Lia.
Open Scope N_scope.
Ltac Zify.zify_post_hook ::= Z.to_euclidean_division_equations.

(* ---- loop2 runs up to 2^d steps ---- *)
Section Loop.
Context {St R : Type} (step : St -> St + R).

Inductive steps : nat -> St -> St -> Prop :=
| steps_0 s : steps 0 s s
| steps_S n s s' s'' : step s = inl s' -> steps n s' s'' -> steps (S n) s s''.

Lemma steps_split n : forall m s s'', steps (n + m) s s'' -> exists s', steps n s s' /\ steps m s' s''.
Proof.
  induction n as [|n IH]; intros m s s'' H.
  - exists s. split; [constructor|exact H].
  - cbn [Nat.add] in H. inversion H as [|n0 s0 s1 s2 E H' ]; subst.
    destruct (IH _ _ _ H') as (s' & A & C). exists s'. split; [econstructor; eassumption|exact C].
Qed.

Lemma loop2_full d : forall s s', steps (2 ^ d) s s' -> loop2 d step s = inl s'.
Proof.
  induction d as [|d IH]; intros s s' H.
  - cbn [Nat.pow] in H. inversion H as [|n0 s0 s1 s2 E H']; subst. inversion H'; subst.
    cbn [loop2]. exact E.
  - rewrite Nat.pow_succ_r' in H. replace (2 * 2 ^ d)%nat with (2 ^ d + 2 ^ d)%nat in H by lia.
    destruct (steps_split _ _ _ _ H) as (s1 & A & C).
    cbn [loop2]. rewrite (IH _ _ A). apply IH. exact C.
Qed.

Lemma loop2_stop d : forall n s s' r, (n < 2 ^ d)%nat -> steps n s s' -> step s' = inr r ->
  loop2 d step s = inr r.
Proof.
  induction d as [|d IH]; intros n s s' r Hn H Hr.
  - cbn [Nat.pow] in Hn. assert (n = 0%nat) by lia. subst n. inversion H; subst. cbn [loop2]. exact Hr.
  - cbn [loop2]. rewrite Nat.pow_succ_r' in Hn.
    destruct (Nat.lt_ge_cases n (2 ^ d)) as [Lt|Ge].
    + now rewrite (IH n s s' r Lt H Hr).
    + replace n with (2 ^ d + (n - 2 ^ d))%nat in H by lia.
      destruct (steps_split _ _ _ _ H) as (s1 & A & C).
      rewrite (loop2_full d _ _ A). apply (IH (n - 2 ^ d)%nat s1 s' r); [lia|exact C|exact Hr].
Qed.
End Loop.

(* ---- iterator traces ---- *)
Section Trace.
Context {St A : Type} (next : St -> option (A * St)).

Inductive trace : St -> list A -> St -> Prop :=
| trace_nil st : trace st [] st
| trace_cons st a st1 l st' : next st = Some (a, st1) -> trace st1 l st' -> trace st (a :: l) st'.

Lemma trace_app st l1 st1 l2 st2 : trace st l1 st1 -> trace st1 l2 st2 -> trace st (l1 ++ l2) st2.
Proof.
  intros H1 H2. induction H1 as [|st a st1' l st' E H IH]; [exact H2|].
  cbn [app]. econstructor; [exact E|]. now apply IH.
Qed.

Lemma trace_head st st0 x l st' : trace st (x :: l) st' -> next st0 = next st -> trace st0 (x :: l) st'.
Proof.
  intros H E. inversion H as [|s a s1 l' s' E1 H1]; subst. econstructor; [|exact H1]. now rewrite E.
Qed.

Definition istep (sa : St * list A) : (St * list A) + list A :=
  match next (fst sa) with
  | None => inr (rev (snd sa))
  | Some (a, st') => inl (st', a :: snd sa)
  end.

Lemma trace_steps st l st' : trace st l st' ->
  forall acc, steps istep (length l) (st, acc) (st', rev l ++ acc).
Proof.
  induction 1 as [|st a st1 l st' E H IH]; intros acc.
  - constructor.
  - cbn [length]. apply steps_S with (s' := (st1, a :: acc)).
    + unfold istep. cbn [fst snd]. now rewrite E.
    + cbn [rev]. rewrite <- app_assoc. apply IH.
Qed.

Lemma run_iter_trace st l st' : trace st l st' -> next st' = None ->
  (length l < 2 ^ LOOP_DEPTH)%nat -> run_iter next st = l.
Proof.
  intros H E Hl. unfold run_iter. fold istep.
  rewrite (loop2_stop istep LOOP_DEPTH (length l) (st, []) (st', rev l ++ []) (rev (rev l ++ []))).
  - now rewrite app_nil_r, rev_involutive.
  - exact Hl.
  - now apply trace_steps.
  - unfold istep. cbn [fst snd]. now rewrite E.
Qed.
End Trace.

Lemma pow_nat_N d : N.of_nat (2 ^ d) = 2 ^ N.of_nat d.
Proof. now rewrite Nat2N.inj_pow. Qed.

Lemma length_lt_depth {A} (l : list A) : N.of_nat (length l) < 2 ^ 64 -> (length l < 2 ^ LOOP_DEPTH)%nat.
Proof.
  intros H. pose proof (pow_nat_N LOOP_DEPTH) as E.
  change (N.of_nat LOOP_DEPTH) with 64 in E.
  generalize dependent (2 ^ LOOP_DEPTH)%nat. intros M E. rewrite <- E in H. lia.
Qed.

(* ---- single transitions of the node state machines ---- *)
Definition gup (len curr : N) : nstate := go_up (mkN len curr PParent) curr.

Lemma go_up_any len x y curr : go_up (mkN len x y) curr = gup len curr.
Proof. reflexivity. Qed.

Lemma gup_left len curr p : restricted_parent curr len = Some p -> curr < p -> gup len curr = mkN len p PLeft.
Proof.
  intros E H. unfold gup, go_up. cbn [n_len]. rewrite E.
  destruct (N.ltb_spec curr p); [reflexivity|lia].
Qed.

Lemma gup_right len curr p : restricted_parent curr len = Some p -> p < curr -> gup len curr = mkN len p PRight.
Proof.
  intros E H. unfold gup, go_up. cbn [n_len]. rewrite E.
  destruct (N.ltb_spec curr p); [lia|reflexivity].
Qed.

Lemma gup_done len curr : restricted_parent curr len = None -> gup len curr = mkN len curr PDone.
Proof. intros E. unfold gup, go_up. cbn [n_len]. now rewrite E. Qed.

Lemma pre_parent_node f len c lc : left_child c = Some lc ->
  pre_next (S f) (mkN len c PParent) = Some (c, mkN len lc PParent).
Proof. intros E. cbn [pre_next n_prev n_curr n_len]. now rewrite E. Qed.

Lemma pre_parent_leaf f len c : left_child c = None ->
  pre_next (S f) (mkN len c PParent) = Some (c, gup len c).
Proof. intros E. cbn [pre_next n_prev n_curr n_len]. now rewrite E. Qed.

Lemma pre_parent_fuel f f' len c : pre_next (S f) (mkN len c PParent) = pre_next (S f') (mkN len c PParent).
Proof. reflexivity. Qed.

Lemma pre_left f len c r : right_descendant c len = Some r ->
  pre_next (S f) (mkN len c PLeft) = pre_next f (mkN len r PParent).
Proof. intros E. cbn [pre_next n_prev n_curr n_len]. now rewrite E. Qed.

Lemma pre_right f len c : pre_next (S f) (mkN len c PRight) = pre_next f (gup len c).
Proof. reflexivity. Qed.

Lemma pre_done f len c : pre_next f (mkN len c PDone) = None.
Proof. destruct f; reflexivity. Qed.

Lemma post_parent_node f len c lc : left_child c = Some lc ->
  post_next (S f) (mkN len c PParent) = post_next f (mkN len lc PParent).
Proof. intros E. cbn [post_next n_prev n_curr n_len]. now rewrite E. Qed.

Lemma post_parent_leaf f len c : left_child c = None ->
  post_next (S f) (mkN len c PParent) = Some (c, gup len c).
Proof. intros E. cbn [post_next n_prev n_curr n_len]. now rewrite E. Qed.

Lemma post_left f len c r : right_descendant c len = Some r ->
  post_next (S f) (mkN len c PLeft) = post_next f (mkN len r PParent).
Proof. intros E. cbn [post_next n_prev n_curr n_len]. now rewrite E. Qed.

Lemma post_right f len c : post_next (S f) (mkN len c PRight) = Some (c, gup len c).
Proof. reflexivity. Qed.

Lemma post_done f len c : post_next f (mkN len c PDone) = None.
Proof. destruct f; reflexivity. Qed.

(* ---- number of listed nodes ---- *)
Lemma sh_pre_length B : forall f a m l c, wf B a m l c -> m <= 2 * 2 ^ N.of_nat f ->
  length (sh_pre (S f) a m) = N.to_nat (shlen m).
Proof.
  apply (shape_ind B (fun f a m l c => length (sh_pre f a m) = N.to_nat (shlen m))).
  - intros f a m c W Hm. rewrite sh_pre_leaf by assumption.
    destruct W as (H1 & _). unfold shlen. cbn [length]. lia.
  - intros f a m l c l' c' W Hm Hl Hl' WL WR Hsp Hf1 Hf2 IH1 IH2.
    rewrite (sh_pre_node B _ _ _ _ _ W Hm). cbn [length]. rewrite app_length, IH1, IH2.
    destruct (wf_large _ _ _ _ _ W Hm) as [_ Hlt].
    rewrite (pow2_pred l) in * by lia. unfold shlen. lia.
Qed.

Lemma sh_post_length B : forall f a m l c, wf B a m l c -> m <= 2 * 2 ^ N.of_nat f ->
  length (sh_post (S f) a m) = N.to_nat (shlen m).
Proof.
  apply (shape_ind B (fun f a m l c => length (sh_post f a m) = N.to_nat (shlen m))).
  - intros f a m c W Hm. rewrite sh_post_leaf by assumption.
    destruct W as (H1 & _). unfold shlen. cbn [length]. lia.
  - intros f a m l c l' c' W Hm Hl Hl' WL WR Hsp Hf1 Hf2 IH1 IH2.
    rewrite (sh_post_node B _ _ _ _ _ W Hm). rewrite !app_length, IH1, IH2. cbn [length].
    destruct (wf_large _ _ _ _ _ W Hm) as [_ Hlt].
    rewrite (pow2_pred l) in * by lia. unfold shlen. lia.
Qed.

(* ---- the iterators walk the Shape ---- *)
Section Walk.
Variable B : N.
Hypothesis HB : B <= 2 ^ 60.
Let len := shlen B.
Let F := NEXT_FUEL.

Lemma pre_walk : forall f a m l c, wf B a m l c -> m <= 2 * 2 ^ N.of_nat f ->
  exists st_e j, (j <= N.to_nat l)%nat /\
    trace (pre_next F) (mkN len (spine a l) PParent) (sh_pre (S f) a m) st_e /\
    forall d, pre_next (j + d) st_e = pre_next d (gup len (spine a l)).
Proof.
  apply (shape_ind B (fun f a m l c => exists st_e j, (j <= N.to_nat l)%nat /\
    trace (pre_next F) (mkN len (spine a l) PParent) (sh_pre f a m) st_e /\
    forall d, pre_next (j + d) st_e = pre_next d (gup len (spine a l)))).
  - intros f a m c W Hm. exists (gup len (spine a 0)), 0%nat. split; [lia|]. split.
    + rewrite sh_pre_leaf by assumption. rewrite <- (spine_0 a) at 2.
      econstructor; [|constructor].
      unfold F, NEXT_FUEL. apply pre_parent_leaf. exact (nav_leaf _ _ _ _ W).
    + intros d. reflexivity.
  - intros f a m l c l' c' W Hm Hl Hl' WL WR Hsp Hf1 Hf2 IH1 IH2.
    destruct IH1 as (e1 & j1 & Hj1 & T1 & C1). destruct IH2 as (e2 & j2 & Hj2 & T2 & C2).
    pose proof (nav_l60 B a m l c HB W) as L60.
    pose proof (nav_left B a m l c W Hl) as NL.
    pose proof (nav_order a l l' Hl) as [O1 O2].
    pose proof (nav_up_left B a m l c HB W Hl) as UL.
    pose proof (nav_right B a m l c l' c' HB W Hl Hl' WR Hsp) as NR.
    pose proof (nav_up_right B a m l c l' HB W Hl Hl' Hsp) as UR.
    fold len in UL, NR, UR.
    rewrite (gup_left len _ _ UL O1) in C1. rewrite (gup_right len _ _ UR O2) in C2.
    exists e2, (S j2). split; [lia|]. split.
    + rewrite (sh_pre_node B _ _ _ _ _ W Hm).
      econstructor; [unfold F, NEXT_FUEL; apply pre_parent_node; exact NL|].
      apply (trace_app _ _ _ _ _ _ T1).
      assert (E : pre_next F e1 = pre_next F (mkN len (spine (a + 2 ^ l) l') PParent)).
      { transitivity (pre_next (j1 + S (S (F - j1 - 2))) e1).
        - f_equal. unfold F, NEXT_FUEL. lia.
        - rewrite C1. rewrite (pre_left _ _ _ _ NR). unfold F, NEXT_FUEL. apply pre_parent_fuel. }
      destruct (N.le_gt_cases (m - 2 ^ l) 2) as [Hs|Hb].
      * rewrite sh_pre_leaf in * by assumption. exact (trace_head _ _ _ _ _ _ T2 E).
      * rewrite (sh_pre_node B _ _ _ _ _ WR Hb) in *. exact (trace_head _ _ _ _ _ _ T2 E).
    + intros d. replace (S j2 + d)%nat with (j2 + S d)%nat by lia. rewrite C2. apply pre_right.
Qed.

Lemma post_walk : forall f a m l c, wf B a m l c -> m <= 2 * 2 ^ N.of_nat f ->
  forall d, (N.to_nat l < d)%nat -> exists x st1 rest,
    sh_post (S f) a m = x :: rest /\
    post_next d (mkN len (spine a l) PParent) = Some (x, st1) /\
    trace (post_next F) st1 rest (gup len (spine a l)).
Proof.
  apply (shape_ind B (fun f a m l c => forall d, (N.to_nat l < d)%nat -> exists x st1 rest,
    sh_post f a m = x :: rest /\
    post_next d (mkN len (spine a l) PParent) = Some (x, st1) /\
    trace (post_next F) st1 rest (gup len (spine a l)))).
  - intros f a m c W Hm d Hd. destruct d as [|d]; [lia|].
    exists a, (gup len (spine a 0)), []. split; [now apply sh_post_leaf|]. split; [|constructor].
    rewrite (post_parent_leaf _ _ _ (nav_leaf _ _ _ _ W)). now rewrite spine_0.
  - intros f a m l c l' c' W Hm Hl Hl' WL WR Hsp Hf1 Hf2 IH1 IH2 d Hd.
    pose proof (nav_l60 B a m l c HB W) as L60.
    pose proof (nav_left B a m l c W Hl) as NL.
    pose proof (nav_order a l l' Hl) as [O1 O2].
    pose proof (nav_up_left B a m l c HB W Hl) as UL.
    pose proof (nav_right B a m l c l' c' HB W Hl Hl' WR Hsp) as NR.
    pose proof (nav_up_right B a m l c l' HB W Hl Hl' Hsp) as UR.
    fold len in UL, NR, UR.
    destruct d as [|d]; [lia|].
    destruct (IH1 d ltac:(lia)) as (x1 & s1 & r1 & E1 & N1 & T1).
    destruct (IH2 (F - 1)%nat ltac:(unfold F, NEXT_FUEL; lia)) as (x2 & s2 & r2 & E2 & N2 & T2).
    rewrite (gup_left len _ _ UL O1) in T1. rewrite (gup_right len _ _ UR O2) in T2.
    exists x1, s1, (r1 ++ (x2 :: r2) ++ [spine a l]). split; [|split].
    + rewrite (sh_post_node B _ _ _ _ _ W Hm), E1, E2. reflexivity.
    + rewrite (post_parent_node _ _ _ _ NL). exact N1.
    + apply (trace_app _ _ _ _ _ _ T1). cbn [app].
      econstructor.
      * replace F with (S (F - 1)) by (unfold F, NEXT_FUEL; lia).
        rewrite (post_left _ _ _ _ NR). exact N2.
      * apply (trace_app _ _ _ _ _ _ T2). econstructor; [|constructor].
        unfold F, NEXT_FUEL. apply post_right.
Qed.
End Walk.

(* ---- listed ids lie in [a, a + shlen m) ---- *)
Lemma sh_pre_range B : forall f a m l c, wf B a m l c -> m <= 2 * 2 ^ N.of_nat f ->
  forall x, In x (sh_pre (S f) a m) -> a <= x /\ x < a + shlen m.
Proof.
  apply (shape_ind B (fun f a m l c => forall x, In x (sh_pre f a m) -> a <= x /\ x < a + shlen m)).
  - intros f a m c W Hm x Hx. rewrite sh_pre_leaf in Hx by assumption.
    destruct W as (H1 & _). destruct Hx as [<-|[]]. unfold shlen. lia.
  - intros f a m l c l' c' W Hm Hl Hl' WL WR Hsp Hf1 Hf2 IH1 IH2 x Hx.
    rewrite (sh_pre_node B _ _ _ _ _ W Hm) in Hx.
    destruct (wf_large _ _ _ _ _ W Hm) as [_ Hlt].
    assert (E1 : shlen (2 ^ l) = 2 ^ l - 1) by (rewrite (pow2_pred l) by lia; unfold shlen; lia).
    assert (E2 : shlen m = 2 ^ l + shlen (m - 2 ^ l)).
    { rewrite (pow2_pred l) in * by lia. unfold shlen. lia. }
    assert (E3 : 1 <= shlen (m - 2 ^ l)) by (unfold shlen; lia).
    pose proof (pow2_ge2 l Hl) as G.
    destruct Hx as [<-|Hx]; [unfold spine; lia|].
    apply in_app_or in Hx. destruct Hx as [Hx|Hx].
    + apply IH1 in Hx. lia.
    + apply IH2 in Hx. lia.
Qed.

Lemma sh_post_range B : forall f a m l c, wf B a m l c -> m <= 2 * 2 ^ N.of_nat f ->
  forall x, In x (sh_post (S f) a m) -> a <= x /\ x < a + shlen m.
Proof.
  apply (shape_ind B (fun f a m l c => forall x, In x (sh_post f a m) -> a <= x /\ x < a + shlen m)).
  - intros f a m c W Hm x Hx. rewrite sh_post_leaf in Hx by assumption.
    destruct W as (H1 & _). destruct Hx as [<-|[]]. unfold shlen. lia.
  - intros f a m l c l' c' W Hm Hl Hl' WL WR Hsp Hf1 Hf2 IH1 IH2 x Hx.
    rewrite (sh_post_node B _ _ _ _ _ W Hm) in Hx.
    destruct (wf_large _ _ _ _ _ W Hm) as [_ Hlt].
    assert (E1 : shlen (2 ^ l) = 2 ^ l - 1) by (rewrite (pow2_pred l) by lia; unfold shlen; lia).
    assert (E2 : shlen m = 2 ^ l + shlen (m - 2 ^ l)).
    { rewrite (pow2_pred l) in * by lia. unfold shlen. lia. }
    assert (E3 : 1 <= shlen (m - 2 ^ l)) by (unfold shlen; lia).
    pose proof (pow2_ge2 l Hl) as G.
    apply in_app_or in Hx. destruct Hx as [Hx|Hx]; [apply IH1 in Hx; lia|].
    apply in_app_or in Hx. destruct Hx as [Hx|Hx]; [apply IH2 in Hx; lia|].
    destruct Hx as [<-|[]]. unfold spine. lia.
Qed.

(* ---- the shifted iterators ---- *)
Lemma fuel64 B : B <= 2 ^ 60 -> B <= 2 * 2 ^ N.of_nat 64.
Proof.
  change (N.of_nat 64) with 64. change (2 ^ 64) with 18446744073709551616.
  change (2 ^ 60) with 1152921504606846976. lia.
Qed.

Lemma pre_shifted B l : B <= 2 ^ 60 -> wf B 0 B l 0 ->
  pre_order_nodes_shifted (spine 0 l) (shlen B) = sh_pre 65 0 B.
Proof.
  intros HB W. pose proof (fuel64 B HB) as Hf.
  destruct (pre_walk B HB 64 0 B l 0 W Hf) as (e & j & Hj & T & C).
  pose proof (nav_l60 _ _ _ _ _ HB W) as L60.
  unfold pre_order_nodes_shifted, niter_new.
  apply (run_iter_trace _ _ _ e T).
  - replace NEXT_FUEL with (j + (NEXT_FUEL - j))%nat by (unfold NEXT_FUEL; lia).
    rewrite C, (gup_done _ _ (nav_root B B l HB W eq_refl)). apply pre_done.
  - apply length_lt_depth. rewrite (sh_pre_length B 64 0 B l 0 W Hf).
    pose proof (shlen_le B ltac:(destruct W; lia)).
    change (2 ^ 64) with 18446744073709551616. change (2 ^ 60) with 1152921504606846976 in HB. lia.
Qed.

Lemma post_shifted B l : B <= 2 ^ 60 -> wf B 0 B l 0 ->
  post_order_nodes_shifted (spine 0 l) (shlen B) = sh_post 65 0 B.
Proof.
  intros HB W. pose proof (fuel64 B HB) as Hf.
  pose proof (nav_l60 _ _ _ _ _ HB W) as L60.
  destruct (post_walk B HB 64 0 B l 0 W Hf NEXT_FUEL ltac:(unfold NEXT_FUEL; lia)) as (x & s1 & r & E & N1 & T).
  unfold post_order_nodes_shifted, niter_new. rewrite E.
  apply (run_iter_trace _ _ _ (gup (shlen B) (spine 0 l))).
  - econstructor; [exact N1|exact T].
  - rewrite (gup_done _ _ (nav_root B B l HB W eq_refl)). apply post_done.
  - apply length_lt_depth. rewrite <- E, (sh_post_length B 64 0 B l 0 W Hf).
    pose proof (shlen_le B ltac:(destruct W; lia)).
    change (2 ^ 64) with 18446744073709551616. change (2 ^ 60) with 1152921504606846976 in HB. lia.
Qed.

Lemma unshift_listed size bs x : size <= 2 ^ 63 -> bs <= 10 -> x < sp_blocks size bs ->
  subtract_block_size x bs = unshift bs x.
Proof.
  intros Hs Hb Hx. apply unshift_spec.
  pose proof (sp_blocks_bound size bs Hs) as HB.
  assert (P : 2 ^ bs <= 2 ^ 10) by (apply pow2_le_mono; assumption).
  change (2 ^ 10) with 1024 in P. change (2 ^ 53) with 9007199254740992 in HB.
  change (2 ^ 64) with 18446744073709551616. nia.
Qed.

Theorem pre_nodes_spec size bs : size <= 2 ^ 63 -> bs <= 10 ->
  pre_order_nodes_iter (mkTree size bs) = sp_pre_nodes size bs.
Proof.
  intros Hs Hb. unfold pre_order_nodes_iter, sp_pre_nodes.
  destruct (shifted_spec size bs) as (l & W & E). rewrite E. cbn [tbs].
  pose proof (sp_blocks_60 size bs Hs) as HB.
  rewrite (pre_shifted _ l HB W).
  apply map_ext_in. intros x Hx.
  apply (sh_pre_range _ 64 _ _ _ _ W (fuel64 _ HB)) in Hx.
  apply (unshift_listed size bs x Hs Hb).
  pose proof (shlen_le _ (sp_blocks_pos size bs)). lia.
Qed.

Theorem post_nodes_spec size bs : size <= 2 ^ 63 -> bs <= 10 ->
  post_order_nodes_iter (mkTree size bs) = sp_post_nodes size bs.
Proof.
  intros Hs Hb. unfold post_order_nodes_iter, sp_post_nodes.
  destruct (shifted_spec size bs) as (l & W & E). rewrite E. cbn [tbs].
  pose proof (sp_blocks_60 size bs Hs) as HB.
  rewrite (post_shifted _ l HB W).
  apply map_ext_in. intros x Hx.
  apply (sh_post_range _ 64 _ _ _ _ W (fuel64 _ HB)) in Hx.
  apply (unshift_listed size bs x Hs Hb).
  pose proof (shlen_le _ (sp_blocks_pos size bs)). lia.
Qed.
