(* End-to-end composition, part 4: the empty query, cross-query decoding (C14), the position of the
   reader after the honest items (C20), decode_ranges on the honest stream. *)
From BaoV Require Import Model.Fsm Spec.RangeSpec Spec.PlanSpec Spec.EncSpec Spec.HashAssm Spec.PTree Spec.SpecTree.
From BaoV Require Proofs.RangeTrunc.
From BaoV Require Proofs.BridgeBase Proofs.BridgeTree Proofs.BridgePlan.
From BaoV Require Import Proofs.BridgeLeaves.
From BaoV Require Import Proofs.DecLoop Proofs.DecHash Proofs.DecForest Proofs.DecConst Proofs.DecRanges Proofs.DecTheorems.
From BaoV Require Import Proofs.E2EGlue Proofs.E2EDecode Proofs.E2ERanges.
From Coq Require Import Lia Arith.
Open Scope N_scope.

(* ---------- the empty query ---------- *)
Section Empty.
Variable HO : hops.

Lemma sel_nil size c : sel [] size c = false.
Proof.
  unfold sel, reaches. cbn [mem length Nat.odd last orb]. rewrite N.ltb_irrefl || idtac.
  destruct (nchunks size <? 0) eqn:E; [apply N.ltb_lt in E; lia|].
  rewrite andb_false_r. cbn [orb]. apply andb_false_r.
Qed.

Lemma existsb_false {A} (f : A -> bool) l : (forall x, f x = false) -> existsb f l = false.
Proof. intro H. induction l as [|x l IH]; cbn; [reflexivity|]. now rewrite H, IH. Qed.

Lemma honest_nil (data : bytes HO) bs : honest HO data bs [] = [].
Proof.
  unfold honest, enc_spec. change 64%nat with (S 63). rewrite enc_rec_unfold.
  rewrite existsb_false by (intro c; apply sel_nil). reflexivity.
Qed.

Lemma response_new_nil t : response_next (response_new t []) = None.
Proof.
  unfold response_new, pp_new. destruct (shifted (mkTree (tsize t) 0)) as [rt filled]. reflexivity.
Qed.

Lemma truncate_nil size : truncate_ranges [] size = [].
Proof. unfold truncate_ranges. apply firstn_nil. Qed.

Lemma response_iter_nil t : response_iter t [] = [].
Proof. unfold response_iter. apply run_iter_nil. apply response_new_nil. Qed.

Lemma ends_within_0 {St A} (next : St -> option (A * St)) st : next st = None -> ends_within next st 0.
Proof. intro H. cbn. rewrite H. exact I. Qed.

Theorem e2e_empty_query : forall (data stream : bytes HO) (bs : N) (root : hash HO) (t : tree),
  honest HO data bs [] = [] /\
  response_iter t [] = [] /\
  (exists st, dec_run HO (dec_new HO root t stream []) = ([], Finished, st) /\ d_enc HO st = stream) /\
  (exists st, rd_run HO (rd_new HO root [] t stream) = ([], Finished, st) /\ Fsm.r_enc HO st = stream).
Proof.
  intros data stream bs root t. split; [apply honest_nil|]. split; [apply response_iter_nil|].
  pose proof (response_new_nil t) as Hn.
  assert (B0 : N.of_nat 0 < 2 ^ 64) by (cbn; lia).
  split.
  - unfold dec_new. rewrite truncate_nil.
    rewrite (dec_run_refines HO 0 _ _ _ (ends_within_0 _ _ Hn) B0).
    rewrite (run_iter_nil _ _ Hn). eexists. split; reflexivity.
  - unfold rd_new. rewrite RangeTrunc.truncate_owned_eq, truncate_nil.
    rewrite (rd_run_refines HO 0 _ _ _ _ (ends_within_0 _ _ Hn) B0).
    rewrite (run_iter_nil _ _ Hn). eexists. split; reflexivity.
Qed.
End Empty.

(* ---------- C20: successful runs up to the end of the plan ---------- *)
Section Done.
Variable HO : hops.

Lemma rd_ok_run_cons st0 st1 it ys st :
  rd_next HO st0 = RMore st1 (Ok it) -> rd_ok_run HO st1 ys st -> rd_ok_run HO st0 (it :: ys) st.
Proof.
  intros H0 H. induction H as [|ys st it' st' _ IH Hn].
  - exact (rd_ok_step HO st0 [] st0 it st1 (rd_ok_nil HO st0) H0).
  - change (it :: ys ++ [it']) with ((it :: ys) ++ [it']). eapply rd_ok_step; eauto.
Qed.

Lemma dec_ok_run_cons st0 st1 it ys st :
  dec_next HO st0 = Some (Ok it, st1) -> dec_ok_run HO st1 ys st -> dec_ok_run HO st0 (it :: ys) st.
Proof.
  intros H0 H. induction H as [|ys st it' st' _ IH Hn].
  - exact (dec_ok_step HO st0 [] st0 it st1 (dec_ok_nil HO st0) H0).
  - change (it :: ys ++ [it']) with ((it :: ys) ++ [it']). eapply dec_ok_step; eauto.
Qed.

Lemma fsm_finished_ok_run : forall n it stk enc root,
  ends_within response_next it n ->
  let r := dec_items_fsm HO (unroll response_next n it) stk enc in
  r_outcome HO r = Finished ->
  exists st, rd_ok_run HO (mkR HO it stk enc root) (r_items HO r) st /\
             rd_next HO st = RDone (r_enc HO r) /\ Fsm.r_enc HO st = r_enc HO r.
Proof.
  induction n as [|n IH]; intros it stk enc root He; cbn in He; cbn [unroll];
    destruct (response_next it) as [[c it']|] eqn:E; try contradiction.
  - intros _. exists (mkR HO it stk enc root). split; [constructor|].
    split; [rewrite rd_next_step; cbn [Fsm.r_iter]; rewrite E|]; reflexivity.
  - unfold dec_items_fsm. cbn [dec_items].
    pose proof (rd_next_step HO (mkR HO it stk enc root)) as Hs. cbn [Fsm.r_iter Fsm.r_stack Fsm.r_enc r_root] in Hs.
    rewrite E in Hs.
    destruct (step_fsm HO c stk enc) as [[[i|e|] stk'] enc']; cbv zeta.
    + intro Ho. rewrite r_outcome_cons in Ho.
      destruct (IH it' stk' enc' root He Ho) as (st & R1 & R2 & R3).
      exists st. rewrite r_items_cons, r_enc_cons. split; [|split; assumption].
      eapply rd_ok_run_cons; [exact Hs|exact R1].
    + cbn. discriminate.
    + cbn. discriminate.
  - intros _. exists (mkR HO it stk enc root). split; [constructor|].
    split; [rewrite rd_next_step; cbn [Fsm.r_iter]; rewrite E|]; reflexivity.
Qed.

Lemma sync_finished_ok_run : forall n it stk enc,
  ends_within response_next it n ->
  let r := dec_items_sync HO (unroll response_next n it) stk enc in
  r_outcome HO r = Finished ->
  exists st, dec_ok_run HO (mkD HO it stk enc) (r_items HO r) st /\
             dec_next HO st = None /\ d_enc HO st = r_enc HO r.
Proof.
  induction n as [|n IH]; intros it stk enc He; cbn in He; cbn [unroll];
    destruct (response_next it) as [[c it']|] eqn:E; try contradiction.
  - intros _. exists (mkD HO it stk enc). split; [constructor|].
    split; [rewrite dec_next_step; cbn [d_inner]; rewrite E|]; reflexivity.
  - unfold dec_items_sync. cbn [dec_items].
    pose proof (dec_next_step HO (mkD HO it stk enc)) as Hs. cbn [d_inner d_stack d_enc] in Hs.
    rewrite E in Hs.
    destruct (step_sync HO c stk enc) as [[[i|e|] stk'] enc']; cbv zeta.
    + intro Ho. rewrite r_outcome_cons in Ho.
      destruct (IH it' stk' enc' He Ho) as (st & R1 & R2 & R3).
      exists st. rewrite r_items_cons, r_enc_cons. split; [|split; assumption].
      eapply dec_ok_run_cons; [exact Hs|exact R1].
    + cbn. discriminate.
    + cbn. discriminate.
  - intros _. exists (mkD HO it stk enc). split; [constructor|].
    split; [rewrite dec_next_step; cbn [d_inner]; rewrite E|]; reflexivity.
Qed.

Hypothesis HOK : hash_ok HO.
Variable T : ptree HO.
Variable hon : list (item HO).
Variable it0 : ppstate.
Variable root : hash HO.
Hypothesis C : consistent HO T.
Hypothesis L : leaves_ok HO T.
Hypothesis I : items_of HO T = hon.
Hypothesis P : run_iter response_next it0 = plan_of HO T.
Variable n : nat.
Hypothesis En : ends_within response_next it0 n.
Hypothesis Bn : N.of_nat n < 2 ^ 64.

Lemma g_done_fsm (rest : bytes HO) :
  exists st, rd_ok_run HO (mkR HO it0 [cv_of HO T] (flat HO hon ++ rest) root) hon st /\
             rd_next HO st = RDone rest /\ rd_finish HO st = rest.
Proof.
  pose proof P as P'. rewrite (run_iter_unroll _ n _ En (loop_bound_of_N n Bn)) in P'.
  destruct (both_complete HO HOK T rest C L) as [_ (A1 & A2 & A3)].
  rewrite I in *. change (flat_items HO hon) with (flat HO hon) in *.
  pose proof (fsm_finished_ok_run n it0 [cv_of HO T] (flat HO hon ++ rest) root En) as H.
  cbv zeta in H. rewrite P' in H. specialize (H A2). rewrite A1, A3 in H. exact H.
Qed.

Lemma g_done_sync (rest : bytes HO) :
  exists st, dec_ok_run HO (mkD HO it0 [cv_of HO T] (flat HO hon ++ rest)) hon st /\
             dec_next HO st = None /\ d_enc HO st = rest.
Proof.
  pose proof P as P'. rewrite (run_iter_unroll _ n _ En (loop_bound_of_N n Bn)) in P'.
  destruct (both_complete HO HOK T rest C L) as [(A1 & A2 & A3) _].
  rewrite I in *. change (flat_items HO hon) with (flat HO hon) in *.
  pose proof (sync_finished_ok_run n it0 [cv_of HO T] (flat HO hon ++ rest) En) as H.
  cbv zeta in H. rewrite P' in H. specialize (H A2). rewrite A1, A3 in H. exact H.
Qed.
End Done.

Section E2EM.
Variable HO : hops.
Hypothesis HOK : hash_ok HO.
Variable data : bytes HO.
Variables (bs : N) (q : ranges).
Hypothesis Hsize : blen HO data <= 2 ^ 63.
Hypothesis Hbs : bs <= 10.
Hypothesis Hwf : wf_ranges q = true.
Hypothesis Hne : q <> [].

Notation size := (blen HO data).
Notation t := (mkTree (blen HO data) bs).
Notation root := (root_hash HO data).
Notation hon := (honest HO data bs q).

(* C20: on the honest stream followed by rest, after exactly the honest items next() returns the reader
   positioned at rest *)
Theorem e2e_done_position : forall rest : bytes HO,
  exists st, rd_ok_run HO (rd_new HO root q t (flat HO hon ++ rest)) hon st /\
             rd_next HO st = RDone rest /\ rd_finish HO st = rest.
Proof.
  intros rest. destruct (e2e_tree HO HOK data bs q Hsize Hbs Hwf Hne) as (T & C & L & I & F & D1 & D2 & P & n & En & Bn).
  rewrite D2. exact (g_done_fsm HO HOK T _ _ root C L I P n En Bn rest).
Qed.

Theorem e2e_done_position_sync : forall rest : bytes HO,
  exists st, dec_ok_run HO (dec_new HO root t (flat HO hon ++ rest) q) hon st /\
             dec_next HO st = None /\ d_enc HO st = rest.
Proof.
  intros rest. destruct (e2e_tree HO HOK data bs q Hsize Hbs Hwf Hne) as (T & C & L & I & F & D1 & D2 & P & n & En & Bn).
  rewrite D1. exact (g_done_sync HO HOK T _ _ C L I P n En Bn rest).
Qed.

(* decode_ranges on the honest stream: all honest items are applied *)
Theorem e2e_decode_ranges_roundtrip : forall (rest target : bytes HO) (ob : outboard HO),
  ob_root ob = root -> ob_tree ob = t ->
  let a := apply_items HO hon target ob in
  (exists st', decode_ranges HO (flat HO hon ++ rest) q target ob =
              (ranges_result (a_res HO a) Finished, a_target HO a, a_ob HO a, st')) /\
  (exists st', decode_ranges_fsm HO (flat HO hon ++ rest) q target ob =
              (ranges_result (a_res HO a) Finished, a_target HO a, a_ob HO a, st')).
Proof.
  intros rest target ob Hr Ht. cbv zeta.
  destruct (setup_ends HO data bs q Hsize Hbs Hwf) as (n & En & Bn).
  split.
  - destruct (e2e_roundtrip_sync HO HOK data bs q Hsize Hbs Hwf Hne rest) as (st & Hrun & _).
    rewrite <- Hr, <- Ht in Hrun at 1.
    refine (decode_ranges_sound HO n _ q target ob _ _ st _ Bn Hrun).
    rewrite Ht. exact En.
  - destruct (e2e_roundtrip_fsm HO HOK data bs q Hsize Hbs Hwf Hne rest) as (st & Hrun & _).
    rewrite <- Hr, <- Ht in Hrun at 1.
    refine (decode_ranges_fsm_sound HO n _ q target ob _ _ st _ Bn Hrun).
    rewrite Ht, RangeTrunc.truncate_owned_eq. exact En.
Qed.

End E2EM.

(* ---------- C14: two queries with the same selection ---------- *)
Section Cross.
Variable HO : hops.
Hypothesis HOK : hash_ok HO.
Variable data : bytes HO.
Variables (bs : N) (q1 q2 : ranges).
Hypothesis Hsize : blen HO data <= 2 ^ 63.
Hypothesis Hbs : bs <= 10.
Hypothesis Hwf2 : wf_ranges q2 = true.
Hypothesis Hne2 : q2 <> [].
Hypothesis Hsel : forall c, sel q1 (blen HO data) c = sel q2 (blen HO data) c.

Theorem e2e_cross_decode : forall rest : bytes HO,
  let t := mkTree (blen HO data) bs in
  let root := root_hash HO data in
  let stream := flat HO (honest HO data bs q1) ++ rest in
  honest HO data bs q1 = honest HO data bs q2 /\
  (exists st, dec_run HO (dec_new HO root t stream q2) = (honest HO data bs q1, Finished, st) /\ d_enc HO st = rest) /\
  (exists st, rd_run HO (rd_new HO root q2 t stream) = (honest HO data bs q1, Finished, st) /\ Fsm.r_enc HO st = rest).
Proof.
  intros rest. cbv zeta.
  pose proof (BridgePlan.bridge_function_of_selection HO data bs q1 q2 Hsel) as E.
  split; [exact E|]. rewrite E. split.
  - exact (e2e_roundtrip_sync HO HOK data bs q2 Hsize Hbs Hwf2 Hne2 rest).
  - destruct (e2e_roundtrip_fsm HO HOK data bs q2 Hsize Hbs Hwf2 Hne2 rest) as (st & H1 & H2 & _).
    exists st. split; assumption.
Qed.
End Cross.
