(* Gap audit (C09 / C20): the fsm decoder never panics, whatever it is polled with and however often it
   is polled after errors: for every expected root value, every stream, every geometry and well-formed
   query, no call of next in any sequence of calls returns Panic.  No assumption on the hash functions.
   (The sync iterator does panic when polled after a parent hash mismatch: Proofs/GapWitness.v.)
   Reason: the fsm decoder pushes the children of a pair before it compares, so the hash stack follows
   the plan after every hash mismatch; after a not-found error at most one more value is popped. *)
From BaoV Require Import Model.Fsm Spec.RangeSpec Spec.PlanSpec Spec.PlanWf.
From BaoV Require Proofs.PlanRun Proofs.PlanPreStruct Proofs.RangeTrunc.
From BaoV Require Import Proofs.DecLoop Proofs.DecHash Proofs.DecForest Proofs.DecConst.
From BaoV Require Import Proofs.E2EGlue Proofs.E2EMisc.
From BaoV Require Import Proofs.GapPolls Proofs.GapLenient Proofs.GapPollsE2E.
From Coq Require Import Lia Arith.
Open Scope N_scope.

Local Arguments hash_subtree : simpl never.
Local Arguments parent_cv : simpl never.

Section FsmTotal.
Variable HO : hops.
Notation bytes := (bytes HO).
Notation hash := (hash HO).
Notation rsl := (res dec_err (item HO)).

Definition no_panic (rs : list rsl) : Prop := ~ In Panic rs.

Lemma no_panic_cont : forall r (x : list rsl * list hash * bytes), r <> Panic ->
  no_panic (p_res HO x) -> no_panic (p_res HO (cont HO [r] x)).
Proof. intros r x Hr Hx. rewrite p_res_cont. intros [E|Hin]; [exact (Hr E)|exact (Hx Hin)]. Qed.

Lemma is_err_no_panic : forall rs : list rsl, Forall (is_err HO) rs -> no_panic rs.
Proof.
  intros rs H Hin. rewrite Forall_forall in H. destruct (H _ Hin) as [e E]. discriminate.
Qed.

(* fewer than 64 unread bytes and a non-empty stack: at most one value is popped from here on *)
Lemma fsm_short_nopanic : forall plan (stk : list hash) (e : bytes), tail_ok plan -> blen HO e < 64 -> stk <> [] ->
  no_panic (p_res HO (poll_list HO (step_fsm HO) plan stk e)).
Proof.
  induction plan as [|c plan IH]; intros stk e Ht He Hs; [intros []|].
  destruct c as [node ir lf rt rs|st z ir rs]; cbn [tail_ok] in Ht.
  - assert (E : step_fsm HO (CParent node ir lf rt rs) stk e = (Err (DParentNotFound node), stk, e)).
    { unfold step_fsm. replace (blen HO e <? 64) with true; [reflexivity|]. symmetry. now apply N.ltb_lt. }
    rewrite (poll_cons HO _ _ _ _ _ _ _ _ E). apply no_panic_cont; [discriminate|]. apply IH; assumption.
  - destruct Ht as (Hz & Hnl & Ht).
    destruct (step_fsm HO (CLeaf st z ir rs) stk e) as [[r stk1] enc1] eqn:E.
    rewrite (poll_cons HO _ _ _ _ _ _ _ _ E).
    pose proof (step_fsm_states HO _ _ _ _ _ _ E) as St. cbn [csize] in St.
    destruct r as [it|er|].
    + apply no_panic_cont; [discriminate|]. destruct St as (h0 & _ & Henc & Hc).
      apply is_err_no_panic. apply fsm_parents_only.
      * apply Hnl. rewrite Hc. rewrite Henc in He. unfold blen in *. rewrite app_length in He. lia.
      * rewrite Henc in He. unfold blen in *. rewrite app_length in He. lia.
    + apply no_panic_cont; [discriminate|].
      destruct er as [n|n|n|n|k]; try contradiction.
      * destruct St as (-> & -> & _). apply IH; assumption.
      * destruct St as (_ & -> & _). apply is_err_no_panic. apply fsm_drained. exact Ht.
      * destruct St as (h & stk0 & l & r0 & lf & rt & _ & _ & _ & _ & (ir0 & rs0 & Ec) & _). discriminate.
      * destruct St as (h & _ & -> & Hc). apply is_err_no_panic. apply fsm_parents_only.
        -- apply Hnl. lia.
        -- rewrite blen_drop. lia.
    + exfalso. destruct St as (Es & _). contradiction.
Qed.

Lemma kids_length : forall lf rt (l r : hash) stk,
  N.of_nat (length (kids HO lf rt l r stk)) = N.of_nat (length stk) + b2n lf + b2n rt.
Proof. intros [|] [|] l r stk; unfold kids; cbn [length b2n]; lia. Qed.

(* the stack after a step that read its item *)
Lemma step_fsm_depth : forall c stk enc r stk' enc', step_fsm HO c stk enc = (r, stk', enc') ->
  r <> Panic -> (forall e, r = Err e -> ~ notfound e) ->
  match c with
  | CParent _ _ lf rt _ => N.of_nat (length stk') + 1 = N.of_nat (length stk) + b2n lf + b2n rt
  | CLeaf _ _ _ _ => N.of_nat (length stk') + 1 = N.of_nat (length stk)
  end.
Proof.
  intros c stk enc r stk' enc' H Hp Hn. destruct c as [node ir lf rt rs|st z ir rs]; unfold step_fsm in H.
  - destruct (blen HO enc <? 64).
    + injection H as <- _ _. exfalso. apply (Hn _ eq_refl). exact I.
    + destruct (parse_pair HO (take HO 64 enc)) as [l r0]. cbv zeta in H.
      destruct stk as [|ph stk0]; [injection H as <- _ _; contradiction|].
      fold (kids HO lf rt l r0 stk0) in H.
      destruct (negb (bytes_eqb HO ph (parent_cv HO l r0 ir))); injection H as _ <- _;
        rewrite kids_length; cbn [length]; lia.
  - destruct (blen HO enc <? z).
    + injection H as <- _ _. exfalso. apply (Hn _ eq_refl). exact I.
    + cbv zeta in H. destruct stk as [|lh stk0]; [injection H as <- _ _; contradiction|].
      destruct (negb (bytes_eqb HO lh _)); injection H as _ <- _; cbn [length]; lia.
Qed.

Theorem fsm_plan_never_panics : forall plan (stk : list hash) (enc : bytes),
  pre_stack_ok plan (N.of_nat (length stk)) = true -> tail_ok plan ->
  no_panic (p_res HO (poll_list HO (step_fsm HO) plan stk enc)).
Proof.
  induction plan as [|c plan IH]; intros stk enc Hps Ht; [intros []|].
  destruct (step_fsm HO c stk enc) as [[r stk1] enc1] eqn:E.
  rewrite (poll_cons HO _ _ _ _ _ _ _ _ E).
  pose proof (step_fsm_states HO _ _ _ _ _ _ E) as St.
  assert (Hd : 1 <= N.of_nat (length stk) /\ tail_ok plan /\
               pre_stack_ok plan (N.of_nat (length stk) - 1 +
                 match c with CParent _ _ lf rt _ => b2n lf + b2n rt | _ => 0 end) = true).
  { destruct c as [node ir lf rt rs|st z ir rs]; cbn [pre_stack_ok tail_ok] in Hps, Ht;
      apply andb_true_iff in Hps; destruct Hps as [H1 H2]; apply N.leb_le in H1.
    - split; [exact H1|]. split; [exact Ht|]. rewrite N.add_assoc. exact H2.
    - split; [exact H1|]. split; [apply Ht|]. rewrite N.add_0_r. exact H2. }
  destruct Hd as (Hd1 & Ht' & Hps').
  assert (Hne : stk <> []) by (intro Z; subst stk; cbn in Hd1; lia).
  destruct r as [it|er|].
  - apply no_panic_cont; [discriminate|]. apply IH; [|exact Ht'].
    pose proof (step_fsm_depth _ _ _ _ _ _ E ltac:(discriminate) ltac:(intros e0 E0; discriminate)) as D.
    destruct c; match goal with |- pre_stack_ok _ ?a = true => match type of Hps' with pre_stack_ok _ ?b = true =>
      replace a with b by lia end end; exact Hps'.
  - apply no_panic_cont; [discriminate|].
    destruct er as [n|n|n|n|k]; try contradiction.
    + destruct St as (-> & -> & Hlt). apply fsm_short_nopanic; assumption.
    + destruct St as (_ & -> & _). apply is_err_no_panic. apply fsm_drained. exact Ht'.
    + apply IH; [|exact Ht'].
      pose proof (step_fsm_depth _ _ _ _ _ _ E ltac:(discriminate)
                    ltac:(intros e0 E0; injection E0 as <-; intro F; exact F)) as D.
      destruct c; match goal with |- pre_stack_ok _ ?a = true => match type of Hps' with pre_stack_ok _ ?b = true =>
        replace a with b by lia end end; exact Hps'.
    + apply IH; [|exact Ht'].
      pose proof (step_fsm_depth _ _ _ _ _ _ E ltac:(discriminate)
                    ltac:(intros e0 E0; injection E0 as <-; intro F; exact F)) as D.
      destruct c; match goal with |- pre_stack_ok _ ?a = true => match type of Hps' with pre_stack_ok _ ?b = true =>
        replace a with b by lia end end; exact Hps'.
  - exfalso. destruct St as (Es & _). contradiction.
Qed.

(* a plan of at most one item polled from a one-element stack *)
Lemma short_plan_never_panics : forall plan (h : hash) (enc : bytes), (length plan <= 1)%nat ->
  no_panic (p_res HO (poll_list HO (step_fsm HO) plan [h] enc)).
Proof.
  intros plan h enc Hl. destruct plan as [|c [|c2 plan]]; [intros []| |cbn in Hl; lia].
  destruct (step_fsm HO c [h] enc) as [[r stk1] enc1] eqn:E.
  rewrite (poll_cons HO _ _ _ _ _ _ _ _ E). apply no_panic_cont; [|intros []].
  intro Hr. subst r. destruct (step_fsm_states HO _ _ _ _ _ _ E) as (Es & _). discriminate.
Qed.

(* ---------- the state machine ---------- *)
Theorem fsm_never_panics : forall (root : hash) (size bs : N) (q : ranges) (stream : bytes) tr st,
  size <= 2 ^ 63 -> bs <= 10 -> wf_ranges q = true ->
  rd_polls HO (rd_new HO root q (mkTree size bs) stream) tr st -> ~ In Panic tr.
Proof.
  intros root size bs q stream tr st Hs Hb Hwf Hp.
  destruct (rd_polls_plan HO _ _ _ Hp) as (plan & Hst & He & _).
  unfold rd_new in Hst, He. cbn [Fsm.r_iter Fsm.r_stack Fsm.r_enc tsize] in Hst, He.
  rewrite RangeTrunc.truncate_owned_eq in Hst.
  set (q' := truncate_ranges q size) in *.
  assert (Hwf' : wf_ranges q' = true) by (apply RangeTrunc.truncate_wf; exact Hwf).
  destruct (response_trace size bs q' Hs Hb Hwf') as [Tr _].
  destruct (steps_prefix response_next _ _ _ Hst _ Tr) as [rest Hrest].
  (* no panic over the whole plan *)
  assert (Hall : no_panic (p_res HO (poll_list HO (step_fsm HO) (pre_plan size 0 bs q') [root] stream))).
  { destruct q' as [|x q0] eqn:Eq.
    - (* empty query: the iterator yields nothing *)
      assert (En : plan = [] /\ rest = []).
      { destruct Tr as (stf & Hf & _).
        assert (G : forall l stf, PlanRun.steps response_next (response_new (mkTree size bs) []) l stf -> l = []).
        { intros l s0 Hl. inversion Hl as [|? ? ? ? ? Hn _]; [reflexivity|].
          rewrite response_new_nil in Hn. discriminate. }
        pose proof (G _ _ Hf) as G1. rewrite Hrest in G1. apply app_eq_nil in G1. exact G1. }
      destruct En as [-> ->]. cbn [app] in Hrest. rewrite Hrest. intros [].
    - rewrite <- Eq in *. assert (Hq : q' <> []) by (rewrite Eq; discriminate).
      destruct (tail_ok_pre_plan size bs q' Hs Hwf') as [Ht|Hshort].
      + apply fsm_plan_never_panics; [|exact Ht].
        exact (PlanPreStruct.pre_stack_plan size 0 bs q' Hs ltac:(lia) Hwf' Hq).
      + apply short_plan_never_panics. exact Hshort. }
  rewrite Hrest, poll_prefix, He in Hall. intro Hin. apply Hall. apply in_or_app. left. exact Hin.
Qed.

End FsmTotal.
