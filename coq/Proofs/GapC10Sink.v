(* C10 gap closure (3): a failing WRITER under an operational run.  Over the environment model of
   Proofs/GapC11Env.v (a sink that takes short counts and is full after `cap` bytes; `encode_loop_env` = the
   model's sync encode_loop with its reads / writes going through the scheduled environments): whatever the
   schedules, sync::encode_ranges either behaves as over an unbounded sink (everything fits) or returns
   Io(WriteZero), the sink holding exactly the first `cap` bytes of the fault-free output. *)
From BaoV Require Import Model.IOSched Proofs.IOReadExact Proofs.GapC11Env Proofs.GapC10Source.
From Coq Require Import Lia.

Arguments N.mul : simpl never. Arguments N.add : simpl never. Arguments N.sub : simpl never.

Section SinkFull.
Variable HO : hops.
Notation bytes := (bytes HO).
Notation blen := (blen HO).
Notation take := (take HO).

Lemma take_app_le (a b : bytes) n : blen a <= n -> take n (a ++ b) = a ++ take (n - blen a) b.
Proof.
  unfold Hash.take, Hash.blen. intros H. rewrite firstn_app, firstn_all2 by lia.
  f_equal. f_equal. lia.
Qed.
Lemma take_app_short (a b : bytes) n : n <= blen a -> take n (a ++ b) = take n a.
Proof.
  unfold Hash.take, Hash.blen. intros H. rewrite firstn_app.
  replace (N.to_nat n - length a)%nat with 0%nat by lia. cbn [firstn]. now rewrite app_nil_r.
Qed.
Lemma take_whole (a : bytes) n : blen a <= n -> take n a = a.
Proof. unfold Hash.take, Hash.blen. intros H. apply firstn_all2. lia. Qed.

Lemma encode_loop_extends items data ob out :
  exists more, snd (encode_loop HO items data ob out) = out ++ more.
Proof. rewrite encode_loop_g. apply g_enc_extends. Qed.

(* one write into the bounded sink, then the rest of the model run from the bytes it would have appended *)
Lemma after_write (w : sink HO) (buf : bytes) cap (rest_run : bytes -> res enc_err unit * bytes) :
  sk_cap HO w = Some cap -> blen (sk_out HO w) <= cap ->
  (forall out, exists more, snd (rest_run out) = out ++ more) ->
  exists w1, fst (write_all_sync HO w buf)
             = (if blen (sk_out HO w) + blen buf <=? cap then Ok tt else Err KWriteZero) /\
    snd (write_all_sync HO w buf) = w1 /\ sk_cap HO w1 = Some cap /\
    suffix (sk_sched HO w1) (sk_sched HO w) /\
    (blen (sk_out HO w) + blen buf <= cap -> sk_out HO w1 = sk_out HO w ++ buf) /\
    (cap < blen (sk_out HO w) + blen buf ->
       cap < blen (snd (rest_run (sk_out HO w ++ buf))) /\
       sk_out HO w1 = take cap (snd (rest_run (sk_out HO w ++ buf)))).
Proof.
  intros Hc Hle Hext.
  destruct (write_all_sync_full HO w buf cap Hc Hle) as (w1 & He & Ho & Hc1 & Hs).
  exists w1. rewrite He. cbn [fst snd]. repeat split; try assumption.
  - intros Hfit. rewrite Ho, take_whole by lia. reflexivity.
  - destruct (Hext (sk_out HO w ++ buf)) as [more ->]. rewrite !(blen_app HO). lia.
  - destruct (Hext (sk_out HO w ++ buf)) as [more ->]. rewrite Ho, <- !app_assoc.
    rewrite take_app_le by exact Hle. f_equal. rewrite take_app_short by lia. reflexivity.
Qed.

Theorem encode_loop_env_full : forall items (p : pstore HO) (ob : outboard HO) (w : sink HO) cap,
  sk_cap HO w = Some cap -> blen (sk_out HO w) <= cap ->
  exists p' w',
    encode_loop_env HO items p ob w
      = ((if blen (snd (encode_loop HO items (ps_data HO p) ob (sk_out HO w))) <=? cap
          then fst (encode_loop HO items (ps_data HO p) ob (sk_out HO w))
          else Err (EIo KWriteZero)), p', w') /\
    sk_out HO w' = take cap (snd (encode_loop HO items (ps_data HO p) ob (sk_out HO w))) /\
    sk_cap HO w' = Some cap /\ ps_data HO p' = ps_data HO p.
Proof.
  induction items as [|it rest IH]; intros p ob w cap Hc Hle.
  { exists p, w. cbn [encode_loop_env encode_loop fst snd].
    replace (blen (sk_out HO w) <=? cap) with true by (symmetry; apply N.leb_le; exact Hle).
    rewrite take_whole by exact Hle. now repeat split. }
  destruct it as [node ir lf rt rs | start size ir rs]; cbn [encode_loop_env encode_loop].
  - destruct (load_sync HO ob node) as [[[l r]|]|k|].
    + destruct (after_write w (combine_pair HO l r) cap (encode_loop HO rest (ps_data HO p) ob) Hc Hle
                  (encode_loop_extends rest (ps_data HO p) ob)) as (w1 & Hr & Hw1 & Hc1 & _ & Hfit & Hover).
      destruct (write_all_sync HO w (combine_pair HO l r)) as [r0 w0]. cbn [fst snd] in Hr, Hw1. subst r0 w0.
      destruct (blen (sk_out HO w) + blen (combine_pair HO l r) <=? cap) eqn:E.
      * apply N.leb_le in E. specialize (Hfit E).
        destruct (IH p ob w1 cap Hc1) as (p' & w' & He & Ho & Hc' & Hd). { rewrite Hfit, (blen_app HO). exact E. }
        rewrite Hfit in He, Ho. exists p', w'. now repeat split.
      * apply N.leb_gt in E. destruct (Hover E) as [Hbig Hout].
        exists p, w1. replace (blen (snd (encode_loop HO rest (ps_data HO p) ob (sk_out HO w ++ combine_pair HO l r))) <=? cap)
          with false by (symmetry; apply N.leb_gt; exact Hbig).
        now repeat split.
    + exists p, w. cbn [fst snd]. replace (blen (sk_out HO w) <=? cap) with true by (symmetry; apply N.leb_le; exact Hle).
      rewrite take_whole by exact Hle. now repeat split.
    + exists p, w. cbn [fst snd]. replace (blen (sk_out HO w) <=? cap) with true by (symmetry; apply N.leb_le; exact Hle).
      rewrite take_whole by exact Hle. now repeat split.
    + exists p, w. cbn [fst snd]. replace (blen (sk_out HO w) <=? cap) with true by (symmetry; apply N.leb_le; exact Hle).
      rewrite take_whole by exact Hle. now repeat split.
  - destruct (read_exact_at_sched_indep HO p (to_bytes start) size) as (p1 & Hrd & Hd1 & _). rewrite Hrd.
    destruct (read_exact_at HO (ps_data HO p) (to_bytes start) size) as [buf|k|].
    + destruct (after_write w buf cap (encode_loop HO rest (ps_data HO p) ob) Hc Hle
                  (encode_loop_extends rest (ps_data HO p) ob)) as (w1 & Hr & Hw1 & Hc1 & _ & Hfit & Hover).
      destruct (write_all_sync HO w buf) as [r0 w0]. cbn [fst snd] in Hr, Hw1. subst r0 w0.
      destruct (blen (sk_out HO w) + blen buf <=? cap) eqn:E.
      * apply N.leb_le in E. specialize (Hfit E).
        destruct (IH p1 ob w1 cap Hc1) as (p' & w' & He & Ho & Hc' & Hd). { rewrite Hfit, (blen_app HO). exact E. }
        rewrite Hfit, Hd1 in He, Ho. exists p', w'. repeat split; try assumption. congruence.
      * apply N.leb_gt in E. destruct (Hover E) as [Hbig Hout].
        exists p1, w1. replace (blen (snd (encode_loop HO rest (ps_data HO p) ob (sk_out HO w ++ buf))) <=? cap)
          with false by (symmetry; apply N.leb_gt; exact Hbig).
        now repeat split.
    + exists p1, w. cbn [fst snd]. replace (blen (sk_out HO w) <=? cap) with true by (symmetry; apply N.leb_le; exact Hle).
      rewrite take_whole by exact Hle. now repeat split.
    + exists p1, w. cbn [fst snd]. replace (blen (sk_out HO w) <=? cap) with true by (symmetry; apply N.leb_le; exact Hle).
      rewrite take_whole by exact Hle. now repeat split.
Qed.

(* sync::encode_ranges into a sink that is full after cap bytes *)
Theorem encode_ranges_env_full : forall (p : pstore HO) (ob : outboard HO) q ws cap,
  exists p' w',
    encode_ranges_env HO p ob q (mkSink HO [] ws (Some cap))
      = ((if blen (snd (encode_ranges HO (ps_data HO p) ob q)) <=? cap
          then fst (encode_ranges HO (ps_data HO p) ob q) else Err (EIo KWriteZero)), p', w') /\
    sk_out HO w' = take cap (snd (encode_ranges HO (ps_data HO p) ob q)).
Proof.
  intros p ob q ws cap. unfold encode_ranges_env, encode_ranges.
  destruct (encode_loop_env_full (pre_order_chunks_iter (ob_tree ob) q 0) p ob (mkSink HO [] ws (Some cap)) cap eq_refl)
    as (p' & w' & He & Ho & _ & _).
  { cbn [sk_out]. unfold Hash.blen. cbn [length]. lia. }
  exists p', w'. cbn [sk_out] in *. now split.
Qed.

End SinkFull.
