(* The pre-order chunk iterator at min_level 0 WITH the range payload of every item: the recursive
   payload plan [rplan_rec] (splitting the ranges with split_inner exactly as the iterator does) and
   the refinement  pre_order_chunks_iter (mkTree size bs) q 0 = rplan size bs q. *)
From BaoV Require Import Model.Iter Spec.PlanSpec Spec.PlanWf Proofs.NodeLevel Proofs.NodeBits Proofs.NodeAlgebra
  Proofs.RangeBase Proofs.PlanBase Proofs.PlanQuery Proofs.PlanRs Proofs.PlanNav Proofs.PlanRun Proofs.PlanPreIter.
From Coq Require Import ZArith Lia.
Open Scope N_scope.
Arguments N.add : simpl never.
Arguments N.sub : simpl never.
Arguments N.mul : simpl never.
Arguments N.pow : simpl never.
Arguments N.shiftl : simpl never.
Arguments N.shiftr : simpl never.
Arguments N.land : simpl never.
Arguments N.div : simpl never.
Arguments N.modulo : simpl never.
Arguments N.log2 : simpl never.
Arguments N.min : simpl never.
Arguments N.max : simpl never.
Ltac Zify.zify_post_hook ::= Z.to_euclidean_division_equations.

(* node over groups [ga, ga + capof n), n of them inside the blob, reached with the ranges rs *)
Fixpoint rplan_rec (fuel : nat) (size bs : N) (rs : ranges) (ga n : N) (ir : bool) : list chunk :=
  match fuel with
  | O => []
  | S f =>
    let g := 2 ^ bs in
    let a := ga * g in
    let e := (ga + capof n) * g in
    if r_is_empty rs then []
    else if n <=? 2 then
      let m := (ga + 1) * g in
      if size <=? m * 1024 then [CLeaf a (span_bytes size a e) ir rs]
      else
        CParent (unshift bs ga) ir (negb (r_is_empty (fst (split_inner rs a m)))) (negb (r_is_empty (snd (split_inner rs a m)))) rs
        :: (if r_is_empty (fst (split_inner rs a m)) then [] else [CLeaf a (span_bytes size a m) false (fst (split_inner rs a m))])
        ++ (if r_is_empty (snd (split_inner rs a m)) then [] else [CLeaf m (span_bytes size m e) false (snd (split_inner rs a m))])
    else
      let half := capof n / 2 in
      let m := (ga + half) * g in
      CParent (unshift bs (ga + half - 1)) ir (negb (r_is_empty (fst (split_inner rs a m)))) (negb (r_is_empty (snd (split_inner rs a m)))) rs
      :: rplan_rec f size bs (fst (split_inner rs a m)) ga half false
      ++ rplan_rec f size bs (snd (split_inner rs a m)) (ga + half) (n - half) false
  end.

Definition rplan (size bs : N) (q : ranges) : list chunk :=
  rplan_rec 65 size bs q 0 (sp_blocks size bs) true.

Lemma rplan_rec_eq f size bs rs ga n ir :
  rplan_rec (S f) size bs rs ga n ir =
    let g := 2 ^ bs in
    let a := ga * g in
    let e := (ga + capof n) * g in
    if r_is_empty rs then []
    else if n <=? 2 then
      let m := (ga + 1) * g in
      if size <=? m * 1024 then [CLeaf a (span_bytes size a e) ir rs]
      else
        CParent (unshift bs ga) ir (negb (r_is_empty (fst (split_inner rs a m)))) (negb (r_is_empty (snd (split_inner rs a m)))) rs
        :: (if r_is_empty (fst (split_inner rs a m)) then [] else [CLeaf a (span_bytes size a m) false (fst (split_inner rs a m))])
        ++ (if r_is_empty (snd (split_inner rs a m)) then [] else [CLeaf m (span_bytes size m e) false (snd (split_inner rs a m))])
    else
      let half := capof n / 2 in
      let m := (ga + half) * g in
      CParent (unshift bs (ga + half - 1)) ir (negb (r_is_empty (fst (split_inner rs a m)))) (negb (r_is_empty (snd (split_inner rs a m)))) rs
      :: rplan_rec f size bs (fst (split_inner rs a m)) ga half false
      ++ rplan_rec f size bs (snd (split_inner rs a m)) (ga + half) (n - half) false.
Proof. reflexivity. Qed.

Lemma rplan_rec_empty f size bs ga n ir : rplan_rec f size bs [] ga n ir = [].
Proof. destruct f; reflexivity. Qed.

Section RPlan.
Variables (size bs : N).
Hypothesis Hsize : size <= 2 ^ 63.
Hypothesis Hbs : bs <= 10.

Let B := sp_blocks size bs.
Let root := sid 0 B.
Let g := 2 ^ bs.
Notation ST := (ST size bs 0).

Lemma capof_ge2' n : 1 <= n -> 2 <= capof n.
Proof. intro H. destruct (capof_spec n H) as (j & Ej & _). rewrite Ej, pow2_succ. pose proof (pow2_pos j). lia. Qed.

Lemma rplan_steps : forall fuel ga n rm (rs : ranges) (stk : list (N * ranges)),
  node_ok size bs ga n rm -> N.log2 (capof n) <= N.of_nat fuel -> rs <> [] ->
  root_out root ga n ->
  let items := rplan_rec fuel size bs rs ga n (sid ga n =? root) in
  steps pp_next' (ST ((sid ga n, rs) :: stk) []) items (ST stk []) /\
  N.of_nat (length items) < 2 * capof n.
Proof.
  induction fuel as [|f IH]; intros ga n rm rs stk Hok Hf Hne Hro.
  { destruct (fuel_pos n 0 (nk_pos _ _ _ _ _ Hok) Hf) as [f' Ef]. discriminate. }
  cbv zeta. rewrite rplan_rec_eq. cbv zeta.
  pose proof (capof_ge2' n (nk_pos _ _ _ _ _ Hok)) as Hc2.
  destruct rs as [|r0 rs0] eqn:Ers; [congruence|]. rewrite <- Ers in *. clear Hne.
  assert (Hem : r_is_empty rs = false) by (rewrite Ers; reflexivity). rewrite Hem.
  pose proof (pp_next_node size bs 0 Hsize Hbs ga n rm rs stk Hok) as Hstep. cbv zeta in Hstep.
  assert (Hml : (cexp n + bs <? 0) = false) by (apply N.ltb_ge; lia).
  rewrite Hml, andb_false_r in Hstep.
  destruct (ivl size bs Hsize Hbs ga n rm Hok) as (I1 & I2 & I3 & _).
  destruct (N.leb_spec n 2) as [L|L]; cbn [negb] in Hstep.
  - assert (Em : (ga + capof n / 2) * 2 ^ bs = (ga + 1) * 2 ^ bs) by (rewrite capof_small by assumption; reflexivity).
    rewrite Em in *.
    destruct (N.leb_spec size ((ga + 1) * 2 ^ bs * 1024)) as [Ls|Ls].
    + split; [|cbn [length]; lia].
      econstructor; [|constructor]. unfold pp_next'. rewrite Hstep.
      rewrite (leaf_size size bs Hsize Hbs ga n rm Hok). reflexivity.
    + destruct (split_inner rs (ga * 2 ^ bs) ((ga + 1) * 2 ^ bs)) as [l_rs r_rs] eqn:Esp. cbn [fst snd].
      assert (Eid : sid ga n = ga) by (unfold sid; rewrite capof_small by assumption; change (2 / 2) with 1; lia).
      replace (unshift bs ga) with (unshift bs (sid ga n)) by (now rewrite Eid).
      split.
      * econstructor; [unfold pp_next'; rewrite Hstep; reflexivity|].
        assert (S1 : (ga + 1) * 2 ^ bs * 1024 - ga * 2 ^ bs * 1024 = span_bytes size (ga * 2 ^ bs) ((ga + 1) * 2 ^ bs)).
        { unfold span_bytes. rewrite (N.min_l ((ga + 1) * 2 ^ bs * 1024)), (N.min_l (ga * 2 ^ bs * 1024)) by lia. reflexivity. }
        assert (S2 : N.min ((ga + capof n) * 2 ^ bs * 1024) size - (ga + 1) * 2 ^ bs * 1024
                     = span_bytes size ((ga + 1) * 2 ^ bs) ((ga + capof n) * 2 ^ bs)).
        { unfold span_bytes. rewrite (N.min_l ((ga + 1) * 2 ^ bs * 1024)) by lia. reflexivity. }
        rewrite S1, S2.
        match goal with |- steps _ (ST _ ?b) ?l _ => replace l with b end; [apply steps_buffer|].
        destruct (r_is_empty l_rs), (r_is_empty r_rs); reflexivity.
      * destruct (r_is_empty l_rs), (r_is_empty r_rs); cbn [length app]; lia.
  - assert (Hn : 3 <= n) by lia.
    destruct (capof_inner n Hn) as (j & Ecap & Eh & L1 & L2 & C1 & C2).
    pose proof (pow2_pos (j + 1)) as Hpj.
    assert (Ecap' : capof n = 2 * (capof n / 2)).
    { rewrite Eh, Ecap. replace (j + 2) with (j + 1 + 1) by lia. now rewrite pow2_succ. }
    assert (Echalf : capof (capof n / 2) = capof n / 2) by (rewrite Eh; exact C1).
    assert (Hcr : capof (n - capof n / 2) <= capof n / 2) by (rewrite Eh; exact C2).
    set (half := capof n / 2) in *.
    destruct (split_inner rs (ga * 2 ^ bs) ((ga + half) * 2 ^ bs)) as [l_rs r_rs] eqn:Esp. cbn [fst snd].
    assert (Hce : cexp n <= 64).
    { pose proof (node_end_bound size bs ga n rm Hsize Hbs Hok) as HE. pose proof (pow2_pos bs).
      assert (capof n <= 2 ^ 53) by nia. rewrite (capof_pow2 n ltac:(lia)) in H0. apply pow2_le_inv in H0. lia. }
    rewrite (right_descendant_sid size bs ga n rm Hok Hn Hce) in Hstep.
    rewrite (left_child_sid size bs ga n rm Hok Hn) in Hstep. fold half in Hstep.
    destruct (root_out_left root ga n Hn Hro) as [Rl1 Rl2]. fold half in Rl1, Rl2.
    destruct (root_out_right root ga n Hn Hro) as [Rr1 Rr2]. fold half in Rr1, Rr2.
    destruct (fuel_children n f Hn Hf) as [F1 F2]. fold half in F1, F2.
    pose proof (node_ok_left _ _ _ _ _ Hok Hn) as Hokl. pose proof (node_ok_right _ _ _ _ _ Hok Hn) as Hokr.
    fold half in Hokl, Hokr.
    assert (El : (sid ga half =? root) = false) by (apply N.eqb_neq; exact Rl2).
    assert (Er : (sid (ga + half) (n - half) =? root) = false) by (apply N.eqb_neq; exact Rr2).
    set (stk1 := if r_is_empty r_rs then stk else (sid (ga + half) (n - half), r_rs) :: stk).
    assert (Hstep' : pp_next (ST ((sid ga n, rs) :: stk) []) =
              Some (Some (CParent (unshift bs (sid ga n)) (sid ga n =? root) (negb (r_is_empty l_rs)) (negb (r_is_empty r_rs)) rs,
                          ST (if r_is_empty l_rs then stk1 else (sid ga half, l_rs) :: stk1) []))).
    { rewrite Hstep. unfold stk1. destruct (r_is_empty l_rs), (r_is_empty r_rs); reflexivity. }
    (* right subtree *)
    assert (SR : steps pp_next' (ST stk1 []) (rplan_rec f size bs r_rs (ga + half) (n - half) false) (ST stk []) /\
                 N.of_nat (length (rplan_rec f size bs r_rs (ga + half) (n - half) false)) < 2 * half).
    { unfold stk1. destruct r_rs as [|x r'] eqn:Err.
      - cbn [r_is_empty]. rewrite rplan_rec_empty. split; [constructor|cbn [length]; lia].
      - cbn [r_is_empty]. rewrite <- Err in *.
        destruct (IH (ga + half) (n - half) rm r_rs stk Hokr F2 ltac:(rewrite Err; discriminate) Rr1) as [S1 S2].
        rewrite Er in S1, S2. split; [exact S1|lia]. }
    assert (SL : steps pp_next' (ST (if r_is_empty l_rs then stk1 else (sid ga half, l_rs) :: stk1) [])
                   (rplan_rec f size bs l_rs ga half false) (ST stk1 []) /\
                 N.of_nat (length (rplan_rec f size bs l_rs ga half false)) < 2 * half).
    { destruct l_rs as [|x r'] eqn:Err.
      - cbn [r_is_empty]. rewrite rplan_rec_empty. split; [constructor|cbn [length]; lia].
      - cbn [r_is_empty]. rewrite <- Err in *.
        destruct (IH ga half false l_rs stk1 Hokl F1 ltac:(rewrite Err; discriminate) Rl1) as [S1 S2].
        rewrite El in S1, S2. rewrite Echalf in S2. split; [exact S1|lia]. }
    destruct SR as [SR1 SR2]. destruct SL as [SL1 SL2].
    split.
    + econstructor; [unfold pp_next'; rewrite Hstep'; reflexivity|].
      unfold sid at 1. fold half.
      eapply steps_app; [exact SL1|exact SR1].
    + cbn [length]. rewrite app_length. lia.
Qed.

End RPlan.

Theorem rplan_refines size bs q : size <= 2 ^ 63 -> bs <= 10 ->
  pre_order_chunks_iter (mkTree size bs) q 0 = rplan size bs q.
Proof.
  intros Hsize Hbs. unfold pre_order_chunks_iter, rplan. rewrite pp_new_eq.
  destruct q as [|x q'] eqn:Eq.
  - cbn [r_is_empty]. rewrite rplan_rec_empty. apply run_iter_trace; [apply trace_nil; reflexivity|].
    unfold len. cbn [length]. reflexivity.
  - cbn [r_is_empty]. rewrite <- Eq.
    pose proof (node_ok_root size bs) as Hok.
    destruct (rplan_steps size bs Hsize Hbs 65 0 (sp_blocks size bs) true q [] Hok (root_fuel size bs Hsize)
                ltac:(rewrite Eq; discriminate) ltac:(right; right; reflexivity)) as [S1 S2].
    cbv zeta in S1, S2. rewrite N.eqb_refl in S1, S2.
    apply run_iter_trace.
    + exists (ST size bs 0 [] []). split; [exact S1|reflexivity].
    + pose proof (node_end_bound size bs 0 _ true Hsize Hbs Hok) as HE. rewrite N.add_0_l in HE.
      pose proof (pow2_pos bs) as Hp.
      assert (Hcap : capof (sp_blocks size bs) <= 2 ^ 53) by nia.
      unfold len. change (2 ^ 64) with 18446744073709551616. change (2 ^ 53) with 9007199254740992 in Hcap. lia.
Qed.
