(* Part 2: soundness / exactness / completeness of the plan decoders over consistent plan trees,
   for every stream.  One induction over forests of plan trees, generic in the per-item step. *)
From BaoV Require Import Model.Fsm Spec.HashAssm Spec.PTree Proofs.DecLoop Proofs.DecHash.
From Coq Require Import Lia Arith.

Local Arguments hash_subtree : simpl never.
Local Arguments parent_cv : simpl never.

Definition is_prefix {A} (p l : list A) : Prop := exists q, l = p ++ q.

Lemma firstn_S_nth {A} : forall (l : list A) k x, nth_error l k = Some x ->
  firstn (S k) l = firstn k l ++ [x].
Proof.
  induction l; intros k x H; destruct k; cbn in *; try discriminate.
  - injection H as ->. reflexivity.
  - f_equal. apply IHl. exact H.
Qed.

Lemma nth_split {A} : forall (l : list A) k x, nth_error l k = Some x ->
  l = firstn k l ++ x :: skipn (S k) l.
Proof.
  induction l; intros k x H; destruct k; cbn in *; try discriminate.
  - injection H as ->. reflexivity.
  - f_equal. apply IHl. exact H.
Qed.

Section Forest.
Variable HO : hops.
Notation bytes := (bytes HO).
Notation hash := (hash HO).
Notation item := (item HO).
Notation ptree := (ptree HO).
Notation dres := (dres HO).
Hypothesis HOK : hash_ok HO.

(* ---------- side condition: leaves the fuel of hash_subtree covers ---------- *)
Fixpoint leaves_ok (t : ptree) : Prop :=
  match t with
  | PSkip => True
  | PLeaf _ _ d => leaf_len_ok HO d
  | PNode _ _ _ _ l r => leaves_ok l /\ leaves_ok r
  end.
Definition good (t : ptree) : Prop := consistent HO t /\ leaves_ok t.

(* ---------- the error a plan item gives ---------- *)
Definition chunk_err (short : bool) (c : chunk) : dec_err :=
  match c with
  | CParent node _ _ _ _ => if short then DParentNotFound node else DParentHashMismatch node
  | CLeaf start _ _ _ => if short then DLeafNotFound start else DLeafHashMismatch start
  end.

(* the stream follows the honest items up to item k and departs inside item k; e names item k *)
Definition fails_at (plan : list chunk) (items : list item) (s : bytes) (k : nat) (e : dec_err) : Prop :=
  exists c it s2,
    nth_error plan k = Some c /\ nth_error items k = Some it /\
    s = flat_items HO (firstn k items) ++ s2 /\
    ~ is_prefix (item_bytes HO it) s2 /\
    e = chunk_err (length s2 <? length (item_bytes HO it))%nat c.

Lemma flat_items_app : forall a b, flat_items HO (a ++ b) = flat_items HO a ++ flat_items HO b.
Proof. intros. unfold flat_items. rewrite map_app, concat_app. reflexivity. Qed.
Lemma flat_items_cons : forall i l, flat_items HO (i :: l) = item_bytes HO i ++ flat_items HO l.
Proof. reflexivity. Qed.

Lemma flat_items_one : forall i, flat_items HO [i] = item_bytes HO i.
Proof. intros. cbn. apply app_nil_r. Qed.

Lemma fails_at_cons : forall c it plan items s k e,
  fails_at plan items s k e -> fails_at (c :: plan) (it :: items) (item_bytes HO it ++ s) (S k) e.
Proof.
  intros c it plan items s k e (c0 & it0 & s2 & H1 & H2 & H3 & H4 & H5).
  exists c0, it0, s2. repeat split; auto.
  cbn [firstn]. rewrite flat_items_cons, <- app_assoc, H3. reflexivity.
Qed.

Lemma fails_at_here : forall c it plan items s,
  ~ is_prefix (item_bytes HO it) s ->
  fails_at (c :: plan) (it :: items) s 0 (chunk_err (length s <? length (item_bytes HO it))%nat c).
Proof. intros. exists c, it, s. repeat split; auto. Qed.

(* ---------- what a step owes: plan item, honest item, expected value, values pushed ---------- *)
Inductive owes : chunk -> item -> hash -> list hash -> Prop :=
| owes_parent : forall node ir lf rt rs lh rh,
    length lh = 32%nat -> length rh = 32%nat ->
    owes (CParent node ir lf rt rs) (IParent node lh rh) (parent_cv HO lh rh ir)
         ((if lf then [lh] else []) ++ (if rt then [rh] else []))
| owes_leaf : forall st ir rs d,
    leaf_len_ok HO d ->
    owes (CLeaf st (blen HO d) ir rs) (ILeaf (to_bytes st) d) (hash_subtree HO st d ir) [].

Definition step_spec (step : chunk -> list hash -> bytes -> res dec_err item * list hash * bytes) : Prop :=
  forall c it h ps, owes c it h ps -> forall stk s,
    (exists s', s = item_bytes HO it ++ s' /\ step c (h :: stk) s = (Ok it, ps ++ stk, s'))
    \/ (~ is_prefix (item_bytes HO it) s /\
        exists stk' enc', step c (h :: stk) s =
           (Err (chunk_err (length s <? length (item_bytes HO it))%nat c), stk', enc')).

(* reading a pair *)
Lemma pair_read : forall (s : bytes), (blen HO s <? 64) = false ->
  let l := fst (parse_pair HO (take HO 64 s)) in
  let r := snd (parse_pair HO (take HO 64 s)) in
  length l = 32%nat /\ length r = 32%nat /\ s = (l ++ r) ++ drop HO 64 s.
Proof.
  intros s H. apply N.ltb_ge in H. unfold blen in H.
  assert (L : (64 <= length s)%nat) by lia.
  unfold parse_pair, take, drop. cbn [fst snd]. change (N.to_nat 64) with 64%nat.
  repeat split.
  - rewrite firstn_length, firstn_length. lia.
  - rewrite skipn_length, firstn_length. lia.
  - rewrite firstn_skipn, firstn_skipn. reflexivity.
Qed.

Lemma pair_read_honest : forall (lh rh q : bytes), length lh = 32%nat -> length rh = 32%nat ->
  parse_pair HO (take HO 64 ((lh ++ rh) ++ q)) = (lh, rh).
Proof.
  intros lh rh q H1 H2. unfold parse_pair, take. change (N.to_nat 64) with 64%nat.
  assert (E : firstn 64 ((lh ++ rh) ++ q) = lh ++ rh).
  { rewrite firstn_app. rewrite firstn_all2 by (rewrite app_length; lia).
    replace (64 - length (lh ++ rh))%nat with 0%nat by (rewrite app_length; lia).
    cbn. apply app_nil_r. }
  rewrite E. f_equal.
  - rewrite firstn_app, firstn_all2 by lia. replace (32 - length lh)%nat with 0%nat by lia.
    cbn. apply app_nil_r.
  - rewrite skipn_app, skipn_all2 by lia. replace (32 - length lh)%nat with 0%nat by lia.
    reflexivity.
Qed.

Lemma short_ltb : forall (s : bytes) (n : N) (k : nat), N.of_nat k = n ->
  (length s <? k)%nat = (blen HO s <? n).
Proof.
  intros s n k <-. unfold blen.
  destruct (Nat.ltb_spec (length s) k), (N.ltb_spec (N.of_nat (length s)) (N.of_nat k)); auto; lia.
Qed.

Lemma leaf_read : forall (d s : bytes), (blen HO s <? blen HO d) = false ->
  length (take HO (blen HO d) s) = length d /\ s = take HO (blen HO d) s ++ drop HO (blen HO d) s.
Proof.
  intros d s H. apply N.ltb_ge in H. unfold blen in *. unfold take, drop.
  rewrite Nat2N.id. split; [rewrite firstn_length; lia|symmetry; apply firstn_skipn].
Qed.

Lemma leaf_read_honest : forall (d q : bytes), take HO (blen HO d) (d ++ q) = d.
Proof.
  intros. unfold take, blen. rewrite Nat2N.id, firstn_app, Nat.sub_diag, firstn_all. cbn.
  apply app_nil_r.
Qed.

Lemma step_sync_spec : step_spec (step_sync HO).
Proof.
  intros c it h ps Ho stk s. destruct Ho as [node ir lf rt rs lh rh Hl Hr|st ir rs d Hd].
  - (* parent *)
    cbn [item_bytes]. assert (L64 : length (lh ++ rh) = 64%nat) by (rewrite app_length; lia).
    rewrite L64, (short_ltb s 64 64 eq_refl).
    unfold step_sync. destruct (blen HO s <? 64) eqn:Hs.
    + right. split.
      * intros [q ->]. apply N.ltb_lt in Hs. unfold blen in Hs. rewrite !app_length in *. lia.
      * eexists _, _. reflexivity.
    + destruct (pair_read s Hs) as [P1 [P2 P3]].
      destruct (parse_pair HO (take HO 64 s)) as [l r] eqn:Ep. cbn [fst snd] in *.
      destruct (bytes_eqb HO (parent_cv HO lh rh ir) (parent_cv HO l r ir)) eqn:E; cbn [negb].
      * apply (bytes_eqb_eq HO HOK) in E. apply (parent_cv_inj HO HOK) in E; auto.
        destruct E as [-> ->]. left. exists (drop HO 64 s). split; [exact P3|].
        destruct lf, rt; reflexivity.
      * right. split.
        -- intros [q Hq]. rewrite Hq, pair_read_honest in Ep by assumption.
           injection Ep as <- <-. rewrite bytes_eqb_refl in E by assumption. discriminate.
        -- eexists _, _. reflexivity.
  - (* leaf *)
    cbn [item_bytes]. rewrite (short_ltb s (blen HO d) (length d) eq_refl).
    unfold step_sync. destruct (blen HO s <? blen HO d) eqn:Hs.
    + right. split.
      * intros [q ->]. apply N.ltb_lt in Hs. unfold blen in Hs. rewrite !app_length in *. lia.
      * eexists _, _. reflexivity.
    + destruct (leaf_read d s Hs) as [P1 P2].
      cbv zeta.
      destruct (bytes_eqb HO (hash_subtree HO st d ir) (hash_subtree HO st (take HO (blen HO d) s) ir)) eqn:E;
        cbn [negb].
      * apply (bytes_eqb_eq HO HOK) in E. apply (hash_subtree_inj HO HOK) in E; auto.
        left. exists (drop HO (blen HO d) s). rewrite <- E. split; [rewrite E at 1; exact P2|reflexivity].
      * right. split.
        -- intros [q Hq]. rewrite Hq, leaf_read_honest, bytes_eqb_refl in E by assumption. discriminate.
        -- eexists _, _. reflexivity.
Qed.

Lemma step_fsm_spec : step_spec (step_fsm HO).
Proof.
  intros c it h ps Ho stk s. destruct Ho as [node ir lf rt rs lh rh Hl Hr|st ir rs d Hd].
  - (* parent *)
    cbn [item_bytes]. assert (L64 : length (lh ++ rh) = 64%nat) by (rewrite app_length; lia).
    rewrite L64, (short_ltb s 64 64 eq_refl).
    unfold step_fsm. destruct (blen HO s <? 64) eqn:Hs.
    + right. split.
      * intros [q ->]. apply N.ltb_lt in Hs. unfold blen in Hs. rewrite !app_length in *. lia.
      * eexists _, _. reflexivity.
    + destruct (pair_read s Hs) as [P1 [P2 P3]].
      destruct (parse_pair HO (take HO 64 s)) as [l r] eqn:Ep. cbn [fst snd] in *. cbv zeta.
      destruct (bytes_eqb HO (parent_cv HO lh rh ir) (parent_cv HO l r ir)) eqn:E; cbn [negb].
      * apply (bytes_eqb_eq HO HOK) in E. apply (parent_cv_inj HO HOK) in E; auto.
        destruct E as [-> ->]. left. exists (drop HO 64 s). split; [exact P3|].
        destruct lf, rt; reflexivity.
      * right. split.
        -- intros [q Hq]. rewrite Hq, pair_read_honest in Ep by assumption.
           injection Ep as <- <-. rewrite bytes_eqb_refl in E by assumption. discriminate.
        -- eexists _, _. reflexivity.
  - (* leaf *)
    cbn [item_bytes]. rewrite (short_ltb s (blen HO d) (length d) eq_refl).
    unfold step_fsm. destruct (blen HO s <? blen HO d) eqn:Hs.
    + right. split.
      * intros [q ->]. apply N.ltb_lt in Hs. unfold blen in Hs. rewrite !app_length in *. lia.
      * eexists _, _. reflexivity.
    + destruct (leaf_read d s Hs) as [P1 P2].
      cbv zeta.
      destruct (bytes_eqb HO (hash_subtree HO st d ir) (hash_subtree HO st (take HO (blen HO d) s) ir)) eqn:E;
        cbn [negb].
      * apply (bytes_eqb_eq HO HOK) in E. apply (hash_subtree_inj HO HOK) in E; auto.
        left. exists (drop HO (blen HO d) s). rewrite <- E. split; [rewrite E at 1; exact P2|reflexivity].
      * right. split.
        -- intros [q Hq]. rewrite Hq, leaf_read_honest, bytes_eqb_refl in E by assumption. discriminate.
        -- eexists _, _. reflexivity.
Qed.

(* ---------- forests ---------- *)
Fixpoint psize (t : ptree) : nat :=
  match t with PNode _ _ _ _ l r => S (psize l + psize r) | _ => 1 end.
Definition fsize (ts : list ptree) : nat := fold_right (fun t a => (psize t + a)%nat) 0%nat ts.
Definition fplan (ts : list ptree) : list chunk := concat (map (plan_of HO) ts).
Definition fitems (ts : list ptree) : list item := concat (map (items_of HO) ts).
Definition fstack (ts : list ptree) : list hash :=
  map (cv_of HO) (filter (fun t => negb (is_skip HO t)) ts).

Definition prepend (pre : list item) (r : dres) : dres :=
  (pre ++ r_items HO r, r_outcome HO r, r_stack HO r, r_enc HO r).

Lemma fsize_cons : forall t ts, fsize (t :: ts) = (psize t + fsize ts)%nat.
Proof. reflexivity. Qed.
Lemma psize_pos : forall t, (1 <= psize t)%nat.
Proof. destruct t; cbn; lia. Qed.

Lemma fplan_node : forall n ir lh rh l r ts,
  fplan (PNode n ir lh rh l r :: ts) =
  CParent n ir (negb (is_skip HO l)) (negb (is_skip HO r)) [] :: fplan (l :: r :: ts).
Proof. intros. unfold fplan. cbn. rewrite <- app_assoc. reflexivity. Qed.
Lemma fitems_node : forall n ir lh rh l r ts,
  fitems (PNode n ir lh rh l r :: ts) = IParent n lh rh :: fitems (l :: r :: ts).
Proof. intros. unfold fitems. cbn. rewrite <- app_assoc. reflexivity. Qed.

Lemma fstack_kids : forall n ir lh rh l r ts stk,
  consistent HO (PNode n ir lh rh l r) ->
  ((if negb (is_skip HO l) then [lh] else []) ++ (if negb (is_skip HO r) then [rh] else [])) ++ fstack ts ++ stk
  = fstack (l :: r :: ts) ++ stk.
Proof.
  intros n ir lh rh l r ts stk (_ & _ & Hl & Hr & _ & _). unfold fstack.
  destruct l, r; cbn [is_skip negb filter map app] in *; rewrite <- ?Hl, <- ?Hr by reflexivity; reflexivity.
Qed.

Section Gen.
Variable step : chunk -> list hash -> bytes -> res dec_err item * list hash * bytes.
Hypothesis Hstep : step_spec step.

Lemma forest_run : forall n ts rest stk s, (fsize ts <= n)%nat -> Forall good ts ->
  (exists s', s = flat_items HO (fitems ts) ++ s' /\
     dec_items HO step (fplan ts ++ rest) (fstack ts ++ stk) s
       = prepend (fitems ts) (dec_items HO step rest stk s'))
  \/ (exists k e stk' enc',
     dec_items HO step (fplan ts ++ rest) (fstack ts ++ stk) s
       = (firstn k (fitems ts), Failed e, stk', enc') /\
     fails_at (fplan ts) (fitems ts) s k e).
Proof.
  induction n as [|n IH]; intros ts rest stk s Hsz Hg.
  - destruct ts as [|t ts]; [|pose proof (psize_pos t); rewrite fsize_cons in Hsz; lia].
    left. exists s. split; [reflexivity|]. cbn.
    destruct (dec_items HO step rest stk s) as [[[? ?] ?] ?]. reflexivity.
  - destruct ts as [|t ts].
    { left. exists s. split; [reflexivity|]. cbn.
      destruct (dec_items HO step rest stk s) as [[[? ?] ?] ?]. reflexivity. }
    inversion Hg as [|? ? Hgt Hgts]; subst.
    destruct t as [|st ir d|node ir lh rh l r].
    + (* skipped child *)
      change (fplan (PSkip :: ts)) with (fplan ts). change (fitems (PSkip :: ts)) with (fitems ts).
      change (fstack (PSkip :: ts)) with (fstack ts).
      apply IH; [rewrite fsize_cons in Hsz; cbn [psize] in Hsz; lia|assumption].
    + (* leaf *)
      change (fplan (PLeaf st ir d :: ts)) with (CLeaf st (blen HO d) ir [] :: fplan ts).
      change (fitems (PLeaf st ir d :: ts)) with (ILeaf (to_bytes st) d :: fitems ts).
      change (fstack (PLeaf st ir d :: ts)) with (hash_subtree HO st d ir :: fstack ts).
      cbn [app dec_items].
      destruct Hgt as [_ Hd]. cbn in Hd.
      destruct (Hstep _ _ _ _ (owes_leaf st ir [] d Hd) (fstack ts ++ stk) s)
        as [(s1 & Hs1 & Est)|(Hnp & stk' & enc' & Est)]; rewrite Est.
      * cbn [app].
        destruct (IH ts rest stk s1) as [(s' & Hs' & Hrun)|(k & e & stk' & enc' & Hrun & Hf)];
          [rewrite fsize_cons in Hsz; cbn [psize] in Hsz; lia|assumption| |].
        -- left. exists s'. split.
           { rewrite Hs1, Hs', flat_items_cons, <- app_assoc. reflexivity. }
           rewrite Hrun. reflexivity.
        -- right. exists (S k), e, stk', enc'. split.
           { rewrite Hrun. reflexivity. }
           rewrite Hs1. apply fails_at_cons. exact Hf.
      * right. eexists 0%nat, _, stk', enc'. split; [reflexivity|].
        apply fails_at_here. exact Hnp.
    + (* parent *)
      rewrite fplan_node, fitems_node.
      change (fstack (PNode node ir lh rh l r :: ts)) with (parent_cv HO lh rh ir :: fstack ts).
      cbn [app dec_items].
      destruct Hgt as [Hc Hl]. pose proof Hc as (L1 & L2 & _ & _ & Hcl & Hcr). destruct Hl as [Hll Hlr].
      destruct (Hstep _ _ _ _ (owes_parent node ir (negb (is_skip HO l)) (negb (is_skip HO r)) [] lh rh L1 L2)
                  (fstack ts ++ stk) s)
        as [(s1 & Hs1 & Est)|(Hnp & stk' & enc' & Est)]; rewrite Est.
      * rewrite (fstack_kids _ _ _ _ _ _ _ _ Hc).
        destruct (IH (l :: r :: ts) rest stk s1) as [(s' & Hs' & Hrun)|(k & e & stk' & enc' & Hrun & Hf)].
        { rewrite !fsize_cons in *. cbn [psize] in Hsz. lia. }
        { repeat constructor; assumption. }
        -- left. exists s'. split.
           { rewrite Hs1, Hs', flat_items_cons, <- app_assoc. reflexivity. }
           rewrite Hrun. reflexivity.
        -- right. exists (S k), e, stk', enc'. split.
           { rewrite Hrun. reflexivity. }
           rewrite Hs1. apply fails_at_cons. exact Hf.
      * right. eexists 0%nat, _, stk', enc'. split; [reflexivity|].
        apply fails_at_here. exact Hnp.
Qed.

(* ---------- one plan tree ---------- *)
(* the behaviour of a decoder on a stream s, in terms of the honest plan and items *)
Definition run_spec (plan : list chunk) (items : list item) (s : bytes) (r : dres) : Prop :=
  (exists rest, s = flat_items HO items ++ rest /\
      r_items HO r = items /\ r_outcome HO r = Finished /\ r_enc HO r = rest)
  \/ (exists k e, r_items HO r = firstn k items /\ r_outcome HO r = Failed e /\
        fails_at plan items s k e).

Theorem tree_run : forall T s, good T ->
  run_spec (plan_of HO T) (items_of HO T) s (dec_items HO step (plan_of HO T) [cv_of HO T] s).
Proof.
  intros T s Hg. destruct (is_skip HO T) eqn:Esk.
  - destruct T; try discriminate. left. exists s. cbn. auto.
  - destruct (forest_run (fsize [T]) [T] [] [] s (le_n _) (Forall_cons _ Hg (Forall_nil _)))
      as [(s' & Hs' & Hrun)|(k & e & stk' & enc' & Hrun & Hf)];
      unfold fplan, fitems, fstack in *; cbn [map concat filter] in *; rewrite Esk in *;
      cbn [negb map] in *; rewrite ?app_nil_r in *.
    + left. exists s'. rewrite Hrun. cbn. rewrite app_nil_r. auto.
    + right. exists k, e. rewrite Hrun. cbn. auto.
Qed.
End Gen.

(* ---------- consequences of run_spec ---------- *)
Lemma fails_at_lt : forall plan items s k e, fails_at plan items s k e -> (k < length items)%nat.
Proof. intros ? ? ? ? ? (c & it & s2 & _ & H & _). apply nth_error_Some. congruence. Qed.

(* (a) soundness *)
Theorem spec_sound : forall plan items s r, run_spec plan items s r ->
  is_prefix (r_items HO r) items /\
  (r_outcome HO r = Finished -> r_items HO r = items /\ s = flat_items HO items ++ r_enc HO r) /\
  (forall e, r_outcome HO r = Failed e ->
     ~ is_prefix (flat_items HO (firstn (length (r_items HO r) + 1) items)) s) /\
  r_outcome HO r <> Panicked /\ r_outcome HO r <> OutOfFuel.
Proof.
  intros plan items s r [(rest & Hs & Hi & Ho & He)|(k & e & Hi & Ho & Hf)].
  - rewrite Hi, Ho, He. repeat split; auto; try discriminate.
    exists []. symmetry. apply app_nil_r.
  - pose proof (fails_at_lt _ _ _ _ _ Hf) as Hk.
    rewrite Hi, Ho. repeat split; try discriminate.
    + exists (skipn k items). symmetry. apply firstn_skipn.
    + intros e' _. rewrite firstn_length, Nat.min_l, Nat.add_1_r by lia.
      destruct Hf as (c & it & s2 & _ & Hn & Hs & Hnp & _).
      rewrite (firstn_S_nth _ _ _ Hn), flat_items_app. intros [q Hq].
      apply Hnp. exists q. rewrite Hs, <- app_assoc in Hq. apply app_inv_head in Hq.
      rewrite Hq. cbn. rewrite app_nil_r. reflexivity.
Qed.

(* (c) completeness *)
Theorem spec_complete : forall plan items rest r, run_spec plan items (flat_items HO items ++ rest) r ->
  r_items HO r = items /\ r_outcome HO r = Finished /\ r_enc HO r = rest.
Proof.
  intros plan items rest r [(rest' & Hs & Hi & Ho & He)|(k & e & Hi & Ho & Hf)].
  - apply app_inv_head in Hs. subst. auto.
  - exfalso. destruct Hf as (c & it & s2 & _ & Hn & Hs & Hnp & _).
    rewrite (nth_split _ _ _ Hn) in Hs at 1.
    rewrite flat_items_app, flat_items_cons, <- !app_assoc in Hs. apply app_inv_head in Hs.
    apply Hnp. eexists. symmetry. exact Hs.
Qed.

(* (b) exactness *)
(* d is the length of the longest common prefix of s and h *)
Definition lcp_len (s h : bytes) (d : nat) : Prop :=
  firstn d s = firstn d h /\ (d <= length s)%nat /\ (d <= length h)%nat /\
  ((d < length s)%nat -> (d < length h)%nat -> nth_error s d <> nth_error h d).

(* index of the item containing byte d of the flattened items *)
Fixpoint item_at (its : list item) (d : nat) : nat :=
  match its with
  | [] => 0%nat
  | it :: r =>
      if (d <? length (item_bytes HO it))%nat then 0%nat
      else S (item_at r (d - length (item_bytes HO it)))
  end.

Lemma item_at_unique : forall its d k,
  (length (flat_items HO (firstn k its)) <= d)%nat ->
  (d < length (flat_items HO (firstn (S k) its)))%nat ->
  k = item_at its d.
Proof.
  induction its as [|it its IH]; intros d k H1 H2.
  - destruct k; cbn in H2; lia.
  - cbn [item_at]. destruct k.
    + cbn [firstn] in H2. rewrite flat_items_cons in H2. cbn in H2. rewrite app_nil_r in H2.
      replace (d <? length (item_bytes HO it))%nat with true by (symmetry; apply Nat.ltb_lt; lia).
      reflexivity.
    + rewrite firstn_cons in H1, H2. rewrite flat_items_cons, app_length in H1, H2.
      replace (d <? length (item_bytes HO it))%nat with false by (symmetry; apply Nat.ltb_ge; lia).
      f_equal. apply IH; lia.
Qed.

Lemma item_at_bounds : forall its d, (d < length (flat_items HO its))%nat ->
  (length (flat_items HO (firstn (item_at its d) its)) <= d)%nat /\
  (d < length (flat_items HO (firstn (S (item_at its d)) its)))%nat /\
  (item_at its d < length its)%nat.
Proof.
  induction its as [|it its IH]; intros d H.
  - cbn in H. lia.
  - rewrite flat_items_cons, app_length in H. cbn [item_at].
    destruct (Nat.ltb_spec d (length (item_bytes HO it))).
    + rewrite firstn_cons. rewrite flat_items_cons, app_length. cbn. lia.
    + destruct (IH (d - length (item_bytes HO it))%nat) as (A & B & C); [lia|].
      rewrite !firstn_cons, !flat_items_cons, !app_length. cbn [length]. lia.
Qed.

Theorem spec_exact : forall plan items s r d c,
  run_spec plan items s r ->
  lcp_len s (flat_items HO items) d -> (d < length (flat_items HO items))%nat ->
  nth_error plan (item_at items d) = Some c ->
  r_items HO r = firstn (item_at items d) items /\
  r_outcome HO r =
    Failed (chunk_err (length s <? length (flat_items HO (firstn (S (item_at items d)) items)))%nat c).
Proof.
  intros plan items s r d c Hspec (L1 & L2 & L3 & L4) Hd Hc.
  destruct Hspec as [(rest & Hs & Hi & Ho & He)|(k & e & Hi & Ho & Hf)].
  - (* the honest encoding is a prefix: then d is its whole length *)
    exfalso. assert (Hds : (d < length s)%nat) by (rewrite Hs, app_length; lia).
    apply (L4 Hds Hd). rewrite Hs. apply nth_error_app1. exact Hd.
  - destruct Hf as (c' & it & s2 & Hc' & Hn & Hs & Hnp & He).
    pose proof (nth_split _ _ _ Hn) as Hsplit.
    set (pre := flat_items HO (firstn k items)) in *.
    assert (Hh : flat_items HO items = pre ++ item_bytes HO it ++ flat_items HO (skipn (S k) items)).
    { rewrite Hsplit at 1. rewrite flat_items_app, flat_items_cons. reflexivity. }
    assert (A : (length pre <= d)%nat).
    { destruct (Nat.le_gt_cases (length pre) d) as [|G]; [assumption|]. exfalso.
      assert (Hds : (d < length s)%nat) by (rewrite Hs, app_length; lia).
      apply (L4 Hds Hd). rewrite Hs, Hh, !nth_error_app1 by assumption. reflexivity. }
    assert (Bd : (d < length pre + length (item_bytes HO it))%nat).
    { destruct (Nat.le_gt_cases (length pre + length (item_bytes HO it)) d) as [G|]; [|assumption].
      exfalso. apply Hnp.
      set (m := (length pre + length (item_bytes HO it))%nat) in *.
      assert (E : firstn m s = firstn m (flat_items HO items)).
      { rewrite <- (Nat.min_l m d) by lia. rewrite <- !firstn_firstn, L1. reflexivity. }
      rewrite Hh, app_assoc in E.
      rewrite (firstn_app m (pre ++ item_bytes HO it)) in E.
      rewrite (firstn_all2 (pre ++ item_bytes HO it)) in E by (rewrite app_length; lia).
      replace (m - length (pre ++ item_bytes HO it))%nat with 0%nat in E by (rewrite app_length; lia).
      cbn [firstn] in E. rewrite app_nil_r in E.
      exists (skipn (length (item_bytes HO it)) s2).
      assert (E2 : firstn m s ++ skipn m s = s) by apply firstn_skipn.
      rewrite E in E2. rewrite Hs in E2 at 2. rewrite <- app_assoc in E2. apply app_inv_head in E2.
      rewrite <- E2 at 1. f_equal.
      rewrite Hs. unfold m. rewrite skipn_app.
      rewrite skipn_all2 by lia. replace (length pre + length (item_bytes HO it) - length pre)%nat
        with (length (item_bytes HO it)) by lia. reflexivity. }
    assert (Ek : k = item_at items d).
    { apply item_at_unique; [exact A|].
      rewrite (firstn_S_nth _ _ _ Hn), flat_items_app, app_length. cbn. rewrite app_nil_r. exact Bd. }
    subst k. rewrite Hc in Hc'. injection Hc' as <-.
    split; [exact Hi|]. rewrite Ho, He. do 2 f_equal.
    rewrite (firstn_S_nth _ _ _ Hn), flat_items_app, flat_items_one, Hs, !app_length.
    fold pre.
    destruct (Nat.ltb_spec (length s2) (length (item_bytes HO it))),
             (Nat.ltb_spec (length pre + length s2) (length pre + length (item_bytes HO it))); auto; lia.
Qed.

(* the two corollaries in the property's words *)
Lemma lcp_truncation : forall (h : bytes) p, (p < length h)%nat -> lcp_len (firstn p h) h p.
Proof.
  intros h p Hp. unfold lcp_len. rewrite firstn_firstn, Nat.min_id, firstn_length.
  repeat split; try lia.
Qed.

Lemma lcp_alteration : forall (h : bytes) p b b', nth_error h p = Some b -> b' <> b ->
  lcp_len (firstn p h ++ b' :: skipn (S p) h) h p /\
  length (firstn p h ++ b' :: skipn (S p) h) = length h.
Proof.
  intros h p b b' Hn Hb.
  assert (Hp : (p < length h)%nat) by (apply nth_error_Some; congruence).
  assert (Lf : length (firstn p h) = p) by (rewrite firstn_length; lia).
  split.
  - unfold lcp_len. repeat split.
    + rewrite firstn_app, Lf, Nat.sub_diag. cbn. rewrite app_nil_r.
      rewrite firstn_all2 by lia. reflexivity.
    + rewrite app_length, Lf. lia.
    + lia.
    + intros _ _. rewrite nth_error_app2, Lf, Nat.sub_diag by lia. cbn. congruence.
  - rewrite app_length, Lf. cbn [length]. rewrite skipn_length. lia.
Qed.

End Forest.
