(* Gap audit of C13, byte level (G4 and the chain part of G3): the statements of Props/C13b.v were about the
   specification functions spec_outboard / true_pair only.  Here they are stated for what the model's code
   produces (the post-order writers, the creation entry points) and for what the model's loaders return from
   the created stores. *)
From BaoV Require Import Model.Sync Model.Fsm Spec.EncSpec Spec.PlanSpec Spec.NodeSpec Spec.HashAssm.
From BaoV Require Import Proofs.NodeLevel Proofs.ShapeBase Proofs.ShapeOffsets Proofs.ShapeLayout
  Proofs.ObBase Proofs.ObLoop Proofs.ObCreate Proofs.ObSize Proofs.ObStable Proofs.ObPrefix
  Proofs.E2EOutboard Proofs.HistOb Proofs.FinalStore Proofs.GapStable.
From Coq Require Import Lia Arith PeanoNat ZArith ZifyN ZifyNat ZifyBool.
Open Scope N_scope.
Arguments N.add : simpl never.
Arguments N.sub : simpl never.
Arguments N.mul : simpl never.
Arguments N.pow : simpl never.
Arguments N.div : simpl never.
Arguments N.modulo : simpl never.
Arguments N.min : simpl never.
Arguments N.max : simpl never.

Lemma triple_mid {A1 A2 A3} (x : A1 * A2 * A3) a b c : x = (a, b, c) -> snd (fst x) = b.
Proof. intros ->. reflexivity. Qed.

Lemma ok_some_inj {E A} (a b : A) : @Ok E (option A) (Some a) = Ok (Some b) -> a = b.
Proof. intro H. injection H as H. exact H. Qed.

Lemma firstn_add_skipn {A} : forall (i k : nat) (l : list A), firstn (i + k) l = firstn i l ++ firstn k (skipn i l).
Proof.
  induction i as [|i IH]; intros k l; [reflexivity|].
  destruct l as [|x l]; [cbn [Nat.add firstn skipn app]; now rewrite firstn_nil|].
  cbn [Nat.add firstn skipn app]. f_equal. apply IH.
Qed.

Section GapBytes.
Variable HO : hops.
Hypothesis Hlen : cv_len32 HO.
Notation bytes := (bytes HO).
Notation hash := (hash HO).
Notation outboard := (outboard HO).

(* ---- the outputs of the writers ---- *)
Lemma writer_out (d : bytes) bs : blen HO d <= 2 ^ 63 -> bs <= 10 ->
  snd (fst (outboard_post_order HO (mkTree (blen HO d) bs) d)) = spec_outboard HO true d bs /\
  snd (fst (outboard_post_order_fsm HO (mkTree (blen HO d) bs) d)) = spec_outboard HO true d bs.
Proof.
  intros Hs Hb. destruct (e2e_post_order_writer HO d bs Hs Hb) as [E1 E2].
  split; [exact (triple_mid _ _ _ _ E1)|exact (triple_mid _ _ _ _ E2)].
Qed.

Lemma size_le_app (data ext : bytes) : blen HO data <= blen HO (data ++ ext).
Proof. rewrite blen_app. lia. Qed.

(* the cut is inside the smaller outboard *)
Lemma cut_inside (d : bytes) bs post : blen HO d <= 2 ^ 63 -> bs <= 10 ->
  64 * sp_stable_count (blen HO d) bs <= blen HO (spec_outboard HO post d bs).
Proof.
  intros Hs Hb. rewrite (spec_outboard_size HO Hlen d bs post Hs).
  pose proof (gap_stable_count_le (blen HO d) bs Hs Hb). lia.
Qed.

(* G4: the bytes written by OutboardWriter-style post-order creation (sync and fsm): the output for the blob,
   cut after its stable pairs, is a prefix of the output for every extension *)
Theorem gap_prefix_writers (data ext : bytes) bs : blen HO (data ++ ext) <= 2 ^ 63 -> bs <= 10 ->
  let s := sp_stable_count (blen HO data) bs in
  take HO (64 * s) (snd (fst (outboard_post_order HO (mkTree (blen HO data) bs) data)))
  = take HO (64 * s) (snd (fst (outboard_post_order HO (mkTree (blen HO (data ++ ext)) bs) (data ++ ext)))) /\
  take HO (64 * s) (snd (fst (outboard_post_order_fsm HO (mkTree (blen HO data) bs) data)))
  = take HO (64 * s) (snd (fst (outboard_post_order_fsm HO (mkTree (blen HO (data ++ ext)) bs) (data ++ ext)))) /\
  64 * s <= blen HO (snd (fst (outboard_post_order HO (mkTree (blen HO data) bs) data))) /\
  64 * s <= blen HO (snd (fst (outboard_post_order_fsm HO (mkTree (blen HO data) bs) data))).
Proof.
  intros Hs' Hb s. pose proof (size_le_app data ext) as Hle.
  assert (Hs : blen HO data <= 2 ^ 63) by lia.
  destruct (writer_out data bs Hs Hb) as [E1 E2]. destruct (writer_out (data ++ ext) bs Hs' Hb) as [E3 E4].
  rewrite E1, E2, E3, E4.
  pose proof (outboard_prefix HO Hlen data ext bs Hs') as P. fold s in P.
  pose proof (cut_inside data bs true Hs Hb) as C. fold s in C.
  split; [exact P|]. split; [exact P|]. split; exact C.
Qed.

(* any two stores holding the specified post-order outboards (in particular the created ones) *)
Theorem gap_prefix_created_store (data ext : bytes) bs (ob1 ob2 : outboard) :
  blen HO (data ++ ext) <= 2 ^ 63 -> bs <= 10 ->
  created_store HO data bs ob1 -> created_store HO (data ++ ext) bs ob2 ->
  is_post (ob_k ob1) = true -> is_post (ob_k ob2) = true ->
  let s := sp_stable_count (blen HO data) bs in
  take HO (64 * s) (ob_data ob1) = take HO (64 * s) (ob_data ob2) /\
  64 * s <= blen HO (ob_data ob1) /\
  ob_data ob2 = take HO (64 * s) (ob_data ob1) ++ drop HO (64 * s) (ob_data ob2).
Proof.
  intros Hs' Hb [K1 T1 R1 D1] [K2 T2 R2 D2] P1 P2 s. pose proof (size_le_app data ext) as Hle.
  assert (Hs : blen HO data <= 2 ^ 63) by lia.
  rewrite P1 in D1. rewrite P2 in D2.
  pose proof (outboard_prefix HO Hlen data ext bs Hs') as P. fold s in P.
  pose proof (cut_inside data bs true Hs Hb) as C. fold s in C.
  rewrite D1, D2. split; [exact P|]. split; [exact C|].
  rewrite P. symmetry. apply take_app_drop.
Qed.

Theorem gap_prefix_created_by (data ext : bytes) bs (ob1 ob2 : outboard) :
  blen HO (data ++ ext) <= 2 ^ 63 -> bs <= 10 ->
  created_by HO data bs ob1 -> created_by HO (data ++ ext) bs ob2 ->
  is_post (ob_k ob1) = true -> is_post (ob_k ob2) = true ->
  let s := sp_stable_count (blen HO data) bs in
  take HO (64 * s) (ob_data ob1) = take HO (64 * s) (ob_data ob2) /\
  64 * s <= blen HO (ob_data ob1) /\
  ob_data ob2 = take HO (64 * s) (ob_data ob1) ++ drop HO (64 * s) (ob_data ob2).
Proof.
  intros Hs' Hb C1 C2. pose proof (size_le_app data ext) as Hle.
  assert (Hs : blen HO data <= 2 ^ 63) by lia.
  apply (gap_prefix_created_store data ext bs ob1 ob2 Hs' Hb).
  - exact (c03_created_by_store HO Hlen data bs Hs Hb ob1 C1).
  - exact (c03_created_by_store HO Hlen (data ++ ext) bs Hs' Hb ob2 C2).
Qed.

(* the three post-order creation entry points, explicitly: they succeed on both blobs, return one byte vector o1
   for the blob and one byte vector o2 for the extension, and o1 cut after the stable pairs is a prefix of o2 *)
Theorem gap_prefix_entry_points (data ext : bytes) bs : blen HO (data ++ ext) <= 2 ^ 63 -> bs <= 10 ->
  exists (o1 o2 : bytes),
   (create_sized HO PostIO data (blen HO data) bs
      = Ok (mkOb PostIO (root_hash HO data) (mkTree (blen HO data) bs) o1) /\
    create_sized_fsm HO PostIO data (blen HO data) bs
      = Ok (mkOb PostIO (root_hash HO data) (mkTree (blen HO data) bs) o1) /\
    post_mem_create HO data bs
      = Ok (mkOb PostMem (root_hash HO data) (mkTree (blen HO data) bs) o1)) /\
   (create_sized HO PostIO (data ++ ext) (blen HO (data ++ ext)) bs
      = Ok (mkOb PostIO (root_hash HO (data ++ ext)) (mkTree (blen HO (data ++ ext)) bs) o2) /\
    create_sized_fsm HO PostIO (data ++ ext) (blen HO (data ++ ext)) bs
      = Ok (mkOb PostIO (root_hash HO (data ++ ext)) (mkTree (blen HO (data ++ ext)) bs) o2) /\
    post_mem_create HO (data ++ ext) bs
      = Ok (mkOb PostMem (root_hash HO (data ++ ext)) (mkTree (blen HO (data ++ ext)) bs) o2)) /\
   64 * sp_stable_count (blen HO data) bs <= blen HO o1 /\
   o2 = take HO (64 * sp_stable_count (blen HO data) bs) o1 ++ drop HO (64 * sp_stable_count (blen HO data) bs) o2.
Proof.
  intros Hs' Hb. pose proof (size_le_app data ext) as Hle.
  assert (Hs : blen HO data <= 2 ^ 63) by lia.
  destruct (c03_created_entry_points HO Hlen data bs Hs Hb) as (_ & (B1 & B2) & _ & B3).
  destruct (c03_created_entry_points HO Hlen (data ++ ext) bs Hs' Hb) as (_ & (B4 & B5) & _ & B6).
  exists (spec_outboard HO true data bs), (spec_outboard HO true (data ++ ext) bs).
  split; [split; [exact B1|split; [exact B2|exact B3]]|].
  split; [split; [exact B4|split; [exact B5|exact B6]]|].
  split; [exact (cut_inside data bs true Hs Hb)|].
  rewrite (outboard_prefix HO Hlen data ext bs Hs'). symmetry. apply take_app_drop.
Qed.

(* ---- G4: the stored pairs ---- *)

(* A listed node of the blob's tree that is classified Stable: every created store of the blob and every created
   store of any extension (each of any of the four kinds, pre- or post-order, io or memory backed) returns the
   same pair for it, namely the blob's true pair, from the sync and from the fsm loader. *)
Theorem gap_keeps_stored_pair (data ext : bytes) bs (ob1 ob2 : outboard) nd v :
  blen HO (data ++ ext) <= 2 ^ 63 -> bs <= 10 ->
  created_store HO data bs ob1 -> created_store HO (data ++ ext) bs ob2 ->
  In nd (sp_post_nodes (blen HO data) bs) ->
  post_order_offset (mkTree (blen HO data) bs) nd = Some (Stable v) ->
  load_sync HO ob2 nd = load_sync HO ob1 nd /\
  load_fsm HO ob2 nd = load_fsm HO ob1 nd /\
  load_sync HO ob1 nd = Ok (Some (true_pair HO data nd)) /\
  load_fsm HO ob1 nd = Ok (Some (true_pair HO data nd)) /\
  true_pair HO (data ++ ext) nd = true_pair HO data nd.
Proof.
  intros Hs' Hb [K1 T1 R1 D1] [K2 T2 R2 D2] Hin Hst. pose proof (size_le_app data ext) as Hle.
  assert (Hs : blen HO data <= 2 ^ 63) by lia.
  destruct (gap_stable_stays_listed (blen HO data) (blen HO (data ++ ext)) bs nd v Hle Hs' Hb Hin Hst)
    as (L2 & P2 & _ & P1 & I1).
  assert (Hp1 : pnode (blen HO data) bs nd).
  { apply (pnode_post (blen HO data) bs Hs). apply filter_In. split; assumption. }
  assert (Hp2 : pnode (blen HO (data ++ ext)) bs nd).
  { apply (pnode_post (blen HO (data ++ ext)) bs Hs'). apply filter_In. split; assumption. }
  destruct (created_loads_pnode HO Hlen data bs Hs Hb ob1 K1 T1 D1 nd Hp1) as [A1 A2].
  destruct (created_loads_pnode HO Hlen (data ++ ext) bs Hs' Hb ob2 K2 T2 D2 nd Hp2) as [A3 A4].
  assert (Hk : true_pair HO (data ++ ext) nd = true_pair HO data nd).
  { symmetry. apply keeps_pair. unfold sp_subtree_inside in I1. apply N.leb_le in I1. exact I1. }
  rewrite A1, A2, A3, A4, Hk. repeat split; reflexivity.
Qed.

(* the same for EVERY node id at or above the block level whose whole subtree lies inside the blob (no assumption
   that the node is listed): it is classified Stable, with the same slot, in the tree of the blob and of the
   extension, and all created stores of both return the blob's true pair for it *)
Theorem gap_keeps_stored_pair_inside (data ext : bytes) bs (ob1 ob2 : outboard) nd :
  blen HO (data ++ ext) <= 2 ^ 63 -> bs <= 10 ->
  created_store HO data bs ob1 -> created_store HO (data ++ ext) bs ob2 ->
  bs <= level nd -> sp_chunk_end nd * 1024 <= blen HO data ->
  (exists v, post_order_offset (mkTree (blen HO data) bs) nd = Some (Stable v) /\
             post_order_offset (mkTree (blen HO (data ++ ext)) bs) nd = Some (Stable v)) /\
  In nd (sp_post_nodes (blen HO data) bs) /\
  load_sync HO ob2 nd = load_sync HO ob1 nd /\
  load_fsm HO ob2 nd = load_fsm HO ob1 nd /\
  load_sync HO ob1 nd = Ok (Some (true_pair HO data nd)) /\
  load_fsm HO ob1 nd = Ok (Some (true_pair HO data nd)) /\
  true_pair HO (data ++ ext) nd = true_pair HO data nd.
Proof.
  intros Hs' Hb C1 C2 Hl Hi. pose proof (size_le_app data ext) as Hle.
  assert (Hs : blen HO data <= 2 ^ 63) by lia.
  assert (H64 : 2 ^ 63 < 2 ^ 64) by (apply N.ltb_lt; reflexivity).
  assert (Hw : sp_chunk_end nd * 1024 < 2 ^ 64) by lia.
  destruct (proj2 (gap_stable_iff_all (blen HO data) bs nd Hw) (conj Hl Hi)) as [v Hst].
  destruct (gap_inside_listed (blen HO data) bs nd Hs Hl Hi) as [Hin _].
  split; [exists v; split; [exact Hst|exact (keeps_slot _ _ bs nd v Hle Hst)]|].
  split; [exact Hin|].
  exact (gap_keeps_stored_pair data ext bs ob1 ob2 nd v Hs' Hb C1 C2 Hin Hst).
Qed.

Lemma slice_of_take (d : bytes) off m : off + 64 <= m -> slice HO off 64 (take HO m d) = slice HO off 64 d.
Proof.
  intro H. unfold slice. rewrite drop_take, take_take. f_equal. lia.
Qed.

(* in post-order stores the pair also stays at the same place: same slot v, below the cut, same 64 bytes *)
Theorem gap_keeps_stored_slot (data ext : bytes) bs (ob1 ob2 : outboard) nd v :
  blen HO (data ++ ext) <= 2 ^ 63 -> bs <= 10 ->
  created_store HO data bs ob1 -> created_store HO (data ++ ext) bs ob2 ->
  is_post (ob_k ob1) = true -> is_post (ob_k ob2) = true ->
  In nd (sp_post_nodes (blen HO data) bs) ->
  post_order_offset (mkTree (blen HO data) bs) nd = Some (Stable v) ->
  ob_offset HO ob1 nd = Some v /\ ob_offset HO ob2 nd = Some v /\
  v < sp_stable_count (blen HO data) bs /\
  v * 64 + 64 <= blen HO (ob_data ob1) /\
  slice HO (v * 64) 64 (ob_data ob2) = slice HO (v * 64) 64 (ob_data ob1) /\
  parse_pair HO (slice HO (v * 64) 64 (ob_data ob1)) = true_pair HO data nd.
Proof.
  intros Hs' Hb C1 C2 P1 P2 Hin Hst. pose proof (size_le_app data ext) as Hle.
  assert (Hs : blen HO data <= 2 ^ 63) by lia.
  destruct (gap_prefix_created_store data ext bs ob1 ob2 Hs' Hb C1 C2 P1 P2) as (E & Hc & _).
  destruct (gap_keeps_stored_pair data ext bs ob1 ob2 nd v Hs' Hb C1 C2 Hin Hst) as (_ & _ & A1 & _ & _).
  pose proof (keeps_slot (blen HO data) (blen HO (data ++ ext)) bs nd v Hle Hst) as Hst'.
  destruct (layout_spec (blen HO data) bs nd v Hs Hb Hin) as [Lv _]. specialize (Lv Hst).
  pose proof (gap_stable_count_le (blen HO data) bs Hs Hb) as Sle.
  destruct C1 as [K1 T1 R1 D1]. destruct C2 as [K2 T2 R2 D2].
  assert (O1 : ob_offset HO ob1 nd = Some v).
  { unfold ob_offset. rewrite T1, Hst. destruct (ob_k ob1); try discriminate P1; reflexivity. }
  assert (O2 : ob_offset HO ob2 nd = Some v).
  { unfold ob_offset. rewrite T2, Hst'. destruct (ob_k ob2); try discriminate P2; reflexivity. }
  pose proof (created_sized HO Hlen data bs Hs ob1 K1 T1 D1) as Z1.
  destruct (sized_load HO (blen HO data) bs Hs Hb ob1 nd v Z1 O1 ltac:(lia)) as [S1 _].
  split; [exact O1|]. split; [exact O2|]. split; [exact Lv|]. split; [lia|]. split.
  - rewrite <- (slice_of_take (ob_data ob2) (v * 64) (64 * sp_stable_count (blen HO data) bs)) by lia.
    rewrite <- E. apply slice_of_take. lia.
  - rewrite S1 in A1. exact (ok_some_inj _ _ A1).
Qed.

(* ---- G3: chains of appends ---- *)
Theorem gap_prefix_chain2 (data ext1 ext2 : bytes) bs : blen HO (data ++ ext1 ++ ext2) <= 2 ^ 63 ->
  let s1 := sp_stable_count (blen HO data) bs in
  let s2 := sp_stable_count (blen HO (data ++ ext1)) bs in
  s1 <= s2 /\
  take HO (64 * s1) (spec_outboard HO true data bs) = take HO (64 * s1) (spec_outboard HO true (data ++ ext1) bs) /\
  take HO (64 * s1) (spec_outboard HO true data bs) = take HO (64 * s1) (spec_outboard HO true (data ++ ext1 ++ ext2) bs) /\
  take HO (64 * s2) (spec_outboard HO true (data ++ ext1) bs)
    = take HO (64 * s2) (spec_outboard HO true (data ++ ext1 ++ ext2) bs) /\
  take HO (64 * s1) (spec_outboard HO true data bs)
    = take HO (64 * s1) (take HO (64 * s2) (spec_outboard HO true (data ++ ext1) bs)).
Proof.
  intros H s1 s2.
  assert (H1 : blen HO (data ++ ext1) <= 2 ^ 63) by (rewrite !blen_app in *; lia).
  assert (M : s1 <= s2) by (apply gap_stable_count_mono; [apply size_le_app|exact H1]).
  pose proof (outboard_prefix HO Hlen data ext1 bs H1) as P1. fold s1 in P1.
  pose proof (outboard_prefix HO Hlen data (ext1 ++ ext2) bs H) as P2. fold s1 in P2.
  assert (H' : blen HO ((data ++ ext1) ++ ext2) <= 2 ^ 63) by (rewrite <- app_assoc; exact H).
  pose proof (outboard_prefix HO Hlen (data ++ ext1) ext2 bs H') as P3. fold s2 in P3.
  rewrite <- app_assoc in P3.
  split; [exact M|]. split; [exact P1|]. split; [exact P2|]. split; [exact P3|].
  rewrite take_take. replace (N.min (64 * s1) (64 * s2)) with (64 * s1) by lia. exact P1.
Qed.

(* any chain of appends data, data ++ e1, data ++ e1 ++ e2, ...: the stable counts grow and the cut of every
   stage is a prefix of the outboard (and of the cut) of every later stage; stated for the bytes the model's
   post-order writer produces *)
Theorem gap_prefix_chain (data : bytes) (exts : list bytes) bs (i j : nat) :
  blen HO (data ++ concat exts) <= 2 ^ 63 -> bs <= 10 -> (i <= j)%nat ->
  let di := data ++ concat (firstn i exts) in
  let dj := data ++ concat (firstn j exts) in
  let si := sp_stable_count (blen HO di) bs in
  let sj := sp_stable_count (blen HO dj) bs in
  si <= sj /\
  take HO (64 * si) (snd (fst (outboard_post_order HO (mkTree (blen HO di) bs) di)))
  = take HO (64 * si) (snd (fst (outboard_post_order HO (mkTree (blen HO dj) bs) dj))) /\
  take HO (64 * si) (snd (fst (outboard_post_order HO (mkTree (blen HO di) bs) di)))
  = take HO (64 * si) (take HO (64 * sj) (snd (fst (outboard_post_order HO (mkTree (blen HO dj) bs) dj)))).
Proof.
  intros H Hb Hij di dj si sj.
  set (e := concat (firstn (j - i) (skipn i exts))).
  assert (Edj : dj = di ++ e).
  { unfold dj, di, e. replace j with (i + (j - i))%nat at 1 by lia.
    rewrite firstn_add_skipn, concat_app, app_assoc. reflexivity. }
  assert (Hj : blen HO dj <= 2 ^ 63).
  { unfold dj. rewrite <- (firstn_skipn j exts) in H. rewrite concat_app, !blen_app in H. rewrite blen_app. lia. }
  assert (Hi : blen HO di <= 2 ^ 63) by (rewrite Edj, blen_app in Hj; lia).
  assert (M : si <= sj).
  { apply gap_stable_count_mono; [|exact Hj]. rewrite Edj. apply size_le_app. }
  destruct (writer_out di bs Hi Hb) as [E1 _]. destruct (writer_out dj bs Hj Hb) as [E2 _].
  rewrite E1, E2.
  assert (P : take HO (64 * si) (spec_outboard HO true di bs) = take HO (64 * si) (spec_outboard HO true dj bs)).
  { rewrite Edj. apply (outboard_prefix HO Hlen di e bs). rewrite <- Edj. exact Hj. }
  split; [exact M|]. split; [exact P|].
  rewrite take_take. replace (N.min (64 * si) (64 * sj)) with (64 * si) by lia. exact P.
Qed.

End GapBytes.

(* ================= non-vacuity ================= *)
(* blob of 3 chunks, extension by 1 chunk, block size 0, node 0 (the leaf over chunks 0 and 1), slot 0;
   a post-order memory store for the blob and a pre-order io store for the extension *)
Lemma gap_keeps_stored_pair_nonvacuous :
  cv_len32 gap_hops /\
  exists (data ext : bytes gap_hops) (bs : N) (ob1 ob2 : outboard gap_hops) (nd v : N),
    blen gap_hops (data ++ ext) <= 2 ^ 63 /\ bs <= 10 /\
    created_store gap_hops data bs ob1 /\ created_store gap_hops (data ++ ext) bs ob2 /\
    In nd (sp_post_nodes (blen gap_hops data) bs) /\
    post_order_offset (mkTree (blen gap_hops data) bs) nd = Some (Stable v).
Proof.
  split; [exact gap_hops_len32|].
  exists (gap_blob 3072), (gap_blob 1024), 0.
  exists (mkOb PostMem (root_hash gap_hops (gap_blob 3072)) (mkTree (blen gap_hops (gap_blob 3072)) 0)
            (spec_outboard gap_hops true (gap_blob 3072) 0)).
  exists (mkOb PreIO (root_hash gap_hops (gap_blob 3072 ++ gap_blob 1024))
            (mkTree (blen gap_hops (gap_blob 3072 ++ gap_blob 1024)) 0)
            (spec_outboard gap_hops false (gap_blob 3072 ++ gap_blob 1024) 0)).
  exists 0, 0.
  split; [rewrite blen_app, !gap_blob_len; apply N.leb_le; vm_compute; reflexivity|].
  split; [lia|].
  split; [apply created_store_mk; [right; right; right; reflexivity|reflexivity]|].
  split; [apply created_store_mk; [left; reflexivity|reflexivity]|].
  rewrite gap_blob_len. split; vm_compute; auto.
Qed.

Lemma gap_keeps_stored_pair_inside_nonvacuous :
  exists (data ext : bytes gap_hops) (bs : N) (ob1 ob2 : outboard gap_hops) (nd : N),
    blen gap_hops (data ++ ext) <= 2 ^ 63 /\ bs <= 10 /\
    created_store gap_hops data bs ob1 /\ created_store gap_hops (data ++ ext) bs ob2 /\
    bs <= level nd /\ sp_chunk_end nd * 1024 <= blen gap_hops data.
Proof.
  exists (gap_blob 3072), (gap_blob 1024), 0.
  exists (mkOb PostMem (root_hash gap_hops (gap_blob 3072)) (mkTree (blen gap_hops (gap_blob 3072)) 0)
            (spec_outboard gap_hops true (gap_blob 3072) 0)).
  exists (mkOb PreIO (root_hash gap_hops (gap_blob 3072 ++ gap_blob 1024))
            (mkTree (blen gap_hops (gap_blob 3072 ++ gap_blob 1024)) 0)
            (spec_outboard gap_hops false (gap_blob 3072 ++ gap_blob 1024) 0)).
  exists 0.
  split; [rewrite blen_app, !gap_blob_len; apply N.leb_le; vm_compute; reflexivity|].
  split; [lia|].
  split; [apply created_store_mk; [right; right; right; reflexivity|reflexivity]|].
  split; [apply created_store_mk; [left; reflexivity|reflexivity]|].
  rewrite gap_blob_len. split; apply N.leb_le; vm_compute; reflexivity.
Qed.

Lemma gap_keeps_stored_slot_nonvacuous :
  exists (data ext : bytes gap_hops) (bs : N) (ob1 ob2 : outboard gap_hops) (nd v : N),
    blen gap_hops (data ++ ext) <= 2 ^ 63 /\ bs <= 10 /\
    created_store gap_hops data bs ob1 /\ created_store gap_hops (data ++ ext) bs ob2 /\
    is_post (ob_k ob1) = true /\ is_post (ob_k ob2) = true /\
    In nd (sp_post_nodes (blen gap_hops data) bs) /\
    post_order_offset (mkTree (blen gap_hops data) bs) nd = Some (Stable v).
Proof.
  exists (gap_blob 3072), (gap_blob 1024), 0.
  exists (mkOb PostMem (root_hash gap_hops (gap_blob 3072)) (mkTree (blen gap_hops (gap_blob 3072)) 0)
            (spec_outboard gap_hops true (gap_blob 3072) 0)).
  exists (mkOb PostIO (root_hash gap_hops (gap_blob 3072 ++ gap_blob 1024))
            (mkTree (blen gap_hops (gap_blob 3072 ++ gap_blob 1024)) 0)
            (spec_outboard gap_hops true (gap_blob 3072 ++ gap_blob 1024) 0)).
  exists 0, 0.
  split; [rewrite blen_app, !gap_blob_len; apply N.leb_le; vm_compute; reflexivity|].
  split; [lia|].
  split; [apply created_store_mk; [right; right; right; reflexivity|reflexivity]|].
  split; [apply created_store_mk; [right; left; reflexivity|reflexivity]|].
  split; [reflexivity|]. split; [reflexivity|].
  rewrite gap_blob_len. split; vm_compute; auto.
Qed.

(* the created_by hypotheses of gap_prefix_created_by are satisfiable: gap_prefix_entry_points exhibits the
   results of the entry points; and the cut is not empty in general *)
Lemma gap_stable_count_nonvacuous :
  sp_stable_count 3072 0 = 1 /\ sp_stable_count 4096 0 = 3 /\ sp_blocks 3072 0 - 1 = 2 /\ sp_blocks 4096 0 - 1 = 3.
Proof. vm_compute. repeat split; reflexivity. Qed.
