(* Final composition, part 2 (C02 / C05): the parents of the encoder's plan are persisted nodes of the
   Shape, so the validating encoders on a created store emit the honest encoding; composed with the
   decoders: the full round trip. *)
From BaoV Require Import Model.Sync Model.Fsm Spec.RangeSpec Spec.NodeSpec Spec.PlanSpec Spec.PlanWf Spec.EncSpec Spec.HashAssm.
From BaoV Require Import Proofs.NodeLevel Proofs.NodeBits Proofs.NodeAlgebra Proofs.RangeBase Proofs.RangeTrunc Proofs.PlanBase Proofs.PlanNav Proofs.ValSpec Proofs.HistOb Proofs.HistPath.
From BaoV Require Import Proofs.EncPlan Proofs.EncLoop Proofs.EncMain Proofs.EncTop Proofs.EncThm.
From BaoV Require Import Proofs.DecForest Proofs.DecRanges Proofs.E2EGlue Proofs.E2EDecode Proofs.E2ERanges Proofs.E2EMisc.
From BaoV Require Import Proofs.FinalStore.
From Coq Require Import ZArith Lia.
Open Scope N_scope.
Arguments N.add : simpl never.
Arguments N.sub : simpl never.
Arguments N.mul : simpl never.
Arguments N.pow : simpl never.
Arguments N.div : simpl never.
Arguments N.modulo : simpl never.
Arguments N.log2 : simpl never.
Arguments N.min : simpl never.
Arguments N.max : simpl never.

Section EncNodes.
Variables (size bs : N).
Hypothesis Hsize : size <= 2 ^ 63.
Hypothesis Hbs : bs <= 10.
Local Notation B := (sp_blocks size bs).

Lemma plan_nodes_cons_parent nd ir lf rt rs l :
  plan_nodes (CParent nd ir lf rt rs :: l) = nd :: plan_nodes l.
Proof. reflexivity. Qed.
Lemma plan_nodes_cons_leaf a sz ir rs l : plan_nodes (CLeaf a sz ir rs :: l) = plan_nodes l.
Proof. reflexivity. Qed.
Lemma plan_nodes_leafopt (c : bool) a sz ir rs : plan_nodes (if c then [] else [CLeaf a sz ir rs]) = [].
Proof. destruct c; reflexivity. Qed.

Lemma rplan_rec_pnodes : forall fuel ga n rm rs ir nd,
  node_ok size bs ga n rm -> (rm = false -> ga + n < B) -> N.log2 (capof n) <= N.of_nat fuel ->
  In nd (plan_nodes (rplan_rec fuel size bs rs ga n ir)) ->
  In nd (map (unshift bs) (sh_pre fuel ga n)) /\ sp_persisted size bs nd = true.
Proof.
  induction fuel as [|f IH]; intros ga n rm rs ir nd Hok Hnr Hf Hin.
  { destruct Hin. }
  rewrite rplan_rec_eq in Hin. cbv zeta in Hin.
  destruct (r_is_empty rs); [destruct Hin|].
  destruct (N.leb_spec n 2) as [L2|L2].
  - destruct (N.leb_spec size ((ga + 1) * 2 ^ bs * 1024)) as [Ls|Ls]; [destruct Hin|].
    rewrite plan_nodes_cons_parent, plan_nodes_app, !plan_nodes_leafopt in Hin.
    destruct Hin as [<-|[]].
    assert (HB : ga + 1 < B) by (rewrite sp_blocks_spec; right; exact Ls).
    assert (Hn2 : 2 <= n).
    { pose proof Hok as [P1 A I R]. destruct rm; [lia|]. rewrite capof_small in R by assumption. lia. }
    assert (Es : sid ga n = ga).
    { unfold sid. rewrite capof_small by assumption. change (2 / 2) with 1. lia. }
    split.
    + rewrite sh_pre_small by assumption. rewrite Es. now left.
    + rewrite <- Es. apply (persisted_node size bs Hsize Hbs ga n rm); assumption.
  - assert (H3 : 3 <= n) by lia.
    destruct (fuel_children n f H3 Hf) as [F1 F2].
    pose proof (node_ok_left size bs ga n rm Hok H3) as Hokl.
    pose proof (node_ok_right size bs ga n rm Hok H3) as Hokr.
    destruct (capof_inner n H3) as (j & Ecap & Eh & K1 & K2 & C1 & C2). pose proof (pow2_pos (j + 1)) as Hpj.
    pose proof (nk_in _ _ _ _ _ Hok) as Hi.
    rewrite plan_nodes_cons_parent, plan_nodes_app in Hin.
    rewrite sh_pre_inner by assumption. cbn [map]. rewrite map_app.
    destruct Hin as [<-|Hin].
    + split; [now left|]. apply (persisted_node size bs Hsize Hbs ga n rm); (assumption || lia).
    + apply in_app_or in Hin. destruct Hin as [Hin|Hin].
      * destruct (IH ga (capof n / 2) false _ false nd Hokl ltac:(intros _; rewrite Eh; lia) F1 Hin) as [I1 I2].
        split; [right; apply in_or_app; now left|exact I2].
      * destruct (IH (ga + capof n / 2) (n - capof n / 2) rm _ false nd Hokr
                    ltac:(intro Erm; specialize (Hnr Erm); rewrite Eh; lia) F2 Hin) as [I1 I2].
        split; [right; apply in_or_app; now right|exact I2].
Qed.

Lemma rplan_unfold q : rplan size bs q = rplan_rec 65 size bs q 0 B true.
Proof. reflexivity. Qed.
Lemma sp_pre_nodes_unfold : sp_pre_nodes size bs = map (unshift bs) (sh_pre 65 0 B).
Proof. reflexivity. Qed.

(* the parents of the encoder's plan store a pair *)
Theorem enc_nodes_pnode (q : ranges) : wf_ranges q = true ->
  forall nd, In nd (enc_nodes size bs q) -> pnode size bs nd.
Proof.
  intros Hwf nd Hin. rewrite enc_nodes_def in Hin.
  rewrite <- (rplan_nodes size bs (truncate_ranges q size) Hsize Hbs (truncate_wf q size Hwf)) in Hin.
  rewrite rplan_unfold in Hin.
  assert (Hnr : true = false -> 0 + B < B) by discriminate.
  destruct (rplan_rec_pnodes 65 0 B true _ true nd (node_ok_root size bs) Hnr
              (root_fuel size bs Hsize) Hin) as [I1 I2].
  rewrite pnodes_eq. apply filter_In. split; [|exact I2].
  rewrite sp_pre_nodes_unfold. exact I1.
Qed.

End EncNodes.

Section Round.
Variable HO : hops.
Hypothesis HOK : hash_ok HO.
Variable data : bytes HO.
Variable bs : N.
Hypothesis Hsize : blen HO data <= 2 ^ 63.
Hypothesis Hbs : bs <= 10.
Notation size := (blen HO data).
Variable ob : outboard HO.
Hypothesis K : ob_k ob = PreIO \/ ob_k ob = PostIO \/ ob_k ob = PreMem \/ ob_k ob = PostMem.
Hypothesis T : ob_tree ob = mkTree size bs.
Hypothesis R : ob_root ob = root_hash HO data.
Hypothesis D : ob_data ob = spec_outboard HO (match ob_k ob with PostIO | PostMem => true | _ => false end) data bs.

Lemma created_pnode_loads nd : pnode size bs nd ->
  load_sync HO ob nd = Ok (Some (true_pair HO data nd)) /\ load_fsm HO ob nd = Ok (Some (true_pair HO data nd)).
Proof. exact (created_loads_pnode HO (ho_len HO HOK) data bs Hsize Hbs ob K T D nd). Qed.

Variable q : ranges.
Hypothesis Hwf : wf_ranges q = true.

Lemma created_stored_ok nd : In nd (enc_nodes size bs q) -> stored_ok HO data ob nd /\ stored_ok_fsm HO data ob nd.
Proof.
  intro Hin. unfold stored_ok, stored_ok_fsm.
  apply created_pnode_loads. exact (enc_nodes_pnode size bs Hsize Hbs q Hwf nd Hin).
Qed.

Lemma created_enc_sync : encode_ranges_validated HO data ob q = (Ok tt, flat HO (honest HO data bs q)).
Proof.
  apply (c02_sync HO data bs q Hwf Hsize Hbs ob T R (ho_beq HO HOK)).
  intros nd Hin. exact (proj1 (created_stored_ok nd Hin)).
Qed.

Lemma created_enc_fsm : encode_ranges_validated_fsm HO data ob q = (Ok tt, flat HO (honest HO data bs q)).
Proof.
  apply (c02_fsm HO data bs q Hwf Hsize Hbs ob T R (ho_beq HO HOK)).
  intros nd Hin. exact (proj2 (created_stored_ok nd Hin)).
Qed.

Lemma honest_nil_flat : q = [] -> flat HO (honest HO data bs q) = [].
Proof. intros ->. rewrite (proj1 (e2e_empty_query HO data [] bs (root_hash HO data) (mkTree size bs))). reflexivity. Qed.

Theorem roundtrip_full_sync :
  exists enc, encode_ranges_validated HO data ob q = (Ok tt, enc) /\ enc = flat HO (honest HO data bs q) /\
    (q = [] -> enc = []) /\
    (q <> [] -> forall rest : bytes HO, exists st,
       dec_run HO (dec_new HO (ob_root ob) (ob_tree ob) (enc ++ rest) q) = (honest HO data bs q, Finished, st) /\
       d_enc HO st = rest).
Proof.
  exists (flat HO (honest HO data bs q)). split; [exact created_enc_sync|]. split; [reflexivity|].
  split; [exact honest_nil_flat|].
  intros Hne rest. rewrite T, R. exact (e2e_roundtrip_sync HO HOK data bs q Hsize Hbs Hwf Hne rest).
Qed.

Theorem roundtrip_full_fsm :
  exists enc, encode_ranges_validated_fsm HO data ob q = (Ok tt, enc) /\ enc = flat HO (honest HO data bs q) /\
    (q = [] -> enc = []) /\
    (q <> [] -> forall rest : bytes HO, exists st,
       rd_run HO (rd_new HO (ob_root ob) q (ob_tree ob) (enc ++ rest)) = (honest HO data bs q, Finished, st) /\
       Fsm.r_enc HO st = rest /\ rd_finish HO st = rest).
Proof.
  exists (flat HO (honest HO data bs q)). split; [exact created_enc_fsm|]. split; [reflexivity|].
  split; [exact honest_nil_flat|].
  intros Hne rest. rewrite T, R. exact (e2e_roundtrip_fsm HO HOK data bs q Hsize Hbs Hwf Hne rest).
Qed.

(* encode on the created store, decode_ranges into any target and any sink store carrying the blob's root and tree *)
Theorem roundtrip_full_decode_ranges : q <> [] ->
  forall (rest target : bytes HO) (sink : outboard HO),
  ob_root sink = root_hash HO data -> ob_tree sink = mkTree size bs ->
  forall enc1 enc2,
  encode_ranges_validated HO data ob q = (Ok tt, enc1) ->
  encode_ranges_validated_fsm HO data ob q = (Ok tt, enc2) ->
  enc1 = enc2 /\
  let a := apply_items HO (honest HO data bs q) target sink in
  (exists st', decode_ranges HO (enc1 ++ rest) q target sink =
               (ranges_result (a_res HO a) Finished, a_target HO a, a_ob HO a, st')) /\
  (exists st', decode_ranges_fsm HO (enc1 ++ rest) q target sink =
               (ranges_result (a_res HO a) Finished, a_target HO a, a_ob HO a, st')).
Proof.
  intros Hne rest target sink Rs Ts enc1 enc2 E1 E2.
  rewrite created_enc_sync in E1. rewrite created_enc_fsm in E2.
  assert (H1 : enc1 = flat HO (honest HO data bs q)) by congruence.
  assert (H2 : enc2 = flat HO (honest HO data bs q)) by congruence.
  split; [congruence|]. rewrite H1.
  exact (e2e_decode_ranges_roundtrip HO HOK data bs q Hsize Hbs Hwf Hne rest target sink Rs Ts).
Qed.

(* C05: on a created store and the blob's own data every unit of the plan is intact *)
Theorem created_units_ok :
  Forall (unit_ok HO data bs (load_sync HO ob) data)
         (pre_order_chunks_iter (mkTree size bs) (truncate_ranges q size) 0) /\
  Forall (unit_ok HO data bs (load_fsm HO ob) data)
         (pre_order_chunks_iter (mkTree size bs) (truncate_ranges q size) 0).
Proof.
  rewrite (iter_plan HO data bs q Hsize Hbs).
  destruct q as [|x t0] eqn:Eq.
  - rewrite truncate_nil, rplan_nil. split; constructor.
  - rewrite <- Eq in *. assert (Hne : q <> []) by (rewrite Eq; discriminate).
    split; apply (intact_units HO data bs q Hwf Hsize Hbs _ Hne); intros nd Hnd;
      rewrite (nodes_eq HO data bs q Hwf Hsize Hbs) in Hnd;
      [exact (proj1 (created_stored_ok nd Hnd))|exact (proj2 (created_stored_ok nd Hnd))].
Qed.

End Round.

(* ---- closed forms used by Props/C02.v, Props/C05.v ---- *)
Theorem c02_roundtrip_full_sync : forall (HO : hops), hash_ok HO ->
  forall (data : bytes HO) (bs : N), blen HO data <= 2 ^ 63 -> bs <= 10 ->
  forall ob : outboard HO, created_store HO data bs ob ->
  forall q : ranges, wf_ranges q = true ->
  exists enc, encode_ranges_validated HO data ob q = (Ok tt, enc) /\ enc = flat HO (honest HO data bs q) /\
    (q = [] -> enc = []) /\
    (q <> [] -> forall rest : bytes HO, exists st,
       dec_run HO (dec_new HO (ob_root ob) (ob_tree ob) (enc ++ rest) q) = (honest HO data bs q, Finished, st) /\
       d_enc HO st = rest).
Proof.
  intros HO HOK data bs Hsize Hbs ob [K T R D] q Hwf.
  exact (roundtrip_full_sync HO HOK data bs Hsize Hbs ob K T R D q Hwf).
Qed.

Theorem c02_roundtrip_full_fsm : forall (HO : hops), hash_ok HO ->
  forall (data : bytes HO) (bs : N), blen HO data <= 2 ^ 63 -> bs <= 10 ->
  forall ob : outboard HO, created_store HO data bs ob ->
  forall q : ranges, wf_ranges q = true ->
  exists enc, encode_ranges_validated_fsm HO data ob q = (Ok tt, enc) /\ enc = flat HO (honest HO data bs q) /\
    (q = [] -> enc = []) /\
    (q <> [] -> forall rest : bytes HO, exists st,
       rd_run HO (rd_new HO (ob_root ob) q (ob_tree ob) (enc ++ rest)) = (honest HO data bs q, Finished, st) /\
       Fsm.r_enc HO st = rest /\ rd_finish HO st = rest).
Proof.
  intros HO HOK data bs Hsize Hbs ob [K T R D] q Hwf.
  exact (roundtrip_full_fsm HO HOK data bs Hsize Hbs ob K T R D q Hwf).
Qed.

Theorem c02_roundtrip_full_decode_ranges : forall (HO : hops), hash_ok HO ->
  forall (data : bytes HO) (bs : N), blen HO data <= 2 ^ 63 -> bs <= 10 ->
  forall ob : outboard HO, created_store HO data bs ob ->
  forall q : ranges, wf_ranges q = true -> q <> [] ->
  forall (rest target : bytes HO) (sink : outboard HO),
  ob_root sink = root_hash HO data -> ob_tree sink = mkTree (blen HO data) bs ->
  forall enc1 enc2,
  encode_ranges_validated HO data ob q = (Ok tt, enc1) ->
  encode_ranges_validated_fsm HO data ob q = (Ok tt, enc2) ->
  enc1 = enc2 /\
  let a := apply_items HO (honest HO data bs q) target sink in
  (exists st', decode_ranges HO (enc1 ++ rest) q target sink =
               (ranges_result (a_res HO a) Finished, a_target HO a, a_ob HO a, st')) /\
  (exists st', decode_ranges_fsm HO (enc1 ++ rest) q target sink =
               (ranges_result (a_res HO a) Finished, a_target HO a, a_ob HO a, st')).
Proof.
  intros HO HOK data bs Hsize Hbs ob [K T R D] q Hwf.
  exact (roundtrip_full_decode_ranges HO HOK data bs Hsize Hbs ob K T R D q Hwf).
Qed.

Theorem c05_created_store_ok : forall (HO : hops), hash_ok HO ->
  forall (data : bytes HO) (bs : N), blen HO data <= 2 ^ 63 -> bs <= 10 ->
  forall ob : outboard HO, created_store HO data bs ob ->
  forall q : ranges, wf_ranges q = true ->
  (Forall (unit_ok HO data bs (load_sync HO ob) data)
          (pre_order_chunks_iter (mkTree (blen HO data) bs) (truncate_ranges q (blen HO data)) 0) /\
   Forall (unit_ok HO data bs (load_fsm HO ob) data)
          (pre_order_chunks_iter (mkTree (blen HO data) bs) (truncate_ranges q (blen HO data)) 0)) /\
  (forall nd, In nd (enc_nodes (blen HO data) bs q) -> stored_ok HO data ob nd /\ stored_ok_fsm HO data ob nd) /\
  encode_ranges_validated HO data ob q = (Ok tt, flat HO (honest HO data bs q)) /\
  encode_ranges_validated_fsm HO data ob q = (Ok tt, flat HO (honest HO data bs q)).
Proof.
  intros HO HOK data bs Hsize Hbs ob [K T R D] q Hwf.
  split; [exact (created_units_ok HO HOK data bs Hsize Hbs ob K T D q Hwf)|].
  split; [exact (created_stored_ok HO HOK data bs Hsize Hbs ob K T D q Hwf)|].
  split; [exact (created_enc_sync HO HOK data bs Hsize Hbs ob K T R D q Hwf)|
          exact (created_enc_fsm HO HOK data bs Hsize Hbs ob K T R D q Hwf)].
Qed.

(* the parents of the encoder's plan are persisted nodes of the Shape *)
Theorem c04_enc_nodes_persisted : forall (size bs : N) (q : ranges), size <= 2 ^ 63 -> bs <= 10 ->
  wf_ranges q = true ->
  forall nd, In nd (enc_nodes size bs q) -> In nd (sp_pre_nodes size bs) /\ sp_persisted size bs nd = true.
Proof.
  intros size bs q Hsize Hbs Hwf nd Hin.
  pose proof (enc_nodes_pnode size bs Hsize Hbs q Hwf nd Hin) as H. rewrite pnodes_eq in H.
  apply filter_In in H. exact H.
Qed.
