(* Part 2(d): decode_ranges (sync and fsm) write exactly the yielded leaves and save exactly the
   yielded parents, in order, stopping at the first failing save. *)
From BaoV Require Import Model.Fsm Proofs.DecLoop.
From Coq Require Import Lia Arith.

Section Ranges.
Variable HO : hops.
Notation bytes := (bytes HO).
Notation hash := (hash HO).
Notation outboard := (outboard HO).
Notation item := (item HO).

(* how the saves went *)
Inductive save_res := SOk | SErr (k : io_kind) | SPanic.

(* write the leaves, save the parents, in order; stop at the first save that does not return Ok *)
Fixpoint apply_items (ys : list item) (target : bytes) (ob : outboard) : save_res * bytes * outboard :=
  match ys with
  | [] => (SOk, target, ob)
  | IParent node l r :: ys' =>
      match save HO ob node l r with
      | Ok ob' => apply_items ys' target ob'
      | Err k => (SErr k, target, ob)
      | Panic => (SPanic, target, ob)
      end
  | ILeaf off d :: ys' => apply_items ys' (write_at HO target off d) ob
  end.

Definition ranges_result (sr : save_res) (o : outcome) : res dec_err unit :=
  match sr with
  | SOk => match o with Finished => Ok tt | Failed e => Err e | Panicked | OutOfFuel => Panic end
  | SErr k => Err (DIo k)
  | SPanic => Panic
  end.

Lemma ranges_result_ok : forall sr o, ranges_result sr o = Ok tt <-> sr = SOk /\ o = Finished.
Proof.
  intros sr o. split.
  - destruct sr, o; cbn; intros H; try discriminate; auto.
  - intros [-> ->]. reflexivity.
Qed.

Lemma ranges_result_cases : forall sr o,
  (ranges_result sr o = Ok tt <-> sr = SOk /\ o = Finished) /\
  (forall e, ranges_result SOk (Failed e) = Err e) /\
  (forall k, ranges_result (SErr k) o = Err (DIo k)).
Proof. intros. split; [apply ranges_result_ok|split; reflexivity]. Qed.

Lemma apply_items_fold : forall (target : bytes) (ob : outboard),
  apply_items [] target ob = (SOk, target, ob) /\
  (forall off d ys, apply_items (ILeaf off d :: ys) target ob
                    = apply_items ys (write_at HO target off d) ob) /\
  (forall node l r ys, apply_items (IParent node l r :: ys) target ob =
     match save HO ob node l r with
     | Ok ob' => apply_items ys target ob'
     | Err k => (SErr k, target, ob)
     | Panic => (SPanic, target, ob)
     end).
Proof. intros. repeat split. Qed.

Definition a_res (a : save_res * bytes * outboard) := fst (fst a).
Definition a_target (a : save_res * bytes * outboard) := snd (fst a).
Definition a_ob (a : save_res * bytes * outboard) := snd a.

Lemma r_items_cons : forall i r, r_items HO (cons_item HO i r) = i :: r_items HO r.
Proof. reflexivity. Qed.
Lemma r_outcome_cons : forall i r, r_outcome HO (cons_item HO i r) = r_outcome HO r.
Proof. reflexivity. Qed.
Lemma r_stack_cons : forall i r, r_stack HO (cons_item HO i r) = r_stack HO r.
Proof. reflexivity. Qed.
Lemma r_enc_cons : forall i r, r_enc HO (cons_item HO i r) = r_enc HO r.
Proof. reflexivity. Qed.

(* ---- sync ---- *)
Lemma decode_runN : forall n it stk enc target ob m,
  ends_within response_next it n -> (n < m)%nat ->
  let r := dec_items_sync HO (unroll response_next n it) stk enc in
  let a := apply_items (r_items HO r) target ob in
  exists st', runN (decode_step HO) m (mkD HO it stk enc, target, ob) =
              inr (ranges_result (a_res a) (r_outcome HO r), a_target a, a_ob a, st') /\
    (a_res a = SOk ->
     st' = mkD HO (iter_skip response_next (consumed HO r) it) (r_stack HO r) (r_enc HO r)).
Proof.
  induction n; intros it stk enc target ob m He Hm; (destruct m; [lia|]);
    cbn [runN]; unfold decode_step at 1; rewrite dec_next_step; cbn [d_inner d_stack d_enc];
    cbn in He; cbn [unroll].
  - destruct (response_next it) as [[c it']|] eqn:E; [contradiction|].
    eexists. split; reflexivity.
  - destruct (response_next it) as [[c it']|] eqn:E; [|eexists; split; reflexivity].
    unfold dec_items_sync. cbn [dec_items].
    destruct (step_sync HO c stk enc) as [[[i|e|] stk'] enc'].
    + set (r := dec_items HO (step_sync HO) (unroll response_next n it') stk' enc').
      assert (Hsk : iter_skip response_next (consumed HO (cons_item HO i r)) it
                    = iter_skip response_next (consumed HO r) it').
      { unfold consumed, cons_item, r_outcome, r_items. cbn [fst snd length].
        destruct (snd (fst (fst r))); cbn [iter_skip]; rewrite E; reflexivity. }
      rewrite Hsk.
      rewrite !r_items_cons, !r_outcome_cons, !r_stack_cons, !r_enc_cons.
      destruct i as [node l rr|off d]; cbn [apply_items].
      * destruct (save HO ob node l rr) as [ob1|k|] eqn:Es.
        -- destruct (IHn it' stk' enc' target ob1 m He ltac:(lia)) as [st' [H1 H2]].
           exists st'. split; [exact H1|exact H2].
        -- eexists. split; [reflexivity|]. cbn. discriminate.
        -- eexists. split; [reflexivity|]. cbn. discriminate.
      * destruct (IHn it' stk' enc' (write_at HO target off d) ob m He ltac:(lia)) as [st' [H1 H2]].
        exists st'. split; [exact H1|exact H2].
    + eexists. split; [reflexivity|]. cbn. rewrite E. reflexivity.
    + eexists. split; [reflexivity|]. cbn. rewrite E. reflexivity.
Qed.

Theorem decode_ranges_items : forall n encoded q target ob,
  let it := response_new (ob_tree ob) (truncate_ranges q (tsize (ob_tree ob))) in
  ends_within response_next it n -> (n < 2 ^ LOOP_DEPTH)%nat ->
  let r := dec_items_sync HO (run_iter response_next it) [ob_root ob] encoded in
  let a := apply_items (r_items HO r) target ob in
  exists st', decode_ranges HO encoded q target ob =
              (ranges_result (a_res a) (r_outcome HO r), a_target a, a_ob a, st').
Proof.
  intros n encoded q target ob it He Hn. rewrite (run_iter_unroll _ n) by assumption.
  unfold decode_ranges. rewrite loop2_runN. unfold dec_new. fold it.
  destruct (decode_runN n it [ob_root ob] encoded target ob _ He Hn) as [st' [H1 _]].
  exists st'. rewrite H1. reflexivity.
Qed.

(* in terms of what dec_run yields *)
Theorem decode_ranges_sound : forall n encoded q target ob ys o stf,
  ends_within response_next (response_new (ob_tree ob) (truncate_ranges q (tsize (ob_tree ob)))) n ->
  (N.of_nat n < 2 ^ 64)%N ->
  dec_run HO (dec_new HO (ob_root ob) (ob_tree ob) encoded q) = (ys, o, stf) ->
  let a := apply_items ys target ob in
  exists st', decode_ranges HO encoded q target ob =
              (ranges_result (a_res a) o, a_target a, a_ob a, st').
Proof.
  intros n encoded q target ob ys o stf He Hn Hrun. apply loop_bound_of_N in Hn.
  unfold dec_new in Hrun. rewrite (dec_run_unroll HO n) in Hrun by assumption.
  injection Hrun as <- <- _.
  apply (decode_ranges_items n); assumption.
Qed.

(* ---- fsm ---- *)
Lemma decode_fsm_runN : forall n it stk enc root target ob m,
  ends_within response_next it n -> (n < m)%nat ->
  let r := dec_items_fsm HO (unroll response_next n it) stk enc in
  let a := apply_items (r_items HO r) target ob in
  exists st', runN (decode_step_fsm HO) m (mkR HO it stk enc root, target, ob) =
              inr (ranges_result (a_res a) (r_outcome HO r), a_target a, a_ob a, st') /\
    (a_res a = SOk ->
     st' = mkR HO (iter_skip response_next (consumed HO r) it) (r_stack HO r) (r_enc HO r) root).
Proof.
  induction n; intros it stk enc root target ob m He Hm; (destruct m; [lia|]);
    cbn [runN]; unfold decode_step_fsm at 1; rewrite rd_next_step;
    cbn [Fsm.r_iter Fsm.r_stack Fsm.r_enc r_root];
    cbn in He; cbn [unroll].
  - destruct (response_next it) as [[c it']|] eqn:E; [contradiction|].
    eexists. split; reflexivity.
  - destruct (response_next it) as [[c it']|] eqn:E; [|eexists; split; reflexivity].
    unfold dec_items_fsm. cbn [dec_items].
    destruct (step_fsm HO c stk enc) as [[[i|e|] stk'] enc'].
    + set (r := dec_items HO (step_fsm HO) (unroll response_next n it') stk' enc').
      assert (Hsk : iter_skip response_next (consumed HO (cons_item HO i r)) it
                    = iter_skip response_next (consumed HO r) it').
      { unfold consumed, cons_item, r_outcome, r_items. cbn [fst snd length].
        destruct (snd (fst (fst r))); cbn [iter_skip]; rewrite E; reflexivity. }
      rewrite Hsk.
      rewrite !r_items_cons, !r_outcome_cons, !r_stack_cons, !r_enc_cons.
      destruct i as [node l rr|off d]; cbn [apply_items].
      * destruct (save HO ob node l rr) as [ob1|k|] eqn:Es.
        -- destruct (IHn it' stk' enc' root target ob1 m He ltac:(lia)) as [st' [H1 H2]].
           exists st'. split; [exact H1|exact H2].
        -- eexists. split; [reflexivity|]. cbn. discriminate.
        -- eexists. split; [reflexivity|]. cbn. discriminate.
      * destruct (IHn it' stk' enc' root (write_at HO target off d) ob m He ltac:(lia)) as [st' [H1 H2]].
        exists st'. split; [exact H1|exact H2].
    + eexists. split; [reflexivity|]. cbn. rewrite E. reflexivity.
    + eexists. split; [reflexivity|]. cbn. rewrite E. reflexivity.
Qed.

Theorem decode_ranges_fsm_items : forall n encoded q target ob,
  let it := response_new (ob_tree ob) (truncate_ranges_owned q (tsize (ob_tree ob))) in
  ends_within response_next it n -> (n < 2 ^ LOOP_DEPTH)%nat ->
  let r := dec_items_fsm HO (run_iter response_next it) [ob_root ob] encoded in
  let a := apply_items (r_items HO r) target ob in
  exists st', decode_ranges_fsm HO encoded q target ob =
              (ranges_result (a_res a) (r_outcome HO r), a_target a, a_ob a, st').
Proof.
  intros n encoded q target ob it He Hn. rewrite (run_iter_unroll _ n) by assumption.
  unfold decode_ranges_fsm. rewrite loop2_runN. unfold rd_new. fold it.
  destruct (decode_fsm_runN n it [ob_root ob] encoded (ob_root ob) target ob _ He Hn) as [st' [H1 _]].
  exists st'. rewrite H1. reflexivity.
Qed.

Theorem decode_ranges_fsm_sound : forall n encoded q target ob ys o stf,
  ends_within response_next (response_new (ob_tree ob) (truncate_ranges_owned q (tsize (ob_tree ob)))) n ->
  (N.of_nat n < 2 ^ 64)%N ->
  rd_run HO (rd_new HO (ob_root ob) q (ob_tree ob) encoded) = (ys, o, stf) ->
  let a := apply_items ys target ob in
  exists st', decode_ranges_fsm HO encoded q target ob =
              (ranges_result (a_res a) o, a_target a, a_ob a, st').
Proof.
  intros n encoded q target ob ys o stf He Hn Hrun. apply loop_bound_of_N in Hn.
  unfold rd_new in Hrun. rewrite (rd_run_unroll HO n) in Hrun by assumption.
  injection Hrun as <- <- _.
  apply (decode_ranges_fsm_items n); assumption.
Qed.

End Ranges.
