(* The decoder's plan (block-size-0 tree, min_level = bs, truncated query) is the plan projection of
   the spec tree. *)
From BaoV Require Import Spec.RangeSpec Spec.PlanSpec Spec.EncSpec Spec.PTree Spec.SpecTree Spec.HashAssm.
From BaoV Require Import Proofs.RangeBase Proofs.RangeRound Proofs.RangeTrunc Proofs.RangeProofs.
From BaoV Require Import Proofs.BridgeBase Proofs.BridgeTree Proofs.BridgeGeom.
From Coq Require Import Lia Arith PeanoNat ZArith ZifyN ZifyNat ZifyBool.
Ltac Zify.zify_post_hook ::= Z.div_mod_to_equations.

Lemma unshift0 s : unshift 0 s = s.
Proof. unfold unshift. change (2 ^ 0) with 1. lia. Qed.

Definition capof (n : N) : N := if n <=? 2 then 2 else next_pow2 n.

Lemma pre_plan_rec_unfold0 f size ml q ga n ir rm :
  pre_plan_rec (S f) size 0 ml q ga n ir rm =
    let cap := capof n in
    let e := ga + cap in
    if negb (q_any q ga e rm) then []
    else if q_full q ga e rm && (N.log2 cap - 1 <? ml) then [CLeaf ga (span_bytes size ga e) ir []]
    else if cap =? 2 then
      if size <=? (ga + 1) * 1024 then [CLeaf ga (span_bytes size ga e) ir []]
      else [CParent ga ir (q_any q ga (ga + 1) false) (q_any q (ga + 1) e rm) []]
           ++ (if q_any q ga (ga + 1) false then [CLeaf ga (span_bytes size ga (ga + 1)) false []] else [])
           ++ (if q_any q (ga + 1) e rm then [CLeaf (ga + 1) (span_bytes size (ga + 1) e) false []] else [])
    else
      let half := cap / 2 in
      [CParent (ga + half - 1) ir (q_any q ga (ga + half) false) (q_any q (ga + half) e rm) []]
      ++ pre_plan_rec f size 0 ml q ga half false false
      ++ pre_plan_rec f size 0 ml q (ga + half) (n - half) false rm.
Proof.
  cbn [pre_plan_rec]. cbv zeta. fold (capof n). change (2 ^ 0) with 1. rewrite !N.mul_1_r, !unshift0.
  reflexivity.
Qed.

Lemma capof_ge2 n : 2 <= capof n.
Proof.
  unfold capof. destruct (n <=? 2) eqn:E; [lia|]. apply N.leb_gt in E.
  destruct (np2_spec n ltac:(lia)) as (k & -> & H1 & _). lia.
Qed.
Lemma capof_np2 n : 2 <= n -> capof n = next_pow2 n.
Proof.
  intro H. unfold capof. destruct (n <=? 2) eqn:E; [|reflexivity]. apply N.leb_le in E.
  assert (n = 2) by lia. subst n. reflexivity.
Qed.
Lemma capof_pow2 k : 1 <= k -> capof (2 ^ k) = 2 ^ k.
Proof.
  intro H. rewrite capof_np2, np2_pow2; [reflexivity|].
  change 2 with (2 ^ 1) at 1. apply pow2_le_mono. exact H.
Qed.
Lemma capof_le n k : 1 <= k -> n <= 2 ^ k -> capof n <= 2 ^ k.
Proof.
  intros Hk H. unfold capof. destruct (n <=? 2); [|now apply np2_le].
  change 2 with (2 ^ 1) at 1. apply pow2_le_mono. exact Hk.
Qed.

Lemma log2_cap n bs : 2 <= n -> (N.log2 (next_pow2 n) - 1 <? bs) = (next_pow2 n <=? 2 ^ bs).
Proof.
  intro H. destruct (np2_half n H) as (k & E & _). rewrite E, N.log2_pow2 by lia.
  replace (k + 1 - 1) with k by lia.
  destruct (k <? bs) eqn:E1.
  - apply N.ltb_lt in E1. symmetry. apply N.leb_le. apply pow2_le_mono. lia.
  - apply N.ltb_ge in E1. symmetry. apply N.leb_gt. apply N.pow_lt_mono_r; lia.
Qed.

Section Plan.
Variable HO : hops.
Variable data : bytes HO.
Variable bs : N.
Variable q : ranges.
Hypothesis Hwf : wf_ranges q = true.
Local Notation size := (blen HO data).
Local Notation nn := (nchunks (blen HO data)).
Local Notation q' := (truncate_ranges q (blen HO data)).
Local Notation Sel := (sel q (blen HO data)).

Lemma any_bridge a e rm b : a < nn ->
  (rm = true -> b = nn) -> (rm = false -> b = e /\ a < e /\ e < nn) ->
  q_any q' a e rm = existsb Sel (chunk_range_list a b).
Proof.
  intros Ha H1 H2. pose proof (truncate_wf q size Hwf) as Hwf'. destruct rm.
  - rewrite (H1 eq_refl). rewrite (any_rm q' size a e Hwf' Ha).
    apply existsb_ext'. intros c _. now apply truncate_sel.
  - destruct (H2 eq_refl) as (-> & Hae & He). rewrite (any_inner q' size a e Hwf' Hae He).
    apply existsb_ext'. intros c _. now apply truncate_sel.
Qed.

Lemma full_bridge a e rm b :
  (rm = true -> b = nn /\ a + 1 < nn) -> (rm = false -> b = e /\ a < e /\ e < nn) ->
  q_full q' a e rm = forallb Sel (chunk_range_list a b).
Proof.
  intros H1 H2. pose proof (truncate_wf q size Hwf) as Hwf'. destruct rm.
  - destruct (H1 eq_refl) as (-> & Ha). rewrite (full_rm q size a e Hwf Ha).
    apply forallb_ext'. intros c _. now apply truncate_sel.
  - destruct (H2 eq_refl) as (-> & Hae & He). rewrite (full_inner q' size a e Hwf' Hae He).
    apply forallb_ext'. intros c _. now apply truncate_sel.
Qed.

Lemma st_rec_single f (S0 : N -> bool) a r :
  st_rec HO (S f) data bs S0 a (a + 1) r =
  if S0 a then PLeaf a r (chunk_bytes HO data a (a + 1)) else PSkip.
Proof.
  cbn [st_rec]. cbv zeta. rewrite crl_single. cbn [existsb]. rewrite orb_false_r.
  destruct (S0 a); cbn [negb]; [|reflexivity].
  assert (E : (a + 1 - a <=? 1) = true) by (apply N.leb_le; lia). rewrite E. reflexivity.
Qed.

Lemma st_rec_unfold f (S0 : N -> bool) a b r :
  st_rec HO (S f) data bs S0 a b r =
    if negb (existsb S0 (chunk_range_list a b)) then PSkip
    else if b - a <=? 1 then PLeaf a r (chunk_bytes HO data a b)
    else
      if forallb S0 (chunk_range_list a b) && (next_pow2 (b - a) <=? 2 ^ bs) then PLeaf a r (chunk_bytes HO data a b)
      else PNode (a + next_pow2 (b - a) / 2 - 1) r (cv HO data a (a + next_pow2 (b - a) / 2) false) (cv HO data (a + next_pow2 (b - a) / 2) b false)
                 (st_rec HO f data bs S0 a (a + next_pow2 (b - a) / 2) false) (st_rec HO f data bs S0 (a + next_pow2 (b - a) / 2) b false).
Proof. reflexivity. Qed.

Lemma plan_rec_bridge : forall fp fs a n ir rm,
  1 <= n -> capof n <= 2 ^ N.of_nat fp -> n <= 2 ^ N.of_nat fs ->
  (rm = true -> a + n = nn) -> (rm = false -> n = capof n /\ a + n < nn) ->
  plan_of HO (st_rec HO (S fs) data bs Sel a (a + n) ir) = pre_plan_rec fp size 0 bs q' a n ir rm.
Proof.
  induction fp as [|fp IH]; intros fs a n ir rm Hn Hfp Hfs Hrm Hnrm.
  { exfalso. pose proof (capof_ge2 n). change (2 ^ N.of_nat 0) with 1 in Hfp. lia. }
  pose proof (nchunks_bounds size) as (B1 & B2 & B3).
  pose proof (capof_ge2 n) as Hc2.
  assert (Han : a + n <= nn) by (destruct rm; [rewrite (Hrm eq_refl) | destruct (Hnrm eq_refl)]; lia).
  assert (Ha : a < nn) by lia.
  rewrite pre_plan_rec_unfold0. cbv zeta.
  rewrite (any_bridge a (a + capof n) rm (a + n));
    [ | assumption | assumption | intro E; destruct (Hnrm E) as [E1 E2]; rewrite <- E1; repeat split; lia ].
  rewrite st_rec_unfold. replace (a + n - a) with n by lia.
  destruct (existsb Sel (chunk_range_list a (a + n))) eqn:Eex; cbn [negb]; [|reflexivity].
  destruct (n <=? 1) eqn:E1.
  - (* a single chunk: the last one *)
    apply N.leb_le in E1. assert (n = 1) by lia. subst n.
    assert (rm = true).
    { destruct rm; [reflexivity|]. destruct (Hnrm eq_refl) as [E _]. discriminate E. }
    subst rm. specialize (Hrm eq_refl).
    change (capof 1) with 2. change (2 =? 2) with true. cbv iota.
    assert (E2 : (size <=? (a + 1) * 1024) = true) by (apply N.leb_le; lia). rewrite E2.
    cbn [plan_of]. rewrite (span_chunk_bytes HO data a (a + 1) (a + 2)) by lia.
    destruct (q_full q' a (a + 2) true && (N.log2 2 - 1 <? bs)); reflexivity.
  - apply N.leb_gt in E1. rewrite (capof_np2 n) in * by lia.
    rewrite log2_cap by lia.
    destruct (np2_half n ltac:(lia)) as (k & Ek & Eh & K1 & K2).
    rewrite (full_bridge a (a + next_pow2 n) rm (a + n));
      [ | intro E; specialize (Hrm E); lia | intro E; destruct (Hnrm E) as [E3 E4]; rewrite <- E3; repeat split; lia ].
    assert (Hspan : span_bytes size a (a + next_pow2 n) = blen HO (chunk_bytes HO data a (a + n))).
    { apply span_chunk_bytes; try lia. destruct rm.
      - right. specialize (Hrm eq_refl). lia.
      - left. destruct (Hnrm eq_refl) as [E3 _]. lia. }
    destruct (forallb Sel (chunk_range_list a (a + n)) && (next_pow2 n <=? 2 ^ bs)) eqn:Efull.
    + cbn [plan_of]. rewrite Hspan. reflexivity.
    + destruct (pow2_ge2_fuel n fs ltac:(lia) Hfs) as [fs' ->]. rewrite of_nat_S in Hfs, Hfp.
      pose proof (half_bounds n (N.of_nat fs') ltac:(lia) Hfs) as (A1 & A2 & A3 & A4 & A5). cbv zeta in A1, A2, A3, A4, A5.
      set (h := next_pow2 n / 2) in *.
      cbn [plan_of]. rewrite !st_is_skip, !negb_involutive.
      rewrite <- (any_bridge a (a + h) false (a + h)); [ | lia | discriminate | intros _; repeat split; lia ].
      rewrite <- (any_bridge (a + h) (a + next_pow2 n) rm (a + n));
        [ | lia | assumption | intro E; destruct (Hnrm E) as [E3 E4]; rewrite <- E3; repeat split; lia ].
      destruct (next_pow2 n =? 2) eqn:Ec2.
      * (* a pair of chunks: the shifted leaf *)
        apply N.eqb_eq in Ec2. assert (n = 2) by lia. subst n.
        assert (Eh1 : h = 1) by (subst h; rewrite Ec2; reflexivity). rewrite !Eh1.
        rewrite Ec2 in *.
        assert (E2 : (size <=? (a + 1) * 1024) = false) by (apply N.leb_gt; lia). rewrite E2.
        replace (a + 2) with (a + 1 + 1) by lia. rewrite !st_rec_single.
        replace (a + 1 - 1) with a by lia.
        rewrite (any_bridge a (a + 1) false (a + 1)); [ | lia | discriminate | intros _; repeat split; lia ].
        rewrite (any_bridge (a + 1) (a + 1 + 1) rm (a + 1 + 1));
          [ | lia | intro E; specialize (Hrm E); lia | intro E; destruct (Hnrm E) as [E3 E4]; repeat split; lia ].
        rewrite !crl_single. cbn [existsb]. rewrite !orb_false_r.
        rewrite (span_chunk_bytes HO data a (a + 1) (a + 1)) by lia.
        rewrite (span_chunk_bytes HO data (a + 1) (a + 1 + 1) (a + 1 + 1)) by lia.
        destruct (Sel a), (Sel (a + 1)); reflexivity.
      * apply N.eqb_neq in Ec2.
        assert (Hk : 1 <= k).
        { destruct (N.eq_dec k 0) as [->|]; [|lia]. exfalso. apply Ec2. rewrite Ek. reflexivity. }
        assert (Ehk : h = 2 ^ k) by (subst h; exact Eh).
        assert (E2k : next_pow2 n = 2 * h) by (rewrite Ek, Ehk; apply pow2_succ).
        assert (Hhfp : h <= 2 ^ N.of_nat fp).
        { rewrite E2k, pow2_succ in Hfp. lia. }
        assert (Hfp1 : 1 <= N.of_nat fp).
        { destruct fp as [|fp0]; [|lia]. change (2 ^ N.of_nat 0) with 1 in Hhfp. pose proof (pow2_le_mono 1 k Hk) as P1.
          change (2 ^ 1) with 2 in P1. lia. }
        pose proof (pow2_le_mono 1 k Hk) as P1. change (2 ^ 1) with 2 in P1.
        assert (Ecl : capof h = h) by (rewrite Ehk; apply capof_pow2; lia).
        assert (Cl : capof h <= 2 ^ N.of_nat fp) by (rewrite Ecl; exact Hhfp).
        assert (Pl : false = false -> h = capof h /\ a + h < nn) by (intros _; rewrite Ecl; split; [reflexivity | lia]).
        assert (Ql : false = true -> a + h = nn) by discriminate.
        rewrite (IH fs' a h false false A1 Cl A4 Ql Pl).
        assert (Cr : capof (n - h) <= 2 ^ N.of_nat fp).
        { apply N.le_trans with (2 ^ k); [apply capof_le; lia | lia]. }
        assert (Qr : rm = true -> a + h + (n - h) = nn) by (intro E; specialize (Hrm E); lia).
        assert (Pr : rm = false -> n - h = capof (n - h) /\ a + h + (n - h) < nn).
        { intro E. destruct (Hnrm E) as [E3 E4]. replace (n - h) with h by lia. rewrite Ecl. split; [reflexivity | lia]. }
        replace (a + n) with (a + h + (n - h)) by lia.
        rewrite (IH fs' (a + h) (n - h) false rm ltac:(lia) Cr A5 Qr Pr).
        replace (a + h + (n - h)) with (a + n) by lia. reflexivity.
Qed.

Lemma bridge_plan :
  size <= 2 ^ 63 ->
  plan_of HO (spec_tree HO data bs q) = pre_plan size 0 bs q'.
Proof.
  intro Hs. rewrite spec_tree_unfold. unfold pre_plan. rewrite sp_blocks_0.
  pose proof (nchunks_small _ Hs) as Hn. pose proof (nchunks_bounds size) as (B1 & _).
  assert (P1 : 2 ^ 53 <= 2 ^ 63) by (apply pow2_le_mono; lia).
  assert (P2 : 2 ^ 53 <= 2 ^ 65) by (apply pow2_le_mono; lia).
  change 64%nat with (S 63).
  rewrite <- (plan_rec_bridge 65 63 0 nn true true).
  - reflexivity.
  - exact B1.
  - change (N.of_nat 65) with 65. apply N.le_trans with (2 ^ 53); [apply capof_le; lia | exact P2].
  - change (N.of_nat 63) with 63. lia.
  - reflexivity.
  - discriminate.
Qed.
End Plan.

(* the two bridging equalities in the form of the statement *)
Lemma bridge_q_any q size a e rightmost :
  wf_ranges q = true ->
  a < nchunks size -> (rightmost = false -> a < e /\ e < nchunks size) ->
  q_any (truncate_ranges q size) a e rightmost =
  existsb (sel q size) (chunk_range_list a (if rightmost then nchunks size else e)).
Proof.
  intros Hwf Ha H. pose proof (truncate_wf q size Hwf) as Hwf'. destruct rightmost.
  - rewrite (any_rm _ size a e Hwf' Ha). apply existsb_ext'. intros c _. now apply truncate_sel.
  - destruct (H eq_refl) as [H1 H2]. rewrite (any_inner _ size a e Hwf' H1 H2).
    apply existsb_ext'. intros c _. now apply truncate_sel.
Qed.

Lemma bridge_q_full q size a e rightmost :
  wf_ranges q = true ->
  (rightmost = true -> a + 1 < nchunks size) -> (rightmost = false -> a < e /\ e < nchunks size) ->
  q_full (truncate_ranges q size) a e rightmost =
  forallb (sel q size) (chunk_range_list a (if rightmost then nchunks size else e)).
Proof.
  intros Hwf Ha H. pose proof (truncate_wf q size Hwf) as Hwf'. destruct rightmost.
  - rewrite (full_rm q size a e Hwf (Ha eq_refl)). apply forallb_ext'. intros c _. now apply truncate_sel.
  - destruct (H eq_refl) as [H1 H2]. rewrite (full_inner _ size a e Hwf' H1 H2).
    apply forallb_ext'. intros c _. now apply truncate_sel.
Qed.

(* on the last chunk itself (a right-spine node of one chunk) q_full can differ from the selection:
   the plan does not depend on it there (such a node is a leaf either way) *)
Lemma bridge_q_full_last_refuted :
  exists q size a e, wf_ranges q = true /\ a + 1 = nchunks size /\
    q_full (truncate_ranges q size) a e true <> forallb (sel q size) (chunk_range_list a (nchunks size)).
Proof. exists [2], 2048, 1, 2. split; [reflexivity|]. split; [reflexivity|]. vm_compute. discriminate. Qed.

(* a non-rightmost node never ends at the end of the blob; there the equality for q_any would fail *)
Lemma bridge_q_any_inner_end_refuted :
  exists q size a e, wf_ranges q = true /\ a < e /\ e = nchunks size /\
    q_any (truncate_ranges q size) a e false <> existsb (sel q size) (chunk_range_list a e).
Proof. exists [2], 2048, 0, 2. split; [reflexivity|]. split; [reflexivity|]. split; [reflexivity|]. vm_compute. discriminate. Qed.

Section Exists.
Variable HO : hops.
Hypothesis Hlen : cv_len32 HO.
Lemma bridge_exists (data : bytes HO) bs q :
  wf_ranges q = true -> q <> [] -> blen HO data <= 2 ^ 63 ->
  exists T, consistent HO T /\
    plan_of HO T = pre_plan (blen HO data) 0 bs (truncate_ranges q (blen HO data)) /\
    items_of HO T = honest HO data bs q /\
    cv_of HO T = root_hash HO data.
Proof.
  intros Hwf Hne Hs. exists (spec_tree HO data bs q). split; [|split; [|split]].
  - now apply bridge_consistent.
  - now apply bridge_plan.
  - now apply bridge_items.
  - now apply bridge_cv.
Qed.
End Exists.

(* ---- 6. the honest encoding is a function of the selection ---- *)
Section Ext.
Variable HO : hops.
Lemma enc_rec_ext (data : bytes HO) bs (S1 S2 : N -> bool) : (forall c, S1 c = S2 c) ->
  forall f a b, enc_rec HO f data bs S1 a b = enc_rec HO f data bs S2 a b.
Proof.
  intros H. induction f as [|f IH]; intros a b; [reflexivity|].
  cbn [enc_rec]. cbv zeta.
  rewrite (existsb_ext' S1 S2) by (intros; apply H). rewrite (forallb_ext' S1 S2) by (intros; apply H).
  rewrite !IH. reflexivity.
Qed.
Lemma st_rec_ext (data : bytes HO) bs (S1 S2 : N -> bool) : (forall c, S1 c = S2 c) ->
  forall f a b r, st_rec HO f data bs S1 a b r = st_rec HO f data bs S2 a b r.
Proof.
  intros H. induction f as [|f IH]; intros a b r; [reflexivity|].
  cbn [st_rec]. cbv zeta.
  rewrite (existsb_ext' S1 S2) by (intros; apply H). rewrite (forallb_ext' S1 S2) by (intros; apply H).
  rewrite !IH. reflexivity.
Qed.
Lemma bridge_function_of_selection (data : bytes HO) bs q1 q2 :
  (forall c, sel q1 (blen HO data) c = sel q2 (blen HO data) c) ->
  honest HO data bs q1 = honest HO data bs q2.
Proof. intro H. unfold honest, enc_spec. now apply enc_rec_ext. Qed.
Lemma bridge_tree_function_of_selection (data : bytes HO) bs q1 q2 :
  (forall c, sel q1 (blen HO data) c = sel q2 (blen HO data) c) ->
  spec_tree HO data bs q1 = spec_tree HO data bs q2.
Proof. intro H. unfold spec_tree. now apply st_rec_ext. Qed.
(* in particular the truncated query has the same honest encoding and spec tree *)
Lemma bridge_truncate_honest (data : bytes HO) bs q : wf_ranges q = true ->
  honest HO data bs (truncate_ranges q (blen HO data)) = honest HO data bs q.
Proof. intro Hwf. apply bridge_function_of_selection. intro c. now apply truncate_sel. Qed.
End Ext.
