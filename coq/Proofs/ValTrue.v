(* C06, part 3: chains of stored pairs against the blob's hash tree.  A chain that verifies from the
   blob's root hash consists of true pairs and ends in the chaining value of the group (soundness,
   by injectivity); true pairs on the path verify (completeness). *)
From BaoV Require Import Model.Sync Model.Fsm Spec.PlanSpec Spec.PlanWf Spec.EncSpec Spec.HashAssm.
From BaoV Require Import Proofs.NodeLevel Proofs.NodeBits Proofs.NodeAlgebra
  Proofs.ObBase Proofs.ObLoop Proofs.ObSize Proofs.DecHash Proofs.RangeBase Proofs.BridgeBase
  Proofs.PlanBase Proofs.PlanNav Proofs.ValSpec Proofs.ValPath.
From Coq Require Import ZArith Lia.
Open Scope N_scope.
Arguments N.add : simpl never.
Arguments N.sub : simpl never.
Arguments N.mul : simpl never.
Arguments N.pow : simpl never.
Arguments N.shiftl : simpl never.
Arguments N.shiftr : simpl never.
Arguments N.land : simpl never.
Arguments N.div : simpl never.
Arguments N.modulo : simpl never.
Arguments N.log2 : simpl never.
Arguments N.min : simpl never.
Arguments N.max : simpl never.
Ltac Zify.zify_post_hook ::= Z.to_euclidean_division_equations.

Section PairLen.
Variable HO : hops.

Lemma parse_pair_len (c : bytes HO) : blen HO c = 64 ->
  length (fst (parse_pair HO c)) = 32%nat /\ length (snd (parse_pair HO c)) = 32%nat.
Proof.
  unfold blen, parse_pair. intro H. cbn [fst snd]. rewrite firstn_length, skipn_length. lia.
Qed.

Lemma load_sync_len (ob : outboard HO) nd l r : load_sync HO ob nd = Ok (Some (l, r)) ->
  length l = 32%nat /\ length r = 32%nat.
Proof.
  unfold load_sync. destruct (ob_offset HO ob nd) as [o|]; [|discriminate].
  assert (Hz : length (zero_hash HO) = 32%nat) by (unfold zero_hash, zeros; apply repeat_length).
  destruct (ob_k ob).
  - destruct (blen HO (slice HO (o * 64) 64 (ob_data ob)) =? 64) eqn:E; [|discriminate].
    apply N.eqb_eq in E. intro H. pose proof (parse_pair_len _ E) as P.
    assert (Hp : parse_pair HO (slice HO (o * 64) 64 (ob_data ob)) = (l, r)) by congruence. rewrite Hp in P. exact P.
  - destruct (blen HO (slice HO (o * 64) 64 (ob_data ob)) =? 64) eqn:E; [|discriminate].
    apply N.eqb_eq in E. intro H. pose proof (parse_pair_len _ E) as P.
    assert (Hp : parse_pair HO (slice HO (o * 64) 64 (ob_data ob)) = (l, r)) by congruence. rewrite Hp in P. exact P.
  - destruct (o * 64 + 64 <=? blen HO (ob_data ob)) eqn:E; [|discriminate]. apply N.leb_le in E.
    assert (E' : blen HO (slice HO (o * 64) 64 (ob_data ob)) = 64).
    { unfold slice. rewrite ObBase.blen_take, ObBase.blen_drop. lia. }
    intro H. pose proof (parse_pair_len _ E') as P.
    assert (Hp : parse_pair HO (slice HO (o * 64) 64 (ob_data ob)) = (l, r)) by congruence. rewrite Hp in P. exact P.
  - destruct (o * 64 + 64 <=? blen HO (ob_data ob)) eqn:E; [|discriminate]. apply N.leb_le in E.
    assert (E' : blen HO (slice HO (o * 64) 64 (ob_data ob)) = 64).
    { unfold slice. rewrite ObBase.blen_take, ObBase.blen_drop. lia. }
    intro H. pose proof (parse_pair_len _ E') as P.
    assert (Hp : parse_pair HO (slice HO (o * 64) 64 (ob_data ob)) = (l, r)) by congruence. rewrite Hp in P. exact P.
  - intro H. injection H as <- <-. split; exact Hz.
Qed.

Lemma stored_pair_len (ob : outboard HO) nd l r : stored_pair HO ob nd = Some (l, r) ->
  length l = 32%nat /\ length r = 32%nat.
Proof.
  unfold stored_pair. destruct (load_sync HO ob nd) as [x| |] eqn:E; try discriminate.
  intros ->. eapply load_sync_len; eauto.
Qed.
End PairLen.

Section ValTrue.
Variable HO : hops.
Hypothesis HOK : hash_ok HO.
Notation bytes := (bytes HO).
Notation hash := (hash HO).
Notation outboard := (outboard HO).

Variable data : bytes.
Variable bs : N.
Hypothesis Hsize : blen HO data <= 2 ^ 63.
Hypothesis Hbs : bs <= 10.

Let size := blen HO data.
Let nc := nchunks size.
Let g := 2 ^ bs.
Let B := sp_blocks size bs.
Definition nend (ga0 n : N) : N := N.min ((ga0 + n) * g) nc.

Lemma nend_grp ga : nend ga 1 = grp_end size bs ga.
Proof. reflexivity. Qed.

Lemma nc_bound : nc <= 2 ^ 53.
Proof. apply nchunks_bound. exact Hsize. Qed.

(* the pair of a node: halves of the node's chunk interval, hashing to the node's chaining value *)
Lemma node_cv ga0 n rm ir : node_ok size bs ga0 n rm -> 2 <= n ->
  let nd := unshift bs (sid ga0 n) in
  let half := capof n / 2 in
  true_pair HO data nd = (cv HO data (ga0 * g) ((ga0 + half) * g) false,
                          cv HO data ((ga0 + half) * g) (nend ga0 n) false) /\
  cv HO data (ga0 * g) (nend ga0 n) ir =
    parent_cv HO (cv HO data (ga0 * g) ((ga0 + half) * g) false) (cv HO data ((ga0 + half) * g) (nend ga0 n) false) ir /\
  nend ga0 half = (ga0 + half) * g /\ 1 <= half /\ half < n.
Proof.
  intros [P [k Al] I R] H2. cbn zeta. pose proof (pow2_pos bs) as Hp. fold g in Hp.
  destruct (capof_spec n P) as (j & Ej & Cn & Cn3). pose proof (pow2_pos j) as Hj.
  assert (Hh : capof n / 2 = 2 ^ j) by (rewrite Ej, pow2_succ, N.mul_comm, N.div_mul by lia; reflexivity).
  rewrite pow2_succ in Ej. rewrite Hh.
  assert (Hhn : 2 ^ j < n).
  { destruct (N.le_gt_cases n 2) as [L|L]; [rewrite capof_small in Ej by assumption; lia|].
    specialize (Cn3 ltac:(lia)). lia. }
  assert (Hin : ga0 + 2 ^ j < sp_blocks size bs) by (fold B; lia).
  pose proof (group_inside size bs _ Hin) as Hgi. fold g in Hgi. fold nc in Hgi.
  pose proof (nchunks_le_blocks size bs) as Hnb. fold B in Hnb. fold g in Hnb. fold nc in Hnb.
  pose proof nc_bound as Hnc.
  assert (Hid : sid ga0 n = k * (2 * 2 ^ j) + 2 ^ j - 1) by (unfold sid; rewrite Hh, Al, Ej; reflexivity).
  pose proof (unshift_geom bs k j) as G. cbn zeta in G. rewrite <- Hid in G.
  assert (Ega : k * (2 * 2 ^ j) = ga0) by (rewrite Al, Ej; reflexivity). rewrite Ega in G.
  destruct G as (_ & G2 & G3 & G4). fold g in G2, G3, G4.
  assert (Eend : N.min ((ga0 + 2 * 2 ^ j) * g) nc = nend ga0 n).
  { unfold nend. destruct rm.
    - unfold B in Hnb. rewrite <- R in Hnb. rewrite Ej in Cn. nia.
    - rewrite R, Ej. reflexivity. }
  split; [|split; [|split; [|split]]].
  - unfold true_pair. rewrite G2, G3, G4. unfold blob_chunks. fold size. fold nc. rewrite Eend. reflexivity.
  - assert (Hlo : (ga0 + 2 ^ j) * g < nend ga0 n) by (unfold nend; nia).
    assert (Hhi : nend ga0 n <= (ga0 + 2 * 2 ^ j) * g).
    { unfold nend. rewrite Ej in Cn.
      assert ((ga0 + n) * g <= (ga0 + 2 * 2 ^ j) * g) by (apply N.mul_le_mono_r; lia). lia. }
    pose proof (cv_split HO data (ga0 * g) (nend ga0 n) ir) as CS. cbv zeta in CS.
    assert (Ehalf : next_pow2 (nend ga0 n - ga0 * g) / 2 = 2 ^ j * g).
    { unfold g. rewrite <- pow2_add. apply next_pow2_half_unique; rewrite ?pow2_succ, pow2_add; fold g; nia. }
    rewrite Ehalf in CS. replace (ga0 * g + 2 ^ j * g) with ((ga0 + 2 ^ j) * g) in CS by lia.
    apply CS; [nia|]. assert (nend ga0 n <= nc) by (unfold nend; lia).
    change (2 ^ 53) with 9007199254740992 in Hnc. change (2 ^ 63) with 9223372036854775808. lia.
  - unfold nend. lia.
  - lia.
  - exact Hhn.
Qed.

Lemma cv_len' a b r : b <= nc -> length (cv HO data a b r) = 32%nat.
Proof.
  intro H. apply (cv_len HO (ho_len HO HOK)). pose proof nc_bound as Hnc.
  change (2 ^ 53) with 9007199254740992 in Hnc. change (2 ^ 63) with 9223372036854775808. lia.
Qed.

Lemma nend_le ga0 n : nend ga0 n <= nc.
Proof. unfold nend. lia. Qed.

Variable ob : outboard.

(* the two lemmas below only use the facts of node_cv / cv_len' about the blob's chaining values:
   they are proved over abstract functions (keeps [cv] = [cv_rec 64] out of the proof terms) *)
Section Generic.
Variable CVf : N -> N -> bool -> hash.
Variable TPf : N -> hash * hash.
Hypothesis Hnode : forall ga0 n rm ir, node_ok size bs ga0 n rm -> 2 <= n ->
  let nd := unshift bs (sid ga0 n) in
  let half := capof n / 2 in
  TPf nd = (CVf (ga0 * g) ((ga0 + half) * g) false, CVf ((ga0 + half) * g) (nend ga0 n) false) /\
  CVf (ga0 * g) (nend ga0 n) ir =
    parent_cv HO (CVf (ga0 * g) ((ga0 + half) * g) false) (CVf ((ga0 + half) * g) (nend ga0 n) false) ir /\
  nend ga0 half = (ga0 + half) * g /\ 1 <= half /\ half < n.
Hypothesis Hcvlen : forall a b r, b <= nc -> length (CVf a b r) = 32%nat.

Lemma chain_sound_gen : forall fuel ga0 n rm ir ga h,
  node_ok size bs ga0 n rm -> N.log2 (capof n) <= N.of_nat fuel -> ga0 <= ga < ga0 + n ->
  chain_walk HO ob (grp_path fuel bs ga0 n ga) (CVf (ga0 * g) (nend ga0 n) ir) ir = Some h ->
  h = CVf (ga * g) (nend ga 1) (ir && (n <=? 1)) /\
  forall nd rt, In (nd, rt) (grp_path fuel bs ga0 n ga) -> stored_pair HO ob nd = Some (TPf nd).
Proof.
  induction fuel as [|f IH]; intros ga0 n rm ir ga h Hok Hf Hga Hw.
  { destruct (fuel_pos n 0 (nk_pos _ _ _ _ _ Hok) Hf) as [f' Ef]. discriminate. }
  rewrite grp_path_eq in *.
  destruct (N.leb_spec n 1) as [L1|L1].
  - assert (n = 1) by lia. subst n. assert (ga = ga0) by lia. subst ga.
    cbn [chain_walk] in Hw. injection Hw as <-. rewrite andb_true_r. split; [reflexivity|]. intros nd rt [].
  - rewrite andb_false_r.
    destruct (Hnode ga0 n rm ir Hok ltac:(lia)) as (TP & CV & NE & Hh1 & Hhn). cbv zeta in TP, CV, NE.
    set (nd0 := unshift bs (sid ga0 n)) in *. set (half := capof n / 2) in *.
    assert (Hstep : forall rt rest, chain_walk HO ob ((nd0, rt) :: rest) (CVf (ga0 * g) (nend ga0 n) ir) ir = Some h ->
              stored_pair HO ob nd0 = Some (TPf nd0) /\
              chain_walk HO ob rest (if rt then CVf ((ga0 + half) * g) (nend ga0 n) false
                                     else CVf (ga0 * g) ((ga0 + half) * g) false) false = Some h).
    { intros rt rest Hc. cbn [chain_walk] in Hc.
      destruct (stored_pair HO ob nd0) as [[l r]|] eqn:Es; [|discriminate].
      destruct (bytes_eqb HO (parent_cv HO l r ir) (CVf (ga0 * g) (nend ga0 n) ir)) eqn:Eb; [|discriminate].
      apply (bytes_eqb_eq HO HOK) in Eb. rewrite CV in Eb.
      destruct (stored_pair_len HO ob nd0 l r Es) as [Ll Lr].
      apply (parent_cv_inj HO HOK) in Eb; try assumption.
      2:{ apply Hcvlen. rewrite <- NE. apply nend_le. }
      2:{ apply Hcvlen. apply nend_le. }
      destruct Eb as [-> ->]. rewrite TP. split; [reflexivity|exact Hc]. }
    destruct (N.leb_spec n 2) as [L2|L2].
    + assert (n = 2) by lia. subst n. assert (Eh : half = 1) by reflexivity.
      destruct (Hstep _ [] Hw) as [S1 S2]. cbn [chain_walk] in S2.
      split.
      * destruct (N.eqb_spec ga ga0) as [->|Ne]; cbn [negb] in S2; injection S2 as <-.
        -- rewrite <- NE. rewrite Eh. reflexivity.
        -- assert (ga = ga0 + 1) by lia. subst ga. rewrite Eh. unfold nend. do 2 f_equal. f_equal. lia.
      * intros nd rt [Hin|[]]. injection Hin as <- _. exact S1.
    + assert (H3 : 3 <= n) by lia.
      destruct (fuel_children n f H3 Hf) as [F1 F2]. fold half in F1, F2.
      pose proof (node_ok_left size bs ga0 n rm Hok H3) as Hokl. fold half in Hokl.
      pose proof (node_ok_right size bs ga0 n rm Hok H3) as Hokr. fold half in Hokr.
      cbv zeta in Hw |- *.
      destruct (N.ltb_spec ga (ga0 + half)) as [Lg|Lg].
      * destruct (Hstep _ _ Hw) as [S1 S2].
        rewrite <- NE in S2.
        destruct (IH ga0 half false false ga h Hokl F1 ltac:(lia) S2) as [R1 R2].
        split; [rewrite R1; reflexivity|].
        intros nd rt [Hin|Hin]; [injection Hin as <- _; exact S1|eapply R2; exact Hin].
      * destruct (Hstep _ _ Hw) as [S1 S2].
        assert (En : nend ga0 n = nend (ga0 + half) (n - half)) by (unfold nend; do 2 f_equal; lia).
        rewrite En in S2.
        destruct (IH (ga0 + half) (n - half) rm false ga h Hokr F2 ltac:(lia) S2) as [R1 R2].
        split; [rewrite R1; reflexivity|].
        intros nd rt [Hin|Hin]; [injection Hin as <- _; exact S1|eapply R2; exact Hin].
Qed.

Lemma chain_complete_gen : forall fuel ga0 n rm ir ga,
  node_ok size bs ga0 n rm -> N.log2 (capof n) <= N.of_nat fuel -> ga0 <= ga < ga0 + n ->
  (forall nd rt, In (nd, rt) (grp_path fuel bs ga0 n ga) -> stored_pair HO ob nd = Some (TPf nd)) ->
  chain_walk HO ob (grp_path fuel bs ga0 n ga) (CVf (ga0 * g) (nend ga0 n) ir) ir
  = Some (CVf (ga * g) (nend ga 1) (ir && (n <=? 1))).
Proof.
  induction fuel as [|f IH]; intros ga0 n rm ir ga Hok Hf Hga Hp.
  { destruct (fuel_pos n 0 (nk_pos _ _ _ _ _ Hok) Hf) as [f' Ef]. discriminate. }
  rewrite grp_path_eq in *.
  destruct (N.leb_spec n 1) as [L1|L1].
  - assert (n = 1) by lia. subst n. assert (ga = ga0) by lia. subst ga.
    cbn [chain_walk]. rewrite andb_true_r. reflexivity.
  - rewrite andb_false_r.
    destruct (Hnode ga0 n rm ir Hok ltac:(lia)) as (TP & CV & NE & Hh1 & Hhn). cbv zeta in TP, CV, NE.
    set (nd0 := unshift bs (sid ga0 n)) in *. set (half := capof n / 2) in *.
    assert (Hstep : forall rt rest, stored_pair HO ob nd0 = Some (TPf nd0) ->
              chain_walk HO ob ((nd0, rt) :: rest) (CVf (ga0 * g) (nend ga0 n) ir) ir =
              chain_walk HO ob rest (if rt then CVf ((ga0 + half) * g) (nend ga0 n) false
                                     else CVf (ga0 * g) ((ga0 + half) * g) false) false).
    { intros rt rest Es. cbn [chain_walk]. rewrite Es, TP, <- CV, (bytes_eqb_refl HO HOK). reflexivity. }
    destruct (N.leb_spec n 2) as [L2|L2].
    + assert (n = 2) by lia. subst n. assert (Eh : half = 1) by reflexivity.
      rewrite Hstep by (eapply Hp; left; reflexivity). cbn [chain_walk].
      destruct (N.eqb_spec ga ga0) as [->|Ne]; cbn [negb].
      * rewrite <- NE, Eh. reflexivity.
      * assert (ga = ga0 + 1) by lia. subst ga. rewrite Eh. unfold nend. do 3 f_equal. f_equal. lia.
    + assert (H3 : 3 <= n) by lia.
      destruct (fuel_children n f H3 Hf) as [F1 F2]. fold half in F1, F2.
      pose proof (node_ok_left size bs ga0 n rm Hok H3) as Hokl. fold half in Hokl.
      pose proof (node_ok_right size bs ga0 n rm Hok H3) as Hokr. fold half in Hokr.
      cbv zeta in Hp |- *.
      destruct (N.ltb_spec ga (ga0 + half)) as [Lg|Lg].
      * rewrite Hstep by (eapply Hp; left; reflexivity). rewrite <- NE.
        rewrite (IH ga0 half false false ga Hokl F1 ltac:(lia)); [reflexivity|].
        intros nd rt Hin. eapply Hp. right. exact Hin.
      * rewrite Hstep by (eapply Hp; left; reflexivity).
        assert (En : nend ga0 n = nend (ga0 + half) (n - half)) by (unfold nend; do 2 f_equal; lia).
        rewrite En.
        rewrite (IH (ga0 + half) (n - half) rm false ga Hokr F2 ltac:(lia)); [reflexivity|].
        intros nd rt Hin. eapply Hp. right. exact Hin.
Qed.

End Generic.

Lemma chain_sound : forall fuel ga0 n rm ir ga h,
  node_ok size bs ga0 n rm -> N.log2 (capof n) <= N.of_nat fuel -> ga0 <= ga < ga0 + n ->
  chain_walk HO ob (grp_path fuel bs ga0 n ga) (cv HO data (ga0 * g) (nend ga0 n) ir) ir = Some h ->
  h = cv HO data (ga * g) (nend ga 1) (ir && (n <=? 1)) /\
  forall nd rt, In (nd, rt) (grp_path fuel bs ga0 n ga) -> stored_pair HO ob nd = Some (true_pair HO data nd).
Proof. exact (chain_sound_gen (cv HO data) (true_pair HO data) node_cv cv_len'). Qed.

Lemma chain_complete : forall fuel ga0 n rm ir ga,
  node_ok size bs ga0 n rm -> N.log2 (capof n) <= N.of_nat fuel -> ga0 <= ga < ga0 + n ->
  (forall nd rt, In (nd, rt) (grp_path fuel bs ga0 n ga) -> stored_pair HO ob nd = Some (true_pair HO data nd)) ->
  chain_walk HO ob (grp_path fuel bs ga0 n ga) (cv HO data (ga0 * g) (nend ga0 n) ir) ir
  = Some (cv HO data (ga * g) (nend ga 1) (ir && (n <=? 1))).
Proof. exact (chain_complete_gen (cv HO data) (true_pair HO data) node_cv cv_len'). Qed.

End ValTrue.
