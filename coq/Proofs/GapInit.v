(* Gap C03 ("re-initialising an existing outboard"): CreateOutboard::init_from on an io-backed outboard
   (PreOrderOutboard / PostOrderOutboard over a file) holding ANY bytes of ANY length - empty, a shorter stale file,
   a longer stale file: the first (blocks - 1) * 64 bytes become the blob's outboard, anything beyond is left alone
   (the crate does not truncate); C03_init_from_sized covered the exactly pre-sized case only. *)
From BaoV Require Import Model.Sync Model.Fsm Spec.EncSpec Spec.PlanSpec Spec.NodeSpec Spec.HashAssm.
From BaoV Require Import Proofs.NodeLevel Proofs.ObBase Proofs.ObLoop Proofs.ObCreate Proofs.ObSize Proofs.ObLayout Proofs.ObLayoutC
  Proofs.E2EOutboard.
From BaoV Require Import Proofs.ValSpec Proofs.HistOb Proofs.FinalStore.
From Coq Require Import Lia Arith PeanoNat ZArith Permutation.
Open Scope N_scope.
Arguments N.add : simpl never.
Arguments N.sub : simpl never.
Arguments N.mul : simpl never.
Arguments N.pow : simpl never.
Arguments N.div : simpl never.
Arguments N.modulo : simpl never.
Arguments N.min : simpl never.
Arguments N.max : simpl never.

Section Frame.
Variable HO : hops.
Notation bytes := (bytes HO).
Notation hash := (hash HO).

Lemma write_at_frame (d1 d2 b : bytes) off : off + blen HO b <= blen HO d1 ->
  write_at HO (d1 ++ d2) off b = write_at HO d1 off b ++ d2.
Proof.
  intro H. unfold write_at. rewrite blen_app.
  assert (E1 : (blen HO d1 + blen HO d2 <? off) = false) by (apply N.ltb_ge; lia).
  assert (E2 : (blen HO d1 <? off) = false) by (apply N.ltb_ge; lia).
  rewrite E1, E2. rewrite take_app_le by lia. rewrite drop_app_le by lia.
  rewrite <- !app_assoc. reflexivity.
Qed.

Variable kd : ob_kind.
Hypothesis Hkd : io_backed kd.
Variable r0 : hash.
Variable t : tree.
Variable P : list (N * (hash * hash)).
Hypothesis HP32 : Forall (pair32 HO) P.
Hypothesis HoffP : map (off_of HO kd r0 t) (map fst P) = map (fun i => Some (N.of_nat i)) (seq 0 (length P)).
Local Notation n := (N.of_nat (length P)).

(* layout of Proofs/ObLayout.v for any initial bytes not longer than the outboard *)
Lemma layout_short (S0 : list (N * (hash * hash))) (d : bytes) : blen HO d <= 64 * n ->
  (forall p, In p S0 <-> In p P) ->
  save_all HO (mkOb kd r0 t d) S0 = Ok (mkOb kd r0 t (flat_pairs HO P)).
Proof.
  intros Hd Heq.
  set (dflt := (0, ([], [])) : N * (hash * hash)).
  set (F := fun i : N => pflat HO (nth (N.to_nat i) P dflt)).
  pose proof (F_len HO P HP32) as FL.
  destruct (save_all_slots HO kd Hkd r0 t P HP32 HoffP S0 d (fun p Hp => proj1 (Heq p) Hp) Hd)
    as (d' & E & L & _ & K).
  rewrite E. do 2 f_equal.
  rewrite flat_pairs_map. rewrite <- (map_nth_seq P dflt) at 1. rewrite map_map.
  rewrite (slots_concat HO F n FL (length P) d' ltac:(lia) L).
  - f_equal. apply map_ext. intro j. unfold F. rewrite Nat2N.id. reflexivity.
  - intros i Hi.
    assert (Hin : In (nth (N.to_nat i) P dflt) P) by (apply nth_In; lia).
    apply (K _ (proj2 (Heq _) Hin)).
    rewrite (off_nth HO kd r0 t P HoffP) by lia. f_equal. lia.
Qed.

(* bytes beyond the outboard are carried along untouched *)
Lemma save_all_frame : forall (S0 : list (N * (hash * hash))) (d1 d2 : bytes),
  blen HO d1 = 64 * n -> (forall p, In p S0 -> In p P) ->
  exists d1', save_all HO (mkOb kd r0 t d1) S0 = Ok (mkOb kd r0 t d1') /\ blen HO d1' = 64 * n /\
              save_all HO (mkOb kd r0 t (d1 ++ d2)) S0 = Ok (mkOb kd r0 t (d1' ++ d2)).
Proof.
  induction S0 as [|[nd [lh rh]] S0 IH]; intros d1 d2 Hd Hsub.
  - exists d1. cbn [save_all]. repeat split; assumption || reflexivity.
  - destruct (in_P_slot HO kd r0 t P HoffP (nd, (lh, rh)) (Hsub _ (or_introl eq_refl))) as (k & Hk & Hoff & Hfl).
    cbn [fst] in Hoff. unfold pflat in Hfl. cbn [fst snd] in Hfl.
    assert (Hb : blen HO (lh ++ rh) = 64).
    { rewrite Hfl. apply (F_len HO P HP32). exact Hk. }
    cbn [save_all]. rewrite !(save_io_at HO kd Hkd r0 t _ nd lh rh k Hoff).
    rewrite (write_at_frame d1 d2 (lh ++ rh) (k * 64)) by lia.
    assert (Hd' : blen HO (write_at HO d1 (k * 64) (lh ++ rh)) = 64 * n) by (rewrite blen_write_at; lia).
    destruct (IH (write_at HO d1 (k * 64) (lh ++ rh)) d2 Hd' (fun p Hp => Hsub p (or_intror Hp))) as (d1' & E1 & L & E2).
    exists d1'. split; [exact E1|]. split; [exact L|exact E2].
Qed.

Theorem layout_any (S0 : list (N * (hash * hash))) (d : bytes) : (forall p, In p S0 <-> In p P) ->
  save_all HO (mkOb kd r0 t d) S0 = Ok (mkOb kd r0 t (flat_pairs HO P ++ drop HO (64 * n) d)).
Proof.
  intro Heq. destruct (N.le_gt_cases (blen HO d) (64 * n)) as [L|L].
  - rewrite (drop_all HO) by exact L. rewrite app_nil_r. exact (layout_short S0 d L Heq).
  - rewrite <- (take_app_drop HO (64 * n) d) at 1.
    assert (Hd1 : blen HO (take HO (64 * n) d) = 64 * n) by (rewrite blen_take; lia).
    destruct (save_all_frame S0 (take HO (64 * n) d) (drop HO (64 * n) d) Hd1 (fun p Hp => proj1 (Heq p) Hp))
      as (d1' & E1 & _ & E2).
    rewrite (layout_short S0 (take HO (64 * n) d) ltac:(lia) Heq) in E1.
    injection E1 as E1. rewrite <- E1 in E2. exact E2.
Qed.
End Frame.

Section Init.
Variable HO : hops.
Hypothesis Hlen : cv_len32 HO.
Notation bytes := (bytes HO).
Notation hash := (hash HO).
Notation outboard := (outboard HO).
Variable data : bytes.
Variable bs : N.
Hypothesis Hsize : blen HO data <= 2 ^ 63.
Hypothesis Hbs : bs <= 10.
Notation size := (blen HO data).
Notation t := (mkTree (blen HO data) bs).
Notation B := (sp_blocks (blen HO data) bs).

Lemma io_hist k : io_backed k -> hist_kind k.
Proof. intros [->| ->]; [left|right; left]; reflexivity. Qed.

Lemma save_all_io_any (k : ob_kind) (r0 : hash) (d : bytes) : io_backed k ->
  save_all HO (mkOb k r0 t d) (saves HO data (post_plan size bs))
  = Ok (mkOb k r0 t (spec_outboard HO (is_post k) data bs ++ drop HO ((B - 1) * 64) d)).
Proof.
  intro Hk.
  destruct (spec_pairs HO Hlen data bs Hsize Hbs (is_post k)) as (P & Hflat & HP32 & HL & Hfst & _ & Hsaves).
  assert (HoffP : map (off_of HO k r0 t) (map fst P) = map (fun i => Some (N.of_nat i)) (seq 0 (length P))).
  { rewrite Hfst, HL. exact (shape_offsets HO data bs Hsize Hbs k (io_hist k Hk) (mkOb k r0 t []) eq_refl eq_refl). }
  rewrite Hflat.
  replace ((B - 1) * 64) with (64 * N.of_nat (length P)) by (rewrite HL; lia).
  exact (layout_any HO k Hk r0 t P HP32 HoffP _ d Hsaves).
Qed.

Theorem init_from_io_any (ob0 : outboard) : io_backed (ob_k ob0) -> ob_tree ob0 = t ->
  init_from HO ob0 data
    = Ok (mkOb (ob_k ob0) (root_hash HO data) t
               (spec_outboard HO (is_post (ob_k ob0)) data bs ++ drop HO ((B - 1) * 64) (ob_data ob0))) /\
  init_from_fsm HO ob0 data
    = Ok (mkOb (ob_k ob0) (root_hash HO data) t
               (spec_outboard HO (is_post (ob_k ob0)) data bs ++ drop HO ((B - 1) * 64) (ob_data ob0))).
Proof.
  intros K T. pose proof (e2e_plan HO data bs Hsize Hbs) as Hplan.
  destruct ob0 as [k r0 t0 d0]. cbn [ob_k ob_tree ob_data] in *. subst t0.
  pose proof (save_all_io_any k r0 d0 K) as E.
  split.
  - unfold init_from. cbn [ob_tree].
    rewrite <- (set_root_mk' HO k r0 t _ (root_hash HO data)).
    exact (init_match HO _ _ _ _ (outboard_impl_ok HO data bs Hsize Hplan _ _ E)).
  - unfold init_from_fsm. cbn [ob_tree].
    rewrite <- (set_root_mk' HO k r0 t _ (root_hash HO data)).
    exact (init_match HO _ _ _ _ (outboard_impl_fsm_ok HO data bs Hsize Hplan _ _ E)).
Qed.

(* trailing bytes do not matter for the loads of the nodes of the tree *)
Lemma io_extra_loads (k : ob_kind) (r : hash) (d extra : bytes) : io_backed k ->
  blen HO d = (B - 1) * 64 ->
  forall nd, In nd (sp_pre_nodes size bs) ->
  load_sync HO (mkOb k r t (d ++ extra)) nd = load_sync HO (mkOb k r t d) nd /\
  load_fsm HO (mkOb k r t (d ++ extra)) nd = load_fsm HO (mkOb k r t d) nd.
Proof.
  intros Hk Hd nd Hin.
  assert (Hs : ob_sized HO (mkOb k r t d) size bs) by (constructor; [exact (io_hist k Hk)|reflexivity|exact Hd]).
  assert (Hoff : ob_offset HO (mkOb k r t (d ++ extra)) nd = ob_offset HO (mkOb k r t d) nd) by reflexivity.
  unfold load_sync, load_fsm. rewrite Hoff. cbn [ob_k ob_data].
  destruct (sp_persisted size bs nd) eqn:Ep.
  - assert (Hp : pnode size bs nd) by (rewrite pnodes_eq; apply filter_In; now split).
    destruct (pnode_offset HO size bs Hsize Hbs (mkOb k r t d) nd Hs Hp) as (o & Ho & Hlt).
    rewrite Ho.
    assert (Esl : slice HO (o * 64) 64 (d ++ extra) = slice HO (o * 64) 64 d).
    { unfold slice. rewrite drop_app_le by lia. apply take_app_le. rewrite blen_drop. lia. }
    rewrite Esl. destruct Hk as [-> | ->]; split; reflexivity.
  - destruct (created_loads_none HO data bs Hsize Hbs (mkOb k r t d) (io_hist k Hk) eq_refl nd Hin Ep) as [E _].
    unfold load_sync in E. cbn [ob_k ob_data] in E.
    destruct (ob_offset HO (mkOb k r t d) nd) as [o|]; [|split; reflexivity].
    exfalso. destruct Hk as [-> | ->]; destruct (blen HO (slice HO (o * 64) 64 d) =? 64); discriminate.
Qed.

(* so the re-initialised store is intact whatever it held before *)
Theorem init_from_io_any_intact (ob0 : outboard) : io_backed (ob_k ob0) -> ob_tree ob0 = t ->
  exists ob, init_from HO ob0 data = Ok ob /\ init_from_fsm HO ob0 data = Ok ob /\
    ob_k ob = ob_k ob0 /\ ob_tree ob = t /\ ob_root ob = root_hash HO data /\
    take HO ((B - 1) * 64) (ob_data ob) = spec_outboard HO (is_post (ob_k ob0)) data bs /\
    drop HO ((B - 1) * 64) (ob_data ob) = drop HO ((B - 1) * 64) (ob_data ob0) /\
    (blen HO (ob_data ob0) <= (B - 1) * 64 -> created_store HO data bs ob) /\
    (forall nd, In nd (sp_pre_nodes size bs) ->
       (sp_persisted size bs nd = true ->
          load_sync HO ob nd = Ok (Some (true_pair HO data nd)) /\ load_fsm HO ob nd = Ok (Some (true_pair HO data nd))) /\
       (sp_persisted size bs nd = false -> load_sync HO ob nd = Ok None /\ load_fsm HO ob nd = Ok None)).
Proof.
  intros K T. destruct (init_from_io_any ob0 K T) as [E1 E2].
  pose proof (spec_outboard_size HO Hlen data bs (is_post (ob_k ob0)) Hsize) as Hs.
  eexists. split; [exact E1|]. split; [exact E2|]. cbn [ob_k ob_tree ob_root ob_data].
  split; [reflexivity|]. split; [reflexivity|]. split; [reflexivity|]. split.
  { rewrite <- Hs. apply take_app_exact. }
  split.
  { rewrite drop_app_ge by (rewrite Hs; lia). rewrite Hs, N.sub_diag. apply drop_0. }
  split.
  { intro L. rewrite (drop_all HO) by exact L. rewrite app_nil_r.
    apply created_store_mk; [exact (io_hist _ K)|reflexivity]. }
  intros nd Hin.
  destruct (io_extra_loads (ob_k ob0) (root_hash HO data) (spec_outboard HO (is_post (ob_k ob0)) data bs)
              (drop HO ((B - 1) * 64) (ob_data ob0)) K Hs nd Hin) as [L1 L2].
  rewrite L1, L2.
  pose proof (created_store_mk HO data bs (ob_k ob0) (spec_outboard HO (is_post (ob_k ob0)) data bs)
                (io_hist _ K) eq_refl) as CS.
  exact (c03_created_store_loads' HO Hlen data bs Hsize Hbs _ CS nd Hin).
Qed.

End Init.
