(* L8: positions of nodes in the Shape listings: common definitions and list lemmas. *)
From BaoV Require Import Model.Iter Spec.NodeSpec Proofs.NodeLevel Proofs.NodeBits Proofs.NodeAlgebra
  Proofs.NodeRestricted Proofs.ShapeBase Proofs.ShapeIter Proofs.ShapeOffsets.
From Coq Require Import ZArith Lia.
Open Scope N_scope.
Ltac Zify.zify_post_hook ::= Z.to_euclidean_division_equations.

(* first node id (= first chunk group) of the subtree of s *)
Definition nleft (s : N) : N := s + 1 - 2 ^ level s.

Lemma nleft_start s : nleft s = sp_node_start s.
Proof.
  unfold nleft. rewrite start_eq. pose proof (level_decomp s) as D. pose proof (pow2_pos (level s)). nia.
Qed.

Lemma nleft_spine a l c : a = c * 2 ^ (l + 1) -> nleft (spine a l) = a.
Proof. intros H. rewrite nleft_start. now apply (spine_start a l c). Qed.

(* the subtree of a node in the id range of a complete tree lies inside that tree *)
Lemma sub_contained a l q s : a = q * 2 ^ (l + 1) -> a <= s -> s + 1 < a + 2 ^ (l + 1) ->
  a <= nleft s /\ nleft s + 2 ^ (level s + 1) <= a + 2 ^ (l + 1) /\ level s <= l.
Proof.
  intros Ha H1 H2. pose proof (level_decomp s) as D. unfold nleft.
  set (i := level s) in *. set (k := sp_index s) in *.
  pose proof (pow2_pos i) as Pi. pose proof (pow2_pos (l + 1)) as Pl.
  assert (Hi : i <= l).
  { destruct (N.le_gt_cases i l) as [|G]; [assumption|exfalso].
    rewrite (pow2_split i (l + 1)) in D by lia.
    set (M := (2 * k + 1) * 2 ^ (i - (l + 1))).
    assert (EM : s + 1 = M * 2 ^ (l + 1)) by (unfold M; lia).
    clearbody M. set (T := 2 ^ (l + 1)) in *. clear D. clearbody T.
    assert (q < M) by nia. assert (M < q + 1) by nia. lia. }
  rewrite (pow2_split (l + 1) (i + 1)) in Ha, H2 by lia.
  rewrite (pow2_split (l + 1) (i + 1)) by lia.
  pose proof (pow2_pos (l + 1 - (i + 1))) as Pd.
  set (E := 2 ^ (l + 1 - (i + 1))) in *. rewrite pow2_succ in *.
  set (P := 2 ^ i) in *.
  assert (A1 : q * E <= k).
  { destruct (N.le_gt_cases (q * E) k) as [|G]; [assumption|exfalso].
    assert ((k + 1) * P <= q * E * P) by (apply N.mul_le_mono_r; lia). lia. }
  assert (A2 : k + 1 <= q * E + E).
  { destruct (N.le_gt_cases (k + 1) (q * E + E)) as [|G]; [assumption|exfalso].
    assert ((q * E + E) * P <= k * P) by (apply N.mul_le_mono_r; lia). lia. }
  assert (B1 : q * E * (2 * P) <= k * (2 * P)) by (apply N.mul_le_mono_r; exact A1).
  assert (B2 : (k + 1) * (2 * P) <= (q * E + E) * (2 * P)) by (apply N.mul_le_mono_r; exact A2).
  split; [|split]; [| |exact Hi]; lia.
Qed.

(* ---- popcount of aligned sums ---- *)
Lemma popcount_add_pow2 l : forall d, d < 2 ^ l -> popcount (2 ^ l + d) = 1 + popcount d.
Proof.
  induction l as [|l IH] using N.peano_ind; intros d Hd.
  - rewrite N.pow_0_r in *. assert (d = 0) by lia. subst d. reflexivity.
  - rewrite N.pow_succ_r' in *.
    pose proof (N.div_mod d 2 ltac:(lia)) as Dd. pose proof (N.mod_upper_bound d 2 ltac:(lia)) as Md.
    assert (C : d mod 2 = 0 \/ d mod 2 = 1) by lia.
    destruct C as [C|C]; rewrite C in Dd.
    + rewrite Dd at 1. replace (2 * 2 ^ l + (2 * (d / 2) + 0)) with (2 * (2 ^ l + d / 2)) by lia.
      rewrite popcount_double, IH by lia.
      rewrite Dd at 2. replace (2 * (d / 2) + 0) with (2 * (d / 2)) by lia. now rewrite popcount_double.
    + rewrite Dd at 1. replace (2 * 2 ^ l + (2 * (d / 2) + 1)) with (2 * (2 ^ l + d / 2) + 1) by lia.
      rewrite popcount_double1, IH by lia.
      rewrite Dd at 2. rewrite popcount_double1. lia.
Qed.

(* ---- list helpers ---- *)
Definition nseq (s n : nat) : list N := map N.of_nat (seq s n).

Lemma nseq_shift k : forall n s, map (fun v => N.of_nat k + v) (nseq s n) = nseq (k + s) n.
Proof.
  unfold nseq. induction n as [|n IH]; intros s; [reflexivity|].
  cbn [seq map]. f_equal; [lia|]. rewrite IH. now rewrite Nat.add_succ_r.
Qed.

Lemma nseq_app s n1 n2 : nseq s (n1 + n2) = nseq s n1 ++ nseq (s + n1) n2.
Proof. unfold nseq. now rewrite seq_app, map_app. Qed.

Lemma filter_map_comm {A C} (f : A -> C) (p : C -> bool) (l : list A) :
  filter p (map f l) = map f (filter (fun x => p (f x)) l).
Proof.
  induction l as [|x l IH]; [reflexivity|]. cbn [map filter].
  destruct (p (f x)); cbn [map]; now rewrite IH.
Qed.

Lemma filter_ext_in' {A} (p q : A -> bool) (l : list A) :
  (forall x, In x l -> p x = q x) -> filter p l = filter q l.
Proof.
  induction l as [|x l IH]; intros H; [reflexivity|]. cbn [filter].
  rewrite (H x (or_introl eq_refl)). rewrite IH; [reflexivity|].
  intros y Hy. apply H. now right.
Qed.

Lemma filter_In_sub {A} (p : A -> bool) (l : list A) x : In x (filter p l) -> In x l.
Proof. intros H. apply filter_In in H. tauto. Qed.

(* ---- stored (persisted) nodes and full subtrees in shifted terms ---- *)
Definition pers (B s : N) : bool := (0 <? level s) || (s + 1 <? B).
Definition ins (FB s : N) : bool := nleft s + 2 ^ (level s + 1) <=? FB.

Lemma ceil_lt x q k : 0 < q -> (k * q < x <-> k < (x + q - 1) / q).
Proof.
  intros Hq. split; intros H.
  - assert (k + 1 <= (x + q - 1) / q); [|lia]. apply N.div_le_lower_bound; [lia|]. nia.
  - pose proof (N.mul_div_le (x + q - 1) q ltac:(lia)) as M.
    assert ((k + 1) * q <= q * ((x + q - 1) / q)) by nia. nia.
Qed.

Lemma pers_spec size bs s : size <= 2 ^ 63 -> bs <= 10 -> s + 1 <= shlen (sp_blocks size bs) ->
  sp_persisted size bs (unshift bs s) = pers (sp_blocks size bs) s.
Proof.
  intros Hs Hb Hin. rewrite listed_persisted. unfold pers.
  destruct (N.ltb_spec 0 (level s)) as [|L0]; [reflexivity|]. cbn [orb].
  destruct (N.eqb_spec (level s) 0); [|lia]. cbn [andb].
  destruct (listed_mid size bs s Hs Hb Hin) as [E _]. rewrite E.
  pose proof (pow2_pos bs) as P.
  pose proof (ceil_lt size (1024 * 2 ^ bs) (s + 1) ltac:(lia)) as C.
  unfold sp_blocks.
  destruct (N.ltb_spec ((s + 1) * (1024 * 2 ^ bs)) size), (N.ltb_spec (s + 1) (N.max 1 ((size + 1024 * 2 ^ bs - 1) / (1024 * 2 ^ bs)))); try reflexivity; lia.
Qed.

Lemma ins_spec size bs s : size <= 2 ^ 63 -> bs <= 10 -> s + 1 <= shlen (sp_blocks size bs) ->
  sp_subtree_inside size (unshift bs s) = ins (size / (1024 * 2 ^ bs)) s.
Proof.
  intros Hs Hb Hin. unfold sp_subtree_inside, ins.
  destruct (listed_end size bs s Hs Hb Hin) as [E _]. rewrite E, <- nleft_start.
  pose proof (pow2_pos bs) as P. set (Q := 1024 * 2 ^ bs) in *. set (X := nleft s + 2 ^ (level s + 1)).
  assert (HQ : 0 < Q) by (unfold Q; lia).
  destruct (N.leb_spec (X * Q) size) as [A|A], (N.leb_spec X (size / Q)) as [C|C]; try reflexivity; exfalso.
  - assert (X <= size / Q) by (apply N.div_le_lower_bound; lia). lia.
  - pose proof (N.mul_div_le size Q ltac:(lia)). nia.
Qed.
