(* Gap audit (C02 iv): closed forms of Proofs/GapHMixed.v for Props/C02.v, with the definitions spelled out.
   The plan of the statements is the encoder's own plan: pre_order_chunks_iter (mkTree size bs) q' 0 with
   q' = truncate_ranges q size (EncPlan.rplan_refines: = rplan size bs q'). *)
From BaoV Require Import Model.Sync Model.Fsm Spec.RangeSpec Spec.PlanSpec Spec.EncSpec Spec.HashAssm.
From BaoV Require Import Proofs.BridgeLeaves Proofs.DecRanges Proofs.EncPlan Proofs.EncMain Proofs.EncThm
  Proofs.FinalStore Proofs.GapHFault Proofs.GapHMixed.
From Coq Require Import ZArith Lia.
Open Scope N_scope.

(* one unit of the encoder's plan, as the item stream of mixed.rs sends it: a parent of the Shape with the blob's
   pair; a fully selected chunk group as one leaf; a partially selected chunk group through traverse_selected_rec,
   specified by mix_rec: parents carry node 0, fully selected sub-intervals are sent chunk by chunk *)
Definition mixed_unit_spec (HO : hops) (data : bytes HO) (bs : N) (q : ranges) (c : chunk) : list (item HO) :=
  match c with
  | CParent nd _ _ _ _ => [IParent nd (fst (true_pair HO data nd)) (snd (true_pair HO data nd))]
  | CLeaf s _ _ rs =>
      if r_is_all rs then [ILeaf (s * 1024) (chunk_bytes HO data s (N.min (s + 2 ^ bs) (nchunks (blen HO data))))]
      else mix_rec HO 64 data (sel q (blen HO data)) s (N.min (s + 2 ^ bs) (nchunks (blen HO data)))
  end.

Theorem gaph_mix_rec_def : forall (HO : hops) (data : bytes HO) (Sel : N -> bool) (a b : N),
  mix_rec HO 0 data Sel a b = [] /\
  forall f, mix_rec HO (S f) data Sel a b =
    if negb (existsb Sel (chunk_range_list a b)) then []
    else if b - a <=? 1 then [ILeaf (a * 1024) (chunk_bytes HO data a b)]
    else
      (if forallb Sel (chunk_range_list a b) then []
       else [IParent 0 (cv HO data a (a + next_pow2 (b - a) / 2) false) (cv HO data (a + next_pow2 (b - a) / 2) b false)])
      ++ mix_rec HO f data Sel a (a + next_pow2 (b - a) / 2) ++ mix_rec HO f data Sel (a + next_pow2 (b - a) / 2) b.
Proof. intros. split; [reflexivity|]. intro f. apply mix_rec_unfold. Qed.

Lemma gE_eq (HO : hops) (data : bytes HO) (bs s : N) :
  gE HO data bs s = N.min (s + 2 ^ bs) (nchunks (blen HO data)).
Proof. reflexivity. Qed.

Lemma mixed_unit_is_spec (HO : hops) (data : bytes HO) (bs : N) (q : ranges) (c : chunk) :
  mixed_unit HO data bs q c = mixed_unit_spec HO data bs q c.
Proof.
  destruct c as [nd ir lf rt rs|s sz ir rs]; [reflexivity|].
  unfold mixed_unit_spec. rewrite <- (gE_eq HO data bs s). unfold mixed_unit. reflexivity.
Qed.

Lemma mixed_items_fold (HO : hops) (data : bytes HO) (bs : N) (q : ranges) :
  mixed_items HO data bs q = concat (map (mixed_unit HO data bs q) (rplan (blen HO data) bs (truncate_ranges q (blen HO data)))).
Proof. reflexivity. Qed.

Theorem gaph_mixed_items_def : forall (HO : hops) (data : bytes HO) (bs : N) (q : ranges),
  blen HO data <= 2 ^ 63 -> bs <= 10 ->
  mixed_items HO data bs q =
  concat (map (mixed_unit_spec HO data bs q)
              (pre_order_chunks_iter (mkTree (blen HO data) bs) (truncate_ranges q (blen HO data)) 0)).
Proof.
  intros HO data bs q Hs Hb. rewrite (rplan_refines (blen HO data) bs _ Hs Hb). rewrite mixed_items_fold.
  generalize (rplan (blen HO data) bs (truncate_ranges q (blen HO data))). intro pl.
  rewrite (map_ext _ _ (mixed_unit_is_spec HO data bs q) pl). reflexivity.
Qed.

(* the item stream on a store that is intact on the parents of the plan *)
Theorem gaph_mixed_stream : forall (HO : hops), hash_ok HO ->
  forall (data : bytes HO) (bs : N), blen HO data <= 2 ^ 63 -> bs <= 10 -> forall q : ranges, wf_ranges q = true ->
  forall ob : outboard HO, ob_tree ob = mkTree (blen HO data) bs -> ob_root ob = root_hash HO data ->
  (forall nd, In nd (enc_nodes (blen HO data) bs q) -> stored_ok HO data ob nd) ->
  traverse_ranges_validated HO data ob q =
    Some (ESize (blen HO data) :: map EItem (mixed_items HO data bs q) ++ [EDone]) /\
  concat (map (item_bytes HO) (mixed_items HO data bs q)) = flat HO (honest HO data bs q) /\
  (forall target : bytes HO,
     write_leaves HO target (mixed_items HO data bs q) = write_leaves HO target (honest HO data bs q)) /\
  (forall (target : bytes HO) (sink : outboard HO), ob_tree sink = mkTree (blen HO data) bs ->
     apply_items HO (mixed_items HO data bs q) target sink = apply_items HO (honest HO data bs q) target sink) /\
  (forall (target : bytes HO) (sink : outboard HO), ob_tree sink = mkTree (blen HO data) bs -> sink_ok HO data bs sink ->
     exists ob', apply_items HO (mixed_items HO data bs q) target sink =
                 (SOk, write_leaves HO target (honest HO data bs q), ob')).
Proof.
  intros HO HOK data bs Hs Hb q Hwf ob Ht Hr Hst.
  destruct (mixed_apply_eq HO HOK data bs Hs Hb q Hwf ob Ht Hr Hst) as (its & T & Bt & Ei & _ & _ & W & A & S0).
  rewrite <- mixed_items_fold in Ei. subst its.
  split; [exact T|]. split; [exact Bt|]. split; [exact W|]. split; [exact A|].
  intros target sink Tk Sk. destruct (S0 target sink Tk Sk) as (ob' & E & _). exists ob'. exact E.
Qed.

(* the leaves of the stream: runs of selected chunks of the blob at their offsets; a single chunk, or a whole
   (fully selected) chunk group *)
Theorem gaph_mixed_leaves : forall (HO : hops) (data : bytes HO) (bs : N), blen HO data <= 2 ^ 63 -> bs <= 10 ->
  forall q : ranges, wf_ranges q = true ->
  forall off (d : bytes HO), In (ILeaf off d) (mixed_items HO data bs q) ->
  exists s e, off = s * 1024 /\ d = chunk_bytes HO data s e /\ s < e /\ e <= nchunks (blen HO data) /\
    (forall x, s <= x -> x < e -> sel q (blen HO data) x = true) /\
    (e = s + 1 \/ (e = N.min (s + 2 ^ bs) (nchunks (blen HO data)) /\ exists ga, s = ga * 2 ^ bs)).
Proof.
  intros HO data bs Hs Hb q Hwf off d Hin. rewrite mixed_items_fold in Hin.
  destruct (mixed_items_leaves HO data bs Hs Hb q Hwf off d Hin) as (s & e & A1 & A2 & A3 & A4 & A5 & A6).
  exists s, e. split; [exact A1|]. split; [exact A2|]. split; [exact A3|]. split; [exact A4|]. split; [exact A5|].
  rewrite <- gE_eq. exact A6.
Qed.

Theorem gaph_mixed_unit_spec_def : forall (HO : hops) (data : bytes HO) (bs : N) (q : ranges),
  (forall nd ir lf rt rs, mixed_unit_spec HO data bs q (CParent nd ir lf rt rs) =
     [IParent nd (fst (true_pair HO data nd)) (snd (true_pair HO data nd))]) /\
  (forall s sz ir rs, mixed_unit_spec HO data bs q (CLeaf s sz ir rs) =
     if r_is_all rs then [ILeaf (s * 1024) (chunk_bytes HO data s (N.min (s + 2 ^ bs) (nchunks (blen HO data))))]
     else mix_rec HO 64 data (sel q (blen HO data)) s (N.min (s + 2 ^ bs) (nchunks (blen HO data)))).
Proof. intros. split; intros; unfold mixed_unit_spec; reflexivity. Qed.
