(* The composite well-formedness checker holds_pre_plan of Spec/PlanWf.v accepts the recursive
   pre-order partial plan (C15). *)
From BaoV Require Import Model.Iter Spec.PlanSpec Spec.PlanWf Proofs.NodeLevel Proofs.NodeBits Proofs.NodeAlgebra
  Proofs.RangeBase Proofs.PlanBase Proofs.PlanQuery Proofs.PlanPreStruct Proofs.PlanPreLeaves Proofs.PlanPreCover.
From Coq Require Import ZArith Lia.
Open Scope N_scope.
Arguments N.add : simpl never.
Arguments N.sub : simpl never.
Arguments N.mul : simpl never.
Arguments N.pow : simpl never.
Arguments N.shiftl : simpl never.
Arguments N.shiftr : simpl never.
Arguments N.land : simpl never.
Arguments N.div : simpl never.
Arguments N.modulo : simpl never.
Arguments N.log2 : simpl never.
Arguments N.min : simpl never.
Arguments N.max : simpl never.
Ltac Zify.zify_post_hook ::= Z.to_euclidean_division_equations.

(* ---- the empty query has the empty plan ---- *)
Lemma q_any_nil a e : q_any [] a e true = false.
Proof. unfold q_any, reaches. cbn [length Nat.odd last]. apply N.ltb_ge. lia. Qed.

Lemma pre_plan_nil size bs ml : pre_plan size bs ml [] = [].
Proof. unfold pre_plan. rewrite pre_plan_rec_eq. cbv zeta. rewrite q_any_nil. reflexivity. Qed.

(* ---- walking down from a member chunk to a probe: the leaf start or a boundary of the query ---- *)
Lemma mem_down q lo : forall k c, N.to_nat (c - lo) = k -> lo <= c -> mem q c = true ->
  exists c', lo <= c' /\ c' <= c /\ mem q c' = true /\ (c' = lo \/ In c' q).
Proof.
  induction k as [|k IH]; intros c Hk Hlo Hm.
  - exists c. split; [lia|]. split; [lia|]. split; [assumption|]. left. lia.
  - destruct (in_dec N.eq_dec c q) as [Hin|Hin].
    + exists c. split; [lia|]. split; [lia|]. split; [assumption|]. now right.
    + assert (E : mem q c = mem q (c - 1)).
      { apply mem_no_bnd; [lia|]. intros b Hb L1 L2. apply Hin. replace c with b by lia. exact Hb. }
      destruct (IH (c - 1)) as (c' & C1 & C2 & C3 & C4); [lia|lia|congruence|].
      exists c'. split; [lia|]. split; [lia|]. split; assumption.
Qed.

(* every leaf interval that contains a selected chunk contains a selected probe chunk *)
Lemma probe_in q size ls lo hi c : In (lo, hi) ls -> lo <= c < hi -> sel q size c = true ->
  exists c', In c' (probe_chunks q size ls) /\ lo <= c' < hi /\ sel q size c' = true.
Proof.
  intros Hin Hc Hsel. pose proof (sel_lt _ _ _ Hsel) as Hlt.
  unfold probe_chunks. cbv zeta. set (n := nchunks size) in *.
  destruct (N.leb_spec n 2048) as [L|L].
  - exists c. split; [|split; assumption]. apply in_map_iff. exists (N.to_nat c).
    split; [apply N2Nat.id|]. apply in_seq. lia.
  - destruct (mem q c) eqn:Hm.
    + destruct (mem_down q lo (N.to_nat (c - lo)) c eq_refl ltac:(lia) Hm) as (c' & C1 & C2 & C3 & C4).
      exists c'. split; [|split; [lia|]].
      * apply filter_In. split; [|apply N.ltb_lt; lia].
        destruct C4 as [->|C4].
        -- apply in_or_app. right. apply in_or_app. left. apply in_flat_map.
           exists (lo, hi). split; [assumption|]. cbn [fst snd]. now left.
        -- apply in_or_app. left. apply in_flat_map. exists c'. split; [assumption|]. right. now left.
      * unfold sel. fold n. rewrite C3. cbn [orb]. rewrite andb_true_r. apply N.ltb_lt. lia.
    + pose proof Hsel as Hsel0. unfold sel in Hsel. fold n in Hsel. rewrite Hm in Hsel. cbn [orb] in Hsel.
      apply andb_true_iff in Hsel. destruct Hsel as [_ Hsel].
      apply andb_true_iff in Hsel. destruct Hsel as [He _]. apply N.eqb_eq in He.
      exists c. split; [|split; assumption].
      apply filter_In. split; [|apply N.ltb_lt; lia].
      apply in_or_app. right. apply in_or_app. right. right. left. now symmetry.
Qed.

(* ---- the composite checker ---- *)
Lemma holds_pre_cons size bs q c t :
  holds_pre_plan size bs q (c :: t) =
    let items := c :: t in
    let ls := leaves_of_plan items in
    let cs := probe_chunks q size ls in
    pre_stack_ok items 1 && leaves_increasing items 0 && root_flag_first items &&
    forallb (fun c => match c with CLeaf s z _ _ => leaf_shape_ok size s z | _ => true end) items &&
    (match parse_pre (S (length items)) items 0 None with Some [] => true | _ => false end) &&
    forallb (fun c => implb (plan_sel q size c) (in_leaves ls c)) cs &&
    forallb (fun p => existsb (fun c => (fst p <=? c) && (c <? snd p) && plan_sel q size c) cs) ls &&
    true.
Proof. reflexivity. Qed.

Theorem holds_pre_plan_ok : forall size bs ml q, size <= 2 ^ 63 -> bs <= 10 -> wf_ranges q = true ->
  holds_pre_plan size bs q (pre_plan size bs ml q) = true.
Proof.
  intros size bs ml q Hsz Hbs Hwf.
  destruct q as [|b0 q0]; [rewrite pre_plan_nil; reflexivity|].
  set (q := b0 :: q0) in *. assert (Hne : q <> []) by discriminate. clearbody q. clear b0 q0.
  pose proof (pre_plan_nonempty size bs ml q Hsz Hbs Hwf Hne) as Hnil.
  pose proof (pre_stack_plan size bs ml q Hsz Hbs Hwf Hne) as H1.
  pose proof (pre_leaves_increasing_plan size bs ml q Hsz Hbs Hwf Hne) as H2.
  pose proof (pre_root_flag_plan size bs ml q Hsz Hbs Hwf Hne) as H3.
  pose proof (pre_leaf_shape_plan size bs ml q Hsz Hbs Hwf Hne) as H4.
  pose proof (pre_parse_plan size bs ml q Hsz Hbs Hwf Hne) as H5.
  pose proof (pre_cover_sel_plan size bs ml q Hsz Hbs Hwf Hne) as H6.
  pose proof (pre_cover_leaf_plan size bs ml q Hsz Hbs Hwf Hne) as H7.
  set (p := pre_plan size bs ml q) in *. clearbody p.
  destruct p as [|c t]; [congruence|]. clear Hnil.
  rewrite holds_pre_cons. cbv zeta.
  set (p := c :: t) in *. clearbody p. clear c t.
  rewrite H1, H2, H3, H5. cbn [andb].
  assert (E4 : forallb (fun c => match c with CLeaf s z _ _ => leaf_shape_ok size s z | _ => true end) p = true).
  { apply forallb_forall. intros [nd ir l r rs|s z ir rs] Hin; [reflexivity|]. now apply (H4 s z ir rs). }
  rewrite E4. cbn [andb].
  set (ls := leaves_of_plan p) in *. set (cs := probe_chunks q size ls).
  assert (E6 : forallb (fun c => implb (plan_sel q size c) (in_leaves ls c)) cs = true).
  { apply forallb_forall. intros x _. unfold plan_sel. destruct (sel q size x) eqn:Hx; [|reflexivity].
    rewrite (H6 x Hx). reflexivity. }
  rewrite E6. cbn [andb]. rewrite andb_true_r.
  apply forallb_forall. intros [lo hi] Hin. cbn [fst snd].
  destruct (H7 lo hi Hin) as (x & Hx & Hsel).
  destruct (probe_in q size ls lo hi x Hin Hx Hsel) as (x' & P1 & P2 & P3).
  apply existsb_exists. exists x'. split; [exact P1|].
  unfold plan_sel. rewrite P3, andb_true_r. apply andb_true_iff. split; [apply N.leb_le; lia|apply N.ltb_lt; lia].
Qed.

Print Assumptions holds_pre_plan_ok.
