(* C15 - traversal plans are well formed.  Statements only; proofs in Proofs/Plan*.v. *)
From BaoV Require Import Proofs.Compose.
From BaoV Require Import Model.Iter Spec.PlanSpec Spec.PlanWf.
From BaoV Require Import Proofs.PlanProps Proofs.PlanPreStruct Proofs.PlanPost Proofs.PlanPostIter Proofs.PlanPreHolds.

(* ---- A. stack machines = recursive specifications ---- *)
Theorem C15_pre_plan : forall size bs ml q, size <= 2 ^ 63 -> bs <= 10 -> wf_ranges q = true ->
  map without_ranges (pre_order_chunks_iter (mkTree size bs) q ml) = pre_plan size bs ml q.
Proof. exact c15_pre_plan. Qed.
Print Assumptions C15_pre_plan.

Theorem C15_response_plan : forall size bs q, size <= 2 ^ 63 -> bs <= 10 -> wf_ranges q = true ->
  response_iter (mkTree size bs) q = pre_plan size 0 bs q.
Proof. exact c15_response_plan. Qed.
Print Assumptions C15_response_plan.

(* the node iterator = Shape listing fact is proved separately; it is a hypothesis here *)
Theorem C15_post_plan_from_nodes : forall size bs, size <= 2 ^ 63 -> bs <= 10 ->
  let t := mkTree size bs in
  post_order_nodes_shifted (fst (shifted t)) (snd (shifted t)) = sh_post 65 0 (sp_blocks size bs) ->
  post_order_chunks_iter t = post_plan size bs.
Proof. exact post_plan_from_nodes. Qed.
Print Assumptions C15_post_plan_from_nodes.

(* ---- B. well-formedness of the recursive pre-order plan ---- *)
Theorem C15_pre_stack : forall size bs ml q, size <= 2 ^ 63 -> bs <= 10 -> wf_ranges q = true -> q <> [] ->
  pre_stack_ok (pre_plan size bs ml q) 1 = true.
Proof. exact pre_stack_plan. Qed.
Print Assumptions C15_pre_stack.

Theorem C15_pre_root_flag : forall size bs ml q, size <= 2 ^ 63 -> bs <= 10 -> wf_ranges q = true -> q <> [] ->
  root_flag_first (pre_plan size bs ml q) = true.
Proof. exact pre_root_flag_plan. Qed.
Print Assumptions C15_pre_root_flag.

Theorem C15_pre_leaves : forall size bs ml q, size <= 2 ^ 63 -> bs <= 10 -> wf_ranges q = true -> q <> [] ->
  leaves_increasing (pre_plan size bs ml q) 0 = true /\
  forall s z ir rs, In (CLeaf s z ir rs) (pre_plan size bs ml q) -> leaf_shape_ok size s z = true.
Proof. exact c15_pre_leaves. Qed.
Print Assumptions C15_pre_leaves.

Theorem C15_pre_structure : forall size bs ml q, size <= 2 ^ 63 -> bs <= 10 -> wf_ranges q = true -> q <> [] ->
  parse_pre (S (length (pre_plan size bs ml q))) (pre_plan size bs ml q) 0 None = Some [].
Proof. exact pre_parse_plan. Qed.
Print Assumptions C15_pre_structure.

Theorem C15_pre_cover : forall size bs ml q, size <= 2 ^ 63 -> bs <= 10 -> wf_ranges q = true -> q <> [] ->
  (forall c, sel q size c = true -> in_leaves (leaves_of_plan (pre_plan size bs ml q)) c = true) /\
  (forall lo hi, In (lo, hi) (leaves_of_plan (pre_plan size bs ml q)) ->
     exists c, lo <= c < hi /\ sel q size c = true).
Proof. exact c15_pre_cover. Qed.
Print Assumptions C15_pre_cover.

Theorem C15_holds_pre : forall size bs ml q, size <= 2 ^ 63 -> bs <= 10 -> wf_ranges q = true ->
  holds_pre_plan size bs q (pre_plan size bs ml q) = true.
Proof. exact holds_pre_plan_ok. Qed.
Print Assumptions C15_holds_pre.

(* ---- B. well-formedness of the recursive post-order plan ---- *)
Theorem C15_post_stack : forall size bs, size <= 2 ^ 63 -> bs <= 10 ->
  post_stack_ok (post_plan size bs) 0 = true.
Proof. exact post_stack_ok_plan. Qed.
Print Assumptions C15_post_stack.

Theorem C15_post_tiles : forall size bs, size <= 2 ^ 63 -> bs <= 10 ->
  post_tiles (post_plan size bs) 0 = Some (nchunks size).
Proof. exact post_tiles_plan. Qed.
Print Assumptions C15_post_tiles.

Theorem C15_post_struct : forall size bs, size <= 2 ^ 63 -> bs <= 10 ->
  post_struct (post_plan size bs) [] = true.
Proof. exact post_struct_plan. Qed.
Print Assumptions C15_post_struct.

Theorem C15_post_root_flag : forall size bs, size <= 2 ^ 63 -> bs <= 10 ->
  root_flag_last (post_plan size bs) = true.
Proof. exact post_root_flag_plan. Qed.
Print Assumptions C15_post_root_flag.

Theorem C15_holds_post : forall size bs, size <= 2 ^ 63 -> bs <= 10 ->
  holds_post_plan size bs (post_plan size bs) = true.
Proof. exact holds_post_plan_ok. Qed.
Print Assumptions C15_holds_post.

(* the post-order chunk iterator yields the recursive plan, unconditionally (L2 + L4 composed) *)
Theorem C15_post_plan : forall size bs, size <= 2 ^ 63 -> bs <= 10 ->
  post_order_chunks_iter (mkTree size bs) = post_plan size bs.
Proof. exact post_plan_refines. Qed.
Print Assumptions C15_post_plan.
