(* C15 - traversal plans are well formed.  Statements only; proofs in Proofs/. *)
From BaoV Require Import Model.Iter Spec.PlanSpec.
