(* C15 - traversal plans are well formed.  Statements only; proofs in Proofs/Plan*.v. *)
From BaoV Require Import Proofs.Compose.
From BaoV Require Import Model.Iter Spec.PlanSpec Spec.PlanWf.
From BaoV Require Import Proofs.PlanProps Proofs.PlanPreStruct Proofs.PlanPost Proofs.PlanPostIter Proofs.PlanPreHolds.

(* ---- A. stack machines = recursive specifications ---- *)
Theorem C15_pre_plan : forall size bs ml q, size <= 2 ^ 63 -> bs <= 10 -> wf_ranges q = true ->
  map without_ranges (pre_order_chunks_iter (mkTree size bs) q ml) = pre_plan size bs ml q.
Proof. exact c15_pre_plan. Qed.
Print Assumptions C15_pre_plan.

Theorem C15_response_plan : forall size bs q, size <= 2 ^ 63 -> bs <= 10 -> wf_ranges q = true ->
  response_iter (mkTree size bs) q = pre_plan size 0 bs q.
Proof. exact c15_response_plan. Qed.
Print Assumptions C15_response_plan.

(* the node iterator = Shape listing fact is proved separately; it is a hypothesis here *)
Theorem C15_post_plan_from_nodes : forall size bs, size <= 2 ^ 63 -> bs <= 10 ->
  let t := mkTree size bs in
  post_order_nodes_shifted (fst (shifted t)) (snd (shifted t)) = sh_post 65 0 (sp_blocks size bs) ->
  post_order_chunks_iter t = post_plan size bs.
Proof. exact post_plan_from_nodes. Qed.
Print Assumptions C15_post_plan_from_nodes.

(* ---- B. well-formedness of the recursive pre-order plan ---- *)
Theorem C15_pre_stack : forall size bs ml q, size <= 2 ^ 63 -> bs <= 10 -> wf_ranges q = true -> q <> [] ->
  pre_stack_ok (pre_plan size bs ml q) 1 = true.
Proof. exact pre_stack_plan. Qed.
Print Assumptions C15_pre_stack.

Theorem C15_pre_root_flag : forall size bs ml q, size <= 2 ^ 63 -> bs <= 10 -> wf_ranges q = true -> q <> [] ->
  root_flag_first (pre_plan size bs ml q) = true.
Proof. exact pre_root_flag_plan. Qed.
Print Assumptions C15_pre_root_flag.

Theorem C15_pre_leaves : forall size bs ml q, size <= 2 ^ 63 -> bs <= 10 -> wf_ranges q = true -> q <> [] ->
  leaves_increasing (pre_plan size bs ml q) 0 = true /\
  forall s z ir rs, In (CLeaf s z ir rs) (pre_plan size bs ml q) -> leaf_shape_ok size s z = true.
Proof. exact c15_pre_leaves. Qed.
Print Assumptions C15_pre_leaves.

Theorem C15_pre_structure : forall size bs ml q, size <= 2 ^ 63 -> bs <= 10 -> wf_ranges q = true -> q <> [] ->
  parse_pre (S (length (pre_plan size bs ml q))) (pre_plan size bs ml q) 0 None = Some [].
Proof. exact pre_parse_plan. Qed.
Print Assumptions C15_pre_structure.

Theorem C15_pre_cover : forall size bs ml q, size <= 2 ^ 63 -> bs <= 10 -> wf_ranges q = true -> q <> [] ->
  (forall c, sel q size c = true -> in_leaves (leaves_of_plan (pre_plan size bs ml q)) c = true) /\
  (forall lo hi, In (lo, hi) (leaves_of_plan (pre_plan size bs ml q)) ->
     exists c, lo <= c < hi /\ sel q size c = true).
Proof. exact c15_pre_cover. Qed.
Print Assumptions C15_pre_cover.

Theorem C15_holds_pre : forall size bs ml q, size <= 2 ^ 63 -> bs <= 10 -> wf_ranges q = true ->
  holds_pre_plan size bs q (pre_plan size bs ml q) = true.
Proof. exact holds_pre_plan_ok. Qed.
Print Assumptions C15_holds_pre.

(* ---- B. well-formedness of the recursive post-order plan ---- *)
Theorem C15_post_stack : forall size bs, size <= 2 ^ 63 -> bs <= 10 ->
  post_stack_ok (post_plan size bs) 0 = true.
Proof. exact post_stack_ok_plan. Qed.
Print Assumptions C15_post_stack.

Theorem C15_post_tiles : forall size bs, size <= 2 ^ 63 -> bs <= 10 ->
  post_tiles (post_plan size bs) 0 = Some (nchunks size).
Proof. exact post_tiles_plan. Qed.
Print Assumptions C15_post_tiles.

Theorem C15_post_struct : forall size bs, size <= 2 ^ 63 -> bs <= 10 ->
  post_struct (post_plan size bs) [] = true.
Proof. exact post_struct_plan. Qed.
Print Assumptions C15_post_struct.

Theorem C15_post_root_flag : forall size bs, size <= 2 ^ 63 -> bs <= 10 ->
  root_flag_last (post_plan size bs) = true.
Proof. exact post_root_flag_plan. Qed.
Print Assumptions C15_post_root_flag.

Theorem C15_holds_post : forall size bs, size <= 2 ^ 63 -> bs <= 10 ->
  holds_post_plan size bs (post_plan size bs) = true.
Proof. exact holds_post_plan_ok. Qed.
Print Assumptions C15_holds_post.

(* the post-order chunk iterator yields the recursive plan, unconditionally (L2 + L4 composed) *)
Theorem C15_post_plan : forall size bs, size <= 2 ^ 63 -> bs <= 10 ->
  post_order_chunks_iter (mkTree size bs) = post_plan size bs.
Proof. exact post_plan_refines. Qed.
Print Assumptions C15_post_plan.

(* ======== Gap audit: every clause as a theorem about the plans of the STACK MACHINES (proofs in Proofs/GapC15.v) ======== *)
From BaoV Require Import Proofs.GapC15.
Local Open Scope N_scope.

(* ---- C. ResponseIter versus the chunk iterator, with no hypothesis at all: ResponseIter over the tree
   (size, bs) is the partial chunk iterator over the block-size-0 tree with min level bs, ranges dropped ---- *)
Theorem C15_response_iter_is_chunk_iter : forall size bs q,
  response_iter (mkTree size bs) q = map without_ranges (pre_order_chunks_iter (mkTree size 0) q bs).
Proof. exact response_iter_is_chunk_iter. Qed.
Print Assumptions C15_response_iter_is_chunk_iter.

(* the empty query yields the empty plan (no hypothesis) *)
Theorem C15_pre_iter_empty : forall size bs ml, pre_order_chunks_iter (mkTree size bs) [] ml = [].
Proof. exact pre_iter_empty. Qed.
Print Assumptions C15_pre_iter_empty.

Theorem C15_response_iter_empty : forall size bs, response_iter (mkTree size bs) [] = [].
Proof. exact response_iter_empty. Qed.
Print Assumptions C15_response_iter_empty.

(* ---- D. all clauses, stated of the items the stack machines yield (any min level ml : N, block sizes 0..10) ---- *)
(* PreOrderPartialChunkIterRef (ranges_pre_order_chunks_iter_ref), items with their ranges field *)
Theorem C15_pre_iter_wf : forall size bs ml q, size <= 2 ^ 63 -> bs <= 10 -> wf_ranges q = true -> q <> [] ->
  let plan := pre_order_chunks_iter (mkTree size bs) q ml in
  plan <> [] /\
  pre_stack_ok plan 1 = true /\
  root_flag_first plan = true /\
  leaves_increasing plan 0 = true /\
  (forall s z ir rs, In (CLeaf s z ir rs) plan -> leaf_shape_ok size s z = true) /\
  parse_pre (S (length plan)) plan 0 None = Some [] /\
  (forall c, sel q size c = true -> in_leaves (leaves_of_plan plan) c = true) /\
  (forall lo hi, In (lo, hi) (leaves_of_plan plan) -> exists c, lo <= c < hi /\ sel q size c = true).
Proof. exact pre_iter_wf. Qed.
Print Assumptions C15_pre_iter_wf.

Theorem C15_pre_iter_holds : forall size bs ml q, size <= 2 ^ 63 -> bs <= 10 -> wf_ranges q = true ->
  holds_pre_plan size bs q (map without_ranges (pre_order_chunks_iter (mkTree size bs) q ml)) = true.
Proof. exact pre_iter_holds. Qed.
Print Assumptions C15_pre_iter_holds.

(* ResponseIter *)
Theorem C15_response_iter_wf : forall size bs q, size <= 2 ^ 63 -> bs <= 10 -> wf_ranges q = true -> q <> [] ->
  let plan := response_iter (mkTree size bs) q in
  plan <> [] /\
  pre_stack_ok plan 1 = true /\
  root_flag_first plan = true /\
  leaves_increasing plan 0 = true /\
  (forall s z ir rs, In (CLeaf s z ir rs) plan -> leaf_shape_ok size s z = true) /\
  parse_pre (S (length plan)) plan 0 None = Some [] /\
  (forall c, sel q size c = true -> in_leaves (leaves_of_plan plan) c = true) /\
  (forall lo hi, In (lo, hi) (leaves_of_plan plan) -> exists c, lo <= c < hi /\ sel q size c = true).
Proof. exact response_iter_wf. Qed.
Print Assumptions C15_response_iter_wf.

Theorem C15_response_iter_holds : forall size bs q, size <= 2 ^ 63 -> bs <= 10 -> wf_ranges q = true ->
  holds_pre_plan size 0 q (response_iter (mkTree size bs) q) = true.
Proof. exact response_iter_holds. Qed.
Print Assumptions C15_response_iter_holds.

(* PostOrderChunkIter: stack, root flag last, leaves tile the whole blob from chunk 0, every parent follows
   its two subtrees, every leaf is (the in-blob part of) one chunk group with the right byte size *)
Theorem C15_post_iter_wf : forall size bs, size <= 2 ^ 63 -> bs <= 10 ->
  let plan := post_order_chunks_iter (mkTree size bs) in
  post_stack_ok plan 0 = true /\
  root_flag_last plan = true /\
  post_tiles plan 0 = Some (nchunks size) /\
  post_struct plan [] = true /\
  (forall s z ir rs, In (CLeaf s z ir rs) plan ->
     z = span_bytes size s (s + leaf_chunks z) /\ s mod 2 ^ bs = 0 /\ leaf_chunks z <= 2 ^ bs) /\
  holds_post_plan size bs plan = true.
Proof. exact post_iter_wf. Qed.
Print Assumptions C15_post_iter_wf.

(* ---- E. granularity of the leaves and the EXACT cover (the two existing cover clauses only give "every selected
   chunk is in a leaf" and "every leaf holds a selected chunk").
   A leaf interval [lo, hi) is the in-blob part of ONE aligned block of 2^j chunks with bs <= j; a block larger than a
   chunk group (bs < j) only occurs below the min level (j <= ml) and is then selected in full: this is the
   min level / block size interaction. ---- *)
Theorem C15_pre_iter_gran : forall size bs ml q, size <= 2 ^ 63 -> bs <= 10 -> wf_ranges q = true ->
  forall lo hi, In (lo, hi) (leaves_of_plan (pre_order_chunks_iter (mkTree size bs) q ml)) ->
  exists j k, lo = k * 2 ^ j /\ hi = N.min (lo + 2 ^ j) (nchunks size) /\ lo < nchunks size /\ bs <= j /\
    (bs < j -> j <= ml /\ forall c, lo <= c < hi -> sel q size c = true).
Proof. exact pre_iter_gran. Qed.
Print Assumptions C15_pre_iter_gran.

(* the leaves cover exactly the in-blob chunks of the chunk groups the selection touches *)
Theorem C15_pre_iter_cover_exact : forall size bs ml q, size <= 2 ^ 63 -> bs <= 10 -> wf_ranges q = true ->
  forall c, in_leaves (leaves_of_plan (pre_order_chunks_iter (mkTree size bs) q ml)) c = true <->
            c < nchunks size /\ exists c', sel q size c' = true /\ c / 2 ^ bs = c' / 2 ^ bs.
Proof. exact pre_iter_cover_exact. Qed.
Print Assumptions C15_pre_iter_cover_exact.

(* ResponseIter (below the block size: chunks): leaves are single chunks, or fully selected aligned blocks of at
   most 2^bs chunks; they cover exactly the selected chunks *)
Theorem C15_response_iter_gran : forall size bs q, size <= 2 ^ 63 -> bs <= 10 -> wf_ranges q = true ->
  forall lo hi, In (lo, hi) (leaves_of_plan (response_iter (mkTree size bs) q)) ->
  exists j k, lo = k * 2 ^ j /\ hi = N.min (lo + 2 ^ j) (nchunks size) /\ lo < nchunks size /\ j <= bs /\
    (0 < j -> forall c, lo <= c < hi -> sel q size c = true).
Proof. exact response_iter_gran. Qed.
Print Assumptions C15_response_iter_gran.

Theorem C15_response_iter_cover_exact : forall size bs q, size <= 2 ^ 63 -> bs <= 10 -> wf_ranges q = true ->
  forall c, in_leaves (leaves_of_plan (response_iter (mkTree size bs) q)) c = true <-> sel q size c = true.
Proof. exact response_iter_cover_exact. Qed.
Print Assumptions C15_response_iter_cover_exact.

(* ResponseIter refines the chunk iterator of the same tree (whatever its min level) *)
Theorem C15_response_refines_chunk_iter : forall size bs ml q, size <= 2 ^ 63 -> bs <= 10 -> wf_ranges q = true ->
  forall lo hi, In (lo, hi) (leaves_of_plan (response_iter (mkTree size bs) q)) ->
  exists lo' hi', In (lo', hi') (leaves_of_plan (pre_order_chunks_iter (mkTree size bs) q ml)) /\ lo' <= lo /\ hi <= hi'.
Proof. exact response_refines_chunk_iter. Qed.
Print Assumptions C15_response_refines_chunk_iter.

(* a min level at or below the block size has no effect (no hypothesis on size or query for the recursive plan) *)
Theorem C15_pre_plan_ml_low : forall size bs ml q, ml <= bs -> pre_plan size bs ml q = pre_plan size bs 0 q.
Proof. exact pre_plan_ml_low. Qed.
Print Assumptions C15_pre_plan_ml_low.

Theorem C15_pre_iter_ml_low : forall size bs ml q, size <= 2 ^ 63 -> bs <= 10 -> wf_ranges q = true -> ml <= bs ->
  map without_ranges (pre_order_chunks_iter (mkTree size bs) q ml)
  = map without_ranges (pre_order_chunks_iter (mkTree size bs) q 0).
Proof. exact pre_iter_ml_low. Qed.
Print Assumptions C15_pre_iter_ml_low.

(* ... and above the block size it does matter *)
Theorem C15_pre_plan_ml_high_differs :
  pre_plan 4096 0 2 [0] = [CLeaf 0 4096 true []] /\
  pre_plan 4096 0 0 [0] <> pre_plan 4096 0 2 [0].
Proof. exact pre_plan_ml_high_differs. Qed.
Print Assumptions C15_pre_plan_ml_high_differs.

(* ---- F. the item carrying the root flag IS the root: the leaf holding the whole blob, or the parent whose chunk
   range starts at 0, contains the end of the blob and whose split point lies inside the blob ---- *)
Theorem C15_pre_iter_root_item : forall size bs ml q, size <= 2 ^ 63 -> bs <= 10 -> wf_ranges q = true -> q <> [] ->
  exists c rest, pre_order_chunks_iter (mkTree size bs) q ml = c :: rest /\
    match c with
    | CLeaf s z ir _ => s = 0 /\ z = size /\ ir = true
    | CParent nd ir _ _ _ => ir = true /\ sp_chunk_start nd = 0 /\ nd + 1 < nchunks size /\ nchunks size <= sp_chunk_end nd
    end.
Proof. exact pre_iter_root_item. Qed.
Print Assumptions C15_pre_iter_root_item.

Theorem C15_response_iter_root_item : forall size bs q, size <= 2 ^ 63 -> bs <= 10 -> wf_ranges q = true -> q <> [] ->
  exists c rest, response_iter (mkTree size bs) q = c :: rest /\
    match c with
    | CLeaf s z ir _ => s = 0 /\ z = size /\ ir = true
    | CParent nd ir _ _ _ => ir = true /\ sp_chunk_start nd = 0 /\ nd + 1 < nchunks size /\ nchunks size <= sp_chunk_end nd
    end.
Proof. exact response_iter_root_item. Qed.
Print Assumptions C15_response_iter_root_item.

Theorem C15_post_iter_root_item : forall size bs, size <= 2 ^ 63 -> bs <= 10 ->
  exists init c, post_order_chunks_iter (mkTree size bs) = init ++ [c] /\
    match c with
    | CLeaf s z ir _ => s = 0 /\ z = size /\ ir = true
    | CParent nd ir _ _ _ => ir = true /\ sp_chunk_start nd = 0 /\ nd + 1 < nchunks size /\ nchunks size <= sp_chunk_end nd
    end.
Proof. exact post_iter_root_item. Qed.
Print Assumptions C15_post_iter_root_item.

(* non-vacuity: concrete runs of the three stack machines (min level below / above the block size) *)
Theorem C15_gap_nonvacuous :
  (5000 <= 2 ^ 63 /\ 1 <= 10 /\ wf_ranges [1; 3] = true /\ [1; 3] <> @nil N /\
   pre_order_chunks_iter (mkTree 5000 1) [1; 3] 0 =
     [CParent 3 true true false [1; 3]; CParent 1 false true true [1; 3]; CLeaf 0 2048 false [1]; CLeaf 2 2048 false [1; 3]] /\
   response_iter (mkTree 5000 1) [1; 3] =
     [CParent 3 true true false []; CParent 1 false true true []; CParent 0 false false true []; CLeaf 1 1024 false [];
      CParent 2 false true false []; CLeaf 2 1024 false []] /\
   post_order_chunks_iter (mkTree 5000 1) =
     [CLeaf 0 2048 false []; CLeaf 2 2048 false []; CParent 1 false true true []; CLeaf 4 904 false []; CParent 3 true true true []]) /\
  (9000 <= 2 ^ 63 /\ wf_ranges [0; 6] = true /\ 1 < 3 /\
   pre_order_chunks_iter (mkTree 9000 1) [0; 6] 3 =
     [CParent 7 true true false [0; 6]; CParent 3 false true true [0; 6]; CLeaf 0 4096 false [0];
      CParent 5 false true false [0; 6]; CLeaf 4 2048 false [0]]).
Proof. exact gap_c15_nonvacuous. Qed.
Print Assumptions C15_gap_nonvacuous.
