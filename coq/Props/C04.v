(* C04 - the encoding is a function of the selected chunks; the block size only prunes pairs.
   Statements only; proofs in Proofs/Enc*.v.
     keep HO bs q size i (Proofs/EncPrune.v) = true for ILeaf items; for IParent n _ _ :
        negb ((sp_level n <? bs) &&
              forallb (sel q size) (chunk_range_list (sp_chunk_start n) (N.min (sp_chunk_end n) (nchunks size))))
     i.e. a pair is dropped iff its node is below the block size (2^(sp_level n + 1) <= 2^bs chunks of
     capacity) and all its chunks inside the blob are selected.
     enc_nodes, stored_ok, stored_ok_fsm: see Props/C02enc.v *)
From BaoV Require Import Model.Fsm Spec.RangeSpec Spec.NodeSpec Spec.PlanSpec Spec.EncSpec Spec.HashAssm.
From BaoV Require Import Proofs.EncLoop Proofs.EncThm Proofs.EncPrune Proofs.EncNodes.

Theorem C04_function_of_selection : forall (HO : hops) (data : bytes HO) (bs : N) (q1 q2 : ranges) (ob : outboard HO),
  wf_ranges q1 = true -> wf_ranges q2 = true -> blen HO data <= 2 ^ 63 -> bs <= 10 ->
  ob_tree ob = mkTree (blen HO data) bs -> ob_root ob = root_hash HO data -> beq_correct HO ->
  (forall c, sel q1 (blen HO data) c = sel q2 (blen HO data) c) ->
  (forall nd, In nd (enc_nodes (blen HO data) bs q1) -> stored_ok HO data ob nd) ->
  encode_ranges_validated HO data ob q1 = encode_ranges_validated HO data ob q2.
Proof. exact function_of_selection_one. Qed.
Print Assumptions C04_function_of_selection.

Theorem C04_function_of_selection_fsm : forall (HO : hops) (data : bytes HO) (bs : N) (q1 q2 : ranges) (ob : outboard HO),
  wf_ranges q1 = true -> wf_ranges q2 = true -> blen HO data <= 2 ^ 63 -> bs <= 10 ->
  ob_tree ob = mkTree (blen HO data) bs -> ob_root ob = root_hash HO data -> beq_correct HO ->
  (forall c, sel q1 (blen HO data) c = sel q2 (blen HO data) c) ->
  (forall nd, In nd (enc_nodes (blen HO data) bs q1) -> stored_ok_fsm HO data ob nd) ->
  encode_ranges_validated_fsm HO data ob q1 = encode_ranges_validated_fsm HO data ob q2.
Proof. exact function_of_selection_one_fsm. Qed.
Print Assumptions C04_function_of_selection_fsm.

(* the parents of the encoder's plan depend on the query only through the selection:
   sel_nodes size bs S (Proofs/EncNodes.v) = nspec 64 bs S 0 (nchunks size), the recursion over chunk intervals
   [a, b): none if b - a <= 2^bs or no chunk of [a, b) is selected, else the node a + h - 1
   (h = next_pow2 (b - a) / 2) followed by the nodes of [a, a + h) and of [a + h, b) *)
Theorem C04_enc_nodes_of_selection : forall (HO : hops) (data : bytes HO) (bs : N) (q : ranges),
  wf_ranges q = true -> blen HO data <= 2 ^ 63 -> bs <= 10 ->
  enc_nodes (blen HO data) bs q = sel_nodes (blen HO data) bs (sel q (blen HO data)).
Proof. exact enc_nodes_spec. Qed.
Print Assumptions C04_enc_nodes_of_selection.

Theorem C04_pruning : forall (HO : hops) (data : bytes HO) (bs : N) (q : ranges),
  blen HO data <= 2 ^ 63 ->
  flat HO (honest HO data bs q) = flat HO (filter (keep HO bs q (blen HO data)) (honest HO data 0 q)).
Proof. exact prune. Qed.
Print Assumptions C04_pruning.

Theorem C04_keep_def : forall (HO : hops) (bs : N) (q : ranges) (size : N) (i : item HO),
  keep HO bs q size i =
  match i with
  | ILeaf _ _ => true
  | IParent n _ _ =>
      negb ((sp_level n <? bs) &&
            forallb (sel q size) (chunk_range_list (sp_chunk_start n) (N.min (sp_chunk_end n) (nchunks size))))
  end.
Proof. exact keep_def. Qed.
Print Assumptions C04_keep_def.

(* ======== Final composition (proofs in Proofs/FinalEnc.v, Proofs/FinalBao.v) ======== *)
From BaoV Require Import Proofs.FinalEnc Proofs.FinalBao.

(* the parents of the encoder's plan are persisted nodes of the Shape: an intact store (C03_created_store_intact)
   serves every load the encoder makes *)
Theorem C04_enc_nodes_persisted : forall (size bs : N) (q : ranges), size <= 2 ^ 63 -> bs <= 10 ->
  wf_ranges q = true ->
  forall nd, In nd (enc_nodes size bs q) -> In nd (sp_pre_nodes size bs) /\ sp_persisted size bs nd = true.
Proof. exact c04_enc_nodes_persisted. Qed.
Print Assumptions C04_enc_nodes_persisted.

(* item_nodes l (Proofs/FinalBao.v) = the nodes of the IParent items of l, in order.
   The parent items of the honest encoding are the parents of the decoder's plan (block size 0, min level bs) *)
Theorem C04_honest_nodes : forall (HO : hops) (data : bytes HO) (bs : N) (q : ranges),
  wf_ranges q = true -> blen HO data <= 2 ^ 63 ->
  item_nodes (honest HO data bs q) = plan_nodes (pre_plan (blen HO data) 0 bs (truncate_ranges q (blen HO data))).
Proof. exact c04_honest_nodes. Qed.
Print Assumptions C04_honest_nodes.

(* at block size 0 nothing is pruned (keep is constantly true) and the honest encoding carries a pair for
   exactly the parents of the encoder's plan = the inner nodes of the selection: the plain bao layout *)
Theorem C04_bs0_is_bao_layout : forall (HO : hops) (data : bytes HO) (q : ranges),
  wf_ranges q = true -> blen HO data <= 2 ^ 63 ->
  (forall i : item HO, keep HO 0 q (blen HO data) i = true) /\
  filter (keep HO 0 q (blen HO data)) (honest HO data 0 q) = honest HO data 0 q /\
  item_nodes (honest HO data 0 q) = enc_nodes (blen HO data) 0 q /\
  item_nodes (honest HO data 0 q) = sel_nodes (blen HO data) 0 (sel q (blen HO data)).
Proof. exact c04_bs0_is_bao_layout. Qed.
Print Assumptions C04_bs0_is_bao_layout.

(* ======== Gap audit (proofs in Proofs/GapBao.v, Proofs/GapEncStore.v) ========
   Clause 1 of the property ("at block size 0 the encoding of a single range is bao's slice"), as far as it can be a
   theorem: the bao crate itself is outside the model, so bao's slice FORMAT is written down from the bao specification
   (size prefix excluded: the bao-tree 0.15 encoders do not write it) and the honest encoding / the five encoders are
   proved equal to it.
     bao_slice HO data start len : the slice of the content `data` for the byte range (start, len):
       the tree over n > 1 chunks of 1024 bytes has a left subtree over the largest power of two of chunks strictly
       below n (next_pow2 n / 2) and a right subtree over the rest; the combined encoding is pre-order, a parent node is
       cv(left) ++ cv(right) (32 bytes each, non-root chaining values), a leaf is the chunk's bytes; the slice keeps the
       subtrees that contain a chunk of [bao_lo, bao_hi) = the chunks holding a byte of [start, start + max len 1)
       clipped to the content; a slice starting at or past the end of the content keeps the path to the LAST chunk
       (an empty content has one empty chunk).  cv (Spec/EncSpec.v) is the BLAKE3 subtree chaining value (C03). *)
From BaoV Require Import Model.Sync Proofs.EncNonval Proofs.FinalStore Proofs.GapBao Proofs.GapEncStore.

Theorem C04_bao_slice_def : forall (HO : hops) (data : bytes HO) (start len : N),
  bao_slice HO data start len =
  bao_rec HO 64 data (bao_lo (blen HO data) start) (bao_hi (blen HO data) start len) 0 (nchunks (blen HO data)).
Proof. exact bao_slice_def. Qed.
Print Assumptions C04_bao_slice_def.

Theorem C04_bao_lo_def : forall size start : N,
  bao_lo size start = if start <? size then start / 1024 else nchunks size - 1.
Proof. exact bao_lo_def. Qed.
Print Assumptions C04_bao_lo_def.

Theorem C04_bao_hi_def : forall size start len : N,
  bao_hi size start len = if start <? size then (N.min (start + N.max len 1) size + 1023) / 1024 else nchunks size.
Proof. exact bao_hi_def. Qed.
Print Assumptions C04_bao_hi_def.

(* one step of the recursion over the subtree of chunks [a, b) (fuel 64 suffices for 2^63 bytes; fuel 0 gives []) *)
Theorem C04_bao_rec_step : forall (HO : hops) (f : nat) (data : bytes HO) (lo hi a b : N),
  bao_rec HO (S f) data lo hi a b =
    if (a <? hi) && (lo <? b) then
      if b - a <=? 1 then chunk_bytes HO data a b
      else cv HO data a (a + next_pow2 (b - a) / 2) false ++ cv HO data (a + next_pow2 (b - a) / 2) b false
           ++ bao_rec HO f data lo hi a (a + next_pow2 (b - a) / 2)
           ++ bao_rec HO f data lo hi (a + next_pow2 (b - a) / 2) b
    else [].
Proof. exact bao_rec_eq. Qed.
Print Assumptions C04_bao_rec_step.

Theorem C04_bao_rec_0 : forall (HO : hops) (data : bytes HO) (lo hi a b : N), bao_rec HO 0 data lo hi a b = [].
Proof. exact bao_rec_0. Qed.
Print Assumptions C04_bao_rec_0.

(* for a range of whole chunks [s, e): the slice covers chunks [s, min e nchunks) when chunk s is inside the content,
   and the last chunk otherwise *)
Theorem C04_bao_chunks : forall size s e : N, s < e ->
  bao_lo size (s * 1024) = (if s * 1024 <? size then s else nchunks size - 1) /\
  bao_hi size (s * 1024) ((e - s) * 1024) = (if s * 1024 <? size then N.min e (nchunks size) else nchunks size).
Proof. intros size s e H. split; [exact (bao_lo_chunks size s)|exact (bao_hi_chunks size s e H)]. Qed.
Print Assumptions C04_bao_chunks.

(* the honest encoding of EVERY single range at block size 0 is bao's slice: closed ranges [s, e) of chunks ... *)
Theorem C04_honest_bs0_is_bao_slice : forall (HO : hops) (data : bytes HO) (s e : N),
  blen HO data <= 2 ^ 63 -> s < e ->
  flat HO (honest HO data 0 [s; e]) = bao_slice HO data (s * 1024) ((e - s) * 1024).
Proof. exact honest_bs0_is_bao_slice_range. Qed.
Print Assumptions C04_honest_bs0_is_bao_slice.

(* ... and open ranges [s, infinity): any length that reaches the end of the content *)
Theorem C04_honest_bs0_is_bao_slice_open : forall (HO : hops) (data : bytes HO) (s len : N),
  blen HO data <= 2 ^ 63 -> blen HO data <= s * 1024 + len ->
  flat HO (honest HO data 0 [s]) = bao_slice HO data (s * 1024) len.
Proof. exact honest_bs0_is_bao_slice_open. Qed.
Print Assumptions C04_honest_bs0_is_bao_slice_open.

(* all five encoders (validating sync / fsm, item stream, non-validating sync / fsm) on a store created by the crate at
   block size 0 (created_store, Props/C03.v) emit bao's slice *)
Theorem C04_bs0_encoders_are_bao : forall (HO : hops), hash_ok HO ->
  forall (data : bytes HO), blen HO data <= 2 ^ 63 ->
  forall ob : outboard HO, created_store HO data 0 ob ->
  forall s e : N, s < e -> e < 2 ^ 64 ->
  let sl := bao_slice HO data (s * 1024) ((e - s) * 1024) in
  encode_ranges_validated HO data ob [s; e] = (Ok tt, sl) /\
  encode_ranges_validated_fsm HO data ob [s; e] = (Ok tt, sl) /\
  (exists its, traverse_ranges_validated HO data ob [s; e] = Some (ESize (blen HO data) :: map EItem its ++ [EDone]) /\
               concat (map (item_bytes HO) its) = sl) /\
  encode_ranges HO data ob [s; e] = (Ok tt, sl) /\
  encode_ranges_fsm HO data ob [s; e] = (Ok tt, sl).
Proof. exact bs0_encoders_are_bao_range. Qed.
Print Assumptions C04_bs0_encoders_are_bao.

Theorem C04_bs0_encoders_are_bao_open : forall (HO : hops), hash_ok HO ->
  forall (data : bytes HO), blen HO data <= 2 ^ 63 ->
  forall ob : outboard HO, created_store HO data 0 ob ->
  forall s len : N, s < 2 ^ 64 -> blen HO data <= s * 1024 + len ->
  let sl := bao_slice HO data (s * 1024) len in
  encode_ranges_validated HO data ob [s] = (Ok tt, sl) /\
  encode_ranges_validated_fsm HO data ob [s] = (Ok tt, sl) /\
  (exists its, traverse_ranges_validated HO data ob [s] = Some (ESize (blen HO data) :: map EItem its ++ [EDone]) /\
               concat (map (item_bytes HO) its) = sl) /\
  encode_ranges HO data ob [s] = (Ok tt, sl) /\
  encode_ranges_fsm HO data ob [s] = (Ok tt, sl).
Proof. exact bs0_encoders_are_bao_open. Qed.
Print Assumptions C04_bs0_encoders_are_bao_open.

(* Clause 3 for ALL encoders and without a premise on what the store holds: on a created store the output of the two
   validating encoders and of the item stream (bytes of its items), and under groups_full (Props/C08.v) of the two
   non-validating encoders, depends on the query only through the selected chunks *)
Theorem C04_function_of_selection_created : forall (HO : hops), hash_ok HO ->
  forall (data : bytes HO) (bs : N), blen HO data <= 2 ^ 63 -> bs <= 10 ->
  forall ob : outboard HO, created_store HO data bs ob ->
  forall q1 q2 : ranges, wf_ranges q1 = true -> wf_ranges q2 = true ->
  (forall c, sel q1 (blen HO data) c = sel q2 (blen HO data) c) ->
  encode_ranges_validated HO data ob q1 = encode_ranges_validated HO data ob q2 /\
  encode_ranges_validated_fsm HO data ob q1 = encode_ranges_validated_fsm HO data ob q2 /\
  (exists its1 its2,
     traverse_ranges_validated HO data ob q1 = Some (ESize (blen HO data) :: map EItem its1 ++ [EDone]) /\
     traverse_ranges_validated HO data ob q2 = Some (ESize (blen HO data) :: map EItem its2 ++ [EDone]) /\
     concat (map (item_bytes HO) its1) = concat (map (item_bytes HO) its2)) /\
  (groups_full bs q1 (blen HO data) ->
     encode_ranges HO data ob q1 = encode_ranges HO data ob q2 /\
     encode_ranges_fsm HO data ob q1 = encode_ranges_fsm HO data ob q2).
Proof. exact created_function_of_selection. Qed.
Print Assumptions C04_function_of_selection_created.

(* non-vacuity of the hypotheses above: the term-algebra hash (hash_ok), a blob of 3 chunks, its created store at block
   size 0, the slice of chunk 1 = two pairs and one chunk = 1152 bytes *)
From BaoV Require Import Proofs.DecWitness.
Theorem C04_gap_nonvacuous :
  exists (HO : hops) (data : bytes HO) (ob : outboard HO) (s e : N),
    hash_ok HO /\ blen HO data <= 2 ^ 63 /\ nchunks (blen HO data) = 3 /\ created_store HO data 0 ob /\
    s < e /\ e < 2 ^ 64 /\ wf_ranges [s; e] = true /\
    length (bao_slice HO data (s * 1024) ((e - s) * 1024)) = 1152%nat.
Proof.
  destruct gap_enc_nonvacuous as (A & B & C & D & E & _ & F & _).
  exists term_hops, nv_data, nv_ob, 1, 2.
  split; [exact A|]. split; [exact B|]. split; [exact C|]. split; [exact D|].
  split; [reflexivity|]. split; [reflexivity|]. split; [exact E|exact F].
Qed.
Print Assumptions C04_gap_nonvacuous.
