(* C04 - the encoding is a function of the selected chunks; the block size only prunes pairs.
   Statements only; proofs in Proofs/Enc*.v.
     keep HO bs q size i (Proofs/EncPrune.v) = true for ILeaf items; for IParent n _ _ :
        negb ((sp_level n <? bs) &&
              forallb (sel q size) (chunk_range_list (sp_chunk_start n) (N.min (sp_chunk_end n) (nchunks size))))
     i.e. a pair is dropped iff its node is below the block size (2^(sp_level n + 1) <= 2^bs chunks of
     capacity) and all its chunks inside the blob are selected.
     enc_nodes, stored_ok, stored_ok_fsm: see Props/C02enc.v *)
From BaoV Require Import Model.Fsm Spec.RangeSpec Spec.NodeSpec Spec.PlanSpec Spec.EncSpec Spec.HashAssm.
From BaoV Require Import Proofs.EncLoop Proofs.EncThm Proofs.EncPrune Proofs.EncNodes.

Theorem C04_function_of_selection : forall (HO : hops) (data : bytes HO) (bs : N) (q1 q2 : ranges) (ob : outboard HO),
  wf_ranges q1 = true -> wf_ranges q2 = true -> blen HO data <= 2 ^ 63 -> bs <= 10 ->
  ob_tree ob = mkTree (blen HO data) bs -> ob_root ob = root_hash HO data -> beq_correct HO ->
  (forall c, sel q1 (blen HO data) c = sel q2 (blen HO data) c) ->
  (forall nd, In nd (enc_nodes (blen HO data) bs q1) -> stored_ok HO data ob nd) ->
  encode_ranges_validated HO data ob q1 = encode_ranges_validated HO data ob q2.
Proof. exact function_of_selection_one. Qed.
Print Assumptions C04_function_of_selection.

Theorem C04_function_of_selection_fsm : forall (HO : hops) (data : bytes HO) (bs : N) (q1 q2 : ranges) (ob : outboard HO),
  wf_ranges q1 = true -> wf_ranges q2 = true -> blen HO data <= 2 ^ 63 -> bs <= 10 ->
  ob_tree ob = mkTree (blen HO data) bs -> ob_root ob = root_hash HO data -> beq_correct HO ->
  (forall c, sel q1 (blen HO data) c = sel q2 (blen HO data) c) ->
  (forall nd, In nd (enc_nodes (blen HO data) bs q1) -> stored_ok_fsm HO data ob nd) ->
  encode_ranges_validated_fsm HO data ob q1 = encode_ranges_validated_fsm HO data ob q2.
Proof. exact function_of_selection_one_fsm. Qed.
Print Assumptions C04_function_of_selection_fsm.

(* the parents of the encoder's plan depend on the query only through the selection:
   sel_nodes size bs S (Proofs/EncNodes.v) = nspec 64 bs S 0 (nchunks size), the recursion over chunk intervals
   [a, b): none if b - a <= 2^bs or no chunk of [a, b) is selected, else the node a + h - 1
   (h = next_pow2 (b - a) / 2) followed by the nodes of [a, a + h) and of [a + h, b) *)
Theorem C04_enc_nodes_of_selection : forall (HO : hops) (data : bytes HO) (bs : N) (q : ranges),
  wf_ranges q = true -> blen HO data <= 2 ^ 63 -> bs <= 10 ->
  enc_nodes (blen HO data) bs q = sel_nodes (blen HO data) bs (sel q (blen HO data)).
Proof. exact enc_nodes_spec. Qed.
Print Assumptions C04_enc_nodes_of_selection.

Theorem C04_pruning : forall (HO : hops) (data : bytes HO) (bs : N) (q : ranges),
  blen HO data <= 2 ^ 63 ->
  flat HO (honest HO data bs q) = flat HO (filter (keep HO bs q (blen HO data)) (honest HO data 0 q)).
Proof. exact prune. Qed.
Print Assumptions C04_pruning.

Theorem C04_keep_def : forall (HO : hops) (bs : N) (q : ranges) (size : N) (i : item HO),
  keep HO bs q size i =
  match i with
  | ILeaf _ _ => true
  | IParent n _ _ =>
      negb ((sp_level n <? bs) &&
            forallb (sel q size) (chunk_range_list (sp_chunk_start n) (N.min (sp_chunk_end n) (nchunks size))))
  end.
Proof. exact keep_def. Qed.
Print Assumptions C04_keep_def.

(* ======== Final composition (proofs in Proofs/FinalEnc.v, Proofs/FinalBao.v) ======== *)
From BaoV Require Import Proofs.FinalEnc Proofs.FinalBao.

(* the parents of the encoder's plan are persisted nodes of the Shape: an intact store (C03_created_store_intact)
   serves every load the encoder makes *)
Theorem C04_enc_nodes_persisted : forall (size bs : N) (q : ranges), size <= 2 ^ 63 -> bs <= 10 ->
  wf_ranges q = true ->
  forall nd, In nd (enc_nodes size bs q) -> In nd (sp_pre_nodes size bs) /\ sp_persisted size bs nd = true.
Proof. exact c04_enc_nodes_persisted. Qed.
Print Assumptions C04_enc_nodes_persisted.

(* item_nodes l (Proofs/FinalBao.v) = the nodes of the IParent items of l, in order.
   The parent items of the honest encoding are the parents of the decoder's plan (block size 0, min level bs) *)
Theorem C04_honest_nodes : forall (HO : hops) (data : bytes HO) (bs : N) (q : ranges),
  wf_ranges q = true -> blen HO data <= 2 ^ 63 ->
  item_nodes (honest HO data bs q) = plan_nodes (pre_plan (blen HO data) 0 bs (truncate_ranges q (blen HO data))).
Proof. exact c04_honest_nodes. Qed.
Print Assumptions C04_honest_nodes.

(* at block size 0 nothing is pruned (keep is constantly true) and the honest encoding carries a pair for
   exactly the parents of the encoder's plan = the inner nodes of the selection: the plain bao layout *)
Theorem C04_bs0_is_bao_layout : forall (HO : hops) (data : bytes HO) (q : ranges),
  wf_ranges q = true -> blen HO data <= 2 ^ 63 ->
  (forall i : item HO, keep HO 0 q (blen HO data) i = true) /\
  filter (keep HO 0 q (blen HO data)) (honest HO data 0 q) = honest HO data 0 q /\
  item_nodes (honest HO data 0 q) = enc_nodes (blen HO data) 0 q /\
  item_nodes (honest HO data 0 q) = sel_nodes (blen HO data) 0 (sel q (blen HO data)).
Proof. exact c04_bs0_is_bao_layout. Qed.
Print Assumptions C04_bs0_is_bao_layout.
