(* C08 - the encoders agree with each other and with the specification.  Statements only; proofs in
   Proofs/Enc*.v.
     plan_nodes l (Proofs/EncLoop.v)             = the nodes of the parent items of a plan
     enc_nodes size bs q, stored_ok, stored_ok_fsm: see Props/C02enc.v
     enc_nodes_raw size bs q (Proofs/EncNonval.v) = plan_nodes (pre_plan size bs 0 q)  (no truncation)
     groups_full bs q size                        = every chunk group touched by sel q size is fully
                                                    selected (inside the blob) *)
From BaoV Require Import Model.Fsm Spec.RangeSpec Spec.PlanSpec Spec.EncSpec Spec.HashAssm.
From BaoV Require Import Proofs.EncLoop Proofs.EncThm Proofs.EncNonval.

(* the item stream of mixed.rs on an intact store *)
Theorem C08_mixed_frame : forall (HO : hops) (data : bytes HO) (bs : N) (q : ranges),
  wf_ranges q = true -> blen HO data <= 2 ^ 63 -> bs <= 10 ->
  forall ob : outboard HO,
  ob_tree ob = mkTree (blen HO data) bs -> ob_root ob = root_hash HO data ->
  beq_correct HO ->
  (forall nd, In nd (enc_nodes (blen HO data) bs q) -> stored_ok HO data ob nd) ->
  exists its, traverse_ranges_validated HO data ob q = Some (ESize (blen HO data) :: map EItem its ++ [EDone]) /\
              concat (map (item_bytes HO) its) = flat HO (honest HO data bs q).
Proof. exact c08_mixed_frame. Qed.
Print Assumptions C08_mixed_frame.

(* the three validating loops are the same function of the store: any data, any outboard *)
Theorem C08_encode_agree : forall (HO : hops) (data' : bytes HO) (ob : outboard HO) (q : ranges),
  let t := ob_tree ob in
  (forall nd, In nd (plan_nodes (pre_order_chunks_iter t (truncate_ranges q (tsize t)) 0)) ->
     load_sync HO ob nd = load_fsm HO ob nd) ->
  (q <> [] -> encode_ranges_validated HO data' ob q = encode_ranges_validated_fsm HO data' ob q) /\
  exists its, concat (map (item_bytes HO) its) = snd (encode_ranges_validated HO data' ob q) /\
    traverse_ranges_validated HO data' ob q =
    match fst (encode_ranges_validated HO data' ob q) with
    | Ok _ => Some (ESize (tsize t) :: map EItem its ++ [EDone])
    | Err e => Some (ESize (tsize t) :: map EItem its ++ [EError e])
    | Panic => None
    end.
Proof. exact c08_encode_agree. Qed.
Print Assumptions C08_encode_agree.

(* the premise of C08_encode_agree holds for the memory and empty outboards, and for the io-backed ones at
   every node the sync loader reads without error *)
Theorem C08_load_agree_mem : forall (HO : hops) (ob : outboard HO) (nd : N),
  ob_k ob = PreMem \/ ob_k ob = PostMem \/ ob_k ob = EmptyOb -> load_sync HO ob nd = load_fsm HO ob nd.
Proof. exact load_agree_mem. Qed.
Print Assumptions C08_load_agree_mem.

Theorem C08_load_agree_io : forall (HO : hops) (ob : outboard HO) (nd : N) (x : option (hash HO * hash HO)),
  load_sync HO ob nd = Ok x -> load_fsm HO ob nd = Ok x.
Proof. exact load_agree_io. Qed.
Print Assumptions C08_load_agree_io.

(* the non-validating encoders on an intact store, when every touched chunk group is fully selected *)
Theorem C08_nonvalidating_eq_validating : forall (HO : hops) (data : bytes HO) (bs : N) (q : ranges),
  wf_ranges q = true -> blen HO data <= 2 ^ 63 -> bs <= 10 ->
  forall ob : outboard HO,
  ob_tree ob = mkTree (blen HO data) bs ->
  groups_full bs q (blen HO data) ->
  (forall nd, In nd (enc_nodes_raw (blen HO data) bs q) -> stored_ok HO data ob nd) ->
  encode_ranges HO data ob q = (Ok tt, flat HO (honest HO data bs q)).
Proof. exact c08_nonval_sync. Qed.
Print Assumptions C08_nonvalidating_eq_validating.

Theorem C08_nonvalidating_eq_validating_fsm : forall (HO : hops) (data : bytes HO) (bs : N) (q : ranges),
  wf_ranges q = true -> blen HO data <= 2 ^ 63 -> bs <= 10 ->
  forall ob : outboard HO,
  ob_tree ob = mkTree (blen HO data) bs ->
  groups_full bs q (blen HO data) ->
  (forall nd, In nd (enc_nodes_raw (blen HO data) bs q) -> stored_ok_fsm HO data ob nd) ->
  encode_ranges_fsm HO data ob q = (Ok tt, flat HO (honest HO data bs q)).
Proof. exact c08_nonval_fsm. Qed.
Print Assumptions C08_nonvalidating_eq_validating_fsm.

Theorem C08_groups_full_def : forall bs q size,
  groups_full bs q size <->
  (forall c c', sel q size c = true -> c' / 2 ^ bs = c / 2 ^ bs -> c' < nchunks size -> sel q size c' = true).
Proof. exact groups_full_def. Qed.
Print Assumptions C08_groups_full_def.

Theorem C08_enc_nodes_raw_def : forall size bs q,
  enc_nodes_raw size bs q = plan_nodes (pre_plan size bs 0 q).
Proof. exact enc_nodes_raw_def. Qed.
Print Assumptions C08_enc_nodes_raw_def.

(* F6: without groups_full the non-validating encoders differ from the honest encoding (and from the
   validating encoder) on an intact store *)
Theorem C08_nonvalidating_refuted :
  exists (HO : hops) (data : bytes HO) (bs : N) (ob : outboard HO) (q : ranges),
    beq_correct HO /\ wf_ranges q = true /\ q <> [] /\ blen HO data <= 2 ^ 63 /\ bs <= 10 /\
    ob_tree ob = mkTree (blen HO data) bs /\ ob_root ob = root_hash HO data /\
    (forall nd, In nd (enc_nodes_raw (blen HO data) bs q) -> stored_ok HO data ob nd) /\
    (forall nd, In nd (enc_nodes (blen HO data) bs q) -> stored_ok HO data ob nd) /\
    encode_ranges_validated HO data ob q = (Ok tt, flat HO (honest HO data bs q)) /\
    length (snd (encode_ranges HO data ob q)) <> length (flat HO (honest HO data bs q)) /\
    length (snd (encode_ranges_fsm HO data ob q)) <> length (flat HO (honest HO data bs q)).
Proof. exact c08_nonvalidating_refuted. Qed.
Print Assumptions C08_nonvalidating_refuted.

(* ======== Final composition (proofs in Proofs/FinalAgree.v): sync and fsm agree ======== *)
From BaoV Require Import Model.Sync Proofs.DecForest Proofs.E2EDecode Proofs.FinalAgree.
From Coq Require Import Arith.

(* creation: the sync and fsm creation loops are the same function, for every kind, tree, store and data
   (no size bound is needed; that both equal the specified outboard is C03_created_entry_points) *)
Theorem C08_outboard_agree : forall (HO : hops) (data : bytes HO),
  (forall (k : ob_kind) (size bs : N), create_sized HO k data size bs = create_sized_fsm HO k data size bs) /\
  (forall ob : outboard HO, init_from HO ob data = init_from_fsm HO ob data) /\
  (forall (t : tree) (ob : outboard HO), outboard_impl HO t data ob = outboard_impl_fsm HO t data ob) /\
  (forall t : tree, outboard_post_order HO t data = outboard_post_order_fsm HO t data).
Proof. exact c08_outboard_agree. Qed.
Print Assumptions C08_outboard_agree.

(* decoding: on EVERY stream the two decoders (set up for the blob's root and tree and a well-formed query,
   the empty one included) yield the same items and end with the same outcome (Finished, or Failed with the
   same error) *)
Theorem C08_decode_agree : forall (HO : hops), hash_ok HO ->
  forall (data : bytes HO) (bs : N) (q : ranges),
  blen HO data <= 2 ^ 63 -> bs <= 10 -> wf_ranges q = true ->
  forall (stream : bytes HO) ys1 o1 st1 ys2 o2 st2,
  dec_run HO (dec_new HO (root_hash HO data) (mkTree (blen HO data) bs) stream q) = (ys1, o1, st1) ->
  rd_run HO (rd_new HO (root_hash HO data) q (mkTree (blen HO data) bs) stream) = (ys2, o2, st2) ->
  ys1 = ys2 /\ o1 = o2.
Proof. exact c08_decode_agree. Qed.
Print Assumptions C08_decode_agree.

(* the case analysis behind it, for a non-empty query: either the stream starts with the whole honest
   encoding (both decoders yield all honest items, finish and leave the rest), or it agrees with the honest
   encoding on exactly d bytes (lcp_len, Proofs/DecForest.v), byte d lies in item k, and both decoders yield
   the first k items and fail naming item k (item_err, Props/C09.v: NotFound iff the stream ends before item k does) *)
Theorem C08_decode_cases : forall (HO : hops), hash_ok HO ->
  forall (data : bytes HO) (bs : N) (q : ranges),
  blen HO data <= 2 ^ 63 -> bs <= 10 -> wf_ranges q = true -> q <> [] ->
  forall stream : bytes HO,
  (exists rest, stream = flat HO (honest HO data bs q) ++ rest /\
     (exists st, dec_run HO (dec_new HO (root_hash HO data) (mkTree (blen HO data) bs) stream q)
                 = (honest HO data bs q, Finished, st) /\ d_enc HO st = rest) /\
     (exists st, rd_run HO (rd_new HO (root_hash HO data) q (mkTree (blen HO data) bs) stream)
                 = (honest HO data bs q, Finished, st) /\ Fsm.r_enc HO st = rest)) \/
  (exists (d k : nat) (it : item HO),
     (d < length (flat HO (honest HO data bs q)))%nat /\ lcp_len HO stream (flat HO (honest HO data bs q)) d /\
     (length (flat HO (firstn k (honest HO data bs q))) <= d)%nat /\
     (d < length (flat HO (firstn (S k) (honest HO data bs q))))%nat /\
     nth_error (honest HO data bs q) k = Some it /\
     (forall ys o st,
        dec_run HO (dec_new HO (root_hash HO data) (mkTree (blen HO data) bs) stream q) = (ys, o, st) ->
        ys = firstn k (honest HO data bs q) /\
        o = Failed (item_err HO (length stream <? length (flat HO (firstn (S k) (honest HO data bs q))))%nat it)) /\
     (forall ys o st,
        rd_run HO (rd_new HO (root_hash HO data) q (mkTree (blen HO data) bs) stream) = (ys, o, st) ->
        ys = firstn k (honest HO data bs q) /\
        o = Failed (item_err HO (length stream <? length (flat HO (firstn (S k) (honest HO data bs q))))%nat it))).
Proof. exact c08_decode_cases. Qed.
Print Assumptions C08_decode_cases.

(* every stream has a longest common prefix with any byte list (decidable byte equality) *)
Theorem C08_lcp_exists : forall (HO : hops), beq_correct HO -> forall h s : bytes HO,
  (exists r, s = h ++ r) \/ (exists d, (d < length h)%nat /\ lcp_len HO s h d).
Proof. exact lcp_exists. Qed.
Print Assumptions C08_lcp_exists.
