(* C08 statements; proofs in Proofs/. *)
From BaoV Require Import Model.Fsm Spec.EncSpec.
