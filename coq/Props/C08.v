(* C08 - the encoders agree with each other and with the specification.  Statements only; proofs in
   Proofs/Enc*.v.
     plan_nodes l (Proofs/EncLoop.v)             = the nodes of the parent items of a plan
     enc_nodes size bs q, stored_ok, stored_ok_fsm: see Props/C02enc.v
     enc_nodes_raw size bs q (Proofs/EncNonval.v) = plan_nodes (pre_plan size bs 0 q)  (no truncation)
     groups_full bs q size                        = every chunk group touched by sel q size is fully
                                                    selected (inside the blob) *)
From BaoV Require Import Model.Fsm Spec.RangeSpec Spec.PlanSpec Spec.EncSpec Spec.HashAssm.
From BaoV Require Import Proofs.EncLoop Proofs.EncThm Proofs.EncNonval.

(* the item stream of mixed.rs on an intact store *)
Theorem C08_mixed_frame : forall (HO : hops) (data : bytes HO) (bs : N) (q : ranges),
  wf_ranges q = true -> blen HO data <= 2 ^ 63 -> bs <= 10 ->
  forall ob : outboard HO,
  ob_tree ob = mkTree (blen HO data) bs -> ob_root ob = root_hash HO data ->
  beq_correct HO ->
  (forall nd, In nd (enc_nodes (blen HO data) bs q) -> stored_ok HO data ob nd) ->
  exists its, traverse_ranges_validated HO data ob q = Some (ESize (blen HO data) :: map EItem its ++ [EDone]) /\
              concat (map (item_bytes HO) its) = flat HO (honest HO data bs q).
Proof. exact c08_mixed_frame. Qed.
Print Assumptions C08_mixed_frame.

(* the three validating loops are the same function of the store: any data, any outboard *)
Theorem C08_encode_agree : forall (HO : hops) (data' : bytes HO) (ob : outboard HO) (q : ranges),
  let t := ob_tree ob in
  (forall nd, In nd (plan_nodes (pre_order_chunks_iter t (truncate_ranges q (tsize t)) 0)) ->
     load_sync HO ob nd = load_fsm HO ob nd) ->
  (q <> [] -> encode_ranges_validated HO data' ob q = encode_ranges_validated_fsm HO data' ob q) /\
  exists its, concat (map (item_bytes HO) its) = snd (encode_ranges_validated HO data' ob q) /\
    traverse_ranges_validated HO data' ob q =
    match fst (encode_ranges_validated HO data' ob q) with
    | Ok _ => Some (ESize (tsize t) :: map EItem its ++ [EDone])
    | Err e => Some (ESize (tsize t) :: map EItem its ++ [EError e])
    | Panic => None
    end.
Proof. exact c08_encode_agree. Qed.
Print Assumptions C08_encode_agree.

(* the premise of C08_encode_agree holds for the memory and empty outboards, and for the io-backed ones at
   every node the sync loader reads without error *)
Theorem C08_load_agree_mem : forall (HO : hops) (ob : outboard HO) (nd : N),
  ob_k ob = PreMem \/ ob_k ob = PostMem \/ ob_k ob = EmptyOb -> load_sync HO ob nd = load_fsm HO ob nd.
Proof. exact load_agree_mem. Qed.
Print Assumptions C08_load_agree_mem.

Theorem C08_load_agree_io : forall (HO : hops) (ob : outboard HO) (nd : N) (x : option (hash HO * hash HO)),
  load_sync HO ob nd = Ok x -> load_fsm HO ob nd = Ok x.
Proof. exact load_agree_io. Qed.
Print Assumptions C08_load_agree_io.

(* the non-validating encoders on an intact store, when every touched chunk group is fully selected *)
Theorem C08_nonvalidating_eq_validating : forall (HO : hops) (data : bytes HO) (bs : N) (q : ranges),
  wf_ranges q = true -> blen HO data <= 2 ^ 63 -> bs <= 10 ->
  forall ob : outboard HO,
  ob_tree ob = mkTree (blen HO data) bs ->
  groups_full bs q (blen HO data) ->
  (forall nd, In nd (enc_nodes_raw (blen HO data) bs q) -> stored_ok HO data ob nd) ->
  encode_ranges HO data ob q = (Ok tt, flat HO (honest HO data bs q)).
Proof. exact c08_nonval_sync. Qed.
Print Assumptions C08_nonvalidating_eq_validating.

Theorem C08_nonvalidating_eq_validating_fsm : forall (HO : hops) (data : bytes HO) (bs : N) (q : ranges),
  wf_ranges q = true -> blen HO data <= 2 ^ 63 -> bs <= 10 ->
  forall ob : outboard HO,
  ob_tree ob = mkTree (blen HO data) bs ->
  groups_full bs q (blen HO data) ->
  (forall nd, In nd (enc_nodes_raw (blen HO data) bs q) -> stored_ok_fsm HO data ob nd) ->
  encode_ranges_fsm HO data ob q = (Ok tt, flat HO (honest HO data bs q)).
Proof. exact c08_nonval_fsm. Qed.
Print Assumptions C08_nonvalidating_eq_validating_fsm.

Theorem C08_groups_full_def : forall bs q size,
  groups_full bs q size <->
  (forall c c', sel q size c = true -> c' / 2 ^ bs = c / 2 ^ bs -> c' < nchunks size -> sel q size c' = true).
Proof. exact groups_full_def. Qed.
Print Assumptions C08_groups_full_def.

Theorem C08_enc_nodes_raw_def : forall size bs q,
  enc_nodes_raw size bs q = plan_nodes (pre_plan size bs 0 q).
Proof. exact enc_nodes_raw_def. Qed.
Print Assumptions C08_enc_nodes_raw_def.

(* F6: without groups_full the non-validating encoders differ from the honest encoding (and from the
   validating encoder) on an intact store *)
Theorem C08_nonvalidating_refuted :
  exists (HO : hops) (data : bytes HO) (bs : N) (ob : outboard HO) (q : ranges),
    beq_correct HO /\ wf_ranges q = true /\ q <> [] /\ blen HO data <= 2 ^ 63 /\ bs <= 10 /\
    ob_tree ob = mkTree (blen HO data) bs /\ ob_root ob = root_hash HO data /\
    (forall nd, In nd (enc_nodes_raw (blen HO data) bs q) -> stored_ok HO data ob nd) /\
    (forall nd, In nd (enc_nodes (blen HO data) bs q) -> stored_ok HO data ob nd) /\
    encode_ranges_validated HO data ob q = (Ok tt, flat HO (honest HO data bs q)) /\
    length (snd (encode_ranges HO data ob q)) <> length (flat HO (honest HO data bs q)) /\
    length (snd (encode_ranges_fsm HO data ob q)) <> length (flat HO (honest HO data bs q)).
Proof. exact c08_nonvalidating_refuted. Qed.
Print Assumptions C08_nonvalidating_refuted.

(* ======== Final composition (proofs in Proofs/FinalAgree.v): sync and fsm agree ======== *)
From BaoV Require Import Model.Sync Proofs.DecForest Proofs.E2EDecode Proofs.FinalAgree.
From Coq Require Import Arith.

(* creation: the sync and fsm creation loops are the same function, for every kind, tree, store and data
   (no size bound is needed; that both equal the specified outboard is C03_created_entry_points) *)
Theorem C08_outboard_agree : forall (HO : hops) (data : bytes HO),
  (forall (k : ob_kind) (size bs : N), create_sized HO k data size bs = create_sized_fsm HO k data size bs) /\
  (forall ob : outboard HO, init_from HO ob data = init_from_fsm HO ob data) /\
  (forall (t : tree) (ob : outboard HO), outboard_impl HO t data ob = outboard_impl_fsm HO t data ob) /\
  (forall t : tree, outboard_post_order HO t data = outboard_post_order_fsm HO t data).
Proof. exact c08_outboard_agree. Qed.
Print Assumptions C08_outboard_agree.

(* decoding: on EVERY stream the two decoders (set up for the blob's root and tree and a well-formed query,
   the empty one included) yield the same items and end with the same outcome (Finished, or Failed with the
   same error) *)
Theorem C08_decode_agree : forall (HO : hops), hash_ok HO ->
  forall (data : bytes HO) (bs : N) (q : ranges),
  blen HO data <= 2 ^ 63 -> bs <= 10 -> wf_ranges q = true ->
  forall (stream : bytes HO) ys1 o1 st1 ys2 o2 st2,
  dec_run HO (dec_new HO (root_hash HO data) (mkTree (blen HO data) bs) stream q) = (ys1, o1, st1) ->
  rd_run HO (rd_new HO (root_hash HO data) q (mkTree (blen HO data) bs) stream) = (ys2, o2, st2) ->
  ys1 = ys2 /\ o1 = o2.
Proof. exact c08_decode_agree. Qed.
Print Assumptions C08_decode_agree.

(* the case analysis behind it, for a non-empty query: either the stream starts with the whole honest
   encoding (both decoders yield all honest items, finish and leave the rest), or it agrees with the honest
   encoding on exactly d bytes (lcp_len, Proofs/DecForest.v), byte d lies in item k, and both decoders yield
   the first k items and fail naming item k (item_err, Props/C09.v: NotFound iff the stream ends before item k does) *)
Theorem C08_decode_cases : forall (HO : hops), hash_ok HO ->
  forall (data : bytes HO) (bs : N) (q : ranges),
  blen HO data <= 2 ^ 63 -> bs <= 10 -> wf_ranges q = true -> q <> [] ->
  forall stream : bytes HO,
  (exists rest, stream = flat HO (honest HO data bs q) ++ rest /\
     (exists st, dec_run HO (dec_new HO (root_hash HO data) (mkTree (blen HO data) bs) stream q)
                 = (honest HO data bs q, Finished, st) /\ d_enc HO st = rest) /\
     (exists st, rd_run HO (rd_new HO (root_hash HO data) q (mkTree (blen HO data) bs) stream)
                 = (honest HO data bs q, Finished, st) /\ Fsm.r_enc HO st = rest)) \/
  (exists (d k : nat) (it : item HO),
     (d < length (flat HO (honest HO data bs q)))%nat /\ lcp_len HO stream (flat HO (honest HO data bs q)) d /\
     (length (flat HO (firstn k (honest HO data bs q))) <= d)%nat /\
     (d < length (flat HO (firstn (S k) (honest HO data bs q))))%nat /\
     nth_error (honest HO data bs q) k = Some it /\
     (forall ys o st,
        dec_run HO (dec_new HO (root_hash HO data) (mkTree (blen HO data) bs) stream q) = (ys, o, st) ->
        ys = firstn k (honest HO data bs q) /\
        o = Failed (item_err HO (length stream <? length (flat HO (firstn (S k) (honest HO data bs q))))%nat it)) /\
     (forall ys o st,
        rd_run HO (rd_new HO (root_hash HO data) q (mkTree (blen HO data) bs) stream) = (ys, o, st) ->
        ys = firstn k (honest HO data bs q) /\
        o = Failed (item_err HO (length stream <? length (flat HO (firstn (S k) (honest HO data bs q))))%nat it))).
Proof. exact c08_decode_cases. Qed.
Print Assumptions C08_decode_cases.

(* every stream has a longest common prefix with any byte list (decidable byte equality) *)
Theorem C08_lcp_exists : forall (HO : hops), beq_correct HO -> forall h s : bytes HO,
  (exists r, s = h ++ r) \/ (exists d, (d < length h)%nat /\ lcp_len HO s h d).
Proof. exact lcp_exists. Qed.
Print Assumptions C08_lcp_exists.

(* ======== Gap audit (proofs in Proofs/GapEnc.v, Proofs/GapEncStore.v, Proofs/GapStores.v, Proofs/GapDecAgree.v) ========
   - the item stream IS the sync validating encoder, item by item, on every store: no premise (C08_encode_agree states it
     under a premise about load_fsm it does not need);
   - sync / fsm validating encoders: they agree whenever no sync load of a parent of the plan fails, and they DISAGREE on
     an io-backed outboard whose byte vector is truncated (finding, witness below);
   - all five encoders on a created store; all creation entry points and the loads of all store kinds agree;
   - decode_ranges (sync) and decode_ranges (fsm) agree on every stream. *)
From BaoV Require Import Spec.NodeSpec Proofs.HistOb Proofs.FinalStore Proofs.GapEnc Proofs.GapEncStore Proofs.GapStores
  Proofs.GapDecAgree.

Theorem C08_mixed_is_sync : forall (HO : hops) (data' : bytes HO) (ob : outboard HO) (q : ranges),
  exists its : list (item HO),
    encode_ranges_validated HO data' ob q
      = (fst (encode_ranges_validated HO data' ob q), concat (map (item_bytes HO) its)) /\
    traverse_ranges_validated HO data' ob q =
    match fst (encode_ranges_validated HO data' ob q) with
    | Ok _ => Some (ESize (tsize (ob_tree ob)) :: map EItem its ++ [EDone])
    | Err e => Some (ESize (tsize (ob_tree ob)) :: map EItem its ++ [EError e])
    | Panic => None
    end.
Proof. exact trv_erv. Qed.
Print Assumptions C08_mixed_is_sync.

(* any store, any data file: same result and same bytes from the sync and fsm validating encoders as soon as every
   sync load of a parent of the plan returns (Ok: a pair or "no slot") *)
Theorem C08_encode_agree_loads : forall (HO : hops) (data' : bytes HO) (ob : outboard HO) (q : ranges),
  q <> [] ->
  (forall nd, In nd (plan_nodes (pre_order_chunks_iter (ob_tree ob) (truncate_ranges q (tsize (ob_tree ob))) 0)) ->
     exists x, load_sync HO ob nd = Ok x) ->
  encode_ranges_validated HO data' ob q = encode_ranges_validated_fsm HO data' ob q.
Proof. exact encode_agree_loads. Qed.
Print Assumptions C08_encode_agree_loads.

(* FINDING: that premise is needed.  An io-backed pre-order outboard (PreOrderOutboard over a file / Vec) whose byte
   vector holds only its first pair (`full` is the blob's complete outboard, 128 bytes; the store holds take 64 full):
   the blob's own data, query = everything, block size 0, 3 chunks, collision-free hash.  sync::encode_ranges_validated
   sends the root pair and returns Err (Io UnexpectedEof) (read_exact_at on the short file); fsm::encode_ranges_validated
   sends the same 64 bytes and returns Err (ParentHashMismatch 0): its load turns a short read into a pair of zero
   hashes (src/io/fsm.rs:157-168, 290-301: `if content.len() != 64 { zero pair }`).  Same store, same query: different
   error variants - the clause "for a store with altered bytes the same error variant at the same node" fails for
   truncated io-backed outboards. *)
Theorem C08_truncated_io_disagree :
  exists (HO : hops) (data : bytes HO) (bs : N) (ob : outboard HO) (q : ranges) (out : bytes HO),
    hash_ok HO /\ blen HO data <= 2 ^ 63 /\ bs <= 10 /\ wf_ranges q = true /\ q <> [] /\
    ob_k ob = PreIO /\ ob_tree ob = mkTree (blen HO data) bs /\ ob_root ob = root_hash HO data /\
    (exists full, created_store HO data bs (mkOb PreIO (ob_root ob) (ob_tree ob) full) /\
                  ob_data ob = take HO 64 full /\ blen HO full = 128) /\
    encode_ranges_validated HO data ob q = (Err (EIo KUnexpectedEof), out) /\
    encode_ranges_validated_fsm HO data ob q = (Err (EParentHashMismatch 0), out) /\
    length out = 64%nat.
Proof. exact truncated_io_disagree. Qed.
Print Assumptions C08_truncated_io_disagree.

(* on a store created by the crate (created_store, Props/C03.v) and the blob's own data all five encoders return Ok;
   the validating ones and the item stream send the honest encoding for every well-formed query, the non-validating
   ones do so when every touched chunk group is fully selected (groups_full; what they send otherwise: see the exact
   characterisation C08_nonvalidating_exact below) *)
Theorem C08_created_five : forall (HO : hops), hash_ok HO ->
  forall (data : bytes HO) (bs : N), blen HO data <= 2 ^ 63 -> bs <= 10 ->
  forall ob : outboard HO, created_store HO data bs ob ->
  forall q : ranges, wf_ranges q = true ->
  encode_ranges_validated HO data ob q = (Ok tt, flat HO (honest HO data bs q)) /\
  encode_ranges_validated_fsm HO data ob q = (Ok tt, flat HO (honest HO data bs q)) /\
  (exists its, traverse_ranges_validated HO data ob q = Some (ESize (blen HO data) :: map EItem its ++ [EDone]) /\
               concat (map (item_bytes HO) its) = flat HO (honest HO data bs q)) /\
  (groups_full bs q (blen HO data) ->
     encode_ranges HO data ob q = (Ok tt, flat HO (honest HO data bs q)) /\
     encode_ranges_fsm HO data ob q = (Ok tt, flat HO (honest HO data bs q))).
Proof. exact created_five. Qed.
Print Assumptions C08_created_five.

(* creation: every entry point against every other (created_by, Props/C03.v: the six entry points);
   is_post k = true for PostIO / PostMem *)
Theorem C08_creation_agree : forall (HO : hops), cv_len32 HO ->
  forall (data : bytes HO) (bs : N), blen HO data <= 2 ^ 63 -> bs <= 10 ->
  (outboard_post_order HO (mkTree (blen HO data) bs) data
     = (Ok (root_hash HO data), spec_outboard HO true data bs, []) /\
   outboard_post_order_fsm HO (mkTree (blen HO data) bs) data
     = (Ok (root_hash HO data), spec_outboard HO true data bs, [])) /\
  (forall ob1 ob2 : outboard HO, created_by HO data bs ob1 -> created_by HO data bs ob2 ->
     ob_root ob1 = ob_root ob2 /\ ob_tree ob1 = ob_tree ob2 /\
     (is_post (ob_k ob1) = is_post (ob_k ob2) -> ob_data ob1 = ob_data ob2) /\
     (is_post (ob_k ob1) = true ->
        outboard_post_order HO (mkTree (blen HO data) bs) data = (Ok (ob_root ob1), ob_data ob1, [])) /\
     (forall nd, In nd (sp_pre_nodes (blen HO data) bs) ->
        load_sync HO ob1 nd = load_sync HO ob2 nd /\ load_fsm HO ob1 nd = load_fsm HO ob2 nd /\
        load_sync HO ob1 nd = load_fsm HO ob1 nd)) /\
  (forall ob0 ob : outboard HO,
     (ob_k ob0 = PreIO \/ ob_k ob0 = PostIO \/ ob_k ob0 = PreMem \/ ob_k ob0 = PostMem) ->
     ob_tree ob0 = mkTree (blen HO data) bs ->
     blen HO (ob_data ob0) = (sp_blocks (blen HO data) bs - 1) * 64 ->
     created_by HO data bs ob -> ob_k ob = ob_k ob0 ->
     init_from HO ob0 data = Ok ob /\ init_from_fsm HO ob0 data = Ok ob).
Proof. exact creation_agree. Qed.
Print Assumptions C08_creation_agree.

(* the fifth store kind: EmptyOutboard has a slot exactly where the other four kinds store a pair (the persisted nodes of
   the tree), and loads a pair of zero hashes there, sync and fsm alike.  With C03_created_store_intact: on the nodes of
   the tree all five kinds agree on which nodes have a pair, and the four real kinds agree on the pair *)
Theorem C08_empty_outboard_loads : forall (HO : hops) (size bs : N) (ob : outboard HO),
  size <= 2 ^ 63 -> bs <= 10 -> ob_k ob = EmptyOb -> ob_tree ob = mkTree size bs ->
  forall nd, In nd (sp_pre_nodes size bs) ->
  load_sync HO ob nd = Ok (if sp_persisted size bs nd then Some (zero_pair HO) else None) /\
  load_fsm HO ob nd = Ok (if sp_persisted size bs nd then Some (zero_pair HO) else None).
Proof. exact empty_ob_loads. Qed.
Print Assumptions C08_empty_outboard_loads.

(* decode_ranges of sync.rs and of fsm.rs on EVERY stream (honest, truncated, tampered), any target, any outboard
   carrying the blob's root and tree, any well-formed query (the empty one included): same result (Ok / the same error),
   same target bytes, same outboard *)
Theorem C08_decode_ranges_agree : forall (HO : hops), hash_ok HO ->
  forall (data : bytes HO) (bs : N) (q : ranges),
  blen HO data <= 2 ^ 63 -> bs <= 10 -> wf_ranges q = true ->
  forall (stream target : bytes HO) (ob : outboard HO),
  ob_root ob = root_hash HO data -> ob_tree ob = mkTree (blen HO data) bs ->
  exists (r : res dec_err unit) (target' : bytes HO) (ob' : outboard HO) st1 st2,
    decode_ranges HO stream q target ob = (r, target', ob', st1) /\
    decode_ranges_fsm HO stream q target ob = (r, target', ob', st2).
Proof. exact decode_ranges_agree. Qed.
Print Assumptions C08_decode_ranges_agree.

(* ======== Gap audit: the exact output of the NON-VALIDATING encoders (finding F6 made precise;
   proofs in Proofs/GapNonval.v, Proofs/GapNonvalW.v, Proofs/GapNonvalX.v) ========
   The clause "the non-validating encoders produce the same bytes as the validating ones on an intact
   store" is false in general (C08_nonvalidating_refuted).  What holds for EVERY well-formed query:
     - encode_ranges / encode_ranges_fsm on an intact store emit exactly nv_spec (C08_nonvalidating_exact):
       per interval nothing if no chunk is selected, the bytes of the WHOLE interval if it is at most one
       chunk group (whatever part of the group is selected; no inner hash pairs), the true pair and the two
       halves otherwise; per unit of the plan: C08_nonvalidating_units;
     - nv_spec is the HONEST encoding of the selection widened to whole chunk groups
       (C08_nv_is_widened_honest), i.e. of a well-formed SUPERSET query q' (C08_nonvalidating_is_honest_superset):
       a receiver that asked for q is sent a valid encoding of q', which the decoders set up for q' accept
       (C08_nonvalidating_decodes_as_superset);
     - widening is the identity exactly under groups_full (C08_widen_id_iff), and the item list flattened by
       the non-validating encoders is the honest item list of q exactly under groups_full
       (C08_nonvalidating_items_iff);
     - as byte strings the two encoders agree iff the two flattened specifications agree, which groups_full
       implies (C08_nonvalidating_eq_validating_iff_spec); for an arbitrary hash instance groups_full is NOT
       necessary for equal bytes (C08_nonvalidating_eq_without_groups_full: the hash values happen to equal
       the data); cv_injective alone does not exclude such a coincidence (it is a fixed point condition on
       the hash), so no byte-level "only if" is stated. *)
From BaoV Require Import Spec.NodeSpec Proofs.FinalStore Proofs.GapNonval Proofs.GapNonvalW Proofs.GapNonvalX.

(* ---- the specification objects ---- *)
Theorem C08_nv_rec_unfold : forall (HO : hops) (f : nat) (data : bytes HO) (bs : N) (S0 : N -> bool) (a b : N),
  nv_rec HO 0 data bs S0 a b = [] /\
  nv_rec HO (S f) data bs S0 a b =
    if negb (existsb S0 (chunk_range_list a b)) then []
    else if b - a <=? 2 ^ bs then chunk_bytes HO data a b
    else
      cv HO data a (a + next_pow2 (b - a) / 2) false ++ cv HO data (a + next_pow2 (b - a) / 2) b false
        ++ nv_rec HO f data bs S0 a (a + next_pow2 (b - a) / 2)
        ++ nv_rec HO f data bs S0 (a + next_pow2 (b - a) / 2) b.
Proof. intros. split; [reflexivity|apply nv_rec_unfold]. Qed.
Print Assumptions C08_nv_rec_unfold.

(* with the fuel of nv_spec the recursion is an equation on every interval of at most 2^63 chunks *)
Theorem C08_nv_rec_eq : forall (HO : hops) (data : bytes HO) (bs : N) (S0 : N -> bool) (a b : N),
  b - a <= 2 ^ 63 ->
  nv_rec HO 64 data bs S0 a b =
    if negb (existsb S0 (chunk_range_list a b)) then []
    else if b - a <=? 2 ^ bs then chunk_bytes HO data a b
    else
      cv HO data a (a + next_pow2 (b - a) / 2) false ++ cv HO data (a + next_pow2 (b - a) / 2) b false
        ++ nv_rec HO 64 data bs S0 a (a + next_pow2 (b - a) / 2)
        ++ nv_rec HO 64 data bs S0 (a + next_pow2 (b - a) / 2) b.
Proof. exact nv_rec_eq. Qed.
Print Assumptions C08_nv_rec_eq.

Theorem C08_nv_spec_def : forall (HO : hops) (data : bytes HO) (bs : N) (S0 : N -> bool),
  nv_spec HO data bs S0 = nv_rec HO 64 data bs S0 0 (nchunks (blen HO data)).
Proof. exact nv_spec_def. Qed.
Print Assumptions C08_nv_spec_def.

Theorem C08_nv_unit_def : forall (HO : hops) (data : bytes HO) (bs : N) (c : chunk),
  nv_unit HO data bs c =
  match c with
  | CParent nd _ _ _ _ => fst (true_pair HO data nd) ++ snd (true_pair HO data nd)
  | CLeaf s _ _ _ => chunk_bytes HO data s (N.min (s + 2 ^ bs) (nchunks (blen HO data)))
  end.
Proof. exact nv_unit_def. Qed.
Print Assumptions C08_nv_unit_def.

Theorem C08_widen_def : forall (bs size : N) (Sel : N -> bool) (c : N),
  widen bs size Sel c =
  (c <? nchunks size) &&
  existsb Sel (chunk_range_list (c / 2 ^ bs * 2 ^ bs) (N.min ((c / 2 ^ bs + 1) * 2 ^ bs) (nchunks size))).
Proof. exact widen_def. Qed.
Print Assumptions C08_widen_def.

(* ---- the exact output, for every well-formed query (no groups_full premise; the empty query gives []) ---- *)
Theorem C08_nonvalidating_exact : forall (HO : hops) (data : bytes HO) (bs : N) (q : ranges),
  wf_ranges q = true -> blen HO data <= 2 ^ 63 -> bs <= 10 ->
  forall ob : outboard HO, ob_tree ob = mkTree (blen HO data) bs ->
  ((forall nd, In nd (enc_nodes_raw (blen HO data) bs q) -> stored_ok HO data ob nd) ->
   encode_ranges HO data ob q = (Ok tt, nv_spec HO data bs (sel q (blen HO data)))) /\
  ((forall nd, In nd (enc_nodes_raw (blen HO data) bs q) -> stored_ok_fsm HO data ob nd) ->
   encode_ranges_fsm HO data ob q = (Ok tt, nv_spec HO data bs (sel q (blen HO data)))).
Proof. exact nonval_exact. Qed.
Print Assumptions C08_nonvalidating_exact.

(* unit by unit: for every leaf unit of the plan of the raw query the bytes of the whole chunk group
   (clipped to the blob), whatever the query selects in it; for every parent unit the true pair *)
Theorem C08_nonvalidating_units : forall (HO : hops) (data : bytes HO) (bs : N) (q : ranges),
  wf_ranges q = true -> blen HO data <= 2 ^ 63 -> bs <= 10 ->
  forall ob : outboard HO, ob_tree ob = mkTree (blen HO data) bs ->
  ((forall nd, In nd (enc_nodes_raw (blen HO data) bs q) -> stored_ok HO data ob nd) ->
   encode_ranges HO data ob q
   = (Ok tt, concat (map (nv_unit HO data bs) (pre_order_chunks_iter (mkTree (blen HO data) bs) q 0)))) /\
  ((forall nd, In nd (enc_nodes_raw (blen HO data) bs q) -> stored_ok_fsm HO data ob nd) ->
   encode_ranges_fsm HO data ob q
   = (Ok tt, concat (map (nv_unit HO data bs) (pre_order_chunks_iter (mkTree (blen HO data) bs) q 0)))).
Proof. exact nonval_leaf_units. Qed.
Print Assumptions C08_nonvalidating_units.

(* the parents of the plan of the raw query are persisted nodes, so a created store is intact for them *)
Theorem C08_enc_nodes_raw_persisted : forall (size bs : N) (q : ranges), size <= 2 ^ 63 -> bs <= 10 ->
  wf_ranges q = true ->
  forall nd, In nd (enc_nodes_raw size bs q) -> In nd (sp_pre_nodes size bs) /\ sp_persisted size bs nd = true.
Proof. exact enc_nodes_raw_persisted. Qed.
Print Assumptions C08_enc_nodes_raw_persisted.

Theorem C08_nonvalidating_exact_created : forall (HO : hops), cv_len32 HO ->
  forall (data : bytes HO) (bs : N), blen HO data <= 2 ^ 63 -> bs <= 10 ->
  forall ob : outboard HO, created_store HO data bs ob ->
  forall q : ranges, wf_ranges q = true ->
  encode_ranges HO data ob q = (Ok tt, nv_spec HO data bs (sel q (blen HO data))) /\
  encode_ranges_fsm HO data ob q = (Ok tt, nv_spec HO data bs (sel q (blen HO data))) /\
  nv_spec HO data bs (sel q (blen HO data))
    = flat HO (enc_spec HO data bs (widen bs (blen HO data) (sel q (blen HO data)))).
Proof. exact nonval_exact_created. Qed.
Print Assumptions C08_nonvalidating_exact_created.

(* ---- what these bytes are: the honest encoding of the widened selection ---- *)
Theorem C08_nv_is_widened_honest : forall (HO : hops) (data : bytes HO) (bs : N) (Sel : N -> bool),
  blen HO data <= 2 ^ 63 ->
  nv_spec HO data bs Sel = flat HO (enc_spec HO data bs (widen bs (blen HO data) Sel)).
Proof. exact nv_is_widened_honest. Qed.
Print Assumptions C08_nv_is_widened_honest.

Theorem C08_widen_id_iff : forall (bs : N) (q : ranges) (size : N),
  groups_full bs q size <-> (forall c, widen bs size (sel q size) c = sel q size c).
Proof. exact widen_id_iff. Qed.
Print Assumptions C08_widen_id_iff.

Theorem C08_nonvalidating_is_honest_superset : forall (HO : hops) (data : bytes HO) (bs : N) (q : ranges),
  blen HO data <= 2 ^ 63 ->
  exists q', wf_ranges q' = true /\
    (forall c, sel q' (blen HO data) c = widen bs (blen HO data) (sel q (blen HO data)) c) /\
    (forall c, sel q (blen HO data) c = true -> sel q' (blen HO data) c = true) /\
    (q <> [] -> wf_ranges q = true -> q' <> []) /\
    ((forall c, sel q' (blen HO data) c = sel q (blen HO data) c) <-> groups_full bs q (blen HO data)) /\
    nv_spec HO data bs (sel q (blen HO data)) = flat HO (honest HO data bs q').
Proof. exact nonval_is_honest_superset. Qed.
Print Assumptions C08_nonvalidating_is_honest_superset.

Theorem C08_nonvalidating_decodes_as_superset : forall (HO : hops), hash_ok HO ->
  forall (data : bytes HO) (bs : N), blen HO data <= 2 ^ 63 -> bs <= 10 ->
  forall ob : outboard HO, created_store HO data bs ob ->
  forall q : ranges, wf_ranges q = true -> q <> [] ->
  exists q', wf_ranges q' = true /\ q' <> [] /\
    (forall c, sel q' (blen HO data) c = widen bs (blen HO data) (sel q (blen HO data)) c) /\
    encode_ranges HO data ob q = (Ok tt, flat HO (honest HO data bs q')) /\
    encode_ranges_fsm HO data ob q = (Ok tt, flat HO (honest HO data bs q')) /\
    forall rest : bytes HO,
      (exists st, dec_run HO (dec_new HO (ob_root ob) (ob_tree ob) (flat HO (honest HO data bs q') ++ rest) q')
                  = (honest HO data bs q', Finished, st) /\ d_enc HO st = rest) /\
      (exists st, rd_run HO (rd_new HO (ob_root ob) q' (ob_tree ob) (flat HO (honest HO data bs q') ++ rest))
                  = (honest HO data bs q', Finished, st) /\ Fsm.r_enc HO st = rest).
Proof. exact nonval_decodes_as_superset. Qed.
Print Assumptions C08_nonvalidating_decodes_as_superset.

(* ---- exactly when the two kinds of encoders coincide ---- *)
(* as item lists: iff groups_full *)
Theorem C08_nonvalidating_items_iff : forall (HO : hops) (data : bytes HO) (bs : N) (q : ranges),
  blen HO data <= 2 ^ 63 ->
  (enc_spec HO data bs (widen bs (blen HO data) (sel q (blen HO data))) = honest HO data bs q
   <-> groups_full bs q (blen HO data)).
Proof. exact nonval_items_iff. Qed.
Print Assumptions C08_nonvalidating_items_iff.

(* as byte strings, on a store intact for both plans: iff the flattened specifications coincide;
   groups_full is sufficient *)
Theorem C08_nonvalidating_eq_validating_iff_spec : forall (HO : hops) (data : bytes HO) (bs : N) (q : ranges),
  wf_ranges q = true -> blen HO data <= 2 ^ 63 -> bs <= 10 ->
  forall ob : outboard HO,
  ob_tree ob = mkTree (blen HO data) bs -> ob_root ob = root_hash HO data -> beq_correct HO ->
  (forall nd, In nd (enc_nodes_raw (blen HO data) bs q) -> stored_ok HO data ob nd /\ stored_ok_fsm HO data ob nd) ->
  (forall nd, In nd (enc_nodes (blen HO data) bs q) -> stored_ok HO data ob nd /\ stored_ok_fsm HO data ob nd) ->
  (snd (encode_ranges HO data ob q) = snd (encode_ranges_validated HO data ob q) <->
   flat HO (enc_spec HO data bs (widen bs (blen HO data) (sel q (blen HO data)))) = flat HO (honest HO data bs q)) /\
  (snd (encode_ranges_fsm HO data ob q) = snd (encode_ranges_validated_fsm HO data ob q) <->
   flat HO (enc_spec HO data bs (widen bs (blen HO data) (sel q (blen HO data)))) = flat HO (honest HO data bs q)) /\
  (groups_full bs q (blen HO data) ->
   flat HO (enc_spec HO data bs (widen bs (blen HO data) (sel q (blen HO data)))) = flat HO (honest HO data bs q)).
Proof. exact nonval_eq_validating_iff_spec. Qed.
Print Assumptions C08_nonvalidating_eq_validating_iff_spec.

(* groups_full is not necessary for equal BYTES when nothing is assumed of the hash: a created store, a
   query cutting through a chunk group, and all three encoders emit the same bytes *)
Theorem C08_nonvalidating_eq_without_groups_full :
  exists (HO : hops) (data : bytes HO) (bs : N) (ob : outboard HO) (q : ranges),
    cv_len32 HO /\ beq_correct HO /\ created_store HO data bs ob /\
    wf_ranges q = true /\ q <> [] /\ blen HO data <= 2 ^ 63 /\ bs <= 10 /\
    ~ groups_full bs q (blen HO data) /\
    encode_ranges_validated HO data ob q = (Ok tt, flat HO (honest HO data bs q)) /\
    encode_ranges HO data ob q = (Ok tt, flat HO (honest HO data bs q)) /\
    encode_ranges_fsm HO data ob q = (Ok tt, flat HO (honest HO data bs q)).
Proof. exact nonval_eq_without_groups_full. Qed.
Print Assumptions C08_nonvalidating_eq_without_groups_full.

(* nonvacuity: a created store whose plan has a parent, a query cutting through a chunk group, all the
   premises of the theorems above, and the bytes sent (2112) are not the honest ones (1152) *)
Theorem C08_nonvalidating_exact_nonvacuous :
  exists (HO : hops) (data : bytes HO) (bs : N) (ob : outboard HO) (q : ranges),
    cv_len32 HO /\ beq_correct HO /\ created_store HO data bs ob /\
    wf_ranges q = true /\ q <> [] /\ blen HO data <= 2 ^ 63 /\ bs <= 10 /\
    ob_tree ob = mkTree (blen HO data) bs /\ ob_root ob = root_hash HO data /\
    enc_nodes_raw (blen HO data) bs q <> [] /\
    (forall nd, In nd (enc_nodes_raw (blen HO data) bs q) -> stored_ok HO data ob nd /\ stored_ok_fsm HO data ob nd) /\
    (forall nd, In nd (enc_nodes (blen HO data) bs q) -> stored_ok HO data ob nd /\ stored_ok_fsm HO data ob nd) /\
    ~ groups_full bs q (blen HO data) /\
    length (nv_spec HO data bs (sel q (blen HO data))) = 2112%nat /\
    length (flat HO (honest HO data bs q)) = 1152%nat.
Proof. exact nonval_exact_nonvacuous. Qed.
Print Assumptions C08_nonvalidating_exact_nonvacuous.
