(* C08 - the encoders agree with each other and with the specification.  Statements only; proofs in
   Proofs/Enc*.v.
     plan_nodes l (Proofs/EncLoop.v)             = the nodes of the parent items of a plan
     enc_nodes size bs q, stored_ok, stored_ok_fsm: see Props/C02enc.v
     enc_nodes_raw size bs q (Proofs/EncNonval.v) = plan_nodes (pre_plan size bs 0 q)  (no truncation)
     groups_full bs q size                        = every chunk group touched by sel q size is fully
                                                    selected (inside the blob) *)
From BaoV Require Import Model.Fsm Spec.RangeSpec Spec.PlanSpec Spec.EncSpec Spec.HashAssm.
From BaoV Require Import Proofs.EncLoop Proofs.EncThm Proofs.EncNonval.

(* the item stream of mixed.rs on an intact store *)
Theorem C08_mixed_frame : forall (HO : hops) (data : bytes HO) (bs : N) (q : ranges),
  wf_ranges q = true -> blen HO data <= 2 ^ 63 -> bs <= 10 ->
  forall ob : outboard HO,
  ob_tree ob = mkTree (blen HO data) bs -> ob_root ob = root_hash HO data ->
  beq_correct HO ->
  (forall nd, In nd (enc_nodes (blen HO data) bs q) -> stored_ok HO data ob nd) ->
  exists its, traverse_ranges_validated HO data ob q = Some (ESize (blen HO data) :: map EItem its ++ [EDone]) /\
              concat (map (item_bytes HO) its) = flat HO (honest HO data bs q).
Proof. exact c08_mixed_frame. Qed.
Print Assumptions C08_mixed_frame.

(* the three validating loops are the same function of the store: any data, any outboard *)
Theorem C08_encode_agree : forall (HO : hops) (data' : bytes HO) (ob : outboard HO) (q : ranges),
  let t := ob_tree ob in
  (forall nd, In nd (plan_nodes (pre_order_chunks_iter t (truncate_ranges q (tsize t)) 0)) ->
     load_sync HO ob nd = load_fsm HO ob nd) ->
  (q <> [] -> encode_ranges_validated HO data' ob q = encode_ranges_validated_fsm HO data' ob q) /\
  exists its, concat (map (item_bytes HO) its) = snd (encode_ranges_validated HO data' ob q) /\
    traverse_ranges_validated HO data' ob q =
    match fst (encode_ranges_validated HO data' ob q) with
    | Ok _ => Some (ESize (tsize t) :: map EItem its ++ [EDone])
    | Err e => Some (ESize (tsize t) :: map EItem its ++ [EError e])
    | Panic => None
    end.
Proof. exact c08_encode_agree. Qed.
Print Assumptions C08_encode_agree.

(* the premise of C08_encode_agree holds for the memory and empty outboards, and for the io-backed ones at
   every node the sync loader reads without error *)
Theorem C08_load_agree_mem : forall (HO : hops) (ob : outboard HO) (nd : N),
  ob_k ob = PreMem \/ ob_k ob = PostMem \/ ob_k ob = EmptyOb -> load_sync HO ob nd = load_fsm HO ob nd.
Proof. exact load_agree_mem. Qed.
Print Assumptions C08_load_agree_mem.

Theorem C08_load_agree_io : forall (HO : hops) (ob : outboard HO) (nd : N) (x : option (hash HO * hash HO)),
  load_sync HO ob nd = Ok x -> load_fsm HO ob nd = Ok x.
Proof. exact load_agree_io. Qed.
Print Assumptions C08_load_agree_io.

(* the non-validating encoders on an intact store, when every touched chunk group is fully selected *)
Theorem C08_nonvalidating_eq_validating : forall (HO : hops) (data : bytes HO) (bs : N) (q : ranges),
  wf_ranges q = true -> blen HO data <= 2 ^ 63 -> bs <= 10 ->
  forall ob : outboard HO,
  ob_tree ob = mkTree (blen HO data) bs ->
  groups_full bs q (blen HO data) ->
  (forall nd, In nd (enc_nodes_raw (blen HO data) bs q) -> stored_ok HO data ob nd) ->
  encode_ranges HO data ob q = (Ok tt, flat HO (honest HO data bs q)).
Proof. exact c08_nonval_sync. Qed.
Print Assumptions C08_nonvalidating_eq_validating.

Theorem C08_nonvalidating_eq_validating_fsm : forall (HO : hops) (data : bytes HO) (bs : N) (q : ranges),
  wf_ranges q = true -> blen HO data <= 2 ^ 63 -> bs <= 10 ->
  forall ob : outboard HO,
  ob_tree ob = mkTree (blen HO data) bs ->
  groups_full bs q (blen HO data) ->
  (forall nd, In nd (enc_nodes_raw (blen HO data) bs q) -> stored_ok_fsm HO data ob nd) ->
  encode_ranges_fsm HO data ob q = (Ok tt, flat HO (honest HO data bs q)).
Proof. exact c08_nonval_fsm. Qed.
Print Assumptions C08_nonvalidating_eq_validating_fsm.

Theorem C08_groups_full_def : forall bs q size,
  groups_full bs q size <->
  (forall c c', sel q size c = true -> c' / 2 ^ bs = c / 2 ^ bs -> c' < nchunks size -> sel q size c' = true).
Proof. exact groups_full_def. Qed.
Print Assumptions C08_groups_full_def.

Theorem C08_enc_nodes_raw_def : forall size bs q,
  enc_nodes_raw size bs q = plan_nodes (pre_plan size bs 0 q).
Proof. exact enc_nodes_raw_def. Qed.
Print Assumptions C08_enc_nodes_raw_def.

(* F6: without groups_full the non-validating encoders differ from the honest encoding (and from the
   validating encoder) on an intact store *)
Theorem C08_nonvalidating_refuted :
  exists (HO : hops) (data : bytes HO) (bs : N) (ob : outboard HO) (q : ranges),
    beq_correct HO /\ wf_ranges q = true /\ q <> [] /\ blen HO data <= 2 ^ 63 /\ bs <= 10 /\
    ob_tree ob = mkTree (blen HO data) bs /\ ob_root ob = root_hash HO data /\
    (forall nd, In nd (enc_nodes_raw (blen HO data) bs q) -> stored_ok HO data ob nd) /\
    (forall nd, In nd (enc_nodes (blen HO data) bs q) -> stored_ok HO data ob nd) /\
    encode_ranges_validated HO data ob q = (Ok tt, flat HO (honest HO data bs q)) /\
    length (snd (encode_ranges HO data ob q)) <> length (flat HO (honest HO data bs q)) /\
    length (snd (encode_ranges_fsm HO data ob q)) <> length (flat HO (honest HO data bs q)).
Proof. exact c08_nonvalidating_refuted. Qed.
Print Assumptions C08_nonvalidating_refuted.
