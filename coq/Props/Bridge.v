(* Bridge: the spec tree of a blob, block size and query (Spec/SpecTree.v) projects to the decoder's
   plan, the honest encoding and the root hash, and is consistent.  Statements only; proofs in
   Proofs/Bridge*.v. *)
From BaoV Require Import Spec.RangeSpec Spec.PlanSpec Spec.EncSpec Spec.PTree Spec.SpecTree Spec.HashAssm.
From BaoV Require Import Proofs.BridgeBase Proofs.BridgeTree Proofs.BridgeGeom Proofs.BridgePlan Proofs.BridgeLeaves.

Theorem Bridge_items : forall (HO : hops) (data : bytes HO) (bs : N) (q : ranges),
  blen HO data <= 2 ^ 63 ->
  items_of HO (spec_tree HO data bs q) = honest HO data bs q.
Proof. exact bridge_items. Qed.
Print Assumptions Bridge_items.

Theorem Bridge_hash_subtree_cv : forall (HO : hops) (data : bytes HO) (a b : N) (r : bool),
  a < b -> b <= nchunks (blen HO data) ->
  hash_subtree HO a (chunk_bytes HO data a b) r = cv HO data a b r.
Proof. exact hash_subtree_cv. Qed.
Print Assumptions Bridge_hash_subtree_cv.

Theorem Bridge_sel_nonempty : forall (q : ranges) (size : N),
  wf_ranges q = true -> q <> [] -> exists c, sel q size c = true.
Proof. exact sel_exists. Qed.
Print Assumptions Bridge_sel_nonempty.

Theorem Bridge_cv : forall (HO : hops) (data : bytes HO) (bs : N) (q : ranges),
  wf_ranges q = true -> q <> [] -> blen HO data <= 2 ^ 63 ->
  cv_of HO (spec_tree HO data bs q) = root_hash HO data.
Proof. exact bridge_cv. Qed.
Print Assumptions Bridge_cv.

Theorem Bridge_consistent : forall (HO : hops), cv_len32 HO ->
  forall (data : bytes HO) (bs : N) (q : ranges),
  blen HO data <= 2 ^ 63 -> consistent HO (spec_tree HO data bs q).
Proof. exact bridge_consistent. Qed.
Print Assumptions Bridge_consistent.

(* leaf_in HO T s r d  (Proofs/BridgeTree.v): PLeaf s r d occurs in the plan tree T *)
Theorem Bridge_leaves : forall (HO : hops) (data : bytes HO) (bs : N) (q : ranges) (s : N) (r : bool) (d : bytes HO),
  let size := blen HO data in
  size <= 2 ^ 63 ->
  leaf_in HO (spec_tree HO data bs q) s r d ->
  blen HO d <= 2 ^ bs * 1024 /\ s < 2 ^ 54 /\
  exists e, s < e /\ e <= nchunks size /\ e - s <= 2 ^ bs /\
            d = chunk_bytes HO data s e /\ blen HO d = span_bytes size s e /\
            (forall c, s <= c < e -> sel q size c = true).
Proof. exact bridge_leaves. Qed.
Print Assumptions Bridge_leaves.

(* ---- the geometric heart: the decoder's plan ---- *)
(* the query summaries evaluated on the truncated query are existsb / forallb of the selection over
   the chunks of the node inside the blob.  Non-rightmost nodes [a, e) end strictly before the end of
   the blob (their right sibling has a chunk inside); rightmost nodes are clipped to [a, nchunks). *)
Theorem Bridge_q_any : forall (q : ranges) (size a e : N) (rightmost : bool),
  wf_ranges q = true ->
  a < nchunks size -> (rightmost = false -> a < e /\ e < nchunks size) ->
  q_any (truncate_ranges q size) a e rightmost =
  existsb (sel q size) (chunk_range_list a (if rightmost then nchunks size else e)).
Proof. exact bridge_q_any. Qed.
Print Assumptions Bridge_q_any.

Theorem Bridge_q_full : forall (q : ranges) (size a e : N) (rightmost : bool),
  wf_ranges q = true ->
  (rightmost = true -> a + 1 < nchunks size) -> (rightmost = false -> a < e /\ e < nchunks size) ->
  q_full (truncate_ranges q size) a e rightmost =
  forallb (sel q size) (chunk_range_list a (if rightmost then nchunks size else e)).
Proof. exact bridge_q_full. Qed.
Print Assumptions Bridge_q_full.

(* the side conditions above are needed *)
Theorem Bridge_q_full_last_refuted :
  exists q size a e, wf_ranges q = true /\ a + 1 = nchunks size /\
    q_full (truncate_ranges q size) a e true <> forallb (sel q size) (chunk_range_list a (nchunks size)).
Proof. exact bridge_q_full_last_refuted. Qed.
Print Assumptions Bridge_q_full_last_refuted.

Theorem Bridge_q_any_inner_end_refuted :
  exists q size a e, wf_ranges q = true /\ a < e /\ e = nchunks size /\
    q_any (truncate_ranges q size) a e false <> existsb (sel q size) (chunk_range_list a e).
Proof. exact bridge_q_any_inner_end_refuted. Qed.
Print Assumptions Bridge_q_any_inner_end_refuted.

Theorem Bridge_plan : forall (HO : hops) (data : bytes HO) (bs : N) (q : ranges),
  wf_ranges q = true -> blen HO data <= 2 ^ 63 ->
  plan_of HO (spec_tree HO data bs q) =
  pre_plan (blen HO data) 0 bs (truncate_ranges q (blen HO data)).
Proof. exact bridge_plan. Qed.
Print Assumptions Bridge_plan.

Theorem Bridge_exists : forall (HO : hops), cv_len32 HO ->
  forall (data : bytes HO) (bs : N) (q : ranges),
  wf_ranges q = true -> q <> [] -> blen HO data <= 2 ^ 63 ->
  exists T, consistent HO T /\
    plan_of HO T = pre_plan (blen HO data) 0 bs (truncate_ranges q (blen HO data)) /\
    items_of HO T = honest HO data bs q /\
    cv_of HO T = root_hash HO data.
Proof. exact bridge_exists. Qed.
Print Assumptions Bridge_exists.

(* ---- C04 / C14: the honest encoding depends on the query only through the selection ---- *)
Theorem Bridge_function_of_selection : forall (HO : hops) (data : bytes HO) (bs : N) (q1 q2 : ranges),
  (forall c, sel q1 (blen HO data) c = sel q2 (blen HO data) c) ->
  honest HO data bs q1 = honest HO data bs q2.
Proof. exact bridge_function_of_selection. Qed.
Print Assumptions Bridge_function_of_selection.

Theorem Bridge_tree_function_of_selection : forall (HO : hops) (data : bytes HO) (bs : N) (q1 q2 : ranges),
  (forall c, sel q1 (blen HO data) c = sel q2 (blen HO data) c) ->
  spec_tree HO data bs q1 = spec_tree HO data bs q2.
Proof. exact bridge_tree_function_of_selection. Qed.
Print Assumptions Bridge_tree_function_of_selection.

Theorem Bridge_truncate_honest : forall (HO : hops) (data : bytes HO) (bs : N) (q : ranges),
  wf_ranges q = true ->
  honest HO data bs (truncate_ranges q (blen HO data)) = honest HO data bs q.
Proof. exact bridge_truncate_honest. Qed.
Print Assumptions Bridge_truncate_honest.

(* ---- the leaves of the honest encoding are exactly the selection ----
   write_leaves HO t items (Proofs/BridgeLeaves.v) = fold the decoder's positioned write
   (write_at HO target offset bytes, Model/Outboard.v) of every ILeaf item of `items` over the target t,
   in order; IParent items do not touch the target.  For any target of the blob's length (a zero-filled
   one in particular: t = zeros HO (length data)) the result has the blob's length, equals the blob on
   every selected chunk and the old target on every other chunk. *)
Theorem Bridge_leaves_are_selection : forall (HO : hops) (data t : bytes HO) (bs : N) (q : ranges),
  let size := blen HO data in
  size <= 2 ^ 63 -> length t = length data ->
  let out := write_leaves HO t (honest HO data bs q) in
  blen HO out = size /\
  forall c, c < nchunks size ->
    chunk_bytes HO out c (c + 1) =
    if sel q size c then chunk_bytes HO data c (c + 1) else chunk_bytes HO t c (c + 1).
Proof. exact bridge_leaves_are_selection. Qed.
Print Assumptions Bridge_leaves_are_selection.

(* every leaf item carries the bytes of a run [s, e) of selected chunks, at most one chunk group long,
   at byte offset s * 1024 *)
Theorem Bridge_leaf_items : forall (HO : hops) (data : bytes HO) (bs : N) (q : ranges) (off : N) (d : bytes HO),
  let size := blen HO data in
  size <= 2 ^ 63 ->
  In (ILeaf off d) (honest HO data bs q) ->
  exists s e, off = s * 1024 /\ s < e /\ e <= nchunks size /\ e - s <= 2 ^ bs /\
              d = chunk_bytes HO data s e /\ (forall c, s <= c < e -> sel q size c = true).
Proof. exact bridge_leaf_items. Qed.
Print Assumptions Bridge_leaf_items.
