(* C11 - results do not depend on how the transport slices the bytes (short reads, Interrupted returns,
   Pending polls).  Statements only; proofs in Proofs/. *)
From BaoV Require Import Model.IOSched Proofs.IOReadExact Proofs.IODecodeIndep.

(* std Read::read_exact over any schedule = the read on the plain byte list *)
Theorem C11_read_exact_indep : forall (HO : hops) (r : reader HO) (len : N),
  rd_fail HO r = None -> len <= blen HO (rd_rest HO r) ->
  exists r', read_exact_sync HO r len = (Ok (firstn (N.to_nat len) (rd_rest HO r)), r') /\
    rd_rest HO r' = skipn (N.to_nat len) (rd_rest HO r) /\ rd_fail HO r' = None /\
    (exists consumed, rd_sched HO r = consumed ++ rd_sched HO r').
Proof. exact read_exact_sync_enough. Qed.
Print Assumptions C11_read_exact_indep.

Theorem C11_read_exact_indep_eof : forall (HO : hops) (r : reader HO) (len : N),
  rd_fail HO r = None -> blen HO (rd_rest HO r) < len ->
  exists r', read_exact_sync HO r len = (Err KUnexpectedEof, r') /\ rd_fail HO r' = None /\
    (exists consumed, rd_sched HO r = consumed ++ rd_sched HO r').
Proof. exact read_exact_sync_short. Qed.
Print Assumptions C11_read_exact_indep_eof.

Theorem C11_read_exact_indep_plain : forall (HO : hops) (r : reader HO) (len : N),
  rd_fail HO r = None ->
  fst (read_exact_sync HO r len) = fst (read_exact_sync HO (plain_reader HO (rd_rest HO r)) len).
Proof. exact read_exact_sync_plain. Qed.
Print Assumptions C11_read_exact_indep_plain.

(* tokio read_exact: no Interrupted retry, so for schedules without EIntr *)
Theorem C11_tokio_read_exact_indep : forall (HO : hops) (r : reader HO) (len : N),
  rd_fail HO r = None -> (forall e, In e (rd_sched HO r) -> e <> EIntr) -> len <= blen HO (rd_rest HO r) ->
  exists r', tokio_read_n HO r len = (Ok (firstn (N.to_nat len) (rd_rest HO r)), r') /\
    rd_rest HO r' = skipn (N.to_nat len) (rd_rest HO r) /\ rd_fail HO r' = None /\
    (exists consumed, rd_sched HO r = consumed ++ rd_sched HO r').
Proof. exact tokio_read_n_enough. Qed.
Print Assumptions C11_tokio_read_exact_indep.

Theorem C11_tokio_read_exact_indep_eof : forall (HO : hops) (r : reader HO) (len : N),
  rd_fail HO r = None -> (forall e, In e (rd_sched HO r) -> e <> EIntr) -> blen HO (rd_rest HO r) < len ->
  exists r', tokio_read_n HO r len = (Err KUnexpectedEof, r') /\ rd_fail HO r' = None /\
    (exists consumed, rd_sched HO r = consumed ++ rd_sched HO r').
Proof. exact tokio_read_n_short. Qed.
Print Assumptions C11_tokio_read_exact_indep_eof.

(* read_bytes_exact = take(len).read_to_end + length check.  tokio's read_to_end (unlike std's) returns an
   Interrupted of the transport instead of retrying it, so again for schedules without EIntr
   (C11_tokio_read_bytes_interrupted_is_propagated below: the hypothesis is needed) *)
Theorem C11_tokio_read_bytes_exact_indep : forall (HO : hops) (r : reader HO) (len : N),
  rd_fail HO r = None -> (forall e, In e (rd_sched HO r) -> e <> EIntr) -> len <= blen HO (rd_rest HO r) ->
  exists r', tokio_read_bytes_exact HO r len = (Ok (firstn (N.to_nat len) (rd_rest HO r)), r') /\
    rd_rest HO r' = skipn (N.to_nat len) (rd_rest HO r) /\ rd_fail HO r' = None /\
    (exists consumed, rd_sched HO r = consumed ++ rd_sched HO r').
Proof. exact tokio_read_bytes_exact_enough. Qed.
Print Assumptions C11_tokio_read_bytes_exact_indep.

Theorem C11_tokio_read_bytes_exact_indep_eof : forall (HO : hops) (r : reader HO) (len : N),
  rd_fail HO r = None -> (forall e, In e (rd_sched HO r) -> e <> EIntr) -> blen HO (rd_rest HO r) < len ->
  exists r', tokio_read_bytes_exact HO r len = (Err KUnexpectedEof, r') /\ rd_fail HO r' = None /\
    (exists consumed, rd_sched HO r = consumed ++ rd_sched HO r').
Proof. exact tokio_read_bytes_exact_short. Qed.
Print Assumptions C11_tokio_read_bytes_exact_indep_eof.

(* the hypothesis is needed: one byte, then an Interrupted, with both bytes available: Err(Interrupted) *)
Theorem C11_tokio_read_bytes_interrupted_is_propagated : forall (HO : hops),
  tokio_read_bytes_exact HO (mkRd HO [bzero HO; bzero HO] [EFrag 1; EIntr] 0 None) 2
  = (Err KInterrupted, mkRd HO [bzero HO] [] 2 None).
Proof. exact tokio_read_bytes_interrupted_is_propagated. Qed.
Print Assumptions C11_tokio_read_bytes_interrupted_is_propagated.

(* the sync decoder: same items, same outcome, for every stream and every schedule *)
Theorem C11_decode_indep_sync : forall (HO : hops) root t (stream : bytes HO) (sched : list ev) q,
  fst (dec_run_r HO (dec_new_r HO root t (mkRd HO stream sched 0 None) q))
  = fst (dec_run HO (dec_new HO root t stream q)).
Proof. exact decode_indep_sync. Qed.
Print Assumptions C11_decode_indep_sync.

(* ... and the same final iterator, stack and - unless the run ended at the end of the stream - unread remainder *)
Theorem C11_decode_indep_sync_state : forall (HO : hops) root t (stream : bytes HO) (sched : list ev) q,
  let x := dec_run_r HO (dec_new_r HO root t (mkRd HO stream sched 0 None) q) in
  let y := dec_run HO (dec_new HO root t stream q) in
  dr_inner HO (snd x) = d_inner HO (snd y) /\ dr_stack HO (snd x) = d_stack HO (snd y) /\
  (match snd (fst x) with Failed (DParentNotFound _) | Failed (DLeafNotFound _) => true | _ => false end = false ->
   rd_rest HO (dr_rd HO (snd x)) = d_enc HO (snd y)).
Proof. exact decode_indep_sync_state. Qed.
Print Assumptions C11_decode_indep_sync_state.

(* the fsm decoder (tokio read_exact for parents, tokio take(len).read_to_end for leaves; neither retries an
   Interrupted): same for every schedule without Interrupted *)
Theorem C11_decode_indep_fsm : forall (HO : hops) root q t (stream : bytes HO) (sched : list ev),
  (forall e, In e sched -> e <> EIntr) ->
  fst (rd_run_r HO (rd_new_r HO root q t (mkRd HO stream sched 0 None)))
  = fst (rd_run HO (rd_new HO root q t stream)).
Proof. exact decode_indep_fsm. Qed.
Print Assumptions C11_decode_indep_fsm.

Theorem C11_decode_indep_fsm_state : forall (HO : hops) root q t (stream : bytes HO) (sched : list ev),
  (forall e, In e sched -> e <> EIntr) ->
  let x := rd_run_r HO (rd_new_r HO root q t (mkRd HO stream sched 0 None)) in
  let y := rd_run HO (rd_new HO root q t stream) in
  rr_iter HO (snd x) = r_iter HO (snd y) /\ rr_stack HO (snd x) = r_stack HO (snd y) /\
  (match snd (fst x) with Failed (DParentNotFound _) | Failed (DLeafNotFound _) => true | _ => false end = false ->
   rd_rest HO (rr_rd HO (snd x)) = r_enc HO (snd y)).
Proof. exact decode_indep_fsm_state. Qed.
Print Assumptions C11_decode_indep_fsm_state.

(* the hypothesis is needed: an Interrupted during a parent read is not retried ... *)
Theorem C11_decode_fsm_interrupted_differs : forall (HO : hops),
  fst (rd_run_r HO (rd_new_r HO [] [0] (mkTree 2048 0) (mkRd HO [] [EIntr] 0 None))) = ([], Failed (DIo KInterrupted)) /\
  fst (rd_run HO (rd_new HO [] [0] (mkTree 2048 0) [])) = ([], Failed (DParentNotFound 0)).
Proof. exact decode_fsm_interrupted_differs. Qed.
Print Assumptions C11_decode_fsm_interrupted_differs.

(* ... nor is one during a LEAF read (one leaf of 2 bytes, both present; the transport hands out one byte, then
   returns Interrupted): the run fails with Io(Interrupted), which the run over the plain bytes never reports *)
Theorem C11_decode_fsm_leaf_interrupted_is_propagated : forall (HO : hops) root,
  fst (rd_run_r HO (rd_new_r HO root [0] (mkTree 2 0) (mkRd HO [bzero HO; bzero HO] [EFrag 1; EIntr] 0 None)))
    = ([], Failed (DIo KInterrupted)) /\
  snd (fst (rd_run HO (rd_new HO root [0] (mkTree 2 0) [bzero HO; bzero HO]))) <> Failed (DIo KInterrupted).
Proof. exact decode_fsm_leaf_interrupted_is_propagated. Qed.
Print Assumptions C11_decode_fsm_leaf_interrupted_is_propagated.

(* outboard creation: same result (root or error), same written bytes *)
Theorem C11_outboard_indep : forall (HO : hops) t (data : bytes HO) (sched : list ev),
  fst (outboard_post_order_r HO t (mkRd HO data sched 0 None)) = fst (outboard_post_order HO t data).
Proof. exact outboard_indep. Qed.
Print Assumptions C11_outboard_indep.

Theorem C11_outboard_indep_rest : forall (HO : hops) t (data : bytes HO) (sched : list ev),
  fst (fst (outboard_post_order_r HO t (mkRd HO data sched 0 None))) <> Err KUnexpectedEof ->
  rd_rest HO (snd (outboard_post_order_r HO t (mkRd HO data sched 0 None))) = snd (outboard_post_order HO t data).
Proof. exact outboard_indep_rest. Qed.
Print Assumptions C11_outboard_indep_rest.

(* ======================================================================================================
   Gap audit additions (Proofs/GapC10Read.v for the creation loop, Proofs/GapC11Env.v for the environment)
   ====================================================================================================== *)
From BaoV Require Import Proofs.GapC10Read Proofs.GapC11Env.

(* sync::outboard (outboard creation INTO AN OUTBOARD STORE, any store kind) reading the blob through any
   schedule: same result (root or error) and same stored outboard as over the plain bytes *)
Theorem C11_outboard_impl_indep : forall (HO : hops) t (data : bytes HO) (sched : list ev) (ob : outboard HO),
  fst (outboard_impl_r HO t (mkRd HO data sched 0 None) ob) = fst (outboard_impl HO t data ob).
Proof. exact outboard_impl_indep. Qed.
Print Assumptions C11_outboard_impl_indep.
Theorem C11_outboard_impl_indep_rest : forall (HO : hops) t (data : bytes HO) (sched : list ev) (ob : outboard HO),
  fst (fst (outboard_impl_r HO t (mkRd HO data sched 0 None) ob)) <> Err KUnexpectedEof ->
  rd_rest HO (snd (outboard_impl_r HO t (mkRd HO data sched 0 None) ob)) = snd (outboard_impl HO t data ob).
Proof. exact outboard_impl_indep_rest. Qed.
Print Assumptions C11_outboard_impl_indep_rest.

(* ---- the two loops the model treats as atomic (ENVIRONMENT model of Proofs/GapC11Env.v, not crate code):
   a sink taking a short count per write call (std / tokio write_all over it), a positioned store returning a
   short count per read_at call (positioned_io read_exact_at over it) ---- *)
(* every stream write of the sync code is `out ++ buf`, whatever the sink's schedule *)
Theorem C11_write_all_indep : forall (HO : hops) (w : sink HO) (buf : bytes HO), sk_cap HO w = None ->
  exists w', write_all_sync HO w buf = (Ok tt, w') /\ sk_out HO w' = sk_out HO w ++ buf /\ sk_cap HO w' = None /\
     suffix (sk_sched HO w') (sk_sched HO w).
Proof. exact write_all_sync_indep. Qed.
Print Assumptions C11_write_all_indep.
(* tokio's write_all (fsm writers): the same for schedules without Interrupted ... *)
Theorem C11_write_all_tokio_indep : forall (HO : hops) (w : sink HO) (buf : bytes HO), sk_cap HO w = None ->
  (forall e, In e (sk_sched HO w) -> e <> EIntr) ->
  exists w', write_all_tokio HO w buf = (Ok tt, w') /\ sk_out HO w' = sk_out HO w ++ buf /\ sk_cap HO w' = None /\
     suffix (sk_sched HO w') (sk_sched HO w).
Proof. exact write_all_tokio_indep. Qed.
Print Assumptions C11_write_all_tokio_indep.
(* ... the hypothesis is needed *)
Theorem C11_write_all_tokio_interrupted_is_propagated : forall (HO : hops),
  write_all_tokio HO (mkSink HO [] [EIntr] None) [bzero HO] = (Err KInterrupted, mkSink HO [] [] None).
Proof. exact write_all_tokio_interrupted_is_propagated. Qed.
Print Assumptions C11_write_all_tokio_interrupted_is_propagated.
(* a sink that is full after `cap` bytes: Ok iff everything fits, else WriteZero with exactly the first `cap` bytes
   stored, whatever the schedule *)
Theorem C11_write_all_full : forall (HO : hops) (w : sink HO) (buf : bytes HO) cap,
  sk_cap HO w = Some cap -> blen HO (sk_out HO w) <= cap ->
  exists w', write_all_sync HO w buf
             = ((if blen HO (sk_out HO w) + blen HO buf <=? cap then Ok tt else Err KWriteZero), w') /\
     sk_out HO w' = sk_out HO w ++ take HO (cap - blen HO (sk_out HO w)) buf /\ sk_cap HO w' = Some cap /\
     suffix (sk_sched HO w') (sk_sched HO w).
Proof. exact write_all_sync_full. Qed.
Print Assumptions C11_write_all_full.
(* every positioned exact read of the sync code (encoders, validators, outboard loads) is the model's atomic
   read_exact_at, whatever short counts / Interrupted returns the store produces *)
Theorem C11_read_exact_at_indep : forall (HO : hops) (p : pstore HO) off len,
  exists p', read_exact_at_sched HO p off len = (read_exact_at HO (ps_data HO p) off len, p') /\
     ps_data HO p' = ps_data HO p /\ suffix (ps_sched HO p') (ps_sched HO p).
Proof. exact read_exact_at_sched_indep. Qed.
Print Assumptions C11_read_exact_at_indep.
(* put together for sync::encode_ranges (`encode_ranges_env`: the model's encode_loop with its data reads and its
   writes going through the two scheduled environments): result and bytes written are the model's *)
Theorem C11_encode_ranges_env_indep : forall (HO : hops) (p : pstore HO) (ob : outboard HO) q ws,
  exists p' w', encode_ranges_env HO p ob q (mkSink HO [] ws None) = (fst (encode_ranges HO (ps_data HO p) ob q), p', w') /\
     sk_out HO w' = snd (encode_ranges HO (ps_data HO p) ob q) /\ ps_data HO p' = ps_data HO p /\
     suffix (ps_sched HO p') (ps_sched HO p) /\ suffix (sk_sched HO w') ws.
Proof. exact encode_ranges_env_indep. Qed.
Print Assumptions C11_encode_ranges_env_indep.
