(* C11 statements; proofs in Proofs/. *)
From BaoV Require Import Model.IOSched.
