(* C20 statements; proofs in Proofs/DecConst.v. *)
From BaoV Require Import Model.Fsm Spec.EncSpec Spec.PTree.
From Coq Require Import Arith.
From BaoV Require Import Proofs.DecLoop Proofs.DecForest Proofs.DecConst.

(* dec_reach st0 st / rd_reach st0 st: st is reached from st0 by any number of calls of next,
   whatever they returned (Ok, Err or Panic) *)
Theorem C20_reach_def : forall HO (st0 : dstate HO) (r0 : rstate HO),
  dec_reach HO st0 st0 /\
  (forall st r st', dec_reach HO st0 st -> dec_next HO st = Some (r, st') -> dec_reach HO st0 st') /\
  rd_reach HO r0 r0 /\
  (forall st r st', rd_reach HO r0 st -> rd_next HO st = RMore st' r -> rd_reach HO r0 st').
Proof. exact reach_def. Qed.
Print Assumptions C20_reach_def.

Theorem C20_tree_const : forall HO root t enc q,
  (forall st, dec_reach HO (dec_new HO root t enc q) st ->
     dec_tree HO st = t /\ dec_tree HO st = mkTree (tsize t) (tbs t)) /\
  (forall st, rd_reach HO (rd_new HO root q t enc) st ->
     rd_tree HO st = t /\ rd_tree HO st = mkTree (tsize t) (tbs t)).
Proof. exact tree_const. Qed.
Print Assumptions C20_tree_const.

Theorem C20_hash_const : forall HO root q t enc st,
  rd_reach HO (rd_new HO root q t enc) st -> rd_hash HO st = Some root.
Proof. exact rd_hash_const. Qed.
Print Assumptions C20_hash_const.

(* rd_ok_run st0 ys st: st is reached from st0 by successful calls of next that yielded ys *)
Theorem C20_ok_run_def : forall HO (st0 : rstate HO),
  rd_ok_run HO st0 [] st0 /\
  (forall ys st it st', rd_ok_run HO st0 ys st -> rd_next HO st = RMore st' (Ok it) ->
     rd_ok_run HO st0 (ys ++ [it]) st').
Proof. exact ok_run_def. Qed.
Print Assumptions C20_ok_run_def.

(* the reader handed back by finish() or by the final next() is the stream minus exactly the bytes
   of the items yielded so far, for honest and dishonest streams alike *)
Theorem C20_reader_position : forall HO root q t (stream : bytes HO) ys st,
  rd_ok_run HO (rd_new HO root q t stream) ys st ->
  stream = flat_items HO ys ++ rd_finish HO st /\
  (forall reader, rd_next HO st = RDone reader -> stream = flat_items HO ys ++ reader).
Proof. exact rd_reader_position. Qed.
Print Assumptions C20_reader_position.

(* the sync decoder's remaining stream likewise *)
Theorem C20_sync_position : forall HO root t (stream : bytes HO) q ys st,
  dec_ok_run HO (dec_new HO root t stream q) ys st ->
  stream = flat_items HO ys ++ d_enc HO st.
Proof. exact dec_reader_position. Qed.
Print Assumptions C20_sync_position.

(* ======== End-to-end composition (proofs in Proofs/E2EMisc.v) ======== *)
From BaoV Require Import Spec.HashAssm Spec.RangeSpec Proofs.E2EGlue Proofs.E2EDecode Proofs.E2EMisc.

(* on the honest encoding of a blob followed by `rest`, the reader set up for (root hash, tree, q) makes
   exactly the honest items in successful calls of next, and the following call of next hands back the
   reader positioned at `rest` (as does finish) *)
Theorem C20_e2e_done_position : forall HO, hash_ok HO ->
  forall (data : bytes HO) (bs : N) (q : ranges),
  (blen HO data <= 2 ^ 63)%N -> (bs <= 10)%N -> wf_ranges q = true -> q <> [] ->
  forall rest : bytes HO,
  exists st,
    rd_ok_run HO (rd_new HO (root_hash HO data) q (mkTree (blen HO data) bs)
                         (flat HO (honest HO data bs q) ++ rest))
              (honest HO data bs q) st /\
    rd_next HO st = RDone rest /\ rd_finish HO st = rest.
Proof. exact e2e_done_position. Qed.
Print Assumptions C20_e2e_done_position.

(* the sync decoder likewise: after exactly the honest items next returns None with `rest` unread *)
Theorem C20_e2e_done_position_sync : forall HO, hash_ok HO ->
  forall (data : bytes HO) (bs : N) (q : ranges),
  (blen HO data <= 2 ^ 63)%N -> (bs <= 10)%N -> wf_ranges q = true -> q <> [] ->
  forall rest : bytes HO,
  exists st,
    dec_ok_run HO (dec_new HO (root_hash HO data) (mkTree (blen HO data) bs)
                           (flat HO (honest HO data bs q) ++ rest) q)
               (honest HO data bs q) st /\
    dec_next HO st = None /\ d_enc HO st = rest.
Proof. exact e2e_done_position_sync. Qed.
Print Assumptions C20_e2e_done_position_sync.
