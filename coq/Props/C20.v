(* C20 statements; proofs in Proofs/DecConst.v. *)
From BaoV Require Import Model.Fsm Spec.EncSpec Spec.PTree.
From Coq Require Import Arith.
From BaoV Require Import Proofs.DecLoop Proofs.DecForest Proofs.DecConst.

(* dec_reach st0 st / rd_reach st0 st: st is reached from st0 by any number of calls of next,
   whatever they returned (Ok, Err or Panic) *)
Theorem C20_reach_def : forall HO (st0 : dstate HO) (r0 : rstate HO),
  dec_reach HO st0 st0 /\
  (forall st r st', dec_reach HO st0 st -> dec_next HO st = Some (r, st') -> dec_reach HO st0 st') /\
  rd_reach HO r0 r0 /\
  (forall st r st', rd_reach HO r0 st -> rd_next HO st = RMore st' r -> rd_reach HO r0 st').
Proof. exact reach_def. Qed.
Print Assumptions C20_reach_def.

Theorem C20_tree_const : forall HO root t enc q,
  (forall st, dec_reach HO (dec_new HO root t enc q) st ->
     dec_tree HO st = t /\ dec_tree HO st = mkTree (tsize t) (tbs t)) /\
  (forall st, rd_reach HO (rd_new HO root q t enc) st ->
     rd_tree HO st = t /\ rd_tree HO st = mkTree (tsize t) (tbs t)).
Proof. exact tree_const. Qed.
Print Assumptions C20_tree_const.

Theorem C20_hash_const : forall HO root q t enc st,
  rd_reach HO (rd_new HO root q t enc) st -> rd_hash HO st = Some root.
Proof. exact rd_hash_const. Qed.
Print Assumptions C20_hash_const.

(* rd_ok_run st0 ys st: st is reached from st0 by successful calls of next that yielded ys *)
Theorem C20_ok_run_def : forall HO (st0 : rstate HO),
  rd_ok_run HO st0 [] st0 /\
  (forall ys st it st', rd_ok_run HO st0 ys st -> rd_next HO st = RMore st' (Ok it) ->
     rd_ok_run HO st0 (ys ++ [it]) st').
Proof. exact ok_run_def. Qed.
Print Assumptions C20_ok_run_def.

(* the reader handed back by finish() or by the final next() is the stream minus exactly the bytes
   of the items yielded so far, for honest and dishonest streams alike *)
Theorem C20_reader_position : forall HO root q t (stream : bytes HO) ys st,
  rd_ok_run HO (rd_new HO root q t stream) ys st ->
  stream = flat_items HO ys ++ rd_finish HO st /\
  (forall reader, rd_next HO st = RDone reader -> stream = flat_items HO ys ++ reader).
Proof. exact rd_reader_position. Qed.
Print Assumptions C20_reader_position.

(* the sync decoder's remaining stream likewise *)
Theorem C20_sync_position : forall HO root t (stream : bytes HO) q ys st,
  dec_ok_run HO (dec_new HO root t stream q) ys st ->
  stream = flat_items HO ys ++ d_enc HO st.
Proof. exact dec_reader_position. Qed.
Print Assumptions C20_sync_position.

(* ======== End-to-end composition (proofs in Proofs/E2EMisc.v) ======== *)
From BaoV Require Import Spec.HashAssm Spec.RangeSpec Proofs.E2EGlue Proofs.E2EDecode Proofs.E2EMisc.

(* on the honest encoding of a blob followed by `rest`, the reader set up for (root hash, tree, q) makes
   exactly the honest items in successful calls of next, and the following call of next hands back the
   reader positioned at `rest` (as does finish) *)
Theorem C20_e2e_done_position : forall HO, hash_ok HO ->
  forall (data : bytes HO) (bs : N) (q : ranges),
  (blen HO data <= 2 ^ 63)%N -> (bs <= 10)%N -> wf_ranges q = true -> q <> [] ->
  forall rest : bytes HO,
  exists st,
    rd_ok_run HO (rd_new HO (root_hash HO data) q (mkTree (blen HO data) bs)
                         (flat HO (honest HO data bs q) ++ rest))
              (honest HO data bs q) st /\
    rd_next HO st = RDone rest /\ rd_finish HO st = rest.
Proof. exact e2e_done_position. Qed.
Print Assumptions C20_e2e_done_position.

(* the sync decoder likewise: after exactly the honest items next returns None with `rest` unread *)
Theorem C20_e2e_done_position_sync : forall HO, hash_ok HO ->
  forall (data : bytes HO) (bs : N) (q : ranges),
  (blen HO data <= 2 ^ 63)%N -> (bs <= 10)%N -> wf_ranges q = true -> q <> [] ->
  forall rest : bytes HO,
  exists st,
    dec_ok_run HO (dec_new HO (root_hash HO data) (mkTree (blen HO data) bs)
                           (flat HO (honest HO data bs q) ++ rest) q)
               (honest HO data bs q) st /\
    dec_next HO st = None /\ d_enc HO st = rest.
Proof. exact e2e_done_position_sync. Qed.
Print Assumptions C20_e2e_done_position_sync.

(* ======== Gap audit: accessors and the reader position over ANY sequence of calls of next, with what each
   call returned (errors and calls after errors included) ========
   Proofs in Proofs/GapPolls.v, GapDrivers.v, GapStatements.v, GapNonvac.v. *)
From BaoV Require Import Spec.HashAssm.
From BaoV Require Proofs.PlanRun.
From BaoV Require Import Proofs.GapPolls Proofs.GapDrivers Proofs.GapStatements Proofs.GapNonvac.

(* dec_polls / rd_polls (C01_polls_def): the states of dec_reach / rd_reach together with the results of the calls *)
Theorem C20_polls_reach : forall HO (st0 st : dstate HO) (r0 r : rstate HO),
  (dec_reach HO st0 st <-> exists tr, dec_polls HO st0 tr st) /\
  (rd_reach HO r0 r <-> exists tr, rd_polls HO r0 tr r).
Proof. exact polls_reach. Qed.
Print Assumptions C20_polls_reach.

(* after any calls of next, whatever they returned: the geometry and the hash reported are those given at
   construction, and finish() hands back a suffix of the stream given at construction *)
Theorem C20_accessors_over_polls : forall HO root t (enc : bytes HO) q tr,
  (forall st, dec_polls HO (dec_new HO root t enc q) tr st -> dec_tree HO st = t) /\
  (forall st, rd_polls HO (rd_new HO root q t enc) tr st ->
     rd_tree HO st = t /\ rd_hash HO st = Some root /\ exists pre, enc = pre ++ rd_finish HO st).
Proof. exact accessors_over_polls. Qed.
Print Assumptions C20_accessors_over_polls.

(* plan_bytes plan: the bytes of the plan items (64 per parent, the leaf size per leaf) *)
Theorem C20_plan_bytes_def :
  plan_bytes [] = 0%nat /\
  (forall n ir lf rt rs p, plan_bytes (CParent n ir lf rt rs :: p) = (64 + plan_bytes p)%nat) /\
  (forall s z ir rs p, plan_bytes (CLeaf s z ir rs :: p) = (N.to_nat z + plan_bytes p)%nat).
Proof. exact plan_bytes_def. Qed.
Print Assumptions C20_plan_bytes_def.

(* the reader of the fsm decoder after ANY calls of next: always a suffix of the stream, and the reader handed back
   by a final next() is the one finish() hands back; as long as no call reported "not found" (hash mismatches and
   the calls after them included) it stands exactly after the bytes of the plan items polled so far *)
Theorem C20_reader_position_any : forall HO root q t (stream : bytes HO) tr st,
  rd_polls HO (rd_new HO root q t stream) tr st ->
  (exists pre, stream = pre ++ rd_finish HO st) /\
  (forall reader, rd_next HO st = RDone reader -> reader = rd_finish HO st) /\
  (Forall (fun r => forall n, r <> Err (DParentNotFound n) /\ r <> Err (DLeafNotFound n)) tr ->
   exists plan, PlanRun.steps response_next (response_new t (truncate_ranges_owned q (tsize t))) plan (Fsm.r_iter HO st) /\
     length plan = length tr /\
     stream = firstn (plan_bytes plan) stream ++ rd_finish HO st /\ (plan_bytes plan <= length stream)%nat).
Proof. exact position_fsm. Qed.
Print Assumptions C20_reader_position_any.

Theorem C20_sync_position_any : forall HO root t (stream : bytes HO) q tr st,
  dec_polls HO (dec_new HO root t stream q) tr st ->
  (exists pre, stream = pre ++ d_enc HO st) /\
  (Forall (fun r => forall n, r <> Err (DParentNotFound n) /\ r <> Err (DLeafNotFound n)) tr ->
   exists plan, PlanRun.steps response_next (response_new t (truncate_ranges q (tsize t))) plan (d_inner HO st) /\
     length plan = length tr /\
     stream = firstn (plan_bytes plan) stream ++ d_enc HO st /\ (plan_bytes plan <= length stream)%nat).
Proof. exact position_sync. Qed.
Print Assumptions C20_sync_position_any.

(* one call of next, result by result: where the reader stands afterwards (fsm: finish(); sync: the reader field).
   A parent not-found error of the fsm decoder consumes nothing; a leaf not-found error, and both not-found
   errors of the sync iterator, drain the reader; every other result consumes exactly the item *)
Theorem C20_next_position : forall HO (st : rstate HO) st' r, rd_next HO st = RMore st' r ->
  match r with
  | Ok it => Fsm.r_enc HO st = item_bytes HO it ++ rd_finish HO st'
  | Err (DParentNotFound _) => rd_finish HO st' = Fsm.r_enc HO st /\ (blen HO (Fsm.r_enc HO st) < 64)%N
  | Err (DLeafNotFound _) => rd_finish HO st' = []
  | Err (DParentHashMismatch _) => exists pair, length pair = 64%nat /\ Fsm.r_enc HO st = pair ++ rd_finish HO st'
  | Err (DLeafHashMismatch _) => exists d, Fsm.r_enc HO st = d ++ rd_finish HO st'
  | Err (DIo _) => False
  | Panic => Fsm.r_stack HO st = []
  end.
Proof. exact next_position. Qed.
Print Assumptions C20_next_position.

Theorem C20_next_position_sync : forall HO (st : dstate HO) st' r, dec_next HO st = Some (r, st') ->
  match r with
  | Ok it => d_enc HO st = item_bytes HO it ++ d_enc HO st'
  | Err (DParentNotFound _) | Err (DLeafNotFound _) => d_enc HO st' = []
  | Err (DParentHashMismatch _) | Err (DLeafHashMismatch _) => exists d, d_enc HO st = d ++ d_enc HO st'
  | Err (DIo _) => False
  | Panic => d_stack HO st = []
  end.
Proof. exact next_position_sync. Qed.
Print Assumptions C20_next_position_sync.

(* a sequence of calls through an error in which every call read its item: the exact-position clause applies *)
Theorem C20_reader_position_nonvacuous :
  exists HO, hash_ok HO /\
  exists root q t (stream : bytes HO) tr st e,
    rd_polls HO (rd_new HO root q t stream) tr st /\ Forall (read_fully HO) tr /\
    In (Err e) tr /\ length tr = 3%nat.
Proof. exact position_nonvacuous. Qed.
Print Assumptions C20_reader_position_nonvacuous.

(* read_fully r: r is not one of the two not-found errors *)
Theorem C20_read_fully_def : forall HO (r : res dec_err (item HO)),
  read_fully HO r <-> (forall n, r <> Err (DParentNotFound n) /\ r <> Err (DLeafNotFound n)).
Proof. exact read_fully_iff. Qed.
Print Assumptions C20_read_fully_def.
