(* C07 statements; proofs in Proofs/. *)
From BaoV Require Import Model.IO Spec.EncSpec.
